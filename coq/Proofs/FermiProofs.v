(* Proofs/FermiProofs.v — C03: the fermionic operations of Model/Fermi.v follow
   graded (Grassmann) tensor semantics.

   Part 0: ring laws of negation, signs on tensors.
   Part 1: the odd-odd inversion parity composes:
           inv_parity par (q o r) = inv_parity par q  xor  inv_parity (par o q) r.
   Part 2: the lazy sign table (toggle folds).
   Part 3: value-level description of transpose / phase_flip / phase_transpose.
   Part 4: tensordot: the operands that reach the abelian contraction, branch
           independence at the level of the contributing block pairs.
   Part 5: matmul / trace corollaries. *)
From SV Require Import Base.Prelude Base.Sym Base.Tensor Gen.PhasePerm Model.SymInst Model.Sectors
  Model.Array Model.Arith Model.Fermi Model.Graded Model.Wf
  Proofs.TensorProofs Proofs.GradedProofs Proofs.StructProofs Proofs.SymLaws Proofs.SectorsProofs Proofs.Tdot.
From Coq Require Import Permutation.
Local Open Scope nat_scope.

(* ================================================================ part 0 *)
Record NegLaws (R : Ring) : Prop := {
  rneg_invol : forall a, rneg R (rneg R a) = a;
  rneg_zero : rneg R (r0 R) = r0 R;
  rneg_add : forall a b, rneg R (radd R a b) = radd R (rneg R a) (rneg R b);
  rmul_neg_l : forall a b, rmul R (rneg R a) b = rneg R (rmul R a b);
  rmul_neg_r : forall a b, rmul R a (rneg R b) = rneg R (rmul R a b)
}.

Lemma ZRing_neg_laws : NegLaws ZRing.
Proof. split; cbn [ZRing RT r0 radd rmul rneg]; intros; lia. Qed.

Lemma GRing_neg_laws : NegLaws GRing.
Proof.
  split; cbn [GRing RT r0 radd rmul rneg]; intros.
  - destruct a; cbn [fst snd]; f_equal; lia.
  - reflexivity.
  - destruct a, b; cbn [fst snd]; f_equal; lia.
  - destruct a, b; cbn [fst snd]; f_equal; lia.
  - destruct a, b; cbn [fst snd]; f_equal; lia.
Qed.

Section Sgn.
  Context (R : Ring) (NL : NegLaws R).

  Definition sgn (b : bool) (t : tensor R) : tensor R := if b then tneg R t else t.

  Lemma tneg_invol t : tneg R (tneg R t) = t.
  Proof.
    destruct t as [sh d]. unfold tneg, tmap. cbn [tshape tdata]. f_equal.
    rewrite map_map. rewrite <- (map_id d) at 2. apply map_ext. apply (rneg_invol R NL).
  Qed.

  Lemma sgn_sgn b c t : sgn b (sgn c t) = sgn (xorb b c) t.
  Proof. destruct b, c; cbn [sgn xorb]; [apply tneg_invol | reflexivity..]. Qed.

  Lemma tshape_sgn b t : tshape (sgn b t) = tshape t.
  Proof. destruct b; reflexivity. Qed.

  Lemma get_tneg t idx : get R (tneg R t) idx = rneg R (get R t idx).
  Proof. apply get_tmap. apply (rneg_zero R NL). Qed.

  Lemma tneg_build sh f : tneg R (build R sh f) = build R sh (fun idx => rneg R (f idx)).
  Proof. unfold tneg, tmap, build. cbn [tshape tdata]. now rewrite map_map. Qed.

  Lemma ttranspose_tneg t p : ttranspose R (tneg R t) p = tneg R (ttranspose R t p).
  Proof.
    unfold ttranspose. rewrite tneg_build. change (tshape (tneg R t)) with (tshape t).
    unfold build. f_equal. apply map_ext. intros idx. apply get_tneg.
  Qed.

  Lemma ttranspose_sgn b t p : ttranspose R (sgn b t) p = sgn b (ttranspose R t p).
  Proof. destruct b; [apply ttranspose_tneg | reflexivity]. Qed.

  Lemma rsum_neg {A} (f : A -> RT R) l : rsum R (map (fun x => rneg R (f x)) l) = rneg R (rsum R (map f l)).
  Proof.
    induction l as [|x l IH]; cbn [map rsum fold_right].
    - symmetry. apply (rneg_zero R NL).
    - fold (rsum R (map (fun x => rneg R (f x)) l)). fold (rsum R (map f l)).
      now rewrite IH, (rneg_add R NL).
  Qed.

  Lemma ttensordot_tneg_l a b aa ab : ttensordot R (tneg R a) b aa ab = tneg R (ttensordot R a b aa ab).
  Proof.
    unfold ttensordot. change (tshape (tneg R a)) with (tshape a). cbv zeta. rewrite tneg_build.
    unfold build. f_equal. apply map_ext. intros idx.
    rewrite <- rsum_neg. f_equal. apply map_ext. intros k. now rewrite get_tneg, (rmul_neg_l R NL).
  Qed.

  Lemma ttensordot_tneg_r a b aa ab : ttensordot R a (tneg R b) aa ab = tneg R (ttensordot R a b aa ab).
  Proof.
    unfold ttensordot. change (tshape (tneg R b)) with (tshape b). cbv zeta. rewrite tneg_build.
    unfold build. f_equal. apply map_ext. intros idx.
    rewrite <- rsum_neg. f_equal. apply map_ext. intros k. now rewrite get_tneg, (rmul_neg_r R NL).
  Qed.

  Lemma ttensordot_sgn b c ta tb aa ab :
    ttensordot R (sgn b ta) (sgn c tb) aa ab = sgn (xorb b c) (ttensordot R ta tb aa ab).
  Proof.
    destruct b, c; cbn [sgn xorb]; rewrite ?ttensordot_tneg_l, ?ttensordot_tneg_r, ?tneg_invol; reflexivity.
  Qed.

  Lemma ttrace_tneg t : ttrace R (tneg R t) = rneg R (ttrace R t).
  Proof.
    unfold ttrace. change (tshape (tneg R t)) with (tshape t). rewrite <- rsum_neg.
    f_equal. apply map_ext. intros i. apply get_tneg.
  Qed.
End Sgn.

(* ================================================================ part 1 *)
(* Koszul signs are invariant under an injective renaming of the legs *)
Section KMap.
  Context {L L' : Type} (leqb : L -> L -> bool) (leqb_spec : forall x y, leqb x y = true <-> x = y)
          (leqb' : L' -> L' -> bool) (leqb'_spec : forall x y, leqb' x y = true <-> x = y).

  Lemma pos_map (f : L -> L') w x :
    (forall y, In y w -> f x = f y -> x = y) ->
    pos leqb' (map f w) (f x) = pos leqb w x.
  Proof.
    induction w as [|y t IH]; intros H; [reflexivity|]. cbn [map pos].
    assert (E : leqb' (f x) (f y) = leqb x y).
    { apply bool_eq_iff. rewrite leqb'_spec, leqb_spec. split; [apply H; now left | now intros ->]. }
    rewrite E. destruct (leqb x y); [reflexivity|]. f_equal. apply IH. intros z Hz. apply H. now right.
  Qed.

  Lemma pairxor_map (f : L -> L') (g : L' -> L' -> bool) w :
    pairxor g (map f w) = pairxor (fun x y => g (f x) (f y)) w.
  Proof.
    induction w as [|x t IH]; [reflexivity|]. cbn [map pairxor]. now rewrite IH, map_map.
  Qed.

  Lemma K_map (f : L -> L') par w w' :
    NoDup w -> (forall x y, In x w -> In y w -> f x = f y -> x = y) ->
    (forall x, In x w' -> In x w) ->
    K leqb' par (map f w) (map f w') = K leqb (fun x => par (f x)) w w'.
  Proof.
    intros ND Hinj Hsub. unfold K. rewrite pairxor_map.
    apply pairxor_ext_in; [exact ND|].
    intros x y Hx Hy _. f_equal. unfold disagree.
    rewrite !pos_map; [reflexivity|..]; intros z Hz; apply Hinj; auto.
  Qed.

  Lemma K_ext_par (par par' : L -> bool) w w' :
    (forall x, In x w -> par x = par' x) -> K leqb par w w' = K leqb par' w w'.
  Proof.
    intros H. unfold K. generalize (disagree leqb w w'). intros g.
    induction w as [|x t IH]; [reflexivity|]. cbn [pairxor]. f_equal.
    - apply xorb_list_map_ext_in. intros y Hy. now rewrite (H x (or_introl eq_refl)), (H y (or_intror Hy)).
    - apply IH. intros y Hy. apply H. now right.
  Qed.
End KMap.

Lemma NoDup_map_inj {A B} (f : A -> B) l : NoDup (map f l) -> forall x y, In x l -> In y l -> f x = f y -> x = y.
Proof.
  induction l as [|a l IH]; intros ND x y Hx Hy E; [destruct Hx|].
  cbn [map] in ND. apply NoDup_cons_iff in ND. destruct ND as [Hn ND].
  destruct Hx as [->|Hx], Hy as [->|Hy].
  - reflexivity.
  - exfalso. apply Hn. rewrite E. now apply in_map.
  - exfalso. apply Hn. rewrite <- E. now apply in_map.
  - now apply IH.
Qed.

Lemma nthZ_map_of_nat (p : list nat) i : nthZ (map Z.of_nat p) (Z.of_nat i) = Z.of_nat (nth i p 0).
Proof. unfold nthZ. rewrite Nat2Z.id. apply (map_nth Z.of_nat p 0 i). Qed.

Lemma zrange_of_nat N : zrange (Z.of_nat N) = map Z.of_nat (seq 0 N).
Proof. unfold zrange. now rewrite Nat2Z.id. Qed.

Lemma perm_zrange_length q N : Permutation q (zrange (Z.of_nat N)) -> length q = N.
Proof. intros H. rewrite (Permutation_length H), zrange_of_nat, map_length. apply seq_length. Qed.

(* the composition law: arrange by q, then re-arrange the result by r *)
Theorem inv_parity_comp par q r N :
  Permutation q (zrange (Z.of_nat N)) -> Permutation r (zrange (Z.of_nat N)) ->
  inv_parity par (map (nthZ q) r) = xorb (inv_parity par q) (inv_parity (map (nthZ par) q) r).
Proof.
  intros Hq Hr. set (n := Z.of_nat N).
  pose proof (perm_zrange_length q N Hq) as Lq.
  assert (Eq : map (nthZ q) (zrange n) = q).
  { unfold n. rewrite <- Lq. apply map_nthZ_zrange. }
  assert (NDq : NoDup q) by (apply (Permutation_NoDup (Permutation_sym Hq)), zrange_NoDup).
  assert (NDr : NoDup r) by (apply (Permutation_NoDup (Permutation_sym Hr)), zrange_NoDup).
  assert (Hinj : forall x y, In x (zrange n) -> In y (zrange n) -> nthZ q x = nthZ q y -> x = y).
  { apply NoDup_map_inj. now rewrite Eq. }
  assert (Pqr : Permutation (map (nthZ q) r) q).
  { rewrite <- Eq at 2. now apply Permutation_map. }
  assert (NDqr : NoDup (map (nthZ q) r)) by (apply (Permutation_NoDup (Permutation_sym Pqr)), NDq).
  rewrite (inv_parity_is_K par (map (nthZ q) r) n) by (eapply Permutation_trans; [exact Pqr | exact Hq]).
  rewrite (K_trans Z.eqb Z.eqb_eq (oddZ par) (map (nthZ q) r) q (zrange n) NDqr Pqr)
    by (eapply Permutation_trans; [exact Pqr | exact Hq]).
  rewrite <- (inv_parity_is_K par q n Hq), xorb_comm. f_equal.
  rewrite <- Eq at 2.
  rewrite (K_map Z.eqb Z.eqb_eq Z.eqb Z.eqb_eq (nthZ q) (oddZ par) r (zrange n) NDr).
  - rewrite (inv_parity_is_K _ r n Hr). apply K_ext_par. intros x Hx.
    apply (Permutation_in _ Hr), in_zrange in Hx. unfold oddZ. f_equal. f_equal.
    unfold nthZ at 1 3. symmetry. rewrite (nth_indep _ 0%Z (nthZ par 0%Z)) by (rewrite map_length; lia).
    apply (map_nth (nthZ par) q 0%Z).
  - intros x y Hx Hy. apply Hinj; apply (Permutation_in _ Hr); assumption.
  - intros x Hx. apply (Permutation_in _ (Permutation_sym Hr)), Hx.
Qed.

Example inv_parity_comp_example :
  Permutation [2; 0; 3; 1]%Z (zrange 4) /\ Permutation [3; 0; 2; 1]%Z (zrange 4)
  /\ map (nthZ [2; 0; 3; 1]%Z) [3; 0; 2; 1]%Z = [1; 2; 3; 0]%Z
  /\ inv_parity [1; 1; 0; 1]%Z [1; 2; 3; 0]%Z = false
  /\ inv_parity [1; 1; 0; 1]%Z [2; 0; 3; 1]%Z = true
  /\ inv_parity (map (nthZ [1; 1; 0; 1]%Z) [2; 0; 3; 1]%Z) [3; 0; 2; 1]%Z = true.
Proof.
  split; [exact (proj1 phase_perm_example)|]. split; [|repeat split; reflexivity].
  change (zrange 4) with [0; 1; 2; 3]%Z.
  apply Permutation_trans with (l' := [0; 3; 2; 1]%Z); [apply perm_swap|]. apply perm_skip.
  apply Permutation_trans with (l' := [2; 3; 1]%Z); [apply perm_swap|].
  apply Permutation_trans with (l' := [2; 1; 3]%Z); [apply perm_skip, perm_swap | apply perm_swap].
Qed.

(* ================================================================ part 2 *)
(* ---------- list facts about axes ---------- *)
Lemma seq_add_map n : forall s, seq s n = map (Nat.add s) (seq 0 n).
Proof.
  induction n as [|n IH]; intros s; [reflexivity|]. cbn [seq map]. rewrite Nat.add_0_r. f_equal.
  rewrite (IH (S s)), <- seq_shift, map_map. apply map_ext. intros j. lia.
Qed.

Lemma map_nth_mid {A} (d : A) l0 m l2 :
  map (fun i => nth i (l0 ++ m ++ l2) d) (seq (length l0) (length m)) = m.
Proof.
  rewrite seq_add_map, map_map.
  transitivity (map (fun j => nth j m d) (seq 0 (length m))); [|apply StructProofs.map_nth_seq].
  apply map_ext_in. intros j Hj. apply in_seq in Hj. rewrite app_nth2_plus. apply app_nth1. lia.
Qed.

Lemma filter_filter {A} (f g : A -> bool) l : filter f (filter g l) = filter (fun x => g x && f x) l.
Proof.
  induction l as [|x l IH]; [reflexivity|]. cbn [filter]. destruct (g x); cbn [filter andb]; [destruct (f x)|]; now rewrite IH.
Qed.

Lemma filter_map_comm {A B} (P : B -> bool) (f : A -> B) l : filter P (map f l) = map f (filter (fun x => P (f x)) l).
Proof. induction l as [|x l IH]; [reflexivity|]. cbn [map filter]. destruct (P (f x)); cbn [map]; now rewrite IH. Qed.

Lemma filter_split_perm {A} (f : A -> bool) l : Permutation (filter (fun x => negb (f x)) l ++ filter f l) l.
Proof.
  induction l as [|x l IH]; [constructor|]. cbn [filter]. destruct (f x); cbn [negb app].
  - apply Permutation_sym, Permutation_cons_app, Permutation_sym, IH.
  - now constructor.
Qed.

Lemma memN_In x l : mem Nat.eqb x l = true <-> In x l.
Proof.
  induction l as [|y l IH]; cbn [mem In]; [split; [discriminate | tauto]|].
  rewrite orb_true_iff, IH, Nat.eqb_eq. split; intros [H|H]; auto.
Qed.

Lemma perm_rest_axes n aa :
  NoDup aa -> (forall i, In i aa -> i < n) -> Permutation (rest_axes n aa ++ aa) (seq 0 n).
Proof.
  intros ND Hlt. unfold rest_axes.
  eapply Permutation_trans; [|apply (filter_split_perm (fun i => mem Nat.eqb i aa))].
  apply Permutation_app_head. apply NoDup_Permutation; [exact ND | apply NoDup_filter, seq_NoDup|].
  intros i. rewrite filter_In, memN_In, in_seq. split; [intros H; split; [specialize (Hlt i H); lia | exact H] | tauto].
Qed.

Lemma perm_axes_rest n aa :
  NoDup aa -> (forall i, In i aa -> i < n) -> Permutation (aa ++ rest_axes n aa) (seq 0 n).
Proof. intros ND Hlt. eapply Permutation_trans; [apply Permutation_app_comm | now apply perm_rest_axes]. Qed.

Lemma length_rest_axes n aa :
  NoDup aa -> (forall i, In i aa -> i < n) -> length (rest_axes n aa) = n - length aa.
Proof.
  intros ND Hlt. pose proof (Permutation_length (perm_rest_axes n aa ND Hlt)) as H.
  rewrite app_length, seq_length in H. lia.
Qed.

Lemma perm_rev_head k n : k <= n -> Permutation (rev (seq 0 k) ++ seq k (n - k)) (seq 0 n).
Proof.
  intros H. replace n with (k + (n - k)) at 2 by lia. rewrite seq_app. cbn [Nat.add].
  apply Permutation_app_tail, Permutation_sym, Permutation_rev.
Qed.

Lemma permuted_app {A} (d : A) l p1 p2 : permuted d l (p1 ++ p2) = permuted d l p1 ++ permuted d l p2.
Proof. apply map_app. Qed.

Lemma permuted_rev_head {A} (d : A) (l1 l2 : list A) :
  permuted d (l1 ++ l2) (rev (seq 0 (length l1)) ++ seq (length l1) (length l2)) = rev l1 ++ l2.
Proof.
  rewrite permuted_app. unfold permuted. rewrite map_rev. f_equal.
  - f_equal. apply (map_nth_mid d [] l1 l2).
  - pose proof (map_nth_mid d l1 l2 []) as H. rewrite app_nil_r in H. exact H.
Qed.

Lemma map_of_nat_permuted p r : map Z.of_nat (permuted 0 p r) = map (nthZ (map Z.of_nat p)) (map Z.of_nat r).
Proof. unfold permuted. rewrite !map_map. apply map_ext. intros i. symmetry. apply nthZ_map_of_nat. Qed.

Lemma perm_of_nat p n : Permutation p (seq 0 n) -> Permutation (map Z.of_nat p) (zrange (Z.of_nat n)).
Proof. intros H. rewrite zrange_of_nat. now apply Permutation_map. Qed.

Lemma phase_of_minus b : Z.eqb (phase_of b) (-1) = b.
Proof. now destruct b. Qed.

(* ---------- the lazy sign table ---------- *)
Section Phases.
  Context (G : Symmetry) (R : Ring) (NL : NegLaws R).
  Context (ceqb_spec : forall a b : C G, ceqb G a b = true <-> a = b).
  Notation sector := (list (C G)).
  Notation keq := (list_eqb (ceqb G)).
  Notation arr := (aarray G R).
  Notation farr := (farray G R).
  Notation ch_d := (ident G).
  Notation ix_d := (dflt_index G).

  Lemma keq_spec (a b : sector) : keq a b = true <-> a = b.
  Proof. apply list_eqb_eq, ceqb_spec. Qed.

  Lemma keq_refl (a : sector) : keq a a = true.
  Proof. now apply keq_spec. Qed.

  Lemma ph_has_In s ph : ph_has G s ph = true <-> In s ph.
  Proof.
    unfold ph_has. induction ph as [|t ph IH]; cbn [mem In]; [split; [discriminate | tauto]|].
    rewrite orb_true_iff, IH, keq_spec. split; intros [H|H]; auto.
  Qed.

  Lemma ph_has_app s p1 p2 : ph_has G s (p1 ++ p2) = ph_has G s p1 || ph_has G s p2.
  Proof. unfold ph_has. induction p1 as [|t p1 IH]; [reflexivity|]. cbn [app mem]. now rewrite IH, orb_assoc. Qed.

  Lemma ph_has_del s t ph : ph_has G s (ph_del G t ph) = ph_has G s ph && negb (keq t s).
  Proof.
    unfold ph_has, ph_del. induction ph as [|u ph IH]; [reflexivity|]. cbn [filter mem].
    destruct (keq t u) eqn:E; cbn [negb mem].
    - apply keq_spec in E. subst u. rewrite IH. destruct (keq s t) eqn:E2; [|reflexivity].
      apply keq_spec in E2. subst t. rewrite keq_refl. cbn [negb]. now rewrite !andb_false_r.
    - rewrite IH. destruct (keq s u) eqn:E2; [|reflexivity].
      apply keq_spec in E2. subst u. now rewrite E.
  Qed.

  Lemma keq_sym (s t : sector) : keq s t = keq t s.
  Proof. apply bool_eq_iff. rewrite !keq_spec. split; congruence. Qed.

  Lemma ph_has_toggle s ph t : ph_has G s (ph_toggle G ph t) = xorb (ph_has G s ph) (keq s t).
  Proof.
    unfold ph_toggle. destruct (ph_has G t ph) eqn:Et.
    - rewrite ph_has_del, (keq_sym t s). destruct (keq s t) eqn:E.
      + apply keq_spec in E. subst t. now rewrite Et.
      + cbn [negb]. now rewrite andb_true_r, xorb_false_r.
    - rewrite ph_has_app. cbn [ph_has mem]. rewrite orb_false_r. destruct (keq s t) eqn:E.
      + apply keq_spec in E. subst t. now rewrite Et.
      + now rewrite orb_false_r, xorb_false_r.
  Qed.

  (* conditional toggles over a duplicate-free list of sectors *)
  Lemma ph_has_fold (c : sector -> bool) s l : NoDup l -> forall ph0,
    ph_has G s (fold_left (fun ph t => if c t then ph_toggle G ph t else ph) l ph0)
    = xorb (ph_has G s ph0) (c s && ph_has G s l).
  Proof.
    induction 1 as [|t l Ht ND IH]; intros ph0; cbn [fold_left].
    - now rewrite andb_false_r, xorb_false_r.
    - rewrite IH. change (ph_has G s (t :: l)) with (keq s t || ph_has G s l).
      destruct (keq s t) eqn:E.
      + apply keq_spec in E. subst t.
        assert (Hn : ph_has G s l = false).
        { destruct (ph_has G s l) eqn:E; [apply ph_has_In in E; contradiction | reflexivity]. }
        rewrite Hn, andb_false_r, xorb_false_r. cbn [orb]. rewrite andb_true_r.
        destruct (c s); [rewrite ph_has_toggle, keq_refl | rewrite xorb_false_r]; reflexivity.
      + cbn [orb]. f_equal. destruct (c t); [|reflexivity]. now rewrite ph_has_toggle, E, xorb_false_r.
  Qed.

  Lemma ph_has_flat_map (f : sector -> sector) (c : sector -> bool) s l :
    (forall t, In t l -> f t = f s -> t = s) ->
    ph_has G (f s) (flat_map (fun t => if c t then [f t] else []) l) = c s && ph_has G s l.
  Proof.
    induction l as [|t l IH]; intros H; [now rewrite andb_false_r|]. cbn [flat_map].
    rewrite ph_has_app, IH by (intros u Hu; apply H; now right).
    change (ph_has G s (t :: l)) with (keq s t || ph_has G s l).
    destruct (keq s t) eqn:E.
    - apply keq_spec in E. subst t. destruct (c s); cbn [ph_has mem]; [now rewrite keq_refl | reflexivity].
    - assert (E' : keq (f s) (f t) = false).
      { destruct (keq (f s) (f t)) eqn:E2; [|reflexivity]. apply keq_spec in E2.
        rewrite (H t (or_introl eq_refl) (eq_sym E2)), keq_refl in E. discriminate. }
      destruct (c t); cbn [ph_has mem]; [rewrite E'|]; reflexivity.
  Qed.

  Lemma ph_has_map (f : sector -> sector) s l :
    (forall t, In t l -> f t = f s -> t = s) -> ph_has G (f s) (map f l) = ph_has G s l.
  Proof.
    induction l as [|t l IH]; intros H; [reflexivity|]. cbn [map ph_has mem]. fold (ph_has G (f s) (map f l)). fold (ph_has G s l).
    rewrite IH by (intros u Hu; apply H; now right). f_equal.
    apply bool_eq_iff. rewrite !keq_spec. split; [intros E; symmetry; apply H; [now left | now symmetry] | now intros ->].
  Qed.

  (* ---------- values ---------- *)
  Definition vblock (x : farr) (s : sector) : option (tensor R) := lookup keq s (blocks G R (f_value G R x)).
  Definition osgn (b : bool) (o : option (tensor R)) : option (tensor R) := option_map (sgn R b) o.

  Lemma blocks_f_value x :
    blocks G R (f_value G R x)
    = map (fun sb => (fst sb, sgn R (ph_has G (fst sb) (fphases G R x)) (snd sb))) (blocks G R (fbase G R x)).
  Proof.
    unfold f_value, f_phase_sync. cbn [fbase with_blocks blocks]. apply map_ext. intros [k t]. cbn [fst snd].
    now destruct (ph_has G k (fphases G R x)).
  Qed.

  Lemma sectors_f_value x : sectors G R (f_value G R x) = fsectors G R x.
  Proof. unfold sectors, fsectors, sectors. rewrite blocks_f_value, map_map. reflexivity. Qed.

  Lemma lookup_map_keyval {V W} (f : sector -> V -> W) k (d : list (sector * V)) :
    lookup keq k (map (fun p => (fst p, f (fst p) (snd p))) d) = option_map (f k) (lookup keq k d).
  Proof.
    induction d as [|[k' v] d IH]; [reflexivity|]. cbn [map lookup fst snd].
    destruct (keq k k') eqn:E; [apply keq_spec in E; now subst k' | exact IH].
  Qed.

  Lemma vblock_base x s :
    vblock x s = osgn (ph_has G s (fphases G R x)) (lookup keq s (blocks G R (fbase G R x))).
  Proof.
    unfold vblock. rewrite blocks_f_value.
    apply (lookup_map_keyval (fun k t => sgn R (ph_has G k (fphases G R x)) t)).
  Qed.

  Lemma lookup_In_sectors {V} s (d : list (sector * V)) t : lookup keq s d = Some t -> In s (map fst d).
  Proof.
    induction d as [|[k v] d IH]; cbn [lookup map fst In]; [discriminate|].
    destruct (keq s k) eqn:E; [apply keq_spec in E; now left | intros H; right; now apply IH].
  Qed.

  Lemma osgn_osgn b c o : osgn b (osgn c o) = osgn (xorb b c) o.
  Proof. destruct o as [t|]; [|reflexivity]. cbn [osgn option_map]. now rewrite (sgn_sgn R NL). Qed.

  Lemma osgn_false o : osgn false o = o.
  Proof. now destruct o. Qed.

  (* same raw blocks, sign table related on the stored sectors *)
  Lemma vblock_rephase x y (c : sector -> bool) :
    fbase G R y = fbase G R x ->
    (forall s, In s (fsectors G R x) -> ph_has G s (fphases G R y) = xorb (ph_has G s (fphases G R x)) (c s)) ->
    forall s, vblock y s = osgn (c s) (vblock x s).
  Proof.
    intros Hb Hp s. rewrite !vblock_base, Hb, osgn_osgn.
    destruct (lookup keq s (blocks G R (fbase G R x))) as [t|] eqn:E; [|reflexivity].
    rewrite Hp by (apply (lookup_In_sectors _ _ _ E)). now rewrite xorb_comm.
  Qed.

  Lemma fbase_flip x axs : fbase G R (f_phase_flip G R x axs) = fbase G R x.
  Proof. unfold f_phase_flip. now destruct (is_nil axs). Qed.
  Lemma foddpos_flip x axs : foddpos G R (f_phase_flip G R x axs) = foddpos G R x.
  Proof. unfold f_phase_flip. now destruct (is_nil axs). Qed.

  Lemma count_odd_nil s : count_odd G s [] = false.
  Proof. reflexivity. Qed.

  Lemma ph_has_flip x axs s : NoDup (fsectors G R x) ->
    ph_has G s (fphases G R (f_phase_flip G R x axs))
    = xorb (ph_has G s (fphases G R x)) (count_odd G s axs && ph_has G s (fsectors G R x)).
  Proof.
    intros ND. unfold f_phase_flip. destruct axs as [|ax axs]; cbn [is_nil].
    - now rewrite count_odd_nil, xorb_false_r.
    - cbn [with_phases fphases]. now apply ph_has_fold.
  Qed.

  Lemma ph_has_phase_transpose x perm s : NoDup (fsectors G R x) ->
    ph_has G s (fphases G R (f_phase_transpose G R x perm))
    = xorb (ph_has G s (fphases G R x)) (perm_minus G s perm && ph_has G s (fsectors G R x)).
  Proof. intros ND. unfold f_phase_transpose. cbn [with_phases fphases]. now apply ph_has_fold. Qed.

  Lemma In_ph_has s l : In s l -> ph_has G s l = true.
  Proof. apply ph_has_In. Qed.

  Lemma perm_minus_some s p n :
    Permutation p (seq 0 n) -> perm_minus G s (Some p) = inv_parity (par_of G s) (map Z.of_nat p).
  Proof.
    intros H. unfold perm_minus.
    rewrite (phase_perm_is_koszul _ _ (Z.of_nat n)) by now apply perm_of_nat.
    apply phase_of_minus.
  Qed.

  (* ================================================================ part 3 *)
  (* phase_flip: one sign per odd charge on the flipped axes, data untouched *)
  Theorem phase_flip_value x axs s : NoDup (fsectors G R x) ->
    vblock (f_phase_flip G R x axs) s = osgn (count_odd G s axs) (vblock x s).
  Proof.
    intros ND. apply (vblock_rephase x _ (fun s => count_odd G s axs)); [apply fbase_flip|]. intros t Ht.
    now rewrite ph_has_flip, (In_ph_has _ _ Ht), andb_true_r.
  Qed.

  (* phase_transpose: the Koszul sign of the permutation, data untouched *)
  Theorem phase_transpose_value x p n s : NoDup (fsectors G R x) -> Permutation p (seq 0 n) ->
    vblock (f_phase_transpose G R x (Some p)) s
    = osgn (inv_parity (par_of G s) (map Z.of_nat p)) (vblock x s).
  Proof.
    intros ND HP. rewrite <- (perm_minus_some s p n HP).
    apply (vblock_rephase x _ (fun s => perm_minus G s (Some p))); [reflexivity|]. intros t Ht.
    now rewrite ph_has_phase_transpose, (In_ph_has _ _ Ht), andb_true_r.
  Qed.

  (* ---------- transpose ---------- *)
  Definition sectors_len (x : farr) : Prop :=
    forall t, In t (fsectors G R x) -> length t = ndim G R (fbase G R x).

  Lemma fsectors_transpose x axes ph :
    fsectors G R (f_transpose G R x axes ph) = map (fun s => permuted ch_d s axes) (fsectors G R x).
  Proof. unfold fsectors, sectors, f_transpose, a_transpose. cbn [fbase blocks]. now rewrite !map_map. Qed.

  Lemma permuted_inj_perm (s s' : sector) axes n :
    Permutation axes (seq 0 n) -> length s = n -> length s' = n ->
    permuted ch_d s axes = permuted ch_d s' axes -> s = s'.
  Proof.
    intros HP. apply (permuted_inj ch_d n axes).
    intros i Hi. apply (Permutation_in _ (Permutation_sym HP)), in_seq. lia.
  Qed.

  Lemma NoDup_map_permuted (l : list sector) axes n :
    Permutation axes (seq 0 n) -> (forall t, In t l -> length t = n) -> NoDup l ->
    NoDup (map (fun s => permuted ch_d s axes) l).
  Proof.
    intros HP Hl ND. induction ND as [|s l Hs ND IH]; [constructor|]. cbn [map]. constructor.
    - intros Hin. apply in_map_iff in Hin. destruct Hin as [t [E Ht]]. apply Hs.
      rewrite <- (permuted_inj_perm t s axes n HP); auto using in_eq, in_cons.
    - apply IH. intros t Ht. apply Hl. now right.
  Qed.

  Lemma lookup_transpose (x : arr) axes s n :
    Permutation axes (seq 0 n) -> (forall t, In t (sectors G R x) -> length t = n) -> length s = n ->
    lookup keq (permuted ch_d s axes) (blocks G R (a_transpose G R x axes))
    = option_map (fun t => ttranspose R t axes) (lookup keq s (blocks G R x)).
  Proof.
    intros HP Hl Hs. unfold a_transpose. cbn [blocks].
    apply (lookup_map_inj keq keq (fun k => permuted ch_d k axes) (fun t => ttranspose R t axes)).
    intros k' Hk. apply bool_eq_iff. rewrite !keq_spec. split; [|now intros ->].
    apply (permuted_inj_perm s k' axes n HP Hs). now apply Hl.
  Qed.

  (* transposing multiplies each block by the sign of the permutation
     restricted to its odd indices *)
  Theorem transpose_value x axes s :
    NoDup (fsectors G R x) -> sectors_len x ->
    Permutation axes (seq 0 (ndim G R (fbase G R x))) -> length s = ndim G R (fbase G R x) ->
    vblock (f_transpose G R x axes true) (permuted ch_d s axes)
    = option_map (fun t => sgn R (inv_parity (par_of G s) (map Z.of_nat axes)) (ttranspose R t axes)) (vblock x s).
  Proof.
    intros ND Hl HP Hs. set (n := ndim G R (fbase G R x)) in *.
    rewrite !vblock_base. cbn [f_transpose fbase fphases].
    rewrite (lookup_transpose _ axes s n HP Hl Hs).
    destruct (lookup keq s (blocks G R (fbase G R x))) as [t|] eqn:E; [|reflexivity].
    cbn [option_map osgn]. f_equal.
    assert (Hin : In s (fsectors G R x)) by apply (lookup_In_sectors _ _ _ E).
    rewrite (ph_has_flat_map (fun t => permuted ch_d t axes)
               (fun t => xorb (ph_has G t (fphases G R x)) (perm_minus G t (Some axes)))).
    2:{ intros u Hu Eu. apply (permuted_inj_perm u s axes n HP); auto. }
    rewrite (In_ph_has _ _ Hin), andb_true_r, (perm_minus_some s axes n HP).
    now rewrite (ttranspose_sgn R NL), (sgn_sgn R NL), xorb_comm.
  Qed.

  Theorem transpose_sectors x axes ph :
    fsectors G R (f_transpose G R x axes ph) = map (fun s => permuted ch_d s axes) (fsectors G R x).
  Proof. apply fsectors_transpose. Qed.

  (* phase = false: the data moves, no sign *)
  Theorem transpose_nophase_value x axes s :
    sectors_len x -> (forall t, In t (fphases G R x) -> length t = ndim G R (fbase G R x)) ->
    Permutation axes (seq 0 (ndim G R (fbase G R x))) -> length s = ndim G R (fbase G R x) ->
    vblock (f_transpose G R x axes false) (permuted ch_d s axes)
    = option_map (fun t => ttranspose R t axes) (vblock x s).
  Proof.
    intros Hl Hp HP Hs. set (n := ndim G R (fbase G R x)) in *.
    rewrite !vblock_base. cbn [f_transpose fbase fphases].
    rewrite (lookup_transpose _ axes s n HP Hl Hs).
    rewrite (ph_has_map (fun t => permuted ch_d t axes)).
    2:{ intros u Hu Eu. apply (permuted_inj_perm u s axes n HP); auto. }
    destruct (lookup keq s (blocks G R (fbase G R x))) as [t|]; [|reflexivity].
    cbn [option_map osgn]. now rewrite (ttranspose_sgn R NL).
  Qed.

  (* ================================================================ part 4 *)
  Lemma ph_has_transpose x axes s :
    NoDup (fsectors G R x) -> sectors_len x ->
    Permutation axes (seq 0 (ndim G R (fbase G R x))) -> In s (fsectors G R x) ->
    ph_has G (permuted ch_d s axes) (fphases G R (f_transpose G R x axes true))
    = xorb (ph_has G s (fphases G R x)) (inv_parity (par_of G s) (map Z.of_nat axes)).
  Proof.
    intros ND Hl HP Hin. cbn [f_transpose fphases].
    rewrite (ph_has_flat_map (fun t => permuted ch_d t axes)
               (fun t => xorb (ph_has G t (fphases G R x)) (perm_minus G t (Some axes)))).
    2:{ intros u Hu Eu. apply (permuted_inj_perm u s axes _ HP); auto. }
    now rewrite (In_ph_has _ _ Hin), andb_true_r, (perm_minus_some s axes _ HP).
  Qed.

  (* an abelian array transposed, every block multiplied by its own sign *)
  Definition signed_transpose (x : arr) (p : list nat) (sg : sector -> bool) : arr :=
    mkA G R (permuted ix_d (indices G R x) p) (charge G R x)
      (map (fun sb => (permuted ch_d (fst sb) p, sgn R (sg (fst sb)) (ttranspose R (snd sb) p))) (blocks G R x)).

  Lemma lookup_signed_transpose (x : arr) p sg s n :
    Permutation p (seq 0 n) -> (forall t, In t (sectors G R x) -> length t = n) -> length s = n ->
    lookup keq (permuted ch_d s p) (blocks G R (signed_transpose x p sg))
    = option_map (fun t => sgn R (sg s) (ttranspose R t p)) (lookup keq s (blocks G R x)).
  Proof.
    intros HP Hl Hs. unfold signed_transpose. cbn [blocks]. unfold sectors in Hl.
    induction (blocks G R x) as [|[k t] d IH]; [reflexivity|]. cbn [map lookup fst snd].
    assert (E : keq (permuted ch_d s p) (permuted ch_d k p) = keq s k).
    { apply bool_eq_iff. rewrite !keq_spec. split; [|now intros ->].
      apply (permuted_inj_perm s k p n HP Hs). apply Hl. now left. }
    rewrite E. destruct (keq s k) eqn:E2; [apply keq_spec in E2; now subst k|].
    apply IH. intros u Hu. apply Hl. now right.
  Qed.

  Lemma f_value_signed x y p sg :
    fbase G R y = a_transpose G R (fbase G R x) p ->
    (forall s, In s (fsectors G R x) ->
       ph_has G (permuted ch_d s p) (fphases G R y) = xorb (ph_has G s (fphases G R x)) (sg s)) ->
    f_value G R y = signed_transpose (f_value G R x) p sg.
  Proof.
    intros Hb Hp.
    change (f_value G R y) with (mkA G R (indices G R (fbase G R y)) (charge G R (fbase G R y)) (blocks G R (f_value G R y))).
    unfold signed_transpose. rewrite !blocks_f_value, Hb. unfold a_transpose. cbn [indices charge blocks].
    change (indices G R (f_value G R x)) with (indices G R (fbase G R x)).
    change (charge G R (f_value G R x)) with (charge G R (fbase G R x)).
    f_equal. rewrite !map_map. apply map_ext_in. intros [k t] Hin. cbn [fst snd]. f_equal.
    rewrite Hp by (apply (in_map fst) in Hin; exact Hin).
    now rewrite (ttranspose_sgn R NL), (sgn_sgn R NL), xorb_comm.
  Qed.

  Lemma count_odd_permuted (Q : index G -> bool) (ixs : list (index G)) (s : sector) l0 m l2 :
    count_odd G (permuted ch_d s (l0 ++ m ++ l2))
      (filter (fun ax => Q (nth ax (permuted ix_d ixs (l0 ++ m ++ l2)) ix_d)) (seq (length l0) (length m)))
    = count_odd G s (filter (fun ax => Q (nth ax ixs ix_d)) m).
  Proof.
    unfold count_odd. f_equal. rewrite !filter_filter. set (p := l0 ++ m ++ l2).
    transitivity (length (filter (fun ax => (fun i => Q (nth i ixs ix_d) && odd_at G s i) (nth ax p 0))
                                 (seq (length l0) (length m)))).
    - f_equal. apply filter_ext_in. intros ax Hax. apply in_seq in Hax.
      assert (Hlt : ax < length p) by (unfold p; rewrite !app_length; lia).
      unfold permuted, odd_at. now rewrite !(map_nth_lt _ _ 0) by exact Hlt.
    - rewrite <- (map_length (fun ax => nth ax p 0)).
      rewrite <- (filter_map_comm (fun i => Q (nth i ixs ix_d) && odd_at G s i) (fun ax => nth ax p 0)).
      unfold p. now rewrite map_nth_mid.
  Qed.

  Lemma par_of_permuted (s : sector) q :
    (forall i, In i q -> i < length s) ->
    par_of G (permuted ch_d s q) = map (nthZ (par_of G s)) (map Z.of_nat q).
  Proof.
    intros H. unfold par_of, permuted. rewrite !map_map. apply map_ext_in. intros i Hi.
    unfold nthZ. rewrite Nat2Z.id. symmetry. apply map_nth_lt. now apply H.
  Qed.

  (* the closed-form signs of the two operands of a contraction *)
  Definition ketbra_a (a : farr) (aa : list nat) (s : sector) : bool :=
    count_odd G s (filter (fun ax => negb (idual G (nth ax (indices G R (fbase G R a)) ix_d))) aa).
  Definition ketbra_b (b : farr) (ab : list nat) (s : sector) : bool :=
    count_odd G s (filter (fun ax => idual G (nth ax (indices G R (fbase G R b)) ix_d)) ab).

  Definition tdot_opA (flip : bool) (a : farr) (la aa : list nat) : arr :=
    signed_transpose (f_value G R a) (la ++ aa)
      (fun s => xorb (inv_parity (par_of G s) (map Z.of_nat (la ++ aa))) (flip && ketbra_a a aa s)).
  Definition tdot_opB (flip : bool) (b : farr) (ab rb : list nat) : arr :=
    signed_transpose (f_value G R b) (ab ++ rb)
      (fun s => xorb (inv_parity (par_of G s) (map Z.of_nat (rev ab ++ rb))) (flip && ketbra_b b ab s)).

  Lemma tdot_opA_correct a aa (fl : bool) :
    let na := ndim G R (fbase G R a) in
    let la := rest_axes na aa in
    let a1 := f_transpose G R a (la ++ aa) true in
    NoDup (fsectors G R a) -> sectors_len a -> NoDup aa -> (forall i, In i aa -> i < na) ->
    f_value G R (if fl then f_phase_flip G R a1
                              (filter (fun ax => negb (idual G (nth ax (indices G R (fbase G R a1)) ix_d)))
                                      (seq (na - length aa) (length aa)))
                 else a1)
    = tdot_opA fl a la aa.
  Proof.
    intros na la a1 ND Hl NDaa Hlt.
    pose proof (perm_rest_axes na aa NDaa Hlt) as HP. fold la in HP.
    pose proof (length_rest_axes na aa NDaa Hlt) as Lla. fold la in Lla.
    apply f_value_signed.
    - destruct fl; [rewrite fbase_flip|]; reflexivity.
    - intros s Hs.
      assert (H1 : ph_has G (permuted ch_d s (la ++ aa)) (fphases G R a1)
                   = xorb (ph_has G s (fphases G R a)) (inv_parity (par_of G s) (map Z.of_nat (la ++ aa))))
        by (apply ph_has_transpose; assumption).
      destruct fl; cbn [andb]; [|now rewrite xorb_false_r].
      rewrite ph_has_flip.
      2:{ unfold a1. rewrite fsectors_transpose. apply (NoDup_map_permuted _ _ na); assumption. }
      rewrite H1, xorb_assoc. f_equal. f_equal.
      rewrite (In_ph_has (permuted ch_d s (la ++ aa))).
      2:{ unfold a1. rewrite fsectors_transpose. now apply (in_map (fun s => permuted ch_d s (la ++ aa))). }
      rewrite andb_true_r. rewrite <- Lla.
      change (indices G R (fbase G R a1)) with (permuted ix_d (indices G R (fbase G R a)) (la ++ aa)).
      pose proof (count_odd_permuted (fun ix => negb (idual G ix)) (indices G R (fbase G R a)) s la aa []) as Hc.
      rewrite app_nil_r in Hc. exact Hc.
  Qed.

  Lemma tdot_opB_correct b ab ncon (fl : bool) :
    let nb := ndim G R (fbase G R b) in
    let rb := rest_axes nb ab in
    let b1 := f_transpose G R b (ab ++ rb) true in
    let b2 := f_phase_transpose G R b1 (Some (rev (seq 0 ncon) ++ seq ncon (nb - ncon))) in
    NoDup (fsectors G R b) -> sectors_len b -> NoDup ab -> (forall i, In i ab -> i < nb) -> ncon = length ab ->
    f_value G R (if fl then f_phase_flip G R b2
                              (filter (fun ax => idual G (nth ax (indices G R (fbase G R b2)) ix_d)) (seq 0 ncon))
                 else b2)
    = tdot_opB fl b ab rb.
  Proof.
    intros nb rb b1 b2 ND Hl NDab Hlt ->.
    pose proof (perm_axes_rest nb ab NDab Hlt) as HP. fold rb in HP.
    pose proof (length_rest_axes nb ab NDab Hlt) as Lrb. fold rb in Lrb.
    assert (Hle : length ab <= nb).
    { pose proof (Permutation_length HP) as H. rewrite app_length, seq_length in H. lia. }
    assert (ND1 : NoDup (fsectors G R b1)).
    { unfold b1. rewrite fsectors_transpose. apply (NoDup_map_permuted _ _ nb); assumption. }
    apply f_value_signed.
    - destruct fl; [rewrite fbase_flip|]; reflexivity.
    - intros s Hs.
      assert (Hin1 : In (permuted ch_d s (ab ++ rb)) (fsectors G R b1)).
      { unfold b1. rewrite fsectors_transpose. now apply (in_map (fun s => permuted ch_d s (ab ++ rb))). }
      assert (H2 : ph_has G (permuted ch_d s (ab ++ rb)) (fphases G R b2)
                   = xorb (ph_has G s (fphases G R b)) (inv_parity (par_of G s) (map Z.of_nat (rev ab ++ rb)))).
      { unfold b2. rewrite ph_has_phase_transpose by exact ND1.
        rewrite (In_ph_has _ _ Hin1), andb_true_r.
        rewrite (perm_minus_some _ _ nb) by (apply perm_rev_head; exact Hle).
        unfold b1. rewrite ph_has_transpose by assumption. rewrite xorb_assoc. f_equal.
        rewrite <- (permuted_rev_head 0 ab rb), map_of_nat_permuted, Lrb.
        rewrite (inv_parity_comp (par_of G s) (map Z.of_nat (ab ++ rb)) _ nb).
        - f_equal. f_equal. apply par_of_permuted. intros i Hi. rewrite (Hl s Hs).
          apply (Permutation_in _ HP), in_seq in Hi. fold nb. lia.
        - now apply perm_of_nat.
        - apply perm_of_nat, perm_rev_head, Hle. }
      destruct fl; cbn [andb]; [|now rewrite xorb_false_r].
      rewrite ph_has_flip by exact ND1.
      rewrite H2, xorb_assoc. f_equal. f_equal.
      change (fsectors G R b2) with (fsectors G R b1). rewrite (In_ph_has _ _ Hin1), andb_true_r.
      change (indices G R (fbase G R b2)) with (permuted ix_d (indices G R (fbase G R b)) (ab ++ rb)).
      apply (count_odd_permuted (fun ix => idual G ix) (indices G R (fbase G R b)) s [] ab rb).
  Qed.

  (* what `finish_contraction` does with the abelian result: global sign and
     labels from the odd-position lists of the ORIGINAL operands *)
  Definition fermi_finish (a b : farr) (oc : option arr) : option farr :=
    match oc with
    | None => None
    | Some c =>
        match resolve_oddpos (fparity G R a) (foddpos G R a) (foddpos G R b) with
        | None => None
        | Some (minus, odd) => let y := mkF G R c [] odd in Some (if minus then f_phase_global G R y else y)
        end
    end.

  Definition tdot_flip_a (a b : farr) (aa ab : list nat) : bool :=
    Nat.leb (arr_size G R (a_transpose G R (fbase G R a) (rest_axes (ndim G R (fbase G R a)) aa ++ aa)))
            (arr_size G R (a_transpose G R (fbase G R b) (ab ++ rest_axes (ndim G R (fbase G R b)) ab))).

  Definition tdot_spec (a b : farr) (aa ab : list nat) (mode : tmode) : option farr :=
    let na := ndim G R (fbase G R a) in
    let nb := ndim G R (fbase G R b) in
    let la := rest_axes na aa in
    let rb := rest_axes nb ab in
    let ncon := length aa in
    let fl := tdot_flip_a a b aa ab in
    fermi_finish a b
      (a_tensordot G R (tdot_opA fl a la aa) (tdot_opB (negb fl) b ab rb)
         (inr (map Z.of_nat (seq (na - ncon) ncon), map Z.of_nat (seq 0 ncon))) mode).

  Lemma parse_axes_length na nb axes aa ab : parse_axes na nb axes = Some (aa, ab) -> length aa = length ab.
  Proof.
    unfold parse_axes. destruct axes as [k|[xa xb]].
    - intros H. injection H as <- <-. now rewrite !seq_length.
    - destruct (Nat.eqb (length xa) (length xb)) eqn:E; [|discriminate]. intros H. injection H as <- <-.
      unfold norm_axes. rewrite !map_length. now apply Nat.eqb_eq.
  Qed.

  Lemma finish_eq a' b' a b c :
    fparity G R a' = fparity G R a -> foddpos G R a' = foddpos G R a -> foddpos G R b' = foddpos G R b ->
    finish_contraction G R a' b' c = fermi_finish a b (Some c).
  Proof. intros H1 H2 H3. unfold finish_contraction, fermi_finish. now rewrite H1, H2, H3. Qed.

  Theorem tensordot_sign_formula a b axes mode aa ab :
    parse_axes (ndim G R (fbase G R a)) (ndim G R (fbase G R b)) axes = Some (aa, ab) ->
    NoDup (fsectors G R a) -> sectors_len a -> NoDup (fsectors G R b) -> sectors_len b ->
    NoDup aa -> (forall i, In i aa -> i < ndim G R (fbase G R a)) ->
    NoDup ab -> (forall i, In i ab -> i < ndim G R (fbase G R b)) ->
    f_tensordot G R a b axes mode = tdot_spec a b aa ab mode.
  Proof.
    intros Hp NDa Hla NDb Hlb NDaa Haa NDab Hab.
    pose proof (parse_axes_length _ _ _ _ _ Hp) as Hlen.
    unfold f_tensordot, tdot_spec. rewrite Hp. cbv zeta.
    pose proof (fun fl => tdot_opA_correct a aa fl NDa Hla NDaa Haa) as EA.
    pose proof (fun fl => tdot_opB_correct b ab (length aa) fl NDb Hlb NDab Hab Hlen) as EB.
    cbv zeta in EA, EB.
    match goal with |- context [if ?c then _ else _] => change c with (tdot_flip_a a b aa ab) end.
    destruct (tdot_flip_a a b aa ab); cbn [negb].
    - pose proof (EA true) as EA1. pose proof (EB false) as EB1. cbv iota in EA1, EB1.
      match goal with |- context [a_tensordot G R (fbase G R (f_phase_sync G R ?x)) (fbase G R (f_phase_sync G R ?y))] =>
        change (fbase G R (f_phase_sync G R x)) with (f_value G R x);
        change (fbase G R (f_phase_sync G R y)) with (f_value G R y) end.
      rewrite EA1, EB1.
      match goal with |- context [a_tensordot G R ?A ?B ?ax ?m] => destruct (a_tensordot G R A B ax m) as [c|] end;
        [|reflexivity].
      apply finish_eq.
      + unfold fparity, f_phase_sync. cbn [fbase with_blocks charge]. now rewrite fbase_flip.
      + cbn [f_phase_sync foddpos]. now rewrite foddpos_flip.
      + reflexivity.
    - pose proof (EA false) as EA1. pose proof (EB true) as EB1. cbv iota in EA1, EB1.
      match goal with |- context [a_tensordot G R (fbase G R (f_phase_sync G R ?x)) (fbase G R (f_phase_sync G R ?y))] =>
        change (fbase G R (f_phase_sync G R x)) with (f_value G R x);
        change (fbase G R (f_phase_sync G R y)) with (f_value G R y) end.
      rewrite EA1, EB1.
      match goal with |- context [a_tensordot G R ?A ?B ?ax ?m] => destruct (a_tensordot G R A B ax m) as [c|] end;
        [|reflexivity].
      apply finish_eq.
      + reflexivity.
      + reflexivity.
      + cbn [f_phase_sync foddpos]. now rewrite foddpos_flip.
  Qed.

  (* the blocks of the two operands, sector by sector: "the two graded
     transpositions, plus one sign per odd contracted index that meets as
     ket-then-bra" (the a-leg is NOT dual), on whichever operand is flipped *)
  Theorem tdot_opA_block fl a aa s :
    let na := ndim G R (fbase G R a) in
    let la := rest_axes na aa in
    sectors_len a -> NoDup aa -> (forall i, In i aa -> i < na) -> length s = na ->
    lookup keq (permuted ch_d s (la ++ aa)) (blocks G R (tdot_opA fl a la aa))
    = option_map (fun t => sgn R (xorb (inv_parity (par_of G s) (map Z.of_nat (la ++ aa))) (fl && ketbra_a a aa s))
                               (ttranspose R t (la ++ aa))) (vblock a s).
  Proof.
    intros na la Hl NDaa Hlt Hs. unfold tdot_opA, vblock.
    apply (lookup_signed_transpose (f_value G R a) (la ++ aa)
             (fun s => xorb (inv_parity (par_of G s) (map Z.of_nat (la ++ aa))) (fl && ketbra_a a aa s)) s na);
      [now apply perm_rest_axes | | exact Hs].
    rewrite sectors_f_value. exact Hl.
  Qed.

  Theorem tdot_opB_block fl b ab s :
    let nb := ndim G R (fbase G R b) in
    let rb := rest_axes nb ab in
    sectors_len b -> NoDup ab -> (forall i, In i ab -> i < nb) -> length s = nb ->
    lookup keq (permuted ch_d s (ab ++ rb)) (blocks G R (tdot_opB fl b ab rb))
    = option_map (fun t => sgn R (xorb (inv_parity (par_of G s) (map Z.of_nat (rev ab ++ rb))) (fl && ketbra_b b ab s))
                               (ttranspose R t (ab ++ rb))) (vblock b s).
  Proof.
    intros nb rb Hl NDab Hlt Hs. unfold tdot_opB, vblock.
    apply (lookup_signed_transpose (f_value G R b) (ab ++ rb)
             (fun s => xorb (inv_parity (par_of G s) (map Z.of_nat (rev ab ++ rb))) (fl && ketbra_b b ab s)) s nb);
      [now apply perm_axes_rest | | exact Hs].
    rewrite sectors_f_value. exact Hl.
  Qed.

  (* ---------- branch independence ---------- *)
  Lemma flat_map_map {A B C'} (f : B -> list C') (g : A -> B) l : flat_map f (map g l) = flat_map (fun x => f (g x)) l.
  Proof. induction l as [|x l IH]; [reflexivity|]. cbn [map flat_map]. now rewrite IH. Qed.

  Lemma take_axes_Forall2 {A} (d : A) (sa sb : list A) aa ab :
    take_axes d sa aa = take_axes d sb ab -> Forall2 (fun i j => nth i sa d = nth j sb d) aa ab.
  Proof.
    unfold take_axes. revert ab. induction aa as [|i aa IH]; intros [|j ab] H; cbn [map] in H; try discriminate.
    - constructor.
    - injection H as H1 H2. constructor; [exact H1 | now apply IH].
  Qed.

  Lemma length_filter_Forall2 {A B} (P : A -> bool) (Q : B -> bool) la lb :
    Forall2 (fun x y => P x = Q y) la lb -> length (filter P la) = length (filter Q lb).
  Proof.
    induction 1 as [|x y la lb H _ IH]; [reflexivity|]. cbn [filter]. rewrite H.
    destruct (Q y); cbn [length]; now rewrite IH.
  Qed.

  Lemma Forall2_and {A B} (P Q : A -> B -> Prop) la lb :
    Forall2 P la lb -> Forall2 Q la lb -> Forall2 (fun x y => P x y /\ Q x y) la lb.
  Proof.
    induction 1 as [|x y la lb H _ IH]; intros H2; [constructor|].
    inversion H2; subst. constructor; [split; assumption | now apply IH].
  Qed.

  (* contracted legs have opposite directions *)
  Definition opposite_dirs (a b : farr) (aa ab : list nat) : Prop :=
    Forall2 (fun i j => idual G (nth i (indices G R (fbase G R a)) ix_d)
                        = negb (idual G (nth j (indices G R (fbase G R b)) ix_d))) aa ab.

  (* on ALIGNED sectors the ket-bra sign does not depend on which operand carries it *)
  Lemma ketbra_aligned a b aa ab (sa sb : sector) :
    opposite_dirs a b aa ab -> take_axes ch_d sa aa = take_axes ch_d sb ab ->
    ketbra_a a aa sa = ketbra_b b ab sb.
  Proof.
    intros Hd Ht. unfold ketbra_a, ketbra_b, count_odd. f_equal. rewrite !filter_filter.
    apply length_filter_Forall2.
    apply take_axes_Forall2 in Ht. pose proof (Forall2_and _ _ _ _ Hd Ht) as H.
    clear Hd Ht. induction H as [|i j aa ab [H1 H2] _ IH]; constructor; [|exact IH].
    unfold odd_at. rewrite H1, H2, negb_involutive. reflexivity.
  Qed.

  Lemma take_permuted_mid (s : sector) l0 m l2 :
    take_axes ch_d (permuted ch_d s (l0 ++ m ++ l2)) (seq (length l0) (length m)) = take_axes ch_d s m.
  Proof.
    unfold take_axes. rewrite !permuted_app.
    pose proof (map_nth_mid ch_d (permuted ch_d s l0) (permuted ch_d s m) (permuted ch_d s l2)) as H.
    rewrite !permuted_length in H. exact H.
  Qed.

  (* The two branches of `arr_size a <= arr_size b` differ only in WHICH operand
     carries the ket-then-bra signs.  Only aligned block pairs contribute to the
     contraction, and on those the products agree: the list of contributing
     (sector, block) products is literally the same. *)
  Theorem tensordot_branch_independent a b la aa ab rb la' rb' :
    opposite_dirs a b aa ab ->
    tdot_pairs G R (tdot_opA true a la aa) (tdot_opB false b ab rb) la' (seq (length la) (length aa)) (seq 0 (length ab)) rb'
    = tdot_pairs G R (tdot_opA false a la aa) (tdot_opB true b ab rb) la' (seq (length la) (length aa)) (seq 0 (length ab)) rb'.
  Proof.
    intros Hd. unfold tdot_pairs, tdot_opA, tdot_opB, signed_transpose. cbn [blocks].
    rewrite !flat_map_map. apply flat_map_ext. intros [sa ta].
    rewrite !flat_map_map. apply flat_map_ext. intros [sb tb]. cbn [fst snd andb].
    pose proof (take_permuted_mid sa la aa []) as E1. rewrite app_nil_r in E1.
    pose proof (take_permuted_mid sb [] ab rb) as E2. cbn [app length] in E2.
    rewrite E1, E2.
    destruct (keq (take_axes ch_d sa aa) (take_axes ch_d sb ab)) eqn:E; [|reflexivity].
    apply keq_spec in E. f_equal. f_equal.
    rewrite !(ttensordot_sgn R NL). f_equal.
    rewrite (ketbra_aligned a b aa ab sa sb Hd E), !xorb_false_r.
    generalize (inv_parity (par_of G sa) (map Z.of_nat (la ++ aa))) (inv_parity (par_of G sb) (map Z.of_nat (rev ab ++ rb)))
               (ketbra_b b ab sb).
    intros x y z. destruct x, y, z; reflexivity.
  Qed.

  Lemma norm_axes_of_nat n l : (forall i, In i l -> i < n) -> norm_axes n (map Z.of_nat l) = l.
  Proof.
    intros H. unfold norm_axes. rewrite map_map. rewrite <- (map_id l) at 2. apply map_ext_in.
    intros i Hi. specialize (H i Hi). rewrite Z.mod_small by lia. apply Nat2Z.id.
  Qed.

  Lemma a_tensordot_blockwise_nat (A B : arr) xa xb :
    length xa = length xb -> (forall i, In i xa -> i < ndim G R A) -> (forall i, In i xb -> i < ndim G R B) ->
    a_tensordot G R A B (inr (map Z.of_nat xa, map Z.of_nat xb)) MBlockwise
    = Some (tdot_blockwise G R A B (rest_axes (ndim G R A) xa) xa xb (rest_axes (ndim G R B) xb)).
  Proof.
    intros Hlen Ha Hb. unfold a_tensordot, parse_axes. rewrite !map_length, Hlen, Nat.eqb_refl.
    now rewrite !norm_axes_of_nat by assumption.
  Qed.

  (* With the block-by-block contraction the result does not depend on the
     branch at all: it is always the abelian contraction of
       A' = a transposed, Koszul sign, one sign per odd ket-then-bra contracted index
       B' = b transposed, Koszul sign of (reversed contracted axes ++ rest). *)
  Theorem tensordot_blockwise_value a b axes aa ab :
    parse_axes (ndim G R (fbase G R a)) (ndim G R (fbase G R b)) axes = Some (aa, ab) ->
    NoDup (fsectors G R a) -> sectors_len a -> NoDup (fsectors G R b) -> sectors_len b ->
    NoDup aa -> (forall i, In i aa -> i < ndim G R (fbase G R a)) ->
    NoDup ab -> (forall i, In i ab -> i < ndim G R (fbase G R b)) ->
    opposite_dirs a b aa ab ->
    let na := ndim G R (fbase G R a) in
    let nb := ndim G R (fbase G R b) in
    let la := rest_axes na aa in
    let rb := rest_axes nb ab in
    let ncon := length aa in
    f_tensordot G R a b axes MBlockwise
    = fermi_finish a b
        (Some (tdot_blockwise G R (tdot_opA true a la aa) (tdot_opB false b ab rb)
                 (rest_axes na (seq (na - ncon) ncon)) (seq (na - ncon) ncon)
                 (seq 0 ncon) (rest_axes nb (seq 0 ncon)))).
  Proof.
    intros Hp NDa Hla NDb Hlb NDaa Haa NDab Hab Hd na nb la rb ncon.
    rewrite (tensordot_sign_formula a b axes MBlockwise aa ab) by assumption.
    pose proof (parse_axes_length _ _ _ _ _ Hp) as Hlen.
    pose proof (length_rest_axes na aa NDaa Haa) as Lla. fold la in Lla.
    pose proof (length_rest_axes nb ab NDab Hab) as Lrb. fold rb in Lrb.
    assert (Hna : ncon <= na).
    { pose proof (Permutation_length (perm_rest_axes na aa NDaa Haa)) as H. rewrite app_length, seq_length in H. unfold ncon. lia. }
    assert (Hnb : ncon <= nb).
    { pose proof (Permutation_length (perm_rest_axes nb ab NDab Hab)) as H. rewrite app_length, seq_length in H. unfold ncon. lia. }
    unfold tdot_spec. fold na nb la rb ncon. f_equal.
    assert (NA : forall fl, ndim G R (tdot_opA fl a la aa) = na).
    { intros fl. unfold ndim, tdot_opA, signed_transpose. cbn [indices]. rewrite permuted_length, app_length.
      unfold ncon in Hna. fold (ndim G R (fbase G R a)). fold na. lia. }
    assert (NB : forall fl, ndim G R (tdot_opB fl b ab rb) = nb).
    { intros fl. unfold ndim, tdot_opB, signed_transpose. cbn [indices]. rewrite permuted_length, app_length.
      unfold ncon in Hnb. fold (ndim G R (fbase G R b)). fold nb. lia. }
    rewrite a_tensordot_blockwise_nat.
    2:{ now rewrite !seq_length. }
    2:{ intros i Hi. apply in_seq in Hi. rewrite NA. lia. }
    2:{ intros i Hi. apply in_seq in Hi. rewrite NB. lia. }
    rewrite NA, NB. f_equal.
    destruct (tdot_flip_a a b aa ab); cbn [negb]; [reflexivity|].
    unfold tdot_blockwise.
    replace (na - ncon) with (length la) by lia. unfold ncon.
    pose proof (fun l r => tensordot_branch_independent a b la aa ab rb l r Hd) as HB. rewrite <- Hlen in HB.
    rewrite <- !HB. reflexivity.
  Qed.

  (* ================================================================ part 5 *)
  Lemma blocks_rephase x y (c : sector -> bool) :
    fbase G R y = fbase G R x ->
    (forall s, In s (fsectors G R x) -> ph_has G s (fphases G R y) = xorb (ph_has G s (fphases G R x)) (c s)) ->
    blocks G R (f_value G R y) = map (fun sb => (fst sb, sgn R (c (fst sb)) (snd sb))) (blocks G R (f_value G R x)).
  Proof.
    intros Hb Hp. rewrite !blocks_f_value, Hb, map_map. apply map_ext_in. intros [k t] Hin. cbn [fst snd]. f_equal.
    rewrite Hp by (apply (in_map fst) in Hin; exact Hin). now rewrite (sgn_sgn R NL), xorb_comm.
  Qed.

  Lemma count_odd_single s ax : count_odd G s [ax] = odd_at G s ax.
  Proof. unfold count_odd. cbn [filter]. now destruct (odd_at G s ax). Qed.

  (* ---------- matmul ---------- *)
  Definition matmul_opB (b : farr) : arr :=
    f_value G R (if idual G (nth 0 (indices G R (fbase G R b)) ix_d) then f_phase_flip G R b [0] else b).

  Theorem matmul_value a b :
    f_matmul G R a b = fermi_finish a b (a_matmul G R (f_value G R a) (matmul_opB b)).
  Proof.
    unfold f_matmul, matmul_opB. cbv zeta.
    match goal with |- context [a_matmul G R (fbase G R (f_phase_sync G R ?x)) (fbase G R (f_phase_sync G R ?y))] =>
      change (fbase G R (f_phase_sync G R x)) with (f_value G R x);
      change (fbase G R (f_phase_sync G R y)) with (f_value G R y) end.
    match goal with |- context [a_matmul G R ?A ?B] => destruct (a_matmul G R A B) as [c|] end; [|reflexivity].
    apply finish_eq; [reflexivity | reflexivity |].
    cbn [f_phase_sync foddpos]. destruct (idual G _); [apply foddpos_flip | reflexivity].
  Qed.

  (* b's first leg is the bra end of the contracted pair iff it is dual; then a's
     last leg is a ket: ket-then-bra, one sign per odd charge *)
  Theorem matmul_opB_block b s : NoDup (fsectors G R b) ->
    lookup keq s (blocks G R (matmul_opB b))
    = osgn (idual G (nth 0 (indices G R (fbase G R b)) ix_d) && odd_at G s 0) (vblock b s).
  Proof.
    intros ND. unfold matmul_opB. destruct (idual G _); cbn [andb].
    - rewrite <- count_odd_single. apply (phase_flip_value b [0] s ND).
    - now rewrite osgn_false.
  Qed.

  (* ---------- trace ---------- *)
  Definition rsgn (b : bool) (v : RT R) : RT R := if b then rneg R v else v.

  Lemma fold_left_map {A B C'} (f : A -> B -> A) (g : C' -> B) l : forall a,
    fold_left f (map g l) a = fold_left (fun acc x => f acc (g x)) l a.
  Proof. induction l as [|x l IH]; intros a; [reflexivity|]. cbn [map fold_left]. apply IH. Qed.

  (* (bra, ket) matrix: the plain trace of the value *)
  Theorem trace_value_braket x il ir :
    indices G R (fbase G R x) = [il; ir] -> idual G il = true -> idual G ir = false ->
    f_trace G R x = a_trace G R (f_value G R x).
  Proof. intros Hi H1 H2. unfold f_trace. now rewrite Hi, H1, H2. Qed.

  (* (ket, bra) matrix: every diagonal block gets (-1)^{parity of its charge} *)
  Theorem trace_value_ketbra x il ir :
    indices G R (fbase G R x) = [il; ir] -> idual G il = false -> idual G ir = true ->
    NoDup (fsectors G R x) ->
    f_trace G R x
    = Some (fold_left (fun acc sb =>
              if ceqb G (nth 0 (fst sb) ch_d) (nth 1 (fst sb) ch_d)
              then radd R acc (rsgn (odd_at G (fst sb) 0) (ttrace R (snd sb))) else acc)
            (blocks G R (f_value G R x)) (r0 R)).
  Proof.
    intros Hi H1 H2 ND. unfold f_trace. rewrite Hi, H1, H2. cbn [andb negb].
    unfold a_trace.
    assert (Hn : ndim G R (f_value G R (f_phase_flip G R x [0])) = 2).
    { unfold ndim, f_value, f_phase_sync. cbn [fbase with_blocks indices]. now rewrite fbase_flip, Hi. }
    rewrite Hn. cbn [Nat.eqb]. f_equal.
    rewrite (blocks_rephase x _ (fun s => count_odd G s [0])).
    - rewrite fold_left_map. apply fold_left_ext. intros acc [k t]. cbn [fst snd].
      destruct (ceqb G (nth 0 k ch_d) (nth 1 k ch_d)); [|reflexivity]. f_equal.
      rewrite count_odd_single. destruct (odd_at G k 0); cbn [sgn rsgn]; [apply (ttrace_tneg R NL) | reflexivity].
    - apply fbase_flip.
    - intros s Hs. now rewrite ph_has_flip, (In_ph_has _ _ Hs), andb_true_r.
  Qed.

  (* ---------- single-array einsum ---------- *)
  Lemma insert_sorted_perm' {A} (lt : A -> A -> bool) x l : Permutation (insert_sorted lt x l) (x :: l).
  Proof.
    induction l as [|y l IH]; [apply Permutation_refl|]. cbn [insert_sorted].
    destruct (lt y x); [|apply Permutation_refl].
    eapply Permutation_trans; [apply perm_skip, IH | apply perm_swap].
  Qed.
  Lemma isort_perm' {A} (lt : A -> A -> bool) l : Permutation (isort lt l) l.
  Proof.
    induction l as [|x l IH]; [apply Permutation_refl|]. unfold isort. cbn [fold_right]. fold (isort lt l).
    eapply Permutation_trans; [apply insert_sorted_perm' | apply perm_skip, IH].
  Qed.

  Definition einsum_perm (x : farr) (lhs rhs : list nat) : list nat :=
    isort (ekey_ltb G lhs rhs (indices G R (fbase G R x))) (seq 0 (ndim G R (fbase G R x))).

  (* einsum = the graded transposition that sorts the axes (traced pairs
     adjacent, bra first), then the abelian einsum *)
  Theorem einsum_value x lhs rhs :
    NoDup (fsectors G R x) -> sectors_len x ->
    let perm := einsum_perm x lhs rhs in
    Permutation perm (seq 0 (ndim G R (fbase G R x))) /\
    f_einsum G R x lhs rhs
    = a_einsum G R (signed_transpose (f_value G R x) perm (fun s => inv_parity (par_of G s) (map Z.of_nat perm)))
        (map (fun i => nth i lhs 0) perm) rhs.
  Proof.
    intros ND Hl perm. assert (HP : Permutation perm (seq 0 (ndim G R (fbase G R x)))) by apply isort_perm'.
    split; [exact HP|]. unfold f_einsum. cbv zeta. fold (einsum_perm x lhs rhs). fold perm.
    change (fbase G R (f_phase_sync G R (f_transpose G R x perm true))) with (f_value G R (f_transpose G R x perm true)).
    rewrite (f_value_signed x (f_transpose G R x perm true) perm (fun s => inv_parity (par_of G s) (map Z.of_nat perm)));
      [reflexivity | reflexivity |].
    intros s Hs. now apply ph_has_transpose.
  Qed.

  (* ================================================================ part 6 *)
  (* element level: combining the sign formula with C02's `blockwise_sem_core` *)
  Section Element.
    Context (RL : SumLaws R).
    Notation dcoord := (ident G, 0).

    Lemma blocks_ok_f_value x : blocks_ok G R (fbase G R x) -> blocks_ok G R (f_value G R x).
    Proof.
      intros H.
      assert (Hin : forall sb, In sb (blocks G R (f_value G R x)) ->
                exists sb0, In sb0 (blocks G R (fbase G R x)) /\ fst sb = fst sb0 /\ tshape (snd sb) = tshape (snd sb0)).
      { intros sb Hsb. rewrite blocks_f_value in Hsb. apply in_map_iff in Hsb. destruct Hsb as [sb0 [<- H0]].
        exists sb0. cbn [fst snd]. rewrite tshape_sgn. auto. }
      change (ndim G R (f_value G R x)) with (ndim G R (fbase G R x)) in *.
      split.
      - rewrite sectors_f_value. apply (bo_nodup _ _ _ H).
      - intros sb Hsb. destruct (Hin sb Hsb) as [sb0 [H0 [E1 E2]]]. rewrite E1. apply (bo_len _ _ _ H sb0 H0).
      - intros sb i Hsb Hi. destruct (Hin sb Hsb) as [sb0 [H0 [E1 E2]]]. rewrite E1. apply (bo_tab _ _ _ H sb0 i H0 Hi).
      - intros sb Hsb. destruct (Hin sb Hsb) as [sb0 [H0 [E1 E2]]]. rewrite E2, E1. apply (bo_shape _ _ _ H sb0 H0).
    Qed.

    Lemma combine_map {A B C'} (f : A -> B) (g : A -> C') l :
      List.combine (map f l) (map g l) = map (fun x => (f x, g x)) l.
    Proof. induction l as [|x l IH]; [reflexivity|]. cbn [map List.combine]. now rewrite IH. Qed.

    Lemma block_shape_permuted ixs (s : sector) p :
      length s = length ixs -> (forall i, In i p -> i < length ixs) ->
      permuted 0 (block_shape G ixs s) p = block_shape G (permuted ix_d ixs p) (permuted ch_d s p).
    Proof.
      intros Hl Hp. unfold permuted at 2 3. unfold block_shape at 2. rewrite combine_map, map_map. cbn [fst snd].
      unfold permuted. apply map_ext_in. intros i Hi. apply Tdot.nth_block_shape; [apply Hp, Hi | exact Hl].
    Qed.

    Lemma blocks_ok_signed_transpose (X : arr) p sg :
      blocks_ok G R X -> Permutation p (seq 0 (ndim G R X)) -> blocks_ok G R (signed_transpose X p sg).
    Proof.
      intros H HP. set (n := ndim G R X) in *.
      assert (Hlt : forall i, In i p -> i < n) by (intros i Hi; apply (Permutation_in _ HP), in_seq in Hi; lia).
      assert (Lp : length p = n) by (rewrite (Permutation_length HP); apply seq_length).
      assert (Nd : ndim G R (signed_transpose X p sg) = n)
        by (unfold ndim, signed_transpose; cbn [indices]; now rewrite permuted_length).
      assert (Hsl : forall t, In t (sectors G R X) -> length t = n).
      { intros t Ht. apply in_map_iff in Ht. destruct Ht as [sb [<- Hsb]]. apply (bo_len _ _ _ H sb Hsb). }
      assert (Hin : forall sb, In sb (blocks G R (signed_transpose X p sg)) ->
                exists sb0, In sb0 (blocks G R X)
                  /\ sb = (permuted ch_d (fst sb0) p, sgn R (sg (fst sb0)) (ttranspose R (snd sb0) p))).
      { intros sb Hsb. unfold signed_transpose in Hsb. cbn [blocks] in Hsb. apply in_map_iff in Hsb.
        destruct Hsb as [sb0 [<- H0]]. now exists sb0. }
      split.
      - unfold sectors, signed_transpose. cbn [blocks]. rewrite map_map. cbn [fst].
        rewrite <- (map_map fst (fun s => permuted ch_d s p)).
        apply (NoDup_map_permuted _ _ n HP Hsl), (bo_nodup _ _ _ H).
      - intros sb Hsb. destruct (Hin sb Hsb) as [sb0 [H0 ->]]. cbn [fst]. now rewrite permuted_length, Nd.
      - intros sb i Hsb Hi. destruct (Hin sb Hsb) as [sb0 [H0 ->]]. cbn [fst]. rewrite Nd in Hi.
        unfold signed_transpose. cbn [indices]. unfold permuted. rewrite !(map_nth_lt _ _ 0) by lia.
        apply (bo_tab _ _ _ H sb0 _ H0). apply Hlt, nth_In. lia.
      - intros sb Hsb. destruct (Hin sb Hsb) as [sb0 [H0 ->]]. cbn [fst snd]. rewrite tshape_sgn.
        unfold signed_transpose. cbn [indices].
        change (tshape (ttranspose R (snd sb0) p)) with (permuted 0 (tshape (snd sb0)) p).
        rewrite (bo_shape _ _ _ H sb0 H0). apply block_shape_permuted; [apply (bo_len _ _ _ H sb0 H0) | exact Hlt].
    Qed.

    Lemma get_sgn b t idx : get R (sgn R b t) idx = rsgn b (get R t idx).
    Proof. destruct b; [apply (get_tneg R NL) | reflexivity]. Qed.

    Lemma rsgn_zero b : rsgn b (r0 R) = r0 R.
    Proof. destruct b; [apply (rneg_zero R NL) | reflexivity]. Qed.

    (* the value of a signed transpose at the permuted coordinate *)
    Lemma sem_signed_transpose (X : arr) p sg cs :
      blocks_ok G R X -> Permutation p (seq 0 (ndim G R X)) -> coords_ok G (indices G R X) cs = true ->
      sem G R (signed_transpose X p sg) (permuted dcoord cs p) = rsgn (sg (map fst cs)) (sem G R X cs).
    Proof.
      intros H HP Hc. set (n := ndim G R X) in *.
      pose proof (Tdot.coords_ok_length G _ _ Hc) as Lc.
      unfold sem. rewrite !permuted_map. cbn [fst snd].
      rewrite (lookup_signed_transpose X p sg (map fst cs) n HP).
      2:{ intros t Ht. apply in_map_iff in Ht. destruct Ht as [sb [<- Hsb]]. apply (bo_len _ _ _ H sb Hsb). }
      2:{ rewrite map_length. exact Lc. }
      destruct (lookup keq (map fst cs) (blocks G R X)) as [t|] eqn:E; cbn [option_map]; [|symmetry; apply rsgn_zero].
      rewrite get_sgn. f_equal.
      apply (Tdot.lookup_In keq keq_spec) in E. pose proof (bo_shape _ _ _ H _ E) as Hsh. cbn [fst snd] in Hsh.
      apply (get_ttranspose R).
      - rewrite Hsh, Tdot.length_block_shape by (rewrite map_length; exact Lc). exact HP.
      - rewrite Hsh. apply StructProofs.inb_block_shape, Hc.
    Qed.

    (* ---------- the accumulated dictionary has distinct keys ---------- *)
    Lemma map_fst_dset {V} k (v : V) d : (exists v0, lookup keq k d = Some v0) -> map fst (dset keq k v d) = map fst d.
    Proof.
      induction d as [|[k' v'] d IH]; intros [v0 H]; cbn [lookup] in H; [discriminate|]. cbn [dset].
      destruct (keq k k') eqn:E; cbn [map fst]; [reflexivity|]. f_equal. apply IH. eauto.
    Qed.

    Lemma lookup_None_notin {V} k (d : list (sector * V)) : lookup keq k d = None -> ~ In k (map fst d).
    Proof.
      induction d as [|[k' v'] d IH]; cbn [lookup map fst In]; [tauto|]. destruct (keq k k') eqn:E; [discriminate|].
      intros H [H1|H1]; [subst; rewrite keq_refl in E; discriminate | now apply IH].
    Qed.

    Lemma acc_add_nodup acc pr : NoDup (map fst acc) -> NoDup (map fst (acc_add G R acc pr)).
    Proof.
      intros ND. unfold acc_add. destruct (lookup keq (fst pr) acc) eqn:E.
      - rewrite map_fst_dset by eauto. exact ND.
      - rewrite map_app. cbn [map]. apply (Permutation_NoDup (Permutation_cons_append _ _)).
        constructor; [now apply lookup_None_notin | exact ND].
    Qed.

    Lemma tdot_blockwise_nodup A B la aa ab rb : NoDup (sectors G R (tdot_blockwise G R A B la aa ab rb)).
    Proof.
      unfold tdot_blockwise, sectors. cbn [blocks].
      assert (H : forall ps acc, NoDup (map fst acc) -> NoDup (map fst (fold_left (acc_add G R) ps acc))).
      { induction ps as [|pr ps IH]; intros acc ND; [exact ND|]. cbn [fold_left]. apply IH, acc_add_nodup, ND. }
      apply H. constructor.
    Qed.

    (* ---------- the global sign ---------- *)
    Lemma sem_finish c (minus : bool) odd cs : NoDup (sectors G R c) ->
      sem G R (f_value G R (let y := mkF G R c [] odd in if minus then f_phase_global G R y else y)) cs
      = rsgn minus (sem G R c cs).
    Proof.
      intros ND. cbv zeta. set (y := mkF G R c [] odd).
      assert (E0 : sem G R (f_value G R y) cs = sem G R c cs).
      { unfold sem. change (lookup keq (map fst cs) (blocks G R (f_value G R y))) with (vblock y (map fst cs)).
        rewrite vblock_base. cbn [y fphases fbase ph_has mem]. now rewrite osgn_false. }
      destruct minus; [|exact E0]. rewrite <- E0. unfold sem.
      change (lookup keq (map fst cs) (blocks G R (f_value G R (f_phase_global G R y))))
        with (vblock (f_phase_global G R y) (map fst cs)).
      change (lookup keq (map fst cs) (blocks G R (f_value G R y))) with (vblock y (map fst cs)).
      rewrite (vblock_rephase y (f_phase_global G R y) (fun _ => true)).
      - destruct (vblock y (map fst cs)); cbn [osgn option_map sgn rsgn]; [apply (get_tneg R NL) | symmetry; apply (rneg_zero R NL)].
      - reflexivity.
      - intros s Hs. unfold f_phase_global. cbn [with_phases fphases].
        pose proof (ph_has_fold (fun _ => true) s (fsectors G R y) ND (fphases G R y)) as Hf.
        rewrite (In_ph_has _ _ Hs) in Hf. exact Hf.
    Qed.

    (* ---------- coordinates ---------- *)
    Lemma coords_ok_intro ixs (cs : list (coord G)) :
      length cs = length ixs ->
      (forall i, i < length ixs -> snd (nth i cs dcoord) < size_of G (nth i ixs ix_d) (fst (nth i cs dcoord))) ->
      coords_ok G ixs cs = true.
    Proof.
      intros Hl H. unfold coords_ok. rewrite Hl, Nat.eqb_refl. cbn [andb].
      revert cs Hl H. induction ixs as [|ix ixs IH]; intros [|c cs] Hl H; cbn [length] in Hl; try discriminate; [reflexivity|].
      cbn [List.combine forallb fst snd]. apply andb_true_iff. split.
      - apply Nat.ltb_lt. apply (H 0). cbn [length]. lia.
      - apply IH; [lia|]. intros i Hi. apply (H (S i)). cbn [length]. lia.
    Qed.

    Lemma coords_ok_app ixs1 ixs2 (cs1 cs2 : list (coord G)) :
      coords_ok G ixs1 cs1 = true -> coords_ok G ixs2 cs2 = true -> coords_ok G (ixs1 ++ ixs2) (cs1 ++ cs2) = true.
    Proof.
      intros H1 H2. destruct (coords_nth G _ _ H1) as [L1 N1]. destruct (coords_nth G _ _ H2) as [L2 N2].
      apply coords_ok_intro; [rewrite !app_length; lia|]. intros i Hi. rewrite app_length in Hi.
      destruct (Nat.lt_ge_cases i (length ixs1)) as [Hlt|Hge].
      - rewrite !app_nth1 by lia. now apply N1.
      - rewrite !app_nth2 by lia. rewrite L1. apply N2. lia.
    Qed.

    Lemma coords_ok_unpermute ixs (cs : list (coord G)) p :
      Permutation p (seq 0 (length ixs)) -> length cs = length ixs ->
      coords_ok G (permuted ix_d ixs p) (permuted dcoord cs p) = true -> coords_ok G ixs cs = true.
    Proof.
      intros HP Hl H. destruct (coords_nth G _ _ H) as [_ N]. rewrite permuted_length in N.
      apply coords_ok_intro; [exact Hl|]. intros i Hi.
      assert (Hin : In i p) by (apply (Permutation_in _ (Permutation_sym HP)), in_seq; lia).
      destruct (In_nth p i 0 Hin) as [j [Hj Ej]]. specialize (N j Hj).
      unfold permuted in N. rewrite !(map_nth_lt _ _ 0) in N by exact Hj. now rewrite Ej in N.
    Qed.

    Lemma In_index_coords ix (c : coord G) :
      NoDup (icharges G ix) -> In c (index_coords G ix) -> snd c < size_of G ix (fst c).
    Proof.
      intros ND H. unfold index_coords in H. apply in_flat_map in H. destruct H as [[ch d] [Hp H]].
      apply in_map_iff in H. destruct H as [o [<- Ho]]. apply in_seq in Ho. cbn [fst snd] in *.
      rewrite (Tdot.size_of_in G ceqb_spec ix ch d ND Hp). lia.
    Qed.

    Lemma In_all_coords ixs (kc : list (coord G)) :
      Forall (fun ix => NoDup (icharges G ix)) ixs -> In kc (all_coords G ixs) -> coords_ok G ixs kc = true.
    Proof.
      intros HF H. unfold all_coords in H. apply in_product in H.
      revert kc H. induction HF as [|ix ixs Hix HF IH]; intros kc H; cbn [map] in H; inversion H; subst; [reflexivity|].
      unfold coords_ok. cbn [length List.combine forallb fst snd].
      match goal with Hc : In ?c (index_coords G ix), Ht : Forall2 _ ?l _ |- _ =>
        pose proof (In_index_coords ix c Hix Hc) as Hlt; specialize (IH l Ht) end.
      unfold coords_ok in IH. apply andb_true_iff in IH. destruct IH as [IH1 IH2].
      apply Nat.eqb_eq in IH1. rewrite IH1, Nat.eqb_refl. cbn [andb]. apply andb_true_iff. split; [now apply Nat.ltb_lt | exact IH2].
    Qed.

    Lemma take_permuted_mid_gen {A} (d : A) (s : list A) l0 m l2 :
      take_axes d (permuted d s (l0 ++ m ++ l2)) (seq (length l0) (length m)) = take_axes d s m.
    Proof.
      unfold take_axes. rewrite !permuted_app.
      pose proof (map_nth_mid d (permuted d s l0) (permuted d s m) (permuted d s l2)) as H.
      rewrite !permuted_length in H. exact H.
    Qed.

    Lemma filter_all {A} (f : A -> bool) l : (forall x, In x l -> f x = true) -> filter f l = l.
    Proof.
      induction l as [|x l IH]; intros H; [reflexivity|]. cbn [filter]. rewrite (H x (or_introl eq_refl)). f_equal.
      apply IH. intros y Hy. apply H. now right.
    Qed.
    Lemma filter_none {A} (f : A -> bool) l : (forall x, In x l -> f x = false) -> filter f l = [].
    Proof.
      induction l as [|x l IH]; intros H; [reflexivity|]. cbn [filter]. rewrite (H x (or_introl eq_refl)).
      apply IH. intros y Hy. apply H. now right.
    Qed.
    Lemma memN_false x l : ~ In x l -> mem Nat.eqb x l = false.
    Proof. intros H. destruct (mem Nat.eqb x l) eqn:E; [apply memN_In in E; contradiction | reflexivity]. Qed.

    Lemma rest_axes_tail n k : k <= n -> rest_axes n (seq (n - k) k) = seq 0 (n - k).
    Proof.
      intros H. unfold rest_axes. replace (seq 0 n) with (seq 0 (n - k) ++ seq (n - k) k).
      2:{ rewrite <- seq_app. f_equal. lia. }
      rewrite filter_app, filter_all, filter_none; [apply app_nil_r | |].
      - intros i Hi. apply memN_In in Hi. now rewrite Hi.
      - intros i Hi. apply in_seq in Hi. rewrite memN_false; [reflexivity|]. rewrite in_seq. lia.
    Qed.

    Lemma rest_axes_head n k : k <= n -> rest_axes n (seq 0 k) = seq k (n - k).
    Proof.
      intros H. unfold rest_axes. replace (seq 0 n) with (seq 0 k ++ seq k (n - k)).
      2:{ rewrite <- seq_app. f_equal. lia. }
      rewrite filter_app, filter_none, filter_all; [reflexivity | |].
      - intros i Hi. apply in_seq in Hi. rewrite memN_false; [reflexivity|]. rewrite in_seq. lia.
      - intros i Hi. apply memN_In in Hi. now rewrite Hi.
    Qed.

    (* the coordinates at which the abelian contraction reads the transposed
       operands are the permuted coordinates of the original operands *)
    Lemma merge_permuted_a na aa (cl kc : list (coord G)) :
      NoDup aa -> (forall i, In i aa -> i < na) -> length kc = length aa -> length cl = na - length aa ->
      merge G na (seq (na - length aa) (length aa)) cl kc
      = permuted dcoord (merge G na aa cl kc) (rest_axes na aa ++ aa).
    Proof.
      intros ND Hlt Lk Lc. set (la := rest_axes na aa).
      pose proof (length_rest_axes na aa ND Hlt) as Lla. fold la in Lla.
      assert (Hle : length aa <= na).
      { pose proof (Permutation_length (perm_rest_axes na aa ND Hlt)) as H. rewrite app_length, seq_length in H. lia. }
      unfold merge. set (M := scatterA dcoord na aa kc cl).
      apply (proj2 (scatterA_eq_iff dcoord na (seq (na - length aa) (length aa)) kc cl
                      (permuted dcoord M (la ++ aa)) (seq_NoDup _ _)
                      ltac:(intros i Hi; apply in_seq in Hi; lia)
                      ltac:(now rewrite seq_length)
                      ltac:(rewrite rest_axes_tail, seq_length by exact Hle; exact Lc)
                      ltac:(rewrite permuted_length, app_length; lia))).
      split.
      - rewrite <- Lla. pose proof (take_permuted_mid_gen dcoord M la aa []) as H. rewrite app_nil_r in H.
        rewrite H. unfold M. symmetry. now apply take_scatterA_axes.
      - rewrite rest_axes_tail by exact Hle. rewrite <- Lla.
        pose proof (take_permuted_mid_gen dcoord M [] la aa) as H. cbn [app length] in H.
        rewrite H. unfold M, la. symmetry.
        apply take_scatterA_rest. fold la. rewrite Lla. exact Lc.
    Qed.

    Lemma merge_permuted_b nb ab (cr kc : list (coord G)) :
      NoDup ab -> (forall i, In i ab -> i < nb) -> length kc = length ab -> length cr = nb - length ab ->
      merge G nb (seq 0 (length ab)) cr kc
      = permuted dcoord (merge G nb ab cr kc) (ab ++ rest_axes nb ab).
    Proof.
      intros ND Hlt Lk Lc. set (rb := rest_axes nb ab).
      pose proof (length_rest_axes nb ab ND Hlt) as Lrb. fold rb in Lrb.
      assert (Hle : length ab <= nb).
      { pose proof (Permutation_length (perm_rest_axes nb ab ND Hlt)) as H. rewrite app_length, seq_length in H. lia. }
      unfold merge. set (M := scatterA dcoord nb ab kc cr).
      apply (proj2 (scatterA_eq_iff dcoord nb (seq 0 (length ab)) kc cr
                      (permuted dcoord M (ab ++ rb)) (seq_NoDup _ _)
                      ltac:(intros i Hi; apply in_seq in Hi; lia)
                      ltac:(now rewrite seq_length)
                      ltac:(rewrite rest_axes_head, seq_length by exact Hle; exact Lc)
                      ltac:(rewrite permuted_length, app_length; lia))).
      split.
      - pose proof (take_permuted_mid_gen dcoord M [] ab rb) as H. cbn [app length] in H.
        rewrite H. unfold M. symmetry. now apply take_scatterA_axes.
      - rewrite rest_axes_head by exact Hle. rewrite <- Lrb.
        pose proof (take_permuted_mid_gen dcoord M ab rb []) as H. rewrite app_nil_r in H.
        rewrite H. unfold M, rb. symmetry. apply take_scatterA_rest. fold rb. rewrite Lrb. exact Lc.
    Qed.

    (* a merged coordinate is inside the tables *)
    Lemma coords_ok_merge ixs aa (cl kc : list (coord G)) :
      NoDup aa -> (forall i, In i aa -> i < length ixs) ->
      coords_ok G (take_axes ix_d ixs aa) kc = true -> coords_ok G (without_axes ixs aa) cl = true ->
      coords_ok G ixs (merge G (length ixs) aa cl kc) = true.
    Proof.
      intros ND Hlt Hk Hc. set (n := length ixs). set (la := rest_axes n aa).
      pose proof (perm_rest_axes n aa ND Hlt) as HP. fold la in HP.
      pose proof (Tdot.coords_ok_length G _ _ Hk) as Lk. rewrite (length_take_axes ix_d) in Lk.
      pose proof (Tdot.coords_ok_length G _ _ Hc) as Lc.
      rewrite (without_axes_take ix_d), (length_take_axes ix_d) in Lc. fold n la in Lc.
      apply (coords_ok_unpermute ixs _ (la ++ aa) HP).
      - unfold merge, scatterA. apply length_scatterA_go.
      - rewrite !permuted_app. unfold merge.
        change (permuted dcoord (scatterA dcoord n aa kc cl) la) with (take_axes dcoord (scatterA dcoord n aa kc cl) la).
        change (permuted dcoord (scatterA dcoord n aa kc cl) aa) with (take_axes dcoord (scatterA dcoord n aa kc cl) aa).
        rewrite (take_scatterA_axes dcoord n aa kc cl ND Hlt Lk).
        unfold la. rewrite (take_scatterA_rest dcoord n aa kc cl) by (fold la; exact Lc).
        apply coords_ok_app; [|exact Hk].
        rewrite (without_axes_take ix_d) in Hc. exact Hc.
    Qed.

    Lemma coords_ok_agree ixs1 ixs2 (cs : list (coord G)) :
      map (chargemap G) ixs1 = map (chargemap G) ixs2 -> coords_ok G ixs1 cs = coords_ok G ixs2 cs.
    Proof.
      revert ixs2 cs. induction ixs1 as [|i1 ixs1 IH]; intros [|i2 ixs2] cs H; cbn [map] in H; try discriminate; [reflexivity|].
      injection H as H1 H2. unfold coords_ok. cbn [length]. destruct cs as [|c cs]; [reflexivity|].
      cbn [length List.combine forallb fst snd]. specialize (IH ixs2 cs H2). unfold coords_ok in IH.
      cbn [Nat.eqb]. unfold size_of at 1 3. rewrite H1.
      destruct (Nat.eqb (length cs) (length ixs1)) eqn:E1, (Nat.eqb (length cs) (length ixs2)) eqn:E2;
        cbn [andb] in *; try reflexivity; try (now rewrite IH);
        try (rewrite andb_false_r in IH); try discriminate; try (symmetry in IH; rewrite andb_false_r in IH; discriminate).
      - apply (f_equal (@length _)) in H2. rewrite !map_length in H2. apply Nat.eqb_eq in E1. rewrite <- H2, E1, Nat.eqb_refl in E2. discriminate.
      - apply (f_equal (@length _)) in H2. rewrite !map_length in H2. apply Nat.eqb_eq in E2. rewrite H2, E2, Nat.eqb_refl in E1. discriminate.
    Qed.

    (* the signs of the two operands, in the words of the property *)
    Definition sigma_a (a : farr) (aa : list nat) (s : sector) : bool :=
      xorb (inv_parity (par_of G s) (map Z.of_nat (rest_axes (ndim G R (fbase G R a)) aa ++ aa))) (ketbra_a a aa s).
    Definition sigma_b (b : farr) (ab : list nat) (s : sector) : bool :=
      inv_parity (par_of G s) (map Z.of_nat (rev ab ++ rest_axes (ndim G R (fbase G R b)) ab)).

    Theorem tensordot_blockwise_element a b axes aa ab (minus : bool) odd :
      let na := ndim G R (fbase G R a) in
      let nb := ndim G R (fbase G R b) in
      let cixs := take_axes ix_d (indices G R (fbase G R a)) aa in
      parse_axes na nb axes = Some (aa, ab) ->
      blocks_ok G R (fbase G R a) -> blocks_ok G R (fbase G R b) ->
      NoDup aa -> (forall i, In i aa -> i < na) -> NoDup ab -> (forall i, In i ab -> i < nb) ->
      opposite_dirs a b aa ab ->
      Forall (fun ix => NoDup (icharges G ix)) cixs ->
      map (chargemap G) cixs = map (chargemap G) (take_axes ix_d (indices G R (fbase G R b)) ab) ->
      resolve_oddpos (fparity G R a) (foddpos G R a) (foddpos G R b) = Some (minus, odd) ->
      exists y, f_tensordot G R a b axes MBlockwise = Some y /\ foddpos G R y = odd /\
        forall cl cr,
          coords_ok G (without_axes (indices G R (fbase G R a)) aa) cl = true ->
          coords_ok G (without_axes (indices G R (fbase G R b)) ab) cr = true ->
          sem G R (f_value G R y) (cl ++ cr)
          = rsgn minus (rsum R (map (fun kc =>
              rmul R (rsgn (sigma_a a aa (map fst (merge G na aa cl kc))) (sem G R (f_value G R a) (merge G na aa cl kc)))
                     (rsgn (sigma_b b ab (map fst (merge G nb ab cr kc))) (sem G R (f_value G R b) (merge G nb ab cr kc))))
              (all_coords G cixs))).
    Proof.
      intros na nb cixs Hp Hoa Hob NDaa Haa NDab Hab Hd Hcn Htab Hres.
      assert (NDa : NoDup (fsectors G R a)) by apply (bo_nodup _ _ _ Hoa).
      assert (NDb : NoDup (fsectors G R b)) by apply (bo_nodup _ _ _ Hob).
      assert (Hla : sectors_len a).
      { intros t Ht. apply in_map_iff in Ht. destruct Ht as [sb [<- Hsb]]. apply (bo_len _ _ _ Hoa sb Hsb). }
      assert (Hlb : sectors_len b).
      { intros t Ht. apply in_map_iff in Ht. destruct Ht as [sb [<- Hsb]]. apply (bo_len _ _ _ Hob sb Hsb). }
      pose proof (parse_axes_length _ _ _ _ _ Hp) as Hlen.
      set (la := rest_axes na aa). set (rb := rest_axes nb ab). set (ncon := length aa).
      pose proof (perm_rest_axes na aa NDaa Haa) as HPa. fold la in HPa.
      pose proof (perm_axes_rest nb ab NDab Hab) as HPb. fold rb in HPb.
      pose proof (length_rest_axes na aa NDaa Haa) as Lla. fold la ncon in Lla.
      pose proof (length_rest_axes nb ab NDab Hab) as Lrb. fold rb in Lrb. rewrite <- Hlen in Lrb. fold ncon in Lrb.
      assert (Hna : ncon <= na).
      { pose proof (Permutation_length HPa) as H. rewrite app_length, seq_length in H. unfold ncon. lia. }
      assert (Hnb : ncon <= nb).
      { pose proof (Permutation_length HPb) as H. rewrite app_length, seq_length in H. unfold ncon. lia. }
      rewrite (tensordot_blockwise_value a b axes aa ab Hp NDa Hla NDb Hlb NDaa Haa NDab Hab Hd).
      fold na nb la rb ncon. unfold fermi_finish. rewrite Hres. eexists. split; [reflexivity|].
      split; [destruct minus; reflexivity|]. intros cl cr Hcl Hcr.
      rewrite sem_finish by apply tdot_blockwise_nodup. f_equal.
      set (A' := tdot_opA true a la aa). set (B' := tdot_opB false b ab rb).
      assert (OA : blocks_ok G R A') by (apply blocks_ok_signed_transpose; [now apply blocks_ok_f_value | exact HPa]).
      assert (OB : blocks_ok G R B') by (apply blocks_ok_signed_transpose; [now apply blocks_ok_f_value | exact HPb]).
      assert (NA : ndim G R A' = na).
      { unfold ndim, A', tdot_opA, signed_transpose. cbn [indices]. rewrite permuted_length, app_length.
        fold (ndim G R (fbase G R a)). fold na. unfold ncon in *. lia. }
      assert (NB : ndim G R B' = nb).
      { unfold ndim, B', tdot_opB, signed_transpose. cbn [indices]. rewrite permuted_length, app_length.
        fold (ndim G R (fbase G R b)). fold nb. unfold ncon in *. lia. }
      assert (IA : take_axes ix_d (indices G R A') (seq (na - ncon) ncon) = cixs).
      { unfold A', tdot_opA, signed_transpose. cbn [indices]. rewrite <- Lla. unfold ncon.
        pose proof (take_permuted_mid_gen ix_d (indices G R (fbase G R a)) la aa []) as H. rewrite app_nil_r in H. exact H. }
      assert (WA : without_axes (indices G R A') (seq (na - ncon) ncon) = without_axes (indices G R (fbase G R a)) aa).
      { rewrite !(without_axes_take ix_d). fold (ndim G R A'). rewrite NA. fold (ndim G R (fbase G R a)). fold na la.
        rewrite rest_axes_tail by exact Hna. rewrite <- Lla.
        unfold A', tdot_opA, signed_transpose. cbn [indices].
        pose proof (take_permuted_mid_gen ix_d (indices G R (fbase G R a)) [] la aa) as H. cbn [app length] in H. exact H. }
      assert (WB : without_axes (indices G R B') (seq 0 ncon) = without_axes (indices G R (fbase G R b)) ab).
      { rewrite !(without_axes_take ix_d). fold (ndim G R B'). rewrite NB. fold (ndim G R (fbase G R b)). fold nb rb.
        rewrite rest_axes_head by exact Hnb. rewrite <- Lrb. unfold ncon. rewrite Hlen.
        unfold B', tdot_opB, signed_transpose. cbn [indices].
        pose proof (take_permuted_mid_gen ix_d (indices G R (fbase G R b)) ab rb []) as H. rewrite app_nil_r in H. exact H. }
      pose proof (blockwise_sem_core G R RL ceqb_spec A' B' (seq (na - ncon) ncon) (seq 0 ncon) cl cr OA OB
                    (seq_NoDup _ _) ltac:(intros i Hi; apply in_seq in Hi; rewrite NA; lia)
                    (seq_NoDup _ _) ltac:(intros i Hi; apply in_seq in Hi; rewrite NB; lia)
                    ltac:(now rewrite !seq_length)
                    ltac:(rewrite IA; exact Hcn) ltac:(rewrite WA; exact Hcl) ltac:(rewrite WB; exact Hcr)) as HS.
      rewrite NA, NB, IA in HS. rewrite HS. clear HS.
      apply (Tdot.rsum_ext R). intros kc Hkc.
      pose proof (In_all_coords cixs kc Hcn Hkc) as Hk.
      pose proof (Tdot.coords_ok_length G _ _ Hk) as Lk. unfold cixs in Lk. rewrite (length_take_axes ix_d) in Lk.
      pose proof (Tdot.coords_ok_length G _ _ Hcl) as Lcl.
      rewrite (without_axes_take ix_d), (length_take_axes ix_d) in Lcl. fold (ndim G R (fbase G R a)) in Lcl. fold na la in Lcl.
      pose proof (Tdot.coords_ok_length G _ _ Hcr) as Lcr.
      rewrite (without_axes_take ix_d), (length_take_axes ix_d) in Lcr. fold (ndim G R (fbase G R b)) in Lcr. fold nb rb in Lcr.
      assert (Hkb : coords_ok G (take_axes ix_d (indices G R (fbase G R b)) ab) kc = true).
      { rewrite <- (coords_ok_agree _ _ kc Htab). exact Hk. }
      f_equal.
      - unfold ncon. rewrite (merge_permuted_a na aa cl kc NDaa Haa Lk) by (rewrite Lcl; exact Lla).
        fold la. unfold A', tdot_opA.
        rewrite sem_signed_transpose; [cbn [andb]; reflexivity | now apply blocks_ok_f_value | exact HPa |].
        apply (coords_ok_merge (indices G R (fbase G R a)) aa cl kc NDaa Haa Hk Hcl).
      - unfold ncon. rewrite Hlen. rewrite (merge_permuted_b nb ab cr kc NDab Hab) by (try (rewrite Lcr, Lrb; unfold ncon); congruence).
        fold rb. unfold B', tdot_opB.
        rewrite sem_signed_transpose; [cbn [andb]; rewrite xorb_false_r; reflexivity | now apply blocks_ok_f_value | exact HPb |].
        apply (coords_ok_merge (indices G R (fbase G R b)) ab cr kc NDab Hab Hkb Hcr).
    Qed.
  End Element.
End Phases.

(* ================================================================ examples *)
(* The hypotheses of the theorems above hold on concrete non-trivial instances:
   Z2, odd total charge, mixed directions, a missing sector, pending signs and
   odd-position labels. *)
Module Ex.
  Definition fill (sh : list nat) (seed : Z) : tensor ZRing :=
    build ZRing sh (fun idx => (seed + Z.of_nat (offset sh idx) + 1)%Z).
  Definition mkarr (ixs : list (index Z2)) (ch : Z) (secs : list (list Z)) (seed : Z) : aarray Z2 ZRing :=
    mkA Z2 ZRing ixs ch
      (map (fun p => (snd p, fill (block_shape Z2 ixs (snd p)) (seed + 10 * Z.of_nat (fst p)))) (enumerate secs)).

  Definition ixA := [Index Z2 [(0%Z, 1); (1%Z, 2)] false None; Index Z2 [(0%Z, 2); (1%Z, 1)] true None;
                     Index Z2 [(0%Z, 1); (1%Z, 1)] false None].
  Definition xA : farray Z2 ZRing :=
    mkF Z2 ZRing (mkarr ixA 1%Z [[0; 0; 1]; [1; 1; 1]; [1; 0; 0]]%Z 3) [[1; 1; 1]%Z] [([3%Z], false)].
  Definition ixB := [Index Z2 [(0%Z, 1); (1%Z, 1)] true None; Index Z2 [(0%Z, 1); (1%Z, 3)] true None;
                     Index Z2 [(0%Z, 2); (1%Z, 1)] false None].
  Definition xB : farray Z2 ZRing :=
    mkF Z2 ZRing (mkarr ixB 1%Z [[1; 1; 1]; [0; 1; 0]; [1; 0; 0]; [0; 0; 1]]%Z 100)
        [[0; 1; 0]%Z; [1; 0; 0]%Z] [([5%Z], false)].
  (* a (ket, bra) matrix with an odd diagonal block *)
  Definition ixM := [Index Z2 [(0%Z, 1); (1%Z, 2)] false None; Index Z2 [(0%Z, 1); (1%Z, 2)] true None].
  Definition xM : farray Z2 ZRing := mkF Z2 ZRing (mkarr ixM 0%Z [[0; 0]; [1; 1]]%Z 7) [[1; 1]%Z] [].

  Lemma Z2_ceqb_spec : forall a b : C Z2, ceqb Z2 a b = true <-> a = b.
  Proof. exact Z.eqb_eq. Qed.

  Lemma nodup_secs (l : list (list Z)) : nodupb (list_eqb Z.eqb) l = true -> NoDup l.
  Proof. apply (nodupb_NoDup (list_eqb Z.eqb)). apply list_eqb_eq, Z.eqb_eq. Qed.
  Lemma nodup_nats (l : list nat) : nodupb Nat.eqb l = true -> NoDup l.
  Proof. apply (nodupb_NoDup Nat.eqb Nat.eqb_eq). Qed.
  Lemma all_lt (n : nat) (l : list nat) : forallb (fun i => Nat.ltb i n) l = true -> forall i, In i l -> i < n.
  Proof. intros H i Hi. rewrite forallb_forall in H. apply Nat.ltb_lt. now apply H. Qed.
  Lemma all_len {A} (n : nat) (l : list (list A)) :
    forallb (fun t => Nat.eqb (length t) n) l = true -> forall t, In t l -> length t = n.
  Proof. intros H t Ht. rewrite forallb_forall in H. apply Nat.eqb_eq. now apply H. Qed.

  (* transpose_value: a cyclic permutation, the all-odd sector with a pending sign *)
  Example transpose_value_hyps :
    NoDup (fsectors Z2 ZRing xA) /\ sectors_len Z2 ZRing xA
    /\ Permutation [2; 0; 1] (seq 0 (ndim Z2 ZRing (fbase Z2 ZRing xA)))
    /\ length [1; 1; 1]%Z = ndim Z2 ZRing (fbase Z2 ZRing xA)
    /\ inv_parity (par_of Z2 [1; 1; 1]%Z) (map Z.of_nat [2; 0; 1]) = false
    /\ inv_parity (par_of Z2 [1; 1; 1]%Z) (map Z.of_nat [1; 0; 2]) = true
    /\ vblock Z2 ZRing (f_transpose Z2 ZRing xA [1; 0; 2] true) [1; 1; 1]%Z
       = Some (@mkT ZRing [1; 2; 1] [14; 15]%Z)
    /\ vblock Z2 ZRing xA [1; 1; 1]%Z = Some (@mkT ZRing [2; 1; 1] [-14; -15]%Z).
  Proof.
    split; [apply nodup_secs; reflexivity|]. split; [unfold sectors_len; apply all_len; reflexivity|].
    split; [|repeat split; reflexivity].
    cbn. apply Permutation_trans with (l' := [0; 2; 1]); [apply perm_swap | apply perm_skip, perm_swap].
  Qed.

  (* tensordot: two contracted legs given in non-sorted order, both operands odd *)
  Example tensordot_hyps :
    parse_axes (ndim Z2 ZRing (fbase Z2 ZRing xA)) (ndim Z2 ZRing (fbase Z2 ZRing xB)) (inr ([-1; 1]%Z, [0; 2]%Z))
      = Some ([2; 1], [0; 2])
    /\ NoDup (fsectors Z2 ZRing xA) /\ sectors_len Z2 ZRing xA
    /\ NoDup (fsectors Z2 ZRing xB) /\ sectors_len Z2 ZRing xB
    /\ NoDup [2; 1] /\ (forall i, In i [2; 1] -> i < ndim Z2 ZRing (fbase Z2 ZRing xA))
    /\ NoDup [0; 2] /\ (forall i, In i [0; 2] -> i < ndim Z2 ZRing (fbase Z2 ZRing xB))
    /\ opposite_dirs Z2 ZRing xA xB [2; 1] [0; 2]
    /\ (exists y, f_tensordot Z2 ZRing xA xB (inr ([-1; 1]%Z, [0; 2]%Z)) MBlockwise = Some y
                  /\ fphases Z2 ZRing y <> [] /\ length (fsectors Z2 ZRing y) = 2).
  Proof.
    split; [reflexivity|].
    split; [apply nodup_secs; reflexivity|]. split; [unfold sectors_len; apply all_len; reflexivity|].
    split; [apply nodup_secs; reflexivity|]. split; [unfold sectors_len; apply all_len; reflexivity|].
    split; [apply nodup_nats; reflexivity|]. split; [apply all_lt; reflexivity|].
    split; [apply nodup_nats; reflexivity|]. split; [apply all_lt; reflexivity|].
    split; [repeat constructor|].
    eexists. split; [vm_compute; reflexivity|]. split; [discriminate | reflexivity].
  Qed.

  (* the two branches really are different intermediate arrays on this instance,
     and the contributing pairs agree *)
  Example branch_example :
    tdot_opA Z2 ZRing true xA [0] [2; 1] <> tdot_opA Z2 ZRing false xA [0] [2; 1]
    /\ tdot_pairs Z2 ZRing (tdot_opA Z2 ZRing true xA [0] [2; 1]) (tdot_opB Z2 ZRing false xB [0; 2] [1]) [0] [1; 2] [0; 1] [2]
       = tdot_pairs Z2 ZRing (tdot_opA Z2 ZRing false xA [0] [2; 1]) (tdot_opB Z2 ZRing true xB [0; 2] [1]) [0] [1; 2] [0; 1] [2].
  Proof. split; [vm_compute; discriminate | vm_compute; reflexivity]. Qed.

  (* trace of a (ket, bra) matrix: the odd diagonal block enters with a minus sign
     (here on top of its pending sign) *)
  Example trace_hyps :
    indices Z2 ZRing (fbase Z2 ZRing xM) = ixM /\ NoDup (fsectors Z2 ZRing xM)
    /\ f_trace Z2 ZRing xM = Some (8 + (18 + 21))%Z
    /\ a_trace Z2 ZRing (f_value Z2 ZRing xM) = Some (8 - (18 + 21))%Z.
  Proof. split; [reflexivity|]. split; [apply nodup_secs; reflexivity|]. split; reflexivity. Qed.

  (* the element-level theorem: well-formed operands, matching duplicate-free
     tables on the contracted legs, a resolvable label list with a global minus;
     and its two sides evaluated on one coordinate *)
  Example element_hyps :
    blocks_ok Z2 ZRing (fbase Z2 ZRing xA) /\ blocks_ok Z2 ZRing (fbase Z2 ZRing xB)
    /\ Forall (fun ix => NoDup (icharges Z2 ix)) (take_axes (dflt_index Z2) (indices Z2 ZRing (fbase Z2 ZRing xA)) [2; 1])
    /\ map (chargemap Z2) (take_axes (dflt_index Z2) (indices Z2 ZRing (fbase Z2 ZRing xA)) [2; 1])
       = map (chargemap Z2) (take_axes (dflt_index Z2) (indices Z2 ZRing (fbase Z2 ZRing xB)) [0; 2])
    /\ resolve_oddpos (fparity Z2 ZRing xA) (foddpos Z2 ZRing xA) (foddpos Z2 ZRing xB)
       = Some (true, [([3%Z], false); ([5%Z], false)])
    /\ coords_ok Z2 (without_axes (indices Z2 ZRing (fbase Z2 ZRing xA)) [2; 1]) [(1%Z, 1)] = true
    /\ coords_ok Z2 (without_axes (indices Z2 ZRing (fbase Z2 ZRing xB)) [0; 2]) [(1%Z, 2)] = true
    /\ (match f_tensordot Z2 ZRing xA xB (inr ([-1; 1]%Z, [0; 2]%Z)) MBlockwise with
        | Some y => sem Z2 ZRing (f_value Z2 ZRing y) ([(1%Z, 1)] ++ [(1%Z, 2)])
        | None => 0%Z end) = 7667%Z
    /\ rsgn ZRing true (rsum ZRing (map (fun kc =>
          rmul ZRing (rsgn ZRing (sigma_a Z2 ZRing xA [2; 1] (map fst (merge Z2 3 [2; 1] [(1%Z, 1)] kc)))
                        (sem Z2 ZRing (f_value Z2 ZRing xA) (merge Z2 3 [2; 1] [(1%Z, 1)] kc)))
                     (rsgn ZRing (sigma_b Z2 ZRing xB [0; 2] (map fst (merge Z2 3 [0; 2] [(1%Z, 2)] kc)))
                        (sem Z2 ZRing (f_value Z2 ZRing xB) (merge Z2 3 [0; 2] [(1%Z, 2)] kc))))
          (all_coords Z2 (take_axes (dflt_index Z2) (indices Z2 ZRing (fbase Z2 ZRing xA)) [2; 1])))) = 7667%Z.
  Proof.
    split; [apply (wf_blocks_ok Z2 ZRing Z2_ceqb_spec); reflexivity|].
    split; [apply (wf_blocks_ok Z2 ZRing Z2_ceqb_spec); reflexivity|].
    split; [repeat constructor; cbn; intuition discriminate|].
    repeat split; vm_compute; reflexivity.
  Qed.
End Ex.
