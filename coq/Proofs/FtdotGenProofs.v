(* Proofs/FtdotGenProofs.v — the contraction FRONT END generated from the current source of
   symmray/fermionic_core.py::tensordot_fermionic and FermionicArray.__matmul__ (Gen/FtdotGen.v,
   tr/gen_ftdot.py) IS the hand model of Model/Fermi.v (f_tensordot, f_matmul) and of Model/Fused.v
   (f_tensordot2) on which the theorems of C03 are stated.

   The generated functions work on array states (indices, charge, blocks, sign table, labels) with an
   abstract index type, abstract blocks and the abelian routines as Section variables.  Here they are
   instantiated with the hand model's records: IX = index G, B = tensor R, the block movement of
   AbelianArray.transpose = a_transpose, the abelian contraction = ANY function td on abelian arrays
   (a_tensordot ... mode for f_tensordot, a_tensordot2 ... mode for f_tensordot2).  `st_of x` is the state
   of the hand-model array x (sign table = the dict holding -1 for every sector of fphases x, in order).

   Everything is an EQUALITY OF STATES (index tables, charge, the association list of blocks in order,
   the sign table as an association list in order, the labels), unbounded, for all operands that satisfy
   the dict invariants (no key twice), whose stored sectors have the rank of the array and charges of
   parity 0/1, and all contractible axes. *)
From SV Require Import Base.Prelude Base.PyList Base.Sym Base.Tensor Gen.PhasePerm Gen.OpOrder Gen.Helpers Gen.PhasesGen
  Gen.OddposGen Gen.FtdotGen
  Model.Sectors Model.Array Model.Arith Model.Fermi Model.Fused Model.SymInst Model.Graded Model.Oddpos Model.Wf
  Proofs.Tdot Proofs.FermiProofs Proofs.LazyProofs Proofs.ConjProofs Proofs.HelpersProofs Proofs.RouteProofs
  Proofs.OddposGenProofs Proofs.PhasesGenProofs.
From Coq Require Import Permutation.
Local Open Scope Z_scope.

(* ------------------------------------------------------------------ *)
(* small arithmetic / list facts *)
Lemma py_prod_from (l : list nat) : forall acc : nat,
  fold_left Z.mul (map Z.of_nat l) (Z.of_nat acc) = Z.of_nat (acc * nprod l).
Proof.
  induction l as [|x l IH]; intro acc; cbn [map fold_left nprod fold_right].
  - f_equal. lia.
  - rewrite <- Nat2Z.inj_mul, IH. f_equal. unfold nprod. lia.
Qed.

Lemma py_prod_nat (l : list nat) : py_prod (map Z.of_nat l) = Z.of_nat (nprod l).
Proof. unfold py_prod. change 1 with (Z.of_nat 1). rewrite py_prod_from. f_equal. lia. Qed.

Lemma to_nat_zl (l : list nat) : map Z.to_nat (zl l) = l.
Proof. unfold zl. rewrite map_map. rewrite <- (map_id l) at 2. apply map_ext. intro. apply Nat2Z.id. Qed.

Lemma zl_app (a b : list nat) : zl (a ++ b) = zl a ++ zl b.
Proof. apply map_app. Qed.

Lemma length_zl (l : list nat) : length (zl l) = length l.
Proof. apply map_length. Qed.

Lemma without_seq_rest (n : nat) (aa : list nat) : without_axes (seq 0 n) aa = rest_axes n aa.
Proof.
  unfold without_axes, rest_axes. rewrite seq_length.
  generalize 0%nat as k. induction n as [|n IH]; intro k; [reflexivity|].
  cbn [seq List.combine filter fst]. destruct (mem Nat.eqb k aa); cbn [negb map snd]; [apply IH|].
  f_equal. apply IH.
Qed.

Lemma without_axes_map' {A B} (f : A -> B) (l : list A) axes : without_axes (map f l) axes = map f (without_axes l axes).
Proof.
  unfold without_axes. rewrite map_length. generalize 0%nat as k.
  induction l as [|x l IH]; intro k; [reflexivity|].
  cbn [length seq map List.combine filter fst]. destruct (mem Nat.eqb k axes); cbn [negb map snd]; [apply IH|].
  f_equal. apply IH.
Qed.

Lemma gen_rest_axes (n : nat) (aa : list nat) : Helpers.without (zrange (Z.of_nat n)) (zl aa) = zl (rest_axes n aa).
Proof.
  rewrite zrange_nat, gen_without. unfold zl. rewrite without_axes_map'. now rewrite without_seq_rest.
Qed.

(* ------------------------------------------------------------------ *)
(* the instantiation with the hand model's records *)
Section Inst.
  Context (G : Symmetry) (R : Ring).
  Notation sector := (list (C G)).
  Notation farr := (farray G R).
  Notation arr := (aarray G R).
  Notation T := (tensor R).
  Notation keq := (list_eqb (ceqb G)).
  Notation ftstate := (list (index G) * C G * list (sector * T) * list (sector * Z) * list op)%type.
  Notation abel := (list (index G) * C G * list (sector * T))%type.

  (* `.size_total` of an index *)
  Definition ix_sz (ix : index G) : Z := Z.of_nat (size_total G ix).
  (* AbelianArray.transpose on (indices, blocks): the hand model's a_transpose *)
  Definition amove (ix : list (index G)) (bl : list (sector * T)) (axes : list Z) : list (index G) * list (sector * T) :=
    let y := a_transpose G R (mkA G R ix (ident G) bl) (map Z.to_nat axes) in (indices G R y, blocks G R y).
  Definition abel_of (x : arr) : abel := (indices G R x, charge G R x, blocks G R x).
  Definition arr_of_abel (r : abel) : arr := let '(ix, ch, bl) := r in mkA G R ix ch bl.
  (* an abelian contraction on records, as the generated front end calls it *)
  Definition atd (td : arr -> arr -> list Z -> list Z -> option arr) (x y : abel) (xa xb : list Z) : option abel :=
    option_map abel_of (td (arr_of_abel x) (arr_of_abel y) xa xb).
  Definition amm (x y : abel) : option abel := option_map abel_of (a_matmul G R (arr_of_abel x) (arr_of_abel y)).

  (* the state of a hand-model array *)
  Definition st_of (x : farr) : ftstate :=
    (indices G R (fbase G R x), charge G R (fbase G R x), blocks G R (fbase G R x), tbl_of (fphases G R x), foddpos G R x).
  (* ... and back *)
  Definition farr_of (s : ftstate) : farr :=
    mkF G R (mkA G R (st_indices s) (st_charge s) (st_blocks s)) (minus_keys (st_phases s)) (st_oddpos s).

  Definition td_gen (td : arr -> arr -> list Z -> list Z -> option arr) :=
    tensordot_fermionic_gen G T (tneg R) (index G) (idual G) ix_sz (dflt_index G) amove (atd td).
  Definition mm_gen := matmul_fermionic_gen G T (tneg R) (index G) (idual G) (dflt_index G) amm.
End Inst.

(* ------------------------------------------------------------------ *)
(* each step of the front end, on the state of a hand-model array, is the hand model's operation *)
Section Ops.
  Context (G : Symmetry) (R : Ring).
  Context (ceqb_spec : forall a b : C G, ceqb G a b = true <-> a = b) (PO : parity_ok G).
  Notation sector := (list (C G)).
  Notation farr := (farray G R).
  Notation arr := (aarray G R).
  Notation T := (tensor R).
  Notation keq := (list_eqb (ceqb G)).
  Notation IXT := (index G).
  Notation ST := (st_of G R).

  Lemma arr_eta (x : arr) : mkA G R (indices G R x) (charge G R x) (blocks G R x) = x.
  Proof. now destruct x. Qed.

  Lemma abel_st (x : farr) : arr_of_abel G R (ft_abel G T IXT (ST x)) = fbase G R x.
  Proof. unfold ft_abel, st_of, arr_of_abel. cbn [st_indices st_charge st_blocks]. apply arr_eta. Qed.

  Lemma ndim_st (x : farr) : ft_ndim G T IXT (ST x) = Z.of_nat (ndim G R (fbase G R x)).
  Proof. reflexivity. Qed.

  Lemma size_st (x : farr) : ft_size G T IXT (ix_sz G) (ST x) = Z.of_nat (arr_size G R (fbase G R x)).
  Proof.
    unfold ft_size, st_of, arr_size, ix_sz. cbn [st_indices].
    rewrite <- (map_map (size_total G) Z.of_nat). apply py_prod_nat.
  Qed.

  Lemma flags_st (x : farr) : ft_flags G T IXT (idual G) (ST x) = duals G R (fbase G R x).
  Proof. reflexivity. Qed.

  Lemma phase_flip_st (x : farr) (axs : list nat) :
    NoDup (fphases G R x) -> bits_ok G (fsectors G R x) ->
    ft_phase_flip G T IXT (idual G) (ST x) (zl axs) = ST (f_phase_flip G R x axs).
  Proof.
    intros Hn Hb. unfold ft_phase_flip. unfold st_of at 2 3 4 5. cbn [st_charge st_blocks st_phases st_oddpos].
    unfold zl. rewrite (gen_phase_flip G ceqb_spec PO) by (try rewrite keys_blocks; assumption).
    unfold ft_keep_indices, st_of, f_phase_flip. cbn [st_indices st_charge st_blocks st_phases st_oddpos].
    rewrite keys_blocks. destruct (is_nil axs); reflexivity.
  Qed.

  Lemma phase_transpose_st (x : farr) (perm : option (list nat)) :
    NoDup (fphases G R x) ->
    ft_phase_transpose G T IXT (idual G) (ST x) (zperm perm) = ST (f_phase_transpose G R x perm).
  Proof.
    intros Hn. unfold ft_phase_transpose. unfold st_of at 2 3 4 5. cbn [st_charge st_blocks st_phases st_oddpos].
    rewrite (gen_phase_transpose G ceqb_spec) by assumption.
    unfold ft_keep_indices, st_of, f_phase_transpose. cbn [st_indices st_charge st_blocks st_phases st_oddpos].
    rewrite keys_blocks. reflexivity.
  Qed.

  Lemma phase_global_st (x : farr) :
    NoDup (fphases G R x) ->
    ft_phase_global G T IXT (idual G) (ST x) = ST (f_phase_global G R x).
  Proof.
    intros Hn. unfold ft_phase_global. unfold st_of at 2 3 4 5. cbn [st_charge st_blocks st_phases st_oddpos].
    rewrite (gen_phase_global G ceqb_spec) by assumption.
    unfold ft_keep_indices, st_of, f_phase_global. cbn [st_indices st_charge st_blocks st_phases st_oddpos].
    rewrite keys_blocks. reflexivity.
  Qed.

  Lemma phase_sync_st (x : farr) :
    NoDup (fphases G R x) -> NoDup (fsectors G R x) ->
    ft_phase_sync G T (tneg R) IXT (idual G) (ST x) = ST (f_phase_sync G R x).
  Proof.
    intros Hn Hs. unfold ft_phase_sync. unfold st_of at 2 3 4 5. cbn [st_charge st_blocks st_phases st_oddpos].
    rewrite (gen_phase_sync G ceqb_spec) by (try rewrite keys_blocks; assumption).
    reflexivity.
  Qed.

  Lemma transpose_gen_parts {B} mv ix ch (bl : list (sector * B)) ph od ax p :
    transpose_gen G B mv ix ch bl ph od (Some ax) p
    = (fst (mv ix bl ax), ch, snd (mv ix bl ax), st_phases (transpose_gen G B mv ix ch bl ph od (Some ax) p), od).
  Proof. unfold transpose_gen. cbv zeta. destruct (mv ix bl ax) as [i2 b2]. reflexivity. Qed.

  Lemma transpose_st (x : farr) (axes : list nat) :
    NoDup (map (fun s => Tensor.permuted (ident G) s axes) (fsectors G R x)) ->
    ft_transpose G T IXT (idual G) (amove G R) (ST x) (zl axes) = ST (f_transpose G R x axes true).
  Proof.
    intros Hn. unfold ft_transpose. cbv zeta. rewrite transpose_gen_parts.
    cbn [st_charge st_blocks st_phases st_oddpos].
    unfold st_of at 3 4 5 6 7 8 9. cbn [st_charge st_blocks st_phases st_oddpos st_indices].
    unfold zl at 3. rewrite (phases_transpose G R ceqb_spec x) by (try apply keys_blocks; exact Hn).
    unfold amove. cbv zeta. change (map Z.of_nat axes) with (zl axes). rewrite !to_nat_zl.
    unfold st_of, f_transpose, a_transpose.
    cbn [fst snd indices blocks charge fbase fphases foddpos st_indices st_blocks st_oddpos]. reflexivity.
  Qed.

  Lemma copy_with_st (x : farr) (c : arr) :
    ft_copy_with G T IXT (ST x) (abel_of G R c) = ST (mkF G R c (fphases G R x) (foddpos G R x)).
  Proof. reflexivity. Qed.

  (* resolve_combined_oddpos(l, r, y): the generated label resolution, the generated phase_global when its flag is set *)
  Lemma resolve_st (l r y : farr) :
    NoDup (fphases G R y) ->
    ft_resolve G T IXT (idual G) (ST l) (ST r) (ST y)
    = match resolve_oddpos (fparity G R l) (foddpos G R l) (foddpos G R r) with
      | None => None
      | Some (minus, od) =>
          let y' := mkF G R (fbase G R y) (fphases G R y) od in
          Some (ST (if minus then f_phase_global G R y' else y'))
      end.
  Proof.
    intro Hn. unfold ft_resolve. cbv zeta.
    change (st_oddpos (ST l)) with (foddpos G R l). change (st_oddpos (ST r)) with (foddpos G R r).
    change (negb (parityZ G (st_charge (ST l)) =? 0)) with (fparity G R l).
    rewrite resolve_oddpos_is_resolve.
    rewrite <- (gen_option_eq_model (length (foddpos G R l ++ foddpos G R r) * length (foddpos G R l ++ foddpos G R r) + 1)
                  (foddpos G R l) (foddpos G R r) (fparity G R l)) by apply Nat.le_refl.
    destruct (resolve_combined_oddpos_gen _ _ _ _) as [| |flip od]; cbn [gen_result_option]; try reflexivity.
    destruct flip.
    - rewrite phase_global_st by exact Hn. reflexivity.
    - reflexivity.
  Qed.
End Ops.

(* ------------------------------------------------------------------ *)
(* the hand model's front end with the abelian contraction as a parameter *)
Section Front.
  Context (G : Symmetry) (R : Ring).
  Notation sector := (list (C G)).
  Notation farr := (farray G R).
  Notation arr := (aarray G R).
  Notation T := (tensor R).
  Notation IXT := (index G).
  Notation ST := (st_of G R).
  Local Open Scope nat_scope.

  Definition f_front (td : arr -> arr -> list Z -> list Z -> option arr) (a b : farr) (axes : nat + (list Z * list Z))
    : option farr :=
    let na := ndim G R (fbase G R a) in
    let nb := ndim G R (fbase G R b) in
    match parse_axes na nb axes with
    | None => None
    | Some (aa, ab) =>
        let la := rest_axes na aa in
        let rb := rest_axes nb ab in
        let ncon := length aa in
        let a1 := f_transpose G R a (la ++ aa) true in
        let b1 := f_transpose G R b (ab ++ rb) true in
        let b2 := f_phase_transpose G R b1 (Some (rev (seq 0 ncon) ++ seq ncon (nb - ncon))) in
        let naa := seq (na - ncon) ncon in
        let nab := seq 0 ncon in
        let ixa := indices G R (fbase G R a1) in
        let ixb := indices G R (fbase G R b2) in
        let '(a2, b3) :=
          if Nat.leb (arr_size G R (fbase G R a1)) (arr_size G R (fbase G R b2))
          then (f_phase_flip G R a1 (filter (fun ax => negb (idual G (nth ax ixa (dflt_index G)))) naa), b2)
          else (a1, f_phase_flip G R b2 (filter (fun ax => idual G (nth ax ixb (dflt_index G))) nab)) in
        let a3 := f_phase_sync G R a2 in
        let b4 := f_phase_sync G R b3 in
        match td (fbase G R a3) (fbase G R b4) (map Z.of_nat naa) (map Z.of_nat nab) with
        | None => None
        | Some c => finish_contraction G R a3 b4 c
        end
    end.

  (* the two hand models of tensordot_fermionic are this front end over their abelian contraction *)
  Lemma f_tensordot_is_front a b axes mode :
    f_tensordot G R a b axes mode = f_front (fun x y xa xb => a_tensordot G R x y (inr (xa, xb)) mode) a b axes.
  Proof. reflexivity. Qed.

  Lemma f_tensordot2_is_front a b axes mode :
    f_tensordot2 G R a b axes mode = f_front (fun x y xa xb => a_tensordot2 G R x y (inr (xa, xb)) mode) a b axes.
  Proof. reflexivity. Qed.

  Definition zaxes (axes : nat + (list Z * list Z)) : Z + (list Z * list Z) :=
    match axes with inl k => inl (Z.of_nat k) | inr p => inr p end.

  (* what the theorems ask of an operand: the dict invariants (no key twice in the blocks / in the sign table),
     stored sectors have the rank of the array, parities of their charges are 0 or 1 *)
  Definition opnd_ok (x : farr) : Prop :=
    NoDup (fsectors G R x) /\ sectors_len G R x /\ NoDup (fphases G R x) /\ bits_ok G (fsectors G R x).

  Context (ceqb_spec : forall a b : C G, ceqb G a b = true <-> a = b) (PO : parity_ok G).

  (* ---- invariants along the front end ---- *)
  Lemma NoDup_flat_sub {A B'} (f : A -> B') (c : A -> bool) (l : list A) :
    NoDup (map f l) -> NoDup (flat_map (fun s => if c s then [f s] else []) l).
  Proof.
    induction l as [|s l IH]; cbn [map flat_map]; intro H; [constructor|].
    inversion H as [|? ? Hnin Hnd]; subst.
    destruct (c s); cbn [app]; [|now apply IH]. constructor; [|now apply IH].
    intro Hin. apply Hnin. apply in_flat_map in Hin. destruct Hin as [t [Ht Hin]].
    destruct (c t); [|destruct Hin]. destruct Hin as [E|E]; [|destruct E]. rewrite <- E. now apply in_map.
  Qed.

  Lemma NoDup_fphases_transpose (x : farr) axes :
    NoDup (map (fun s => Tensor.permuted (ident G) s axes) (fsectors G R x)) ->
    NoDup (fphases G R (f_transpose G R x axes true)).
  Proof. intro H. unfold f_transpose. cbn [fphases]. now apply NoDup_flat_sub. Qed.

  Lemma bits_ok_transpose (x : farr) axes ph :
    bits_ok G (fsectors G R x) -> bits_ok G (fsectors G R (f_transpose G R x axes ph)).
  Proof.
    intros H s c Hs Hc. rewrite fsectors_transpose in Hs. apply in_map_iff in Hs. destruct Hs as [t [Et Ht]]. subst s.
    unfold Tensor.permuted in Hc. apply in_map_iff in Hc. destruct Hc as [p [Ep _]]. subst c.
    destruct (nth_in_or_default p t (ident G)) as [Hin|E]; [exact (H t _ Ht Hin)|]. rewrite E. left. exact PO.
  Qed.

  Lemma ndim_transpose (x : farr) axes ph : ndim G R (fbase G R (f_transpose G R x axes ph)) = length axes.
  Proof. unfold f_transpose, a_transpose, ndim, Tensor.permuted. cbn [fbase indices]. apply map_length. Qed.

  Lemma fsectors_ptranspose (x : farr) perm : fsectors G R (f_phase_transpose G R x perm) = fsectors G R x.
  Proof. reflexivity. Qed.

  Lemma NoDup_fphases_ptranspose (x : farr) perm :
    NoDup (fphases G R x) -> NoDup (fphases G R (f_phase_transpose G R x perm)).
  Proof. intro H. unfold f_phase_transpose, with_phases. cbn [fphases]. now apply (NoDup_fold_toggle G ceqb_spec). Qed.

  Lemma fsectors_pflip (x : farr) axs : fsectors G R (f_phase_flip G R x axs) = fsectors G R x.
  Proof. unfold f_phase_flip. now destruct (is_nil axs). Qed.

  Lemma NoDup_fphases_pflip (x : farr) axs :
    NoDup (fphases G R x) -> NoDup (fphases G R (f_phase_flip G R x axs)).
  Proof.
    intro H. unfold f_phase_flip. destruct (is_nil axs); [exact H|].
    unfold with_phases. cbn [fphases]. now apply (NoDup_fold_toggle G ceqb_spec).
  Qed.

  (* ---- the axis lists ---- *)
  Lemma zrange2_tail (n k : nat) : k <= n -> zrange2 (Z.of_nat n - Z.of_nat k) (Z.of_nat n) = zl (seq (n - k) k).
  Proof.
    intro H. rewrite <- Nat2Z.inj_sub by exact H. rewrite zrange2_nat. do 2 f_equal. lia.
  Qed.

  Lemma flip_axes_a (ixs : list IXT) (l : list nat) :
    map (fun v : Z => v) (filter (fun v : Z => negb (idual G (py_nth (dflt_index G) ixs v))) (zl l))
    = zl (filter (fun ax => negb (idual G (nth ax ixs (dflt_index G)))) l).
  Proof.
    rewrite map_id. apply filter_zl. intros x _. now rewrite py_nth_nat.
  Qed.

  Lemma flip_axes_b (ixs : list IXT) (l : list nat) :
    map (fun v : Z => v) (filter (fun v : Z => idual G (py_nth (dflt_index G) ixs v)) (zl l))
    = zl (filter (fun ax => idual G (nth ax ixs (dflt_index G))) l).
  Proof.
    rewrite map_id. apply filter_zl. intros x _. now rewrite py_nth_nat.
  Qed.

  Lemma leb_of_nat (x y : nat) : (Z.of_nat x <=? Z.of_nat y)%Z = Nat.leb x y.
  Proof. destruct (Nat.leb_spec x y); [apply Z.leb_le | apply Z.leb_gt]; lia. Qed.

  (* parse_axes in the generated form *)
  Lemma norm_axes_zl n (xs : list Z) : (forall i, In i (norm_axes n xs) -> i < n) ->
    map (fun v : Z => (v mod Z.of_nat n)%Z) xs = zl (norm_axes n xs).
  Proof.
    intro H. unfold norm_axes, zl. rewrite map_map. apply map_ext_in. intros x Hx.
    assert (Hn : 0 < n).
    { specialize (H (Z.to_nat (x mod Z.of_nat n))). unfold norm_axes in H.
      assert (Hi : In (Z.to_nat (x mod Z.of_nat n)) (map (fun x0 : Z => Z.to_nat (x0 mod Z.of_nat n)) xs))
        by (apply in_map_iff; now exists x).
      specialize (H Hi). lia. }
    rewrite Z2Nat.id; [reflexivity|]. apply Z.mod_pos_bound. lia.
  Qed.

  (* what the front end hands back for the hand model's result r: with preserve_array a rank-0 result stays an
     array; otherwise it is the block stored under the empty sector, pending signs multiplied in, or 0.0 *)
  Definition ft_out (pres : bool) (r : option farr) : ft_result (list IXT * C G * list (sector * T) * list (sector * Z) * list op) T :=
    match r with
    | None => FtRaise
    | Some c =>
        if (Z.of_nat (ndim G R (fbase G R c)) =? 0)%Z && negb pres
        then match lookup (list_eqb (ceqb G)) [] (blocks G R (f_value G R c)) with Some v => FtScalar v | None => FtZero end
        else FtArray (ST c)
    end.

  Lemma out_st (pres : bool) (c : farr) :
    NoDup (fphases G R c) -> (pres = false -> NoDup (fsectors G R c)) ->
    (if (ft_ndim G T IXT (ST c) =? 0)%Z && negb pres
     then ft_scalar G T IXT (ft_phase_sync G T (tneg R) IXT (idual G) (ST c)) else FtArray (ST c))
    = ft_out pres (Some c).
  Proof.
    intros Hp Hs. unfold ft_out. rewrite ndim_st.
    destruct ((Z.of_nat (ndim G R (fbase G R c)) =? 0)%Z); cbn [andb]; [|reflexivity].
    destruct pres; cbn [negb]; [reflexivity|].
    rewrite (phase_sync_st G R ceqb_spec) by auto. reflexivity.
  Qed.

  Lemma finish_ok (c0 : arr) (m : bool) od :
    let y := mkF G R c0 [] od in
    NoDup (fphases G R (if m then f_phase_global G R y else y)) /\
    fsectors G R (if m then f_phase_global G R y else y) = sectors G R c0.
  Proof.
    cbv zeta. destruct m; (split; [|reflexivity]); [|constructor].
    unfold f_phase_global, with_phases. cbn [fphases]. apply (NoDup_fold_toggle_all G ceqb_spec). constructor.
  Qed.

  Theorem gen_tensordot_front td (a b : farr) axes aa ab pres :
    let na := ndim G R (fbase G R a) in
    let nb := ndim G R (fbase G R b) in
    opnd_ok a -> opnd_ok b ->
    parse_axes na nb axes = Some (aa, ab) ->
    NoDup aa -> (forall i, In i aa -> i < na) -> NoDup ab -> (forall i, In i ab -> i < nb) ->
    (pres = false -> forall x y xa xb c, td x y xa xb = Some c -> NoDup (sectors G R c)) ->
    td_gen G R td (ST a) (ST b) (zaxes axes) pres = ft_out pres (f_front td a b axes).
  Proof.
    intros na nb (NDa & SLa & NPa & BOa) (NDb & SLb & NPb & BOb) Hpar NDaa Laa NDab Lab Htd.
    assert (Hk : length aa <= na).
    { pose proof (Permutation_length (perm_rest_axes na aa NDaa Laa)) as H. rewrite app_length, seq_length in H. lia. }
    assert (Elen : length ab = length aa).
    { unfold parse_axes in Hpar. destruct axes as [k|[xa xb]].
      - inversion Hpar; subst. now rewrite !seq_length.
      - destruct (Nat.eqb_spec (length xa) (length xb)) as [E|E]; [|discriminate].
        inversion Hpar; subst. unfold norm_axes. rewrite !map_length. now symmetry. }
    unfold td_gen, tensordot_fermionic_gen, f_front. cbv zeta. rewrite !ndim_st. fold na nb. rewrite Hpar.
    (* the axes *)
    match goal with |- match ?m with Some _ => _ | None => _ end = _ => assert (Epar : m = Some (zl aa, zl ab)) end.
    { unfold parse_axes in Hpar. destruct axes as [k|[xa xb]]; cbn [zaxes].
      - inversion Hpar; subst aa ab. rewrite seq_length in Hk. rewrite zrange2_tail by exact Hk.
        change 0%Z with (Z.of_nat 0). rewrite zrange2_nat, Nat.sub_0_r. reflexivity.
      - destruct (Nat.eqb_spec (length xa) (length xb)) as [E|E]; [|discriminate].
        inversion Hpar; subst aa ab. rewrite !map_length, E, Z.eqb_refl. cbn [negb].
        rewrite (norm_axes_zl na xa Laa), (norm_axes_zl nb xb Lab). reflexivity. }
    rewrite Epar. clear Epar.
    set (la := rest_axes na aa). set (rb := rest_axes nb ab). set (ncon := length aa).
    pose proof (perm_rest_axes na aa NDaa Laa) as Pa. fold la in Pa.
    pose proof (perm_axes_rest nb ab NDab Lab) as Pb. fold rb in Pb.
    assert (NDa1 : NoDup (map (fun s => Tensor.permuted (ident G) s (la ++ aa)) (fsectors G R a)))
      by (apply (NoDup_map_permuted G _ _ na); assumption).
    assert (NDb1 : NoDup (map (fun s => Tensor.permuted (ident G) s (ab ++ rb)) (fsectors G R b)))
      by (apply (NoDup_map_permuted G _ _ nb); assumption).
    rewrite !gen_rest_axes. fold la rb. rewrite <- !zl_app, !length_zl. fold ncon.
    rewrite !(transpose_st G R ceqb_spec) by assumption.
    set (a1 := f_transpose G R a (la ++ aa) true). set (b1 := f_transpose G R b (ab ++ rb) true).
    assert (Enb : ndim G R (fbase G R b1) = nb).
    { unfold b1. rewrite ndim_transpose. pose proof (Permutation_length Pb) as H. now rewrite seq_length in H. }
    assert (NPa1 : NoDup (fphases G R a1)) by now apply NoDup_fphases_transpose.
    assert (NPb1 : NoDup (fphases G R b1)) by now apply NoDup_fphases_transpose.
    assert (NSa1 : NoDup (fsectors G R a1)) by (unfold a1; now rewrite fsectors_transpose).
    assert (NSb1 : NoDup (fsectors G R b1)) by (unfold b1; now rewrite fsectors_transpose).
    assert (BOa1 : bits_ok G (fsectors G R a1)) by now apply bits_ok_transpose.
    assert (BOb1 : bits_ok G (fsectors G R b1)) by now apply bits_ok_transpose.
    (* the virtual reversal of b's contracted legs *)
    rewrite !ndim_st, Enb, py_range_down_rev.
    change (map Z.of_nat (rev (seq 0 ncon))) with (zl (rev (seq 0 ncon))).
    rewrite zrange2_nat, <- zl_app.
    change (Some (zl (rev (seq 0 ncon) ++ seq ncon (nb - ncon)))) with (zperm (Some (rev (seq 0 ncon) ++ seq ncon (nb - ncon)))).
    rewrite !(phase_transpose_st G R ceqb_spec) by assumption.
    set (b2 := f_phase_transpose G R b1 (Some (rev (seq 0 ncon) ++ seq ncon (nb - ncon)))).
    assert (NPb2 : NoDup (fphases G R b2)) by now apply NoDup_fphases_ptranspose.
    (* the size test and the flipped legs *)
    rewrite !size_st, leb_of_nat, zrange2_tail by exact Hk. rewrite zrange_nat.
    change (st_indices (ST a1)) with (indices G R (fbase G R a1)).
    change (st_indices (ST b2)) with (indices G R (fbase G R b2)).
    rewrite flip_axes_a, flip_axes_b.
    rewrite !(phase_flip_st G R ceqb_spec PO) by assumption.
    destruct (Nat.leb (arr_size G R (fbase G R a1)) (arr_size G R (fbase G R b2))).
    - match goal with |- context [f_phase_flip G R a1 ?l] => set (a2 := f_phase_flip G R a1 l) end.
      assert (NPa2 : NoDup (fphases G R a2)) by now apply NoDup_fphases_pflip.
      assert (NSa2 : NoDup (fsectors G R a2)) by (unfold a2; now rewrite fsectors_pflip).
      rewrite !(phase_sync_st G R ceqb_spec) by assumption.
      unfold atd. rewrite !abel_st.
      destruct (td _ _ _ _) as [c|] eqn:Etd; cbn [option_map]; [|reflexivity].
      rewrite copy_with_st. cbn [fphases f_phase_sync].
      rewrite (resolve_st G R ceqb_spec) by constructor.
      unfold finish_contraction. cbv zeta. cbn [fbase fphases].
      destruct (resolve_oddpos _ _ _) as [[m od]|]; [|reflexivity].
      destruct (finish_ok c m od) as [F1 F2].
      apply out_st; [exact F1|]. intro Ep. rewrite F2. exact (Htd Ep _ _ _ _ _ Etd).
    - match goal with |- context [f_phase_flip G R b2 ?l] => set (b3 := f_phase_flip G R b2 l) end.
      assert (NPb3 : NoDup (fphases G R b3)) by now apply NoDup_fphases_pflip.
      assert (NSb3 : NoDup (fsectors G R b3)) by (unfold b3; now rewrite fsectors_pflip).
      rewrite !(phase_sync_st G R ceqb_spec) by assumption.
      unfold atd. rewrite !abel_st.
      destruct (td _ _ _ _) as [c|] eqn:Etd; cbn [option_map]; [|reflexivity].
      rewrite copy_with_st. cbn [fphases f_phase_sync].
      rewrite (resolve_st G R ceqb_spec) by constructor.
      unfold finish_contraction. cbv zeta. cbn [fbase fphases].
      destruct (resolve_oddpos _ _ _) as [[m od]|]; [|reflexivity].
      destruct (finish_ok c m od) as [F1 F2].
      apply out_st; [exact F1|]. intro Ep. rewrite F2. exact (Htd Ep _ _ _ _ _ Etd).
  Qed.

  (* ---- a @ b ---- *)
  Lemma a_matmul_nodup (x y c : arr) : a_matmul G R x y = Some c -> NoDup (sectors G R c).
  Proof.
    unfold a_matmul. destruct (ndim G R x) as [|[|[|n1]]]; destruct (ndim G R y) as [|[|[|n2]]]; intro H; try discriminate;
      inversion H; apply (tdot_blockwise_nodup G R ceqb_spec).
  Qed.

  Theorem gen_matmul (a b : farr) :
    NoDup (fsectors G R a) -> NoDup (fphases G R a) ->
    NoDup (fsectors G R b) -> NoDup (fphases G R b) -> bits_ok G (fsectors G R b) ->
    mm_gen G R (ST a) (ST b) = ft_out false (f_matmul G R a b).
  Proof.
    intros NSa NPa NSb NPb BOb. unfold mm_gen, matmul_fermionic_gen, f_matmul. cbv zeta.
    rewrite !ndim_st.
    change (py_nth (dflt_index G) (st_indices (ST b)) 0%Z) with (nth 0 (indices G R (fbase G R b)) (dflt_index G)).
    change [0%Z] with (zl [0%nat]).
    rewrite (phase_flip_st G R ceqb_spec PO) by assumption.
    set (b1 := if idual G (nth 0 (indices G R (fbase G R b)) (dflt_index G)) then f_phase_flip G R b [0%nat] else b).
    assert (Eb1 : (if idual G (nth 0 (indices G R (fbase G R b)) (dflt_index G)) then ST (f_phase_flip G R b [0%nat]) else ST b) = ST b1)
      by (unfold b1; now destruct (idual G _)).
    rewrite Eb1.
    assert (NPb1 : NoDup (fphases G R b1)) by (unfold b1; destruct (idual G _); [now apply NoDup_fphases_pflip | exact NPb]).
    assert (NSb1 : NoDup (fsectors G R b1)) by (unfold b1; destruct (idual G _); [now rewrite fsectors_pflip | exact NSb]).
    assert (Nb1 : ndim G R (fbase G R b1) = ndim G R (fbase G R b)) by (unfold b1; destruct (idual G _); [now rewrite fbase_flip | reflexivity]).
    rewrite !(phase_sync_st G R ceqb_spec) by assumption.
    unfold amm. rewrite !abel_st.
    destruct ((Z.of_nat (ndim G R (fbase G R a)) >? 2)%Z || (Z.of_nat (ndim G R (fbase G R b)) >? 2)%Z) eqn:Ebig.
    - (* ranks above 2: the hand model's abelian product refuses too *)
      assert (En : a_matmul G R (fbase G R (f_phase_sync G R a)) (fbase G R (f_phase_sync G R b1)) = None).
      { unfold a_matmul. change (ndim G R (fbase G R (f_phase_sync G R a))) with (ndim G R (fbase G R a)).
        change (ndim G R (fbase G R (f_phase_sync G R b1))) with (ndim G R (fbase G R b1)). rewrite Nb1.
        apply orb_true_iff in Ebig. rewrite !Z.gtb_lt in Ebig.
        destruct (ndim G R (fbase G R a)) as [|[|[|n1]]]; destruct (ndim G R (fbase G R b)) as [|[|[|n2]]]; try reflexivity; lia. }
      rewrite En. reflexivity.
    - destruct (a_matmul G R _ _) as [c|] eqn:Emm; cbn [option_map]; [|reflexivity].
      rewrite copy_with_st. cbn [fphases f_phase_sync].
      rewrite (resolve_st G R ceqb_spec) by constructor.
      unfold finish_contraction. cbv zeta. cbn [fbase fphases].
      destruct (resolve_oddpos _ _ _) as [[m od]|]; [|reflexivity].
      destruct (finish_ok c m od) as [F1 F2].
      assert (NDc : NoDup (sectors G R c)).
      { exact (a_matmul_nodup _ _ _ Emm). }
      pose proof (out_st false (if m then f_phase_global G R (mkF G R c [] od) else mkF G R c [] od) F1) as HO.
      cbn [negb] in HO. rewrite andb_true_r in HO. rewrite <- HO by (intros _; rewrite F2; exact NDc). reflexivity.
  Qed.
End Front.

(* ------------------------------------------------------------------ *)
(* the statements of Props/C03c.v *)
Local Open Scope nat_scope.

(* the abelian contraction of the two hand models, in the calling convention of the generated front end *)
Definition td_old (G : Symmetry) (R : Ring) (mode : tmode) (x y : aarray G R) (xa xb : list Z) := a_tensordot G R x y (inr (xa, xb)) mode.
Definition td_new (G : Symmetry) (R : Ring) (mode : tmode) (x y : aarray G R) (xa xb : list Z) := a_tensordot2 G R x y (inr (xa, xb)) mode.

Lemma gen_tensordot_is_model (G : Symmetry) (R : Ring) :
  (forall a b : C G, ceqb G a b = true <-> a = b) -> parity_ok G ->
  forall (a b : farray G R) (axes : nat + (list Z * list Z)) (mode : tmode) (aa ab : list nat),
  opnd_ok G R a -> opnd_ok G R b ->
  parse_axes (ndim G R (fbase G R a)) (ndim G R (fbase G R b)) axes = Some (aa, ab) ->
  NoDup aa -> (forall i, In i aa -> i < ndim G R (fbase G R a)) ->
  NoDup ab -> (forall i, In i ab -> i < ndim G R (fbase G R b)) ->
  td_gen G R (td_old G R mode) (st_of G R a) (st_of G R b) (zaxes axes) true
  = match f_tensordot G R a b axes mode with Some c => FtArray (st_of G R c) | None => FtRaise end.
Proof.
  intros H PO a b axes mode aa ab Ha Hb Hp N1 L1 N2 L2.
  rewrite (gen_tensordot_front G R H PO (td_old G R mode) a b axes aa ab true Ha Hb Hp N1 L1 N2 L2) by discriminate.
  rewrite f_tensordot_is_front. unfold ft_out. destruct (f_front _ _ _ _ _ _) as [c|]; [|reflexivity].
  cbn [negb]. now rewrite andb_false_r.
Qed.

Lemma gen_tensordot_is_model2 (G : Symmetry) (R : Ring) :
  (forall a b : C G, ceqb G a b = true <-> a = b) -> parity_ok G ->
  forall (a b : farray G R) (axes : nat + (list Z * list Z)) (mode : tmode) (aa ab : list nat),
  opnd_ok G R a -> opnd_ok G R b ->
  parse_axes (ndim G R (fbase G R a)) (ndim G R (fbase G R b)) axes = Some (aa, ab) ->
  NoDup aa -> (forall i, In i aa -> i < ndim G R (fbase G R a)) ->
  NoDup ab -> (forall i, In i ab -> i < ndim G R (fbase G R b)) ->
  td_gen G R (td_new G R mode) (st_of G R a) (st_of G R b) (zaxes axes) true
  = match f_tensordot2 G R a b axes mode with Some c => FtArray (st_of G R c) | None => FtRaise end.
Proof.
  intros H PO a b axes mode aa ab Ha Hb Hp N1 L1 N2 L2.
  rewrite (gen_tensordot_front G R H PO (td_new G R mode) a b axes aa ab true Ha Hb Hp N1 L1 N2 L2) by discriminate.
  rewrite f_tensordot2_is_front. unfold ft_out. destruct (f_front _ _ _ _ _ _) as [c|]; [|reflexivity].
  cbn [negb]. now rewrite andb_false_r.
Qed.

(* for ANY abelian contraction and both settings of preserve_array (the scalar return path included) *)
Lemma gen_tensordot_any_contraction (G : Symmetry) (R : Ring) :
  (forall a b : C G, ceqb G a b = true <-> a = b) -> parity_ok G ->
  forall (td : aarray G R -> aarray G R -> list Z -> list Z -> option (aarray G R))
         (a b : farray G R) (axes : nat + (list Z * list Z)) (aa ab : list nat) (pres : bool),
  opnd_ok G R a -> opnd_ok G R b ->
  parse_axes (ndim G R (fbase G R a)) (ndim G R (fbase G R b)) axes = Some (aa, ab) ->
  NoDup aa -> (forall i, In i aa -> i < ndim G R (fbase G R a)) ->
  NoDup ab -> (forall i, In i ab -> i < ndim G R (fbase G R b)) ->
  (pres = false -> forall x y xa xb c, td x y xa xb = Some c -> NoDup (sectors G R c)) ->
  td_gen G R td (st_of G R a) (st_of G R b) (zaxes axes) pres = ft_out G R pres (f_front G R td a b axes).
Proof. intros H PO td a b axes aa ab pres. exact (gen_tensordot_front G R H PO td a b axes aa ab pres). Qed.

(* the scalar return path with the block-by-block contraction *)
Lemma gen_tensordot_scalar_blockwise (G : Symmetry) (R : Ring) :
  (forall a b : C G, ceqb G a b = true <-> a = b) -> parity_ok G ->
  forall (a b : farray G R) (axes : nat + (list Z * list Z)) (aa ab : list nat),
  opnd_ok G R a -> opnd_ok G R b ->
  parse_axes (ndim G R (fbase G R a)) (ndim G R (fbase G R b)) axes = Some (aa, ab) ->
  NoDup aa -> (forall i, In i aa -> i < ndim G R (fbase G R a)) ->
  NoDup ab -> (forall i, In i ab -> i < ndim G R (fbase G R b)) ->
  td_gen G R (td_old G R MBlockwise) (st_of G R a) (st_of G R b) (zaxes axes) false
  = ft_out G R false (f_tensordot G R a b axes MBlockwise).
Proof.
  intros H PO a b axes aa ab Ha Hb Hp N1 L1 N2 L2.
  rewrite (gen_tensordot_front G R H PO (td_old G R MBlockwise) a b axes aa ab false Ha Hb Hp N1 L1 N2 L2).
  - now rewrite f_tensordot_is_front.
  - intros _ x y xa xb c. unfold td_old, a_tensordot.
    destruct (parse_axes (ndim G R x) (ndim G R y) (inr (xa, xb))) as [[p q]|]; [|discriminate].
    intro E. inversion E. apply (tdot_blockwise_nodup G R H).
Qed.

Lemma gen_matmul_is_model (G : Symmetry) (R : Ring) :
  (forall a b : C G, ceqb G a b = true <-> a = b) -> parity_ok G ->
  forall a b : farray G R,
  NoDup (fsectors G R a) -> NoDup (fphases G R a) ->
  NoDup (fsectors G R b) -> NoDup (fphases G R b) -> bits_ok G (fsectors G R b) ->
  mm_gen G R (st_of G R a) (st_of G R b) = ft_out G R false (f_matmul G R a b).
Proof. intros H PO a b. exact (gen_matmul G R H PO a b). Qed.

(* a state determines the array *)
Lemma farr_of_st (G : Symmetry) (R : Ring) (x : farray G R) : farr_of G R (st_of G R x) = x.
Proof.
  unfold farr_of, st_of. cbn [st_indices st_charge st_blocks st_phases st_oddpos]. rewrite minus_keys_tbl.
  destruct x as [[ix ch bl] ph od]. reflexivity.
Qed.

(* C03_tensordot_sign_formula through the generated front end *)
Lemma gen_tensordot_sign_formula (G : Symmetry) (R : Ring) :
  NegLaws R -> (forall a b : C G, ceqb G a b = true <-> a = b) -> parity_ok G ->
  forall (a b : farray G R) (axes : nat + (list Z * list Z)) (mode : tmode) (aa ab : list nat),
  opnd_ok G R a -> opnd_ok G R b ->
  parse_axes (ndim G R (fbase G R a)) (ndim G R (fbase G R b)) axes = Some (aa, ab) ->
  NoDup aa -> (forall i, In i aa -> i < ndim G R (fbase G R a)) ->
  NoDup ab -> (forall i, In i ab -> i < ndim G R (fbase G R b)) ->
  td_gen G R (td_old G R mode) (st_of G R a) (st_of G R b) (zaxes axes) true
  = match tdot_spec G R a b aa ab mode with Some c => FtArray (st_of G R c) | None => FtRaise end.
Proof.
  intros NL H PO a b axes mode aa ab Ha Hb Hp N1 L1 N2 L2.
  rewrite (gen_tensordot_is_model G R H PO a b axes mode aa ab Ha Hb Hp N1 L1 N2 L2).
  destruct Ha as (A1 & A2 & _), Hb as (B1 & B2 & _).
  now rewrite (tensordot_sign_formula G R NL H a b axes mode aa ab Hp A1 A2 B1 B2 N1 L1 N2 L2).
Qed.

(* C03_tensordot_element_partial through the generated front end *)
Lemma gen_tensordot_element (G : Symmetry) (R : Ring) :
  NegLaws R -> (forall a b : C G, ceqb G a b = true <-> a = b) -> SumLaws R -> parity_ok G ->
  forall (a b : farray G R) (axes : nat + (list Z * list Z)) (aa ab : list nat) (minus : bool) (odd : list fop),
  let na := ndim G R (fbase G R a) in
  let nb := ndim G R (fbase G R b) in
  let cixs := take_axes (dflt_index G) (indices G R (fbase G R a)) aa in
  parse_axes na nb axes = Some (aa, ab) ->
  blocks_ok G R (fbase G R a) -> blocks_ok G R (fbase G R b) ->
  NoDup (fphases G R a) -> NoDup (fphases G R b) -> bits_ok G (fsectors G R a) -> bits_ok G (fsectors G R b) ->
  NoDup aa -> (forall i, In i aa -> i < na) -> NoDup ab -> (forall i, In i ab -> i < nb) ->
  opposite_dirs G R a b aa ab ->
  Forall (fun ix => NoDup (icharges G ix)) cixs ->
  map (chargemap G) cixs = map (chargemap G) (take_axes (dflt_index G) (indices G R (fbase G R b)) ab) ->
  resolve_oddpos (fparity G R a) (foddpos G R a) (foddpos G R b) = Some (minus, odd) ->
  exists y, td_gen G R (td_old G R MBlockwise) (st_of G R a) (st_of G R b) (zaxes axes) true = FtArray (st_of G R y) /\
    foddpos G R y = odd /\
    forall cl cr,
      coords_ok G (without_axes (indices G R (fbase G R a)) aa) cl = true ->
      coords_ok G (without_axes (indices G R (fbase G R b)) ab) cr = true ->
      sem G R (f_value G R y) (cl ++ cr)
      = rsgn R minus (rsum R (map (fun kc =>
          rmul R (rsgn R (sigma_a G R a aa (map fst (merge G na aa cl kc))) (sem G R (f_value G R a) (merge G na aa cl kc)))
                 (rsgn R (sigma_b G R b ab (map fst (merge G nb ab cr kc))) (sem G R (f_value G R b) (merge G nb ab cr kc))))
          (all_coords G cixs))).
Proof.
  intros NL H SL PO a b axes aa ab minus odd na nb cixs Hp Ba Bb NPa NPb BOa BOb N1 L1 N2 L2 Hop Hc Hm Hr.
  destruct (tensordot_blockwise_element G R NL H SL a b axes aa ab minus odd Hp Ba Bb N1 L1 N2 L2 Hop Hc Hm Hr) as (y & E & Ho & Hs).
  exists y. split; [|split; assumption].
  assert (Ha : opnd_ok G R a).
  { repeat split; try assumption; [exact (bo_nodup G R _ Ba)|].
    intros t Ht. apply in_map_iff in Ht. destruct Ht as [sb [<- Hsb]]. exact (bo_len G R _ Ba sb Hsb). }
  assert (Hb : opnd_ok G R b).
  { repeat split; try assumption; [exact (bo_nodup G R _ Bb)|].
    intros t Ht. apply in_map_iff in Ht. destruct Ht as [sb [<- Hsb]]. exact (bo_len G R _ Bb sb Hsb). }
  rewrite (gen_tensordot_is_model G R H PO a b axes MBlockwise aa ab Ha Hb Hp N1 L1 N2 L2), E. reflexivity.
Qed.

(* ---- the hypotheses hold and the generated front end computes on a concrete non-trivial instance:
        Z2, a of rank 2 (odd charge, label 3, a pending sign), b of rank 2 (odd charge, label 5), contracted over
        one leg that meets as ket-then-bra on an odd charge ---- *)
Definition ex_ix (d : bool) : index Z2 := Index Z2 [(0%Z, 1); (1%Z, 1)] d None.
Definition ex_a : farray Z2 ZRing :=
  mkF Z2 ZRing (mkA Z2 ZRing [ex_ix false; ex_ix false] 1%Z
                    [([1; 0]%Z, @mkT ZRing [1; 1] [2%Z]); ([0; 1]%Z, @mkT ZRing [1; 1] [3%Z])])
      [[0; 1]%Z] [([3%Z], false)].
Definition ex_b : farray Z2 ZRing :=
  mkF Z2 ZRing (mkA Z2 ZRing [ex_ix true; ex_ix true] 1%Z
                    [([1; 0]%Z, @mkT ZRing [1; 1] [5%Z]); ([0; 1]%Z, @mkT ZRing [1; 1] [7%Z])])
      [] [([5%Z], false)].

Example ex_opnd_ok : opnd_ok Z2 ZRing ex_a /\ opnd_ok Z2 ZRing ex_b /\ parity_ok Z2.
Proof.
  assert (B : forall x : farray Z2 ZRing, fsectors Z2 ZRing x = [[1; 0]%Z; [0; 1]%Z] -> bits_ok Z2 (fsectors Z2 ZRing x)).
  { intros x E s c Hs Hc. rewrite E in Hs. destruct Hs as [<- | [<- | []]]; cbn in Hc; destruct Hc as [<- | [<- | []]]; cbn; auto. }
  repeat split; try (apply B; reflexivity).
  - repeat constructor; cbn; intuition discriminate.
  - intros t Ht. cbn in Ht. destruct Ht as [<- | [<- | []]]; reflexivity.
  - repeat constructor; intros [].
  - repeat constructor; cbn; intuition discriminate.
  - intros t Ht. cbn in Ht. destruct Ht as [<- | [<- | []]]; reflexivity.
  - constructor.
Qed.

Definition ex_view (r : ft_result (list (index Z2) * C Z2 * list (list (C Z2) * tensor ZRing) * list (list (C Z2) * Z) * list op) (tensor ZRing)) :=
  match r with
  | FtArray s => Some (map (idual Z2) (st_indices s), st_charge s, map (fun sb => (fst sb, tdata (snd sb))) (st_blocks s),
                       st_phases s, st_oddpos s)
  | _ => None
  end.

Example ex_contract :
  ex_view (td_gen Z2 ZRing (td_old Z2 ZRing MBlockwise) (st_of Z2 ZRing ex_a) (st_of Z2 ZRing ex_b) (inr ([1%Z], [0%Z])) true)
  = Some ([false; true], 0%Z, [([1; 1]%Z, [14%Z]); ([0; 0]%Z, [15%Z])], [([1; 1]%Z, (-1)%Z); ([0; 0]%Z, (-1)%Z)],
          [([3%Z], false); ([5%Z], false)])
  /\ ex_view (mm_gen Z2 ZRing (st_of Z2 ZRing ex_a) (st_of Z2 ZRing ex_b))
     = ex_view (td_gen Z2 ZRing (td_old Z2 ZRing MBlockwise) (st_of Z2 ZRing ex_a) (st_of Z2 ZRing ex_b) (inr ([1%Z], [0%Z])) true)
  /\ parse_axes 2 2 (inr ([1%Z], [0%Z])) = Some ([1], [0]).
Proof. vm_compute. repeat split. Qed.
