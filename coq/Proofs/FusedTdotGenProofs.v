(* Proofs/FusedTdotGenProofs.v — property C06, TRANSLATOR tie of the fused contraction path and of
   the contraction front end.  Gen/FusedTdotGen.v is regenerated on every run by tr/gen_fusedtdot.py
   from the current source of `AbelianArray.fuse`, `_tensordot_via_fused` and `tensordot_abelian`;
   here: the generated functions ARE the hand model (`a_fuse_noexpand` of Model/Array.v,
   `tdot_fused2` / `a_tensordot2` of Model/Fused.v) that Props/C06*.v speak about — Leibniz equality
   of the result records — and C06_fused_eq_blockwise / C06_all_modes_agree restated through them. *)
From Coq Require Import String.
From SV Require Import Base.Prelude Base.Sym Base.Tensor Model.Sectors Model.Array Model.Wf Model.Fused
  Model.SymInst Proofs.SymLaws Proofs.Tdot Proofs.OrderProofs Proofs.FuseProofs Proofs.FuseGroups
  Proofs.FusedProofs Proofs.FusedSem Proofs.FusedSemGen Proofs.FusedSemOuter
  Gen.BlockwiseGen Proofs.BlockwiseGenProofs Gen.FusedTdotGen.
From Coq Require Import Lia.
Local Open Scope nat_scope.

(* ------------------------------------------------------------------ *)
(* list facts *)
Lemma ftg_map_snd_combine_seq {A} (l : list A) : forall k, map snd (List.combine (seq k (length l)) l) = l.
Proof.
  induction l as [|x l IH]; intro k; [reflexivity|].
  cbn [length seq List.combine map snd]. now rewrite IH.
Qed.

Lemma ftg_without_seq_rest (n : nat) (aa : list nat) : without_axes (seq 0 n) aa = rest_axes n aa.
Proof.
  unfold without_axes, rest_axes. rewrite seq_length.
  generalize 0%nat as k. induction n as [|n IH]; intro k; [reflexivity|].
  cbn [seq List.combine filter fst]. destruct (mem Nat.eqb k aa); cbn [negb map snd]; [apply IH|].
  f_equal. apply IH.
Qed.

Lemma ftg_rest_axes_nil n : rest_axes n [] = seq 0 n.
Proof.
  unfold rest_axes. generalize 0. induction n as [|n IH]; intro k; [reflexivity|].
  cbn [seq filter mem negb]. now rewrite IH.
Qed.

Section FuseGen.
  Context (G : Symmetry) (R : Ring).
  Notation arr := (aarray G R).
  Notation nonnil := (fun g : list nat => negb (is_nil g)).

  (* the loop of `fuse` that separates the non-empty groups from the positions of the empty ones *)
  Lemma ftg_fuse_loop (l : list (nat * list nat)) : forall (acc1 : list (list nat)) (acc2 : list nat),
    fst (fold_left (fun (v3 : list (list nat) * list nat) (v4 : nat * list nat) =>
           let v7 := (if (negb (is_nil (snd v4))) then
             let v5 := ((fst v3) ++ [(snd v4)]) in (v5, (snd v3))
           else
             let v6 := ((snd v3) ++ [(fst v4)]) in ((fst v3), v6)) in
           ((fst v7), (snd v7))) l (acc1, acc2)) = acc1 ++ filter nonnil (map snd l).
  Proof.
    induction l as [|[i g] l IH]; intros acc1 acc2; cbn [fold_left map filter snd fst].
    - now rewrite app_nil_r.
    - destruct g as [|x g]; cbn [is_nil negb fst snd]; rewrite IH; [reflexivity|].
      now rewrite <- app_assoc.
  Qed.

  (* AbelianArray.fuse(.., expand_empty=False) = the hand model: for EVERY array and EVERY list of groups *)
  Theorem gen_fuse_eq (x : arr) (groups : list (list nat)) :
    gen_fuse G R x groups = a_fuse_noexpand G R x groups.
  Proof.
    unfold gen_fuse, a_fuse_noexpand. cbv zeta.
    rewrite ftg_fuse_loop. cbn [app]. unfold enumerate. rewrite ftg_map_snd_combine_seq.
    destruct (filter nonnil groups); reflexivity.
  Qed.

  (* rank of the two matrices *)
  Lemma ftg_ndim_fused_left (x : arr) la aa :
    la = rest_axes (ndim G R x) aa -> Forall (fun ax => ax < ndim G R x) aa ->
    ndim G R (a_fuse_noexpand G R x [la; aa]) = (if is_nil la then 0 else 1) + (if is_nil aa then 0 else 1).
  Proof.
    intros Hla Haa.
    destruct (filter nonnil [la; aa]) as [|g0 gs0] eqn:E.
    - unfold a_fuse_noexpand. rewrite E.
      destruct la as [|l0 la']; [|cbn in E; discriminate]. destruct aa as [|a0 aa']; [|cbn in E; discriminate].
      cbn [is_nil]. rewrite ftg_rest_axes_nil in Hla. destruct (ndim G R x); [reflexivity|discriminate].
    - unfold ndim at 1. rewrite fuse_all_axes_indices.
      + rewrite map_length. destruct la, aa; reflexivity.
      + intros ax Hax. cbn [concat]. rewrite app_nil_r, Hla. now apply rest_axes_cover.
      + cbn [concat]. rewrite app_nil_r. apply Forall_app. split; [|exact Haa].
        apply Forall_forall. intros ax Hax. rewrite Hla in Hax. now apply In_rest_axes in Hax.
      + rewrite E. discriminate.
  Qed.

  Lemma ftg_ndim_fused_right (y : arr) ab rb :
    rb = rest_axes (ndim G R y) ab -> Forall (fun ax => ax < ndim G R y) ab ->
    ndim G R (a_fuse_noexpand G R y [ab; rb]) = (if is_nil ab then 0 else 1) + (if is_nil rb then 0 else 1).
  Proof.
    intros Hrb Hab.
    destruct (filter nonnil [ab; rb]) as [|g0 gs0] eqn:E.
    - unfold a_fuse_noexpand. rewrite E.
      destruct ab as [|a0 ab']; [|cbn in E; discriminate]. destruct rb as [|r0 rb']; [|cbn in E; discriminate].
      cbn [is_nil]. rewrite ftg_rest_axes_nil in Hrb. destruct (ndim G R y); [reflexivity|discriminate].
    - unfold ndim at 1. rewrite fuse_all_axes_indices.
      + rewrite map_length. destruct ab, rb; reflexivity.
      + intros ax Hax. cbn [concat]. rewrite app_nil_r, Hrb.
        apply in_or_app. apply (rest_axes_cover _ ab) in Hax. apply in_app_or in Hax. tauto.
      + cbn [concat]. rewrite app_nil_r. apply Forall_app. split; [exact Hab|].
        apply Forall_forall. intros ax Hax. rewrite Hrb in Hax. now apply In_rest_axes in Hax.
      + rewrite E. discriminate.
  Qed.

  Lemma ftg_ndim_al_a a b aa ab : ndim G R (al_a G R a b aa ab) = ndim G R a.
  Proof. unfold al_a, drop_misaligned, ndim. cbn [fst indices]. apply length_prune_indices. Qed.
  Lemma ftg_ndim_al_b a b aa ab : ndim G R (al_b G R a b aa ab) = ndim G R b.
  Proof. unfold al_b, drop_misaligned, ndim. cbn [snd indices]. apply length_prune_indices. Qed.

  Lemma ftg_axes_lt n axes : axes_ok n axes = true -> Forall (fun ax => ax < n) axes.
  Proof. intros H. apply axes_ok_spec in H. apply Forall_forall. apply H. Qed.

  Context (ceq : forall x y : C G, ceqb G x y = true <-> x = y).

  (* _tensordot_via_fused = Fused.tdot_fused2 as `tensordot` calls it *)
  Theorem gen_tensordot_via_fused_eq (a b : arr) (la aa ab rb : list nat) :
    wf_array G R a = true -> wf_array G R b = true ->
    axes_ok (ndim G R a) aa = true -> axes_ok (ndim G R b) ab = true ->
    la = rest_axes (ndim G R a) aa -> rb = rest_axes (ndim G R b) ab ->
    gen_tensordot_via_fused G R a b la aa ab rb = tdot_fused2 G R a b la aa ab rb.
  Proof.
    intros Wa Wb Ha Hb Hla Hrb.
    unfold gen_tensordot_via_fused, tdot_fused2. cbv zeta.
    rewrite (gen_drop_misaligned_eq_wf G R ceq a b aa ab Wa Wb).
    rewrite drop_misaligned_pair. cbn [fst snd].
    set (a1 := al_a G R a b aa ab). set (b1 := al_b G R a b aa ab).
    rewrite !negb_involutive.
    destruct (is_nil (blocks G R a1) || is_nil (blocks G R b1)); [reflexivity|].
    rewrite !gen_fuse_eq.
    assert (Hna : ndim G R (a_fuse_noexpand G R a1 [la; aa]) = (if is_nil la then 0 else 1) + (if is_nil aa then 0 else 1)).
    { apply ftg_ndim_fused_left; unfold a1; rewrite ftg_ndim_al_a; [exact Hla | now apply ftg_axes_lt]. }
    assert (Hnb : ndim G R (a_fuse_noexpand G R b1 [ab; rb]) = (if is_nil ab then 0 else 1) + (if is_nil rb then 0 else 1)).
    { apply ftg_ndim_fused_right; unfold b1; rewrite ftg_ndim_al_b; [exact Hrb | now apply ftg_axes_lt]. }
    set (af := a_fuse_noexpand G R a1 [la; aa]) in *. set (bf := a_fuse_noexpand G R b1 [ab; rb]) in *.
    assert (Hlen : forall la' aa' ab' rb',
              la' = (if is_nil la then [] else [0]) -> aa' = (if is_nil aa then [] else if is_nil la then [0] else [1]) ->
              ab' = (if is_nil ab then [] else [0]) -> rb' = (if is_nil rb then [] else if is_nil ab then [0] else [1]) ->
              length (without_axes (indices G R af) aa' ++ without_axes (indices G R bf) ab') <= length la' + length rb').
    { intros la' aa' ab' rb' -> -> -> ->. rewrite app_length, !g_length_without_axes.
      unfold ndim in Hna, Hnb. rewrite Hna, Hnb.
      destruct (is_nil la), (is_nil aa), (is_nil ab), (is_nil rb); cbn; lia. }
    assert (Et1 : g_dget (pair_eqb Bool.eqb Bool.eqb) ([], [])
               [((false, false), (@nil nat, @nil nat)); ((false, true), (@nil nat, [0])); ((true, false), ([0], @nil nat)); ((true, true), ([0], [1]))]
               (negb (is_nil la), negb (is_nil aa)) =
             ((if is_nil la then [] else [0]), (if is_nil aa then [] else if is_nil la then [0] else [1]))).
    { destruct (is_nil la), (is_nil aa); reflexivity. }
    assert (Et2 : g_dget (pair_eqb Bool.eqb Bool.eqb) ([], [])
               [((false, false), (@nil nat, @nil nat)); ((false, true), (@nil nat, [0])); ((true, false), ([0], @nil nat)); ((true, true), ([0], [1]))]
               (negb (is_nil ab), negb (is_nil rb)) =
             ((if is_nil ab then [] else [0]), (if is_nil rb then [] else if is_nil ab then [0] else [1]))).
    { destruct (is_nil ab), (is_nil rb); reflexivity. }
    rewrite Et1, Et2. cbn [fst snd].
    rewrite (gen_tensordot_blockwise_eq G R ceq) by (now apply Hlen).
    reflexivity.
  Qed.
End FuseGen.

(* ------------------------------------------------------------------ *)
(* the front end *)
Definition mode_name (m : tmode) : string :=
  match m with MAuto => "auto"%string | MFused => "fused"%string | MBlockwise => "blockwise"%string end.

Section Front.
  Context (G : Symmetry) (R : Ring).
  Notation arr := (aarray G R).
  Context (ceq : forall x y : C G, ceqb G x y = true <-> x = y).

  (* what the caller gets for an array result c *)
  Definition td_finish (preserve_array : bool) (c : arr) : td_result G R :=
    if Nat.eqb (ndim G R c) 0 && negb preserve_array then g_scalar G R c else TdArray c.

  Lemma ftg_seq_int_axes n k : axes_ok n (seq (n - k) k) = true -> n - (n - k) = k.
  Proof.
    intros H. apply axes_ok_spec in H. destruct H as [_ H].
    destruct k as [|k]; [lia|].
    assert (Hin : In (n - S k + k) (seq (n - S k) (S k))) by (apply in_seq; lia).
    apply H in Hin. lia.
  Qed.

  Theorem gen_tensordot_abelian_eq (a b : arr) (axes : nat + (list Z * list Z)) (m : tmode)
      (preserve_array : bool) (dm : string) (aa ab : list nat) :
    wf_array G R a = true -> wf_array G R b = true ->
    parse_axes (ndim G R a) (ndim G R b) axes = Some (aa, ab) ->
    axes_ok (ndim G R a) aa = true -> axes_ok (ndim G R b) ab = true ->
    gen_tensordot_abelian G R a b axes (Some (mode_name m)) preserve_array dm =
    option_map (td_finish preserve_array) (a_tensordot2 G R a b axes m).
  Proof.
    intros Wa Wb Hp Ha Hb.
    unfold gen_tensordot_abelian, a_tensordot2. cbv zeta. rewrite Hp.
    assert (Hparse :
      (match axes with
       | inl v3 => Some (seq (ndim G R a - v3) (ndim G R a - (ndim G R a - v3)), seq 0 (v3 - 0))
       | inr v4 =>
           match (if negb (Nat.eqb (length (map (fun v10 => Z.to_nat (Z.modulo v10 (Z.of_nat (ndim G R a)))) (fst v4)))
                                   (length (map (fun v12 => Z.to_nat (Z.modulo v12 (Z.of_nat (ndim G R b)))) (snd v4))))
                  then None else Some tt) with
           | None => None
           | Some _ => Some (map (fun v10 => Z.to_nat (Z.modulo v10 (Z.of_nat (ndim G R a)))) (fst v4),
                             map (fun v12 => Z.to_nat (Z.modulo v12 (Z.of_nat (ndim G R b)))) (snd v4))
           end
       end) = Some (aa, ab)).
    { destruct axes as [k|[xa xb]]; cbn [parse_axes fst snd] in *.
      - injection Hp as <- <-. rewrite Nat.sub_0_r. now rewrite (ftg_seq_int_axes _ _ Ha).
      - unfold norm_axes in Hp. rewrite !map_length.
        destruct (Nat.eqb (length xa) (length xb)); cbn [negb]; [|discriminate]. exact Hp. }
    rewrite Hparse. cbn [fst snd].
    rewrite !ftg_without_seq_rest.
    set (la := rest_axes (ndim G R a) aa). set (rb := rest_axes (ndim G R b) ab).
    assert (Hf : gen_tensordot_via_fused G R a b la aa ab rb = tdot_fused2 G R a b la aa ab rb)
      by (now apply gen_tensordot_via_fused_eq).
    assert (Hw : gen_tensordot_blockwise G R a b la aa ab rb = tdot_blockwise G R a b la aa ab rb)
      by (apply (gen_tensordot_blockwise_eq_rest G R ceq)).
    assert (Hnil : Nat.eqb (length aa) 0 = is_nil aa) by (destruct aa; reflexivity).
    destruct m; cbn [mode_name String.eqb Ascii.eqb Bool.eqb].
    - rewrite Hnil. destruct (is_nil aa); cbn [String.eqb Ascii.eqb Bool.eqb option_map]; unfold td_finish;
        [rewrite Hw | rewrite Hf]; destruct (Nat.eqb _ 0 && negb preserve_array); reflexivity.
    - cbn [option_map]. unfold td_finish. rewrite Hf. destruct (Nat.eqb _ 0 && negb preserve_array); reflexivity.
    - cbn [option_map]. unfold td_finish. rewrite Hw. destruct (Nat.eqb _ 0 && negb preserve_array); reflexivity.
  Qed.

  (* mode=None reads the module default *)
  Theorem gen_tensordot_abelian_none (a b : arr) axes p dm :
    gen_tensordot_abelian G R a b axes None p dm = gen_tensordot_abelian G R a b axes (Some dm) p dm.
  Proof. reflexivity. Qed.

  (* axes of different lengths: ValueError on both sides *)
  Theorem gen_tensordot_abelian_bad_axes (a b : arr) axes mode p dm :
    parse_axes (ndim G R a) (ndim G R b) axes = None ->
    gen_tensordot_abelian G R a b axes mode p dm = None.
  Proof.
    intros Hp. destruct axes as [k|[xa xb]]; cbn [parse_axes] in Hp; [discriminate|].
    unfold gen_tensordot_abelian. cbv zeta. cbn [fst snd]. rewrite !map_length.
    destruct (Nat.eqb (length xa) (length xb)); [discriminate|]. reflexivity.
  Qed.

  (* an unknown mode string: ValueError *)
  Theorem gen_tensordot_abelian_bad_mode (a b : arr) axes s p dm :
    String.eqb s "auto" = false -> String.eqb s "fused" = false -> String.eqb s "blockwise" = false ->
    gen_tensordot_abelian G R a b axes (Some s) p dm = None.
  Proof.
    intros H1 H2 H3. unfold gen_tensordot_abelian. cbv zeta.
    destruct axes as [k|[xa xb]]; cbn [fst snd].
    - rewrite H1, H2, H3. reflexivity.
    - destruct (negb _); [reflexivity|]. rewrite H1, H2, H3. reflexivity.
  Qed.

  (* the module-level default mode and the parameter defaults *)
  Theorem gen_defaults :
    gen_default_tensordot_mode = mode_name MAuto /\ gen_tensordot_default_axes = 2 /\
    gen_tensordot_default_mode = Some (mode_name MAuto) /\ gen_tensordot_default_preserve_array = false.
  Proof. repeat split. Qed.
End Front.

(* ------------------------------------------------------------------ *)
(* the C06 theorems through the generated functions *)
Section Restate.
  Context (G : Symmetry) (R : Ring) (GL : GroupLaws G) (OL : OrderLaws G) (RL : SumLaws R).
  Notation arr := (aarray G R).

  Lemma ftg_ceq : forall x y : C G, ceqb G x y = true <-> x = y.
  Proof. exact (ceqb_eq G GL). Qed.

  Theorem gen_fused_eq_gen_blockwise (a b : arr) (la aa ab rb : list nat) :
    wf_array G R a = true -> wf_array G R b = true ->
    axes_ok (ndim G R a) aa = true -> axes_ok (ndim G R b) ab = true ->
    legs_match G R a b aa ab ->
    la = rest_axes (ndim G R a) aa -> rb = rest_axes (ndim G R b) ab ->
    let f := gen_tensordot_via_fused G R a b la aa ab rb in
    let w := gen_tensordot_blockwise G R a b la aa ab rb in
    charge G R f = charge G R w /\
    indices G R f = indices G R w /\
    forall cs, sem G R f cs = sem G R w cs.
  Proof.
    intros Wa Wb Ha Hb Hm Hla Hrb f w. unfold f, w.
    rewrite (gen_tensordot_via_fused_eq G R ftg_ceq a b la aa ab rb Wa Wb Ha Hb Hla Hrb).
    assert (Ew : gen_tensordot_blockwise G R a b la aa ab rb = tdot_blockwise G R a b la aa ab rb)
      by (rewrite Hla, Hrb; apply (gen_tensordot_blockwise_eq_rest G R ftg_ceq)).
    rewrite Ew.
    now apply (fused_eq_blockwise_full_stmt G R GL OL RL).
  Qed.

  Theorem gen_all_modes_agree (a b : arr) (axes : nat + (list Z * list Z)) (aa ab : list nat) (m1 m2 : tmode) (dm : string) :
    parse_axes (ndim G R a) (ndim G R b) axes = Some (aa, ab) ->
    wf_array G R a = true -> wf_array G R b = true ->
    axes_ok (ndim G R a) aa = true -> axes_ok (ndim G R b) ab = true ->
    legs_match G R a b aa ab ->
    exists r1 r2,
      gen_tensordot_abelian G R a b axes (Some (mode_name m1)) true dm = Some (TdArray r1) /\
      gen_tensordot_abelian G R a b axes (Some (mode_name m2)) true dm = Some (TdArray r2) /\
      charge G R r1 = charge G R r2 /\ indices G R r1 = indices G R r2 /\
      forall cs, sem G R r1 cs = sem G R r2 cs.
  Proof.
    intros Hp Wa Wb Ha Hb Hm.
    destruct (all_modes_agree_full_stmt G R GL OL RL a b axes aa ab m1 m2 Hp Wa Wb Ha Hb Hm) as (r1 & r2 & E1 & E2 & H).
    exists r1, r2.
    rewrite !(gen_tensordot_abelian_eq G R ftg_ceq a b axes _ true dm aa ab Wa Wb Hp Ha Hb).
    rewrite E1, E2. cbn [option_map]. unfold td_finish. rewrite !andb_false_r. repeat split; apply H.
  Qed.
End Restate.

(* ------------------------------------------------------------------ *)
(* the hypotheses are satisfiable on a non-trivial instance, and the functions compute *)
Section Example.
  Let G := Z2.
  Let R := ZRing.
  Let ix (d : bool) : index G := Index G [(0%Z, 1); (1%Z, 2)] d None.
  Let t (sh : list nat) (l : list Z) : tensor R := @mkT R sh l.
  (* rank 3 x rank 3, two contracted legs, sparse and differently sparse operands *)
  Let A : aarray G R := mkA G R [ix false; ix false; ix true] 0%Z
     [([0%Z; 0%Z; 0%Z], t [1; 1; 1] [2%Z]); ([0%Z; 1%Z; 1%Z], t [1; 2; 2] [1%Z; 2%Z; 3%Z; 4%Z]);
      ([1%Z; 1%Z; 0%Z], t [2; 2; 1] [5%Z; 6%Z; 7%Z; 8%Z])].
  Let B : aarray G R := mkA G R [ix true; ix false; ix false] 0%Z
     [([1%Z; 1%Z; 0%Z], t [2; 2; 1] [1%Z; 0%Z; 2%Z; 1%Z]); ([1%Z; 0%Z; 1%Z], t [2; 1; 2] [3%Z; 1%Z; 4%Z; 1%Z]);
      ([0%Z; 0%Z; 0%Z], t [1; 1; 1] [9%Z])].

  Example ftg_example_hyps :
    wf_array G R A = true /\ wf_array G R B = true /\
    parse_axes (ndim G R A) (ndim G R B) (inr ([1%Z; (-1)%Z], [0%Z; 1%Z])) = Some ([1; 2], [0; 1]) /\
    axes_ok (ndim G R A) [1; 2] = true /\ axes_ok (ndim G R B) [0; 1] = true.
  Proof. vm_compute. repeat split. Qed.

  Example ftg_example_run :
    gen_tensordot_abelian G R A B (inr ([1%Z; (-1)%Z], [0%Z; 1%Z])) (Some "fused"%string) true "auto"%string =
    option_map TdArray (a_tensordot2 G R A B (inr ([1%Z; (-1)%Z], [0%Z; 1%Z])) MFused) /\
    (exists c, gen_tensordot_abelian G R A B (inr ([1%Z; (-1)%Z], [0%Z; 1%Z])) None true "auto"%string = Some (TdArray c) /\
               blocks G R c <> []).
  Proof. split; [vm_compute; reflexivity|]. eexists. split; [vm_compute; reflexivity|]. discriminate. Qed.
End Example.
