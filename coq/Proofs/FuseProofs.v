(* Proofs/FuseProofs.v — property C05: fusing is an exact, invertible re-indexing.
   Part A: the tables of the fused index (calc_fuse_block_info) partition it.
   Part B: starts_from / sub_range assign disjoint covering ranges.
   Part C: single-group round trip at the value level. *)
From SV Require Import Base.Prelude Base.Sym Base.Tensor Model.Sectors Model.Array Model.Wf
  Model.SymInst Proofs.TensorProofs Proofs.SymLaws Proofs.OrderProofs Proofs.FuseTensor.
From Coq Require Import Permutation Sorting Lia.
Local Open Scope nat_scope.

(* ------------------------------------------------------------------ *)
(* small generic facts *)

Lemma nsum_app l1 l2 : nsum (l1 ++ l2) = nsum l1 + nsum l2.
Proof.
  induction l1 as [|x l1 IH]; [reflexivity|].
  cbn [app nsum fold_right] in *. fold (nsum (l1 ++ l2)). fold (nsum l1). lia.
Qed.

Lemma nsum_pos l : l <> [] -> Forall (fun d => 0 < d) l -> 0 < nsum l.
Proof.
  intros Hne Hall. destruct l as [|x l]; [congruence|].
  inversion Hall as [|? ? Hx _]; subst. cbn [nsum fold_right]. lia.
Qed.

Lemma nprod_pos l : Forall (fun d => 0 < d) l -> 0 < nprod l.
Proof.
  induction 1 as [|x l Hx _ IH]; cbn [nprod fold_right]; [lia|].
  fold (nprod l). nia.
Qed.

Lemma is_nil_false {A} (l : list A) : is_nil l = false <-> l <> [].
Proof. destruct l; cbn; split; congruence. Qed.

Lemma is_nil_true {A} (l : list A) : is_nil l = true <-> l = [].
Proof. destruct l; cbn; split; congruence. Qed.

Lemma NoDup_app_snoc {A} (l : list A) x : NoDup l -> ~ In x l -> NoDup (l ++ [x]).
Proof.
  intros Hl Hx. apply (Permutation_NoDup (Permutation_cons_append l x)). now constructor.
Qed.

Section DictMore.
  Context {K V : Type} (keqb : K -> K -> bool) (Hk : eqb_spec_on keqb).

  Lemma In_dset_inv k (v : V) d k' v' :
    In (k', v') (dset keqb k v d) -> (k' = k /\ v' = v) \/ In (k', v') d.
  Proof.
    induction d as [|[k0 v0] d IH]; cbn [dset].
    - intros [H|[]]. inversion H. now left.
    - destruct (keqb k k0) eqn:E.
      + apply Hk in E. subst k0. intros [H|H].
        * inversion H. now left.
        * right. now right.
      + intros [H|H]; [right; now left|].
        destruct (IH H) as [?|?]; [now left|right; now right].
  Qed.

  Lemma keys_dset_incl k (v : V) d k' : In k' (map fst d) -> In k' (map fst (dset keqb k v d)).
  Proof.
    induction d as [|[k0 v0] d IH]; cbn [dset map fst]; [intros []|].
    destruct (keqb k k0); cbn [map fst In]; intuition.
  Qed.

  Lemma keys_dset_self k (v : V) d : In k (map fst (dset keqb k v d)).
  Proof.
    induction d as [|[k0 v0] d IH]; cbn [dset map fst]; [now left|].
    destruct (keqb k k0) eqn:E; cbn [map fst In].
    - apply Hk in E. now left.
    - now right.
  Qed.

  (* a dict built by successive d[f s] = v s *)
  Lemma fold_dset_spec {S : Type} (f : S -> K) (v : S -> V) (l : list S) :
    let D := fold_left (fun acc s => dset keqb (f s) (v s) acc) l [] in
    NoDup (map fst D) /\
    (forall k x, In (k, x) D -> exists s, In s l /\ k = f s /\ x = v s) /\
    (forall s, In s l -> In (f s) (map fst D)).
  Proof.
    induction l as [|s l IH] using rev_ind; cbn zeta.
    - cbn. split; [constructor|]. split; [intros ? ? []|intros ? []].
    - rewrite fold_left_app. cbn [fold_left].
      set (D := fold_left (fun acc s => dset keqb (f s) (v s) acc) l []) in *.
      cbn zeta in IH. destruct IH as (Hnd & Hent & Hkeys).
      split; [now apply dset_keys_NoDup|]. split.
      + intros k x Hin. apply In_dset_inv in Hin. destruct Hin as [[-> ->]|Hin].
        * exists s. split; [apply in_or_app; right; now left|now split].
        * destruct (Hent _ _ Hin) as (s' & Hs' & ? & ?). exists s'.
          split; [apply in_or_app; now left|now split].
      + intros s' Hs'. apply in_app_or in Hs'. destruct Hs' as [Hs'|[<-|[]]].
        * apply keys_dset_incl. now apply Hkeys.
        * apply keys_dset_self.
  Qed.
End DictMore.

(* ------------------------------------------------------------------ *)
(* Part A: the tables produced by folding cm_add / ext_add over a list of
   (subsector, (charge, size)) entries with distinct subsectors *)
Section FuseTables.
  Context (G : Symmetry) (GL : GroupLaws G) (OL : OrderLaws G).
  Notation Ch := (C G).
  Notation sector := (list (C G)).
  Notation keq := (list_eqb (ceqb G)).
  Notation sec_ltb := (list_ltb (cltb G) (ceqb G)).
  Notation entry := (sector * (Ch * nat))%type.

  Lemma Hce : eqb_spec_on (ceqb G).
  Proof. intros a b. apply (ceqb_eq G GL). Qed.
  Lemma Hke : eqb_spec_on keq.
  Proof. apply list_eqb_spec, Hce. Qed.
  Lemma Hso : strict_total sec_ltb.
  Proof. apply list_ltb_strict_total; [exact OL|exact Hce]. Qed.

  Lemma ceqb_refl c : ceqb G c c = true.
  Proof. now apply Hce. Qed.
  Lemma ceqb_sym a b : ceqb G a b = ceqb G b a.
  Proof.
    destruct (ceqb G a b) eqn:E1, (ceqb G b a) eqn:E2; try reflexivity.
    - apply Hce in E1. subst. now rewrite ceqb_refl in E2.
    - apply Hce in E2. subst. now rewrite ceqb_refl in E1.
  Qed.

  Definition cmF (L : list entry) : list (Ch * nat) :=
    fold_left (fun cm p => cm_add G cm (fst (snd p)) (snd (snd p))) L [].
  Definition extF (L : list entry) : list (Ch * list (sector * nat)) :=
    fold_left (fun e p => ext_add G e (fst (snd p)) (fst p) (snd (snd p))) L [].
  (* the entries whose fused charge is c, in order *)
  Definition selc (c : Ch) (L : list entry) : list entry :=
    filter (fun p => ceqb G c (fst (snd p))) L.
  Definition ext_of (F : list entry) : list (sector * nat) := map (fun p => (fst p, snd (snd p))) F.
  Definition size_sum (F : list entry) : nat := nsum (map (fun p => snd (snd p)) F).

  Lemma selc_app c L1 L2 : selc c (L1 ++ L2) = selc c L1 ++ selc c L2.
  Proof. apply filter_app. Qed.

  Lemma fold_tables (L : list entry) :
    NoDup (map fst L) ->
    map fst (cmF L) = map fst (extF L) /\
    NoDup (map fst (cmF L)) /\
    (forall c, lookup (ceqb G) c (cmF L) = if is_nil (selc c L) then None else Some (size_sum (selc c L))) /\
    (forall c, lookup (ceqb G) c (extF L) = if is_nil (selc c L) then None else Some (ext_of (selc c L))).
  Proof.
    induction L as [|p L IH] using rev_ind; intros Hnd.
    - cbn. split; [reflexivity|]. split; [constructor|]. split; reflexivity.
    - rewrite map_app in Hnd. apply NoDup_remove in Hnd. cbn [map app] in Hnd.
      rewrite app_nil_r in Hnd. destruct Hnd as [Hnd Hnew].
      destruct (IH Hnd) as (Hkeys & Hndk & Hcm & Hext). clear IH.
      unfold cmF, extF. rewrite !fold_left_app. cbn [fold_left].
      fold (cmF L). fold (extF L).
      destruct p as [ss [c0 d0]]. cbn [fst snd] in *.
      unfold cm_add, ext_add.
      pose proof (Hcm c0) as Hcm0. pose proof (Hext c0) as Hext0.
      destruct (is_nil (selc c0 L)) eqn:Enil.
      + (* new fused charge *)
        rewrite Hcm0, Hext0. apply is_nil_true in Enil.
        assert (Hnotin : ~ In c0 (map fst (cmF L))).
        { apply (lookup_None_iff (ceqb G) Hce). exact Hcm0. }
        split; [rewrite !map_app, Hkeys; reflexivity|].
        split.
        { rewrite map_app. cbn [map fst].
          apply NoDup_app_snoc; assumption. }
        split; intros c; rewrite (lookup_app (ceqb G)), selc_app; cbn [selc filter fst snd lookup].
        * rewrite Hcm. destruct (ceqb G c c0) eqn:E.
          -- apply Hce in E. subst c. rewrite Enil. cbn. unfold size_sum. cbn. now rewrite Nat.add_0_r.
          -- rewrite app_nil_r. destruct (is_nil (selc c L)); reflexivity.
        * rewrite Hext. destruct (ceqb G c c0) eqn:E.
          -- apply Hce in E. subst c. rewrite Enil. reflexivity.
          -- rewrite app_nil_r. destruct (is_nil (selc c L)); reflexivity.
      + (* existing fused charge: append to its extent *)
        rewrite Hcm0, Hext0.
        assert (Hin : In c0 (map fst (cmF L))).
        { apply (lookup_In (ceqb G) Hce) in Hcm0. apply (in_map fst) in Hcm0. exact Hcm0. }
        assert (Hin' : In c0 (map fst (extF L))) by (now rewrite <- Hkeys).
        rewrite (keys_dset_in (ceqb G) Hce) by exact Hin.
        rewrite (keys_dset_in (ceqb G) Hce) by exact Hin'.
        split; [exact Hkeys|]. split; [exact Hndk|].
        assert (Hss : ~ In ss (map fst (ext_of (selc c0 L)))).
        { intros H. apply Hnew. unfold ext_of in H. rewrite map_map in H. cbn [fst] in H.
          apply in_map_iff in H. destruct H as (q & <- & Hq). apply in_map.
          unfold selc in Hq. apply filter_In in Hq. apply Hq. }
        rewrite (keys_dset_notin keq Hke) by exact Hss.
        split; intros c; rewrite (lookup_dset (ceqb G) Hce), selc_app; cbn [selc filter fst snd].
        * destruct (ceqb G c c0) eqn:E.
          -- apply Hce in E. subst c.
             destruct (selc c0 L ++ [(ss, (c0, d0))]) eqn:E2; [now destruct (selc c0 L)|].
             cbn [is_nil]. rewrite <- E2. unfold size_sum. rewrite map_app, nsum_app. cbn. now rewrite Nat.add_0_r.
          -- rewrite app_nil_r. apply Hcm.
        * destruct (ceqb G c c0) eqn:E.
          -- apply Hce in E. subst c.
             destruct (selc c0 L ++ [(ss, (c0, d0))]) eqn:E2; [now destruct (selc c0 L)|].
             cbn [is_nil]. rewrite <- E2. unfold ext_of. rewrite map_app. reflexivity.
          -- rewrite app_nil_r. apply Hext.
  Qed.

  (* ---------------- the fused index of one group ---------------- *)
  Notation dflt := (dflt_index G).

  Lemma cm_ok_entry cm c d : cm_ok G cm = true -> In (c, d) cm -> valid G c = true /\ 0 < d.
  Proof.
    unfold cm_ok. intros H Hin. apply andb_true_iff in H. destruct H as [_ H].
    rewrite forallb_forall in H. specialize (H _ Hin). cbn [fst snd] in H.
    apply andb_true_iff in H. destruct H as [Hv Hd]. apply Nat.ltb_lt in Hd. now split.
  Qed.

  Lemma size_of_pos ix c :
    cm_ok G (chargemap G ix) = true -> mem (ceqb G) c (icharges G ix) = true ->
    0 < size_of G ix c /\ valid G c = true.
  Proof.
    intros Hok Hm. apply (mem_In (ceqb G) Hce) in Hm. unfold icharges in Hm.
    unfold size_of. destruct (lookup (ceqb G) c (chargemap G ix)) as [d|] eqn:E.
    - apply (lookup_In (ceqb G) Hce) in E. destruct (cm_ok_entry _ _ _ Hok E). now split.
    - apply (lookup_None_iff (ceqb G) Hce) in E. contradiction.
  Qed.

  Section OneGroup.
    Context (ixs : list (index G)) (secs : list sector) (g : list nat).
    Context (Hix : Forall (fun ix => cm_ok G (chargemap G ix) = true) ixs).
    Context (Hsecs : forall s, In s secs -> forall ax, In ax g ->
                mem (ceqb G) (nth ax s (ident G)) (icharges G (nth ax ixs dflt)) = true).

    Lemma nth_cm_ok ax : cm_ok G (chargemap G (nth ax ixs dflt)) = true.
    Proof.
      destruct (Nat.lt_ge_cases ax (length ixs)) as [Hlt|Hge].
      - rewrite Forall_forall in Hix. apply Hix. now apply nth_In.
      - rewrite nth_overflow by exact Hge. reflexivity.
    Qed.

    Lemma group_size_pos s : In s secs -> 0 < group_size G ixs s g.
    Proof.
      intros Hs. unfold group_size. apply nprod_pos. apply Forall_forall.
      intros d Hd. apply in_map_iff in Hd. destruct Hd as (ax & <- & Hax).
      apply size_of_pos; [apply nth_cm_ok|now apply Hsecs].
    Qed.

    Lemma group_charge_valid s : In s secs -> is_singlet g = false -> valid G (group_charge G ixs s g) = true.
    Proof.
      intros Hs Hsing. unfold group_charge. rewrite Hsing.
      apply (combine_valid G GL). apply (valid_all_forall G GL). apply Forall_forall.
      intros c Hc. apply in_map_iff in Hc. destruct Hc as (ax & <- & Hax).
      apply (sign_valid G GL). apply (size_of_pos (nth ax ixs dflt)); [apply nth_cm_ok|now apply Hsecs].
    Qed.

    Definition subs_of : list (index G) := map (fun ax => nth ax ixs dflt) g.
    Definition Dsub : list entry :=
      fold_left (fun acc s => dset keq (group_subsector G s g) (group_charge G ixs s g, group_size G ixs s g) acc) secs [].
    Definition SI : list entry := group_subinfos G ixs secs g.

    Lemma SI_eq : SI = isort (fun a b => sec_ltb (fst a) (fst b)) Dsub.
    Proof. reflexivity. Qed.

    Lemma SI_perm : Permutation SI Dsub.
    Proof. rewrite SI_eq. apply isort_perm. Qed.

    Lemma Dsub_spec :
      NoDup (map fst Dsub) /\
      (forall k x, In (k, x) Dsub -> exists s, In s secs /\ k = group_subsector G s g /\
                                     x = (group_charge G ixs s g, group_size G ixs s g)) /\
      (forall s, In s secs -> In (group_subsector G s g) (map fst Dsub)).
    Proof.
      exact (fold_dset_spec keq Hke (fun s => group_subsector G s g)
               (fun s => (group_charge G ixs s g, group_size G ixs s g)) secs).
    Qed.

    Lemma SI_sorted : StronglySorted (ltP sec_ltb) (map fst SI).
    Proof. rewrite SI_eq. apply (isort_sorted fst sec_ltb); [exact Hso|apply Dsub_spec]. Qed.

    Lemma SI_NoDup : NoDup (map fst SI).
    Proof. apply (SS_NoDup sec_ltb); [exact Hso|exact SI_sorted]. Qed.

    Lemma SI_entry p : In p SI -> exists s, In s secs /\
      p = (group_subsector G s g, (group_charge G ixs s g, group_size G ixs s g)).
    Proof.
      intros Hp. apply (Permutation_in _ SI_perm) in Hp. destruct p as [k x].
      destruct Dsub_spec as (_ & H & _). destruct (H _ _ Hp) as (s & Hs & -> & ->). now exists s.
    Qed.

    Lemma SI_complete s : In s secs -> In (group_subsector G s g) (map fst SI).
    Proof.
      intros Hs. destruct Dsub_spec as (_ & _ & H).
      apply (Permutation_in _ (Permutation_sym (Permutation_map fst SI_perm))). now apply H.
    Qed.

    Lemma fused_index_unfold : is_singlet g = false ->
      fused_index G ixs secs g =
      Index G (sort_cm G (cmF SI)) (group_dual G ixs g) (Some (subs_of, extF SI)).
    Proof. intros Hs. unfold fused_index. rewrite Hs. reflexivity. Qed.

    Lemma subsector_determines s s' : group_subsector G s g = group_subsector G s' g ->
      group_charge G ixs s g = group_charge G ixs s' g /\ group_size G ixs s g = group_size G ixs s' g.
    Proof.
      unfold group_subsector, take_axes. intros H.
      assert (Hnth : forall ax, In ax g -> nth ax s (ident G) = nth ax s' (ident G)).
      { now apply map_ext_in_iff. }
      split.
      - unfold group_charge. destruct (is_singlet g) eqn:Es.
        + destruct g as [|a [|b g']]; try discriminate Es. cbn [hd]. apply Hnth. now left.
        + f_equal. apply map_ext_in. intros ax Hax. now rewrite (Hnth ax Hax).
      - unfold group_size. f_equal. apply map_ext_in. intros ax Hax. now rewrite (Hnth ax Hax).
    Qed.

    Lemma selc_In c p : In p (selc c SI) <-> In p SI /\ fst (snd p) = c.
    Proof.
      unfold selc. rewrite filter_In. split; intros [H1 H2]; split; try exact H1.
      - apply Hce in H2. now symmetry.
      - apply Hce. now symmetry.
    Qed.

    Lemma cmF_entry c d : In (c, d) (cmF SI) -> selc c SI <> [] /\ d = size_sum (selc c SI).
    Proof.
      intros Hin. destruct (fold_tables SI SI_NoDup) as (_ & Hnd & Hcm & _).
      apply (In_lookup (ceqb G) Hce _ _ _ Hnd) in Hin. rewrite Hcm in Hin.
      destruct (is_nil (selc c SI)) eqn:E; [discriminate|].
      apply is_nil_false in E. inversion Hin. now split.
    Qed.

    Lemma extF_lookup c : selc c SI <> [] -> lookup (ceqb G) c (extF SI) = Some (ext_of (selc c SI)).
    Proof.
      intros Hne. destruct (fold_tables SI SI_NoDup) as (_ & _ & _ & Hext).
      rewrite Hext. apply is_nil_false in Hne. now rewrite Hne.
    Qed.

    Lemma ext_of_keys F : map fst (ext_of F) = map fst F.
    Proof. unfold ext_of. rewrite map_map. reflexivity. Qed.
    Lemma ext_of_sizes F : nsum (map snd (ext_of F)) = size_sum F.
    Proof. unfold ext_of, size_sum. rewrite map_map. reflexivity. Qed.

    Lemma selc_sorted c : StronglySorted (ltP sec_ltb) (map fst (selc c SI)).
    Proof. apply SS_map_filter. exact SI_sorted. Qed.

    Context (Hsing : is_singlet g = false).
    Notation fi := (fused_index G ixs secs g).

    (* (A4) *)
    Theorem fused_dual : idual G fi = idual G (nth (hd 0 g) ixs dflt).
    Proof. rewrite (fused_index_unfold Hsing). reflexivity. Qed.

    Lemma cmF_entry_ok c d : In (c, d) (cmF SI) -> valid G c = true /\ 0 < d.
    Proof.
      intros Hin. destruct (cmF_entry _ _ Hin) as [Hne ->]. split.
      - destruct (selc c SI) as [|p F] eqn:E; [congruence|].
        assert (Hp : In p (selc c SI)) by (rewrite E; now left).
        apply selc_In in Hp. destruct Hp as [Hp Hc].
        destruct (SI_entry _ Hp) as (s & Hs & ->). cbn [fst snd] in Hc. subst c.
        now apply group_charge_valid.
      - unfold size_sum. apply nsum_pos.
        + intros H. apply map_eq_nil in H. contradiction.
        + apply Forall_forall. intros x Hx. apply in_map_iff in Hx. destruct Hx as (p & <- & Hp).
          apply selc_In in Hp. destruct Hp as [Hp _].
          destruct (SI_entry _ Hp) as (s & Hs & ->). cbn [fst snd]. now apply group_size_pos.
    Qed.

    Lemma chargemap_perm : Permutation (chargemap G fi) (cmF SI).
    Proof. rewrite (fused_index_unfold Hsing). cbn [chargemap]. unfold sort_cm. apply isort_perm. Qed.

    (* (A1) *)
    Theorem fused_chargemap_sorted :
      StronglySorted (ltP (cltb G)) (icharges G fi) /\
      Forall (fun p => valid G (fst p) = true /\ 0 < snd p) (chargemap G fi).
    Proof.
      split.
      - rewrite (fused_index_unfold Hsing). unfold icharges. cbn [chargemap]. unfold sort_cm.
        apply (isort_sorted fst (cltb G)); [exact OL|].
        apply (fold_tables SI SI_NoDup).
      - apply (Forall_perm _ _ _ (Permutation_sym chargemap_perm)).
        apply Forall_forall. intros [c d] Hin. cbn [fst snd]. now apply cmF_entry_ok.
    Qed.

    Theorem fused_cm_ok : cm_ok G (chargemap G fi) = true.
    Proof.
      destruct fused_chargemap_sorted as [Hs Hf]. unfold cm_ok. apply andb_true_iff. split.
      - now apply sorted_by_of_SS.
      - apply forallb_forall. intros p Hp. rewrite Forall_forall in Hf. destruct (Hf p Hp) as [Hv Hd].
        rewrite Hv. cbn [andb]. now apply Nat.ltb_lt.
    Qed.

    (* (A2) *)
    Theorem fused_extent_keys :
      exists ext, isub G fi = Some (subs_of, ext) /\ NoDup (map fst ext) /\
                  Permutation (map fst ext) (icharges G fi).
    Proof.
      exists (extF SI). destruct (fold_tables SI SI_NoDup) as (Hkeys & Hnd & _ & _).
      split; [rewrite (fused_index_unfold Hsing); reflexivity|]. split.
      - now rewrite <- Hkeys.
      - rewrite <- Hkeys. unfold icharges. apply Permutation_map, Permutation_sym, chargemap_perm.
    Qed.

    Lemma fused_isub : isub G fi = Some (subs_of, extF SI).
    Proof. rewrite (fused_index_unfold Hsing). reflexivity. Qed.

    Lemma chargemap_NoDup : NoDup (icharges G fi).
    Proof. apply (SS_NoDup (cltb G)); [exact OL|apply fused_chargemap_sorted]. Qed.

    Lemma size_of_fused c d : In (c, d) (chargemap G fi) -> size_of G fi c = d.
    Proof.
      intros Hin. unfold size_of.
      now rewrite (In_lookup (ceqb G) Hce _ _ _ chargemap_NoDup Hin).
    Qed.

    (* (A3) *)
    Theorem fused_extents_partition subs ext : isub G fi = Some (subs, ext) ->
      forall c d, In (c, d) (chargemap G fi) ->
      size_of G fi c = d /\
      exists e, lookup (ceqb G) c ext = Some e /\
        nsum (map snd e) = d /\
        StronglySorted (ltP sec_ltb) (map fst e) /\
        Forall (fun p => exists s, In s secs /\ fst p = group_subsector G s g /\
                                   snd p = group_size G ixs s g /\ group_charge G ixs s g = c) e.
    Proof.
      rewrite fused_isub. intros Heq c d Hin. inversion Heq; subst subs ext. clear Heq.
      split; [now apply size_of_fused|].
      apply (Permutation_in _ chargemap_perm) in Hin.
      destruct (cmF_entry _ _ Hin) as [Hne ->].
      exists (ext_of (selc c SI)). split; [now apply extF_lookup|].
      split; [apply ext_of_sizes|]. split; [rewrite ext_of_keys; apply selc_sorted|].
      apply Forall_forall. intros q Hq. unfold ext_of in Hq. apply in_map_iff in Hq.
      destruct Hq as (p & <- & Hp). apply selc_In in Hp. destruct Hp as [Hp Hc].
      destruct (SI_entry _ Hp) as (s & Hs & ->). cbn [fst snd] in *. exists s. repeat split; assumption.
    Qed.

    (* completeness: every sector's subsector is recorded, under its own fused charge *)
    Theorem fused_extents_complete s : In s secs ->
      In (group_charge G ixs s g) (icharges G fi) /\
      exists e, lookup (ceqb G) (group_charge G ixs s g) (extF SI) = Some e /\
                lookup keq (group_subsector G s g) e = Some (group_size G ixs s g).
    Proof.
      intros Hs. pose proof (SI_complete s Hs) as Hk. apply in_map_iff in Hk.
      destruct Hk as (p & Hfst & Hp). destruct (SI_entry _ Hp) as (s' & Hs' & ->).
      cbn [fst] in Hfst. destruct (subsector_determines _ _ Hfst) as [Hc Hd].
      rewrite Hfst, Hc, Hd in Hp.
      assert (Hsel : In (group_subsector G s g, (group_charge G ixs s g, group_size G ixs s g))
                        (selc (group_charge G ixs s g) SI)) by (apply selc_In; now split).
      assert (Hne : selc (group_charge G ixs s g) SI <> []) by (intros E; now rewrite E in Hsel).
      split.
      - destruct (fold_tables SI SI_NoDup) as (_ & _ & Hcm & _).
        specialize (Hcm (group_charge G ixs s g)). apply is_nil_false in Hne. rewrite Hne in Hcm.
        apply (lookup_In (ceqb G) Hce) in Hcm. apply (in_map fst) in Hcm. cbn [fst] in Hcm.
        apply (Permutation_in _ (Permutation_map fst (Permutation_sym chargemap_perm))). exact Hcm.
      - exists (ext_of (selc (group_charge G ixs s g) SI)). split; [now apply extF_lookup|].
        apply (In_lookup keq Hke).
        + rewrite ext_of_keys. apply (SS_NoDup sec_ltb); [exact Hso|apply selc_sorted].
        + unfold ext_of. apply in_map_iff. eexists. split; [|exact Hsel]. reflexivity.
    Qed.

    Lemma combine_map_map {A B X} (f : X -> A) (h : X -> B) (l : list X) :
      List.combine (map f l) (map h l) = map (fun x => (f x, h x)) l.
    Proof. induction l as [|x l IH]; cbn [map List.combine]; [reflexivity|now rewrite IH]. Qed.

    Lemma wf_index_unfold cm d subs ext :
      wf_index G (Index G cm d (Some (subs, ext))) =
      cm_ok G cm &&
      (negb (is_nil subs) &&
       Bool.eqb d (match subs with s0 :: _ => idual G s0 | [] => d end) &&
       forallb (wf_index G) subs &&
       nodupb (ceqb G) (map fst ext) &&
       Nat.eqb (length ext) (length cm) &&
       forallb (fun p => match lookup (ceqb G) (fst p) ext with
                         | Some e => extent_ok G (fun _ => true) d subs (fst p) (snd p) e
                         | None => false end) cm).
    Proof.
      reflexivity.
    Qed.

    Lemma wf_index_cm_ok ix : wf_index G ix = true -> cm_ok G (chargemap G ix) = true.
    Proof.
      destruct ix as [cm d sub]. cbn [wf_index chargemap]. intros H.
      apply andb_true_iff in H. apply H.
    Qed.

    (* the fused index satisfies the validity predicate of C01 *)
    Theorem fused_index_wf :
      Forall (fun ix => wf_index G ix = true) ixs -> g <> [] -> wf_index G fi = true.
    Proof.
      intros Hwf Hne. rewrite (fused_index_unfold Hsing), wf_index_unfold.
      pose proof fused_cm_ok as Hcm. rewrite (fused_index_unfold Hsing) in Hcm. cbn [chargemap] in Hcm.
      rewrite Hcm. cbn [andb].
      destruct (fold_tables SI SI_NoDup) as (Hkeys & Hnd & _ & _).
      repeat (apply andb_true_iff; split).
      - unfold subs_of. destruct g; [congruence|reflexivity].
      - unfold subs_of, group_dual. destruct g; [congruence|]. cbn [map hd]. apply eqb_reflx.
      - apply forallb_forall. intros ix Hin. unfold subs_of in Hin. apply in_map_iff in Hin.
        destruct Hin as (ax & <- & _).
        destruct (Nat.lt_ge_cases ax (length ixs)) as [Hlt|Hge].
        + rewrite Forall_forall in Hwf. apply Hwf. now apply nth_In.
        + rewrite nth_overflow by exact Hge. reflexivity.
      - apply (nodupb_NoDup (ceqb G) Hce). now rewrite <- Hkeys.
      - apply Nat.eqb_eq. rewrite <- (map_length fst (extF SI)), <- Hkeys, map_length.
        symmetry. apply Permutation_length. unfold sort_cm. apply isort_perm.
      - apply forallb_forall. intros [c d] Hin. cbn [fst snd].
        assert (Hin' : In (c, d) (chargemap G fi)).
        { rewrite (fused_index_unfold Hsing). exact Hin. }
        destruct (fused_extents_partition _ _ fused_isub c d Hin') as (_ & e & He & Hsum & Hsort & Hall).
        rewrite He. unfold extent_ok.
        repeat (apply andb_true_iff; split).
        + now apply Nat.eqb_eq.
        + now apply sorted_by_of_SS.
        + apply forallb_forall. intros [ss sz] Hp. rewrite Forall_forall in Hall.
          destruct (Hall _ Hp) as (s & Hs & Hss & Hsz & Hc). cbn [fst snd] in *. subst ss.
          unfold group_subsector, take_axes, subs_of. rewrite combine_map_map.
          repeat (apply andb_true_iff; split).
          * apply Nat.eqb_eq. now rewrite !map_length.
          * apply forallb_forall. intros q Hq. apply in_map_iff in Hq. destruct Hq as (ax & <- & Hax).
            cbn [fst snd]. now apply Hsecs.
          * apply Nat.eqb_eq. rewrite Hsz. unfold group_size. rewrite map_map. reflexivity.
          * apply Hce. rewrite <- Hc. unfold group_charge. rewrite Hsing. rewrite map_map. reflexivity.
    Qed.
  End OneGroup.
End FuseTables.

(* ------------------------------------------------------------------ *)
(* Part B: starts_from assigns disjoint, covering ranges (accum_for_split) *)
Section Ranges.
  Context {K : Type} (keqb : K -> K -> bool) (Hk : eqb_spec_on keqb).

  (* the (start, length) table that sub_range and a_unfuse look sub-sectors up in *)
  Definition ranges_from (s0 : nat) (e : list (K * nat)) : list (K * (nat * nat)) :=
    List.combine (map fst e) (List.combine (starts_from s0 (map snd e)) (map snd e)).

  Lemma ranges_from_cons s0 k d e : ranges_from s0 ((k, d) :: e) = (k, (s0, d)) :: ranges_from (s0 + d) e.
  Proof. reflexivity. Qed.

  Lemma ranges_keys s0 e : map fst (ranges_from s0 e) = map fst e.
  Proof.
    revert s0. induction e as [|[k d] e IH]; intros s0; [reflexivity|].
    rewrite ranges_from_cons. cbn [map fst]. now rewrite IH.
  Qed.

  Lemma ranges_bounds s0 e k st len : In (k, (st, len)) (ranges_from s0 e) ->
    s0 <= st /\ st + len <= s0 + nsum (map snd e) /\ In (k, len) e.
  Proof.
    revert s0. induction e as [|[k0 d0] e IH]; intros s0; [intros []|].
    rewrite ranges_from_cons. cbn [map snd nsum fold_right]. fold (nsum (map snd e)).
    intros [H|H].
    - inversion H; subst. repeat split; try lia. now left.
    - destruct (IH _ H) as (H1 & H2 & H3). repeat split; try lia. now right.
  Qed.

  Lemma ranges_disjoint s0 e k1 st1 l1 k2 st2 l2 : NoDup (map fst e) ->
    In (k1, (st1, l1)) (ranges_from s0 e) -> In (k2, (st2, l2)) (ranges_from s0 e) -> k1 <> k2 ->
    st1 + l1 <= st2 \/ st2 + l2 <= st1.
  Proof.
    revert s0. induction e as [|[k0 d0] e IH]; intros s0 Hnd; [intros []|].
    rewrite ranges_from_cons. cbn [map fst] in Hnd. inversion Hnd as [|? ? Hnotin Hnd']; subst.
    intros [H1|H1] [H2|H2] Hne.
    - inversion H1; inversion H2; subst. congruence.
    - inversion H1; subst. apply ranges_bounds in H2. lia.
    - inversion H2; subst. apply ranges_bounds in H1. lia.
    - exact (IH _ Hnd' H1 H2 Hne).
  Qed.

  Lemma ranges_cover s0 e o : s0 <= o < s0 + nsum (map snd e) ->
    exists k st len, In (k, (st, len)) (ranges_from s0 e) /\ st <= o < st + len.
  Proof.
    revert s0. induction e as [|[k0 d0] e IH]; intros s0; cbn [map snd nsum fold_right]; [lia|].
    fold (nsum (map snd e)). intros Ho. rewrite ranges_from_cons.
    destruct (Nat.lt_ge_cases o (s0 + d0)) as [Hlt|Hge].
    - exists k0, s0, d0. split; [now left|lia].
    - destruct (IH (s0 + d0)) as (k & st & len & Hin & Hr); [lia|].
      exists k, st, len. split; [now right|exact Hr].
  Qed.

  Lemma ranges_NoDup s0 e : NoDup (map fst e) -> NoDup (map fst (ranges_from s0 e)).
  Proof. now rewrite ranges_keys. Qed.

  (* the partition theorem in the lookup form used by sub_range / a_unfuse *)
  Theorem ranges_partition (e : list (K * nat)) : NoDup (map fst e) ->
    (forall k r, lookup keqb k (ranges_from 0 e) = Some r ->
       fst r + snd r <= nsum (map snd e) /\ lookup keqb k e = Some (snd r)) /\
    (forall k, lookup keqb k (ranges_from 0 e) = None <-> lookup keqb k e = None) /\
    (forall k1 k2 r1 r2, lookup keqb k1 (ranges_from 0 e) = Some r1 ->
       lookup keqb k2 (ranges_from 0 e) = Some r2 -> k1 <> k2 ->
       fst r1 + snd r1 <= fst r2 \/ fst r2 + snd r2 <= fst r1) /\
    (forall o, o < nsum (map snd e) ->
       exists k r, lookup keqb k (ranges_from 0 e) = Some r /\ fst r <= o < fst r + snd r) /\
    (forall o k1 k2 r1 r2, lookup keqb k1 (ranges_from 0 e) = Some r1 ->
       lookup keqb k2 (ranges_from 0 e) = Some r2 ->
       fst r1 <= o < fst r1 + snd r1 -> fst r2 <= o < fst r2 + snd r2 -> k1 = k2).
  Proof.
    intros Hnd.
    assert (Hdis : forall k1 k2 r1 r2, lookup keqb k1 (ranges_from 0 e) = Some r1 ->
       lookup keqb k2 (ranges_from 0 e) = Some r2 -> k1 <> k2 ->
       fst r1 + snd r1 <= fst r2 \/ fst r2 + snd r2 <= fst r1).
    { intros k1 k2 [st1 l1] [st2 l2] H1 H2 Hne. cbn [fst snd].
      apply (lookup_In keqb Hk) in H1. apply (lookup_In keqb Hk) in H2.
      exact (ranges_disjoint 0 e _ _ _ _ _ _ Hnd H1 H2 Hne). }
    split; [|split; [|split; [exact Hdis|split]]].
    - intros k [st len] H. apply (lookup_In keqb Hk) in H. apply ranges_bounds in H.
      cbn [fst snd]. destruct H as (_ & H2 & H3). split; [lia|].
      now apply (In_lookup keqb Hk).
    - intros k. rewrite !(lookup_None_iff keqb Hk), ranges_keys. reflexivity.
    - intros o Ho. destruct (ranges_cover 0 e o) as (k & st & len & Hin & Hr); [lia|].
      exists k, (st, len). split; [|exact Hr].
      apply (In_lookup keqb Hk); [now apply ranges_NoDup|exact Hin].
    - intros o k1 k2 r1 r2 H1 H2 Ho1 Ho2.
      destruct (keqb k1 k2) eqn:E; [now apply Hk|].
      assert (Hne : k1 <> k2) by (intros ->; rewrite (keqb_refl keqb Hk) in E; discriminate).
      destruct (Hdis _ _ _ _ H1 H2 Hne); lia.
  Qed.
End Ranges.

(* ------------------------------------------------------------------ *)
(* Part C.0: generic list / dict facts for the value-level round trip *)

Lemma NoDup_app_intro {A} (l1 l2 : list A) :
  NoDup l1 -> NoDup l2 -> (forall x, In x l1 -> ~ In x l2) -> NoDup (l1 ++ l2).
Proof.
  induction l1 as [|a l1 IH]; intros H1 H2 Hd; [exact H2|].
  inversion H1 as [|? ? Hna H1']; subst. cbn [app]. constructor.
  - intros Hin. apply in_app_or in Hin. destruct Hin as [Hin|Hin]; [contradiction|].
    apply (Hd a); [now left|exact Hin].
  - apply IH; [exact H1'|exact H2|]. intros x Hx. apply Hd. now right.
Qed.

Lemma NoDup_flat_map {A B} (h : A -> list B) (l : list A) :
  NoDup l -> (forall x, In x l -> NoDup (h x)) ->
  (forall x x' y, In x l -> In x' l -> In y (h x) -> In y (h x') -> x = x') ->
  NoDup (flat_map h l).
Proof.
  induction l as [|a l IH]; intros Hl Hh Hd; cbn [flat_map]; [constructor|].
  inversion Hl as [|? ? Hna Hl']; subst.
  apply NoDup_app_intro.
  - apply Hh. now left.
  - apply IH; [exact Hl'| |].
    + intros x Hx. apply Hh. now right.
    + intros x x' y Hx Hx'. apply Hd; now right.
  - intros y Hy Hy'. apply in_flat_map in Hy'. destruct Hy' as (x' & Hx' & Hy').
    assert (a = x') by (apply (Hd a x' y); [now left|now right|exact Hy|exact Hy']).
    subst x'. contradiction.
Qed.

Lemma fold_left_flat_map {A B X} (f : A -> X -> A) (h : B -> list X) (l : list B) (a : A) :
  fold_left f (flat_map h l) a = fold_left (fun a x => fold_left f (h x) a) l a.
Proof.
  revert a. induction l as [|x l IH]; intros a; cbn [flat_map fold_left]; [reflexivity|].
  now rewrite fold_left_app, IH.
Qed.

Lemma NoDup_map_fst_inj {K V} (l : list (K * V)) a b :
  NoDup (map fst l) -> In a l -> In b l -> fst a = fst b -> a = b.
Proof.
  induction l as [|x l IH]; intros Hnd Ha Hb Hab; [destruct Ha|].
  cbn [map] in Hnd. inversion Hnd as [|? ? Hnx Hnd']; subst.
  destruct Ha as [->|Ha], Hb as [->|Hb].
  - reflexivity.
  - exfalso. apply Hnx. rewrite Hab. now apply in_map.
  - exfalso. apply Hnx. rewrite <- Hab. now apply in_map.
  - now apply IH.
Qed.

Lemma NoDup_map_fst_NoDup {K V} (l : list (K * V)) : NoDup (map fst l) -> NoDup l.
Proof.
  induction l as [|x l IH]; intros Hnd; [constructor|].
  cbn [map] in Hnd. inversion Hnd as [|? ? Hnx Hnd']; subst. constructor; [|now apply IH].
  intros Hin. apply Hnx. now apply in_map.
Qed.

Section DictFresh.
  Context {K V : Type} (keqb : K -> K -> bool) (Hk : eqb_spec_on keqb).

  (* storing under pairwise distinct keys just lists the items in order *)
  Lemma fold_dset_fresh (items : list (K * V)) : NoDup (map fst items) ->
    fold_left (fun acc kv => dset keqb (fst kv) (snd kv) acc) items [] = items.
  Proof.
    induction items as [|[k v] items IH] using rev_ind; intros Hnd; [reflexivity|].
    rewrite map_app in Hnd. apply NoDup_remove in Hnd. cbn [map app] in Hnd.
    rewrite app_nil_r in Hnd. destruct Hnd as [Hnd Hnew].
    rewrite fold_left_app. cbn [fold_left fst snd]. rewrite (IH Hnd).
    now apply (keys_dset_notin keqb Hk).
  Qed.
End DictFresh.

(* ------------------------------------------------------------------ *)
(* Part C.1: the scatter fold of _fuse_blocks_via_insert, abstractly:
   every item is written into the tensor stored under its key, on its own
   range of one axis; ranges of items sharing a key are disjoint *)
Section Scatter.
  Context (R : Ring) {K I : Type} (keqb : K -> K -> bool) (Hk : eqb_spec_on keqb).
  Context (key : I -> K) (rng : I -> nat * nat) (src : I -> tensor R) (shape : K -> list nat) (axis : nat).

  Definition scatter_step (acc : list (K * tensor R)) (i : I) : list (K * tensor R) :=
    dset keqb (key i)
      (tassign R (match lookup keqb (key i) acc with Some t => t | None => tzeros R (shape (key i)) end)
               (axis_sel (shape (key i)) axis (fst (rng i)) (snd (rng i))) (src i)) acc.
  Definition scatter_fold (items : list I) : list (K * tensor R) := fold_left scatter_step items [].

  Definition disj (r1 r2 : nat * nat) : Prop := fst r1 + snd r1 <= fst r2 \/ fst r2 + snd r2 <= fst r1.
  Definition item_ok (i : I) : Prop :=
    axis < length (shape (key i)) /\
    fst (rng i) + snd (rng i) <= nth axis (shape (key i)) 0 /\
    tshape (src i) = set_nth (shape (key i)) axis (snd (rng i)) /\
    length (tdata (src i)) = shape_size (tshape (src i)).

  Lemma scatter_spec (items : list I) :
    NoDup items -> (forall i, In i items -> item_ok i) ->
    (forall i j, In i items -> In j items -> i <> j -> key i = key j -> disj (rng i) (rng j)) ->
    NoDup (map fst (scatter_fold items)) /\
    (forall k, In k (map fst (scatter_fold items)) <-> exists i, In i items /\ key i = k) /\
    (forall k T, lookup keqb k (scatter_fold items) = Some T -> tshape T = shape k) /\
    (forall i, In i items -> exists T, lookup keqb (key i) (scatter_fold items) = Some T /\
                                       tslice R T axis (fst (rng i)) (snd (rng i)) = src i) /\
    (forall k T st len, lookup keqb k (scatter_fold items) = Some T ->
       st + len <= nth axis (shape k) 0 ->
       (forall i, In i items -> key i = k -> disj (st, len) (rng i)) ->
       tslice R T axis st len = tzeros R (set_nth (shape k) axis len)).
  Proof.
    induction items as [|i0 P IH] using rev_ind; intros Hnd Hok Hdis.
    - cbn. split; [constructor|]. split; [intros k; split; [intros []|intros (i & [] & _)]|].
      split; [discriminate|]. split; [intros i []|discriminate].
    - apply NoDup_remove in Hnd. rewrite app_nil_r in Hnd. destruct Hnd as [Hnd Hnew].
      destruct IH as (IHnd & IHkeys & IHshape & IHown & IHzero); [exact Hnd| | |].
      { intros i Hi. apply Hok. apply in_or_app. now left. }
      { intros i j Hi Hj. apply Hdis; apply in_or_app; now left. }
      unfold scatter_fold. rewrite fold_left_app. cbn [fold_left]. fold (scatter_fold P).
      set (acc := scatter_fold P) in *.
      set (k0 := key i0).
      set (tgt := match lookup keqb k0 acc with Some t => t | None => tzeros R (shape k0) end).
      assert (Hi0 : item_ok i0) by (apply Hok; apply in_or_app; right; now left).
      destruct Hi0 as (Hax & Hfit & Hsrc & Hlen).
      assert (Htgt : tshape tgt = shape k0).
      { unfold tgt. destruct (lookup keqb k0 acc) eqn:E; [now apply IHshape|reflexivity]. }
      unfold scatter_step. fold k0. fold tgt.
      set (T' := tassign R tgt (axis_sel (shape k0) axis (fst (rng i0)) (snd (rng i0))) (src i0)).
      assert (Hlk : forall k, lookup keqb k (dset keqb k0 T' acc) = if keqb k k0 then Some T' else lookup keqb k acc).
      { intros k. apply (lookup_dset keqb Hk). }
      split; [now apply (dset_keys_NoDup keqb Hk)|]. split; [|split; [|split]].
      + intros k. split.
        * intros Hin. destruct (keqb k k0) eqn:E.
          -- apply Hk in E. exists i0. split; [apply in_or_app; right; now left|now symmetry].
          -- assert (Hin' : In k (map fst acc)).
             { destruct (lookup keqb k acc) eqn:E2.
               - apply (lookup_In keqb Hk) in E2. now apply (in_map fst) in E2.
               - exfalso. apply (lookup_None_iff keqb Hk) in Hin; [exact Hin|]. now rewrite Hlk, E. }
             apply IHkeys in Hin'. destruct Hin' as (i & Hi & Hki). exists i. split; [apply in_or_app; now left|exact Hki].
        * intros (i & Hi & Hki). apply in_app_or in Hi. destruct Hi as [Hi|[<-|[]]].
          -- apply (keys_dset_incl keqb). apply IHkeys. now exists i.
          -- rewrite <- Hki. apply (keys_dset_self keqb Hk).
      + intros k T. rewrite Hlk. destruct (keqb k k0) eqn:E.
        * apply Hk in E. subst k. intros H. inversion H. subst T. unfold T'. now rewrite tshape_tassign.
        * apply IHshape.
      + intros i Hi. rewrite Hlk. apply in_app_or in Hi. destruct Hi as [Hi|[<-|[]]].
        * destruct (keqb (key i) k0) eqn:E.
          -- apply Hk in E. destruct (IHown i Hi) as (T & HT & Hsl). exists T'. split; [reflexivity|].
             assert (Hne : i <> i0) by (intros ->; contradiction).
             assert (Hd : disj (rng i) (rng i0)).
             { apply Hdis; [apply in_or_app; now left|apply in_or_app; right; now left|exact Hne|exact E]. }
             assert (HtT : tgt = T) by (unfold tgt; rewrite <- E, HT; reflexivity).
             destruct (Hok i) as (_ & Hf & _); [apply in_or_app; now left|]. rewrite E in Hf.
             unfold T'. rewrite <- Htgt.
             rewrite tslice_tassign_disjoint; [rewrite HtT; exact Hsl| | |exact Hd]; rewrite Htgt; [exact Hax|exact Hf].
          -- apply IHown. exact Hi.
        * fold k0. rewrite (keqb_refl keqb Hk). exists T'. split; [reflexivity|].
          unfold T'. rewrite <- Htgt. apply tslice_tassign_same; rewrite ?Htgt; assumption.
      + intros k T st len. rewrite Hlk. destruct (keqb k k0) eqn:E.
        * apply Hk in E. subst k. intros H Hfit' Hall. inversion H. subst T. clear H.
          assert (Hd : disj (st, len) (rng i0)) by (apply Hall; [apply in_or_app; right; now left|reflexivity]).
          unfold T'. rewrite <- Htgt. rewrite tslice_tassign_disjoint; [| | |exact Hd]; rewrite ?Htgt; try assumption.
          unfold tgt. destruct (lookup keqb k0 acc) as [T0|] eqn:E0.
          -- apply (IHzero k0 T0 st len E0 Hfit'). intros i Hi Hki. apply Hall; [apply in_or_app; now left|exact Hki].
          -- now apply tslice_tzeros.
        * intros H Hfit' Hall. apply (IHzero k T st len H Hfit'). intros i Hi Hki. apply Hall; [apply in_or_app; now left|exact Hki].
  Qed.
End Scatter.

(* ------------------------------------------------------------------ *)
(* Part C.2: layout facts for one group *)

Lemma fold_min_spec l a :
  fold_left Nat.min l a <= a /\ Forall (fun b => fold_left Nat.min l a <= b) l /\
  (fold_left Nat.min l a = a \/ In (fold_left Nat.min l a) l).
Proof.
  revert a. induction l as [|b l IH]; intros a; cbn [fold_left].
  - split; [lia|]. split; [constructor|now left].
  - destruct (IH (Nat.min a b)) as (H1 & H2 & H3). split; [lia|]. split.
    + constructor; [lia|exact H2].
    + destruct H3 as [H3|H3].
      * rewrite H3. destruct (Nat.min_spec a b) as [[_ ->]|[_ ->]]; [now left|right; now left].
      * right. now right.
Qed.

Lemma list_min_spec l : l <> [] -> In (list_min l) l /\ Forall (fun b => list_min l <= b) l.
Proof.
  destruct l as [|a l]; [congruence|]. intros _. unfold list_min.
  destruct (fold_min_spec l a) as (H1 & H2 & H3). split.
  - destruct H3 as [->|H3]; [now left|now right].
  - constructor; assumption.
Qed.

Lemma filter_all {A} (f : A -> bool) l : (forall x, In x l -> f x = true) -> filter f l = l.
Proof.
  induction l as [|a l IH]; intros H; [reflexivity|]. cbn [filter].
  rewrite (H a) by now left. f_equal. apply IH. intros x Hx. apply H. now right.
Qed.

Lemma fold_left_ext {A B} (f f' : A -> B -> A) l a :
  (forall a b, In b l -> f a b = f' a b) -> fold_left f l a = fold_left f' l a.
Proof.
  revert a. induction l as [|b l IH]; intros a H; [reflexivity|]. cbn [fold_left].
  rewrite H by now left. apply IH. intros a' b' Hb'. apply H. now right.
Qed.

Lemma fold_left_map {A B X} (f : A -> B -> A) (h : X -> B) l a :
  fold_left f (map h l) a = fold_left (fun a x => f a (h x)) l a.
Proof. revert a. induction l as [|x l IH]; intros a; [reflexivity|]. cbn [map fold_left]. apply IH. Qed.

Lemma map_flat_map {A B X} (f : B -> X) (h : A -> list B) l :
  map f (flat_map h l) = flat_map (fun x => map f (h x)) l.
Proof. induction l as [|a l IH]; [reflexivity|]. cbn [flat_map]. now rewrite map_app, IH. Qed.

Lemma NoDup_map_inj_on {A B} (f : A -> B) l :
  (forall x y, In x l -> In y l -> f x = f y -> x = y) -> NoDup l -> NoDup (map f l).
Proof.
  induction l as [|a l IH]; intros Hinj Hnd; [constructor|].
  inversion Hnd as [|? ? Hna Hnd']; subst. cbn [map]. constructor.
  - intros Hin. apply in_map_iff in Hin. destruct Hin as (y & Hy & Hin).
    assert (y = a) by (apply Hinj; [now right|now left|exact Hy]). subst y. contradiction.
  - apply IH; [|exact Hnd']. intros x y Hx Hy. apply Hinj; now right.
Qed.

Lemma replace_with_seq_middle {A} (X Z : list A) (y : A) (s : list A) i :
  length X = i -> replace_with_seq (X ++ y :: Z) i s = X ++ s ++ Z.
Proof.
  intros <-. unfold replace_with_seq.
  rewrite firstn_app, firstn_all, Nat.sub_diag. cbn [firstn]. rewrite app_nil_r.
  replace (S (length X)) with (length (X ++ [y])) by (rewrite app_length; cbn; lia).
  replace (X ++ y :: Z) with ((X ++ [y]) ++ Z) by (rewrite <- app_assoc; reflexivity).
  rewrite skipn_app, skipn_all, Nat.sub_diag. reflexivity.
Qed.

Lemma set_nth_middle {A} (X Z : list A) (y v : A) i :
  length X = i -> set_nth (X ++ y :: Z) i v = X ++ v :: Z.
Proof. intros H. unfold set_nth. apply (replace_with_seq_middle X Z y [v] i H). Qed.

Lemma nth_middle_len {A} (X Z : list A) (y d : A) i : length X = i -> nth i (X ++ y :: Z) d = y.
Proof. intros <-. apply nth_middle. Qed.

Lemma app_inv_len {A} (a1 a2 b1 b2 : list A) :
  length a1 = length a2 -> a1 ++ b1 = a2 ++ b2 -> a1 = a2 /\ b1 = b2.
Proof.
  revert a2. induction a1 as [|x a1 IH]; intros [|y a2] Hl H; try discriminate Hl.
  - now split.
  - cbn [app] in H. inversion H; subst. destruct (IH a2) as [-> ->]; [now inversion Hl|assumption|now split].
Qed.

Lemma combine_app {A B} (l1 l2 : list A) (m1 m2 : list B) :
  length l1 = length m1 -> List.combine (l1 ++ l2) (m1 ++ m2) = List.combine l1 m1 ++ List.combine l2 m2.
Proof.
  revert m1. induction l1 as [|a l1 IH]; intros [|b m1] H; try discriminate H; [reflexivity|].
  cbn [app List.combine]. f_equal. apply IH. now inversion H.
Qed.

Lemma shape_size_app l1 l2 : shape_size (l1 ++ l2) = shape_size l1 * shape_size l2.
Proof.
  induction l1 as [|a l1 IH].
  - cbn [app]. change (shape_size []) with 1. now rewrite Nat.mul_1_l.
  - cbn [app]. change (shape_size (a :: l1 ++ l2)) with (a * shape_size (l1 ++ l2)).
    change (shape_size (a :: l1)) with (a * shape_size l1). rewrite IH. apply Nat.mul_assoc.
Qed.

Lemma permuted_inj {A} (d : A) (perm : list nat) (s s' : list A) :
  is_perm perm -> length s = length perm -> length s' = length perm ->
  permuted d s perm = permuted d s' perm -> s = s'.
Proof.
  intros Hp Hl Hl' H. apply (nth_ext _ _ d d); [lia|].
  intros j Hj. unfold permuted in H.
  assert (Hin : In j perm) by (apply (is_perm_In perm j Hp); lia).
  apply map_ext_in_iff with (a := j) in H; [exact H|exact Hin].
Qed.

Section OneGroupLayout.
  Context (n : nat) (g : list nat).
  Context (Hg_nd : NoDup g) (Hg_rng : Forall (fun ax => ax < n) g) (Hg_ne : g <> []).

  Notation pos := (fuse_position [g]).
  Notation before := (axes_before n [g]).
  Notation after := (axes_after n [g]).
  Notation perm := (fuse_perm n [g]).

  Lemma group_of_single ax : group_of [g] ax = if mem Nat.eqb ax g then Some 0 else None.
  Proof. reflexivity. Qed.

  Lemma nat_mem_In ax l : mem Nat.eqb ax l = true <-> In ax l.
  Proof. apply (mem_In Nat.eqb). intros a b. apply Nat.eqb_eq. Qed.

  Lemma ungrouped_iff ax : is_none (group_of [g] ax) = true <-> ~ In ax g.
  Proof.
    rewrite group_of_single. destruct (mem Nat.eqb ax g) eqn:E.
    - apply nat_mem_In in E. cbn. split; [discriminate|contradiction].
    - cbn. split; [|reflexivity]. intros _ Hin. apply nat_mem_In in Hin. congruence.
  Qed.

  Lemma pos_eq : pos = list_min g.
  Proof. unfold fuse_position. cbn [concat]. now rewrite app_nil_r. Qed.

  Lemma pos_In : In pos g.
  Proof. rewrite pos_eq. now apply list_min_spec. Qed.

  Lemma pos_le ax : In ax g -> pos <= ax.
  Proof.
    intros H. rewrite pos_eq. destruct (list_min_spec g Hg_ne) as [_ Hall].
    rewrite Forall_forall in Hall. now apply Hall.
  Qed.

  Lemma pos_lt_n : pos < n.
  Proof. rewrite Forall_forall in Hg_rng. apply Hg_rng, pos_In. Qed.

  Lemma before_eq : before = seq 0 pos.
  Proof.
    unfold axes_before. apply filter_all. intros ax Hax. apply ungrouped_iff.
    intros Hin. apply in_seq in Hax. apply pos_le in Hin. lia.
  Qed.

  Lemma length_before : length before = pos.
  Proof. rewrite before_eq. apply seq_length. Qed.

  Lemma perm_eq : perm = before ++ g ++ after.
  Proof. unfold fuse_perm. cbn [concat]. now rewrite app_nil_r. Qed.

  Lemma In_before ax : In ax before <-> ax < pos.
  Proof. rewrite before_eq, in_seq. lia. Qed.

  Lemma In_after ax : In ax after <-> (pos <= ax < n /\ ~ In ax g).
  Proof.
    unfold axes_after. rewrite filter_In, in_seq, ungrouped_iff. pose proof pos_lt_n.
    split; intros [H1 H2]; (split; [lia|exact H2]).
  Qed.

  Lemma perm_NoDup : NoDup perm.
  Proof.
    rewrite perm_eq. apply NoDup_app_intro.
    - rewrite before_eq. apply seq_NoDup.
    - apply NoDup_app_intro; [exact Hg_nd| |].
      + unfold axes_after. apply NoDup_filter, seq_NoDup.
      + intros ax Hin Hin'. apply In_after in Hin'. tauto.
    - intros ax Hin Hin'. apply In_before in Hin. apply in_app_or in Hin'. destruct Hin' as [Hin'|Hin'].
      + apply pos_le in Hin'. lia.
      + apply In_after in Hin'. lia.
  Qed.

  Lemma perm_In ax : In ax perm <-> ax < n.
  Proof.
    rewrite perm_eq, !in_app_iff, In_before, In_after. pose proof pos_lt_n as Hp. split.
    - intros [H|[H|H]]; [lia| |lia]. rewrite Forall_forall in Hg_rng. now apply Hg_rng.
    - intros Hlt. destruct (mem Nat.eqb ax g) eqn:E.
      + apply nat_mem_In in E. tauto.
      + assert (~ In ax g) by (intros H; apply nat_mem_In in H; congruence).
        destruct (Nat.lt_ge_cases ax pos); [now left|right; right; tauto].
  Qed.

  Lemma perm_length : length perm = n.
  Proof.
    transitivity (length (seq 0 n)); [|apply seq_length]. apply Permutation_length. apply NoDup_Permutation.
    - exact perm_NoDup.
    - apply seq_NoDup.
    - intros ax. rewrite perm_In, in_seq. lia.
  Qed.

  Lemma perm_is_perm : is_perm perm.
  Proof.
    unfold is_perm. rewrite perm_length. apply NoDup_Permutation.
    - exact perm_NoDup.
    - apply seq_NoDup.
    - intros ax. rewrite perm_In, in_seq. lia.
  Qed.
End OneGroupLayout.

Lemma nth_map_lt {A B} (f : A -> B) l k d d' : k < length l -> nth k (map f l) d' = f (nth k l d).
Proof.
  intros H. rewrite (nth_indep _ d' (f d)) by now rewrite map_length. apply map_nth.
Qed.

Lemma map_combine_seq_ext {A B} (F : nat * A -> B) (F' : A -> B) (L : list A) lo :
  (forall k a, lo <= k < lo + length L -> In a L -> F (k, a) = F' a) ->
  map F (List.combine (seq lo (length L)) L) = map F' L.
Proof.
  revert lo. induction L as [|a L IH]; intros lo H; [reflexivity|].
  cbn [length seq List.combine map]. rewrite H; [|cbn [length]; lia|now left]. f_equal.
  apply IH. intros k a' Hk Ha'. apply H; [cbn [length]; lia|now right].
Qed.

Lemma map_enumerate_split {A B} (F : nat * A -> B) (L1 L2 : list A) (m : A) :
  map F (enumerate (L1 ++ m :: L2)) =
  map F (List.combine (seq 0 (length L1)) L1) ++ F (length L1, m) ::
  map F (List.combine (seq (S (length L1)) (length L2)) L2).
Proof.
  unfold enumerate. rewrite app_length. cbn [length].
  rewrite seq_app. cbn [seq Nat.add]. rewrite combine_app by apply seq_length.
  cbn [List.combine]. rewrite map_app. reflexivity.
Qed.

(* ------------------------------------------------------------------ *)
(* Part C.3: fuse_core with one group is a scatter fold; unfuse reads it back *)
Section RoundTrip.
  Context (G : Symmetry) (R : Ring) (GL : GroupLaws G) (OL : OrderLaws G).
  Context (x : aarray G R) (g : list nat).
  Context (Hwf : wf_array G R x = true).
  Context (Hg_nd : NoDup g) (Hg_rng : Forall (fun ax => ax < length (indices G R x)) g)
          (Hg_len : 2 <= length g).

  Notation keq := (list_eqb (ceqb G)).
  Notation sec_ltb := (list_ltb (cltb G) (ceqb G)).
  Notation ixs := (indices G R x).
  Notation n := (length (indices G R x)).
  Notation secs := (sectors G R x).
  Notation dflt := (dflt_index G).
  Notation idc := (ident G).
  Notation pos := (fuse_position [g]).
  Notation before := (axes_before n [g]).
  Notation after := (axes_after n [g]).
  Notation perm := (fuse_perm n [g]).
  Notation fi := (fused_index G ixs secs g).
  Notation nixs := (fused_indices G ixs secs [g]).
  Notation ext := (extF G (SI G ixs secs g)).
  Notation subs := (subs_of G ixs g).

  Definition sz (s : list (C G)) (ax : nat) : nat := size_of G (nth ax ixs dflt) (nth ax s idc).
  Notation NS := (fused_sector G ixs [g]).
  Notation gc := (fun s => group_charge G ixs s g).
  Notation gs := (fun s => group_size G ixs s g).
  Notation sub := (fun s => group_subsector G s g).

  Lemma Hg_ne : g <> [].
  Proof. intros ->. cbn in Hg_len. lia. Qed.
  Lemma Hsing' : is_singlet g = false.
  Proof. unfold is_singlet. apply Nat.eqb_neq. lia. Qed.

  Lemma Hkeq : eqb_spec_on keq.
  Proof. apply (Hke G GL). Qed.

  Lemma wf_parts :
    Forall (fun ix => wf_index G ix = true) ixs /\ NoDup secs /\
    forall s b, In (s, b) (blocks G R x) ->
      length s = n /\
      (forall ax, ax < n -> mem (ceqb G) (nth ax s idc) (icharges G (nth ax ixs dflt)) = true) /\
      tshape b = block_shape G ixs s /\ length (tdata b) = shape_size (tshape b).
  Proof.
    unfold wf_array in Hwf. apply andb_true_iff in Hwf. destruct Hwf as [H123 H4].
    apply andb_true_iff in H123. destruct H123 as [H12 H3].
    apply andb_true_iff in H12. destruct H12 as [H1 _].
    split; [apply Forall_forall; now apply forallb_forall|].
    split; [now apply (nodupb_NoDup keq Hkeq)|].
    intros s b Hin. rewrite forallb_forall in H4. specialize (H4 _ Hin). cbn [fst snd] in H4.
    apply andb_true_iff in H4. destruct H4 as [H4 Hlen]. apply andb_true_iff in H4. destruct H4 as [Hsec Hsh].
    unfold sector_ok in Hsec. apply andb_true_iff in Hsec. destruct Hsec as [Hsec _].
    apply andb_true_iff in Hsec. destruct Hsec as [Hl Hmem]. apply Nat.eqb_eq in Hl.
    split; [exact Hl|]. split; [|split].
    - intros ax Hax. rewrite forallb_forall in Hmem.
      specialize (Hmem (nth ax ixs dflt, nth ax s idc)). cbn [fst snd] in Hmem. apply Hmem.
      rewrite <- combine_nth by (symmetry; exact Hl). apply nth_In. rewrite combine_length. lia.
    - apply (list_eqb_spec Nat.eqb); [intros a c; apply Nat.eqb_eq|exact Hsh].
    - now apply Nat.eqb_eq.
  Qed.

  Lemma Hix' : Forall (fun ix => cm_ok G (chargemap G ix) = true) ixs.
  Proof.
    destruct wf_parts as [H _]. eapply Forall_impl; [|exact H]. intros ix. apply (wf_index_cm_ok G).
  Qed.

  Lemma g_lt ax : In ax g -> ax < n.
  Proof. rewrite Forall_forall in Hg_rng. apply Hg_rng. Qed.

  Lemma Hsecs' : forall s, In s secs -> forall ax, In ax g ->
      mem (ceqb G) (nth ax s idc) (icharges G (nth ax ixs dflt)) = true.
  Proof.
    intros s Hs ax Hax. unfold sectors in Hs. apply in_map_iff in Hs. destruct Hs as ([s' b] & <- & Hin).
    destruct wf_parts as (_ & _ & H). destruct (H _ _ Hin) as (_ & Hm & _). apply Hm. now apply g_lt.
  Qed.

  Lemma In_secs s b : In (s, b) (blocks G R x) -> In s secs.
  Proof. intros H. unfold sectors. apply in_map_iff. exists (s, b). now split. Qed.

  (* the shapes of the fused layout *)
  Lemma NS_eq s : NS s = take_axes idc s before ++ gc s :: take_axes idc s after.
  Proof. reflexivity. Qed.
  Lemma nixs_eq : nixs = map (fun ax => nth ax ixs dflt) before ++ fi :: map (fun ax => nth ax ixs dflt) after.
  Proof. reflexivity. Qed.
  Lemma FS_eq s : fused_block_shape G ixs [g] s = map (sz s) before ++ gs s :: map (sz s) after.
  Proof. reflexivity. Qed.

  Lemma len_before : length before = pos.
  Proof. apply length_before; first [exact Hg_ne | exact Hg_rng | exact Hg_nd]. Qed.

  Lemma Pperm : is_perm perm.
  Proof. apply perm_is_perm; first [exact Hg_ne | exact Hg_rng | exact Hg_nd]. Qed.
  Lemma Plen : length perm = n.
  Proof. apply perm_length; first [exact Hg_ne | exact Hg_rng | exact Hg_nd]. Qed.
  Lemma PIn ax : In ax perm <-> ax < n.
  Proof. apply perm_In; first [exact Hg_ne | exact Hg_rng | exact Hg_nd]. Qed.
  Lemma Peq : perm = before ++ g ++ after.
  Proof. apply perm_eq. Qed.

  Lemma block_shape_nixs s :
    block_shape G nixs (NS s) = map (sz s) before ++ size_of G fi (gc s) :: map (sz s) after.
  Proof.
    unfold block_shape. rewrite nixs_eq, NS_eq. unfold take_axes.
    rewrite combine_app by now rewrite !map_length. cbn [List.combine].
    rewrite map_app. cbn [map fst snd]. rewrite !combine_map_map, !map_map. reflexivity.
  Qed.

  Lemma block_shape_ixs s ax : length s = n -> ax < n -> nth ax (block_shape G ixs s) 0 = sz s ax.
  Proof.
    intros Hl Hax. unfold block_shape, sz.
    rewrite (nth_map_lt _ _ _ (dflt, idc)) by (rewrite combine_length; lia).
    rewrite combine_nth by (symmetry; exact Hl). reflexivity.
  Qed.

  Lemma fuse_selector_eq s :
    fuse_selector G ixs nixs [g] s =
    axis_sel (block_shape G nixs (NS s)) pos
             (fst (sub_range G fi (gc s) (sub s))) (snd (sub_range G fi (gc s) (sub s))).
  Proof.
    unfold fuse_selector, block_shape, axis_sel. rewrite map_map.
    rewrite nixs_eq, NS_eq. unfold take_axes.
    rewrite combine_app by now rewrite !map_length. cbn [List.combine].
    set (L1 := List.combine (map (fun ax => nth ax ixs dflt) before) (map (fun a => nth a s idc) before)).
    set (L2 := List.combine (map (fun ax => nth ax ixs dflt) after) (map (fun a => nth a s idc) after)).
    assert (HL1 : length L1 = length before).
    { unfold L1. rewrite combine_length, !map_length. lia. }
    rewrite map_enumerate_split, HL1.
    rewrite map_app. cbn [map]. rewrite set_nth_middle by (rewrite map_length, HL1; apply len_before).
    f_equal; [|f_equal].
    - rewrite <- HL1. apply map_combine_seq_ext. intros k [ix c] Hk _.
      replace (Nat.leb (length L1) k) with false by (symmetry; apply Nat.leb_gt; lia). reflexivity.
    - rewrite Nat.leb_refl. replace (Nat.ltb (length before) (length before + length [g])) with true
        by (symmetry; apply Nat.ltb_lt; cbn; lia).
      cbn [andb]. rewrite Nat.sub_diag. cbn [nth]. rewrite Hsing'. cbn [fst snd]. now destruct (sub_range _ _ _ _).
    - apply map_combine_seq_ext. intros k [ix c] Hk _.
      replace (Nat.ltb k (length before + length [g])) with false
        by (symmetry; apply Nat.ltb_ge; cbn [length]; lia).
      rewrite andb_false_r. reflexivity.
  Qed.

  (* the scatter-fold view of fuse_core *)
  Definition fkey (sb : list (C G) * tensor R) : list (C G) := NS (fst sb).
  Definition frng (sb : list (C G) * tensor R) : nat * nat := sub_range G fi (gc (fst sb)) (sub (fst sb)).
  Definition fsrc (sb : list (C G) * tensor R) : tensor R :=
    treshape R (ttranspose R (snd sb) perm) (fused_block_shape G ixs [g] (fst sb)).
  Definition fshape (k : list (C G)) : list nat := block_shape G nixs k.

  Lemma fuse_core_blocks :
    blocks G R (fuse_core G R x [g]) = scatter_fold R keq fkey frng fsrc fshape pos (blocks G R x).
  Proof.
    unfold fuse_core. cbn [blocks]. unfold scatter_fold. apply fold_left_ext.
    intros acc sb _. unfold scatter_step, fkey, frng, fsrc, fshape. cbn zeta.
    now rewrite fuse_selector_eq.
  Qed.

  Lemma fuse_core_indices : indices G R (fuse_core G R x [g]) = nixs.
  Proof. reflexivity. Qed.
  Lemma fuse_core_charge : charge G R (fuse_core G R x [g]) = charge G R x.
  Proof. reflexivity. Qed.

  (* what the extent table knows about the sub-sector of a stored sector *)
  Lemma ext_facts s : In s secs ->
    exists e, lookup (ceqb G) (gc s) ext = Some e /\ NoDup (map fst e) /\
      nsum (map snd e) = size_of G fi (gc s) /\ lookup keq (sub s) e = Some (gs s) /\
      Forall (fun p => exists s', In s' secs /\ fst p = sub s' /\ snd p = gs s' /\ gc s' = gc s) e.
  Proof.
    intros Hs.
    destruct (fused_extents_complete G GL OL ixs secs g Hsecs' Hsing' s Hs) as (Hin & e & He & Hsub).
    unfold icharges in Hin. apply in_map_iff in Hin. destruct Hin as ([c d] & Hc & Hin). cbn [fst] in Hc. subst c.
    destruct (fused_extents_partition G GL OL ixs secs g Hix' Hsecs' Hsing' _ _
                (fused_isub G ixs secs g Hsing') _ _ Hin) as (Hsz & e' & He' & Hsum & Hsort & Hall).
    rewrite He in He'. inversion He'. subst e'. exists e. split; [exact He|]. split.
    - apply (SS_NoDup sec_ltb); [apply (Hso G GL OL)|exact Hsort].
    - split; [now rewrite Hsum, Hsz|]. split; [exact Hsub|exact Hall].
  Qed.

  Lemma sub_range_eq c e ss : lookup (ceqb G) c ext = Some e ->
    sub_range G fi c ss = match lookup keq ss (ranges_from 0 e) with Some r => r | None => (0, 0) end.
  Proof.
    intros He. unfold sub_range. rewrite (fused_isub G ixs secs g Hsing'), He. reflexivity.
  Qed.

  Lemma rng_spec s : In s secs ->
    exists e st, lookup (ceqb G) (gc s) ext = Some e /\
      lookup keq (sub s) (ranges_from 0 e) = Some (st, gs s) /\
      sub_range G fi (gc s) (sub s) = (st, gs s) /\
      st + gs s <= size_of G fi (gc s).
  Proof.
    intros Hs. destruct (ext_facts s Hs) as (e & He & Hnd & Hsum & Hsub & _).
    destruct (ranges_partition keq Hkeq e Hnd) as (Hb & Hnone & _).
    destruct (lookup keq (sub s) (ranges_from 0 e)) as [[st len]|] eqn:E.
    - destruct (Hb _ _ E) as [Hle Hl]. cbn [fst snd] in *. rewrite Hsub in Hl. inversion Hl. subst len.
      exists e, st. split; [exact He|]. split; [exact E|]. split; [|lia].
      rewrite (sub_range_eq _ _ _ He), E. reflexivity.
    - apply Hnone in E. rewrite Hsub in E. discriminate.
  Qed.

  Lemma take_axes_length {A} (d : A) l axes : length (take_axes d l axes) = length axes.
  Proof. unfold take_axes. apply map_length. Qed.

  Lemma NS_inj s s' : length s = n -> length s' = n -> NS s = NS s' -> sub s = sub s' -> s = s'.
  Proof.
    intros Hl Hl' HNS Hsub.
    pose proof Pperm as Hp. pose proof Plen as Hpl.
    apply (permuted_inj idc perm); [exact Hp|lia|lia|].
    rewrite !NS_eq in HNS. apply app_inv_len in HNS; [|now rewrite !take_axes_length].
    destruct HNS as [Hb Ha]. inversion Ha as [[Hc Ha']].
    unfold permuted. rewrite Peq, !map_app.
    unfold group_subsector, take_axes in *. now rewrite Hb, Ha', Hsub.
  Qed.

  Lemma NS_gc s s' : NS s = NS s' -> gc s = gc s'.
  Proof.
    intros HNS. rewrite !NS_eq in HNS. apply app_inv_len in HNS; [|now rewrite !take_axes_length].
    destruct HNS as [_ Ha]. now inversion Ha.
  Qed.

  Lemma pos_lt_shape k : (exists s, k = NS s) -> pos < length (fshape k).
  Proof.
    intros (s & ->). unfold fshape. rewrite block_shape_nixs, app_length. cbn [length].
    rewrite map_length, len_before. lia.
  Qed.

  Lemma nth_pos_shape s : nth pos (fshape (NS s)) 0 = size_of G fi (gc s).
  Proof.
    unfold fshape. rewrite block_shape_nixs. apply nth_middle_len. rewrite map_length. apply len_before.
  Qed.

  Lemma set_pos_shape s v : set_nth (fshape (NS s)) pos v = map (sz s) before ++ v :: map (sz s) after.
  Proof.
    unfold fshape. rewrite block_shape_nixs. apply set_nth_middle. rewrite map_length. apply len_before.
  Qed.

  Lemma gs_eq s : gs s = shape_size (map (sz s) g).
  Proof. reflexivity. Qed.

  Lemma tshape_perm s b : In (s, b) (blocks G R x) ->
    permuted 0 (tshape b) perm = map (sz s) before ++ map (sz s) g ++ map (sz s) after.
  Proof.
    intros Hin. destruct wf_parts as (_ & _ & H). destruct (H _ _ Hin) as (Hl & _ & Hsh & _).
    rewrite Hsh. unfold permuted. rewrite <- !map_app, <- Peq.
    apply map_ext_in. intros ax Hax. apply block_shape_ixs; [exact Hl|].
    now apply PIn.
  Qed.

  Lemma fsrc_ok s b : In (s, b) (blocks G R x) ->
    tshape (fsrc (s, b)) = set_nth (fshape (NS s)) pos (gs s) /\
    length (tdata (fsrc (s, b))) = shape_size (tshape (fsrc (s, b))).
  Proof.
    intros Hin. unfold fsrc. cbn [fst snd treshape tshape tdata]. split.
    - now rewrite set_pos_shape, FS_eq.
    - unfold ttranspose. rewrite length_tdata_build, (tshape_perm s b Hin), FS_eq.
      rewrite !shape_size_app. change (shape_size (gs s :: map (sz s) after)) with (gs s * shape_size (map (sz s) after)).
      rewrite gs_eq. reflexivity.
  Qed.

  Lemma blocks_NoDup : NoDup (blocks G R x).
  Proof. apply NoDup_map_fst_NoDup. apply wf_parts. Qed.

  Lemma fitem_ok sb : In sb (blocks G R x) -> item_ok R fkey frng fsrc fshape pos sb.
  Proof.
    destruct sb as [s b]. intros Hin. unfold item_ok, fkey, frng. cbn [fst snd].
    destruct (rng_spec s (In_secs s b Hin)) as (e & st & He & Hlk & Hr & Hle).
    rewrite Hr. cbn [fst snd]. split; [apply pos_lt_shape; now exists s|].
    split; [now rewrite nth_pos_shape|]. apply (fsrc_ok s b Hin).
  Qed.

  Lemma fitems_disj sb sb' : In sb (blocks G R x) -> In sb' (blocks G R x) -> sb <> sb' ->
    fkey sb = fkey sb' -> disj (frng sb) (frng sb').
  Proof.
    destruct sb as [s b], sb' as [s' b']. unfold fkey, frng. cbn [fst snd]. intros Hin Hin' Hne HNS.
    destruct wf_parts as (_ & Hnd & H).
    destruct (H _ _ Hin) as (Hl & _). destruct (H _ _ Hin') as (Hl' & _).
    assert (Hss : s <> s').
    { intros E. apply Hne. apply (NoDup_map_fst_inj (blocks G R x)); [exact Hnd|exact Hin|exact Hin'|exact E]. }
    assert (Hsub : sub s <> sub s') by (intros E; apply Hss; now apply NS_inj).
    pose proof (NS_gc _ _ HNS) as Hc. cbn beta in Hc.
    destruct (rng_spec s (In_secs s b Hin)) as (e & st & He & Hlk & Hr & _).
    destruct (rng_spec s' (In_secs s' b' Hin')) as (e' & st' & He' & Hlk' & Hr' & _).
    rewrite <- Hc in He'. rewrite He in He'. inversion He'. subst e'.
    destruct (ext_facts s (In_secs s b Hin)) as (e2 & He2 & Hnde & _). rewrite He in He2. inversion He2. subst e2.
    destruct (ranges_partition keq Hkeq e Hnde) as (_ & _ & Hdis & _).
    cbn beta. rewrite <- Hc in Hr'. rewrite <- Hc. rewrite Hr, Hr'. exact (Hdis _ _ _ _ Hlk Hlk' Hsub).
  Qed.

  Definition FB := blocks G R (fuse_core G R x [g]).

  Lemma FB_spec :
    NoDup (map fst FB) /\
    (forall k, In k (map fst FB) <-> exists sb, In sb (blocks G R x) /\ fkey sb = k) /\
    (forall k T, lookup keq k FB = Some T -> tshape T = fshape k) /\
    (forall sb, In sb (blocks G R x) -> exists T, lookup keq (fkey sb) FB = Some T /\
                                       tslice R T pos (fst (frng sb)) (snd (frng sb)) = fsrc sb) /\
    (forall k T st len, lookup keq k FB = Some T -> st + len <= nth pos (fshape k) 0 ->
       (forall sb, In sb (blocks G R x) -> fkey sb = k -> disj (st, len) (frng sb)) ->
       tslice R T pos st len = tzeros R (set_nth (fshape k) pos len)).
  Proof.
    unfold FB. rewrite fuse_core_blocks.
    apply (scatter_spec R keq Hkeq fkey frng fsrc fshape pos (blocks G R x) blocks_NoDup fitem_ok fitems_disj).
  Qed.

  (* ---------------- the unfuse side ---------------- *)
  Definition subshape (ss : list (C G)) : list nat :=
    map (fun p => size_of G (fst p) (snd p)) (List.combine subs ss).
  Definition piece (nsT : list (C G) * tensor R) (q : list (C G) * (nat * nat)) : list (C G) * tensor R :=
    (replace_with_seq (fst nsT) pos (fst q),
     treshape R (tslice R (snd nsT) pos (fst (snd q)) (snd (snd q)))
              (replace_with_seq (tshape (snd nsT)) pos (subshape (fst q)))).
  Definition pieces (nsT : list (C G) * tensor R) : list (list (C G) * tensor R) :=
    match lookup (ceqb G) (nth pos (fst nsT) idc) ext with
    | None => []
    | Some e => map (piece nsT) (ranges_from 0 e)
    end.
  Definition UB : list (list (C G) * tensor R) := flat_map pieces FB.

  Lemma nth_pos_nixs : nth pos nixs dflt = fi.
  Proof. rewrite nixs_eq. apply nth_middle_len. rewrite map_length. apply len_before. Qed.

  Lemma unfuse_eq : NoDup (map fst UB) ->
    a_unfuse G R (fuse_core G R x [g]) pos =
    Some (mkA G R (replace_with_seq nixs pos subs) (charge G R x) UB).
  Proof.
    intros Hnd.
    assert (Hsub : isub G (nth pos (indices G R (fuse_core G R x [g])) dflt) = Some (subs, ext)).
    { rewrite fuse_core_indices, nth_pos_nixs. apply fused_isub. exact Hsing'. }
    unfold a_unfuse. rewrite Hsub. f_equal. rewrite fuse_core_indices, fuse_core_charge. f_equal.
    fold FB. rewrite <- (fold_dset_fresh keq Hkeq UB Hnd). unfold UB. rewrite fold_left_flat_map.
    apply fold_left_ext. intros acc sb _. unfold pieces. cbn zeta.
    destruct (lookup (ceqb G) (nth pos (fst sb) idc) ext) as [e|]; [|reflexivity].
    rewrite fold_left_map. apply fold_left_ext. intros acc2 [ss [st len]] _. reflexivity.
  Qed.

  Lemma nth_pos_NS s : nth pos (NS s) idc = gc s.
  Proof. rewrite NS_eq. apply nth_middle_len. rewrite take_axes_length. apply len_before. Qed.

  Lemma FB_entry ns T : In (ns, T) FB ->
    exists s b e, In (s, b) (blocks G R x) /\ ns = NS s /\
      lookup (ceqb G) (nth pos ns idc) ext = Some e /\ NoDup (map fst e) /\
      nsum (map snd e) = size_of G fi (gc s) /\
      Forall (fun p => exists s', In s' secs /\ fst p = sub s' /\ snd p = gs s' /\ gc s' = gc s) e /\
      lookup keq ns FB = Some T /\ tshape T = fshape ns.
  Proof.
    intros Hin. destruct FB_spec as (Hnd & Hkeys & Hshape & _).
    assert (Hk : In ns (map fst FB)) by (apply in_map_iff; exists (ns, T); now split).
    apply Hkeys in Hk. destruct Hk as ([s b] & Hsb & Hkey). unfold fkey in Hkey. cbn [fst] in Hkey.
    destruct (ext_facts s (In_secs s b Hsb)) as (e & He & Hnde & Hsum & _ & Hall).
    assert (Hlk : lookup keq ns FB = Some T) by (now apply (In_lookup keq Hkeq)).
    exists s, b, e. split; [exact Hsb|]. split; [now symmetry|]. subst ns.
    rewrite nth_pos_NS. repeat split; try assumption. now apply Hshape.
  Qed.

  Lemma replace_NS s ss : replace_with_seq (NS s) pos ss = take_axes idc s before ++ ss ++ take_axes idc s after.
  Proof. rewrite NS_eq. apply replace_with_seq_middle. rewrite take_axes_length. apply len_before. Qed.

  Lemma permuted_eq {A} (d : A) l : permuted d l perm = take_axes d l before ++ take_axes d l g ++ take_axes d l after.
  Proof. unfold permuted, take_axes. now rewrite Peq, !map_app. Qed.

  Lemma sub_length s : length (sub s) = length g.
  Proof. apply take_axes_length. Qed.

  Lemma piece_keys nsT e : map fst (map (piece nsT) (ranges_from 0 e)) =
                           map (fun ss => replace_with_seq (fst nsT) pos ss) (map fst e).
  Proof. rewrite <- (ranges_keys 0 e), !map_map. reflexivity. Qed.

  Lemma key_unique ns1 T1 ns2 T2 k : In (ns1, T1) FB -> In (ns2, T2) FB ->
    In k (map fst (pieces (ns1, T1))) -> In k (map fst (pieces (ns2, T2))) -> ns1 = ns2.
  Proof.
    intros H1 H2 Hk1 Hk2.
    destruct (FB_entry _ _ H1) as (s1 & b1 & e1 & _ & -> & He1 & _ & _ & Hall1 & _).
    destruct (FB_entry _ _ H2) as (s2 & b2 & e2 & _ & -> & He2 & _ & _ & Hall2 & _).
    unfold pieces in Hk1, Hk2. cbn [fst] in Hk1, Hk2. rewrite He1 in Hk1. rewrite He2 in Hk2.
    rewrite piece_keys in Hk1, Hk2. cbn [fst] in Hk1, Hk2.
    apply in_map_iff in Hk1. destruct Hk1 as (ss1 & <- & Hss1).
    apply in_map_iff in Hk2. destruct Hk2 as (ss2 & Heq & Hss2).
    apply in_map_iff in Hss1. destruct Hss1 as (p1 & <- & Hp1).
    apply in_map_iff in Hss2. destruct Hss2 as (p2 & <- & Hp2).
    rewrite Forall_forall in Hall1, Hall2.
    destruct (Hall1 _ Hp1) as (s1' & _ & Hf1 & _ & Hc1). destruct (Hall2 _ Hp2) as (s2' & _ & Hf2 & _ & Hc2).
    rewrite !replace_NS in Heq.
    apply app_inv_len in Heq; [|now rewrite !take_axes_length]. destruct Heq as [Hb Heq].
    apply app_inv_len in Heq; [|rewrite Hf1, Hf2; cbn beta; now rewrite !sub_length]. destruct Heq as [Hss Ha].
    rewrite Hf1, Hf2 in Hss. cbn beta in Hss.
    destruct (subsector_determines G ixs secs g Hsecs' _ _ Hss) as [Hc _].
    cbn beta in Hc1, Hc2. rewrite !NS_eq. rewrite Hb, Ha. do 2 f_equal. congruence.
  Qed.

  Lemma replace_inj {A} (l : list A) i (s s' : list A) : replace_with_seq l i s = replace_with_seq l i s' -> s = s'.
  Proof.
    unfold replace_with_seq. intros H. apply app_inv_head in H. now apply app_inv_tail in H.
  Qed.

  Lemma UB_NoDup : NoDup (map fst UB).
  Proof.
    unfold UB. rewrite map_flat_map. destruct FB_spec as (Hnd & _).
    apply NoDup_flat_map.
    - now apply NoDup_map_fst_NoDup.
    - intros [ns T] Hin. destruct (FB_entry _ _ Hin) as (s & b & e & _ & _ & He & Hnde & _).
      unfold pieces. cbn [fst]. rewrite He, piece_keys. cbn [fst].
      apply NoDup_map_inj_on; [|exact Hnde]. intros ss ss' _ _. apply replace_inj.
    - intros [ns1 T1] [ns2 T2] k H1 H2 Hk1 Hk2.
      assert (ns1 = ns2) by (exact (key_unique _ _ _ _ k H1 H2 Hk1 Hk2)). subst ns2.
      apply (NoDup_map_fst_inj FB); [exact Hnd|exact H1|exact H2|reflexivity].
  Qed.

  Lemma subshape_sub s : subshape (sub s) = map (sz s) g.
  Proof.
    unfold subshape, subs_of, group_subsector, take_axes. rewrite combine_map_map, map_map. reflexivity.
  Qed.

  (* every stored block comes back, transposed by fuse_perm, bit for bit *)
  Lemma unfuse_own s b : In (s, b) (blocks G R x) -> In (permuted idc s perm, ttranspose R b perm) UB.
  Proof.
    intros Hin. destruct FB_spec as (_ & _ & Hshape & Hown & _).
    destruct (Hown _ Hin) as (T & HT & Hsl). unfold fkey, frng in *. cbn [fst snd] in *.
    destruct (rng_spec s (In_secs s b Hin)) as (e & st & He & Hlk & Hr & _).
    rewrite Hr in Hsl. cbn [fst snd] in Hsl.
    unfold UB. apply in_flat_map. exists (NS s, T). split; [now apply (lookup_In keq Hkeq)|].
    unfold pieces. cbn [fst]. rewrite nth_pos_NS, He. apply in_map_iff.
    exists (sub s, (st, gs s)). split; [|now apply (lookup_In keq Hkeq)].
    unfold piece. cbn [fst snd]. f_equal.
    - rewrite replace_NS, permuted_eq. reflexivity.
    - rewrite Hsl. rewrite (Hshape _ _ HT). unfold fshape. rewrite block_shape_nixs.
      rewrite replace_with_seq_middle by (rewrite map_length; apply len_before).
      rewrite subshape_sub, <- (tshape_perm s b Hin). reflexivity.
  Qed.

  Lemma ranges_lookup_In e ss r : NoDup (map fst e) -> In (ss, r) (ranges_from 0 e) ->
    lookup keq ss (ranges_from 0 e) = Some r.
  Proof. intros Hnd Hin. apply (In_lookup keq Hkeq); [now apply ranges_NoDup|exact Hin]. Qed.

  (* every other block of the result is exactly zero *)
  Lemma unfuse_other k t : In (k, t) UB ->
    (exists s b, In (s, b) (blocks G R x) /\ k = permuted idc s perm /\ t = ttranspose R b perm) \/
    Forall (fun v => v = r0 R) (tdata t).
  Proof.
    intros Hin. pose proof Hin as Hin0. unfold UB in Hin. apply in_flat_map in Hin.
    destruct Hin as ([ns T] & HFB & Hp).
    destruct (FB_entry _ _ HFB) as (s0 & b0 & e & Hsb0 & -> & He & Hnde & Hsum & Hall & HlkT & HshT).
    unfold pieces in Hp. cbn [fst] in Hp. rewrite He in Hp. apply in_map_iff in Hp.
    destruct Hp as ([ss [st len]] & Hpiece & Hq). unfold piece in Hpiece. cbn [fst snd] in Hpiece.
    destruct (existsb (fun sb => keq (NS (fst sb)) (NS s0) && keq (sub (fst sb)) ss) (blocks G R x)) eqn:Eex.
    - left. apply existsb_exists in Eex. destruct Eex as ([s b] & Hsb & Hand). cbn [fst] in Hand.
      apply andb_true_iff in Hand. destruct Hand as [H1 H2]. apply Hkeq in H1. apply Hkeq in H2.
      exists s, b. split; [exact Hsb|].
      pose proof (unfuse_own s b Hsb) as Hown.
      assert (Hk : k = permuted idc s perm).
      { apply (f_equal fst) in Hpiece. cbn [fst] in Hpiece.
        rewrite <- Hpiece, <- H1, <- H2, replace_NS, permuted_eq. reflexivity. }
      split; [exact Hk|]. subst k.
      assert (E : (permuted idc s perm, t) = (permuted idc s perm, ttranspose R b perm)).
      { apply (NoDup_map_fst_inj UB); [exact UB_NoDup|exact Hin0|exact Hown|reflexivity]. }
      now inversion E.
    - right. destruct FB_spec as (_ & _ & _ & _ & Hzero).
      assert (Hz : tslice R T pos st len = tzeros R (set_nth (fshape (NS s0)) pos len)).
      { apply (Hzero _ _ _ _ HlkT).
        - rewrite nth_pos_shape, <- Hsum. apply ranges_bounds in Hq. lia.
        - intros [s b] Hsb Hkey. unfold fkey, frng in *. cbn [fst snd] in *.
          assert (Hne : ss <> sub s).
          { intros ->. assert (Hf : existsb (fun sb => keq (NS (fst sb)) (NS s0) && keq (sub (fst sb)) (sub s)) (blocks G R x) = true).
            { apply existsb_exists. exists (s, b). split; [exact Hsb|]. cbn [fst]. rewrite Hkey.
              apply andb_true_iff. split; apply Hkeq; reflexivity. }
            rewrite Hf in Eex. discriminate. }
          destruct (rng_spec s (In_secs s b Hsb)) as (e' & st' & He' & Hlk' & Hr' & _).
          pose proof (NS_gc _ _ Hkey) as Hc. cbn beta in Hc. rewrite nth_pos_NS in He.
          rewrite Hc, He in He'. inversion He'. subst e'. rewrite Hr'.
          destruct (ranges_partition keq Hkeq e Hnde) as (_ & _ & Hdis & _).
          exact (Hdis _ _ _ _ (ranges_lookup_In _ _ _ Hnde Hq) Hlk' Hne). }
      apply (f_equal snd) in Hpiece. cbn [snd] in Hpiece. rewrite <- Hpiece, Hz.
      cbn [treshape tdata]. apply all_zero_tzeros.
  Qed.

  (* ---------------- the round trip ---------------- *)
  Definition unfused : aarray G R := mkA G R (permuted dflt ixs perm) (charge G R x) UB.

  Lemma unfused_indices_eq : replace_with_seq nixs pos subs = permuted dflt ixs perm.
  Proof.
    rewrite nixs_eq, replace_with_seq_middle by (rewrite map_length; apply len_before).
    rewrite permuted_eq. reflexivity.
  Qed.

  Theorem unfuse_fuse_eq : a_unfuse G R (fuse_core G R x [g]) pos = Some unfused.
  Proof. rewrite (unfuse_eq UB_NoDup), unfused_indices_eq. reflexivity. Qed.

  Theorem unfuse_fuse_blocks s b : In (s, b) (blocks G R x) ->
    lookup keq (permuted idc s perm) (blocks G R unfused) = Some (ttranspose R b perm).
  Proof.
    intros Hin. cbn [unfused blocks]. apply (In_lookup keq Hkeq); [exact UB_NoDup|now apply unfuse_own].
  Qed.

  Theorem unfuse_fuse_extra k t : In (k, t) (blocks G R unfused) ->
    (exists s b, In (s, b) (blocks G R x) /\ k = permuted idc s perm /\ t = ttranspose R b perm) \/
    Forall (fun v => v = r0 R) (tdata t).
  Proof. cbn [unfused blocks]. apply unfuse_other. Qed.

  Lemma nth_all_eq {A} (z : A) l k : Forall (fun v => v = z) l -> nth k l z = z.
  Proof.
    revert k. induction l as [|a l IH]; intros k H; [now destruct k|].
    inversion H; subst. destruct k; [reflexivity|]. cbn [nth]. now apply IH.
  Qed.

  Lemma block_shape_length s : length s = n -> length (block_shape G ixs s) = n.
  Proof. intros H. unfold block_shape. rewrite map_length, combine_length. lia. Qed.

  Lemma coords_inb cs b : coords_ok G ixs cs = true -> In (map fst cs, b) (blocks G R x) ->
    inb (tshape b) (map snd cs) = true.
  Proof.
    intros Hc Hin. unfold coords_ok in Hc. apply andb_true_iff in Hc. destruct Hc as [Hl Hall].
    apply Nat.eqb_eq in Hl. rewrite forallb_forall in Hall. unfold coord in *.
    destruct wf_parts as (_ & _ & H). destruct (H _ _ Hin) as (Hls & _ & Hsh & _).
    apply inb_nth. rewrite Hsh, (block_shape_length _ Hls), map_length.
    split; [lia|]. intros k Hk. rewrite (block_shape_ixs _ k Hls) by lia. unfold sz.
    specialize (Hall (nth k ixs dflt, nth k cs (idc, 0))). cbn [fst snd] in Hall.
    change 0 with (snd (idc, 0)) at 1. rewrite map_nth.
    change idc with (fst (idc, 0)) at 2. rewrite map_nth.
    apply Nat.ltb_lt. apply Hall. rewrite <- combine_nth by (symmetry; exact Hl).
    apply nth_In. rewrite combine_length. lia.
  Qed.

  Lemma permuted_map {A B} (f : A -> B) (d : A) l : map f (permuted d l perm) = permuted (f d) (map f l) perm.
  Proof.
    unfold permuted. rewrite map_map. apply map_ext. intros p. symmetry. apply map_nth.
  Qed.

  (* value-level statement: the unfused array is the original with its axes permuted *)
  Theorem unfuse_fuse_sem cs : coords_ok G ixs cs = true ->
    sem G R unfused (permuted (idc, 0) cs perm) = sem G R x cs.
  Proof.
    intros Hc. unfold sem. cbn [unfused blocks].
    rewrite (permuted_map fst), (permuted_map snd). cbn [fst snd].
    assert (Hl : length (map fst cs) = n).
    { unfold coords_ok in Hc. apply andb_true_iff in Hc. destruct Hc as [Hl _].
      apply Nat.eqb_eq in Hl. now rewrite map_length. }
    destruct (lookup keq (map fst cs) (blocks G R x)) as [b|] eqn:E.
    - apply (lookup_In keq Hkeq) in E.
      rewrite (In_lookup keq Hkeq _ _ _ UB_NoDup (unfuse_own _ _ E)).
      destruct wf_parts as (_ & _ & H). destruct (H _ _ E) as (Hls & _ & Hsh & _).
      apply get_ttranspose; [exact Pperm| |now apply coords_inb].
      rewrite Hsh, (block_shape_length _ Hls), Plen. reflexivity.
    - destruct (lookup keq (permuted idc (map fst cs) perm) UB) as [t|] eqn:E2; [|reflexivity].
      apply (lookup_In keq Hkeq) in E2. destruct (unfuse_other _ _ E2) as [(s & b & Hin & Hk & _)|Hz].
      + exfalso. destruct wf_parts as (_ & Hnd & H). destruct (H _ _ Hin) as (Hls & _).
        apply permuted_inj in Hk; [|exact Pperm|rewrite Plen; lia|rewrite Plen; lia].
        subst s. apply (In_lookup keq Hkeq _ _ _ Hnd) in Hin. rewrite Hin in E. discriminate.
      + unfold get. now apply nth_all_eq.
  Qed.
End RoundTrip.

(* ------------------------------------------------------------------ *)
(* Statements in the form used by Props/C05.v *)

Definition tables_ok (G : Symmetry) (ixs : list (index G)) : Prop :=
  Forall (fun ix => cm_ok G (chargemap G ix) = true) ixs.
Definition secs_in_tables (G : Symmetry) (ixs : list (index G)) (secs : list (list (C G))) (g : list nat) : Prop :=
  forall s, In s secs -> forall ax, In ax g ->
    mem (ceqb G) (nth ax s (ident G)) (icharges G (nth ax ixs (dflt_index G))) = true.
(* the signed combination of the sub-charges relative to the direction of the group's first axis *)
Definition signed_combination (G : Symmetry) (ixs : list (index G)) (g : list nat) (s : list (C G)) : C G :=
  combine G (map (fun ax => sign G (nth ax s (ident G))
      (negb (Bool.eqb (idual G (nth (hd 0 g) ixs (dflt_index G))) (idual G (nth ax ixs (dflt_index G)))))) g).
Definition subsizes_product (G : Symmetry) (ixs : list (index G)) (g : list nat) (s : list (C G)) : nat :=
  nprod (map (fun ax => size_of G (nth ax ixs (dflt_index G)) (nth ax s (ident G))) g).

Section Statements.
  Context (G : Symmetry) (GL : GroupLaws G) (OL : OrderLaws G).
  Context (ixs : list (index G)) (secs : list (list (C G))) (g : list nat).
  Context (Hix : tables_ok G ixs) (Hsecs : secs_in_tables G ixs secs g) (Hsing : is_singlet g = false).
  Notation fi := (fused_index G ixs secs g).
  Notation keq := (list_eqb (ceqb G)).
  Notation sec_ltb := (list_ltb (cltb G) (ceqb G)).

  Theorem stmt_A1 :
    StronglySorted (ltP (cltb G)) (icharges G fi) /\
    Forall (fun p => valid G (fst p) = true /\ 0 < snd p) (chargemap G fi).
  Proof. apply fused_chargemap_sorted; assumption. Qed.

  Theorem stmt_A2 :
    exists ext, isub G fi = Some (map (fun ax => nth ax ixs (dflt_index G)) g, ext) /\
                NoDup (map fst ext) /\ Permutation (map fst ext) (icharges G fi).
  Proof. apply fused_extent_keys; assumption. Qed.

  Theorem stmt_A3 : forall c d, In (c, d) (chargemap G fi) ->
    size_of G fi c = d /\
    exists subs ext e, isub G fi = Some (subs, ext) /\ lookup (ceqb G) c ext = Some e /\
      nsum (map snd e) = d /\
      StronglySorted (ltP sec_ltb) (map fst e) /\ NoDup (map fst e) /\
      Forall (fun p => exists s, In s secs /\ fst p = group_subsector G s g /\
                                 snd p = subsizes_product G ixs g s /\
                                 signed_combination G ixs g s = c) e.
  Proof.
    intros c d Hin.
    destruct (fused_extents_partition G GL OL ixs secs g Hix Hsecs Hsing _ _ (fused_isub G ixs secs g Hsing) c d Hin)
      as (Hsz & e & He & Hsum & Hsort & Hall).
    split; [exact Hsz|]. exists (subs_of G ixs g), (extF G (SI G ixs secs g)), e.
    split; [apply fused_isub; exact Hsing|]. split; [exact He|]. split; [exact Hsum|]. split; [exact Hsort|].
    split; [apply (SS_NoDup sec_ltb); [apply (Hso G GL OL)|exact Hsort]|].
    eapply Forall_impl; [|exact Hall]. intros p (s & Hs & Hf & Hsz' & Hc). exists s.
    repeat split; try assumption. rewrite <- Hc. unfold group_charge. now rewrite Hsing.
  Qed.

  Theorem stmt_A3_complete : forall s, In s secs ->
    exists subs ext e, isub G fi = Some (subs, ext) /\
      In (signed_combination G ixs g s) (icharges G fi) /\
      lookup (ceqb G) (signed_combination G ixs g s) ext = Some e /\
      lookup keq (group_subsector G s g) e = Some (subsizes_product G ixs g s).
  Proof.
    intros s Hs.
    destruct (fused_extents_complete G GL OL ixs secs g Hsecs Hsing s Hs) as (Hin & e & He & Hl).
    assert (E : group_charge G ixs s g = signed_combination G ixs g s).
    { unfold group_charge. now rewrite Hsing. }
    rewrite E in *. exists (subs_of G ixs g), (extF G (SI G ixs secs g)), e.
    split; [apply fused_isub; exact Hsing|]. repeat split; assumption.
  Qed.

  Theorem stmt_wf : Forall (fun ix => wf_index G ix = true) ixs -> g <> [] -> wf_index G fi = true.
  Proof. apply fused_index_wf; assumption. Qed.

  (* Part B for the fused index: the ranges that sub_range assigns to the
     sub-sectors of one fused charge tile [0, size) exactly *)
  Theorem stmt_B_fused : forall c d, In (c, d) (chargemap G fi) ->
    exists subs ext e, isub G fi = Some (subs, ext) /\ lookup (ceqb G) c ext = Some e /\
      (forall ss, In ss (map fst e) ->
         fst (sub_range G fi c ss) + snd (sub_range G fi c ss) <= d /\
         lookup keq ss e = Some (snd (sub_range G fi c ss))) /\
      (forall ss ss', In ss (map fst e) -> In ss' (map fst e) -> ss <> ss' ->
         disj (sub_range G fi c ss) (sub_range G fi c ss')) /\
      (forall o, o < d -> exists ss, In ss (map fst e) /\
         fst (sub_range G fi c ss) <= o < fst (sub_range G fi c ss) + snd (sub_range G fi c ss)).
  Proof.
    intros c d Hin. destruct (stmt_A3 c d Hin) as (_ & subs & ext & e & Hsub & He & Hsum & _ & Hnd & _).
    exists subs, ext, e. split; [exact Hsub|]. split; [exact He|].
    destruct (ranges_partition keq (Hke G GL) e Hnd) as (Hb & Hnone & Hdis & Hcov & _).
    assert (Hsr : forall ss, sub_range G fi c ss =
              match lookup keq ss (ranges_from 0 e) with Some r => r | None => (0, 0) end).
    { intros ss. unfold sub_range. rewrite Hsub, He. reflexivity. }
    assert (Hsome : forall ss, In ss (map fst e) -> exists r, lookup keq ss (ranges_from 0 e) = Some r).
    { intros ss Hss. destruct (lookup keq ss (ranges_from 0 e)) as [r|] eqn:E; [now exists r|].
      apply Hnone in E. apply (lookup_None_iff keq (Hke G GL)) in E. contradiction. }
    split; [|split].
    - intros ss Hss. destruct (Hsome ss Hss) as (r & Hr). rewrite Hsr, Hr.
      destruct (Hb _ _ Hr) as [H1 H2]. rewrite Hsum in H1. now split.
    - intros ss ss' Hss Hss' Hne. destruct (Hsome ss Hss) as (r & Hr). destruct (Hsome ss' Hss') as (r' & Hr').
      rewrite !Hsr, Hr, Hr'. exact (Hdis _ _ _ _ Hr Hr' Hne).
    - intros o Ho. rewrite <- Hsum in Ho. destruct (Hcov o Ho) as (ss & r & Hr & Hor).
      exists ss. rewrite Hsr, Hr. split; [|exact Hor].
      apply (lookup_In keq (Hke G GL)) in Hr. apply (in_map fst) in Hr. rewrite ranges_keys in Hr. exact Hr.
  Qed.
End Statements.

(* (A4) holds for every group, singlet or not *)
Theorem stmt_A4 (G : Symmetry) (ixs : list (index G)) (secs : list (list (C G))) (g : list nat) :
  idual G (fused_index G ixs secs g) = idual G (nth (hd 0 g) ixs (dflt_index G)).
Proof. unfold fused_index. destruct (is_singlet g); reflexivity. Qed.

(* Part C in one statement *)
Definition roundtrip_single_group (G : Symmetry) (R : Ring) (x : aarray G R) (g : list nat) : Prop :=
  let perm := fuse_perm (ndim G R x) [g] in
  exists y,
    a_unfuse G R (fuse_core G R x [g]) (fuse_position [g]) = Some y /\
    indices G R y = permuted (dflt_index G) (indices G R x) perm /\
    charge G R y = charge G R x /\
    (forall s b, In (s, b) (blocks G R x) ->
       lookup (list_eqb (ceqb G)) (permuted (ident G) s perm) (blocks G R y) = Some (ttranspose R b perm)) /\
    (forall k t, In (k, t) (blocks G R y) ->
       (exists s b, In (s, b) (blocks G R x) /\ k = permuted (ident G) s perm /\ t = ttranspose R b perm) \/
       Forall (fun v => v = r0 R) (tdata t)) /\
    (forall cs, coords_ok G (indices G R x) cs = true ->
       sem G R y (permuted (ident G, 0) cs perm) = sem G R x cs).

Theorem stmt_C (G : Symmetry) (R : Ring) : GroupLaws G -> OrderLaws G ->
  forall (x : aarray G R) (g : list nat),
    wf_array G R x = true -> NoDup g -> Forall (fun ax => ax < ndim G R x) g -> 2 <= length g ->
    roundtrip_single_group G R x g.
Proof.
  intros GL OL x g Hwf Hnd Hrng Hlen. unfold roundtrip_single_group, ndim. cbn zeta.
  exists (unfused G R x g). split; [exact (unfuse_fuse_eq G R GL OL x g Hwf Hnd Hrng Hlen)|].
  split; [reflexivity|]. split; [reflexivity|]. split; [|split].
  - exact (unfuse_fuse_blocks G R GL OL x g Hwf Hnd Hrng Hlen).
  - exact (unfuse_fuse_extra G R GL OL x g Hwf Hnd Hrng Hlen).
  - exact (unfuse_fuse_sem G R GL OL x g Hwf Hnd Hrng Hlen).
Qed.

(* a_fuse with one non-empty group is fuse_core *)
Lemma a_fuse_single (G : Symmetry) (R : Ring) (x : aarray G R) (g : list nat) :
  g <> [] -> a_fuse G R x [g] = fuse_core G R x [g].
Proof. destruct g as [|a g]; [congruence|]. intros _. reflexivity. Qed.

Theorem stmt_C_a_fuse (G : Symmetry) (R : Ring) : GroupLaws G -> OrderLaws G ->
  forall (x : aarray G R) (g : list nat),
    wf_array G R x = true -> NoDup g -> Forall (fun ax => ax < ndim G R x) g -> 2 <= length g ->
    a_fuse G R x [g] = fuse_core G R x [g] /\ roundtrip_single_group G R x g.
Proof.
  intros GL OL x g Hwf Hnd Hrng Hlen. split; [|now apply stmt_C].
  apply a_fuse_single. intros ->. cbn in Hlen. lia.
Qed.

(* where the elements land: the fused block, cut at the range the fused index
   assigns to a stored sector's sub-sector, is that sector's block (transposed
   by fuse_perm, reshaped); cut at a range no stored sector owns it is zero *)
Theorem stmt_layout (G : Symmetry) (R : Ring) : GroupLaws G -> OrderLaws G ->
  forall (x : aarray G R) (g : list nat),
    wf_array G R x = true -> NoDup g -> Forall (fun ax => ax < ndim G R x) g -> 2 <= length g ->
    let ixs := indices G R x in
    let xf := fuse_core G R x [g] in
    let pos := fuse_position [g] in
    let fi := fused_index G ixs (sectors G R x) g in
    NoDup (sectors G R xf) /\
    (forall k, In k (sectors G R xf) <-> exists s, In s (sectors G R x) /\ fused_sector G ixs [g] s = k) /\
    (forall k T, lookup (list_eqb (ceqb G)) k (blocks G R xf) = Some T -> tshape T = block_shape G (indices G R xf) k) /\
    (forall s b, In (s, b) (blocks G R x) ->
       exists T, lookup (list_eqb (ceqb G)) (fused_sector G ixs [g] s) (blocks G R xf) = Some T /\
         let r := sub_range G fi (group_charge G ixs s g) (group_subsector G s g) in
         tslice R T pos (fst r) (snd r) =
         treshape R (ttranspose R b (fuse_perm (ndim G R x) [g])) (fused_block_shape G ixs [g] s)) /\
    (forall k T st len, lookup (list_eqb (ceqb G)) k (blocks G R xf) = Some T ->
       st + len <= nth pos (block_shape G (indices G R xf) k) 0 ->
       (forall s, In s (sectors G R x) -> fused_sector G ixs [g] s = k ->
          disj (st, len) (sub_range G fi (group_charge G ixs s g) (group_subsector G s g))) ->
       tslice R T pos st len = tzeros R (set_nth (block_shape G (indices G R xf) k) pos len)).
Proof.
  intros GL OL x g Hwf Hnd Hrng Hlen. cbn zeta.
  destruct (FB_spec G R GL OL x g Hwf Hnd Hrng Hlen) as (H1 & H2 & H3 & H4 & H5).
  split; [exact H1|]. split; [|split; [exact H3|split]].
  - intros k. unfold sectors at 1. fold (FB G R x g). rewrite H2. split.
    + intros ([s b] & Hin & Hk). exists s. split; [|exact Hk]. unfold sectors. apply in_map_iff. now exists (s, b).
    + intros (s & Hs & Hk). unfold sectors in Hs. apply in_map_iff in Hs. destruct Hs as ([s' b] & <- & Hin).
      exists (s', b). now split.
  - intros s b Hin. exact (H4 _ Hin).
  - intros k T st len Hl Hfit Hall. apply (H5 k T st len Hl Hfit).
    intros [s b] Hin Hk. apply Hall; [|exact Hk]. unfold sectors. apply in_map_iff. now exists (s, b).
Qed.

(* ------------------------------------------------------------------ *)
(* Examples: the hypotheses of the theorems above are satisfiable on concrete,
   non-trivial arrays, and the model evaluates as the theorems say. *)
Definition zt (sh : list nat) (d : list Z) : tensor ZRing := @mkT ZRing sh d.

(* U1, rank 3, duals (+,-,+), charge 0; the valid sector (1,1,0) is missing *)
Definition ex3 : aarray U1 ZRing :=
  mkA U1 ZRing
    [Index U1 [(0%Z, 1); (1%Z, 2)] false None;
     Index U1 [(0%Z, 2); (1%Z, 1); (2%Z, 1)] true None;
     Index U1 [(0%Z, 2); (1%Z, 1)] false None]
    0%Z
    [([0; 0; 0]%Z, zt [1; 2; 2] [1; 2; 3; 4]%Z);
     ([0; 1; 1]%Z, zt [1; 1; 1] [5]%Z);
     ([1; 2; 1]%Z, zt [2; 1; 1] [6; 7]%Z)].

Example ex3_hyps :
  wf_array U1 ZRing ex3 = true /\ NoDup [0; 2] /\ Forall (fun ax => ax < ndim U1 ZRing ex3) [0; 2] /\ 2 <= length [0; 2].
Proof.
  split; [vm_compute; reflexivity|]. split; [repeat constructor; cbn; intuition lia|].
  split; [repeat constructor|cbn; lia].
Qed.

Example ex3_missing_sector :
  is_valid_sector U1 (duals U1 ZRing ex3) 0%Z [1; 1; 0]%Z = true /\
  mem (list_eqb Z.eqb) [1; 1; 0]%Z (sectors U1 ZRing ex3) = false.
Proof. split; vm_compute; reflexivity. Qed.

Example ex3_fused_index :
  fused_index U1 (indices U1 ZRing ex3) (sectors U1 ZRing ex3) [0; 2] =
  Index U1 [(0%Z, 2); (1%Z, 1); (2%Z, 2)] false
    (Some ([Index U1 [(0%Z, 1); (1%Z, 2)] false None; Index U1 [(0%Z, 2); (1%Z, 1)] false None],
           [(0%Z, [([0; 0]%Z, 2)]); (1%Z, [([0; 1]%Z, 1)]); (2%Z, [([1; 1]%Z, 2)])])).
Proof. vm_compute. reflexivity. Qed.

Example ex3_roundtrip :
  a_unfuse U1 ZRing (fuse_core U1 ZRing ex3 [[0; 2]]) 0 = Some (a_transpose U1 ZRing ex3 [0; 2; 1]) /\
  a_transpose U1 ZRing ex3 [0; 2; 1] =
  mkA U1 ZRing
    [Index U1 [(0%Z, 1); (1%Z, 2)] false None;
     Index U1 [(0%Z, 2); (1%Z, 1)] false None;
     Index U1 [(0%Z, 2); (1%Z, 1); (2%Z, 1)] true None]
    0%Z
    [([0; 0; 0]%Z, zt [1; 2; 2] [1; 3; 2; 4]%Z);
     ([0; 1; 1]%Z, zt [1; 1; 1] [5]%Z);
     ([1; 1; 2]%Z, zt [2; 1; 1] [6; 7]%Z)].
Proof. split; vm_compute; reflexivity. Qed.

Example ex3_theorem_applies : roundtrip_single_group U1 ZRing ex3 [0; 2].
Proof.
  destruct ex3_hyps as (H1 & H2 & H3 & H4).
  exact (stmt_C U1 ZRing U1_laws U1_order ex3 [0; 2] H1 H2 H3 H4).
Qed.

(* Z2, rank 4, charge 0.  Group (0,2): the sub-sector (1,1) is recorded because
   (1,0,1,0) is stored, but its sibling (1,1,1,1) is missing, so the fused block
   (0,1,1) holds a zero-filled sub-block and unfusing produces one extra block,
   which is exactly zero. *)
Definition i4 : index Z2 := Index Z2 [(0%Z, 1); (1%Z, 2)] false None.
Definition ex4 : aarray Z2 ZRing :=
  mkA Z2 ZRing [i4; i4; i4; i4] 0%Z
    [([0; 0; 0; 0]%Z, zt [1; 1; 1; 1] [7]%Z);
     ([0; 1; 0; 1]%Z, zt [1; 2; 1; 2] [1; 2; 3; 4]%Z);
     ([1; 0; 1; 0]%Z, zt [2; 1; 2; 1] [5; 6; 8; 9]%Z);
     ([0; 1; 1; 0]%Z, zt [1; 2; 2; 1] [10; 11; 12; 13]%Z)].

Example ex4_hyps :
  wf_array Z2 ZRing ex4 = true /\ NoDup [0; 2] /\ Forall (fun ax => ax < ndim Z2 ZRing ex4) [0; 2] /\ 2 <= length [0; 2].
Proof.
  split; [vm_compute; reflexivity|]. split; [repeat constructor; cbn; intuition lia|].
  split; [repeat constructor|cbn; lia].
Qed.

Example ex4_tables_hyps :
  tables_ok Z2 (indices Z2 ZRing ex4) /\
  secs_in_tables Z2 (indices Z2 ZRing ex4) (sectors Z2 ZRing ex4) [0; 2] /\ is_singlet [0; 2] = false.
Proof.
  split; [repeat constructor|]. split; [|reflexivity].
  intros s Hs ax Hax. cbn in Hs, Hax.
  destruct Hax as [<-|[<-|[]]]; destruct Hs as [<-|[<-|[<-|[<-|[]]]]]; reflexivity.
Qed.

Example ex4_fused_index :
  fused_index Z2 (indices Z2 ZRing ex4) (sectors Z2 ZRing ex4) [0; 2] =
  Index Z2 [(0%Z, 5); (1%Z, 2)] false
    (Some ([i4; i4], [(0%Z, [([0; 0]%Z, 1); ([1; 1]%Z, 4)]); (1%Z, [([0; 1]%Z, 2)])])) /\
  sub_range Z2 (fused_index Z2 (indices Z2 ZRing ex4) (sectors Z2 ZRing ex4) [0; 2]) 0%Z [1; 1]%Z = (1, 4).
Proof. split; vm_compute; reflexivity. Qed.

Example ex4_fused :
  blocks Z2 ZRing (fuse_core Z2 ZRing ex4 [[0; 2]]) =
  [([0; 0; 0]%Z, zt [5; 1; 1] [7; 5; 6; 8; 9]%Z);
   ([0; 1; 1]%Z, zt [5; 2; 2] [1; 2; 3; 4; 0; 0; 0; 0; 0; 0; 0; 0; 0; 0; 0; 0; 0; 0; 0; 0]%Z);
   ([1; 1; 0]%Z, zt [2; 2; 1] [10; 12; 11; 13]%Z)].
Proof. vm_compute. reflexivity. Qed.

Example ex4_roundtrip :
  a_unfuse Z2 ZRing (fuse_core Z2 ZRing ex4 [[0; 2]]) 0 =
  Some (mkA Z2 ZRing [i4; i4; i4; i4] 0%Z
    [([0; 0; 0; 0]%Z, zt [1; 1; 1; 1] [7]%Z);
     ([1; 1; 0; 0]%Z, zt [2; 2; 1; 1] [5; 6; 8; 9]%Z);
     ([0; 0; 1; 1]%Z, zt [1; 1; 2; 2] [1; 2; 3; 4]%Z);
     ([1; 1; 1; 1]%Z, zt [2; 2; 2; 2] [0; 0; 0; 0; 0; 0; 0; 0; 0; 0; 0; 0; 0; 0; 0; 0]%Z);
     ([0; 1; 1; 0]%Z, zt [1; 2; 2; 1] [10; 12; 11; 13]%Z)]) /\
  blocks Z2 ZRing (a_transpose Z2 ZRing ex4 [0; 2; 1; 3]) =
    [([0; 0; 0; 0]%Z, zt [1; 1; 1; 1] [7]%Z);
     ([0; 0; 1; 1]%Z, zt [1; 1; 2; 2] [1; 2; 3; 4]%Z);
     ([1; 1; 0; 0]%Z, zt [2; 2; 1; 1] [5; 6; 8; 9]%Z);
     ([0; 1; 1; 0]%Z, zt [1; 2; 2; 1] [10; 12; 11; 13]%Z)].
Proof. split; vm_compute; reflexivity. Qed.

Example ex4_theorem_applies : roundtrip_single_group Z2 ZRing ex4 [0; 2].
Proof.
  destruct ex4_hyps as (H1 & H2 & H3 & H4).
  exact (stmt_C Z2 ZRing Z2_laws Z2_order ex4 [0; 2] H1 H2 H3 H4).
Qed.

Example ex_ranges :
  ranges_from 0 [([0; 0]%Z, 1); ([1; 1]%Z, 4); ([2; 2]%Z, 3)] =
  [([0; 0]%Z, (0, 1)); ([1; 1]%Z, (1, 4)); ([2; 2]%Z, (5, 3))] /\
  NoDup (map fst [([0; 0]%Z, 1); ([1; 1]%Z, 4); ([2; 2]%Z, 3)]).
Proof.
  split; [reflexivity|]. repeat constructor; cbn; intuition congruence.
Qed.

(* wf of the fused index from wf of the sub-indices alone *)
Theorem stmt_wf2 (G : Symmetry) : GroupLaws G -> OrderLaws G ->
  forall (ixs : list (index G)) (secs : list (list (C G))) (g : list nat),
    Forall (fun ix => wf_index G ix = true) ixs -> secs_in_tables G ixs secs g -> 2 <= length g ->
    wf_index G (fused_index G ixs secs g) = true.
Proof.
  intros GL OL ixs secs g Hwf Hsecs Hlen.
  apply stmt_wf; try assumption.
  - eapply Forall_impl; [|exact Hwf]. intros ix. apply (wf_index_cm_ok G).
  - unfold is_singlet. apply Nat.eqb_neq. lia.
  - intros ->. cbn in Hlen. lia.
Qed.

Example ex4_fused_index_wf :
  wf_index Z2 (fused_index Z2 (indices Z2 ZRing ex4) (sectors Z2 ZRing ex4) [0; 2]) = true.
Proof.
  apply (stmt_wf2 Z2 Z2_laws Z2_order).
  - repeat constructor.
  - apply ex4_tables_hyps.
  - cbn. lia.
Qed.
