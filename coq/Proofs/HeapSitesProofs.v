(* Proofs/HeapSitesProofs.v — C14 tie: the mutation sites regenerated from the
   Python source satisfy the site policy (decided by computation on the
   generated, finite list). *)
From Coq Require Import String List Bool.
From SV Require Import Gen.HeapSites Model.HeapSitePolicy.
Import ListNotations.

Lemma no_operand_site : bad_sites = [].
Proof. vm_compute. reflexivity. Qed.

Lemma no_shared_dict_binding : bad_binds = [].
Proof. vm_compute. reflexivity. Qed.

Lemma flag_functions_modelled : unmodelled_flags = [].
Proof. vm_compute. reflexivity. Qed.

(* the scan is not vacuous *)
Example scan_nonempty : Nat.leb 100 (length sites) = true /\ Nat.leb 20 (length binds) = true /\ Nat.leb 20 (length flag_functions) = true.
Proof. vm_compute. auto. Qed.
