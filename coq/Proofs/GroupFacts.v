(* Proofs/GroupFacts.v — consequences of [GroupLaws G] (Base/Sym.v), in binary
   form, for reuse by every proof that reasons about charges.

   All lemmas live in [Section GroupFacts] and, once the section is closed,
   take [G : Symmetry] and [HG : GroupLaws G] as their first two arguments
   (both explicit), e.g. [gadd_comm G HG a b].   "V c" below abbreviates
   [valid G c = true], "VA l" abbreviates [valid_all G l = true].

   Definitions
     gadd G a b := combine G [a; b]          binary group operation
     gneg G a   := sign G a true             group inverse
     (ident G   := combine G []              is from Base/Sym.v)

   Equality test
     ceqb_refl        ceqb G a a = true
     ceqb_sym         ceqb G a b = ceqb G b a
     ceqb_false_iff   ceqb G a b = false <-> a <> b
     ceqb_reflect     reflect (a = b) (ceqb G a b)
     mem_ceqb_In      mem (ceqb G) x l = true <-> In x l
     mem_ceqb_false   mem (ceqb G) x l = false <-> ~ In x l

   Validity closure
     valid_all_nil        VA []
     valid_all_cons_iff   VA (x :: l) <-> V x /\ VA l
     valid_all_app_iff    VA (l1 ++ l2) <-> VA l1 /\ VA l2
     valid_all_In         VA l <-> forall c, In c l -> V c
     valid_all_one        V a -> VA [a]
     valid_all_two        V a -> V b -> VA [a; b]
     valid_all_perm       Permutation l1 l2 -> VA l1 -> VA l2
     valid_ident          V (ident G)
     gadd_valid           V a -> V b -> V (gadd G a b)
     gneg_valid           V a -> V (gneg G a)
     valid_all_map_sign   VA l -> VA (map (fun c => sign G c d) l)
     valid_all_map_gneg   VA l -> VA (map (gneg G) l)
     valid_all_map_sign2  VA (map fst l) -> VA (map (fun cd => sign G (fst cd) (f (snd cd))) l)

   Abelian group, binary form (all for valid arguments)
     gadd_comm        gadd a b = gadd b a                  (no validity needed)
     gadd_assoc       gadd (gadd a b) c = gadd a (gadd b c)
     gadd_ident_r     gadd a (ident G) = a
     gadd_ident_l     gadd (ident G) a = a
     gadd_neg_r       gadd a (gneg a) = ident G
     gadd_neg_l       gadd (gneg a) a = ident G
     gadd_cancel_l    gadd a b = gadd a c -> b = c
     gadd_cancel_r    gadd b a = gadd c a -> b = c
     gneg_unique      gadd a b = ident G -> b = gneg a
     gneg_involutive  gneg (gneg a) = a
     gneg_ident       gneg (ident G) = ident G
     gneg_inj         gneg a = gneg b -> a = b
     gadd_interchange gadd (gadd a b) (gadd c d) = gadd (gadd a c) (gadd b d)
     gneg_gadd        gneg (gadd a b) = gadd (gneg a) (gneg b)
     gadd_sub_cancel  gadd a (gadd b (gneg a)) = b
     gadd_move_l      gadd a b = c <-> b = gadd c (gneg a)

   sign
     sign_cases         sign G c d = if d then gneg G c else c   (no validity needed)
     sign_sign          sign G (sign G c d) d = c
     sign_negb          sign G c (negb d) = gneg G (sign G c d)
     sign_negb_inverse  gadd (sign G c d) (sign G c (negb d)) = ident G
     sign_inj           sign G a d = sign G b d -> a = b
     sign_ident         sign G (ident G) d = ident G
     sign_gadd          sign G (gadd a b) d = gadd (sign G a d) (sign G b d)
     sign_move          sign G c d = x <-> c = sign G x d         (V c, V x)

   n-ary combine
     combine_nil        combine G [] = ident G                    (definitional)
     combine_two        combine G [a; b] = gadd G a b             (definitional)
     combine_cons       V x -> VA l -> combine G (x :: l) = gadd x (combine G l)
     combine_app_gadd   VA l1 -> VA l2 -> combine G (l1 ++ l2) = gadd (combine G l1) (combine G l2)
     combine_snoc       VA l -> V x -> combine G (l ++ [x]) = gadd (combine G l) x
     gneg_combine       VA l -> gneg (combine G l) = combine G (map (gneg G) l)
     sign_combine       VA l -> sign G (combine G l) d = combine G (map (fun c => sign G c d) l)

   parity
     parity_ident    parity G (ident G) = false
     parity_gadd     parity G (gadd a b) = xorb (parity G a) (parity G b)
     parity_gneg     parity G (gneg a) = parity G a
     parity_sign     parity G (sign G c d) = parity G c
*)
From SV Require Import Base.Prelude Base.Sym.
From Coq Require Import Permutation.

Definition gadd (G : Symmetry) (a b : C G) : C G := combine G [a; b].
Definition gneg (G : Symmetry) (a : C G) : C G := sign G a true.

Section GroupFacts.
  Context (G : Symmetry) (HG : GroupLaws G).

  Local Notation V c := (valid G c = true).
  Local Notation VA l := (valid_all G l = true).
  Local Notation add := (gadd G).
  Local Notation neg := (gneg G).
  Local Notation e := (ident G).

  (* ---------------- equality test ---------------- *)
  Lemma ceqb_refl a : ceqb G a a = true.
  Proof. apply (ceqb_eq G HG). reflexivity. Qed.

  Lemma ceqb_false_iff a b : ceqb G a b = false <-> a <> b.
  Proof.
    split.
    - intros Hf Hab. apply (ceqb_eq G HG) in Hab. rewrite Hab in Hf. discriminate.
    - intros Hne. destruct (ceqb G a b) eqn:E; [|reflexivity].
      apply (ceqb_eq G HG) in E. contradiction.
  Qed.

  Lemma ceqb_sym a b : ceqb G a b = ceqb G b a.
  Proof.
    destruct (ceqb G a b) eqn:E1, (ceqb G b a) eqn:E2; try reflexivity.
    - apply (ceqb_eq G HG) in E1. subst b. rewrite ceqb_refl in E2. discriminate.
    - apply (ceqb_eq G HG) in E2. subst b. rewrite ceqb_refl in E1. discriminate.
  Qed.

  Lemma ceqb_reflect a b : reflect (a = b) (ceqb G a b).
  Proof.
    destruct (ceqb G a b) eqn:E; constructor.
    - apply (ceqb_eq G HG). exact E.
    - apply ceqb_false_iff. exact E.
  Qed.

  Lemma mem_ceqb_In x l : mem (ceqb G) x l = true <-> In x l.
  Proof.
    induction l as [|y l IH]; cbn [mem In].
    - split; [discriminate | intros []].
    - rewrite orb_true_iff, IH, (ceqb_eq G HG). split; intros [H|H]; auto.
  Qed.

  Lemma mem_ceqb_false x l : mem (ceqb G) x l = false <-> ~ In x l.
  Proof.
    rewrite <- mem_ceqb_In. destruct (mem (ceqb G) x l); split; intros H; try reflexivity;
      try discriminate; try (intros H'; discriminate). exfalso. apply H. reflexivity.
  Qed.

  (* ---------------- validity closure ---------------- *)
  Lemma valid_all_nil : VA [].
  Proof. apply (valid_all_forall G HG). constructor. Qed.

  Lemma valid_all_cons_iff x l : VA (x :: l) <-> V x /\ VA l.
  Proof.
    rewrite !(valid_all_forall G HG). split.
    - intros H. inversion H; subst. split; assumption.
    - intros [H1 H2]. constructor; assumption.
  Qed.

  Lemma valid_all_app_iff l1 l2 : VA (l1 ++ l2) <-> VA l1 /\ VA l2.
  Proof. rewrite !(valid_all_forall G HG). apply Forall_app. Qed.

  Lemma valid_all_In l : VA l <-> forall c, In c l -> V c.
  Proof. rewrite (valid_all_forall G HG). apply Forall_forall. Qed.

  Lemma valid_all_one a : V a -> VA [a].
  Proof. intros Ha. exact Ha. Qed.

  Lemma valid_all_two a b : V a -> V b -> VA [a; b].
  Proof. intros Ha Hb. apply valid_all_cons_iff. split; [exact Ha | exact Hb]. Qed.

  Lemma valid_all_perm l1 l2 : Permutation l1 l2 -> VA l1 -> VA l2.
  Proof.
    intros Hp. rewrite !valid_all_In. intros H c Hc. apply H.
    apply Permutation_in with (l := l2); [apply Permutation_sym; exact Hp | exact Hc].
  Qed.

  Lemma valid_ident : V e.
  Proof. apply (combine_valid G HG). apply valid_all_nil. Qed.

  Lemma gadd_valid a b : V a -> V b -> V (add a b).
  Proof. intros Ha Hb. apply (combine_valid G HG). apply valid_all_two; assumption. Qed.

  Lemma gneg_valid a : V a -> V (neg a).
  Proof. intros Ha. apply (sign_valid G HG). exact Ha. Qed.

  Lemma valid_all_map_sign d l : VA l -> VA (map (fun c => sign G c d) l).
  Proof.
    rewrite !valid_all_In. intros H c Hc. apply in_map_iff in Hc.
    destruct Hc as [c0 [<- Hc0]]. apply (sign_valid G HG). apply H. exact Hc0.
  Qed.

  Lemma valid_all_map_gneg l : VA l -> VA (map neg l).
  Proof. apply (valid_all_map_sign true). Qed.

  Lemma valid_all_map_sign2 {D} (f : D -> bool) (l : list (C G * D)) :
    VA (map fst l) -> VA (map (fun cd => sign G (fst cd) (f (snd cd))) l).
  Proof.
    rewrite !valid_all_In. intros H c Hc. apply in_map_iff in Hc.
    destruct Hc as [cd [<- Hcd]]. apply (sign_valid G HG). apply H.
    apply in_map. exact Hcd.
  Qed.

  (* ---------------- n-ary combine, first part ---------------- *)
  Lemma combine_nil : combine G [] = e.
  Proof. reflexivity. Qed.

  Lemma combine_two a b : combine G [a; b] = add a b.
  Proof. reflexivity. Qed.

  Lemma combine_app_gadd l1 l2 : VA l1 -> VA l2 ->
    combine G (l1 ++ l2) = add (combine G l1) (combine G l2).
  Proof. intros H1 H2. apply (combine_app G HG); assumption. Qed.

  Lemma combine_cons x l : V x -> VA l -> combine G (x :: l) = add x (combine G l).
  Proof.
    intros Hx Hl. change (x :: l) with ([x] ++ l).
    rewrite combine_app_gadd; [|apply valid_all_one; exact Hx | exact Hl].
    rewrite (combine_single G HG); [reflexivity | exact Hx].
  Qed.

  Lemma combine_snoc l x : VA l -> V x -> combine G (l ++ [x]) = add (combine G l) x.
  Proof.
    intros Hl Hx.
    rewrite combine_app_gadd; [|exact Hl | apply valid_all_one; exact Hx].
    rewrite (combine_single G HG); [reflexivity | exact Hx].
  Qed.

  (* ---------------- abelian group, binary form ---------------- *)
  Lemma gadd_comm a b : add a b = add b a.
  Proof. apply (combine_perm G HG). apply perm_swap. Qed.

  Lemma gadd_assoc a b c : V a -> V b -> V c -> add (add a b) c = add a (add b c).
  Proof.
    intros Ha Hb Hc.
    transitivity (combine G [a; b; c]).
    - symmetry. change [a; b; c] with ([a; b] ++ [c]).
      apply combine_snoc; [apply valid_all_two; assumption | exact Hc].
    - apply combine_cons; [exact Ha | apply valid_all_two; assumption].
  Qed.

  Lemma gadd_ident_r a : V a -> add a e = a.
  Proof. intros Ha. apply (combine_ident G HG). exact Ha. Qed.

  Lemma gadd_ident_l a : V a -> add e a = a.
  Proof. intros Ha. rewrite gadd_comm. apply gadd_ident_r. exact Ha. Qed.

  Lemma gadd_neg_r a : V a -> add a (neg a) = e.
  Proof. intros Ha. apply (sign_inverse G HG). exact Ha. Qed.

  Lemma gadd_neg_l a : V a -> add (neg a) a = e.
  Proof. intros Ha. rewrite gadd_comm. apply gadd_neg_r. exact Ha. Qed.

  Lemma gadd_cancel_l a b c : V a -> V b -> V c -> add a b = add a c -> b = c.
  Proof.
    intros Ha Hb Hc Heq.
    assert (Hn : V (neg a)) by (apply gneg_valid; exact Ha).
    rewrite <- (gadd_ident_l b Hb), <- (gadd_ident_l c Hc).
    rewrite <- (gadd_neg_l a Ha).
    rewrite (gadd_assoc (neg a) a b Hn Ha Hb), (gadd_assoc (neg a) a c Hn Ha Hc).
    rewrite Heq. reflexivity.
  Qed.

  Lemma gadd_cancel_r a b c : V a -> V b -> V c -> add b a = add c a -> b = c.
  Proof.
    intros Ha Hb Hc. rewrite (gadd_comm b a), (gadd_comm c a).
    apply gadd_cancel_l; assumption.
  Qed.

  Lemma gneg_unique a b : V a -> V b -> add a b = e -> b = neg a.
  Proof.
    intros Ha Hb Heq. apply (gadd_cancel_l a); [exact Ha | exact Hb | apply gneg_valid; exact Ha |].
    rewrite Heq. symmetry. apply gadd_neg_r. exact Ha.
  Qed.

  Lemma gneg_involutive a : V a -> neg (neg a) = a.
  Proof.
    intros Ha. symmetry. apply gneg_unique; [apply gneg_valid; exact Ha | exact Ha |].
    apply gadd_neg_l. exact Ha.
  Qed.

  Lemma gneg_ident : neg e = e.
  Proof.
    symmetry. apply gneg_unique; [apply valid_ident | apply valid_ident |].
    apply gadd_ident_r. apply valid_ident.
  Qed.

  Lemma gneg_inj a b : V a -> V b -> neg a = neg b -> a = b.
  Proof.
    intros Ha Hb Heq. rewrite <- (gneg_involutive a Ha), <- (gneg_involutive b Hb).
    rewrite Heq. reflexivity.
  Qed.

  Lemma gadd_interchange a b c d : V a -> V b -> V c -> V d ->
    add (add a b) (add c d) = add (add a c) (add b d).
  Proof.
    intros Ha Hb Hc Hd.
    transitivity (combine G ([a; b] ++ [c; d])).
    - symmetry. apply combine_app_gadd; apply valid_all_two; assumption.
    - transitivity (combine G ([a; c] ++ [b; d])).
      + apply (combine_perm G HG). cbn [app]. apply perm_skip. apply perm_swap.
      + apply combine_app_gadd; apply valid_all_two; assumption.
  Qed.

  Lemma gneg_gadd a b : V a -> V b -> neg (add a b) = add (neg a) (neg b).
  Proof.
    intros Ha Hb.
    assert (Hna : V (neg a)) by (apply gneg_valid; exact Ha).
    assert (Hnb : V (neg b)) by (apply gneg_valid; exact Hb).
    symmetry. apply gneg_unique; [apply gadd_valid; assumption | apply gadd_valid; assumption |].
    rewrite (gadd_interchange a b (neg a) (neg b) Ha Hb Hna Hnb).
    rewrite (gadd_neg_r a Ha), (gadd_neg_r b Hb). apply gadd_ident_r. apply valid_ident.
  Qed.

  Lemma gadd_sub_cancel a b : V a -> V b -> add a (add b (neg a)) = b.
  Proof.
    intros Ha Hb.
    assert (Hna : V (neg a)) by (apply gneg_valid; exact Ha).
    rewrite (gadd_comm b (neg a)).
    rewrite <- (gadd_assoc a (neg a) b Ha Hna Hb).
    rewrite (gadd_neg_r a Ha). apply gadd_ident_l. exact Hb.
  Qed.

  Lemma gadd_move_l a b c : V a -> V b -> V c -> (add a b = c <-> b = add c (neg a)).
  Proof.
    intros Ha Hb Hc.
    assert (Hna : V (neg a)) by (apply gneg_valid; exact Ha).
    split.
    - intros Heq. apply (gadd_cancel_l a); [exact Ha | exact Hb | apply gadd_valid; assumption |].
      rewrite (gadd_sub_cancel a c Ha Hc). exact Heq.
    - intros ->. apply gadd_sub_cancel; assumption.
  Qed.

  (* ---------------- sign ---------------- *)
  Lemma sign_cases c d : sign G c d = if d then neg c else c.
  Proof. destruct d; [reflexivity | apply (sign_false G HG)]. Qed.

  Lemma sign_sign c d : V c -> sign G (sign G c d) d = c.
  Proof.
    intros Hc. destruct d.
    - apply gneg_involutive. exact Hc.
    - rewrite !(sign_false G HG). reflexivity.
  Qed.

  Lemma sign_negb c d : V c -> sign G c (negb d) = neg (sign G c d).
  Proof.
    intros Hc. destruct d; cbn [negb].
    - rewrite (sign_false G HG). symmetry. apply gneg_involutive. exact Hc.
    - rewrite (sign_false G HG). reflexivity.
  Qed.

  Lemma sign_negb_inverse c d : V c -> add (sign G c d) (sign G c (negb d)) = e.
  Proof.
    intros Hc. rewrite (sign_negb c d Hc). apply gadd_neg_r.
    apply (sign_valid G HG). exact Hc.
  Qed.

  Lemma sign_inj a b d : V a -> V b -> sign G a d = sign G b d -> a = b.
  Proof.
    intros Ha Hb Heq. rewrite <- (sign_sign a d Ha), <- (sign_sign b d Hb).
    rewrite Heq. reflexivity.
  Qed.

  Lemma sign_ident d : sign G e d = e.
  Proof. rewrite sign_cases. destruct d; [apply gneg_ident | reflexivity]. Qed.

  Lemma sign_gadd a b d : V a -> V b -> sign G (add a b) d = add (sign G a d) (sign G b d).
  Proof.
    intros Ha Hb. rewrite !sign_cases. destruct d; [apply gneg_gadd; assumption | reflexivity].
  Qed.

  Lemma sign_move c x d : V c -> V x -> (sign G c d = x <-> c = sign G x d).
  Proof.
    intros Hc Hx. split.
    - intros <-. symmetry. apply sign_sign. exact Hc.
    - intros ->. apply sign_sign. exact Hx.
  Qed.

  (* ---------------- n-ary combine, second part ---------------- *)
  Lemma sign_combine d l : VA l ->
    sign G (combine G l) d = combine G (map (fun c => sign G c d) l).
  Proof.
    induction l as [|x l IH]; intros Hl.
    - cbn [map]. apply sign_ident.
    - apply valid_all_cons_iff in Hl. destruct Hl as [Hx Hl]. cbn [map].
      rewrite (combine_cons x l Hx Hl).
      rewrite combine_cons;
        [| apply (sign_valid G HG); exact Hx | apply valid_all_map_sign; exact Hl].
      rewrite sign_gadd; [| exact Hx | apply (combine_valid G HG); exact Hl].
      rewrite (IH Hl). reflexivity.
  Qed.

  Lemma gneg_combine l : VA l -> neg (combine G l) = combine G (map neg l).
  Proof. apply (sign_combine true). Qed.

  (* ---------------- parity ---------------- *)
  Lemma parity_ident : parity G e = false.
  Proof.
    unfold ident. rewrite (parity_combine G HG); [reflexivity | apply valid_all_nil].
  Qed.

  Lemma parity_gadd a b : V a -> V b -> parity G (add a b) = xorb (parity G a) (parity G b).
  Proof.
    intros Ha Hb. unfold gadd.
    rewrite (parity_combine G HG); [| apply valid_all_two; assumption].
    cbn [map xorb_list fold_right]. rewrite xorb_false_r. reflexivity.
  Qed.

  Lemma parity_gneg a : V a -> parity G (neg a) = parity G a.
  Proof.
    intros Ha.
    assert (H : xorb (parity G a) (parity G (neg a)) = false).
    { rewrite <- parity_gadd; [| exact Ha | apply gneg_valid; exact Ha].
      rewrite (gadd_neg_r a Ha). apply parity_ident. }
    destruct (parity G a), (parity G (neg a)); cbn in H; congruence.
  Qed.

  Lemma parity_sign c d : V c -> parity G (sign G c d) = parity G c.
  Proof.
    intros Hc. rewrite sign_cases. destruct d; [apply parity_gneg; exact Hc | reflexivity].
  Qed.

End GroupFacts.
