(* Proofs/NormProofs.v — C10, the norm clause: contracting a fermionic array with
   its conjugate over all indices gives its squared norm.

   Part A  labels: for a strictly sorted, conjugate-free odd-position list l the routine
           `resolve_oddpos` removes `oddpos_dag l ++ l` (resp. `l ++ oddpos_dag l`) completely,
           one nested conjugate pair after the other, without a single swap; the sign is
           (left odd && |l| odd) xor the number of removed pairs that stand as (x-, x+).
   Part B  the element formula of C03 (`tensordot_blockwise_element`) specialised to the full
           contraction of `f_conj x true pd` with x: per stored sector all signs cancel
           (the two reversal signs against each other, the ket-then-bra count against the
           dual-leg sign option, the odd global sign of conj against the label sign).
   Part C  the theorems for the all-ket case and for the dual-leg option, in both operand
           orders, and the same with `a_norm2` on the right-hand side.
   Part D  examples. *)
From SV Require Import Base.Prelude Base.Sym Base.Tensor Gen.PhasePerm Model.SymInst Model.Sectors
  Model.Array Model.Arith Model.Fermi Model.Graded Model.Wf
  Proofs.TensorProofs Proofs.GradedProofs Proofs.StructProofs Proofs.SymLaws Proofs.SectorsProofs Proofs.Tdot
  Proofs.WfProofs Proofs.FermiProofs Proofs.ConjProofs.
From Coq Require Import Permutation.
Local Open Scope nat_scope.

(* ================================================================ part A *)
(* ---- the order on labels ---- *)
Lemma lab_eqb_refl (a : flabel) : lab_eqb a a = true.
Proof. unfold lab_eqb. induction a as [|x a IH]; cbn [list_eqb]; [reflexivity|]. now rewrite Z.eqb_refl. Qed.

Lemma lab_eqb_eq (a b : flabel) : lab_eqb a b = true <-> a = b.
Proof.
  unfold lab_eqb. revert b. induction a as [|x a IH]; intros [|y b]; cbn [list_eqb]; try (split; [discriminate|congruence]).
  - split; reflexivity.
  - rewrite andb_true_iff, Z.eqb_eq, IH. split; [intros [-> ->]; reflexivity | intros H; inversion H; auto].
Qed.

Lemma lab_ltb_asym (a : flabel) : forall b, lab_ltb a b = true -> lab_ltb b a = false.
Proof.
  unfold lab_ltb. induction a as [|x a IH]; intros [|y b]; cbn [list_ltb]; try discriminate; try reflexivity.
  rewrite orb_true_iff, andb_true_iff, Z.ltb_lt, Z.eqb_eq. intros [H | [H H']].
  - apply orb_false_iff. split; [apply Z.ltb_ge; lia|].
    apply andb_false_iff. left. apply Z.eqb_neq. lia.
  - subst y. rewrite Z.ltb_irrefl, Z.eqb_refl. cbn [orb andb]. now apply IH.
Qed.

Lemma fop_ltb_asym (a b : fop) : fop_ltb a b = true -> fop_ltb b a = false.
Proof.
  unfold fop_ltb. destruct (snd a), (snd b); try discriminate; try reflexivity; apply lab_ltb_asym.
Qed.

Lemma fop_ltb_dag (a b : fop) : fop_ltb (fop_dag b) (fop_dag a) = fop_ltb a b.
Proof. unfold fop_ltb, fop_dag. cbn [fst snd]. destruct (snd a), (snd b); reflexivity. Qed.

(* ---- a relation between neighbours ---- *)
Fixpoint adj {A} (P : A -> A -> Prop) (l : list A) : Prop :=
  match l with
  | [] => True
  | a :: t => match t with [] => True | b :: _ => P a b /\ adj P t end
  end.

Lemma adj_impl {A} (P Q : A -> A -> Prop) l : (forall a b, P a b -> Q a b) -> adj P l -> adj Q l.
Proof.
  intros H. induction l as [|a [|b t] IH]; cbn [adj]; [tauto | tauto |].
  intros [H1 H2]. split; [now apply H | now apply IH].
Qed.

Lemma adj_and {A} (P Q : A -> A -> Prop) l : adj P l -> adj Q l -> adj (fun a b => P a b /\ Q a b) l.
Proof.
  induction l as [|a [|b t] IH]; cbn [adj]; [tauto | tauto |].
  intros [H1 H2] [H3 H4]. split; [now split | now apply IH].
Qed.

Lemma adj_snoc {A} (P : A -> A -> Prop) l : forall a b, adj P (l ++ [a]) -> P a b -> adj P (l ++ [a; b]).
Proof.
  induction l as [|x [|y t] IH]; intros a b H Hab.
  - cbn [app adj]. tauto.
  - cbn [app adj] in *. tauto.
  - change ((x :: y :: t) ++ [a; b]) with (x :: y :: (t ++ [a; b])).
    change ((x :: y :: t) ++ [a]) with (x :: y :: (t ++ [a])) in H.
    destruct H as [H1 H2]. split; [exact H1|]. exact (IH a b H2 Hab).
Qed.

Lemma adj_rev {A} (P : A -> A -> Prop) l : adj P l -> adj (fun a b => P b a) (rev l).
Proof.
  induction l as [|a [|b t] IH]; intros H; [exact I | exact I |].
  destruct H as [H1 H2]. specialize (IH H2).
  change (rev (a :: b :: t)) with ((rev t ++ [b]) ++ [a]). rewrite <- app_assoc. cbn [app].
  apply adj_snoc; [exact IH | exact H1].
Qed.

Lemma adj_map {A B} (P : B -> B -> Prop) (f : A -> B) l : adj (fun a b => P (f a) (f b)) l -> adj P (map f l).
Proof.
  induction l as [|a [|b t] IH]; cbn [adj map]; [tauto | tauto |].
  intros [H1 H2]. split; [exact H1 | now apply IH].
Qed.

Lemma adj_nth {A} (P : A -> A -> Prop) (d : A) l : adj P l -> forall i, S i < length l -> P (nth i l d) (nth (S i) l d).
Proof.
  induction l as [|a [|b t] IH]; intros H i Hi; cbn [length] in Hi; try lia.
  destruct H as [H1 H2]. destruct i as [|i]; [exact H1|].
  change (nth (S i) (a :: b :: t) d) with (nth i (b :: t) d).
  change (nth (S (S i)) (a :: b :: t) d) with (nth (S i) (b :: t) d).
  apply IH; [exact H2 | cbn [length]; lia].
Qed.

Lemma sorted_by_adj {A} (ltb : A -> A -> bool) l : sorted_by ltb l = true -> adj (fun a b => ltb a b = true) l.
Proof.
  induction l as [|a [|b t] IH]; cbn [sorted_by adj]; [tauto | tauto |].
  intros H. apply andb_true_iff in H. destruct H as [H1 H2]. split; [exact H1 | now apply IH].
Qed.

Lemma nodup_adj {A B} (f : A -> B) l : NoDup (map f l) -> adj (fun a b => f a <> f b) l.
Proof.
  induction l as [|a [|b t] IH]; intros H; [exact I | exact I |].
  cbn [map] in H. inversion H as [|? ? Hn Hr]; subst. split; [|now apply IH].
  intros E. apply Hn. left. now symmetry.
Qed.

(* ---- what the loop needs of two neighbours to step over them ---- *)
Definition step_ok (a b : fop) : Prop := lab_eqb (fst a) (fst b) = false /\ fop_ltb b a = false.

(* strictly sorted, no label twice (so no conjugate pair either) *)
Definition labels_ok (l : list fop) : Prop := sorted_by fop_ltb l = true /\ NoDup (map fst l).

Lemma lab_eqb_neq (a b : flabel) : a <> b -> lab_eqb a b = false.
Proof. intros H. destruct (lab_eqb a b) eqn:E; [|reflexivity]. apply lab_eqb_eq in E. contradiction. Qed.

Lemma labels_ok_step l : labels_ok l -> adj step_ok l.
Proof.
  intros [Hs Hn]. apply (adj_impl (fun a b => fop_ltb a b = true /\ fst a <> fst b)).
  - intros a b [H1 H2]. split; [now apply lab_eqb_neq | now apply fop_ltb_asym].
  - apply adj_and; [now apply sorted_by_adj | now apply nodup_adj].
Qed.

Lemma labels_ok_step_dag l : labels_ok l -> adj step_ok (oddpos_dag l).
Proof.
  intros [Hs Hn]. unfold oddpos_dag. apply adj_map.
  apply (adj_impl (fun a b => fop_ltb b a = true /\ fst b <> fst a)).
  - intros a b [H1 H2]. split.
    + unfold fop_dag. cbn [fst]. apply lab_eqb_neq. congruence.
    + rewrite fop_ltb_dag. now apply fop_ltb_asym.
  - apply (adj_rev (fun a b => fop_ltb a b = true /\ fst a <> fst b)).
    apply adj_and; [now apply sorted_by_adj | now apply nodup_adj].
Qed.

(* ---- the loop ---- *)
Notation fop_d := (@nil Z, false).

(* stepping over a prefix whose neighbours are in order *)
Lemma go_advance (u v : list fop) ph : adj step_ok u ->
  forall j i fuel, i + j = length u - 1 ->
  resolve_go (j + fuel) i ph (u ++ v) = resolve_go fuel (length u - 1) ph (u ++ v).
Proof.
  intros Hu. induction j as [|j IH]; intros i fuel Hij.
  - cbn [Nat.add]. now replace i with (length u - 1) by lia.
  - cbn [Nat.add resolve_go].
    assert (Hlt : S i < length u) by lia.
    assert (Hlt' : Nat.ltb (S i) (length (u ++ v)) = true) by (apply Nat.ltb_lt; rewrite app_length; lia).
    rewrite Hlt'. rewrite !(app_nth1 u v) by lia.
    destruct (adj_nth step_ok fop_d u Hu i Hlt) as [H1 H2]. rewrite H1, H2.
    apply IH. lia.
Qed.

(* removing nested conjugate pairs: ps lists the pairs from the innermost outwards *)
Definition conj_pair (p : fop * fop) : Prop := fst (fst p) = fst (snd p) /\ snd (fst p) = negb (snd (snd p)).

Lemma go_nest (ps : list (fop * fop)) : Forall conj_pair ps ->
  forall ph fuel, length ps < fuel ->
  resolve_go fuel (length ps - 1) ph (rev (map fst ps) ++ map snd ps)
  = Some (xorb ph (xorb_list (map (fun p => snd (snd p)) ps)), []).
Proof.
  induction ps as [|[a b] ps IH]; intros HF ph fuel Hfuel.
  - destruct fuel as [|fuel]; [cbn [length] in Hfuel; lia|]. cbn. now rewrite xorb_false_r.
  - inversion HF as [|? ? [Hl Hd] HF']; subst. cbn [fst snd] in Hl, Hd.
    destruct fuel as [|fuel]; [lia|]. cbn [length] in Hfuel.
    cbn [map fst snd rev length]. replace (S (length ps) - 1) with (length ps) by lia.
    set (u := rev (map fst ps)).
    assert (Lu : length u = length ps) by (unfold u; now rewrite rev_length, map_length).
    rewrite <- app_assoc. cbn [app].
    cbn [resolve_go].
    assert (Hlt : Nat.ltb (S (length ps)) (length (u ++ a :: b :: map snd ps)) = true).
    { apply Nat.ltb_lt. rewrite app_length. cbn [length]. lia. }
    rewrite Hlt.
    assert (Na : nth (length ps) (u ++ a :: b :: map snd ps) fop_d = a).
    { rewrite app_nth2 by lia. now rewrite Lu, Nat.sub_diag. }
    assert (Nb : nth (S (length ps)) (u ++ a :: b :: map snd ps) fop_d = b).
    { rewrite app_nth2 by lia. rewrite Lu. now replace (S (length ps) - length ps) with 1 by lia. }
    rewrite Na, Nb, Hl, lab_eqb_refl, Hd.
    assert (Hne : negb (Bool.eqb (negb (snd b)) (snd b)) = true) by (destruct (snd b); reflexivity).
    rewrite Hne.
    assert (Hfirst : firstn (length ps) (u ++ a :: b :: map snd ps) = u).
    { rewrite <- Lu. rewrite firstn_app, Nat.sub_diag, firstn_all. cbn [firstn]. now rewrite app_nil_r. }
    assert (Hskip : skipn (S (S (length ps))) (u ++ a :: b :: map snd ps) = map snd ps).
    { rewrite skipn_app. rewrite skipn_all2 by lia. rewrite Lu.
      replace (S (S (length ps)) - length ps) with 2 by lia. reflexivity. }
    rewrite Hfirst, Hskip.
    replace (Nat.pred (length ps)) with (length ps - 1) by lia.
    unfold u. rewrite (IH HF') by lia. f_equal. f_equal.
    change (xorb_list (snd b :: ?l)) with (xorb (snd b) (xorb_list l)).
    destruct (snd b), ph; cbn [negb xorb]; destruct (xorb_list _); reflexivity.
Qed.

Lemma conj_pairs_left (w : list fop) : Forall conj_pair (map (fun c => (fop_dag c, c)) w).
Proof. apply Forall_forall. intros p Hp. apply in_map_iff in Hp. destruct Hp as [c [<- _]]. split; reflexivity. Qed.

Lemma conj_pairs_right (w : list fop) : Forall conj_pair (map (fun c => (c, fop_dag c)) w).
Proof.
  apply Forall_forall. intros p Hp. apply in_map_iff in Hp. destruct Hp as [c [<- _]].
  split; [reflexivity|]. unfold fop_dag. cbn [fst snd]. now rewrite negb_involutive.
Qed.

Definition n_dual (l : list fop) : bool := xorb_list (map (fun c : fop => snd c) l).
Definition n_nondual (l : list fop) : bool := xorb_list (map (fun c : fop => negb (snd c)) l).

Lemma n_dual_nondual l : xorb (n_dual l) (n_nondual l) = Nat.odd (length l).
Proof.
  unfold n_dual, n_nondual. induction l as [|c l IH]; [reflexivity|].
  cbn [map length]. change (xorb_list (?a :: ?t)) with (xorb a (xorb_list t)).
  rewrite Nat.odd_succ, <- Nat.negb_odd, <- IH.
  destruct (snd c), (xorb_list (map (fun c0 : fop => snd c0) l)), (xorb_list (map (fun c0 : fop => negb (snd c0)) l)); reflexivity.
Qed.

Lemma n_dual_all_nondual l : (forall c, In c l -> snd c = false) -> n_dual l = false.
Proof.
  unfold n_dual. induction l as [|c l IH]; intros H; [reflexivity|].
  cbn [map]. change (xorb_list (?a :: ?t)) with (xorb a (xorb_list t)).
  rewrite (H c) by now left. rewrite IH; [reflexivity|]. intros c' Hc'. apply H. now right.
Qed.

Lemma resolve_oddpos_go (p : bool) (lo ro : list fop) : length (lo ++ ro) >= 1 ->
  resolve_oddpos p lo ro
  = resolve_go (length (lo ++ ro) * length (lo ++ ro) + 2 * length (lo ++ ro) + 4) 0
      (p && Nat.odd (length ro)) (lo ++ ro).
Proof. destruct lo, ro; cbn [app length]; intros H; try lia; reflexivity. Qed.

Lemma oddpos_dag_len l : length (oddpos_dag l) = length l.
Proof. unfold oddpos_dag. now rewrite map_length, rev_length. Qed.

(* conj(x) . x : the labels  oddpos_dag l ++ l *)
Theorem resolve_dag_left (p : bool) (l : list fop) : labels_ok l ->
  resolve_oddpos p (oddpos_dag l) l = Some (xorb (p && Nat.odd (length l)) (n_dual l), []).
Proof.
  intros Hok. destruct l as [|c l'] eqn:El; [destruct p; reflexivity|]. rewrite <- El in *.
  assert (Hne : length l >= 1) by (rewrite El; cbn [length]; lia).
  pose proof (oddpos_dag_len l) as Ld.
  rewrite resolve_oddpos_go by (rewrite app_length; lia).
  rewrite app_length, Ld.
  set (m := length l) in *.
  replace ((m + m) * (m + m) + 2 * (m + m) + 4) with ((m - 1) + ((m + m) * (m + m) + 3 * m + 5)) by lia.
  rewrite (go_advance (oddpos_dag l) l _ (labels_ok_step_dag l Hok) (m - 1) 0) by lia.
  rewrite Ld. fold m.
  pose proof (go_nest (map (fun c => (fop_dag c, c)) l) (conj_pairs_left l)) as HN.
  rewrite !map_map, map_length in HN. cbn [fst snd] in HN. rewrite map_id in HN.
  unfold oddpos_dag. rewrite map_rev. apply HN. fold m. lia.
Qed.

(* x . conj(x) : the labels  l ++ oddpos_dag l *)
Theorem resolve_dag_right (p : bool) (l : list fop) : labels_ok l ->
  resolve_oddpos p l (oddpos_dag l) = Some (xorb (p && Nat.odd (length l)) (n_nondual l), []).
Proof.
  intros Hok. destruct l as [|c l'] eqn:El; [destruct p; reflexivity|]. rewrite <- El in *.
  assert (Hne : length l >= 1) by (rewrite El; cbn [length]; lia).
  pose proof (oddpos_dag_len l) as Ld.
  rewrite resolve_oddpos_go by (rewrite app_length; lia).
  rewrite app_length, Ld.
  set (m := length l) in *.
  replace ((m + m) * (m + m) + 2 * (m + m) + 4) with ((m - 1) + ((m + m) * (m + m) + 3 * m + 5)) by lia.
  rewrite (go_advance l (oddpos_dag l) _ (labels_ok_step l Hok) (m - 1) 0) by (fold m; lia).
  fold m.
  pose proof (go_nest (map (fun c => (c, fop_dag c)) (rev l)) (conj_pairs_right (rev l))) as HN.
  rewrite !map_map, map_length, rev_length in HN. cbn [fst snd] in HN. rewrite map_id, rev_involutive in HN.
  unfold oddpos_dag. rewrite HN by (fold m; lia). f_equal. f_equal. f_equal.
  unfold n_nondual. rewrite map_rev. rewrite xorb_list_rev. reflexivity.
Qed.

(* ================================================================ part B *)
(* ---- list facts about the full axis list 0..n-1 ---- *)
Lemma take_axes_seq_gen {A} (d : A) (l : list A) : forall pre, take_axes d (pre ++ l) (seq (length pre) (length l)) = l.
Proof.
  unfold take_axes. induction l as [|x l IH]; intros pre; [reflexivity|].
  cbn [length seq map]. rewrite app_nth2 by lia. rewrite Nat.sub_diag. cbn [nth]. f_equal.
  specialize (IH (pre ++ [x])). rewrite <- app_assoc, app_length in IH. cbn [app length] in IH.
  now replace (length pre + 1) with (S (length pre)) in IH by lia.
Qed.

Lemma take_axes_seq {A} (d : A) (l : list A) : take_axes d l (seq 0 (length l)) = l.
Proof. exact (take_axes_seq_gen d l []). Qed.

Lemma rest_axes_full n : rest_axes n (seq 0 n) = [].
Proof. rewrite rest_axes_head by lia. now rewrite Nat.sub_diag. Qed.

Lemma without_axes_full {A} (l : list A) : without_axes l (seq 0 (length l)) = [].
Proof.
  destruct l as [|x l]; [reflexivity|].
  rewrite (without_axes_take x). now rewrite rest_axes_full.
Qed.

Lemma inv_count_seq par n : forall s, inv_count par (map Z.of_nat (seq s n)) = 0.
Proof.
  induction n as [|n IH]; intros s; [reflexivity|]. cbn [seq map inv_count]. rewrite IH.
  destruct (oddZ par (Z.of_nat s)); [|reflexivity]. rewrite countb_false; [reflexivity|].
  intros y Hy. apply in_map_iff in Hy. destruct Hy as [k [<- Hk]]. apply in_seq in Hk.
  apply andb_false_iff. left. apply Z.ltb_ge. lia.
Qed.

Lemma inv_parity_id par n : inv_parity par (map Z.of_nat (seq 0 n)) = false.
Proof. unfold inv_parity. now rewrite inv_count_seq. Qed.

Definition full_axes (n : nat) : nat + (list Z * list Z) :=
  inr (map Z.of_nat (seq 0 n), map Z.of_nat (seq 0 n)).

Lemma parse_full n : parse_axes n n (full_axes n) = Some (seq 0 n, seq 0 n).
Proof.
  unfold parse_axes, full_axes. rewrite !map_length, Nat.eqb_refl.
  rewrite norm_axes_of_nat by (intros i Hi; apply in_seq in Hi; lia). reflexivity.
Qed.

(* the axes whose index satisfies Q, as a filter of 0..n-1 *)
Lemma axes_where_filter_gen {G : Symmetry} (Q : index G -> bool) (ixs : list (index G)) : forall pre,
  map fst (filter (fun p => Q (snd p)) (List.combine (seq (length pre) (length ixs)) ixs))
  = filter (fun ax => Q (nth ax (pre ++ ixs) (dflt_index G))) (seq (length pre) (length ixs)).
Proof.
  induction ixs as [|ix ixs IH]; intros pre; [reflexivity|].
  cbn [length seq List.combine filter snd]. rewrite app_nth2 by lia. rewrite Nat.sub_diag. cbn [nth].
  specialize (IH (pre ++ [ix])). rewrite <- app_assoc, app_length in IH. cbn [app length] in IH.
  replace (length pre + 1) with (S (length pre)) in IH by lia.
  destruct (Q ix); cbn [map fst]; now rewrite IH.
Qed.

Lemma axes_where_filter {G : Symmetry} (Q : index G -> bool) (ixs : list (index G)) :
  filter (fun ax => Q (nth ax ixs (dflt_index G))) (seq 0 (length ixs)) = axes_where G Q ixs.
Proof. symmetry. exact (axes_where_filter_gen Q ixs []). Qed.

Section Norm.
  Context (G : Symmetry) (HG : GroupLaws G) (R : Ring) (NL : NegLaws R) (RL : SumLaws R).
  Context (Hc0 : rconj R (r0 R) = r0 R) (Hcn : forall a, rconj R (rneg R a) = rneg R (rconj R a)).
  Notation sector := (list (C G)).
  Notation keq := (list_eqb (ceqb G)).
  Notation fa := (farray G R).
  Notation cspec := (ceqb_eq G HG).
  Notation ix_d := (dflt_index G).
  Notation dual_axes b := (axes_where G (idual G) (indices G R b)).
  Notation nondual_axes b := (axes_where G (fun ix => negb (idual G ix)) (indices G R b)).

  (* ---- signs on scalars ---- *)
  Lemma rsgn_rsgn b c v : rsgn R b (rsgn R c v) = rsgn R (xorb b c) v.
  Proof. destruct b, c; cbn [rsgn xorb]; [apply (rneg_invol R NL) | reflexivity..]. Qed.

  Lemma rmul_rsgn b c u v : rmul R (rsgn R b u) (rsgn R c v) = rsgn R (xorb b c) (rmul R u v).
  Proof.
    destruct b, c; cbn [rsgn xorb];
      rewrite ?(rmul_neg_l R NL), ?(rmul_neg_r R NL), ?(rneg_invol R NL); reflexivity.
  Qed.

  Lemma rsum_rsgn {A} b (f : A -> RT R) l : rsum R (map (fun k => rsgn R b (f k)) l) = rsgn R b (rsum R (map f l)).
  Proof. destruct b; cbn [rsgn]; [apply (rsum_neg R NL) | reflexivity]. Qed.

  (* ---- the value of the conjugate in coordinates ---- *)
  Lemma sem_conj (x : fa) pd (cs : list (coord G)) :
    valid G (charge G R (fbase G R x)) = true -> NoDup (fsectors G R x) ->
    sem G R (f_value G R (f_conj G R x true pd)) cs
    = rsgn R (conj_sign G R x true pd (map fst cs)) (rconj R (sem G R (f_value G R x) cs)).
  Proof.
    intros Hv Hn. unfold sem.
    pose proof (conj_value G HG R (rneg_invol R NL) Hcn x true pd (map fst cs) Hv Hn) as HV.
    unfold value in HV. rewrite HV.
    destruct (lookup keq (map fst cs) (blocks G R (f_value G R x))) as [t|]; cbn [option_map].
    - destruct (conj_sign G R x true pd (map fst cs)); cbn [rsgn].
      + unfold tneg, tconj. rewrite !get_tmap; [reflexivity | exact Hc0 | apply (rneg_zero R NL)].
      + unfold tconj. now rewrite get_tmap.
    - now rewrite Hc0, (rsgn_zero R NL).
  Qed.

  (* ---- the structural side conditions of the element theorem ---- *)
  Lemma conj_blocks_ok (x : fa) pd : wf_array G R (fbase G R x) = true ->
    blocks_ok G R (fbase G R (f_conj G R x true pd)).
  Proof. intros Hw. rewrite fbase_conj. apply (wf_blocks_ok G R cspec). now apply conj_wf. Qed.

  Lemma conj_ndim (x : fa) pd : ndim G R (fbase G R (f_conj G R x true pd)) = ndim G R (fbase G R x).
  Proof. rewrite fbase_conj. apply ndim_conj. Qed.

  Lemma conj_indices' (x : fa) pd :
    indices G R (fbase G R (f_conj G R x true pd)) = map (iconj G) (indices G R (fbase G R x)).
  Proof. now rewrite fbase_conj. Qed.

  Lemma nth_iconj (ixs : list (index G)) i : i < length ixs ->
    nth i (map (iconj G) ixs) ix_d = iconj G (nth i ixs ix_d).
  Proof. intros Hi. rewrite (nth_indep _ ix_d (iconj G ix_d)) by (rewrite map_length; exact Hi). apply map_nth. Qed.

  Lemma Forall2_seq_same (P : nat -> nat -> Prop) n : (forall i, i < n -> P i i) -> Forall2 P (seq 0 n) (seq 0 n).
  Proof.
    intros H. rewrite <- (map_id (seq 0 n)). apply Forall2_map_same. intros i Hi. apply in_seq in Hi. apply H. lia.
  Qed.

  Lemma opposite_conj_l (x : fa) pd : let n := ndim G R (fbase G R x) in
    opposite_dirs G R (f_conj G R x true pd) x (seq 0 n) (seq 0 n).
  Proof.
    intros n. unfold opposite_dirs. apply Forall2_seq_same. intros i Hi.
    rewrite conj_indices', nth_iconj by exact Hi. apply iconj_dual.
  Qed.

  Lemma opposite_conj_r (x : fa) pd : let n := ndim G R (fbase G R x) in
    opposite_dirs G R x (f_conj G R x true pd) (seq 0 n) (seq 0 n).
  Proof.
    intros n. unfold opposite_dirs. apply Forall2_seq_same. intros i Hi.
    rewrite conj_indices', nth_iconj by exact Hi. now rewrite iconj_dual, negb_involutive.
  Qed.

  Lemma chargemap_conj (ixs : list (index G)) : map (chargemap G) (map (iconj G) ixs) = map (chargemap G) ixs.
  Proof. rewrite map_map. apply map_ext. apply iconj_chargemap. Qed.

  Lemma nodup_tables_conj (ixs : list (index G)) :
    Forall (fun ix => NoDup (icharges G ix)) ixs -> Forall (fun ix => NoDup (icharges G ix)) (map (iconj G) ixs).
  Proof.
    intros H. apply Forall_forall. intros ix Hix. apply in_map_iff in Hix. destruct Hix as [ix0 [<- Hix0]].
    unfold icharges. rewrite iconj_chargemap. rewrite Forall_forall in H. now apply H.
  Qed.

  Lemma merge_full (kc : list (coord G)) n : length kc = n -> merge G n (seq 0 n) [] kc = kc.
  Proof.
    intros <-. unfold merge.
    pose proof (scatterA_take (ident G, 0) kc (seq 0 (length kc))) as H.
    now rewrite take_axes_seq, rest_axes_full in H.
  Qed.

  (* ---- the operand signs for the full contraction ---- *)
  Lemma sigma_a_full (a : fa) (s : sector) n : n = ndim G R (fbase G R a) ->
    sigma_a G R a (seq 0 n) s = count_odd G s (nondual_axes (fbase G R a)).
  Proof.
    intros ->. unfold sigma_a. rewrite rest_axes_full. cbn [app].
    rewrite inv_parity_id, xorb_false_l. unfold ketbra_a, ndim.
    now rewrite (axes_where_filter (fun ix => negb (idual G ix)) (indices G R (fbase G R a))).
  Qed.

  Lemma sigma_b_full (b : fa) (s : sector) n : n = ndim G R (fbase G R b) ->
    length s = n -> Forall (fun c => valid G c = true) s ->
    sigma_b G R b (seq 0 n) s = perm_minus G s None.
  Proof.
    intros -> Hl Hv. unfold sigma_b. rewrite rest_axes_full, app_nil_r.
    rewrite <- (perm_minus_some G s (rev (seq 0 (ndim G R (fbase G R b)))) (ndim G R (fbase G R b)))
      by (apply Permutation_sym, Permutation_rev).
    rewrite <- Hl. apply (perm_minus_rev G HG s Hv).
  Qed.

  Lemma nondual_axes_conj (x : fa) pd :
    nondual_axes (fbase G R (f_conj G R x true pd)) = dual_axes (fbase G R x).
  Proof.
    rewrite conj_indices'. unfold axes_where, enumerate.
    rewrite (axes_where_iconj_gen G (fun ix => negb (idual G ix)) (indices G R (fbase G R x)) 0). f_equal. apply filter_ext.
    intros p. now rewrite iconj_dual, negb_involutive.
  Qed.

  (* ---- the hypotheses on the operand ---- *)
  (* every index ket-like, or the dual-leg sign option *)
  Definition dual_cond (x : fa) (pd : bool) : Prop :=
    pd = true \/ Forall (fun ix => idual G ix = false) (indices G R (fbase G R x)).

  Lemma all_ket_no_dual_axes (ixs : list (index G)) :
    Forall (fun ix => idual G ix = false) ixs -> axes_where G (idual G) ixs = [].
  Proof.
    intros H. unfold axes_where. rewrite filter_none; [reflexivity|].
    intros [i ix] Hin. cbn [snd]. unfold enumerate in Hin. apply in_combine_r in Hin.
    rewrite Forall_forall in H. now apply H.
  Qed.

  Lemma dual_cond_sign x pd (s : sector) : dual_cond x pd ->
    pd && count_odd G s (dual_axes (fbase G R x)) = count_odd G s (dual_axes (fbase G R x)).
  Proof.
    intros [-> | H]; [reflexivity|]. rewrite all_ket_no_dual_axes by exact H.
    unfold count_odd. cbn [filter length Nat.odd]. apply andb_false_r.
  Qed.

  Definition norm_sum_l (x : fa) : RT R :=
    rsum R (map (fun cs => rmul R (rconj R (sem G R (f_value G R x) cs)) (sem G R (f_value G R x) cs))
                (all_coords G (indices G R (fbase G R x)))).
  Definition norm_sum_r (x : fa) : RT R :=
    rsum R (map (fun cs => rmul R (sem G R (f_value G R x) cs) (rconj R (sem G R (f_value G R x) cs)))
                (all_coords G (indices G R (fbase G R x)))).

  Lemma sem_stored (x : fa) (cs : list (coord G)) :
    sem G R (f_value G R x) cs = r0 R \/ In (map fst cs) (fsectors G R x).
  Proof.
    unfold sem. destruct (lookup keq (map fst cs) (blocks G R (f_value G R x))) as [t|] eqn:E; [right | now left].
    rewrite <- (sectors_f_value G R). exact (lookup_In_sectors G cspec _ _ _ E).
  Qed.

  Lemma without_axes_all {A} (l : list A) n : n = length l -> without_axes l (seq 0 n) = [].
  Proof. intros ->. apply without_axes_full. Qed.

  Lemma take_axes_all {A} (d : A) (l : list A) n : n = length l -> take_axes d l (seq 0 n) = l.
  Proof. intros ->. apply take_axes_seq. Qed.

  Lemma all_coords_conj (ixs : list (index G)) : all_coords G (map (iconj G) ixs) = all_coords G ixs.
  Proof. apply all_coords_agree, chargemap_conj. Qed.

  Lemma all_coords_len (ixs : list (index G)) kc : In kc (all_coords G ixs) -> length kc = length ixs.
  Proof. intros H. unfold all_coords in H. apply product_length in H. now rewrite map_length in H. Qed.

  Lemma a_scalar_sem (y : aarray G R) : a_scalar G R y = sem G R y ([] ++ []).
  Proof. reflexivity. Qed.

  (* ---- conj(x) . x ---- *)
  Theorem norm_left_signed (x : fa) (pd : bool) :
    let n := ndim G R (fbase G R x) in
    wf_array G R (fbase G R x) = true -> tables_nodup G R (fbase G R x) = true ->
    labels_ok (foddpos G R x) -> dual_cond x pd ->
    exists y, f_tensordot G R (f_conj G R x true pd) x (full_axes n) MBlockwise = Some y /\
      foddpos G R y = [] /\
      a_scalar G R (f_value G R y) = rsgn R (n_dual (foddpos G R x)) (norm_sum_l x).
  Proof.
    intros n Hw Ht Hl Hd.
    pose proof (wf_array_awf G HG R _ Hw) as W.
    pose proof (awf_charge G R _ W) as Hq. pose proof (awf_nodup G R _ W) as Hnd.
    set (cx := f_conj G R x true pd).
    assert (Ncx : ndim G R (fbase G R cx) = n) by apply conj_ndim.
    assert (Icx : indices G R (fbase G R cx) = map (iconj G) (indices G R (fbase G R x))) by apply conj_indices'.
    assert (Ln : n = length (indices G R (fbase G R x))) by reflexivity.
    assert (Lcx : n = length (indices G R (fbase G R cx))) by (rewrite Icx, map_length; reflexivity).
    set (E := n_dual (foddpos G R x)).
    set (minus := xorb (fparity G R cx && Nat.odd (length (foddpos G R x))) E).
    pose proof (tensordot_blockwise_element G R NL cspec RL cx x (full_axes n) (seq 0 n) (seq 0 n) minus []) as T.
    cbv zeta in T.
    destruct T as [y [Hy1 [Hy2 Hy3]]].
    - rewrite Ncx. apply parse_full.
    - now apply conj_blocks_ok.
    - now apply (wf_blocks_ok G R cspec).
    - apply seq_NoDup.
    - intros i Hi. apply in_seq in Hi. rewrite Ncx. lia.
    - apply seq_NoDup.
    - intros i Hi. apply in_seq in Hi. fold n. lia.
    - apply opposite_conj_l.
    - rewrite (take_axes_all ix_d _ n Lcx), Icx. apply nodup_tables_conj. now apply (tables_nodup_Forall G HG).
    - rewrite (take_axes_all ix_d _ n Lcx), (take_axes_all ix_d _ n Ln), Icx. apply chargemap_conj.
    - unfold cx at 2. rewrite foddpos_conj. now apply resolve_dag_left.
    - exists y. split; [exact Hy1|]. split; [exact Hy2|].
      rewrite a_scalar_sem, Hy3.
      2:{ now rewrite (without_axes_all _ n Lcx). }
      2:{ now rewrite (without_axes_all _ n Ln). }
      rewrite (take_axes_all ix_d _ n Lcx), Icx, all_coords_conj.
      unfold norm_sum_l. rewrite <- !rsum_rsgn. apply (Tdot.rsum_ext R). intros kc Hkc.
      pose proof (all_coords_len _ _ Hkc) as Lk. rewrite <- Ln in Lk.
      rewrite Ncx. fold n. rewrite !(merge_full kc n Lk).
      unfold cx at 2. rewrite (sem_conj x pd kc Hq Hnd).
      destruct (sem_stored x kc) as [H0 | Hin].
      + rewrite H0, Hc0, !(rsgn_zero R NL), (rmul_0_r R RL), !(rsgn_zero R NL). reflexivity.
      + set (s := map fst kc) in *.
        pose proof (awf_len G R _ W s Hin) as Ls. pose proof (awf_valid G R _ W s Hin) as Vs.
        rewrite (sigma_a_full cx s n (eq_sym Ncx)). unfold cx at 1. rewrite nondual_axes_conj.
        rewrite (sigma_b_full x s n eq_refl Ls Vs).
        rewrite rsgn_rsgn, rmul_rsgn, rsgn_rsgn. f_equal.
        unfold minus, conj_sign, glob_flag, cx. rewrite (conj_parity G HG R x true pd Hq).
        pose proof (dual_cond_sign x pd s Hd) as HD. rewrite HD. cbn [andb].
        generalize (count_odd G s (dual_axes (fbase G R x))) (perm_minus G s None) (fparity G R x)
          (Nat.odd (length (foddpos G R x))) E.
        intros b1 b2 b3 b4 b5. destruct b1, b2, b3, b4, b5; reflexivity.
  Qed.

  (* charge conservation: odd charges on bra legs + odd charges on ket legs = parity of the array *)
  Lemma ket_bra_parity (x : fa) (s : sector) : awf G R (fbase G R x) -> In s (fsectors G R x) ->
    xorb (count_odd G s (dual_axes (fbase G R x))) (count_odd G s (nondual_axes (fbase G R x))) = fparity G R x.
  Proof.
    intros W Hin. pose proof (awf_len G R _ W s Hin) as Ls.
    rewrite !(count_odd_axes G) by exact Ls. rewrite (Dc_split G) by exact Ls.
    exact (awf_cons G R _ W s Hin).
  Qed.

  (* ---- x . conj(x) ---- *)
  Theorem norm_right_signed (x : fa) (pd : bool) :
    let n := ndim G R (fbase G R x) in
    wf_array G R (fbase G R x) = true -> tables_nodup G R (fbase G R x) = true ->
    labels_ok (foddpos G R x) -> dual_cond x pd ->
    exists y, f_tensordot G R x (f_conj G R x true pd) (full_axes n) MBlockwise = Some y /\
      foddpos G R y = [] /\
      a_scalar G R (f_value G R y)
      = rsgn R (xorb (fparity G R x) (n_nondual (foddpos G R x))) (norm_sum_r x).
  Proof.
    intros n Hw Ht Hl Hd.
    pose proof (wf_array_awf G HG R _ Hw) as W.
    pose proof (awf_charge G R _ W) as Hq. pose proof (awf_nodup G R _ W) as Hnd.
    set (cx := f_conj G R x true pd).
    assert (Ncx : ndim G R (fbase G R cx) = n) by apply conj_ndim.
    assert (Icx : indices G R (fbase G R cx) = map (iconj G) (indices G R (fbase G R x))) by apply conj_indices'.
    assert (Ln : n = length (indices G R (fbase G R x))) by reflexivity.
    assert (Lcx : n = length (indices G R (fbase G R cx))) by (rewrite Icx, map_length; reflexivity).
    set (E := n_nondual (foddpos G R x)).
    set (minus := xorb (fparity G R x && Nat.odd (length (foddpos G R x))) E).
    pose proof (tensordot_blockwise_element G R NL cspec RL x cx (full_axes n) (seq 0 n) (seq 0 n) minus []) as T.
    cbv zeta in T.
    destruct T as [y [Hy1 [Hy2 Hy3]]].
    - rewrite Ncx. apply parse_full.
    - now apply (wf_blocks_ok G R cspec).
    - now apply conj_blocks_ok.
    - apply seq_NoDup.
    - intros i Hi. apply in_seq in Hi. fold n. lia.
    - apply seq_NoDup.
    - intros i Hi. apply in_seq in Hi. rewrite Ncx. lia.
    - apply opposite_conj_r.
    - rewrite (take_axes_all ix_d _ n Ln). now apply (tables_nodup_Forall G HG).
    - rewrite (take_axes_all ix_d _ n Lcx), (take_axes_all ix_d _ n Ln), Icx. symmetry. apply chargemap_conj.
    - unfold cx. rewrite foddpos_conj. now apply resolve_dag_right.
    - exists y. split; [exact Hy1|]. split; [exact Hy2|].
      rewrite a_scalar_sem, Hy3.
      2:{ now rewrite (without_axes_all _ n Ln). }
      2:{ now rewrite (without_axes_all _ n Lcx). }
      rewrite (take_axes_all ix_d _ n Ln).
      unfold norm_sum_r. rewrite <- !rsum_rsgn. apply (Tdot.rsum_ext R). intros kc Hkc.
      pose proof (all_coords_len _ _ Hkc) as Lk. rewrite <- Ln in Lk.
      rewrite Ncx. fold n. rewrite !(merge_full kc n Lk).
      unfold cx at 2. rewrite (sem_conj x pd kc Hq Hnd).
      destruct (sem_stored x kc) as [H0 | Hin].
      + rewrite H0, Hc0, !(rsgn_zero R NL), (rmul_0_r R RL), !(rsgn_zero R NL). reflexivity.
      + set (s := map fst kc) in *.
        pose proof (awf_len G R _ W s Hin) as Ls. pose proof (awf_valid G R _ W s Hin) as Vs.
        rewrite (sigma_a_full x s n eq_refl).
        rewrite (sigma_b_full cx s n (eq_sym Ncx) Ls Vs).
        rewrite rsgn_rsgn, rmul_rsgn, rsgn_rsgn. f_equal.
        unfold minus, conj_sign, glob_flag.
        pose proof (dual_cond_sign x pd s Hd) as HD. rewrite HD. cbn [andb].
        pose proof (ket_bra_parity x s W Hin) as HP. rewrite <- HP.
        generalize (count_odd G s (dual_axes (fbase G R x))) (count_odd G s (nondual_axes (fbase G R x)))
          (perm_minus G s None) (Nat.odd (length (foddpos G R x))) E.
        intros b1 b2 b3 b4 b5. destruct b1, b2, b3, b4, b5; reflexivity.
  Qed.

  (* ================================================================ part C *)
  (* the labels of a ket: no conjugated (dual) label *)
  Definition labels_ket (l : list fop) : Prop := forall c, In c l -> snd c = false.
  Definition all_ket (x : fa) : Prop := Forall (fun ix => idual G ix = false) (indices G R (fbase G R x)).

  Lemma rsgn_false v : rsgn R false v = v.
  Proof. reflexivity. Qed.

  (* 1. every index ket-like: either setting of the dual-leg option *)
  Theorem norm_all_ket (x : fa) (pd : bool) :
    wf_array G R (fbase G R x) = true -> tables_nodup G R (fbase G R x) = true ->
    labels_ok (foddpos G R x) -> labels_ket (foddpos G R x) -> all_ket x ->
    exists y, f_tensordot G R (f_conj G R x true pd) x (full_axes (ndim G R (fbase G R x))) MBlockwise = Some y /\
      foddpos G R y = [] /\ a_scalar G R (f_value G R y) = norm_sum_l x.
  Proof.
    intros Hw Ht Hl Hk Ha.
    destruct (norm_left_signed x pd Hw Ht Hl (or_intror Ha)) as [y [H1 [H2 H3]]].
    exists y. split; [exact H1|]. split; [exact H2|]. rewrite H3, (n_dual_all_nondual _ Hk). reflexivity.
  Qed.

  (* 2. any dualness pattern, with the dual-leg sign option *)
  Theorem norm_dual_option (x : fa) :
    wf_array G R (fbase G R x) = true -> tables_nodup G R (fbase G R x) = true ->
    labels_ok (foddpos G R x) -> labels_ket (foddpos G R x) ->
    exists y, f_tensordot G R (f_conj G R x true true) x (full_axes (ndim G R (fbase G R x))) MBlockwise = Some y /\
      foddpos G R y = [] /\ a_scalar G R (f_value G R y) = norm_sum_l x.
  Proof.
    intros Hw Ht Hl Hk.
    destruct (norm_left_signed x true Hw Ht Hl (or_introl eq_refl)) as [y [H1 [H2 H3]]].
    exists y. split; [exact H1|]. split; [exact H2|]. rewrite H3, (n_dual_all_nondual _ Hk). reflexivity.
  Qed.

  Lemma right_sign (x : fa) : labels_ket (foddpos G R x) ->
    Nat.odd (length (foddpos G R x)) = fparity G R x ->
    xorb (fparity G R x) (n_nondual (foddpos G R x)) = false.
  Proof.
    intros Hk Hi. rewrite <- Hi, <- (n_dual_nondual (foddpos G R x)), (n_dual_all_nondual _ Hk).
    rewrite xorb_false_l. apply xorb_nilpotent.
  Qed.

  (* 3. the other operand order *)
  Theorem norm_all_ket_rev (x : fa) (pd : bool) :
    wf_array G R (fbase G R x) = true -> tables_nodup G R (fbase G R x) = true ->
    labels_ok (foddpos G R x) -> labels_ket (foddpos G R x) ->
    Nat.odd (length (foddpos G R x)) = fparity G R x -> all_ket x ->
    exists y, f_tensordot G R x (f_conj G R x true pd) (full_axes (ndim G R (fbase G R x))) MBlockwise = Some y /\
      foddpos G R y = [] /\ a_scalar G R (f_value G R y) = norm_sum_r x.
  Proof.
    intros Hw Ht Hl Hk Hi Ha.
    destruct (norm_right_signed x pd Hw Ht Hl (or_intror Ha)) as [y [H1 [H2 H3]]].
    exists y. split; [exact H1|]. split; [exact H2|]. rewrite H3, (right_sign x Hk Hi). reflexivity.
  Qed.

  Theorem norm_dual_option_rev (x : fa) :
    wf_array G R (fbase G R x) = true -> tables_nodup G R (fbase G R x) = true ->
    labels_ok (foddpos G R x) -> labels_ket (foddpos G R x) ->
    Nat.odd (length (foddpos G R x)) = fparity G R x ->
    exists y, f_tensordot G R x (f_conj G R x true true) (full_axes (ndim G R (fbase G R x))) MBlockwise = Some y /\
      foddpos G R y = [] /\ a_scalar G R (f_value G R y) = norm_sum_r x.
  Proof.
    intros Hw Ht Hl Hk Hi.
    destruct (norm_right_signed x true Hw Ht Hl (or_introl eq_refl)) as [y [H1 [H2 H3]]].
    exists y. split; [exact H1|]. split; [exact H2|]. rewrite H3, (right_sign x Hk Hi). reflexivity.
  Qed.

  (* with conjugated labels present the contraction is the norm up to the sign (-1)^(number of
     conjugated labels), in both orders *)
  Theorem norm_right_signed_inv (x : fa) (pd : bool) :
    wf_array G R (fbase G R x) = true -> tables_nodup G R (fbase G R x) = true ->
    labels_ok (foddpos G R x) -> Nat.odd (length (foddpos G R x)) = fparity G R x -> dual_cond x pd ->
    exists y, f_tensordot G R x (f_conj G R x true pd) (full_axes (ndim G R (fbase G R x))) MBlockwise = Some y /\
      foddpos G R y = [] /\
      a_scalar G R (f_value G R y) = rsgn R (n_dual (foddpos G R x)) (norm_sum_r x).
  Proof.
    intros Hw Ht Hl Hi Hd.
    destruct (norm_right_signed x pd Hw Ht Hl Hd) as [y [H1 [H2 H3]]].
    exists y. split; [exact H1|]. split; [exact H2|]. rewrite H3. f_equal.
    rewrite <- Hi, <- (n_dual_nondual (foddpos G R x)).
    destruct (n_dual (foddpos G R x)), (n_nondual (foddpos G R x)); reflexivity.
  Qed.

  (* ---- the sums are the squared norm `a_norm2` of the value ---- *)
  Lemma f_value_wf (x : fa) : wf_array G R (fbase G R x) = true -> wf_array G R (f_value G R x) = true.
  Proof.
    intros Hw. apply (wf_array_iff G HG) in Hw. unfold f_value, f_phase_sync. cbn [fbase]. unfold with_blocks.
    apply (wf_mk G HG). apply (WF_blocks G R _ _ _ _ Hw).
    - rewrite map_map. rewrite (map_ext _ fst); [apply (wf_nd G R _ _ _ Hw)|].
      intros sb. destruct (ph_has G (fst sb) (fphases G R x)); reflexivity.
    - intros s t Hin. apply in_map_iff in Hin. destruct Hin as ([s0 t0] & Heq & Hin). cbn [fst snd] in Heq.
      pose proof (wf_bl G R _ _ _ Hw _ _ Hin) as Hb.
      destruct (ph_has G s0 (fphases G R x)); inversion Heq; subst s t; [|exact Hb].
      apply BlkOK_tmap. exact Hb.
  Qed.

  Theorem norm_sum_r_norm2 (x : fa) :
    wf_array G R (fbase G R x) = true -> tables_nodup G R (fbase G R x) = true ->
    norm_sum_r x = a_norm2 G R (f_value G R x).
  Proof.
    intros Hw Ht. symmetry.
    exact (norm2_sem G HG R (radd_0_l R RL) (radd_comm R RL) (radd_assoc R RL) (rmul_0_l R RL)
             (f_value G R x) (f_value_wf x Hw) Ht).
  Qed.

  Theorem norm_sum_l_norm2 (Hmc : forall a b, rmul R a b = rmul R b a) (x : fa) :
    wf_array G R (fbase G R x) = true -> tables_nodup G R (fbase G R x) = true ->
    norm_sum_l x = a_norm2 G R (f_value G R x).
  Proof.
    intros Hw Ht. rewrite <- (norm_sum_r_norm2 x Hw Ht). unfold norm_sum_l, norm_sum_r.
    apply (Tdot.rsum_ext R). intros cs _. apply Hmc.
  Qed.
End Norm.

(* the multiplicative law used by `norm_sum_l_norm2` holds in the two exact rings *)
Lemma ZRing_mul_comm (a b : RT ZRing) : rmul ZRing a b = rmul ZRing b a.
Proof. apply Z.mul_comm. Qed.
Lemma GRing_mul_comm (a b : RT GRing) : rmul GRing a b = rmul GRing b a.
Proof. destruct a, b. cbn [GRing rmul fst snd]. f_equal; lia. Qed.

(* ================================================================ part D *)
(* The hypotheses hold on concrete non-trivial instances, and both sides evaluate to the same
   number there: odd parity, pending signs, complex (Gaussian-integer) data. *)
Module NormEx.
  Local Open Scope Z_scope.

  Lemma labels_ok_dec (l : list fop) :
    sorted_by fop_ltb l = true -> nodupb lab_eqb (map fst l) = true -> labels_ok l.
  Proof. intros H1 H2. split; [exact H1|]. exact (Tdot.nodupb_NoDup lab_eqb lab_eqb_eq _ H2). Qed.

  Lemma labels_ket_dec (l : list fop) : forallb (fun c : fop => negb (snd c)) l = true -> labels_ket l.
  Proof. intros H c Hc. rewrite forallb_forall in H. specialize (H c Hc). now destruct (snd c). Qed.

  (* Z2, rank 3, ALL indices ket-like, ODD charge, four sectors, two pending signs, one label *)
  Definition k1 : farray Z2 GRing :=
    mkF Z2 GRing (mkA Z2 GRing
      [Index Z2 [(0, 1%nat); (1, 2%nat)] false None; Index Z2 [(0, 2%nat); (1, 1%nat)] false None;
       Index Z2 [(0, 1%nat); (1, 1%nat)] false None] 1
      [([1;0;0], @mkT GRing [2%nat;2%nat;1%nat] [(1,2);(3,-1);(0,5);(-2,7)]);
       ([0;1;0], @mkT GRing [1%nat;1%nat;1%nat] [(4,-3)]);
       ([1;1;1], @mkT GRing [2%nat;1%nat;1%nat] [(2,2);(-1,6)]);
       ([0;0;1], @mkT GRing [1%nat;2%nat;1%nat] [(7,1);(0,-9)])])
      [[0;1;0]; [1;1;1]] [([3], false)].
  (* the same data with directions (ket, bra, ket): ConjProofs.ex_x1; with three sorted labels: *)
  Definition m3 : farray Z2 GRing :=
    mkF Z2 GRing (fbase _ _ ex_x1) (fphases _ _ ex_x1) [([1], false); ([2; 0], false); ([5], false)].
  (* U1, rank 2, directions (bra, ket), odd charge -1, pending sign, one tuple label *)
  Definition u2 : farray U1 ZRing := mkF U1 ZRing (fbase _ _ ex_x2) (fphases _ _ ex_x2) [([0; 7], false)].
  (* even parity, no label, mixed directions *)
  Definition e0 : farray Z2 GRing := mkF Z2 GRing (fbase _ _ ex_x3) (fphases _ _ ex_x3) [].

  Definition scalar_of {G R} (o : option (farray G R)) : option (RT R * list fop) :=
    match o with Some y => Some (a_scalar G R (f_value G R y), foddpos G R y) | None => None end.
  Definition dotL {G R} (x : farray G R) (pd : bool) :=
    scalar_of (f_tensordot G R (f_conj G R x true pd) x (full_axes (ndim G R (fbase G R x))) MBlockwise).
  Definition dotR {G R} (x : farray G R) (pd : bool) :=
    scalar_of (f_tensordot G R x (f_conj G R x true pd) (full_axes (ndim G R (fbase G R x))) MBlockwise).

  Example k1_hyps :
    wf_array Z2 GRing (fbase _ _ k1) = true /\ tables_nodup Z2 GRing (fbase _ _ k1) = true /\
    labels_ok (foddpos _ _ k1) /\ labels_ket (foddpos _ _ k1) /\
    Nat.odd (length (foddpos _ _ k1)) = fparity _ _ k1 /\ all_ket Z2 GRing k1 /\ fparity _ _ k1 = true.
  Proof.
    split; [reflexivity|]. split; [reflexivity|]. split; [apply labels_ok_dec; reflexivity|].
    split; [apply labels_ket_dec; reflexivity|]. split; [reflexivity|]. split; [repeat constructor | reflexivity].
  Qed.

  Example k1_values :
    dotL k1 false = Some ((294, 0), []) /\ dotL k1 true = Some ((294, 0), []) /\
    dotR k1 false = Some ((294, 0), []) /\ dotR k1 true = Some ((294, 0), []) /\
    norm_sum_l Z2 GRing k1 = (294, 0) /\ norm_sum_r Z2 GRing k1 = (294, 0) /\
    a_norm2 Z2 GRing (f_value _ _ k1) = (294, 0).
  Proof. vm_compute. repeat split; reflexivity. Qed.

  Example k1_thm pd : exists y,
    f_tensordot Z2 GRing (f_conj _ _ k1 true pd) k1 (full_axes 3) MBlockwise = Some y /\
    foddpos _ _ y = [] /\ a_scalar _ _ (f_value _ _ y) = norm_sum_l Z2 GRing k1.
  Proof.
    destruct k1_hyps as (H1 & H2 & H3 & H4 & H5 & H6 & _).
    exact (norm_all_ket Z2 Z2_laws GRing GRing_neg_laws GRing_sum_laws GRing_conj_0 GRing_conj_neg k1 pd H1 H2 H3 H4 H6).
  Qed.

  Example x1_hyps :
    wf_array Z2 GRing (fbase _ _ ex_x1) = true /\ tables_nodup Z2 GRing (fbase _ _ ex_x1) = true /\
    labels_ok (foddpos _ _ ex_x1) /\ labels_ket (foddpos _ _ ex_x1) /\
    Nat.odd (length (foddpos _ _ ex_x1)) = fparity _ _ ex_x1 /\ fparity _ _ ex_x1 = true /\
    duals Z2 GRing (fbase _ _ ex_x1) = [false; true; false].
  Proof.
    split; [reflexivity|]. split; [reflexivity|]. split; [apply labels_ok_dec; reflexivity|].
    split; [apply labels_ket_dec; reflexivity|]. split; [reflexivity|]. split; reflexivity.
  Qed.

  (* mixed directions: the dual-leg option gives the norm in both orders; without it the result
     is NOT the norm (the hypothesis "all ket or option" is needed) *)
  Example x1_values :
    dotL ex_x1 true = Some ((294, 0), []) /\ dotR ex_x1 true = Some ((294, 0), []) /\
    a_norm2 Z2 GRing (f_value _ _ ex_x1) = (294, 0) /\
    dotL ex_x1 false = Some ((154, 0), []) /\ dotR ex_x1 false = Some ((154, 0), []).
  Proof. vm_compute. repeat split; reflexivity. Qed.

  Example x1_thm : exists y,
    f_tensordot Z2 GRing ex_x1 (f_conj _ _ ex_x1 true true) (full_axes 3) MBlockwise = Some y /\
    foddpos _ _ y = [] /\ a_scalar _ _ (f_value _ _ y) = norm_sum_r Z2 GRing ex_x1.
  Proof.
    destruct x1_hyps as (H1 & H2 & H3 & H4 & H5 & _).
    exact (norm_dual_option_rev Z2 Z2_laws GRing GRing_neg_laws GRing_sum_laws GRing_conj_0 GRing_conj_neg ex_x1 H1 H2 H3 H4 H5).
  Qed.

  (* three sorted labels, mixed directions; U1 with a (bra, ket) matrix; even parity without label *)
  Example more_hyps :
    labels_ok (foddpos _ _ m3) /\ labels_ket (foddpos _ _ m3) /\ Nat.odd (length (foddpos _ _ m3)) = fparity _ _ m3 /\
    wf_array U1 ZRing (fbase _ _ u2) = true /\ tables_nodup U1 ZRing (fbase _ _ u2) = true /\
    labels_ok (foddpos _ _ u2) /\ labels_ket (foddpos _ _ u2) /\ Nat.odd (length (foddpos _ _ u2)) = fparity _ _ u2 /\
    wf_array Z2 GRing (fbase _ _ e0) = true /\ tables_nodup Z2 GRing (fbase _ _ e0) = true /\
    labels_ok (foddpos _ _ e0) /\ labels_ket (foddpos _ _ e0) /\ Nat.odd (length (foddpos _ _ e0)) = fparity _ _ e0.
  Proof.
    split; [apply labels_ok_dec; reflexivity|]. split; [apply labels_ket_dec; reflexivity|]. split; [reflexivity|].
    split; [reflexivity|]. split; [reflexivity|]. split; [apply labels_ok_dec; reflexivity|].
    split; [apply labels_ket_dec; reflexivity|]. split; [reflexivity|].
    split; [reflexivity|]. split; [reflexivity|]. split; [apply labels_ok_dec; reflexivity|].
    split; [apply labels_ket_dec; reflexivity | reflexivity].
  Qed.

  Example more_values :
    dotL m3 true = Some ((294, 0), []) /\ dotR m3 true = Some ((294, 0), []) /\
    dotL u2 true = Some (91, []) /\ dotR u2 true = Some (91, []) /\ a_norm2 U1 ZRing (f_value _ _ u2) = 91 /\
    dotL e0 true = Some ((41, 0), []) /\ dotR e0 true = Some ((41, 0), []) /\ a_norm2 Z2 GRing (f_value _ _ e0) = (41, 0).
  Proof. vm_compute. repeat split; reflexivity. Qed.

  (* the label theorems on a mixed sorted list, and the need for "no label twice" *)
  Example resolve_values :
    labels_ok [([7], true); ([4], true); ([1], false); ([2], false); ([9], false)] /\
    resolve_oddpos true (oddpos_dag [([7], true); ([4], true); ([1], false); ([2], false); ([9], false)])
                        [([7], true); ([4], true); ([1], false); ([2], false); ([9], false)] = Some (true, []) /\
    resolve_oddpos true [([7], true); ([4], true); ([1], false); ([2], false); ([9], false)]
                        (oddpos_dag [([7], true); ([4], true); ([1], false); ([2], false); ([9], false)]) = Some (false, []) /\
    sorted_by fop_ltb [([1], true); ([1], false)] = true /\
    resolve_oddpos true (oddpos_dag [([1], true); ([1], false)]) [([1], true); ([1], false)] = Some (false, []) /\
    n_dual [([1], true); ([1], false)] = true.
  Proof. split; [apply labels_ok_dec; reflexivity|]. vm_compute. repeat split; reflexivity. Qed.

  (* a CONJUGATED (dual) label on the operand: the contraction is MINUS the norm, as
     `norm_left_signed` / `norm_right_signed_inv` say (ConjProofs.ex_x2 carries the label ([0;7], dual)) *)
  Example dual_label_values :
    labels_ok (foddpos _ _ ex_x2) /\ n_dual (foddpos _ _ ex_x2) = true /\
    dotL ex_x2 true = Some (-91, []) /\ dotR ex_x2 true = Some (-91, []) /\
    a_norm2 U1 ZRing (f_value _ _ ex_x2) = 91.
  Proof. split; [apply labels_ok_dec; reflexivity|]. vm_compute. repeat split; reflexivity. Qed.
End NormEx.
