(* Proofs/WfProofs2.v — property C01, continuation of Proofs/WfProofs.v: the
   validity predicate `wf_array` / `wf_fermi` is preserved by the operations
   that WfProofs.v left open.

   Structure
     §1  unfuse of one axis / of all axes                (`unfuse_wf`, `unfuse_all_wf`)
     §2  single-array einsum (traces + permutation)      (`einsum_wf`)
     §3  matmul, tensordot front end in blockwise mode   (`matmul_wf`, `tensordot_blockwise_front_wf`)
     §4  fermionic matmul / tensordot (blockwise) / unfuse / fuse of one group
     §4b fuse of several groups at once (abelian with empty groups, fermionic);
         contraction in fused mode; tensordot / fermionic tensordot in every mode
     §5  the extended instruction set `instr2`, `run2`, `programs_wf2`
     §6  examples (vm_compute)
   Still not covered: the decompositions (no array-level model).
   Nothing is bounded; no axioms. *)
From SV Require Import Base.Prelude Base.Sym Base.Tensor Model.Sectors Model.Array Model.Arith
  Model.Fermi Model.Wf Model.Valid Model.SymInst
  Proofs.FuseTensor Proofs.FuseProofs Proofs.SymLaws Proofs.GroupFacts Proofs.SectorsProofs Proofs.OrderProofs Proofs.TensorProofs
  Proofs.StructProofs Proofs.Tdot Proofs.TdotInst Proofs.TraceEinsumProofs Proofs.WfProofs.
From Coq Require Import Permutation Sorting Lia.
Local Open Scope nat_scope.

(* ------------------------------------------------------------------ *)
(* §0 helpers *)

Lemma fold_left_inv {A B} (Inv : A -> Prop) (f : A -> B -> A) (l : list B) :
  (forall acc b, In b l -> Inv acc -> Inv (f acc b)) -> forall acc, Inv acc -> Inv (fold_left f l acc).
Proof.
  induction l as [|b l IH]; intros Hf acc Hacc; cbn [fold_left]; [exact Hacc|].
  apply IH; [intros acc' b' Hb'; apply Hf; right; exact Hb'|]. apply Hf; [left; reflexivity|exact Hacc].
Qed.

Lemma In_combine_ranges {A} (l : list (A * nat)) : forall (st : list nat) a b c,
  In (a, (b, c)) (List.combine (map fst l) (List.combine st (map snd l))) -> In (a, c) l.
Proof.
  induction l as [|[x n] l IH]; intros st a b c H; cbn [map fst snd List.combine] in H; [destruct H|].
  destruct st as [|s0 st]; cbn [List.combine] in H; [destruct H|].
  destruct H as [H|H]; [inversion H; left; reflexivity|right; apply (IH st a b c H)].
Qed.

Lemma replace_with_seq_app {A} (l1 : list A) x l2 s :
  replace_with_seq (l1 ++ x :: l2) (length l1) s = l1 ++ s ++ l2.
Proof.
  unfold replace_with_seq. induction l1 as [|a l1 IH]; cbn [length app firstn skipn]; [reflexivity|].
  f_equal. exact IH.
Qed.

Lemma Forall2_app_split {A B} (P : A -> B -> Prop) : forall (l1 : list A) (l1' : list B) l2 l2',
  length l1 = length l1' -> Forall2 P (l1 ++ l2) (l1' ++ l2') -> Forall2 P l1 l1' /\ Forall2 P l2 l2'.
Proof.
  induction l1 as [|a l1 IH]; intros [|b l1'] l2 l2' Hl H; try discriminate Hl; cbn [app] in H.
  - split; [constructor|exact H].
  - inversion H as [|? ? ? ? Hab Hr]; subst. cbn [length] in Hl.
    destruct (IH l1' l2 l2' ltac:(lia) Hr) as [H1 H2]. split; [constructor; assumption|exact H2].
Qed.

Lemma Forall2_len {A B} (P : A -> B -> Prop) l l' : Forall2 P l l' -> length l = length l'.
Proof. intros H. induction H; cbn [length]; [reflexivity|now f_equal]. Qed.

Lemma Forall2_nth_in {A B} (P : A -> B -> Prop) da db : forall (l : list A) (l' : list B),
  length l = length l' -> (forall i, i < length l -> P (nth i l da) (nth i l' db)) -> Forall2 P l l'.
Proof.
  induction l as [|a l IH]; intros [|b l'] Hl H; try discriminate Hl; constructor.
  - apply (H 0). cbn [length]. lia.
  - apply IH; [cbn [length] in Hl; lia|]. intros i Hi. apply (H (S i)). cbn [length]. lia.
Qed.

Lemma NoDup_positions q l : NoDup (positions q l).
Proof.
  unfold positions, enumerate. apply NoDup_map_filter.
  rewrite Tdot.map_fst_combine by apply seq_length. apply seq_NoDup.
Qed.

Lemma NoDup_flat_map_disj {A B} (f : A -> list B) (l : list A) :
  NoDup l -> (forall x, In x l -> NoDup (f x)) ->
  (forall x y z, In x l -> In y l -> In z (f x) -> In z (f y) -> x = y) -> NoDup (flat_map f l).
Proof.
  intros Hnd. induction Hnd as [|a l Ha Hnd IH]; intros Hf Hdisj; cbn [flat_map]; [constructor|].
  apply NoDup_app'.
  - apply Hf. left. reflexivity.
  - apply IH; [intros x Hx; apply Hf; right; exact Hx|].
    intros x y z Hx Hy. apply Hdisj; right; assumption.
  - intros z Hz Hz'. apply in_flat_map in Hz'. destruct Hz' as (y & Hy & Hzy).
    assert (a = y) by (apply (Hdisj a y z); [left; reflexivity|right; exact Hy|exact Hz|exact Hzy]).
    subst y. contradiction.
Qed.

(* every position of `lhs` is either the position of an output label or one of
   the two positions of a summed label *)
Lemma einsum_positions_perm lhs rhs :
  labels_ok lhs rhs = true ->
  Permutation (eperm lhs rhs ++ flat_map (fun q => positions q lhs) (traced_of lhs rhs)) (seq 0 (length lhs)).
Proof.
  intros Hl. destruct (labels_ok_spec lhs rhs Hl) as [Hnd Hkept].
  apply NoDup_Permutation.
  - apply NoDup_app'.
    + unfold eperm. apply NoDup_map_inj_on; [|exact Hnd]. intros a b Ha Hb E.
      destruct (index_of_In a lhs (kept_in_lhs lhs rhs Hkept a Ha)) as [_ E1].
      destruct (index_of_In b lhs (kept_in_lhs lhs rhs Hkept b Hb)) as [_ E2]. congruence.
    + apply NoDup_flat_map_disj.
      * apply traced_of_NoDup.
      * intros q _. apply NoDup_positions.
      * intros q q' i _ _ Hi Hi'. apply positions_spec in Hi. apply positions_spec in Hi'.
        destruct Hi as [_ <-]. destruct Hi' as [_ <-]. reflexivity.
    + intros i Hi Hi'. unfold eperm in Hi. apply in_map_iff in Hi. destruct Hi as (q & <- & Hq).
      apply in_flat_map in Hi'. destruct Hi' as (q' & Hq' & Hi').
      apply positions_spec in Hi'. destruct Hi' as [_ E].
      destruct (index_of_In q lhs (kept_in_lhs lhs rhs Hkept q Hq)) as [_ E1].
      apply traced_of_In in Hq'. destruct Hq' as [_ Hn]. apply Hn. rewrite <- E, E1. exact Hq.
  - apply seq_NoDup.
  - intros i. rewrite in_seq, in_app_iff. split.
    + intros [Hi|Hi].
      * unfold eperm in Hi. apply in_map_iff in Hi. destruct Hi as (q & <- & Hq).
        destruct (index_of_In q lhs (kept_in_lhs lhs rhs Hkept q Hq)) as [H _]. lia.
      * apply in_flat_map in Hi. destruct Hi as (q & _ & Hi). apply positions_spec in Hi. lia.
    + intros [_ Hi]. cbn [Nat.add] in Hi. set (q := nth i lhs 0).
      assert (Hql : In q lhs) by (apply nth_In; exact Hi).
      assert (Hip : In i (positions q lhs)) by (apply positions_spec; split; [exact Hi|reflexivity]).
      destruct (mem Nat.eqb q rhs) eqn:E.
      * apply memN_In in E. left. unfold eperm. apply in_map_iff. exists q. split; [|exact E].
        symmetry. apply (positions_one q lhs i (index_of q lhs) (Hkept q E) Hip).
        apply index_of_positions. exact Hql.
      * right. apply in_flat_map. exists q. split; [|exact Hip].
        apply traced_of_In. split; [exact Hql|]. intros Hin. apply memN_In in Hin. congruence.
Qed.

(* ---- several groups: the axis permutation ---- *)
Lemma group_of_none_iff ax : forall (gs : list (list nat)) k,
  is_none ((fix go (g : nat) (gs : list (list nat)) : option nat :=
              match gs with
              | [] => None
              | ga :: gs' => if mem Nat.eqb ax ga then Some g else go (S g) gs'
              end) k gs) = true <-> ~ In ax (concat gs).
Proof.
  induction gs as [|ga gs IH]; intros k; cbn [concat].
  - cbn [is_none]. split; [intros _ []|reflexivity].
  - rewrite in_app_iff. destruct (mem Nat.eqb ax ga) eqn:E.
    + apply memN_iff in E. cbn [is_none]. split; [discriminate|intros H; exfalso; apply H; left; exact E].
    + rewrite IH. assert (~ In ax ga) by (intros H; apply memN_iff in H; congruence). tauto.
Qed.

Lemma ungrouped_spec groups ax : is_none (group_of groups ax) = negb (mem Nat.eqb ax (concat groups)).
Proof.
  apply bool_eq_iff. unfold group_of. rewrite group_of_none_iff, negb_true_iff.
  destruct (mem Nat.eqb ax (concat groups)) eqn:E.
  - apply memN_iff in E. split; [contradiction|discriminate].
  - split; [reflexivity|]. intros _ H. apply memN_iff in H. congruence.
Qed.

Lemma fuse_perm_perm n groups :
  NoDup (concat groups) -> (forall i, In i (concat groups) -> i < n) -> concat groups <> [] ->
  Permutation (fuse_perm n groups) (seq 0 n).
Proof.
  intros Hnd Hlt Hne. unfold fuse_perm, axes_before, axes_after.
  set (pos := fuse_position groups).
  assert (Hpos : pos < n).
  { apply Hlt. unfold pos, fuse_position. apply (list_min_spec _ Hne). }
  eapply Permutation_trans; [apply Permutation_app_head; apply Permutation_app_comm|].
  rewrite app_assoc, <- filter_app, <- seq_app. replace (pos + (n - pos)) with n by lia.
  rewrite (filter_ext _ (fun i => negb (mem Nat.eqb i (concat groups)))) by (intros a; apply ungrouped_spec).
  apply (rest_axes_perm n (concat groups) Hnd Hlt).
Qed.


(* ------------------------------------------------------------------ *)
Section Wf2.
  Context (G : Symmetry) (HG : GroupLaws G) (R : Ring).
  Notation keq := (list_eqb (ceqb G)).
  Notation arr := (aarray G R).
  Notation farr := (farray G R).
  Notation sector := (list (C G)).
  Notation e := (ident G).
  Notation dix := (dflt_index G).
  Notation V c := (valid G c = true).
  Notation VA l := (valid_all G l = true).
  Notation WF := (WF G R).
  Notation SecOK := (SecOK G).
  Notation BlkOK := (BlkOK G R).
  Notation TabOK := (TabOK G).
  Notation IxsOK := (IxsOK G).
  Notation WFF := (WFF G R).
  Notation PhOK := (PhOK G).

  (* ---------------------------------------------------------------- *)
  (* §1 unfuse *)

  (* what a valid fused index says about its parts *)
  Lemma wf_index_fused cm d subs ext :
    wf_index G (Index G cm d (Some (subs, ext))) = true ->
    IxsOK subs /\
    forall c ex, In c (map fst cm) -> lookup (ceqb G) c ext = Some ex ->
      exists sz, extent_ok G (fun _ => true) d subs c sz ex = true.
  Proof.
    rewrite wf_index_unfold, !andb_true_iff. intros (_ & ((((_ & _) & Hall) & _) & _) & Hext). split.
    - unfold WfProofs.IxsOK. apply Forall_forall. apply forallb_forall. exact Hall.
    - intros c ex Hc Hlk. apply in_map_iff in Hc. destruct Hc as (p & <- & Hp).
      rewrite forallb_forall in Hext. specialize (Hext p Hp). rewrite Hlk in Hext. exists (snd p). exact Hext.
  Qed.

  Lemma extent_ok_In f d subs c sz ex ss len :
    extent_ok G f d subs c sz ex = true -> In (ss, len) ex ->
    length ss = length subs /\
    (forall i, i < length subs -> In (nth i ss e) (icharges G (nth i subs dix))) /\
    len = nprod (block_shape G subs ss) /\
    combine G (map (fun q => sign G (snd q) (negb (Bool.eqb d (idual G (fst q))))) (List.combine subs ss)) = c.
  Proof.
    unfold extent_ok. rewrite !andb_true_iff. intros [_ Hall] Hin.
    rewrite forallb_forall in Hall. specialize (Hall _ Hin). cbn [fst snd] in Hall.
    rewrite !andb_true_iff in Hall. destruct Hall as [[[H1 H2] H3] H4].
    apply Nat.eqb_eq in H1. apply Nat.eqb_eq in H3. apply (ceqb_eq G HG) in H4.
    split; [exact H1|]. split; [|split; [exact H3|exact H4]].
    intros i Hi.
    apply (proj1 (StructProofs.forallb_combine_nth (fun q => mem (ceqb G) (snd q) (icharges G (fst q))) dix e subs ss (eq_sym H1)))
      with (i := i) in H2; [|exact Hi].
    cbn [fst snd] in H2. apply (mem_ceqb_In G HG). exact H2.
  Qed.

  (* the signed sub-charges, read in the directions of the sub-indices, combine
     to the fused charge read in the fused direction *)
  Lemma sub_signed_list d : forall (subs : list (index G)) (ss : sector), VA ss ->
    map (fun c => sign G c d)
        (map (fun q => sign G (snd q) (negb (Bool.eqb d (idual G (fst q))))) (List.combine subs ss)) =
    signed_sector G false ss (map (idual G) (firstn (length ss) subs)).
  Proof.
    induction subs as [|ix subs IH]; intros [|c ss] Hv; try reflexivity.
    apply (valid_all_cons_iff G HG) in Hv. destruct Hv as [Hc Hv].
    cbn [List.combine map length firstn fst snd]. rewrite (signed_sector_cons G). f_equal.
    - apply (sign_rel G HG). exact Hc.
    - apply IH. exact Hv.
  Qed.

  Lemma sub_signed_combine d subs (ss : sector) : VA ss -> length ss = length subs ->
    sign G (combine G (map (fun q => sign G (snd q) (negb (Bool.eqb d (idual G (fst q))))) (List.combine subs ss))) d =
    combine G (signed_sector G false ss (map (idual G) subs)).
  Proof.
    intros Hv Hl. rewrite (sign_combine G HG).
    - rewrite (sub_signed_list d subs ss Hv). rewrite Hl, firstn_all. reflexivity.
    - apply (valid_all_In G HG). intros c0 Hc0. apply in_map_iff in Hc0. destruct Hc0 as ([ix c1] & <- & Hin).
      cbn [fst snd]. apply (sign_valid G HG). apply in_combine_r in Hin.
      apply (proj1 (valid_all_In G HG ss) Hv). exact Hin.
  Qed.

  Lemma TabOK_valid ixs (s : sector) : IxsOK ixs -> TabOK ixs s -> VA s.
  Proof.
    intros Hix (Hl & Hm). apply (valid_all_In G HG). intros c Hc.
    destruct (In_nth s c e Hc) as (i & Hi & <-). rewrite Hl in Hi.
    apply (wf_index_charges_valid G (nth i ixs dix)).
    - unfold WfProofs.IxsOK in Hix. rewrite Forall_forall in Hix. apply Hix. apply nth_In. exact Hi.
    - apply Hm. exact Hi.
  Qed.

  (* one stored sector with the fused charge replaced by a recorded sub-sector *)
  Lemma SecOK_unfuse i1 ix i2 q (s1 : sector) c s2 subs ss :
    IxsOK (i1 ++ ix :: i2) -> IxsOK subs -> length s1 = length i1 ->
    SecOK (i1 ++ ix :: i2) q (s1 ++ c :: s2) ->
    TabOK subs ss ->
    combine G (map (fun p => sign G (snd p) (negb (Bool.eqb (idual G ix) (idual G (fst p))))) (List.combine subs ss)) = c ->
    SecOK (i1 ++ subs ++ i2) q (s1 ++ ss ++ s2).
  Proof.
    intros Hix Hsub Hl1 Hs Htab Hc.
    pose proof (SecOK_valid G HG _ _ _ Hix Hs) as Hv.
    pose proof (SecOK_Tab G _ _ _ Hs) as Ht. destruct Hs as (_ & _ & Hq).
    apply TabOK_F2 in Ht. apply (Forall2_app_split _ i1 s1) in Ht; [|symmetry; exact Hl1].
    destruct Ht as [T1 T2]. inversion T2 as [|? ? ? ? Tc T3].
    pose proof (TabOK_valid subs ss Hsub Htab) as Hvss.
    apply (valid_all_app_iff G HG) in Hv. destruct Hv as [Hv1 Hv2].
    apply (valid_all_cons_iff G HG) in Hv2. destruct Hv2 as [Hvc Hv2].
    assert (Hl2 : length s2 = length i2) by (symmetry; apply (Forall2_len _ _ _ T3)).
    destruct Htab as (Hlss & Hmss).
    apply SecOK_of.
    - apply TabOK_F2. apply Forall2_app; [exact T1|]. apply Forall2_app; [|exact T3].
      apply TabOK_F2. split; assumption.
    - rewrite <- Hq. rewrite !map_app. cbn [map].
      rewrite !(signed_sector_app G) by (rewrite ?map_length; assumption).
      rewrite (signed_sector_cons G). rewrite xorb_false_l.
      set (S1 := signed_sector G false s1 (map (idual G) i1)).
      set (S2 := signed_sector G false s2 (map (idual G) i2)).
      set (SS := signed_sector G false ss (map (idual G) subs)).
      assert (V1 : VA S1) by (apply (signed_sector_valid G HG); exact Hv1).
      assert (V2 : VA S2) by (apply (signed_sector_valid G HG); exact Hv2).
      assert (VS : VA SS) by (apply (signed_sector_valid G HG); exact Hvss).
      assert (HX : sign G (combine G (map (fun p => sign G (snd p) (negb (Bool.eqb (idual G ix) (idual G (fst p)))))
                                         (List.combine subs ss))) (idual G ix) = combine G SS).
      { apply sub_signed_combine; assumption. }
      rewrite <- Hc, HX.
      assert (VSS2 : VA (SS ++ S2)) by (apply (valid_all_app_iff G HG); split; assumption).
      rewrite (combine_app_gadd G HG S1 (SS ++ S2)) by assumption.
      rewrite (combine_app_gadd G HG SS S2) by assumption.
      assert (VX : VA (combine G SS :: S2)).
      { apply (valid_all_cons_iff G HG). split; [apply (combine_valid G HG); exact VS|exact V2]. }
      rewrite (combine_app_gadd G HG S1 (combine G SS :: S2)) by assumption.
      f_equal. symmetry. apply (combine_cons G HG); [apply (combine_valid G HG); exact VS|exact V2].
  Qed.

  Lemma BlkOK_unfuse i1 ix i2 q (s1 : sector) c s2 subs ss (t : tensor R) start len :
    IxsOK (i1 ++ ix :: i2) -> IxsOK subs -> length s1 = length i1 ->
    BlkOK (i1 ++ ix :: i2) q (s1 ++ c :: s2) t ->
    TabOK subs ss -> len = nprod (block_shape G subs ss) ->
    combine G (map (fun p => sign G (snd p) (negb (Bool.eqb (idual G ix) (idual G (fst p))))) (List.combine subs ss)) = c ->
    BlkOK (i1 ++ subs ++ i2) q (replace_with_seq (s1 ++ c :: s2) (length i1) ss)
      (treshape R (tslice R t (length i1) start len)
         (replace_with_seq (tshape t) (length i1) (map (fun p => size_of G (fst p) (snd p)) (List.combine subs ss)))).
  Proof.
    intros Hix Hsub Hl1 (Hs & Hsh & Hlen) Htab Hlen' Hc.
    rewrite <- Hl1 at 1. rewrite replace_with_seq_app.
    assert (Hshape : tshape t = block_shape G i1 s1 ++ size_of G ix c :: block_shape G i2 s2).
    { rewrite Hsh. rewrite (block_shape_app G) by exact Hl1. reflexivity. }
    assert (HlB : length (block_shape G i1 s1) = length i1).
    { apply (Tdot.length_block_shape G). exact Hl1. }
    split; [apply (SecOK_unfuse i1 ix i2 q s1 c s2 subs ss); assumption|]. split.
    - unfold treshape. cbn [tshape]. rewrite Hshape. rewrite <- HlB, replace_with_seq_app.
      rewrite (block_shape_app G) by exact Hl1.
      destruct Htab as (Hlss & _). rewrite (block_shape_app G) by exact Hlss. reflexivity.
    - unfold treshape. cbn [tshape tdata]. unfold tslice. rewrite (build_len R). cbn [tshape build].
      change (set_nth (tshape t) (length i1) len) with (replace_with_seq (tshape t) (length i1) [len]).
      rewrite Hshape. rewrite <- HlB, !replace_with_seq_app.
      rewrite !shape_size_app. f_equal. f_equal. rewrite Hlen'. cbn [shape_size fold_right].
      rewrite Nat.mul_1_r. reflexivity.
  Qed.

  Theorem unfuse_wf (x y : arr) (axis : nat) :
    wf_array G R x = true -> a_unfuse G R x axis = Some y -> wf_array G R y = true.
  Proof.
    intros Hw Hy. apply (wf_array_iff G HG) in Hw. destruct Hw as [H1 H2 H3 H4].
    unfold a_unfuse in Hy.
    destruct (isub G (nth axis (indices G R x) dix)) as [[subs ext]|] eqn:Esub; [|discriminate Hy].
    inversion Hy; subst y; clear Hy.
    assert (Hax : axis < length (indices G R x)).
    { destruct (Nat.lt_ge_cases axis (length (indices G R x))) as [Hlt|Hge]; [exact Hlt|].
      rewrite nth_overflow in Esub by exact Hge. discriminate Esub. }
    destruct (nth_split (indices G R x) dix Hax) as (i1 & i2 & Hsplit & Hli1).
    set (ix := nth axis (indices G R x) dix) in *.
    assert (Hwix : wf_index G ix = true).
    { unfold WfProofs.IxsOK in H1. rewrite Forall_forall in H1. apply H1. apply nth_In. exact Hax. }
    destruct ix as [cm d sub] eqn:Eix. cbn [isub] in Esub. subst sub.
    destruct (wf_index_fused cm d subs ext Hwix) as (Hsubs & Hext).
    rewrite <- Eix in *. clear Hwix.
    assert (Hd : idual G ix = d) by (rewrite Eix; reflexivity).
    assert (Hcm : icharges G ix = map fst cm) by (rewrite Eix; reflexivity).
    apply (wf_mk G HG). rewrite Hsplit in *. rewrite <- Hli1. rewrite replace_with_seq_app.
    set (nixs := i1 ++ subs ++ i2). set (q := charge G R x) in *.
    set (Inv := fun acc : list (sector * tensor R) =>
                  NoDup (map fst acc) /\ forall k v, In (k, v) acc -> BlkOK nixs q k v).
    assert (HInv : Inv (fold_left (fun acc sb =>
              let s := fst sb in
              let c := nth (length i1) s e in
              match lookup (ceqb G) c ext with
              | None => acc
              | Some e0 =>
                  let st := starts_from 0 (map snd e0) in
                  fold_left (fun acc2 q0 =>
                    let '(ss, (start, len)) := q0 in
                    let piece := tslice R (snd sb) (length i1) start len in
                    let subshape := map (fun p => size_of G (fst p) (snd p)) (List.combine subs ss) in
                    dset keq (replace_with_seq s (length i1) ss)
                         (treshape R piece (replace_with_seq (tshape (snd sb)) (length i1) subshape)) acc2)
                    (List.combine (map fst e0) (List.combine st (map snd e0))) acc
              end) (blocks G R x) [])).
    { apply (fold_left_inv Inv).
      2:{ split; [constructor|intros k v []]. }
      intros acc [s t] Hsb Hacc. cbn [fst snd]. cbv zeta.
      destruct (lookup (ceqb G) (nth (length i1) s e) ext) as [ex|] eqn:Elk; [|exact Hacc].
      pose proof (H4 s t Hsb) as Hb.
      assert (Hls : length s = length (i1 ++ ix :: i2)) by (destruct Hb as ((Hl & _) & _); exact Hl).
      assert (Hax' : length i1 < length s) by (rewrite Hls, app_length; cbn [length]; lia).
      destruct (nth_split s e Hax') as (s1 & s2 & Hs12 & Hls1).
      set (c := nth (length i1) s e) in *.
      assert (Hcin : In c (map fst cm)).
      { rewrite <- Hcm. destruct Hb as ((_ & Hm & _) & _).
        specialize (Hm (length i1)). rewrite app_nth2, Nat.sub_diag in Hm by lia. cbn [nth] in Hm.
        apply Hm. rewrite app_length. cbn [length]. lia. }
      destruct (Hext c ex Hcin Elk) as (sz & Hex).
      apply (fold_left_inv Inv); [|exact Hacc].
      intros acc2 [ss [start len]] Hq0 [Hnd2 Hacc2].
      apply In_combine_ranges in Hq0.
      destruct (extent_ok_In _ _ _ _ _ _ _ _ Hex Hq0) as (E1 & E2 & E3 & E4).
      split; [apply (OrderProofs.dset_keys_NoDup keq (keqE G HG)); exact Hnd2|].
      intros k v Hin. apply (In_dset G HG) in Hin. destruct Hin as [Hin|[-> ->]]; [apply Hacc2; exact Hin|].
      rewrite Hs12 in Hb |- *.
      apply (BlkOK_unfuse i1 ix i2 q s1 c s2 subs ss t start len); try assumption.
      - split; assumption.
      - rewrite Hd. exact E4. }
    destruct HInv as [Hnd Hall]. constructor.
    - unfold nixs, WfProofs.IxsOK in *. apply Forall_app in H1. destruct H1 as [Ha Hb]. inversion Hb; subst.
      apply Forall_app. split; [exact Ha|]. apply Forall_app. split; assumption.
    - exact H2.
    - exact Hnd.
    - exact Hall.
  Qed.

  Lemma unfuse_all_go_wf axes : forall x : arr, wf_array G R x = true -> wf_array G R (unfuse_all_go G R axes x) = true.
  Proof.
    induction axes as [|ax axes IH]; intros x Hw; cbn [unfuse_all_go]; [exact Hw|].
    destruct (isub G (nth ax (indices G R x) dix)); [|apply IH; exact Hw].
    destruct (a_unfuse G R x ax) as [y|] eqn:Ey; [|apply IH; exact Hw].
    apply IH. apply (unfuse_wf x y ax Hw Ey).
  Qed.

  Theorem unfuse_all_wf (x : arr) : wf_array G R x = true -> wf_array G R (a_unfuse_all G R x) = true.
  Proof. apply unfuse_all_go_wf. Qed.

  (* ---------------------------------------------------------------- *)
  (* §2 einsum: traces + permutation of one array *)

  (* the two legs of every summed label point in opposite directions *)
  Definition traced_duals_ok (ixs : list (index G)) (lhs rhs : list nat) : bool :=
    forallb (fun q => match positions q lhs with
                      | [ja; jb] => Bool.eqb (idual G (nth ja ixs dix)) (negb (idual G (nth jb ixs dix)))
                      | _ => false end) (traced_of lhs rhs).

  Lemma nth_valid (s : sector) i : VA s -> V (nth i s e).
  Proof.
    intros Hs. destruct (Nat.lt_ge_cases i (length s)) as [Hi|Hi].
    - apply (proj1 (valid_all_In G HG s) Hs). apply nth_In. exact Hi.
    - rewrite nth_overflow by exact Hi. apply (valid_ident G HG).
  Qed.

  Lemma traced_cancel (s : sector) ds lhs (tr : list nat) : VA s ->
    (forall q, In q tr -> exists ja jb, positions q lhs = [ja; jb] /\ nth ja s e = nth jb s e /\
                                        nth ja ds false = negb (nth jb ds false)) ->
    combine G (map (sgn G false s ds) (flat_map (fun q => positions q lhs) tr)) = e.
  Proof.
    intros Hv. induction tr as [|q tr IH]; intros Hq; cbn [flat_map map]; [reflexivity|].
    rewrite map_app. rewrite (combine_app_gadd G HG) by (apply (map_sgn_valid G HG); exact Hv).
    rewrite IH by (intros q' Hq'; apply Hq; right; exact Hq').
    destruct (Hq q (or_introl eq_refl)) as (ja & jb & -> & Ec & Ed). cbn [map].
    change (combine G [sgn G false s ds ja; sgn G false s ds jb]) with (gadd G (sgn G false s ds ja) (sgn G false s ds jb)).
    unfold sgn. rewrite !xorb_false_l, Ec, Ed. rewrite (gadd_comm G HG (sign G _ (negb _))).
    rewrite (sign_negb_inverse G HG) by (apply nth_valid; exact Hv).
    apply (gadd_ident_l G HG). apply (valid_ident G HG).
  Qed.

  Theorem einsum_wf (x y : arr) (lhs rhs : list nat) :
    wf_array G R x = true -> a_einsum G R x lhs rhs = Some y ->
    labels_ok lhs rhs = true -> traced_duals_ok (indices G R x) lhs rhs = true ->
    wf_array G R y = true.
  Proof.
    intros Hw Hy Hl Hdu. apply (wf_array_iff G HG) in Hw. destruct Hw as [H1 H2 H3 H4].
    destruct (einsum_some G R x lhs rhs y Hy) as (Hlen & Htr & ->). unfold ndim in Hlen.
    destruct (labels_ok_spec lhs rhs Hl) as [Hnd Hkept].
    set (ixs := indices G R x) in *. set (q := charge G R x) in *.
    assert (Eix : map (fun q0 => nth (index_of q0 lhs) ixs dix) rhs = take_axes dix ixs (eperm lhs rhs)).
    { unfold take_axes, eperm. rewrite map_map. reflexivity. }
    rewrite Eix. apply (wf_mk G HG).
    assert (Hp_lt : forall i, In i (eperm lhs rhs) -> i < length ixs).
    { intros i Hi. unfold eperm in Hi. apply in_map_iff in Hi. destruct Hi as (q0 & <- & Hq0).
      rewrite <- Hlen. apply (index_of_In q0 lhs (kept_in_lhs lhs rhs Hkept q0 Hq0)). }
    unfold einsum_blocks. rewrite (fold_cond_acc G R).
    set (ps := map _ (filter _ (blocks G R x))).
    assert (Hps : forall s t, In (s, t) ps -> BlkOK (take_axes dix ixs (eperm lhs rhs)) q s t).
    { intros s' t' Hin. unfold ps in Hin. apply in_map_iff in Hin. destruct Hin as ([s t] & Heq & Hin).
      apply filter_In in Hin. destruct Hin as [Hin Hdiag]. cbn [fst snd] in Heq, Hdiag.
      inversion Heq; subst s' t'; clear Heq.
      destruct (H4 s t Hin) as (Hs & Hsh & _).
      pose proof (SecOK_valid G HG _ _ _ H1 Hs) as Hv. pose proof (SecOK_Tab G _ _ _ Hs) as Ht.
      destruct Hs as (Hls & _ & Hc).
      split; [|split].
      - apply SecOK_of; [apply TabOK_take; assumption|].
        rewrite take_map. cbn [idual dflt_index]. rewrite signed_take.
        set (ds := map (idual G) ixs) in *.
        rewrite <- Hc.
        rewrite (combine_signed_perm G HG false s ds
                   (eperm lhs rhs ++ flat_map (fun q0 => positions q0 lhs) (traced_of lhs rhs))).
        + rewrite map_app. rewrite (combine_app_gadd G HG) by (apply (map_sgn_valid G HG); exact Hv).
          rewrite (traced_cancel s ds lhs (traced_of lhs rhs) Hv).
          * symmetry. apply (gadd_ident_r G HG). apply (combine_valid G HG). apply (map_sgn_valid G HG). exact Hv.
          * intros q0 Hq0. unfold diag_b in Hdiag. rewrite forallb_forall in Hdiag. specialize (Hdiag q0 Hq0).
            unfold traced_duals_ok in Hdu. rewrite forallb_forall in Hdu. specialize (Hdu q0 Hq0).
            destruct (positions q0 lhs) as [|ja [|jb [|jc r]]]; try discriminate Hdiag.
            exists ja, jb. split; [reflexivity|]. split; [apply (ceqb_eq G HG); exact Hdiag|].
            unfold ds. rewrite !nth_duals. apply eqb_prop. exact Hdu.
        + unfold ds. rewrite map_length. exact Hls.
        + rewrite Hls, <- Hlen. apply einsum_positions_perm. exact Hl.
      - rewrite tshape_teinsum, Hsh, block_shape_take. unfold take_axes. apply map_ext_in. intros i Hi.
        apply (Tdot.nth_block_shape G); [apply Hp_lt; exact Hi|exact Hls].
      - unfold teinsum. cbv zeta. apply (build_len R). }
    destruct (acc_add_inv G HG R _ q ps [] Hps (NoDup_nil _) (fun s t (H : In (s, t) []) => match H with end)) as [Hnd' Hall].
    constructor.
    - unfold WfProofs.IxsOK in *. apply Forall_forall. intros ix Hin. apply in_map_iff in Hin.
      destruct Hin as (i & <- & Hi). rewrite Forall_forall in H1. apply H1. apply nth_In. apply Hp_lt. exact Hi.
    - exact H2.
    - exact Hnd'.
    - exact Hall.
  Qed.

  (* ---------------------------------------------------------------- *)
  (* §3 matmul and the tensordot front end in blockwise mode *)

  Lemma norm_axes_id n (l : list nat) : (forall i, In i l -> i < n) -> norm_axes n (map Z.of_nat l) = l.
  Proof.
    intros Hl. unfold norm_axes. rewrite map_map. rewrite <- (map_id l) at 2. apply map_ext_in.
    intros i Hi. specialize (Hl i Hi). rewrite Z.mod_small by lia. apply Nat2Z.id.
  Qed.

  Theorem tensordot_blockwise_front_wf (HO : OrderLaws G) (a b c : arr) axes aa ab :
    wf_array G R a = true -> wf_array G R b = true ->
    parse_axes (ndim G R a) (ndim G R b) axes = Some (aa, ab) -> contract_ok G R a b aa ab = true ->
    a_tensordot G R a b axes MBlockwise = Some c -> wf_array G R c = true.
  Proof.
    intros Ha Hb Hp Hc Ht. unfold a_tensordot in Ht. rewrite Hp in Ht. inversion Ht; subst c; clear Ht.
    destruct (contract_ok_spec G R _ _ _ _ Hc) as (C1 & C2 & C3 & C4 & C5 & C6).
    apply (tdot_blockwise_wf G HG R HO); assumption.
  Qed.

  (* mode="auto" chooses the blockwise strategy for an outer product *)
  Theorem tensordot_auto_outer_wf (HO : OrderLaws G) (a b c : arr) axes ab :
    wf_array G R a = true -> wf_array G R b = true ->
    parse_axes (ndim G R a) (ndim G R b) axes = Some ([], ab) -> contract_ok G R a b [] ab = true ->
    a_tensordot G R a b axes MAuto = Some c -> wf_array G R c = true.
  Proof.
    intros Ha Hb Hp Hc Ht. unfold a_tensordot in Ht. rewrite Hp in Ht. cbn [is_nil] in Ht.
    inversion Ht; subst c; clear Ht.
    destruct (contract_ok_spec G R _ _ _ _ Hc) as (C1 & C2 & C3 & C4 & C5 & C6).
    apply (tdot_blockwise_wf G HG R HO); assumption.
  Qed.

  (* the contracted legs of `a @ b`: the last of a, the first of b *)
  Definition matmul_ok (a b : arr) : bool :=
    Bool.eqb (idual G (nth (ndim G R a - 1) (indices G R a) dix)) (negb (idual G (nth 0 (indices G R b) dix))).

  Theorem matmul_wf (HO : OrderLaws G) (a b c : arr) :
    wf_array G R a = true -> wf_array G R b = true -> matmul_ok a b = true ->
    a_matmul G R a b = Some c -> wf_array G R c = true.
  Proof.
    intros Ha Hb Hd Hc. unfold matmul_ok in Hd. apply eqb_prop in Hd. unfold a_matmul in Hc.
    assert (Hgen : forall aa ab, NoDup aa -> NoDup ab -> (forall i, In i aa -> i < ndim G R a) ->
              (forall i, In i ab -> i < ndim G R b) -> aa = [ndim G R a - 1] -> ab = [0] ->
              wf_array G R (tdot_blockwise G R a b (rest_axes (ndim G R a) aa) aa ab (rest_axes (ndim G R b) ab)) = true).
    { intros aa ab N1 N2 L1 L2 -> ->. apply (tdot_blockwise_wf G HG R HO); try assumption; [reflexivity|].
      intros k Hk. cbn [length] in Hk. assert (k = 0) by lia. subst k. cbn [nth]. exact Hd. }
    assert (N1 : forall k : nat, NoDup [k]) by (intros k; constructor; [intros []|constructor]).
    destruct (ndim G R a) as [|[|[|na]]] eqn:Ea; try discriminate Hc;
      destruct (ndim G R b) as [|[|[|nb]]] eqn:Eb; try discriminate Hc;
      inversion Hc; subst c; clear Hc.
    - apply (Hgen [0] [0]); try apply N1; try reflexivity; intros i [<-|[]]; lia.
    - apply (Hgen [0] [0]); try apply N1; try reflexivity; intros i [<-|[]]; lia.
    - apply (Hgen [1] [0]); try apply N1; try reflexivity; intros i [<-|[]]; lia.
    - apply (Hgen [1] [0]); try apply N1; try reflexivity; intros i [<-|[]]; lia.
  Qed.

  (* the total charge of a contraction result, every mode *)
  Lemma unfuse_charge (x y : arr) axis : a_unfuse G R x axis = Some y -> charge G R y = charge G R x.
  Proof.
    unfold a_unfuse. destruct (isub G _) as [[s0 e0]|]; [|discriminate]. intros H. inversion H. reflexivity.
  Qed.

  Lemma unfuse_all_go_charge axes : forall x : arr, charge G R (unfuse_all_go G R axes x) = charge G R x.
  Proof.
    induction axes as [|ax axes IH]; intros x; cbn [unfuse_all_go]; [reflexivity|].
    destruct (isub G (nth ax (indices G R x) dix)); [|apply IH].
    destruct (a_unfuse G R x ax) as [y|] eqn:Ey; [|apply IH].
    rewrite IH. apply (unfuse_charge x y ax Ey).
  Qed.

  Lemma fuse_noexpand_charge (x : arr) groups : charge G R (a_fuse_noexpand G R x groups) = charge G R x.
  Proof. unfold a_fuse_noexpand. destruct (filter _ groups); reflexivity. Qed.

  Lemma tdot_fused_charge (a b : arr) la aa ab rb :
    charge G R (tdot_fused G R a b la aa ab rb) = combine G [charge G R a; charge G R b].
  Proof.
    unfold tdot_fused, drop_misaligned. cbv beta iota zeta.
    match goal with |- context [if ?c then _ else _] => destruct c end; [reflexivity|].
    unfold a_unfuse_all. rewrite unfuse_all_go_charge. unfold tdot_blockwise. cbn [charge].
    rewrite !fuse_noexpand_charge. reflexivity.
  Qed.

  Lemma tensordot_charge (a b c : arr) axes mode : a_tensordot G R a b axes mode = Some c ->
    charge G R c = combine G [charge G R a; charge G R b].
  Proof.
    unfold a_tensordot. destruct (parse_axes _ _ axes) as [[aa ab]|]; [|discriminate]. intros H. inversion H.
    destruct mode; [destruct (is_nil aa)| |]; first [reflexivity|apply tdot_fused_charge].
  Qed.

  Lemma contract_ok_intro (a b : arr) aa ab :
    NoDup aa -> (forall i, In i aa -> i < ndim G R a) -> NoDup ab -> (forall i, In i ab -> i < ndim G R b) ->
    length aa = length ab ->
    (forall k, k < length aa ->
       idual G (nth (nth k aa 0) (indices G R a) dix) = negb (idual G (nth (nth k ab 0) (indices G R b) dix))) ->
    contract_ok G R a b aa ab = true.
  Proof.
    intros C1 C2 C3 C4 C5 C6. unfold contract_ok, axes_ok. rewrite !andb_true_iff. repeat split.
    - apply (OrderProofs.nodupb_NoDup Nat.eqb Nat.eqb_eq). exact C1.
    - apply forallb_forall. intros i Hi. apply Nat.ltb_lt. apply C2. exact Hi.
    - apply (OrderProofs.nodupb_NoDup Nat.eqb Nat.eqb_eq). exact C3.
    - apply forallb_forall. intros i Hi. apply Nat.ltb_lt. apply C4. exact Hi.
    - apply Nat.eqb_eq. exact C5.
    - apply (StructProofs.forallb_combine_nth _ 0 0 aa ab C5). intros k Hk. cbn [fst snd].
      rewrite (C6 k Hk). apply eqb_reflx.
  Qed.

  (* ---------------------------------------------------------------- *)
  (* §4 fermionic contraction / unfuse / fuse *)

  (* --- the label list: `resolve_oddpos` removes labels in pairs --- *)
  Lemma resolve_go_parity fuel : forall i ph (l : list fop) ph' l',
    resolve_go fuel i ph l = Some (ph', l') -> Nat.odd (length l') = Nat.odd (length l).
  Proof.
    induction fuel as [|fuel IH]; intros i ph l ph' l' H; cbn [resolve_go] in H; [discriminate H|].
    destruct (Nat.ltb (S i) (length l)) eqn:E; [|inversion H; reflexivity].
    apply Nat.ltb_lt in E.
    destruct (lab_eqb (fst (nth i l ([], false))) (fst (nth (S i) l ([], false)))).
    - destruct (negb (Bool.eqb (snd (nth i l ([], false))) (snd (nth (S i) l ([], false))))); [|discriminate H].
      apply IH in H. rewrite H. rewrite app_length, firstn_length, skipn_length.
      replace (length l) with (S (S (Nat.min i (length l) + (length l - S (S i))))) at 3 by lia.
      reflexivity.
    - destruct (fop_ltb (nth (S i) l ([], false)) (nth i l ([], false))).
      + apply IH in H. rewrite H. rewrite app_length, firstn_length. cbn [length]. rewrite skipn_length.
        f_equal. lia.
      + apply IH in H. exact H.
  Qed.

  Lemma resolve_oddpos_parity p (lo ro : list fop) m odd :
    resolve_oddpos p lo ro = Some (m, odd) ->
    Nat.odd (length odd) = xorb (Nat.odd (length lo)) (Nat.odd (length ro)).
  Proof.
    intros H. rewrite <- Nat.odd_add, <- app_length.
    destruct lo as [|a lo]; [destruct ro as [|b ro]|]; cbn [resolve_oddpos] in H;
      [inversion H; reflexivity| |]; apply resolve_go_parity in H; exact H.
  Qed.

  (* --- what the phase operations leave untouched --- *)
  Lemma fbase_flip (x : farr) axs : fbase G R (f_phase_flip G R x axs) = fbase G R x.
  Proof. unfold f_phase_flip. destruct (is_nil axs); reflexivity. Qed.
  Lemma foddpos_flip (x : farr) axs : foddpos G R (f_phase_flip G R x axs) = foddpos G R x.
  Proof. unfold f_phase_flip. destruct (is_nil axs); reflexivity. Qed.

  Lemma PhOK_nil ixs q : PhOK ixs q [].
  Proof. split; [constructor|intros s []]. Qed.

  Lemma finish_contraction_wf (a' b' y : farr) (c : arr) :
    wf_fermi G R a' = true -> wf_fermi G R b' = true -> wf_array G R c = true ->
    charge G R c = combine G [charge G R (fbase G R a'); charge G R (fbase G R b')] ->
    finish_contraction G R a' b' c = Some y -> wf_fermi G R y = true.
  Proof.
    intros Ha Hb Hc Hq Hy. apply (wf_fermi_iff G HG) in Ha. apply (wf_fermi_iff G HG) in Hb.
    destruct Ha as [A1 _ A3]. destruct Hb as [B1 _ B3].
    unfold finish_contraction in Hy.
    destruct (resolve_oddpos (fparity G R a') (foddpos G R a') (foddpos G R b')) as [[minus odd]|] eqn:E; [|discriminate Hy].
    inversion Hy; subst y; clear Hy.
    assert (Hy0 : WFF (mkF G R c [] odd)).
    { constructor; cbn [fbase fphases foddpos].
      - apply (wf_array_iff G HG). exact Hc.
      - apply PhOK_nil.
      - rewrite (resolve_oddpos_parity _ _ _ _ _ E), A3, B3. unfold fparity. cbn [fbase]. rewrite Hq.
        symmetry. apply (parity_gadd G HG); [apply (wf_q _ _ _ _ _ A1)|apply (wf_q _ _ _ _ _ B1)]. }
    apply (wf_fermi_iff G HG). destruct minus; [apply (WFF_global G HG)|]; exact Hy0.
  Qed.

  (* the pending-sign table of a contraction result: empty, or (global sign -1)
     exactly the stored sectors of the result *)
  Lemma fold_toggle_fresh (l : list sector) : forall acc, NoDup (acc ++ l) ->
    fold_left (ph_toggle G) l acc = acc ++ l.
  Proof.
    induction l as [|s l IH]; intros acc Hnd; cbn [fold_left]; [symmetry; apply app_nil_r|].
    assert (Hs : ~ In s acc).
    { apply NoDup_remove_2 in Hnd. intros Hin. apply Hnd. apply in_or_app. left. exact Hin. }
    unfold ph_toggle at 2. unfold ph_has. destruct (mem keq s acc) eqn:E.
    - apply (OrderProofs.mem_In keq (keqE G HG)) in E. contradiction.
    - rewrite IH by (rewrite <- app_assoc; exact Hnd). rewrite <- app_assoc. reflexivity.
  Qed.

  Theorem finish_contraction_phases (a' b' y : farr) (c : arr) :
    wf_array G R c = true -> finish_contraction G R a' b' c = Some y ->
    fbase G R y = c /\ (fphases G R y = [] \/ fphases G R y = sectors G R c).
  Proof.
    intros Hc Hy. apply (wf_array_iff G HG) in Hc. unfold finish_contraction in Hy.
    destruct (resolve_oddpos _ _ _) as [[minus odd]|]; [|discriminate Hy]. inversion Hy; subst y; clear Hy.
    destruct minus; [|split; [reflexivity|left; reflexivity]].
    split; [reflexivity|right]. unfold f_phase_global, with_phases, fsectors. cbn [fbase fphases].
    apply (fold_toggle_fresh (sectors G R c) []). apply (wf_nd _ _ _ _ _ Hc).
  Qed.

  Lemma matmul_charge (a b c : arr) : a_matmul G R a b = Some c ->
    charge G R c = combine G [charge G R a; charge G R b].
  Proof.
    unfold a_matmul. destruct (ndim G R a) as [|[|[|na]]]; try discriminate;
      destruct (ndim G R b) as [|[|[|nb]]]; try discriminate; intros H; inversion H; reflexivity.
  Qed.

  Theorem f_matmul_wf (HO : OrderLaws G) (a b y : farr) :
    wf_fermi G R a = true -> wf_fermi G R b = true ->
    matmul_ok (fbase G R a) (fbase G R b) = true ->
    f_matmul G R a b = Some y -> wf_fermi G R y = true.
  Proof.
    intros Ha Hb Hd Hy. unfold f_matmul in Hy. cbv zeta in Hy.
    set (b1 := if idual G (nth 0 (indices G R (fbase G R b)) dix) then f_phase_flip G R b [0] else b) in *.
    assert (Hb1 : wf_fermi G R b1 = true).
    { unfold b1. destruct (idual G _); [apply (f_phase_flip_wf G HG)|]; exact Hb. }
    assert (Eb1 : fbase G R b1 = fbase G R b).
    { unfold b1. destruct (idual G _); [apply fbase_flip|reflexivity]. }
    set (a2 := f_phase_sync G R a) in *. set (b2 := f_phase_sync G R b1) in *.
    assert (Ha2 : wf_fermi G R a2 = true) by (apply (f_phase_sync_wf G HG); exact Ha).
    assert (Hb2 : wf_fermi G R b2 = true) by (apply (f_phase_sync_wf G HG); exact Hb1).
    destruct (a_matmul G R (fbase G R a2) (fbase G R b2)) as [c|] eqn:Ec; [|discriminate Hy].
    apply (finish_contraction_wf a2 b2 y c Ha2 Hb2); [| |exact Hy].
    - apply (matmul_wf HO (fbase G R a2) (fbase G R b2) c); [| | |exact Ec].
      + apply (wf_array_iff G HG). apply (ff_base G R). apply (wf_fermi_iff G HG). exact Ha2.
      + apply (wf_array_iff G HG). apply (ff_base G R). apply (wf_fermi_iff G HG). exact Hb2.
      + unfold matmul_ok, ndim in *. unfold a2, b2, f_phase_sync, with_blocks. cbn [fbase indices].
        rewrite Eb1. exact Hd.
    - apply matmul_charge. exact Ec.
  Qed.

  (* --- tensordot, blockwise strategy --- *)
  Lemma WFF_base_wf (x : farr) : wf_fermi G R x = true -> wf_array G R (fbase G R x) = true.
  Proof. intros H. apply (wf_array_iff G HG). apply (ff_base G R). apply (wf_fermi_iff G HG). exact H. Qed.

  Lemma nth_permuted {A} (d : A) l p k : k < length p -> nth k (permuted d l p) d = nth (nth k p 0) l d.
  Proof. intros Hk. unfold permuted. apply (map_nth_lt (fun i => nth i l d) p 0 d k Hk). Qed.

  (* the operands as they reach the abelian contraction: transposed, signs
     synchronised, contracted legs last / first and still opposite *)
  Lemma f_tensordot_prepare (a b y : farr) axes mode aa ab :
    wf_fermi G R a = true -> wf_fermi G R b = true ->
    parse_axes (ndim G R (fbase G R a)) (ndim G R (fbase G R b)) axes = Some (aa, ab) ->
    contract_ok G R (fbase G R a) (fbase G R b) aa ab = true ->
    f_tensordot G R a b axes mode = Some y ->
    exists (a3 b4 : farr) (c : arr) (axes' : nat + (list Z * list Z)) (naa nab : list nat),
      wf_fermi G R a3 = true /\ wf_fermi G R b4 = true /\
      parse_axes (ndim G R (fbase G R a3)) (ndim G R (fbase G R b4)) axes' = Some (naa, nab) /\
      contract_ok G R (fbase G R a3) (fbase G R b4) naa nab = true /\
      a_tensordot G R (fbase G R a3) (fbase G R b4) axes' mode = Some c /\
      finish_contraction G R a3 b4 c = Some y.
  Proof.
    intros Ha Hb Hp Hc Hy.
    destruct (contract_ok_spec G R _ _ _ _ Hc) as (C1 & C2 & C3 & C4 & C5 & C6).
    unfold f_tensordot in Hy. rewrite Hp in Hy. cbv zeta in Hy.
    set (na := ndim G R (fbase G R a)) in *. set (nb := ndim G R (fbase G R b)) in *.
    set (la := rest_axes na aa) in *. set (rb := rest_axes nb ab) in *. set (ncon := length aa) in *.
    assert (Pa : Permutation (la ++ aa) (seq 0 na)) by (apply rest_axes_perm; assumption).
    assert (Pb : Permutation (ab ++ rb) (seq 0 nb)).
    { eapply Permutation_trans; [apply Permutation_app_comm|]. apply rest_axes_perm; assumption. }
    assert (Lna : length la + ncon = na).
    { pose proof (Permutation_length Pa) as H. rewrite app_length, seq_length in H. exact H. }
    assert (Lnb : ncon + length rb = nb).
    { pose proof (Permutation_length Pb) as H. rewrite app_length, seq_length in H. rewrite <- C5 in H. exact H. }
    set (a1 := f_transpose G R a (la ++ aa) true) in *.
    set (b1 := f_transpose G R b (ab ++ rb) true) in *.
    set (b2 := f_phase_transpose G R b1 (Some (rev (seq 0 ncon) ++ seq ncon (nb - ncon)))) in *.
    assert (Ha1 : wf_fermi G R a1 = true) by (apply (f_transpose_wf G HG); assumption).
    assert (Hb1 : wf_fermi G R b1 = true) by (apply (f_transpose_wf G HG); assumption).
    assert (Hb2 : wf_fermi G R b2 = true) by (apply (f_phase_transpose_wf G HG); exact Hb1).
    match type of Hy with (let '(a2, b3) := ?pr in _) = _ => destruct pr as [a2 b3] eqn:Epr end.
    assert (Hab : wf_fermi G R a2 = true /\ wf_fermi G R b3 = true /\
                  fbase G R a2 = fbase G R a1 /\ fbase G R b3 = fbase G R b2).
    { destruct (Nat.leb _ _) in Epr; inversion Epr; subst a2 b3.
      - split; [apply (f_phase_flip_wf G HG); exact Ha1|]. split; [exact Hb2|]. split; [apply fbase_flip|reflexivity].
      - split; [exact Ha1|]. split; [apply (f_phase_flip_wf G HG); exact Hb2|]. split; [reflexivity|apply fbase_flip]. }
    destruct Hab as (Ha2 & Hb3 & Ea2 & Eb3). clear Epr.
    set (a3 := f_phase_sync G R a2) in *. set (b4 := f_phase_sync G R b3) in *.
    assert (Ha3 : wf_fermi G R a3 = true) by (apply (f_phase_sync_wf G HG); exact Ha2).
    assert (Hb4 : wf_fermi G R b4 = true) by (apply (f_phase_sync_wf G HG); exact Hb3).
    assert (Eia : indices G R (fbase G R a3) = permuted dix (indices G R (fbase G R a)) (la ++ aa)).
    { unfold a3, f_phase_sync, with_blocks. cbn [fbase indices]. rewrite Ea2. reflexivity. }
    assert (Eib : indices G R (fbase G R b4) = permuted dix (indices G R (fbase G R b)) (ab ++ rb)).
    { unfold b4, f_phase_sync, with_blocks. cbn [fbase indices]. rewrite Eb3. reflexivity. }
    assert (Nda : ndim G R (fbase G R a3) = na).
    { unfold ndim. rewrite Eia. unfold permuted. rewrite map_length, app_length. exact Lna. }
    assert (Ndb : ndim G R (fbase G R b4) = nb).
    { unfold ndim. rewrite Eib. unfold permuted. rewrite map_length, app_length. fold ncon. rewrite <- C5. exact Lnb. }
    destruct (a_tensordot G R (fbase G R a3) (fbase G R b4) _ mode) as [c|] eqn:Ec; [|discriminate Hy].
    exists a3, b4, c, (inr (map Z.of_nat (seq (na - ncon) ncon), map Z.of_nat (seq 0 ncon))),
           (seq (na - ncon) ncon), (seq 0 ncon).
    split; [exact Ha3|]. split; [exact Hb4|]. split; [|split; [|split; [exact Ec|exact Hy]]].
    - rewrite Nda, Ndb. unfold parse_axes. rewrite !map_length, !seq_length, Nat.eqb_refl.
      rewrite (norm_axes_id na (seq (na - ncon) ncon)) by (intros i Hi; apply in_seq in Hi; lia).
      rewrite (norm_axes_id nb (seq 0 ncon)) by (intros i Hi; apply in_seq in Hi; lia). reflexivity.
    - apply contract_ok_intro.
      + apply seq_NoDup.
      + intros i Hi. apply in_seq in Hi. rewrite Nda. lia.
      + apply seq_NoDup.
      + intros i Hi. apply in_seq in Hi. rewrite Ndb. lia.
      + rewrite !seq_length. reflexivity.
      + rewrite seq_length. intros k Hk. rewrite !seq_nth by exact Hk. rewrite Eia, Eib.
        rewrite (nth_permuted dix) by (rewrite app_length; lia).
        rewrite (nth_permuted dix) by (rewrite app_length; fold ncon; rewrite <- C5; lia).
        replace (na - ncon + k) with (length la + k) by lia.
        rewrite app_nth2_plus. cbn [Nat.add]. rewrite app_nth1 by (rewrite <- C5; exact Hk).
        apply C6. exact Hk.
  Qed.

  Theorem f_tensordot_wf (HO : OrderLaws G) (a b y : farr) axes aa ab :
    wf_fermi G R a = true -> wf_fermi G R b = true ->
    parse_axes (ndim G R (fbase G R a)) (ndim G R (fbase G R b)) axes = Some (aa, ab) ->
    contract_ok G R (fbase G R a) (fbase G R b) aa ab = true ->
    f_tensordot G R a b axes MBlockwise = Some y -> wf_fermi G R y = true.
  Proof.
    intros Ha Hb Hp Hc Hy.
    destruct (f_tensordot_prepare a b y axes MBlockwise aa ab Ha Hb Hp Hc Hy)
      as (a3 & b4 & c & axes' & naa & nab & Ha3 & Hb4 & Hp' & Hc' & Ec & Hfin).
    apply (finish_contraction_wf a3 b4 y c Ha3 Hb4); [|apply (tensordot_charge _ _ _ _ _ Ec)|exact Hfin].
    apply (tensordot_blockwise_front_wf HO (fbase G R a3) (fbase G R b4) c axes' naa nab); try assumption;
      apply WFF_base_wf; assumption.
  Qed.

  (* --- unfuse --- *)
  Theorem f_unfuse_wf (x y : farr) (axis : nat) :
    wf_fermi G R x = true -> f_unfuse G R x axis = Some y -> wf_fermi G R y = true.
  Proof.
    intros Hx Hy. unfold f_unfuse in Hy.
    destruct (isub G (nth axis (indices G R (fbase G R x)) dix)) as [[subs ext]|]; [|discriminate Hy].
    cbv zeta in Hy.
    set (x1 := f_phase_sync G R x) in *.
    assert (Hx1 : wf_fermi G R x1 = true) by (apply (f_phase_sync_wf G HG); exact Hx).
    destruct (a_unfuse G R (fbase G R x1) axis) as [b|] eqn:Eb; [|discriminate Hy].
    assert (Hb : wf_array G R b = true) by (apply (unfuse_wf (fbase G R x1) b axis); [apply WFF_base_wf; exact Hx1|exact Eb]).
    assert (Hq : charge G R b = charge G R (fbase G R x1)).
    { unfold a_unfuse in Eb. destruct (isub G _) as [[s0 e0]|]; [|discriminate Eb]. inversion Eb. reflexivity. }
    assert (Hy0 : wf_fermi G R (with_base G R x1 b) = true).
    { apply (wf_fermi_iff G HG). constructor; cbn [with_base fbase fphases foddpos].
      - apply (wf_array_iff G HG). exact Hb.
      - apply PhOK_nil.
      - unfold fparity, with_base. cbn [fbase]. rewrite Hq.
        apply (ff_par G R x1). apply (wf_fermi_iff G HG). exact Hx1. }
    destruct (idual G _); inversion Hy; subst y; [|exact Hy0].
    apply (f_phase_transpose_wf G HG). apply (f_phase_flip_wf G HG). exact Hy0.
  Qed.

  (* --- fuse of one group of >= 2 axes --- *)
  Theorem f_fuse_wf (HO : OrderLaws G) (x : farr) (g : list nat) :
    wf_fermi G R x = true -> NoDup g -> Forall (fun ax => ax < ndim G R (fbase G R x)) g -> 2 <= length g ->
    wf_fermi G R (f_fuse G R x [g]) = true.
  Proof.
    intros Hx Hnd Hrng Hlen. unfold f_fuse. cbv zeta. cbn [map].
    set (n := ndim G R (fbase G R x)) in *. set (perm := fuse_perm n [g]).
    assert (Hne : g <> []) by (intros ->; cbn [length] in Hlen; lia).
    assert (Hperm : Permutation perm (seq 0 n)).
    { pose proof (perm_is_perm n g Hnd Hrng Hne) as Hp. unfold FuseTensor.is_perm in Hp.
      rewrite (perm_length n g Hnd Hrng Hne) in Hp. exact Hp. }
    set (x1 := f_transpose G R x perm true).
    assert (Hx1 : wf_fermi G R x1 = true) by (apply (f_transpose_wf G HG); assumption).
    set (g' := map (fun ax => index_of ax perm) g).
    match goal with |- wf_fermi G R (with_base G R ?z _) = true => set (x4 := z) end.
    assert (Hx4 : wf_fermi G R x4 = true).
    { unfold x4. apply (f_phase_sync_wf G HG).
      destruct (is_nil _); [|apply (f_phase_transpose_wf G HG)]; apply (f_phase_flip_wf G HG); exact Hx1. }
    assert (Eix : indices G R (fbase G R x4) = indices G R (fbase G R x1)).
    { unfold x4, f_phase_sync, with_blocks. cbn [fbase indices].
      destruct (is_nil _); [|unfold f_phase_transpose, with_phases; cbn [fbase]]; rewrite fbase_flip; reflexivity. }
    assert (Hn4 : ndim G R (fbase G R x4) = n).
    { unfold ndim. rewrite Eix. unfold x1, f_transpose, a_transpose. cbn [fbase indices]. unfold permuted.
      rewrite map_length. rewrite (Permutation_length Hperm). apply seq_length. }
    assert (Hin : forall ax, In ax g -> In ax perm).
    { intros ax Hax. apply (perm_seq_sur _ _ Hperm). rewrite Forall_forall in Hrng. apply Hrng. exact Hax. }
    assert (Hb : wf_array G R (fuse_core G R (fbase G R x4) [g']) = true).
    { apply (fuse_single_group_wf G HG R HO).
      - apply WFF_base_wf. exact Hx4.
      - unfold g'. apply NoDup_map_inj_on; [|exact Hnd]. intros a0 b0 Ha0 Hb0 E.
        destruct (index_of_In a0 perm (Hin a0 Ha0)) as [_ E1].
        destruct (index_of_In b0 perm (Hin b0 Hb0)) as [_ E2]. congruence.
      - rewrite Hn4. apply Forall_forall. intros i Hi. unfold g' in Hi. apply in_map_iff in Hi.
        destruct Hi as (ax & <- & Hax). destruct (index_of_In ax perm (Hin ax Hax)) as [Hlt _].
        rewrite (Permutation_length Hperm), seq_length in Hlt. exact Hlt.
      - unfold g'. rewrite map_length. exact Hlen. }
    apply (wf_fermi_iff G HG). constructor; cbn [with_base fbase fphases foddpos].
    - apply (wf_array_iff G HG). exact Hb.
    - unfold x4, f_phase_sync. cbn [fphases]. apply PhOK_nil.
    - change (fparity G R (mkF G R (fuse_core G R (fbase G R x4) [g']) (fphases G R x4) (foddpos G R x4)))
        with (fparity G R x4).
      apply (ff_par G R x4). apply (wf_fermi_iff G HG). exact Hx4.
  Qed.

  (* --- einsum of a fermionic array (returns an abelian array): fermionic
         transpose into sorted label order, pending signs multiplied in, then
         the abelian einsum --- *)
  Definition f_einsum_perm (x : farr) (lhs rhs : list nat) : list nat :=
    isort (ekey_ltb G lhs rhs (indices G R (fbase G R x))) (seq 0 (ndim G R (fbase G R x))).

  Theorem f_einsum_wf (x : farr) (y : arr) (lhs rhs : list nat) :
    wf_fermi G R x = true -> f_einsum G R x lhs rhs = Some y ->
    labels_ok (map (fun i => nth i lhs 0) (f_einsum_perm x lhs rhs)) rhs = true ->
    traced_duals_ok (permuted dix (indices G R (fbase G R x)) (f_einsum_perm x lhs rhs))
                    (map (fun i => nth i lhs 0) (f_einsum_perm x lhs rhs)) rhs = true ->
    wf_array G R y = true.
  Proof.
    intros Hx Hy Hl Hd. unfold f_einsum in Hy. cbv zeta in Hy. fold (f_einsum_perm x lhs rhs) in Hy.
    set (perm := f_einsum_perm x lhs rhs) in *.
    set (y0 := f_phase_sync G R (f_transpose G R x perm true)) in *.
    assert (Hy0 : wf_fermi G R y0 = true).
    { apply (f_phase_sync_wf G HG). apply (f_transpose_wf G HG); [exact Hx|]. apply isort_perm. }
    apply (einsum_wf (fbase G R y0) y _ rhs (WFF_base_wf y0 Hy0) Hy Hl). exact Hd.
  Qed.

  (* ---------------------------------------------------------------- *)
  (* §4b fuse of several groups at once; contraction in fused mode *)
  Section FuseMany.
  Context (HO : OrderLaws G).

  Lemma combine_concat (ls : list (list (C G))) : (forall l, In l ls -> VA l) ->
    combine G (map (combine G) ls) = combine G (concat ls).
  Proof.
    induction ls as [|l ls IH]; intros Hv; cbn [map concat]; [reflexivity|].
    assert (Hl : VA l) by (apply Hv; left; reflexivity).
    assert (Hls : forall l', In l' ls -> VA l') by (intros l' H; apply Hv; right; exact H).
    assert (Hc : VA (concat ls)).
    { apply (valid_all_In G HG). intros c Hc. apply in_concat in Hc. destruct Hc as (l' & Hl' & Hc).
      apply (proj1 (valid_all_In G HG l') (Hls l' Hl')). exact Hc. }
    rewrite (combine_app_gadd G HG) by assumption. rewrite <- (IH Hls).
    apply (combine_cons G HG); [apply (combine_valid G HG); exact Hl|].
    apply (valid_all_In G HG). intros c Hin. apply in_map_iff in Hin. destruct Hin as (l' & <- & Hl').
    apply (combine_valid G HG). apply Hls. exact Hl'.
  Qed.

  Lemma signed_sector_maps {A} (f : A -> C G) (h : A -> bool) (l : list A) flip :
    signed_sector G flip (map f l) (map h l) = map (fun a => sign G (f a) (xorb flip (h a))) l.
  Proof. induction l as [|a l IH]; [reflexivity|]. cbn [map]. rewrite (signed_sector_cons G). f_equal. exact IH. Qed.

  Lemma block_len_tassign (t : tensor R) sel src : length (tdata (tassign R t sel src)) = shape_size (tshape (tassign R t sel src)).
  Proof. unfold tassign. apply (build_len R). Qed.

  (* every group is a singlet or has >= 2 axes *)
  Definition groups_ok (n : nat) (groups : list (list nat)) : Prop :=
    NoDup (concat groups) /\ (forall i, In i (concat groups) -> i < n) /\ groups <> [] /\
    forall g, In g groups -> g <> [].

  Lemma groups_ok_concat_ne n groups : groups_ok n groups -> concat groups <> [].
  Proof.
    intros (_ & _ & Hne & Hall). destruct groups as [|g gs]; [congruence|].
    cbn [concat]. intros H. apply app_eq_nil in H. destruct H as [H _]. apply (Hall g); [left; reflexivity|exact H].
  Qed.

  (* executable form *)
  Definition groups_okb (n : nat) (groups : list (list nat)) : bool :=
    axes_ok n (concat groups) && negb (is_nil groups) && forallb (fun g => negb (is_nil g)) groups.

  Lemma groups_okb_spec n groups : groups_okb n groups = true -> groups_ok n groups.
  Proof.
    unfold groups_okb, groups_ok. rewrite !andb_true_iff. intros [[H1 H2] H3].
    apply axes_ok_spec in H1. destruct H1 as [Hnd Hlt]. split; [exact Hnd|]. split; [exact Hlt|]. split.
    - destruct groups; [discriminate H2|discriminate].
    - intros g Hin. rewrite forallb_forall in H3. specialize (H3 g Hin). destruct g; [discriminate H3|discriminate].
  Qed.

  Section One.
    Context (ixs : list (index G)) (q : C G) (secs : list sector) (groups : list (list nat)).
    Context (Hix : IxsOK ixs) (Hsecs : forall s, In s secs -> SecOK ixs q s) (Hg : groups_ok (length ixs) groups).
    Let n := length ixs.
    Let before := axes_before n groups.
    Let after := axes_after n groups.
    Let nixs := fused_indices G ixs secs groups.

    Lemma many_perm : Permutation (before ++ concat groups ++ after) (seq 0 n).
    Proof. destruct Hg as (H1 & H2 & _). apply (fuse_perm_perm n groups H1 H2 (groups_ok_concat_ne n groups Hg)). Qed.

    Lemma In_group_lt g ax : In g groups -> In ax g -> ax < n.
    Proof. intros Hin Hax. destruct Hg as (_ & H2 & _). apply H2. apply in_concat. exists g. split; assumption. Qed.

    Lemma before_lt i : In i before -> i < n.
    Proof. intros Hi. apply (perm_seq_lt _ _ many_perm). apply in_or_app. left. exact Hi. Qed.
    Lemma after_lt i : In i after -> i < n.
    Proof. intros Hi. apply (perm_seq_lt _ _ many_perm). apply in_or_app. right. apply in_or_app. right. exact Hi. Qed.

    Lemma group_cases g : In g groups -> (exists ax, g = [ax]) \/ (is_singlet g = false /\ 2 <= length g).
    Proof.
      intros Hin. destruct Hg as (_ & _ & _ & Hall). specialize (Hall g Hin).
      destruct g as [|a [|b r]]; [congruence|left; exists a; reflexivity|right]. split; [reflexivity|cbn [length]; lia].
    Qed.

    Lemma sit g : In g groups -> secs_in_tables G ixs secs g.
    Proof.
      intros Hin s Hs ax Hax. destruct (Hsecs s Hs) as (_ & Hm & _). apply (mem_ceqb_In G HG). apply Hm.
      apply (In_group_lt g ax Hin Hax).
    Qed.

    Lemma fused_index_wf_many g : In g groups -> wf_index G (fused_index G ixs secs g) = true.
    Proof.
      intros Hin. destruct (group_cases g Hin) as [(ax & ->)|(Hs & Hl)].
      - unfold fused_index. cbn [is_singlet length Nat.eqb hd].
        unfold WfProofs.IxsOK in Hix. rewrite Forall_forall in Hix. apply Hix. apply nth_In.
        apply (In_group_lt [ax] ax Hin). left. reflexivity.
      - apply (stmt_wf2 G HG HO); [exact Hix|apply sit; exact Hin|exact Hl].
    Qed.

    Lemma nixs_ok : IxsOK nixs.
    Proof.
      unfold nixs, fused_indices, WfProofs.IxsOK. fold n before after.
      apply Forall_app. split; [|apply Forall_app; split].
      - apply Forall_forall. intros ix Hin. apply in_map_iff in Hin. destruct Hin as (i & <- & Hi).
        unfold WfProofs.IxsOK in Hix. rewrite Forall_forall in Hix. apply Hix. apply nth_In. apply before_lt. exact Hi.
      - apply Forall_forall. intros ix Hin. apply in_map_iff in Hin. destruct Hin as (g & <- & Hgin).
        apply fused_index_wf_many. exact Hgin.
      - apply Forall_forall. intros ix Hin. apply in_map_iff in Hin. destruct Hin as (i & <- & Hi).
        unfold WfProofs.IxsOK in Hix. rewrite Forall_forall in Hix. apply Hix. apply nth_In. apply after_lt. exact Hi.
    Qed.

    Lemma fused_SecOK s : In s secs -> SecOK nixs q (fused_sector G ixs groups s).
    Proof.
      intros Hs. pose proof (Hsecs s Hs) as Hok. pose proof (SecOK_valid G HG _ _ _ Hix Hok) as Hv.
      pose proof (SecOK_Tab G _ _ _ Hok) as Ht. destruct Hok as (Hl & Hm & Hc).
      unfold nixs, fused_indices, fused_sector. fold n before after.
      change (map (fun ax => nth ax ixs dix) before) with (take_axes dix ixs before).
      change (map (fun ax => nth ax ixs dix) after) with (take_axes dix ixs after).
      apply SecOK_of.
      - apply TabOK_app; [apply TabOK_take; [exact before_lt|exact Ht]|].
        apply TabOK_app; [|apply TabOK_take; [exact after_lt|exact Ht]].
        apply TabOK_F2. clear Hc.
        assert (Hall : forall g, In g groups -> in_table G (fused_index G ixs secs g) (group_charge G ixs s g)).
        { intros g Hin. unfold in_table. destruct (group_cases g Hin) as [(ax & ->)|(Hsg & Hlg)].
          - unfold fused_index, group_charge. cbn [is_singlet length Nat.eqb hd]. apply Hm.
            apply (In_group_lt [ax] ax Hin). left. reflexivity.
          - destruct (stmt_A3_complete G HG HO ixs secs g (sit g Hin) Hsg s Hs) as (_ & _ & _ & _ & Hin' & _).
            unfold group_charge. rewrite Hsg. exact Hin'. }
        revert Hall. generalize groups. intros gs. induction gs as [|g gs IH]; intros Hall; cbn [map]; constructor.
        + apply Hall. left. reflexivity.
        + apply IH. intros g' Hg'. apply Hall. right. exact Hg'.
      - set (ds := map (idual G) ixs).
        assert (Hds : map (idual G) (take_axes dix ixs before ++ map (fused_index G ixs secs) groups ++ take_axes dix ixs after) =
                      take_axes false ds before ++ map (fun g => nth (hd 0 g) ds false) groups ++ take_axes false ds after).
        { rewrite !map_app, !take_map, map_map. cbn [idual dflt_index]. f_equal. f_equal.
          apply map_ext. intros g. rewrite stmt_A4. unfold ds. rewrite nth_duals. reflexivity. }
        rewrite Hds.
        rewrite (signed_sector_app G) by (rewrite !length_take_axes; reflexivity).
        rewrite (signed_sector_app G) by (rewrite !map_length; reflexivity).
        rewrite !signed_take, signed_sector_maps.
        assert (HX : forall g, In g groups ->
                  sign G (group_charge G ixs s g) (xorb false (nth (hd 0 g) ds false)) = combine G (map (sgn G false s ds) g)).
        { intros g Hin. rewrite xorb_false_l. destruct (group_cases g Hin) as [(ax & ->)|(Hsg & Hlg)].
          - unfold group_charge. cbn [is_singlet length Nat.eqb hd map].
            rewrite (combine_single G HG) by (apply (sgn_valid G HG); exact Hv).
            unfold sgn. rewrite xorb_false_l. reflexivity.
          - unfold group_charge. rewrite Hsg. unfold group_dual.
            rewrite (sign_combine G HG).
            + rewrite map_map. f_equal. apply map_ext_in. intros ax Hax. unfold sgn, ds. rewrite !nth_duals.
              apply (sign_rel G HG). apply nth_valid; assumption.
            + apply (valid_all_In G HG). intros c0 Hc0. apply in_map_iff in Hc0. destruct Hc0 as (ax & <- & Hax).
              apply (sign_valid G HG). apply nth_valid; assumption. }
        rewrite (map_ext_in _ (fun g => combine G (map (sgn G false s ds) g)) groups HX).
        rewrite <- (map_map (map (sgn G false s ds)) (combine G)).
        set (B := map (sgn G false s ds) before). set (A := map (sgn G false s ds) after).
        set (Ms := map (map (sgn G false s ds)) groups).
        assert (VB : VA B) by (apply (map_sgn_valid G HG); exact Hv).
        assert (VAA : VA A) by (apply (map_sgn_valid G HG); exact Hv).
        assert (VMs : forall l, In l Ms -> VA l).
        { intros l Hin. apply in_map_iff in Hin. destruct Hin as (g & <- & _). apply (map_sgn_valid G HG). exact Hv. }
        assert (VC : VA (map (combine G) Ms)).
        { apply (valid_all_In G HG). intros c Hin. apply in_map_iff in Hin. destruct Hin as (l & <- & Hl').
          apply (combine_valid G HG). apply VMs. exact Hl'. }
        assert (VCC : VA (concat Ms)).
        { apply (valid_all_In G HG). intros c Hin. apply in_concat in Hin. destruct Hin as (l & Hl' & Hin).
          apply (proj1 (valid_all_In G HG l) (VMs l Hl')). exact Hin. }
        rewrite <- Hc. fold ds.
        rewrite (combine_signed_perm G HG false s ds (before ++ concat groups ++ after));
          [|unfold ds; rewrite map_length; exact Hl|rewrite Hl; exact many_perm].
        rewrite !map_app. rewrite concat_map. fold B A Ms.
        rewrite (combine_app_gadd G HG B (map (combine G) Ms ++ A)); [|exact VB|apply (valid_all_app_iff G HG); split; assumption].
        rewrite (combine_app_gadd G HG (map (combine G) Ms) A) by assumption.
        rewrite (combine_app_gadd G HG B (concat Ms ++ A)); [|exact VB|apply (valid_all_app_iff G HG); split; assumption].
        rewrite (combine_app_gadd G HG (concat Ms) A) by assumption.
        rewrite (combine_concat Ms VMs). reflexivity.
    Qed.
  End One.

  Theorem fuse_core_wf (x : arr) (groups : list (list nat)) :
    wf_array G R x = true -> groups_ok (ndim G R x) groups -> wf_array G R (fuse_core G R x groups) = true.
  Proof.
    intros Hw Hg. apply (wf_array_iff G HG) in Hw. destruct Hw as [H1 H2 H3 H4]. unfold ndim in Hg.
    set (ixs := indices G R x) in *. set (q := charge G R x) in *. set (secs := sectors G R x).
    assert (Hsecs : forall s, In s secs -> SecOK ixs q s).
    { intros s Hs. unfold secs, sectors in Hs. apply in_map_iff in Hs. destruct Hs as ([s0 t0] & <- & Hin).
      apply (H4 _ _ Hin). }
    unfold fuse_core. cbv zeta. fold ixs secs q. apply (wf_mk G HG).
    set (nixs := fused_indices G ixs secs groups).
    set (Inv := fun acc : list (sector * tensor R) =>
                  NoDup (map fst acc) /\ forall k v, In (k, v) acc ->
                    (exists s, In s secs /\ k = fused_sector G ixs groups s) /\
                    tshape v = block_shape G nixs k /\ length (tdata v) = shape_size (tshape v)).
    match goal with |- WF _ _ (fold_left ?f ?l ?a) => assert (HInv : Inv (fold_left f l a)) end.
    { apply (fold_left_inv Inv).
      2:{ split; [constructor|intros k v []]. }
      intros acc [s t] Hsb [Hnd Hacc]. cbn [fst snd].
      split; [apply (OrderProofs.dset_keys_NoDup keq (keqE G HG)); exact Hnd|].
      intros k v Hin. apply (In_dset G HG) in Hin. destruct Hin as [Hin|[-> ->]]; [apply Hacc; exact Hin|].
      split; [|split].
      - exists s. split; [|reflexivity]. unfold secs, sectors. apply in_map_iff. exists (s, t). split; [reflexivity|exact Hsb].
      - unfold tassign. cbn [tshape build].
        destruct (lookup keq (fused_sector G ixs groups s) acc) as [t0|] eqn:E.
        + apply (lookupE G HG) in E. apply (Hacc _ _ E).
        + reflexivity.
      - apply block_len_tassign. }
    destruct HInv as [Hnd Hall]. constructor.
    - apply (nixs_ok ixs q secs groups H1 Hsecs Hg).
    - exact H2.
    - exact Hnd.
    - intros k v Hin. destruct (Hall k v Hin) as ((s & Hs & ->) & Hsh & Hlen). split; [|split; assumption].
      apply (fused_SecOK ixs q secs groups H1 Hsecs Hg s Hs).
  Qed.

  (* ---- a_fuse, any groups ---- *)
  Lemma concat_filter_nonempty (groups : list (list nat)) :
    concat (filter (fun g => negb (is_nil g)) groups) = concat groups.
  Proof.
    induction groups as [|g gs IH]; [reflexivity|]. cbn [filter]. destruct g as [|a g]; cbn [is_nil negb concat app]; [exact IH|].
    f_equal. f_equal. exact IH.
  Qed.

  Lemma groups_ok_nonempty n (groups : list (list nat)) :
    NoDup (concat groups) -> (forall i, In i (concat groups) -> i < n) ->
    filter (fun g => negb (is_nil g)) groups <> [] ->
    groups_ok n (filter (fun g => negb (is_nil g)) groups).
  Proof.
    intros Hnd Hlt Hne. unfold groups_ok. rewrite concat_filter_nonempty.
    split; [exact Hnd|]. split; [exact Hlt|]. split; [exact Hne|].
    intros g Hin. apply filter_In in Hin. destruct Hin as [_ Hn]. destruct g; [discriminate Hn|discriminate].
  Qed.

  Theorem fuse_wf (x : arr) (groups : list (list nat)) :
    wf_array G R x = true -> NoDup (concat groups) -> (forall i, In i (concat groups) -> i < ndim G R x) ->
    wf_array G R (a_fuse G R x groups) = true.
  Proof.
    intros Hw Hnd Hlt. unfold a_fuse. cbv zeta.
    apply (fold_left_inv (fun acc => wf_array G R acc = true)).
    - intros acc p _ Hacc. destruct (is_nil (snd p)); [apply (expand_dims_wf G HG)|]; exact Hacc.
    - destruct (filter (fun g => negb (is_nil g)) groups) as [|g0 r] eqn:E; [exact Hw|].
      apply fuse_core_wf; [exact Hw|]. rewrite <- E. apply groups_ok_nonempty; try assumption. rewrite E. discriminate.
  Qed.

  Theorem fuse_noexpand_wf (x : arr) (groups : list (list nat)) :
    wf_array G R x = true -> NoDup (concat groups) -> (forall i, In i (concat groups) -> i < ndim G R x) ->
    wf_array G R (a_fuse_noexpand G R x groups) = true.
  Proof.
    intros Hw Hnd Hlt. unfold a_fuse_noexpand.
    destruct (filter (fun g => negb (is_nil g)) groups) as [|g0 r] eqn:E; [exact Hw|].
    apply fuse_core_wf; [exact Hw|]. rewrite <- E. apply groups_ok_nonempty; try assumption. rewrite E. discriminate.
  Qed.

  (* ---- groups that cover every axis: no axis before / after ---- *)
  Lemma covering_position n (groups : list (list nat)) :
    Permutation (concat groups) (seq 0 n) -> 0 < n -> fuse_position groups = 0.
  Proof.
    intros Hp Hn. unfold fuse_position.
    assert (H0 : In 0 (concat groups)) by (apply (perm_seq_sur _ _ Hp); exact Hn).
    assert (Hne : concat groups <> []) by (intros E; rewrite E in H0; destruct H0).
    destruct (list_min_spec _ Hne) as [_ Hall]. rewrite Forall_forall in Hall. specialize (Hall 0 H0). lia.
  Qed.

  Lemma covering_before_after n (groups : list (list nat)) :
    Permutation (concat groups) (seq 0 n) -> 0 < n -> axes_before n groups = [] /\ axes_after n groups = [].
  Proof.
    intros Hp Hn. unfold axes_before, axes_after. rewrite (covering_position n groups Hp Hn). split; [reflexivity|].
    apply filter_none. intros i Hi. rewrite ungrouped_spec. apply negb_false_iff. apply memN_iff.
    apply (perm_seq_sur _ _ Hp). apply in_seq in Hi. lia.
  Qed.

  Lemma covering_indices (x : arr) (groups : list (list nat)) :
    Permutation (concat groups) (seq 0 (ndim G R x)) -> 0 < ndim G R x ->
    indices G R (fuse_core G R x groups) = map (fused_index G (indices G R x) (sectors G R x)) groups.
  Proof.
    intros Hp Hn. unfold fuse_core. cbv zeta. cbn [indices]. unfold fused_indices.
    unfold ndim in Hp, Hn. destruct (covering_before_after _ groups Hp Hn) as [-> ->]. cbn [map app]. apply app_nil_r.
  Qed.

  (* the two-group fuse of the fused-mode contraction *)
  Lemma fuse_noexpand_two (x : arr) (g1 g2 : list nat) :
    wf_array G R x = true -> Permutation (g1 ++ g2) (seq 0 (ndim G R x)) ->
    let xf := a_fuse_noexpand G R x [g1; g2] in
    wf_array G R xf = true /\
    ndim G R xf = (if is_nil g1 then 0 else 1) + (if is_nil g2 then 0 else 1) /\
    charge G R xf = charge G R x /\
    (g1 <> [] -> idual G (nth 0 (indices G R xf) dix) = idual G (nth (hd 0 g1) (indices G R x) dix)) /\
    (g2 <> [] -> idual G (nth (if is_nil g1 then 0 else 1) (indices G R xf) dix) = idual G (nth (hd 0 g2) (indices G R x) dix)).
  Proof.
    intros Hw Hp. cbv zeta.
    assert (Hc : concat [g1; g2] = g1 ++ g2) by (cbn [concat]; rewrite app_nil_r; reflexivity).
    split.
    { apply fuse_noexpand_wf; [exact Hw| |]; rewrite Hc.
      - apply (Permutation_NoDup (Permutation_sym Hp)). apply seq_NoDup.
      - apply (perm_seq_lt _ _ Hp). }
    assert (Hlen : length g1 + length g2 = ndim G R x).
    { rewrite <- app_length, (Permutation_length Hp). apply seq_length. }
    unfold a_fuse_noexpand.
    destruct g1 as [|a1 r1]; destruct g2 as [|a2 r2]; cbn [filter is_nil negb].
    - cbn [length] in Hlen. split; [symmetry; exact Hlen|]. split; [reflexivity|]. split; intros H; congruence.
    - assert (Hp' : Permutation (concat [a2 :: r2]) (seq 0 (ndim G R x))) by (cbn [concat]; rewrite app_nil_r; exact Hp).
      assert (Hn : 0 < ndim G R x) by (cbn [length] in Hlen; lia).
      unfold ndim at 1. rewrite (covering_indices x _ Hp' Hn). cbn [map length Nat.add nth].
      split; [reflexivity|]. split; [reflexivity|]. split; [intros H; congruence|]. intros _. apply stmt_A4.
    - assert (Hp' : Permutation (concat [a1 :: r1]) (seq 0 (ndim G R x))).
      { cbn [concat]. rewrite app_nil_r. rewrite app_nil_r in Hp. exact Hp. }
      assert (Hn : 0 < ndim G R x) by (cbn [length] in Hlen; lia).
      unfold ndim at 1. rewrite (covering_indices x _ Hp' Hn). cbn [map length Nat.add nth].
      split; [reflexivity|]. split; [reflexivity|]. split; [|intros H; congruence]. intros _. apply stmt_A4.
    - assert (Hp' : Permutation (concat [a1 :: r1; a2 :: r2]) (seq 0 (ndim G R x))) by (rewrite Hc; exact Hp).
      assert (Hn : 0 < ndim G R x) by (cbn [length] in Hlen; lia).
      unfold ndim at 1. rewrite (covering_indices x _ Hp' Hn). cbn [map length Nat.add nth].
      split; [reflexivity|]. split; [reflexivity|]. split; intros _; apply stmt_A4.
  Qed.

  (* the blockwise contraction of the two fused matrices *)
  Lemma tdot_fused_core (af bf : arr) (la aa ab rb : list nat) :
    wf_array G R af = true -> wf_array G R bf = true -> is_nil aa = is_nil ab ->
    ndim G R af = (if is_nil la then 0 else 1) + (if is_nil aa then 0 else 1) ->
    ndim G R bf = (if is_nil ab then 0 else 1) + (if is_nil rb then 0 else 1) ->
    (aa <> [] -> idual G (nth (if is_nil la then 0 else 1) (indices G R af) dix) = negb (idual G (nth 0 (indices G R bf) dix))) ->
    wf_array G R (tdot_blockwise G R af bf
      (if is_nil la then [] else [0]) (if is_nil aa then [] else if is_nil la then [0] else [1])
      (if is_nil ab then [] else [0]) (if is_nil rb then [] else if is_nil ab then [0] else [1])) = true.
  Proof.
    intros Ha Hb Hnil Hna Hnb Hd.
    assert (N1 : forall k : nat, NoDup [k]) by (intros k; constructor; [intros []|constructor]).
    assert (Hgen : forall A B, NoDup A -> NoDup B -> (forall i, In i A -> i < ndim G R af) ->
              (forall i, In i B -> i < ndim G R bf) -> length A = length B ->
              (forall k, k < length A -> idual G (nth (nth k A 0) (indices G R af) dix) =
                                          negb (idual G (nth (nth k B 0) (indices G R bf) dix))) ->
              wf_array G R (tdot_blockwise G R af bf (rest_axes (ndim G R af) A) A B (rest_axes (ndim G R bf) B)) = true).
    { intros A B. intros. apply (tdot_blockwise_wf G HG R HO); assumption. }
    destruct la as [|l0 la]; destruct aa as [|a0 aa]; destruct ab as [|b0 ab]; destruct rb as [|r0 rb];
      cbn [is_nil Nat.add] in *; try discriminate Hnil.
    - specialize (Hgen [] []). rewrite Hna, Hnb in Hgen. apply Hgen; [constructor|constructor|intros i []|intros i []|reflexivity|intros k Hk; cbn [length] in Hk; lia].
    - specialize (Hgen [] []). rewrite Hna, Hnb in Hgen. apply Hgen; [constructor|constructor|intros i []|intros i []|reflexivity|intros k Hk; cbn [length] in Hk; lia].
    - specialize (Hgen [0] [0]). rewrite Hna, Hnb in Hgen. apply Hgen; [apply N1|apply N1|intros i [<-|[]]; lia|intros i [<-|[]]; lia|reflexivity|].
      intros k Hk. cbn [length] in Hk. assert (k = 0) by lia. subst k. cbn [nth]. apply Hd. discriminate.
    - specialize (Hgen [0] [0]). rewrite Hna, Hnb in Hgen. apply Hgen; [apply N1|apply N1|intros i [<-|[]]; lia|intros i [<-|[]]; lia|reflexivity|].
      intros k Hk. cbn [length] in Hk. assert (k = 0) by lia. subst k. cbn [nth]. apply Hd. discriminate.
    - specialize (Hgen [] []). rewrite Hna, Hnb in Hgen. apply Hgen; [constructor|constructor|intros i []|intros i []|reflexivity|intros k Hk; cbn [length] in Hk; lia].
    - specialize (Hgen [] []). rewrite Hna, Hnb in Hgen. apply Hgen; [constructor|constructor|intros i []|intros i []|reflexivity|intros k Hk; cbn [length] in Hk; lia].
    - specialize (Hgen [1] [0]). rewrite Hna, Hnb in Hgen. apply Hgen; [apply N1|apply N1|intros i [<-|[]]; lia|intros i [<-|[]]; lia|reflexivity|].
      intros k Hk. cbn [length] in Hk. assert (k = 0) by lia. subst k. cbn [nth]. apply Hd. discriminate.
    - specialize (Hgen [1] [0]). rewrite Hna, Hnb in Hgen. apply Hgen; [apply N1|apply N1|intros i [<-|[]]; lia|intros i [<-|[]]; lia|reflexivity|].
      intros k Hk. cbn [length] in Hk. assert (k = 0) by lia. subst k. cbn [nth]. apply Hd. discriminate.
  Qed.

  (* ---- contraction in fused mode ---- *)
  Lemma drop_misaligned_frame (a b : arr) aa ab :
    map (idual G) (indices G R (fst (drop_misaligned G R a b aa ab))) = map (idual G) (indices G R a) /\
    charge G R (fst (drop_misaligned G R a b aa ab)) = charge G R a /\
    map (idual G) (indices G R (snd (drop_misaligned G R a b aa ab))) = map (idual G) (indices G R b) /\
    charge G R (snd (drop_misaligned G R a b aa ab)) = charge G R b.
  Proof. unfold drop_misaligned. cbv zeta. cbn [fst snd indices charge]. rewrite !duals_prune. repeat split. Qed.

  Lemma idual_nth_map (ixs : list (index G)) i : idual G (nth i ixs dix) = nth i (map (idual G) ixs) false.
  Proof. symmetry. apply nth_duals. Qed.

  Theorem tdot_fused_wf (a b : arr) (aa ab : list nat) :
    wf_array G R a = true -> wf_array G R b = true ->
    NoDup aa -> (forall i, In i aa -> i < ndim G R a) ->
    NoDup ab -> (forall i, In i ab -> i < ndim G R b) ->
    length aa = length ab ->
    (forall k, k < length aa ->
       idual G (nth (nth k aa 0) (indices G R a) dix) = negb (idual G (nth (nth k ab 0) (indices G R b) dix))) ->
    wf_array G R (tdot_fused G R a b (rest_axes (ndim G R a) aa) aa ab (rest_axes (ndim G R b) ab)) = true.
  Proof.
    intros Ha Hb C1 C2 C3 C4 C5 C6. unfold tdot_fused.
    destruct (drop_misaligned_wf G HG R HO a b aa ab Ha Hb) as [W1 W2].
    destruct (drop_misaligned_frame a b aa ab) as (D1 & Q1 & D2 & Q2).
    destruct (drop_misaligned G R a b aa ab) as [a1 b1]. cbn [fst snd] in *.
    assert (Na : ndim G R a1 = ndim G R a).
    { unfold ndim. rewrite <- (map_length (idual G) (indices G R a1)), D1, map_length. reflexivity. }
    assert (Nb : ndim G R b1 = ndim G R b).
    { unfold ndim. rewrite <- (map_length (idual G) (indices G R b1)), D2, map_length. reflexivity. }
    destruct (is_nil (blocks G R a1) || is_nil (blocks G R b1)).
    - apply (wf_mk G HG). apply (wf_array_iff G HG) in W1. apply (wf_array_iff G HG) in W2. constructor.
      + rewrite (without_axes_take dix (indices G R a1)), (without_axes_take dix (indices G R b1)).
        unfold WfProofs.IxsOK. apply Forall_app. split; apply Forall_forall; intros ix Hin;
          apply in_map_iff in Hin; destruct Hin as (i & <- & Hi); apply In_rest_axes in Hi.
        * pose proof (wf_ix _ _ _ _ _ W1) as H. unfold WfProofs.IxsOK in H. rewrite Forall_forall in H. apply H. apply nth_In. exact Hi.
        * pose proof (wf_ix _ _ _ _ _ W2) as H. unfold WfProofs.IxsOK in H. rewrite Forall_forall in H. apply H. apply nth_In. exact Hi.
      + apply (gadd_valid G HG); [rewrite <- Q1; apply (wf_q _ _ _ _ _ W1)|rewrite <- Q2; apply (wf_q _ _ _ _ _ W2)].
      + constructor.
      + intros s t [].
    - cbv zeta. apply unfuse_all_wf.
      set (la := rest_axes (ndim G R a) aa). set (rb := rest_axes (ndim G R b) ab).
      assert (Pa : Permutation (la ++ aa) (seq 0 (ndim G R a1))) by (rewrite Na; apply rest_axes_perm; assumption).
      assert (Pb : Permutation (ab ++ rb) (seq 0 (ndim G R b1))).
      { rewrite Nb. eapply Permutation_trans; [apply Permutation_app_comm|]. apply rest_axes_perm; assumption. }
      destruct (fuse_noexpand_two a1 la aa W1 Pa) as (Wf & Nf & _ & _ & Df).
      destruct (fuse_noexpand_two b1 ab rb W2 Pb) as (Wg & Ng & _ & Dg & _).
      apply tdot_fused_core; try assumption.
      + destruct aa, ab; try discriminate C5; reflexivity.
      + intros Hne. rewrite (Df Hne).
        assert (Hne' : ab <> []) by (destruct aa, ab; try discriminate C5; congruence).
        rewrite (Dg Hne'). rewrite !idual_nth_map, D1, D2, <- !idual_nth_map.
        destruct aa as [|a0 aa]; [congruence|]. destruct ab as [|b0 ab]; [congruence|]. cbn [hd].
        apply (C6 0). cbn [length]. lia.
  Qed.

  (* the tensordot front end, every mode *)
  Theorem tensordot_wf (a b c : arr) axes mode aa ab :
    wf_array G R a = true -> wf_array G R b = true ->
    parse_axes (ndim G R a) (ndim G R b) axes = Some (aa, ab) -> contract_ok G R a b aa ab = true ->
    a_tensordot G R a b axes mode = Some c -> wf_array G R c = true.
  Proof.
    intros Ha Hb Hp Hc Ht. unfold a_tensordot in Ht. rewrite Hp in Ht. inversion Ht; subst c; clear Ht.
    destruct (contract_ok_spec G R _ _ _ _ Hc) as (C1 & C2 & C3 & C4 & C5 & C6).
    destruct mode; [destruct (is_nil aa)| |];
      first [apply (tdot_blockwise_wf G HG R HO); assumption | apply tdot_fused_wf; assumption].
  Qed.

  (* ---- fermionic fuse, any non-empty groups ---- *)
  Theorem f_fuse_all_wf (x : farr) (groups : list (list nat)) :
    wf_fermi G R x = true -> groups_ok (ndim G R (fbase G R x)) groups ->
    wf_fermi G R (f_fuse G R x groups) = true.
  Proof.
    intros Hx Hg. unfold f_fuse. cbv zeta.
    set (n := ndim G R (fbase G R x)) in *. set (perm := fuse_perm n groups).
    pose proof Hg as (Hnd & Hlt & Hne & Hall).
    assert (Hperm : Permutation perm (seq 0 n)).
    { apply fuse_perm_perm; [exact Hnd|exact Hlt|apply (groups_ok_concat_ne n groups Hg)]. }
    set (x1 := f_transpose G R x perm true).
    assert (Hx1 : wf_fermi G R x1 = true) by (apply (f_transpose_wf G HG); assumption).
    set (groups' := map (map (fun ax => index_of ax perm)) groups).
    match goal with |- wf_fermi G R (with_base G R ?z _) = true => set (x4 := z) end.
    assert (Hx4 : wf_fermi G R x4 = true).
    { unfold x4. apply (f_phase_sync_wf G HG).
      destruct (is_nil _); [|apply (f_phase_transpose_wf G HG)]; apply (f_phase_flip_wf G HG); exact Hx1. }
    assert (Eix : indices G R (fbase G R x4) = indices G R (fbase G R x1)).
    { unfold x4, f_phase_sync, with_blocks. cbn [fbase indices].
      destruct (is_nil _); [|unfold f_phase_transpose, with_phases; cbn [fbase]]; rewrite fbase_flip; reflexivity. }
    assert (Hn4 : ndim G R (fbase G R x4) = n).
    { unfold ndim. rewrite Eix. unfold x1, f_transpose, a_transpose. cbn [fbase indices]. unfold permuted.
      rewrite map_length. rewrite (Permutation_length Hperm). apply seq_length. }
    assert (Hin : forall ax, In ax (concat groups) -> In ax perm).
    { intros ax Hax. apply (perm_seq_sur _ _ Hperm). apply Hlt. exact Hax. }
    assert (Hg' : groups_ok (ndim G R (fbase G R x4)) groups').
    { rewrite Hn4. unfold groups_ok, groups'. rewrite <- concat_map. split; [|split; [|split]].
      - apply NoDup_map_inj_on; [|exact Hnd]. intros a0 b0 Ha0 Hb0 E.
        destruct (index_of_In a0 perm (Hin a0 Ha0)) as [_ E1].
        destruct (index_of_In b0 perm (Hin b0 Hb0)) as [_ E2]. congruence.
      - intros i Hi. apply in_map_iff in Hi. destruct Hi as (ax & <- & Hax).
        destruct (index_of_In ax perm (Hin ax Hax)) as [Hl _].
        rewrite (Permutation_length Hperm), seq_length in Hl. exact Hl.
      - destruct groups; [congruence|discriminate].
      - intros g Hgin. apply in_map_iff in Hgin. destruct Hgin as (g0 & <- & Hg0). specialize (Hall g0 Hg0).
        destruct g0; [congruence|discriminate]. }
    assert (Hb : wf_array G R (fuse_core G R (fbase G R x4) groups') = true).
    { apply fuse_core_wf; [apply WFF_base_wf; exact Hx4|exact Hg']. }
    apply (wf_fermi_iff G HG). constructor; cbn [with_base fbase fphases foddpos].
    - apply (wf_array_iff G HG). exact Hb.
    - unfold x4, f_phase_sync. cbn [fphases]. apply PhOK_nil.
    - change (fparity G R (mkF G R (fuse_core G R (fbase G R x4) groups') (fphases G R x4) (foddpos G R x4)))
        with (fparity G R x4).
      apply (ff_par G R x4). apply (wf_fermi_iff G HG). exact Hx4.
  Qed.

  (* ---- fermionic tensordot, every mode ---- *)
  Theorem f_tensordot_all_wf (a b y : farr) axes mode aa ab :
    wf_fermi G R a = true -> wf_fermi G R b = true ->
    parse_axes (ndim G R (fbase G R a)) (ndim G R (fbase G R b)) axes = Some (aa, ab) ->
    contract_ok G R (fbase G R a) (fbase G R b) aa ab = true ->
    f_tensordot G R a b axes mode = Some y -> wf_fermi G R y = true.
  Proof.
    intros Ha Hb Hp Hc Hy.
    destruct (f_tensordot_prepare a b y axes mode aa ab Ha Hb Hp Hc Hy)
      as (a3 & b4 & c & axes' & naa & nab & Ha3 & Hb4 & Hp' & Hc' & Ec & Hfin).
    apply (finish_contraction_wf a3 b4 y c Ha3 Hb4); [|apply (tensordot_charge _ _ _ _ _ Ec)|exact Hfin].
    apply (tensordot_wf (fbase G R a3) (fbase G R b4) c axes' mode naa nab); try assumption;
      apply WFF_base_wf; assumption.
  Qed.
  End FuseMany.

  (* ---------------------------------------------------------------- *)
  (* §5 programs over the extended instruction set *)

  Inductive instr2 : Type :=
  | IOld (i : instr G R)                                   (* every instruction of WfProofs.v *)
  | IUnfuse (r : nat) (axis : nat)
  | IUnfuseAll (r : nat)
  | IEinsum (r : nat) (lhs rhs : list nat)
  | IMatmul (r1 r2 : nat)
  | ITensordot (r1 r2 : nat) (axes : nat + (list Z * list Z)) (mode : tmode)   (* tensordot, every mode *)
  | IFuse (r : nat) (groups : list (list nat))                  (* fuse( *groups ), empty groups expanded *)
  (* fermionic register file *)
  | FMatmul (r1 r2 : nat)
  | FTensordot (r1 r2 : nat) (axes : nat + (list Z * list Z)) (mode : tmode)
  | FUnfuse (r : nat) (axis : nat)
  | FFuse (r : nat) (groups : list (list nat))                   (* fuse of non-empty groups *)
  | FEinsum (r : nat) (lhs rhs : list nat).                      (* einsum of a fermionic array: an abelian result *)

  Definition onF2 (rs : list farr) (r1 r2 : nat) (f : farr -> farr -> option (regfile G R)) : option (regfile G R) :=
    match nth_error rs r1, nth_error rs r2 with Some x, Some y => f x y | _, _ => None end.

  (* the values an instruction produces; None = the operation raises or its
     executable side condition fails *)
  Definition results2 (st : regfile G R) (i : instr2) : option (regfile G R) :=
    let '(ra, rf) := st in
    match i with
    | IOld i0 => results G R st i0
    | IUnfuse r axis => on1 G R ra r (fun x => outA G R (a_unfuse G R x axis))
    | IUnfuseAll r => on1 G R ra r (fun x => outA G R (Some (a_unfuse_all G R x)))
    | IEinsum r lhs rhs => on1 G R ra r (fun x =>
        if labels_ok lhs rhs && traced_duals_ok (indices G R x) lhs rhs
        then outA G R (a_einsum G R x lhs rhs) else None)
    | IMatmul r1 r2 => on2 G R ra r1 r2 (fun x y =>
        if matmul_ok x y then outA G R (a_matmul G R x y) else None)
    | ITensordot r1 r2 axes mode => on2 G R ra r1 r2 (fun x y =>
        match parse_axes (ndim G R x) (ndim G R y) axes with
        | Some (aa, ab) => if contract_ok G R x y aa ab then outA G R (a_tensordot G R x y axes mode) else None
        | None => None
        end)
    | IFuse r groups => on1 G R ra r (fun x =>
        outA G R (guard (axes_ok (ndim G R x) (concat groups)) (a_fuse G R x groups)))
    | FMatmul r1 r2 => onF2 rf r1 r2 (fun x y =>
        if matmul_ok (fbase G R x) (fbase G R y) then outF G R (f_matmul G R x y) else None)
    | FTensordot r1 r2 axes mode => onF2 rf r1 r2 (fun x y =>
        match parse_axes (ndim G R (fbase G R x)) (ndim G R (fbase G R y)) axes with
        | Some (aa, ab) =>
            if contract_ok G R (fbase G R x) (fbase G R y) aa ab
            then outF G R (f_tensordot G R x y axes mode) else None
        | None => None
        end)
    | FUnfuse r axis => onF G R rf r (fun x => outF G R (f_unfuse G R x axis))
    | FFuse r groups => onF G R rf r (fun x =>
        outF G R (guard (groups_okb (ndim G R (fbase G R x)) groups) (f_fuse G R x groups)))
    | FEinsum r lhs rhs => onF G R rf r (fun x =>
        let perm := f_einsum_perm x lhs rhs in
        if labels_ok (map (fun i => nth i lhs 0) perm) rhs &&
           traced_duals_ok (permuted dix (indices G R (fbase G R x)) perm) (map (fun i => nth i lhs 0) perm) rhs
        then outA G R (f_einsum G R x lhs rhs) else None)
    end.

  Definition step2 (st : regfile G R) (i : instr2) : option (regfile G R) :=
    match results2 st i with
    | Some (ya, yf) => Some (fst st ++ ya, snd st ++ yf)
    | None => None
    end.

  Fixpoint run2 (prog : list instr2) (st : regfile G R) : option (regfile G R) :=
    match prog with
    | [] => Some st
    | i :: prog' => match step2 st i with Some st' => run2 prog' st' | None => None end
    end.

  (* the old programs are the programs over `IOld` *)
  Lemma run2_old (prog : list (instr G R)) : forall st, run2 (map IOld prog) st = run G R prog st.
  Proof.
    induction prog as [|i prog IH]; intros st; cbn [map run2 run]; [reflexivity|].
    unfold step2, step. destruct st as [ra rf]. cbn [results2].
    destruct (results G R (ra, rf) i) as [[ya yf]|]; [apply IH|reflexivity].
  Qed.

  Theorem results2_wf (HO : OrderLaws G) st i ys : wf_regs G R st -> results2 st i = Some ys -> wf_regs G R ys.
  Proof.
    destruct st as [ra rf]. intros Hst. pose proof Hst as [Ha Hf]. cbn [fst snd] in Ha, Hf.
    assert (GA : forall r x, nth_error ra r = Some x -> wf_array G R x = true).
    { intros r x E. rewrite Forall_forall in Ha. apply Ha. apply (nth_error_In _ _ E). }
    assert (GF : forall r x, nth_error rf r = Some x -> wf_fermi G R x = true).
    { intros r x E. rewrite Forall_forall in Hf. apply Hf. apply (nth_error_In _ _ E). }
    destruct i; cbn [results2]; unfold on1, on2, onF, onF2.
    - apply (results_wf G HG R HO). exact Hst.
    - destruct (nth_error ra r) as [x|] eqn:E; [|discriminate]. apply outA_wf.
      intros y Hy. apply (unfuse_wf x y axis); [apply (GA _ _ E)|exact Hy].
    - destruct (nth_error ra r) as [x|] eqn:E; [|discriminate]. apply outA_wf.
      intros y Hy. inversion Hy; subst y. apply unfuse_all_wf. apply (GA _ _ E).
    - destruct (nth_error ra r) as [x|] eqn:E; [|discriminate].
      destruct (labels_ok lhs rhs && traced_duals_ok (indices G R x) lhs rhs) eqn:Eg; [|discriminate].
      apply andb_true_iff in Eg. destruct Eg as [Eg1 Eg2]. apply outA_wf.
      intros y Hy. apply (einsum_wf x y lhs rhs); [apply (GA _ _ E)|exact Hy|exact Eg1|exact Eg2].
    - destruct (nth_error ra r1) as [x|] eqn:E1; [|discriminate].
      destruct (nth_error ra r2) as [y|] eqn:E2; [|discriminate].
      destruct (matmul_ok x y) eqn:Eg; [|discriminate]. apply outA_wf.
      intros z Hz. apply (matmul_wf HO x y z); [apply (GA _ _ E1)|apply (GA _ _ E2)|exact Eg|exact Hz].
    - destruct (nth_error ra r1) as [x|] eqn:E1; [|discriminate].
      destruct (nth_error ra r2) as [y|] eqn:E2; [|discriminate].
      destruct (parse_axes (ndim G R x) (ndim G R y) axes) as [[aa ab]|] eqn:Ep; [|discriminate].
      destruct (contract_ok G R x y aa ab) eqn:Eg; [|discriminate]. apply outA_wf.
      intros z Hz. apply (tensordot_wf HO x y z axes mode aa ab); try assumption;
        [apply (GA _ _ E1)|apply (GA _ _ E2)].
    - destruct (nth_error ra r) as [x|] eqn:E; [|discriminate]. apply outA_wf.
      intros y Hy. apply guard_some in Hy. destruct Hy as [Hg ->]. apply axes_ok_spec in Hg. destruct Hg as [Hnd Hlt].
      apply (fuse_wf HO); [apply (GA _ _ E)|exact Hnd|exact Hlt].
    - destruct (nth_error rf r1) as [x|] eqn:E1; [|discriminate].
      destruct (nth_error rf r2) as [y|] eqn:E2; [|discriminate].
      destruct (matmul_ok (fbase G R x) (fbase G R y)) eqn:Eg; [|discriminate]. apply outF_wf.
      intros z Hz. apply (f_matmul_wf HO x y z); [apply (GF _ _ E1)|apply (GF _ _ E2)|exact Eg|exact Hz].
    - destruct (nth_error rf r1) as [x|] eqn:E1; [|discriminate].
      destruct (nth_error rf r2) as [y|] eqn:E2; [|discriminate].
      destruct (parse_axes (ndim G R (fbase G R x)) (ndim G R (fbase G R y)) axes) as [[aa ab]|] eqn:Ep; [|discriminate].
      destruct (contract_ok G R (fbase G R x) (fbase G R y) aa ab) eqn:Eg; [|discriminate]. apply outF_wf.
      intros z Hz. apply (f_tensordot_all_wf HO x y z axes mode aa ab); try assumption;
        [apply (GF _ _ E1)|apply (GF _ _ E2)].
    - destruct (nth_error rf r) as [x|] eqn:E; [|discriminate]. apply outF_wf.
      intros y Hy. apply (f_unfuse_wf x y axis); [apply (GF _ _ E)|exact Hy].
    - destruct (nth_error rf r) as [x|] eqn:E; [|discriminate]. apply outF_wf.
      intros y Hy. apply guard_some in Hy. destruct Hy as [Hg ->]. apply groups_okb_spec in Hg.
      apply (f_fuse_all_wf HO); [apply (GF _ _ E)|exact Hg].
    - destruct (nth_error rf r) as [x|] eqn:E; [|discriminate]. cbv zeta.
      destruct (labels_ok _ rhs && traced_duals_ok _ _ rhs) eqn:Eg; [|discriminate].
      apply andb_true_iff in Eg. destruct Eg as [Eg1 Eg2]. apply outA_wf.
      intros y Hy. apply (f_einsum_wf x y lhs rhs); [apply (GF _ _ E)|exact Hy|exact Eg1|exact Eg2].
  Qed.

  Theorem step2_wf (HO : OrderLaws G) st i st' : wf_regs G R st -> step2 st i = Some st' -> wf_regs G R st'.
  Proof.
    intros Hw Hs. unfold step2 in Hs. destruct (results2 st i) as [[ya yf]|] eqn:E; [|discriminate Hs].
    inversion Hs; subst st'. destruct (results2_wf HO st i _ Hw E) as [Wa Wf]. destruct Hw as [Ha Hf].
    split; cbn [fst snd] in *; apply Forall_app; split; assumption.
  Qed.

  (* for every finite program over the extended instruction set: all
     registers valid before => all registers valid after *)
  Theorem programs_wf2 (HO : OrderLaws G) (prog : list instr2) : forall st st',
    wf_regs G R st -> run2 prog st = Some st' -> wf_regs G R st'.
  Proof.
    induction prog as [|i prog IH]; intros st st' Hw Hr; cbn [run2] in Hr.
    - inversion Hr; subst st'. exact Hw.
    - destruct (step2 st i) as [st1|] eqn:E; [|discriminate Hr].
      apply (IH st1 st'); [apply (step2_wf HO st i st1 Hw E)|exact Hr].
  Qed.

  (* ... and every register passes the audited predicate of Model/Valid.v *)
  Theorem programs_valid2 (HO : OrderLaws G) (prog : list instr2) (st st' : regfile G R) :
    wf_regs G R st -> run2 prog st = Some st' -> valid_regs G R st'.
  Proof.
    intros Hw Hr. destruct (programs_wf2 HO prog st st' Hw Hr) as [Ha Hf]. split.
    - eapply Forall_impl; [|exact Ha]. intros x. apply (wf_valid_array G HG R HO).
    - eapply Forall_impl; [|exact Hf]. intros x. apply (wf_valid_farray G HG R HO).
  Qed.

End Wf2.

(* ------------------------------------------------------------------ *)
(* §6 Examples: the hypotheses hold on concrete non-trivial instances *)

Section Examples2.
  Local Open Scope Z_scope.

  (* ex_u (WfProofs.v): U1, rank 3, first index already fused, charge 1.
     Fuse its last two legs (one dual, one not), then unfuse again. *)
  Definition ex_fu : aarray U1 ZRing := fuse_core U1 ZRing ex_u [[1; 2]%nat].

  Example ex_fu_wf : wf_array U1 ZRing ex_fu = true.
  Proof. exact fuse_wf_inst. Qed.

  Example unfuse_wf_inst y : a_unfuse U1 ZRing ex_fu 1 = Some y -> wf_array U1 ZRing y = true.
  Proof. apply (unfuse_wf U1 U1_laws ZRing ex_fu y 1). exact ex_fu_wf. Qed.

  (* the hypothesis is satisfiable, and fuse followed by unfuse is the identity here *)
  Example unfuse_roundtrip :
    match a_unfuse U1 ZRing ex_fu 1 with
    | Some y => wf_array U1 ZRing y && aarray_eqb U1 ZRing y ex_u && Nat.eqb (length (blocks U1 ZRing y)) 4
    | None => false
    end = true.
  Proof. vm_compute. reflexivity. Qed.

  (* unfusing the index that was fused from the start: 4 blocks become 6 *)
  Example unfuse_first :
    match a_unfuse U1 ZRing ex_u 0 with
    | Some y => wf_array U1 ZRing y && Nat.eqb (ndim U1 ZRing y) 4 && Nat.eqb (length (blocks U1 ZRing y)) 6
    | None => false
    end = true.
  Proof. vm_compute. reflexivity. Qed.

  Example unfuse_all_wf_inst : wf_array U1 ZRing (a_unfuse_all U1 ZRing ex_fu) = true.
  Proof. apply (unfuse_all_wf U1 U1_laws ZRing). exact ex_fu_wf. Qed.

  Example unfuse_all_rank : ndim U1 ZRing (a_unfuse_all U1 ZRing ex_fu) = 4%nat.
  Proof. vm_compute. reflexivity. Qed.

  (* einsum "aba->b": legs 0 and 2 carry the same table in opposite directions;
     the block (0,0,1) is off the diagonal and is dropped *)
  Definition eA1 : index U1 := Index U1 [(0, 2%nat); (1, 1%nat)] true None.
  Definition eA2 : index U1 := Index U1 [(0, 2%nat); (1, 1%nat)] false None.
  Definition eB : index U1 := Index U1 [(0, 1%nat); (1, 2%nat)] false None.
  Definition ex_e : aarray U1 ZRing := mkA U1 ZRing [eA1; eB; eA2] 1
    [([0; 1; 0], @mkT ZRing [2; 2; 2]%nat [1; 2; 3; 4; 5; 6; 7; 8]);
     ([1; 1; 1], @mkT ZRing [1; 2; 1]%nat [10; 20]);
     ([0; 0; 1], @mkT ZRing [2; 1; 1]%nat [5; 7])].

  Example ex_e_wf : wf_array U1 ZRing ex_e = true.
  Proof. vm_compute. reflexivity. Qed.

  Example einsum_wf_hyps :
    labels_ok [0; 1; 0]%nat [1]%nat = true /\
    traced_duals_ok U1 (indices U1 ZRing ex_e) [0; 1; 0]%nat [1]%nat = true /\
    traced_tables_ok U1 (indices U1 ZRing ex_e) [0; 1; 0]%nat [1]%nat = true.
  Proof. vm_compute. repeat split. Qed.

  Example einsum_wf_inst y : a_einsum U1 ZRing ex_e [0; 1; 0]%nat [1]%nat = Some y -> wf_array U1 ZRing y = true.
  Proof.
    intros Hy. destruct einsum_wf_hyps as (E1 & E2 & _).
    apply (einsum_wf U1 U1_laws ZRing ex_e y [0; 1; 0]%nat [1]%nat ex_e_wf Hy E1 E2).
  Qed.

  Example einsum_value :
    a_einsum U1 ZRing ex_e [0; 1; 0]%nat [1]%nat =
    Some (mkA U1 ZRing [eB] 1 [([1], @mkT ZRing [2]%nat [17; 31])]).
  Proof. vm_compute. reflexivity. Qed.

  (* the direction hypothesis cannot be dropped: tracing two legs that point
     the same way gives sectors that do not conserve the charge *)
  Definition eB' : index U1 := Index U1 [(-1, 1%nat); (0, 1%nat); (1, 2%nat)] false None.
  Definition ex_e_bad : aarray U1 ZRing := mkA U1 ZRing [eA2; eB'; eA2] 1
    [([0; 1; 0], @mkT ZRing [2; 2; 2]%nat [1; 2; 3; 4; 5; 6; 7; 8]);
     ([1; -1; 1], @mkT ZRing [1; 1; 1]%nat [10])].

  Example einsum_needs_opposite_duals :
    wf_array U1 ZRing ex_e_bad = true /\ labels_ok [0; 1; 0]%nat [1]%nat = true /\
    traced_duals_ok U1 (indices U1 ZRing ex_e_bad) [0; 1; 0]%nat [1]%nat = false /\
    match a_einsum U1 ZRing ex_e_bad [0; 1; 0]%nat [1]%nat with
    | Some y => wf_array U1 ZRing y | None => true end = false.
  Proof. vm_compute. repeat split. Qed.

  (* matmul of the fused matrix with its dagger-like partner *)
  Definition ex_fu' : aarray U1 ZRing := a_conj U1 ZRing (a_transpose U1 ZRing ex_fu [1; 0]%nat).

  Example ex_fu'_wf : wf_array U1 ZRing ex_fu' = true.
  Proof. vm_compute. reflexivity. Qed.

  Example matmul_wf_hyps : matmul_ok U1 ZRing ex_fu ex_fu' = true.
  Proof. vm_compute. reflexivity. Qed.

  Example matmul_wf_inst y : a_matmul U1 ZRing ex_fu ex_fu' = Some y -> wf_array U1 ZRing y = true.
  Proof. apply (matmul_wf U1 U1_laws ZRing U1_order ex_fu ex_fu' y ex_fu_wf ex_fu'_wf matmul_wf_hyps). Qed.

  Example matmul_runs :
    match a_matmul U1 ZRing ex_fu ex_fu' with
    | Some y => Nat.eqb (length (blocks U1 ZRing y)) 3 | None => false end = true.
  Proof. vm_compute. reflexivity. Qed.

  (* tensordot front end, explicit axes with a negative entry, blockwise mode *)
  Definition ex_axes : nat + (list Z * list Z) := inr ([1; -1], [1; 2]).

  Example tensordot_front_hyps :
    parse_axes (ndim U1 ZRing ex_u) (ndim U1 ZRing (a_conj U1 ZRing ex_u)) ex_axes = Some ([1; 2]%nat, [1; 2]%nat) /\
    contract_ok U1 ZRing ex_u (a_conj U1 ZRing ex_u) [1; 2]%nat [1; 2]%nat = true.
  Proof. vm_compute. split; reflexivity. Qed.

  Example tensordot_front_inst y :
    a_tensordot U1 ZRing ex_u (a_conj U1 ZRing ex_u) ex_axes MBlockwise = Some y -> wf_array U1 ZRing y = true.
  Proof.
    destruct tensordot_front_hyps as [T1 T2].
    apply (tensordot_blockwise_front_wf U1 U1_laws ZRing U1_order ex_u (a_conj U1 ZRing ex_u) y ex_axes [1; 2]%nat [1; 2]%nat);
      [exact ex_u_wf|apply (conj_wf U1 U1_laws ZRing); exact ex_u_wf|exact T1|exact T2].
  Qed.

  (* fermionic: ex_f (WfProofs.v) has odd charge 1, label 7, one pending sign.
     Its conjugate has charge -1 and the conjugate label: contracting the two
     annihilates the pair of labels. *)
  Definition ex_fc : farray U1 ZRing := f_conj U1 ZRing ex_f true true.
  (* an odd array with a different label 3 *)
  Definition ex_fd : farray U1 ZRing := f_conj U1 ZRing (mkF U1 ZRing ex_u [] [([3], true)]) true true.
  Definition ex_faxes : nat + (list Z * list Z) := inr ([1; 2], [1; 2]).

  Example ex_fc_wf : wf_fermi U1 ZRing ex_fc = true.
  Proof. apply (f_conj_wf U1 U1_laws ZRing). exact ex_f_wf. Qed.

  Example ex_fd_wf : wf_fermi U1 ZRing ex_fd = true.
  Proof. vm_compute. reflexivity. Qed.

  Example f_tensordot_wf_hyps :
    fparity U1 ZRing ex_f = true /\ fparity U1 ZRing ex_fd = true /\
    parse_axes 3 3 ex_faxes = Some ([1; 2]%nat, [1; 2]%nat) /\
    contract_ok U1 ZRing (fbase U1 ZRing ex_f) (fbase U1 ZRing ex_fd) [1; 2]%nat [1; 2]%nat = true /\
    contract_ok U1 ZRing (fbase U1 ZRing ex_f) (fbase U1 ZRing ex_fc) [1; 2]%nat [1; 2]%nat = true.
  Proof. vm_compute. repeat split. Qed.

  Example f_tensordot_wf_inst y :
    f_tensordot U1 ZRing ex_fd ex_f ex_faxes MBlockwise = Some y -> wf_fermi U1 ZRing y = true.
  Proof.
    apply (f_tensordot_wf U1 U1_laws ZRing U1_order ex_fd ex_f y ex_faxes [1; 2]%nat [1; 2]%nat ex_fd_wf ex_f_wf).
    - vm_compute. reflexivity.
    - vm_compute. reflexivity.
  Qed.

  (* odd (x) odd: the two labels are merged into one sorted list of even length,
     and the reordering sign is recorded on every sector of the result *)
  Example f_tensordot_odd_odd :
    match f_tensordot U1 ZRing ex_fd ex_f ex_faxes MBlockwise with
    | Some y => wf_fermi U1 ZRing y &&
                list_eqb fop_eqb (foddpos U1 ZRing y) [([3], false); ([7], false)] &&
                Z.eqb (charge U1 ZRing (fbase U1 ZRing y)) 0 &&
                list_eqb (list_eqb Z.eqb) (fphases U1 ZRing y) (sectors U1 ZRing (fbase U1 ZRing y)) &&
                Nat.eqb (length (fphases U1 ZRing y)) 3
    | None => false
    end = true.
  Proof. vm_compute. reflexivity. Qed.

  (* odd (x) odd with conjugate labels: the pair annihilates *)
  Example f_tensordot_annihilate :
    match f_tensordot U1 ZRing ex_f ex_fc ex_faxes MBlockwise with
    | Some y => wf_fermi U1 ZRing y && is_nil (foddpos U1 ZRing y) | None => false
    end = true.
  Proof. vm_compute. reflexivity. Qed.

  (* fermionic fuse of one group, unfuse, matmul *)
  Example f_fuse_wf_hyps :
    NoDup [1; 2]%nat /\ Forall (fun ax => (ax < ndim U1 ZRing (fbase U1 ZRing ex_f))%nat) [1; 2]%nat /\
    (2 <= length [1; 2]%nat)%nat.
  Proof. split; [repeat constructor; cbn; intuition lia|]. split; [repeat constructor|cbn; lia]. Qed.

  Definition ex_ff : farray U1 ZRing := f_fuse U1 ZRing ex_f [[1; 2]%nat].

  Example f_fuse_wf_inst : wf_fermi U1 ZRing ex_ff = true.
  Proof.
    destruct f_fuse_wf_hyps as (F1 & F2 & F3).
    apply (f_fuse_wf U1 U1_laws ZRing U1_order ex_f [1; 2]%nat ex_f_wf F1 F2 F3).
  Qed.

  Example f_unfuse_wf_inst y : f_unfuse U1 ZRing ex_ff 1 = Some y -> wf_fermi U1 ZRing y = true.
  Proof. apply (f_unfuse_wf U1 U1_laws ZRing ex_ff y 1). exact f_fuse_wf_inst. Qed.

  Example f_fuse_unfuse_roundtrip :
    match f_unfuse U1 ZRing (f_fuse U1 ZRing ex_fc [[1; 2]%nat]) 1 with
    | Some z => wf_fermi U1 ZRing z && farray_eqb U1 ZRing z ex_fc | None => false
    end = true.
  Proof. vm_compute. reflexivity. Qed.

  Definition ex_fg : farray U1 ZRing := f_dagger U1 ZRing ex_ff true.

  Example f_matmul_wf_hyps :
    wf_fermi U1 ZRing ex_fg = true /\ matmul_ok U1 ZRing (fbase U1 ZRing ex_ff) (fbase U1 ZRing ex_fg) = true.
  Proof. split; [apply (f_dagger_wf U1 U1_laws ZRing); exact f_fuse_wf_inst|vm_compute; reflexivity]. Qed.

  Example f_matmul_wf_inst y : f_matmul U1 ZRing ex_ff ex_fg = Some y -> wf_fermi U1 ZRing y = true.
  Proof.
    destruct f_matmul_wf_hyps as [M1 M2].
    apply (f_matmul_wf U1 U1_laws ZRing U1_order ex_ff ex_fg y f_fuse_wf_inst M1 M2).
  Qed.

  Example f_matmul_runs :
    match f_matmul U1 ZRing ex_ff ex_fg with
    | Some y => wf_fermi U1 ZRing y && is_nil (foddpos U1 ZRing y) | None => false end = true.
  Proof. vm_compute. reflexivity. Qed.

  (* fuse of several groups at once, with an empty group: legs (0,2) | () | (3,1)
     of the rank-4 array obtained by unfusing everything *)
  Definition ex_u4 : aarray U1 ZRing := a_unfuse_all U1 ZRing ex_fu.

  Example fuse_wf_hyps :
    NoDup (concat [[0; 2]%nat; []; [3; 1]%nat]) /\
    (forall i, In i (concat [[0; 2]%nat; []; [3; 1]%nat]) -> (i < ndim U1 ZRing ex_u4)%nat).
  Proof.
    apply (axes_ok_spec (ndim U1 ZRing ex_u4) (concat [[0; 2]%nat; []; [3; 1]%nat])). vm_compute. reflexivity.
  Qed.

  Example fuse_wf_inst : wf_array U1 ZRing (a_fuse U1 ZRing ex_u4 [[0; 2]%nat; []; [3; 1]%nat]) = true.
  Proof.
    destruct fuse_wf_hyps as [F1 F2].
    apply (fuse_wf U1 U1_laws ZRing U1_order ex_u4 _ unfuse_all_wf_inst F1 F2).
  Qed.

  Example fuse_many_shape :
    let y := a_fuse U1 ZRing ex_u4 [[0; 2]%nat; []; [3; 1]%nat] in
    (ndim U1 ZRing y, length (blocks U1 ZRing y)) = (3%nat, 3%nat).
  Proof. vm_compute. reflexivity. Qed.

  (* contraction in fused mode (and in auto mode, which chooses it here) *)
  Example tensordot_wf_inst y mode :
    a_tensordot U1 ZRing ex_u (a_conj U1 ZRing ex_u) ex_axes mode = Some y -> wf_array U1 ZRing y = true.
  Proof.
    destruct tensordot_front_hyps as [T1 T2].
    apply (tensordot_wf U1 U1_laws ZRing U1_order ex_u (a_conj U1 ZRing ex_u) y ex_axes mode [1; 2]%nat [1; 2]%nat);
      [exact ex_u_wf|apply (conj_wf U1 U1_laws ZRing); exact ex_u_wf|exact T1|exact T2].
  Qed.

  Example tensordot_fused_runs :
    match a_tensordot U1 ZRing ex_u (a_conj U1 ZRing ex_u) ex_axes MFused with
    | Some y => wf_array U1 ZRing y && Nat.eqb (length (blocks U1 ZRing y)) 6 | None => false end = true.
  Proof. vm_compute. reflexivity. Qed.

  Example f_tensordot_all_wf_inst y mode :
    f_tensordot U1 ZRing ex_fd ex_f ex_faxes mode = Some y -> wf_fermi U1 ZRing y = true.
  Proof.
    apply (f_tensordot_all_wf U1 U1_laws ZRing U1_order ex_fd ex_f y ex_faxes mode [1; 2]%nat [1; 2]%nat ex_fd_wf ex_f_wf).
    - vm_compute. reflexivity.
    - vm_compute. reflexivity.
  Qed.

  Example f_tensordot_fused_odd_odd :
    match f_tensordot U1 ZRing ex_fd ex_f ex_faxes MFused with
    | Some y => wf_fermi U1 ZRing y &&
                list_eqb fop_eqb (foddpos U1 ZRing y) [([3], false); ([7], false)] &&
                Nat.eqb (length (fphases U1 ZRing y)) 6
    | None => false
    end = true.
  Proof. vm_compute. reflexivity. Qed.

  (* fermionic fuse of two groups of the rank-4 array *)
  Definition ex_f4 : farray U1 ZRing :=
    match f_unfuse U1 ZRing ex_f 0 with Some y => y | None => ex_f end.

  Example f_fuse_all_wf_hyps :
    wf_fermi U1 ZRing ex_f4 = true /\
    groups_okb (ndim U1 ZRing (fbase U1 ZRing ex_f4)) [[3; 0]%nat; [1; 2]%nat] = true.
  Proof. split; vm_compute; reflexivity. Qed.

  Example f_fuse_all_wf_inst : wf_fermi U1 ZRing (f_fuse U1 ZRing ex_f4 [[3; 0]%nat; [1; 2]%nat]) = true.
  Proof.
    destruct f_fuse_all_wf_hyps as [F1 F2].
    apply (f_fuse_all_wf U1 U1_laws ZRing U1_order ex_f4 _ F1). apply groups_okb_spec. exact F2.
  Qed.

  (* scope of the model: `f_fuse` (Model/Fermi.v) passes its groups unchanged to
     `fuse_core`, it does not model the separate handling of EMPTY groups of
     FermionicArray.fuse; on an empty group it yields an index without
     sub-indices, which neither `wf_array` nor the audited `valid_array` accept.
     Hence the hypothesis "every group non-empty" of `f_fuse_all_wf`. *)
  Example f_fuse_model_empty_group :
    let y := f_fuse U1 ZRing ex_f [[]; [1; 2]%nat] in
    wf_fermi U1 ZRing y = false /\ valid_array U1 ZRing (fbase U1 ZRing y) = false.
  Proof. vm_compute. split; reflexivity. Qed.

  (* einsum of a fermionic array "aba->b" *)
  Definition ex_fe : farray U1 ZRing := mkF U1 ZRing ex_e [[1; 1; 1]] [([5], false)].

  Example ex_fe_wf : wf_fermi U1 ZRing ex_fe = true.
  Proof. vm_compute. reflexivity. Qed.

  Example f_einsum_wf_hyps :
    let perm := f_einsum_perm U1 ZRing ex_fe [0; 1; 0]%nat [1]%nat in
    labels_ok (map (fun i => nth i [0; 1; 0]%nat 0%nat) perm) [1]%nat = true /\
    traced_duals_ok U1 (permuted (dflt_index U1) (indices U1 ZRing (fbase U1 ZRing ex_fe)) perm)
                    (map (fun i => nth i [0; 1; 0]%nat 0%nat) perm) [1]%nat = true.
  Proof. vm_compute. split; reflexivity. Qed.

  Example f_einsum_wf_inst y : f_einsum U1 ZRing ex_fe [0; 1; 0]%nat [1]%nat = Some y -> wf_array U1 ZRing y = true.
  Proof.
    intros Hy. destruct f_einsum_wf_hyps as [E1 E2].
    apply (f_einsum_wf U1 U1_laws ZRing ex_fe y [0; 1; 0]%nat [1]%nat ex_fe_wf Hy E1 E2).
  Qed.

  Example f_einsum_runs : is_none (f_einsum U1 ZRing ex_fe [0; 1; 0]%nat [1]%nat) = false.
  Proof. vm_compute. reflexivity. Qed.

  (* a program over the extended instruction set on the registers [ex_u; ex_e] / [ex_f] *)
  Definition ex_prog2 : list (instr2 U1 ZRing) :=
    [IOld U1 ZRing (IFuse1 U1 ZRing 0 [1; 2]%nat);                  (* a2 = fuse(a0, (1,2))          *)
     IUnfuse U1 ZRing 2 1;                                           (* a3 = a2.unfuse(1)             *)
     IUnfuseAll U1 ZRing 2;                                          (* a4 = a2.unfuse_all()          *)
     IEinsum U1 ZRing 1 [0; 1; 0]%nat [1]%nat;                       (* a5 = einsum("aba->b", a1)     *)
     IOld U1 ZRing (IConj U1 ZRing 2);                               (* a6                            *)
     IOld U1 ZRing (ITranspose U1 ZRing 6 [1; 0]%nat);               (* a7                            *)
     IMatmul U1 ZRing 2 7;                                           (* a8 = a2 @ a7                  *)
     ITensordot U1 ZRing 2 7 (inl 1%nat) MBlockwise;                 (* a9 = tensordot(a2, a7, 1)     *)
     IOld U1 ZRing (IConj U1 ZRing 0);                               (* a10                           *)
     ITensordot U1 ZRing 0 10 ex_axes MAuto;                         (* a11 (fused mode)              *)
     IOld U1 ZRing (FConj U1 ZRing 0 true true);                     (* f1                            *)
     FTensordot U1 ZRing 0 1 ex_faxes MFused;                        (* f2 = tensordot(f0, f1)        *)
     FFuse U1 ZRing 0 [[1; 2]%nat];                                  (* f3                            *)
     IOld U1 ZRing (FDagger U1 ZRing 3 true);                        (* f4                            *)
     FMatmul U1 ZRing 3 4;                                           (* f5 = f3 @ f4                  *)
     FUnfuse U1 ZRing 3 1;                                           (* f6                            *)
     FUnfuse U1 ZRing 0 0;                                           (* f7                            *)
     IFuse U1 ZRing 0 [[]; [1; 2]%nat; []];                          (* a12 = fuse(a0, (), (1,2), ()) *)
     FEinsum U1 ZRing 7 [0; 1; 0; 2]%nat [1; 2]%nat;                 (* a13 = einsum("abac->bc", f7)  *)
     IFuse U1 ZRing 4 [[0; 2]%nat; []; [3; 1]%nat];                  (* a14 = fuse(a4, (0,2), (), (3,1)) *)
     FFuse U1 ZRing 7 [[3; 0]%nat; [1; 2]%nat]].                     (* f8 = fuse(f7, (3,0), (1,2))   *)

  Example ex_prog2_runs :
    match run2 U1 ZRing ex_prog2 ([ex_u; ex_e], [ex_f]) with
    | Some st => Nat.eqb (length (fst st)) 15 && Nat.eqb (length (snd st)) 9 &&
                 forallb (wf_array U1 ZRing) (fst st) && forallb (wf_fermi U1 ZRing) (snd st) &&
                 forallb (valid_array U1 ZRing) (fst st)
    | None => false
    end = true.
  Proof. vm_compute. reflexivity. Qed.

  Example programs_wf2_hyps : wf_regs U1 ZRing ([ex_u; ex_e], [ex_f]).
  Proof.
    split; cbn [fst snd].
    - constructor; [exact ex_u_wf|]. constructor; [exact ex_e_wf|constructor].
    - constructor; [exact ex_f_wf|constructor].
  Qed.

  Example programs_wf2_inst st' :
    run2 U1 ZRing ex_prog2 ([ex_u; ex_e], [ex_f]) = Some st' -> wf_regs U1 ZRing st'.
  Proof. apply (programs_wf2 U1 U1_laws ZRing U1_order). exact programs_wf2_hyps. Qed.

  Example programs_valid2_inst st' :
    run2 U1 ZRing ex_prog2 ([ex_u; ex_e], [ex_f]) = Some st' -> valid_regs U1 ZRing st'.
  Proof. apply (programs_valid2 U1 U1_laws ZRing U1_order). exact programs_wf2_hyps. Qed.
  (* ---- the side conditions are needed: two clauses of `C01_full`
     (Props/C01.v), stated there without them, are false ---- *)
  Definition ex_e_bad_out : aarray U1 ZRing :=
    match a_einsum U1 ZRing ex_e_bad [0; 1; 0]%nat [1]%nat with Some y => y | None => ex_e_bad end.

  Example ex_e_bad_facts :
    wf_array U1 ZRing ex_e_bad = true /\
    a_einsum U1 ZRing ex_e_bad [0; 1; 0]%nat [1]%nat = Some ex_e_bad_out /\
    wf_array U1 ZRing ex_e_bad_out = false.
  Proof. split; [|split]; vm_compute; reflexivity. Qed.

  Theorem einsum_unconditional_false :
    ~ (forall G : Symmetry, GroupLaws G -> OrderLaws G -> forall R : Ring,
       forall (x y : aarray G R) lhs rhs, wf_array G R x = true -> a_einsum G R x lhs rhs = Some y ->
       wf_array G R y = true).
  Proof.
    intros H. destruct ex_e_bad_facts as (E1 & E2 & E3).
    pose proof (H U1 U1_laws U1_order ZRing ex_e_bad ex_e_bad_out [0; 1; 0]%nat [1]%nat E1 E2) as Hy.
    rewrite E3 in Hy. discriminate Hy.
  Qed.

  (* contracting two legs that point the same way *)
  Definition ex_fbad : farray U1 ZRing := mkF U1 ZRing ex_u [] [([3], true)].
  Definition ex_fbad_out : farray U1 ZRing :=
    match f_tensordot U1 ZRing ex_f ex_fbad ex_faxes MBlockwise with Some y => y | None => ex_f end.

  Example ex_fbad_facts :
    wf_fermi U1 ZRing ex_fbad = true /\
    f_tensordot U1 ZRing ex_f ex_fbad ex_faxes MBlockwise = Some ex_fbad_out /\
    wf_fermi U1 ZRing ex_fbad_out = false.
  Proof. split; [|split]; vm_compute; reflexivity. Qed.

  Theorem f_tensordot_unconditional_false :
    ~ (forall G : Symmetry, GroupLaws G -> OrderLaws G -> forall R : Ring,
       forall (a b c : farray G R) axes mode, wf_fermi G R a = true -> wf_fermi G R b = true ->
       f_tensordot G R a b axes mode = Some c -> wf_fermi G R c = true).
  Proof.
    intros H. destruct ex_fbad_facts as (E1 & E2 & E3).
    pose proof (H U1 U1_laws U1_order ZRing ex_f ex_fbad ex_fbad_out ex_faxes MBlockwise ex_f_wf E1 E2) as Hy.
    rewrite E3 in Hy. discriminate Hy.
  Qed.
  (* the third clause of `C01_full` that is false as stated: fermionic fuse of
     ARBITRARY groups (an empty group is outside what `f_fuse` models) *)
  Theorem f_fuse_unconditional_false :
    ~ (forall G : Symmetry, GroupLaws G -> OrderLaws G -> forall R : Ring,
       forall (x : farray G R) groups, wf_fermi G R x = true ->
       (NoDup (concat groups) /\ forall i, In i (concat groups) -> (i < ndim G R (fbase G R x))%nat) ->
       wf_fermi G R (f_fuse G R x groups) = true).
  Proof.
    intros H. destruct f_fuse_model_empty_group as [E _]. cbv zeta in E.
    rewrite (H U1 U1_laws U1_order ZRing ex_f [[]; [1; 2]%nat] ex_f_wf) in E; [discriminate E|].
    destruct f_fuse_wf_hyps as (F1 & F2 & _). cbn [concat app]. split; [exact F1|].
    intros i Hi. rewrite Forall_forall in F2. apply F2. exact Hi.
  Qed.
End Examples2.

(* the five built-in symmetries (generated definitions), any ring *)
Theorem programs_wf2_builtin (G : Symmetry) (R : Ring) (prog : list (instr2 G R)) (st st' : regfile G R) :
  builtin_sym G -> wf_regs G R st -> run2 G R prog st = Some st' -> wf_regs G R st'.
Proof.
  intros HB. destruct HB.
  - apply (programs_wf2 Z2 Z2_laws R Z2_order).
  - apply (programs_wf2 Z4 Z4_laws R Z4_order).
  - apply (programs_wf2 U1 U1_laws R U1_order).
  - apply (programs_wf2 Z2Z2 Z2Z2_laws R Z2Z2_order).
  - apply (programs_wf2 U1U1 U1U1_laws R U1U1_order).
Qed.

Theorem programs_valid2_builtin (G : Symmetry) (R : Ring) (prog : list (instr2 G R)) (st st' : regfile G R) :
  builtin_sym G -> wf_regs G R st -> run2 G R prog st = Some st' -> valid_regs G R st'.
Proof.
  intros HB. destruct HB.
  - apply (programs_valid2 Z2 Z2_laws R Z2_order).
  - apply (programs_valid2 Z4 Z4_laws R Z4_order).
  - apply (programs_valid2 U1 U1_laws R U1_order).
  - apply (programs_valid2 Z2Z2 Z2Z2_laws R Z2Z2_order).
  - apply (programs_valid2 U1U1 U1U1_laws R U1U1_order).
Qed.

(* ------------------------------------------------------------------ *)
(* the statements that `C01_full` (Props/C01.v) left open, with the side
   conditions that are necessary (see the three refutations above), all proved *)
Definition full2_stmt : Prop :=
  forall G : Symmetry, GroupLaws G -> OrderLaws G -> forall R : Ring,
  (* fuse, any number of groups, empty groups expanded *)
  (forall (x : aarray G R) groups, wf_array G R x = true ->
     NoDup (concat groups) -> (forall i, In i (concat groups) -> i < ndim G R x) ->
     wf_array G R (a_fuse G R x groups) = true) /\
  (* unfuse one axis / all axes *)
  (forall (x y : aarray G R) axis, wf_array G R x = true -> a_unfuse G R x axis = Some y ->
     wf_array G R y = true) /\
  (forall x : aarray G R, wf_array G R x = true -> wf_array G R (a_unfuse_all G R x) = true) /\
  (* tensordot front end in every mode, matmul, einsum *)
  (forall (a b c : aarray G R) axes mode aa ab, wf_array G R a = true -> wf_array G R b = true ->
     parse_axes (ndim G R a) (ndim G R b) axes = Some (aa, ab) -> contract_ok G R a b aa ab = true ->
     a_tensordot G R a b axes mode = Some c -> wf_array G R c = true) /\
  (forall a b c : aarray G R, wf_array G R a = true -> wf_array G R b = true -> matmul_ok G R a b = true ->
     a_matmul G R a b = Some c -> wf_array G R c = true) /\
  (forall (x y : aarray G R) lhs rhs, wf_array G R x = true -> a_einsum G R x lhs rhs = Some y ->
     labels_ok lhs rhs = true -> traced_duals_ok G (indices G R x) lhs rhs = true ->
     wf_array G R y = true) /\
  (* fermionic fuse (non-empty groups) / unfuse / contraction in every mode / matmul *)
  (forall (x : farray G R) groups, wf_fermi G R x = true ->
     groups_ok (ndim G R (fbase G R x)) groups -> wf_fermi G R (f_fuse G R x groups) = true) /\
  (forall (x y : farray G R) axis, wf_fermi G R x = true -> f_unfuse G R x axis = Some y ->
     wf_fermi G R y = true) /\
  (forall (a b c : farray G R) axes mode aa ab, wf_fermi G R a = true -> wf_fermi G R b = true ->
     parse_axes (ndim G R (fbase G R a)) (ndim G R (fbase G R b)) axes = Some (aa, ab) ->
     contract_ok G R (fbase G R a) (fbase G R b) aa ab = true ->
     f_tensordot G R a b axes mode = Some c -> wf_fermi G R c = true) /\
  (forall a b c : farray G R, wf_fermi G R a = true -> wf_fermi G R b = true ->
     matmul_ok G R (fbase G R a) (fbase G R b) = true ->
     f_matmul G R a b = Some c -> wf_fermi G R c = true).

Theorem full2_holds : full2_stmt.
Proof.
  intros G HG HO R. repeat split.
  - intros x groups. apply (fuse_wf G HG R HO).
  - intros x y axis. apply (unfuse_wf G HG R).
  - intros x. apply (unfuse_all_wf G HG R).
  - intros a b c axes mode aa ab. apply (tensordot_wf G HG R HO).
  - intros a b c. apply (matmul_wf G HG R HO).
  - intros x y lhs rhs. apply (einsum_wf G HG R).
  - intros x groups. apply (f_fuse_all_wf G HG R HO).
  - intros x y axis. apply (f_unfuse_wf G HG R).
  - intros a b c axes mode aa ab. apply (f_tensordot_all_wf G HG R HO).
  - intros a b c. apply (f_matmul_wf G HG R HO).
Qed.
