(* Proofs/SectorsProofs.v — C17, second half: the sector enumeration
   [gen_valid_sectors] (Model/Sectors.v) is exact: it lists precisely the
   tuples of available charges whose signed combination is the total charge
   (none missing, none extra), and lists none twice.

   Main results
     gen_valid_sectors_exact      In s (gen_valid_sectors G charges duals q) <->
                                  Forall2 In s charges /\ is_valid_sector G duals q s = true
     gen_valid_sectors_nodup      Forall NoDup charges -> NoDup (gen_valid_sectors G charges duals q)
     gen_valid_sectors_rank0      the rank-0 case
     gen_valid_sectors_complete_perm
                                  any duplicate-free list with the same membership
                                  is a permutation of the enumeration
   plus reusable list facts about [product] and [split_last]. *)
From SV Require Import Base.Prelude Base.Sym Gen.Symmetries Model.SymInst Model.Sectors
  Proofs.SymLaws Proofs.GroupFacts.
From Coq Require Import Permutation.

(* ------------------------------------------------------------------ *)
(* generic list facts                                                  *)

Lemma split_last_snoc {A} (f : list A) (y : A) : split_last (f ++ [y]) = Some (f, y).
Proof.
  induction f as [|a f IH]; [reflexivity|].
  simpl. destruct (f ++ [y]) as [|b t] eqn:E.
  - destruct f; discriminate E.
  - rewrite IH. reflexivity.
Qed.

Lemma split_last_None {A} (l : list A) : split_last l = None <-> l = [].
Proof.
  split.
  - intros H. destruct l as [|a l]; [reflexivity|]. exfalso.
    destruct (exists_last (l := a :: l)) as [f [y E]]; [discriminate|].
    rewrite E, split_last_snoc in H. discriminate H.
  - intros ->. reflexivity.
Qed.

Lemma split_last_Some {A} (l f : list A) (y : A) : split_last l = Some (f, y) <-> l = f ++ [y].
Proof.
  split.
  - intros H. destruct l as [|a l]; [discriminate H|].
    destruct (exists_last (l := a :: l)) as [f' [y' E]]; [discriminate|].
    rewrite E in *. rewrite split_last_snoc in H. injection H as -> ->. reflexivity.
  - intros ->. apply split_last_snoc.
Qed.

Lemma Forall2_len {A B} (R : A -> B -> Prop) l1 l2 : Forall2 R l1 l2 -> length l1 = length l2.
Proof. induction 1; cbn [length]; congruence. Qed.

Lemma length_snoc_inv {A} (l : list A) n : length l = S n ->
  exists f y, l = f ++ [y] /\ length f = n.
Proof.
  intros H. destruct l as [|a l]; [discriminate H|].
  destruct (exists_last (l := a :: l)) as [f [y E]]; [discriminate|].
  exists f, y. split; [exact E|]. rewrite E, app_length in H. cbn [length] in H. lia.
Qed.

Lemma NoDup_app_disjoint {A} (l1 l2 : list A) :
  NoDup l1 -> NoDup l2 -> (forall x, In x l1 -> ~ In x l2) -> NoDup (l1 ++ l2).
Proof.
  induction l1 as [|a l1 IH]; intros H1 H2 Hd; [exact H2|].
  inversion H1 as [|? ? Hna Hnd]; subst. cbn [app]. constructor.
  - intros Hin. apply in_app_or in Hin. destruct Hin as [Hin|Hin]; [exact (Hna Hin)|].
    apply (Hd a); [left; reflexivity | exact Hin].
  - apply IH; [exact Hnd | exact H2 |]. intros x Hx. apply Hd. right. exact Hx.
Qed.

Lemma NoDup_flat_map_disjoint {A B} (f : A -> list B) (l : list A) :
  NoDup l ->
  (forall x, In x l -> NoDup (f x)) ->
  (forall x y z, In x l -> In y l -> In z (f x) -> In z (f y) -> x = y) ->
  NoDup (flat_map f l).
Proof.
  induction l as [|a l IH]; intros Hl Hf Hd; [constructor|].
  inversion Hl as [|? ? Hna Hnd]; subst. cbn [flat_map].
  apply NoDup_app_disjoint.
  - apply Hf. left. reflexivity.
  - apply IH; [exact Hnd | |].
    + intros x Hx. apply Hf. right. exact Hx.
    + intros x y z Hx Hy. apply Hd; right; assumption.
  - intros z Hz Hz'. apply in_flat_map in Hz'. destruct Hz' as [x [Hx Hzx]].
    assert (a = x) as <-.
    { apply (Hd a x z); [left; reflexivity | right; exact Hx | exact Hz | exact Hzx]. }
    exact (Hna Hx).
Qed.

Lemma NoDup_map_inj {A B} (f : A -> B) (l : list A) :
  (forall x y, f x = f y -> x = y) -> NoDup l -> NoDup (map f l).
Proof.
  intros Hinj. induction 1 as [|a l Hna Hnd IH]; cbn [map]; constructor.
  - intros Hin. apply in_map_iff in Hin. destruct Hin as [x [Hfx Hx]].
    apply Hinj in Hfx. subst x. exact (Hna Hx).
  - exact IH.
Qed.

(* itertools.product: exactly the tuples with one entry from each list *)
Lemma in_product {A} (ls : list (list A)) (s : list A) :
  In s (product ls) <-> Forall2 (fun c cs => In c cs) s ls.
Proof.
  revert s. induction ls as [|l ls IH]; intros s.
  - cbn [product In]. split.
    + intros [<-|[]]. constructor.
    + intros H. inversion H. left. reflexivity.
  - cbn [product]. rewrite in_flat_map. split.
    + intros [x [Hx Hs]]. apply in_map_iff in Hs. destruct Hs as [t [<- Ht]].
      constructor; [exact Hx | apply IH; exact Ht].
    + intros H. inversion H as [|x cs t ls' Hx Ht]; subst.
      exists x. split; [exact Hx|]. apply in_map. apply IH. exact Ht.
Qed.

Lemma NoDup_product {A} (ls : list (list A)) :
  Forall (@NoDup A) ls -> NoDup (product ls).
Proof.
  induction 1 as [|l ls Hl Hls IH]; cbn [product].
  - constructor; [intros [] | constructor].
  - apply NoDup_flat_map_disjoint.
    + exact Hl.
    + intros x _. apply NoDup_map_inj; [|exact IH]. intros a b E. injection E as E. exact E.
    + intros x y z _ _ Hx Hy. apply in_map_iff in Hx, Hy.
      destruct Hx as [t1 [<- _]]. destruct Hy as [t2 [E _]]. injection E as E _. symmetry. exact E.
Qed.

Lemma length_product_entry {A} (ls : list (list A)) s : In s (product ls) -> length s = length ls.
Proof. intros H. apply in_product in H. apply (Forall2_len _ _ _ H). Qed.

(* ------------------------------------------------------------------ *)
(* signed sectors                                                      *)

Section SectorFacts.
  Context (G : Symmetry) (HG : GroupLaws G).

  Local Notation V c := (valid G c = true).
  Local Notation VA l := (valid_all G l = true).

  Lemma signed_sector_nil_l flip duals : signed_sector G flip [] duals = [].
  Proof. reflexivity. Qed.

  Lemma signed_sector_cons flip c s d ds :
    signed_sector G flip (c :: s) (d :: ds) = sign G c (xorb flip d) :: signed_sector G flip s ds.
  Proof. reflexivity. Qed.

  Lemma signed_sector_app flip s1 s2 d1 d2 : length s1 = length d1 ->
    signed_sector G flip (s1 ++ s2) (d1 ++ d2)
    = signed_sector G flip s1 d1 ++ signed_sector G flip s2 d2.
  Proof.
    revert d1. induction s1 as [|c s1 IH]; intros [|d d1] Hlen; try discriminate Hlen.
    - reflexivity.
    - cbn [app]. rewrite !signed_sector_cons. cbn [app]. f_equal. apply IH.
      cbn [length] in Hlen. congruence.
  Qed.

  Lemma signed_sector_valid flip s ds : VA s -> VA (signed_sector G flip s ds).
  Proof.
    revert ds. induction s as [|c s IH]; intros ds Hs.
    - apply (valid_all_nil G HG).
    - destruct ds as [|d ds]; [apply (valid_all_nil G HG)|].
      apply (valid_all_cons_iff G HG) in Hs. destruct Hs as [Hc Hs].
      rewrite signed_sector_cons. apply (valid_all_cons_iff G HG). split.
      + apply (sign_valid G HG). exact Hc.
      + apply IH. exact Hs.
  Qed.

  (* flipping all the signs negates every entry ... *)
  Lemma signed_sector_flip s ds : VA s ->
    signed_sector G true s ds = map (gneg G) (signed_sector G false s ds).
  Proof.
    revert ds. induction s as [|c s IH]; intros ds Hs; [reflexivity|].
    destruct ds as [|d ds]; [reflexivity|].
    apply (valid_all_cons_iff G HG) in Hs. destruct Hs as [Hc Hs].
    rewrite !signed_sector_cons. cbn [map]. rewrite (IH ds Hs). f_equal.
    rewrite xorb_true_l, xorb_false_l. apply (sign_negb G HG). exact Hc.
  Qed.

  (* ... hence negates the combination *)
  Lemma combine_signed_sector_flip s ds : VA s ->
    combine G (signed_sector G true s ds) = gneg G (combine G (signed_sector G false s ds)).
  Proof.
    intros Hs. rewrite (signed_sector_flip s ds Hs). symmetry.
    apply (gneg_combine G HG). apply signed_sector_valid. exact Hs.
  Qed.

  Lemma Forall2_In_valid_all (tables : list (list (C G))) s :
    Forall (fun t => Forall (fun c => V c) t) tables ->
    Forall2 (fun c cs => In c cs) s tables -> VA s.
  Proof.
    intros Ht H. induction H as [|c cs s tables Hc Hs IH].
    - apply (valid_all_nil G HG).
    - inversion Ht as [|? ? Hcs Ht']; subst. apply (valid_all_cons_iff G HG). split.
      + rewrite Forall_forall in Hcs. apply Hcs. exact Hc.
      + apply IH. exact Ht'.
  Qed.

  (* the charge the last index must carry, as computed by gen_valid_sectors *)
  Definition required_last (q : C G) (partial : list (C G)) (fd : list bool) (ld : bool) : C G :=
    sign G (combine G [q; combine G (signed_sector G true partial fd)]) ld.

  Lemma required_last_valid q partial fd ld : V q -> VA partial -> V (required_last q partial fd ld).
  Proof.
    intros Hq Hp. unfold required_last. apply (sign_valid G HG).
    apply (gadd_valid G HG); [exact Hq|]. apply (combine_valid G HG).
    apply signed_sector_valid. exact Hp.
  Qed.

  (* the one-step characterisation: a completed sector conserves charge iff its
     last entry is the required one *)
  Lemma is_valid_sector_snoc q partial c fd ld :
    V q -> VA partial -> V c -> length partial = length fd ->
    (is_valid_sector G (fd ++ [ld]) q (partial ++ [c]) = true
     <-> c = required_last q partial fd ld).
  Proof.
    intros Hq Hp Hc Hlen. unfold is_valid_sector, required_last.
    rewrite (ceqb_eq G HG).
    rewrite (signed_sector_app false partial [c] fd [ld] Hlen).
    change (signed_sector G false [c] [ld]) with [sign G c (xorb false ld)].
    rewrite xorb_false_l.
    assert (HS : VA (signed_sector G false partial fd)) by (apply signed_sector_valid; exact Hp).
    rewrite (combine_snoc G HG _ _ HS (sign_valid G HG c ld Hc)).
    rewrite (combine_signed_sector_flip partial fd Hp).
    pose proof (combine_valid G HG _ HS) as HVS.
    set (S := combine G (signed_sector G false partial fd)) in *.
    change (combine G [q; gneg G S]) with (gadd G q (gneg G S)).
    rewrite (gadd_move_l G HG S (sign G c ld) q HVS (sign_valid G HG c ld Hc) Hq).
    apply (sign_move G HG); [exact Hc|].
    apply (gadd_valid G HG); [exact Hq | apply (gneg_valid G HG); exact HVS].
  Qed.

  (* ---------------- rank 0 ---------------- *)
  Lemma gen_valid_sectors_rank0_eq duals q :
    gen_valid_sectors G [] duals q = if ceqb G q (ident G) then [[]] else [].
  Proof. reflexivity. Qed.

  Theorem gen_valid_sectors_rank0 duals q s :
    In s (gen_valid_sectors G [] duals q) <-> s = [] /\ q = ident G.
  Proof.
    rewrite gen_valid_sectors_rank0_eq.
    destruct (ceqb_reflect G HG q (ident G)) as [E|E]; cbn [In].
    - split; [intros [<-|[]]; split; [reflexivity | exact E] | intros [-> _]; left; reflexivity].
    - split; [intros [] | intros [_ E']; exact (E E')].
  Qed.

  (* ---------------- exactness ---------------- *)
  Theorem gen_valid_sectors_exact (charges : list (list (C G))) (duals : list bool) (q : C G)
      (s : list (C G)) :
    Forall (fun t => Forall (fun c => V c) t) charges ->
    length duals = length charges ->
    V q ->
    (In s (gen_valid_sectors G charges duals q)
     <-> Forall2 (fun c cs => In c cs) s charges /\ is_valid_sector G duals q s = true).
  Proof.
    intros Hval Hlen Hq.
    destruct charges as [|t0 charges0].
    { (* rank 0 *)
      rewrite gen_valid_sectors_rank0. split.
      - intros [-> ->]. split; [constructor|].
        unfold is_valid_sector. rewrite signed_sector_nil_l. apply (ceqb_refl G HG).
      - intros [HF Hv]. inversion HF; subst. split; [reflexivity|].
        unfold is_valid_sector in Hv. rewrite signed_sector_nil_l in Hv.
        apply (ceqb_eq G HG) in Hv. symmetry. exact Hv. }
    destruct (exists_last (l := t0 :: charges0)) as [fc [lc Ec]]; [discriminate|].
    rewrite Ec in *. clear Ec t0 charges0.
    rewrite app_length in Hlen. cbn [length] in Hlen.
    destruct (length_snoc_inv duals (length fc)) as [fd [ld [-> Hfd]]]; [lia|].
    apply Forall_app in Hval. destruct Hval as [Hvfc Hvlc].
    inversion Hvlc as [|? ? Hlc _]; subst. clear Hvlc.
    unfold gen_valid_sectors. rewrite !split_last_snoc.
    fold (required_last q).
    rewrite in_flat_map. split.
    - intros [partial [Hpart Hs]].
      change (sign G (combine G [q; combine G (signed_sector G true partial fd)]) ld)
        with (required_last q partial fd ld) in Hs.
      apply in_product in Hpart.
      pose proof (Forall2_In_valid_all fc partial Hvfc Hpart) as Hvp.
      destruct (mem (ceqb G) (required_last q partial fd ld) lc) eqn:Hm; [|destruct Hs].
      destruct Hs as [<-|[]].
      apply (mem_ceqb_In G HG) in Hm. split.
      + apply Forall2_app; [exact Hpart|]. constructor; [exact Hm | constructor].
      + apply is_valid_sector_snoc; [exact Hq | exact Hvp | | | reflexivity].
        * apply required_last_valid; assumption.
        * rewrite (Forall2_len _ _ _ Hpart). symmetry. exact Hfd.
    - intros [HF Hv].
      apply Forall2_app_inv_r in HF. destruct HF as [partial [s2 [Hpart [Hs2 ->]]]].
      inversion Hs2 as [|c ? s2' ? Hc Hnil]; subst. inversion Hnil; subst. clear Hs2 Hnil.
      pose proof (Forall2_In_valid_all fc partial Hvfc Hpart) as Hvp.
      assert (Hvc : V c) by (rewrite Forall_forall in Hlc; apply Hlc; exact Hc).
      apply is_valid_sector_snoc in Hv;
        [| exact Hq | exact Hvp | exact Hvc | rewrite (Forall2_len _ _ _ Hpart); symmetry; exact Hfd].
      exists partial. split; [apply in_product; exact Hpart|].
      change (sign G (combine G [q; combine G (signed_sector G true partial fd)]) ld)
        with (required_last q partial fd ld).
      rewrite <- Hv.
      assert (Hm : mem (ceqb G) c lc = true) by (apply (mem_ceqb_In G HG); exact Hc).
      rewrite Hm. left. reflexivity.
  Qed.
End SectorFacts.

(* ---------------- no repetition (needs no group law) ---------------- *)
Theorem gen_valid_sectors_nodup (G : Symmetry) (charges : list (list (C G))) (duals : list bool)
    (q : C G) :
  Forall (@NoDup (C G)) charges -> NoDup (gen_valid_sectors G charges duals q).
Proof.
  intros Hnd. unfold gen_valid_sectors.
  destruct (split_last charges) as [[fc lc]|] eqn:Ec.
  - destruct (split_last duals) as [[fd ld]|]; [|constructor].
    apply split_last_Some in Ec. subst charges.
    apply Forall_app in Hnd. destruct Hnd as [Hfc _].
    apply NoDup_flat_map_disjoint.
    + apply NoDup_product. exact Hfc.
    + intros partial _. cbv zeta.
      match goal with |- NoDup (if ?b then _ else _) => destruct b end;
        [constructor; [intros [] | constructor] | constructor].
    + intros x y z _ _. cbv zeta.
      match goal with |- In _ (if ?b then _ else _) -> _ => destruct b end; [|intros []].
      intros [<-|[]].
      match goal with |- In _ (if ?b then _ else _) -> _ => destruct b end; [|intros []].
      intros [E|[]]. apply app_inj_tail in E. destruct E as [E _]. symmetry. exact E.
  - destruct (ceqb G q (ident G)); [constructor; [intros [] | constructor] | constructor].
Qed.

(* Exactness + no repetition determine the enumeration up to order. *)
Theorem gen_valid_sectors_complete_perm (G : Symmetry) (HG : GroupLaws G)
    (charges : list (list (C G))) (duals : list bool) (q : C G) (l : list (list (C G))) :
  Forall (fun t => Forall (fun c => valid G c = true) t) charges ->
  Forall (@NoDup (C G)) charges ->
  length duals = length charges ->
  valid G q = true ->
  NoDup l ->
  (forall s, In s l <-> Forall2 (fun c cs => In c cs) s charges /\ is_valid_sector G duals q s = true) ->
  Permutation l (gen_valid_sectors G charges duals q).
Proof.
  intros Hval Hnd Hlen Hq Hl Hspec. apply NoDup_Permutation.
  - exact Hl.
  - apply gen_valid_sectors_nodup. exact Hnd.
  - intros s. rewrite Hspec. symmetry. apply gen_valid_sectors_exact; assumption.
Qed.

(* ------------------------------------------------------------------ *)
(* instances for the five built-in symmetries                          *)

Definition tables_valid (G : Symmetry) (charges : list (list (C G))) : Prop :=
  Forall (fun t => Forall (fun c => valid G c = true) t) charges.

Lemma Z2_gen_valid_sectors_exact charges duals q s :
  tables_valid Z2 charges -> length duals = length charges -> valid Z2 q = true ->
  (In s (gen_valid_sectors Z2 charges duals q)
   <-> Forall2 (fun c cs => In c cs) s charges /\ is_valid_sector Z2 duals q s = true).
Proof. exact (gen_valid_sectors_exact Z2 Z2_laws charges duals q s). Qed.

Lemma Z4_gen_valid_sectors_exact charges duals q s :
  tables_valid Z4 charges -> length duals = length charges -> valid Z4 q = true ->
  (In s (gen_valid_sectors Z4 charges duals q)
   <-> Forall2 (fun c cs => In c cs) s charges /\ is_valid_sector Z4 duals q s = true).
Proof. exact (gen_valid_sectors_exact Z4 Z4_laws charges duals q s). Qed.

Lemma Z2Z2_gen_valid_sectors_exact charges duals q s :
  tables_valid Z2Z2 charges -> length duals = length charges -> valid Z2Z2 q = true ->
  (In s (gen_valid_sectors Z2Z2 charges duals q)
   <-> Forall2 (fun c cs => In c cs) s charges /\ is_valid_sector Z2Z2 duals q s = true).
Proof. exact (gen_valid_sectors_exact Z2Z2 Z2Z2_laws charges duals q s). Qed.

Lemma U1_tables_valid charges : tables_valid U1 charges.
Proof.
  unfold tables_valid. apply Forall_forall. intros t _. apply Forall_forall. intros c _.
  apply U1_valid_true.
Qed.

Lemma U1U1_tables_valid charges : tables_valid U1U1 charges.
Proof.
  unfold tables_valid. apply Forall_forall. intros t _. apply Forall_forall. intros c _.
  apply U1U1_valid_true.
Qed.

Lemma U1_gen_valid_sectors_exact charges duals q s :
  length duals = length charges ->
  (In s (gen_valid_sectors U1 charges duals q)
   <-> Forall2 (fun c cs => In c cs) s charges /\ is_valid_sector U1 duals q s = true).
Proof.
  intros Hlen. apply (gen_valid_sectors_exact U1 U1_laws);
    [apply U1_tables_valid | exact Hlen | apply U1_valid_true].
Qed.

Lemma U1U1_gen_valid_sectors_exact charges duals q s :
  length duals = length charges ->
  (In s (gen_valid_sectors U1U1 charges duals q)
   <-> Forall2 (fun c cs => In c cs) s charges /\ is_valid_sector U1U1 duals q s = true).
Proof.
  intros Hlen. apply (gen_valid_sectors_exact U1U1 U1U1_laws);
    [apply U1U1_tables_valid | exact Hlen | apply U1U1_valid_true].
Qed.

(* ------------------------------------------------------------------ *)
(* Examples: the hypotheses hold on concrete non-trivial instances      *)

Definition ex_charges : list (list Z) := [[-1; 0; 1]; [0; 1; 2]; [-2; -1; 0; 1]].
Definition ex_duals : list bool := [false; true; false].
Definition ex_q : Z := 1.

Example ex_U1_tables_valid : tables_valid U1 ex_charges.
Proof. repeat constructor. Qed.
Example ex_U1_tables_nodup : Forall (@NoDup Z) ex_charges.
Proof.
  repeat (constructor; try (cbn [In]; intros H; repeat destruct H as [H|H]; try discriminate H; exact H)).
Qed.
Example ex_U1_lengths : length ex_duals = length ex_charges.
Proof. reflexivity. Qed.
Example ex_U1_q_valid : valid U1 ex_q = true.
Proof. reflexivity. Qed.
(* the enumeration is non-empty: the sectors with c0 - c1 + c2 = 1 *)
Example ex_U1_enumeration :
  gen_valid_sectors U1 ex_charges ex_duals ex_q = [[0; 0; 1]; [1; 0; 0]; [1; 1; 1]].
Proof. vm_compute. reflexivity. Qed.
(* a listed sector does satisfy the right-hand side of the equivalence *)
Example ex_U1_member :
  Forall2 (fun c cs => In c cs) [1; 1; 1] ex_charges
  /\ is_valid_sector U1 ex_duals ex_q [1; 1; 1] = true.
Proof.
  split; [|reflexivity].
  constructor; [cbn [In]; auto 10|]. constructor; [cbn [In]; auto 10|].
  constructor; [cbn [In]; auto 10|]. constructor.
Qed.
(* a charge-conserving tuple outside the tables is (rightly) not listed *)
Example ex_U1_non_member :
  is_valid_sector U1 ex_duals ex_q [1; 2; 2] = true
  /\ ~ Forall2 (fun c cs => In c cs) [1; 2; 2] ex_charges.
Proof.
  split; [reflexivity|]. intros H.
  assert (Hin : In [1; 2; 2] (gen_valid_sectors U1 ex_charges ex_duals ex_q)).
  { apply U1_gen_valid_sectors_exact; [reflexivity|]. split; [exact H | reflexivity]. }
  rewrite ex_U1_enumeration in Hin. cbn [In] in Hin.
  repeat destruct Hin as [Hin|Hin]; try discriminate Hin. exact Hin.
Qed.
(* a finite group with a dual last index (the sectors ending in 0 are present) *)
Example ex_Z4_enumeration :
  gen_valid_sectors Z4 [[0; 1; 2; 3]; [0; 1; 2; 3]] [false; true] 0
  = [[0; 0]; [1; 1]; [2; 2]; [3; 3]].
Proof. vm_compute. reflexivity. Qed.
Example ex_Z4_tables_valid : tables_valid Z4 [[0; 1; 2; 3]; [0; 1; 2; 3]].
Proof. repeat constructor. Qed.
(* rank 0 *)
Example ex_U1_rank0 : gen_valid_sectors U1 [] [] 0 = [[]] /\ gen_valid_sectors U1 [] [] 3 = [].
Proof. split; reflexivity. Qed.
