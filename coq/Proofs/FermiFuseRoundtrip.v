(* Proofs/FermiFuseRoundtrip.v — property C05, the FERMIONIC round trip:
   unfusing what `f_fuse` fused restores the (fermionically transposed) original
   exactly, at the level of the VALUE `f_value` (blocks with the pending signs
   multiplied in).

   Model: Model/Fermi.v `f_fuse` (fermionic transpose that makes every group
   contiguous, phase_flip of the non-dual axes of every group whose first axis is
   dual, virtual reversal inside every such group, phase_sync, abelian fuse_core)
   and `f_unfuse` (phase_sync, abelian unfuse, and for a dual fused index the flip
   of the non-dual sub-axes and the virtual reversal of the unfused window).

   part A   the sign algebra: the sign of one window of a sector (`gsw`: flip of
            the non-dual positions + reversal), `Hs` = product over consecutive
            windows; what f_unfuse applies (`unfuse_sign`) and what f_fuse applies
            (`fuse_sign_windows`) written with them
   part B   a_unfuse commutes with a sector-wise sign map (`a_unfuse_signmap`)
   part C   the chain: iterated f_unfuse = sign map on top of the iterated
            abelian unfuse (`chain`)
   part D   the groups after the initial transpose are consecutive windows; their
            fuse_perm is the identity
   part E   the theorems: `fermi_roundtrip_groups`, `fermi_roundtrip_single`
   part F   examples (Z2, rank 3 / rank 4, odd charge, dual-leading group with
            mixed directions, a missing block, a pending sign) *)
From SV Require Import Base.Prelude Base.Sym Base.Tensor Gen.PhasePerm Model.SymInst Model.Sectors
  Model.Array Model.Arith Model.Fermi Model.Graded Model.Wf
  Proofs.SymLaws Proofs.GroupFacts Proofs.GradedProofs Proofs.OrderProofs Proofs.FuseTensor Proofs.FuseProofs
  Proofs.FuseGroups Proofs.FuseGroupsWf Proofs.WfProofs Proofs.WfProofs2 Proofs.FermiProofs Proofs.LazyProofs
  Proofs.RouteProofs Proofs.ReshapeArrayProofs2.
From Coq Require Import Permutation Sorted.
Local Open Scope nat_scope.

(* ------------------------------------------------------------------ *)
(* small list facts *)
Lemma nth_skipn_add {A} (d : A) a : forall (l : list A) i, nth i (skipn a l) d = nth (a + i) l d.
Proof.
  induction a as [|a IH]; intros l i; [reflexivity|].
  destruct l as [|x l]; [cbn [skipn Nat.add nth]; now destruct i|]. cbn [skipn Nat.add nth]. apply IH.
Qed.

Lemma skipn_skipn' {A} a b (l : list A) : skipn a (skipn b l) = skipn (b + a) l.
Proof.
  revert l. induction b as [|b IH]; intros l; [reflexivity|].
  destruct l as [|x l]; [cbn [skipn Nat.add]; now destruct a|]. cbn [skipn Nat.add]. apply IH.
Qed.

Lemma combine_seq_nth {A} (d : A) (l : list A) : forall lo,
  List.combine (seq lo (length l)) l = map (fun i => (i, nth (i - lo) l d)) (seq lo (length l)).
Proof.
  induction l as [|x l IH]; intros lo; [reflexivity|].
  cbn [length seq List.combine map]. rewrite Nat.sub_diag. cbn [nth]. f_equal.
  rewrite (IH (S lo)). apply map_ext_in. intros i Hi. apply in_seq in Hi.
  replace (i - lo) with (S (i - S lo)) by lia. reflexivity.
Qed.

Lemma enumerate_nth {A} (d : A) (l : list A) : enumerate l = map (fun i => (i, nth i l d)) (seq 0 (length l)).
Proof.
  unfold enumerate. rewrite (combine_seq_nth d l 0). apply map_ext. intros i. now rewrite Nat.sub_0_r.
Qed.

Lemma StronglySorted_seq a k : StronglySorted lt (seq a k).
Proof.
  revert a. induction k as [|k IH]; intros a; [constructor|]. cbn [seq]. constructor; [apply IH|].
  apply Forall_forall. intros y Hy. apply in_seq in Hy. lia.
Qed.

Lemma map_sub_rev c : forall k a, a + k <= c + 1 -> map (fun i => c - i) (seq a k) = rev (seq (c + 1 - a - k) k).
Proof.
  induction k as [|k IH]; intros a Hle; [reflexivity|].
  rewrite (seq_S k (c + 1 - a - S k)), rev_app_distr. cbn [rev app].
  change (seq a (S k)) with (a :: seq (S a) k). cbn [map]. rewrite (IH (S a)) by lia.
  f_equal; [lia|]. f_equal. f_equal. lia.
Qed.

(* consecutive windows of the given lengths, starting at a *)
Fixpoint wins (a : nat) (ks : list nat) : list (list nat) :=
  match ks with [] => [] | k :: r => seq a k :: wins (a + k) r end.

Lemma concat_wins ks : forall a, concat (wins a ks) = seq a (nsum ks).
Proof.
  induction ks as [|k r IH]; intros a; [reflexivity|]. cbn [wins concat nsum fold_right].
  rewrite IH. change (fold_right Nat.add 0 r) with (nsum r). now rewrite seq_app.
Qed.

Lemma wins_length ks : forall a, map (@length nat) (wins a ks) = ks.
Proof. induction ks as [|k r IH]; intros a; [reflexivity|]. cbn [wins map]. now rewrite seq_length, IH. Qed.

Lemma set_fold {A} (vals : list A) : forall (B P Z : list A), length B = length vals ->
  fold_left (fun vp p => set_nth vp (fst p) (snd p)) (List.combine (seq (length P) (length vals)) vals) (P ++ B ++ Z)
  = P ++ vals ++ Z.
Proof.
  induction vals as [|v vs IH]; intros B P Z HB.
  - destruct B; [reflexivity|discriminate HB].
  - destruct B as [|b B]; [discriminate HB|]. cbn [length seq List.combine fold_left fst snd].
    assert (E : set_nth (P ++ (b :: B) ++ Z) (length P) v = (P ++ [v]) ++ B ++ Z).
    { unfold set_nth. rewrite firstn_app, Nat.sub_diag, firstn_all, firstn_O, app_nil_r.
      rewrite skipn_app, skipn_all2 by lia. replace (S (length P) - length P) with 1 by lia.
      cbn [app skipn]. now rewrite <- app_assoc. }
    rewrite E. replace (S (length P)) with (length (P ++ [v])) by (rewrite app_length; cbn [length]; lia).
    rewrite (IH B (P ++ [v]) Z) by (cbn [length] in HB; lia). now rewrite <- app_assoc.
Qed.

(* ================================================================ part A *)
Section Signs.
  Context (G : Symmetry).
  Notation sector := (list (C G)).

  Lemma odd_at_skipn (s : sector) a i : odd_at G (skipn a s) i = odd_at G s (a + i).
  Proof. unfold odd_at. now rewrite nth_skipn_add. Qed.

  Lemma count_odd_shift (s : sector) a l : count_odd G s (map (Nat.add a) l) = count_odd G (skipn a s) l.
  Proof.
    unfold count_odd. f_equal. rewrite filter_map_comm, map_length. f_equal.
    apply filter_ext. intros i. symmetry. apply odd_at_skipn.
  Qed.

  Lemma nodd_shift (s : sector) a k : nodd (odd_at G s) (seq a k) = nodd (odd_at G (skipn a s)) (seq 0 k).
  Proof.
    unfold nodd. rewrite (seq_add_map k a), countb_map. apply countb_ext_in. intros i _. symmetry. apply odd_at_skipn.
  Qed.

  (* the sign one fused window contributes: `ds` = directions of the axes of the
     window, `t` = the sector from the start of the window on.  Flip of the
     non-dual positions, and the reversal of the window. *)
  Definition gsw (ds : list bool) (t : sector) : bool :=
    xorb (count_odd G t (filter (fun i => negb (nth i ds true)) (seq 0 (length ds))))
         (tri (nodd (odd_at G t) (seq 0 (length ds)))).
  (* only windows whose first axis is dual get a sign *)
  Definition gsg (ds : list bool) (t : sector) : bool := if hd false ds then gsw ds t else false.
  (* consecutive windows *)
  Fixpoint Hs (dss : list (list bool)) (t : sector) : bool :=
    match dss with
    | [] => false
    | ds :: r => xorb (gsg ds t) (Hs r (skipn (length ds) t))
    end.

  Lemma Hs_app dss1 dss2 t :
    Hs (dss1 ++ dss2) t = xorb (Hs dss1 t) (Hs dss2 (skipn (length (concat dss1)) t)).
  Proof.
    revert t. induction dss1 as [|ds r IH]; intros t; [cbn [app Hs concat length skipn]; now destruct (Hs dss2 t)|].
    cbn [app Hs concat]. rewrite IH, app_length, skipn_skipn', xorb_assoc. reflexivity.
  Qed.

  Lemma gsg_single d t : gsg [d] t = false.
  Proof.
    unfold gsg, gsw. cbn [hd length seq]. destruct d; [|reflexivity].
    cbn [filter nth negb]. unfold count_odd. cbn [filter length Nat.odd].
    unfold tri, nodd, countb. cbn [filter]. destruct (odd_at G t 0); reflexivity.
  Qed.

  (* ---- the sign f_unfuse applies to the unfused window ---- *)
  Definition unfuse_vperm (axis nnew N : nat) : list nat :=
    map (fun k => if Nat.leb axis k && Nat.ltb k (axis + nnew) then axis + nnew - (k - axis) - 1 else k) (seq 0 N).

  Lemma unfuse_vperm_eq axis nnew N : axis + nnew <= N ->
    unfuse_vperm axis nnew N = seq 0 axis ++ rev (seq axis nnew) ++ seq (axis + nnew) (N - axis - nnew).
  Proof.
    intros Hle. unfold unfuse_vperm.
    replace N with (axis + (nnew + (N - axis - nnew))) at 1 by lia.
    rewrite !seq_app, !map_app. cbn [Nat.add]. f_equal; [|f_equal].
    - rewrite <- (map_id (seq 0 axis)) at 2. apply map_ext_in. intros k Hk. apply in_seq in Hk.
      replace (Nat.leb axis k) with false by (symmetry; apply Nat.leb_gt; lia). reflexivity.
    - destruct nnew as [|nn]; [reflexivity|]. set (nnew := S nn) in *. assert (Hnn : 0 < nnew) by (unfold nnew; lia).
      clearbody nnew.
      rewrite <- (map_ext_in (fun i => (axis + axis + nnew - 1) - i)).
      + rewrite (map_sub_rev (axis + axis + nnew - 1) nnew axis) by lia. f_equal. f_equal. lia.
      + intros k Hk. apply in_seq in Hk.
        replace (Nat.leb axis k) with true by (symmetry; apply Nat.leb_le; lia).
        replace (Nat.ltb k (axis + nnew)) with true by (symmetry; apply Nat.ltb_lt; lia). cbn [andb]. lia.
    - rewrite <- (map_id (seq (axis + nnew) _)) at 2. apply map_ext_in. intros k Hk. apply in_seq in Hk.
      replace (Nat.ltb k (axis + nnew)) with false by (symmetry; apply Nat.ltb_ge; lia).
      now rewrite andb_false_r.
  Qed.

  Lemma window_perm a k m : Permutation (seq 0 a ++ rev (seq a k) ++ seq (a + k) m) (seq 0 (a + (k + m))).
  Proof.
    rewrite !seq_app. cbn [Nat.add]. apply Permutation_app_head, Permutation_app_tail.
    symmetry. apply Permutation_rev.
  Qed.

  Lemma wsg_window (par : nat -> bool) a k m :
    wsg par (seq 0 a ++ rev (seq a k) ++ seq (a + k) m) = tri (nodd par (seq a k)).
  Proof.
    rewrite !wsg_app.
    rewrite (wsg_sorted par (seq 0 a)) by apply StronglySorted_seq.
    rewrite (wsg_sorted par (seq (a + k) m)) by apply StronglySorted_seq.
    rewrite (wsg_rev par (seq a k)) by apply seq_NoDup.
    rewrite (wsg_sorted par (seq a k)) by apply StronglySorted_seq.
    rewrite (wcr_before par (rev (seq a k))).
    2:{ intros x y Hx Hy. apply in_rev, in_seq in Hx. apply in_seq in Hy. lia. }
    rewrite (wcr_before par (seq 0 a)).
    2:{ intros x y Hx Hy. apply in_seq in Hx. apply in_app_or in Hy. destruct Hy as [Hy|Hy].
        - apply in_rev, in_seq in Hy. lia.
        - apply in_seq in Hy. lia. }
    now destruct (tri (nodd par (seq a k))).
  Qed.

  Lemma unfuse_sign (K : sector) axis (subs : list (index G)) N :
    axis + length subs <= N -> N <= length K ->
    xorb (count_odd G K (map (fun p => axis + fst p)
                            (filter (fun p => negb (idual G (snd p))) (enumerate subs))))
         (perm_minus G K (Some (unfuse_vperm axis (length subs) N)))
    = gsw (map (idual G) subs) (skipn axis K).
  Proof.
    intros Hle HN. unfold gsw. rewrite map_length. f_equal.
    - rewrite <- count_odd_shift. f_equal.
      rewrite (enumerate_nth (dflt_index G) subs), filter_map_comm, map_map. cbn [fst snd].
      f_equal. apply filter_ext_in. intros i Hi. apply in_seq in Hi. f_equal.
      rewrite (nth_indep _ true (idual G (dflt_index G))) by (rewrite map_length; lia).
      now rewrite map_nth.
    - rewrite (unfuse_vperm_eq axis (length subs) N Hle).
      rewrite (perm_minus_some G K _ N).
      2:{ replace N with (axis + (length subs + (N - axis - length subs))) at 2 by lia. apply window_perm. }
      rewrite inv_parity_wsg.
      2:{ intros i Hi. apply in_app_or in Hi. destruct Hi as [Hi|Hi]; [apply in_seq in Hi; lia|].
          apply in_app_or in Hi. destruct Hi as [Hi|Hi]; [apply in_rev, in_seq in Hi; lia|apply in_seq in Hi; lia]. }
      rewrite wsg_window. f_equal. apply nodd_shift.
  Qed.

  (* ---- the sign f_fuse applies: all dual-leading windows at once ---- *)
  Context (ixs : list (index G)).
  Definition dualp (g : list nat) : bool := idual G (nth (hd 0 g) ixs (dflt_index G)).
  Definition ndl (ax : nat) : bool := negb (idual G (nth ax ixs (dflt_index G))).
  Definition ds_of (g : list nat) : list bool := map (fun ax => idual G (nth ax ixs (dflt_index G))) g.
  Definition chunk (g : list nat) : list nat := if dualp g then rev g else g.
  Definition fuse_vperm (dualg : list (list nat)) (n : nat) : list nat :=
    fold_left (fun vp g => fold_left (fun vp2 p => set_nth vp2 (fst p) (snd p)) (List.combine g (rev g)) vp)
              dualg (seq 0 n).

  Lemma fuse_vperm_gen ks : forall a (P Z : list nat), length P = a ->
    fold_left (fun vp g => fold_left (fun vp2 p => set_nth vp2 (fst p) (snd p)) (List.combine g (rev g)) vp)
              (filter dualp (wins a ks)) (P ++ concat (wins a ks) ++ Z)
    = P ++ concat (map chunk (wins a ks)) ++ Z.
  Proof.
    induction ks as [|k r IH]; intros a P Z HP; [reflexivity|].
    cbn [wins filter concat map]. unfold chunk at 1. destruct (dualp (seq a k)).
    - cbn [fold_left]. rewrite <- (app_assoc (seq a k)).
      assert (E : List.combine (seq a k) (rev (seq a k)) =
                  List.combine (seq (length P) (length (rev (seq a k)))) (rev (seq a k))).
      { now rewrite rev_length, seq_length, HP. }
      rewrite E, (set_fold (rev (seq a k)) (seq a k) P) by now rewrite rev_length.
      rewrite (app_assoc P), (IH (a + k) (P ++ rev (seq a k)) Z).
      + now rewrite <- !app_assoc.
      + rewrite app_length, rev_length, seq_length. lia.
    - rewrite <- (app_assoc (seq a k)), (app_assoc P), (IH (a + k) (P ++ seq a k) Z).
      + now rewrite <- !app_assoc.
      + rewrite app_length, seq_length. lia.
  Qed.

  Lemma chunk_perm g : Permutation (chunk g) g.
  Proof. unfold chunk. destruct (dualp g); [symmetry; apply Permutation_rev|apply Permutation_refl]. Qed.

  Lemma chunks_perm gs : Permutation (concat (map chunk gs)) (concat gs).
  Proof.
    induction gs as [|g gs IH]; [apply Permutation_refl|]. cbn [map concat].
    apply Permutation_app; [apply chunk_perm|exact IH].
  Qed.

  Lemma chunks_range ks a x : In x (concat (map chunk (wins a ks))) -> a <= x < a + nsum ks.
  Proof.
    intros H. apply (Permutation_in _ (chunks_perm _)) in H. rewrite concat_wins in H. apply in_seq in H. exact H.
  Qed.

  Lemma length_ds_of g : length (ds_of g) = length g.
  Proof. apply map_length. Qed.

  Lemma hd_ds_of a k : 1 <= k -> hd false (ds_of (seq a k)) = dualp (seq a k).
  Proof. intros Hk. destruct k as [|k]; [lia|]. reflexivity. Qed.

  Lemma flip_window (s : sector) a k :
    count_odd G s (filter ndl (seq a k))
    = count_odd G (skipn a s) (filter (fun i => negb (nth i (ds_of (seq a k)) true)) (seq 0 k)).
  Proof.
    rewrite (seq_add_map k a) at 1. rewrite filter_map_comm, count_odd_shift. f_equal.
    apply filter_ext_in. intros i Hi. apply in_seq in Hi. unfold ndl, ds_of. f_equal.
    rewrite (nth_indep _ true (idual G (nth 0 ixs (dflt_index G)))) by (rewrite map_length, seq_length; lia).
    rewrite (map_nth (fun ax => idual G (nth ax ixs (dflt_index G)))). rewrite seq_nth by lia. reflexivity.
  Qed.

  Lemma count_odd_app' (s : sector) u v : count_odd G s (u ++ v) = xorb (count_odd G s u) (count_odd G s v).
  Proof. unfold count_odd. rewrite filter_app, app_length, Nat.odd_add. reflexivity. Qed.

  Lemma fuse_sign_windows (s : sector) ks : forall a, Forall (fun k => 1 <= k) ks ->
    xorb (count_odd G s (flat_map (fun g => filter ndl g) (filter dualp (wins a ks))))
         (wsg (odd_at G s) (concat (map chunk (wins a ks))))
    = Hs (map ds_of (wins a ks)) (skipn a s).
  Proof.
    induction ks as [|k r IH]; intros a Hks; [reflexivity|].
    inversion Hks as [|? ? Hk Hr]; subst.
    cbn [wins filter map concat Hs]. rewrite length_ds_of, seq_length, skipn_skipn'.
    rewrite <- (IH (a + k) Hr). unfold gsg. rewrite (hd_ds_of a k Hk). unfold chunk at 1.
    rewrite wsg_app.
    rewrite (wcr_before (odd_at G s) _ (concat (map chunk (wins (a + k) r)))).
    2:{ intros x y Hx Hy. apply chunks_range in Hy.
        assert (Hx' : In x (seq a k)) by (destruct (dualp (seq a k)); [apply in_rev in Hx|]; exact Hx).
        apply in_seq in Hx'. lia. }
    destruct (dualp (seq a k)).
    - cbn [flat_map]. rewrite count_odd_app'.
      rewrite (wsg_rev (odd_at G s) (seq a k)) by apply seq_NoDup.
      rewrite (wsg_sorted (odd_at G s) (seq a k)) by apply StronglySorted_seq.
      unfold gsw. rewrite length_ds_of, seq_length.
      rewrite <- flip_window, <- nodd_shift.
      generalize (count_odd G s (filter ndl (seq a k))) (tri (nodd (odd_at G s) (seq a k)))
        (count_odd G s (flat_map (fun g => filter ndl g) (filter dualp (wins (a + k) r))))
        (wsg (odd_at G s) (concat (map chunk (wins (a + k) r)))).
      intros b1 b2 b3 b4. destruct b1, b2, b3, b4; reflexivity.
    - rewrite (wsg_sorted (odd_at G s) (seq a k)) by apply StronglySorted_seq.
      generalize (count_odd G s (flat_map (fun g => filter ndl g) (filter dualp (wins (a + k) r))))
        (wsg (odd_at G s) (concat (map chunk (wins (a + k) r)))).
      intros b3 b4. destruct b3, b4; reflexivity.
  Qed.

  (* the sign of f_fuse for the windows `wins a ks` inside a sector of length n *)
  Theorem fuse_sign (s : sector) a ks n :
    Forall (fun k => 1 <= k) ks -> a + nsum ks <= n -> length s = n ->
    let dualg := filter dualp (wins a ks) in
    xorb (count_odd G s (flat_map (fun g => filter ndl g) dualg))
         (if is_nil dualg then false else perm_minus G s (Some (fuse_vperm dualg n)))
    = Hs (map ds_of (wins a ks)) (skipn a s).
  Proof.
    intros Hks Hle Hs. cbv zeta. set (m := nsum ks) in *. set (M := concat (map chunk (wins a ks))).
    pose proof (concat_wins ks a) as Ecw. fold m in Ecw.
    assert (Evp : fuse_vperm (filter dualp (wins a ks)) n = seq 0 a ++ M ++ seq (a + m) (n - a - m)).
    { unfold fuse_vperm. replace n with (a + (m + (n - a - m))) at 1 by lia.
      rewrite !seq_app. cbn [Nat.add]. rewrite <- Ecw.
      apply fuse_vperm_gen. apply seq_length. }
    assert (Epm : perm_minus G s (Some (fuse_vperm (filter dualp (wins a ks)) n)) = wsg (odd_at G s) M).
    { rewrite Evp. rewrite (perm_minus_some G s _ n).
      2:{ replace n with (a + (m + (n - a - m))) at 2 by lia. rewrite !seq_app. cbn [Nat.add].
          apply Permutation_app_head, Permutation_app_tail. unfold M.
          rewrite <- Ecw. apply chunks_perm. }
      rewrite inv_parity_wsg.
      2:{ intros i Hi. apply in_app_or in Hi. destruct Hi as [Hi|Hi]; [apply in_seq in Hi; lia|].
          apply in_app_or in Hi. destruct Hi as [Hi|Hi]; [apply chunks_range in Hi; fold m in Hi; lia|apply in_seq in Hi; lia]. }
      rewrite !wsg_app.
      rewrite (wsg_sorted _ (seq 0 a)) by apply StronglySorted_seq.
      rewrite (wsg_sorted _ (seq (a + m) _)) by apply StronglySorted_seq.
      rewrite (wcr_before _ M).
      2:{ intros x y Hx Hy. apply chunks_range in Hx. fold m in Hx. apply in_seq in Hy. lia. }
      rewrite (wcr_before _ (seq 0 a)).
      2:{ intros x y Hx Hy. apply in_seq in Hx. apply in_app_or in Hy. destruct Hy as [Hy|Hy].
          - apply chunks_range in Hy. lia.
          - apply in_seq in Hy. lia. }
      now destruct (wsg (odd_at G s) M). }
    rewrite <- (fuse_sign_windows s ks a Hks). fold M. f_equal.
    destruct (filter dualp (wins a ks)) as [|g0 dg] eqn:Ed; cbn [is_nil]; [|exact Epm].
    (* no dual window: the virtual permutation is the identity *)
    symmetry. assert (EM : M = seq a m).
    { unfold M. rewrite <- Ecw. f_equal. rewrite <- (map_id (wins a ks)) at 2.
      apply map_ext_in. intros g Hg. unfold chunk.
      destruct (dualp g) eqn:Eg; [|reflexivity].
      assert (Hin : In g (filter dualp (wins a ks))) by (apply filter_In; split; assumption).
      rewrite Ed in Hin. destruct Hin. }
    rewrite EM. apply wsg_sorted, StronglySorted_seq.
  Qed.
End Signs.

(* ================================================================ part B *)
Section UnfuseSignmap.
  Context (G : Symmetry) (R : Ring) (HG : GroupLaws G).
  Context (rneg_invol : forall a : RT R, rneg R (rneg R a) = a)
          (rneg_zero : rneg R (r0 R) = r0 R).
  Notation sector := (list (C G)).
  Notation keq := (list_eqb (ceqb G)).
  Notation arr := (aarray G R).
  Notation sgn := (LazyProofs.sgn R).

  Definition smap (c : sector -> bool) (p : sector * tensor R) : sector * tensor R := (fst p, sgn (c (fst p)) (snd p)).

  Lemma a_signmap_blocks c (v : arr) : blocks G R (a_signmap G R c v) = map (smap c) (blocks G R v).
  Proof. reflexivity. Qed.

  Lemma a_signmap_ext c c' (v : arr) : (forall s, In s (sectors G R v) -> c s = c' s) -> a_signmap G R c v = a_signmap G R c' v.
  Proof.
    intros H. unfold a_signmap. f_equal. apply map_ext_in. intros [s t] Hin. cbn [fst snd].
    rewrite (H s); [reflexivity|]. unfold sectors. apply (in_map fst) in Hin. exact Hin.
  Qed.

  Lemma a_signmap_comp c1 c2 (v : arr) :
    a_signmap G R c2 (a_signmap G R c1 v) = a_signmap G R (fun s => xorb (c1 s) (c2 s)) v.
  Proof.
    unfold a_signmap, with_blocks. cbn [indices charge blocks]. f_equal. rewrite map_map.
    apply map_ext. intros [s t]. cbn [fst snd]. now rewrite (sgn_xorb R rneg_invol).
  Qed.

  Lemma dset_smap c k v (l : list (sector * tensor R)) :
    dset keq k (sgn (c k) v) (map (smap c) l) = map (smap c) (dset keq k v l).
  Proof.
    induction l as [|[k' v'] l IH]; [reflexivity|]. cbn [map dset smap fst snd].
    destruct (keq k k') eqn:E.
    - apply (keq_eq G HG) in E. subst k'. reflexivity.
    - cbn [map smap fst snd]. now rewrite IH.
  Qed.

  Lemma tslice_tneg (t : tensor R) ax st len : tslice R (tneg R t) ax st len = tneg R (tslice R t ax st len).
  Proof.
    unfold tslice. rewrite (tneg_build R). change (tshape (tneg R t)) with (tshape t).
    unfold build. f_equal. apply map_ext. intros i. apply (get_tneg R rneg_zero).
  Qed.

  Lemma piece_sgn b (t : tensor R) ax st len sh :
    treshape R (tslice R (sgn b t) ax st len) sh = sgn b (treshape R (tslice R t ax st len) sh).
  Proof. destruct b; cbn [LazyProofs.sgn]; [|reflexivity]. now rewrite tslice_tneg. Qed.

  Lemma tshape_sgn b (t : tensor R) : tshape (sgn b t) = tshape t.
  Proof. now destruct b. Qed.

  Lemma fold_left_inv {A B} (f1 f2 : A -> B -> A) (F : A -> A) (l : list B) : forall acc,
    (forall acc x, In x l -> f1 (F acc) x = F (f2 acc x)) ->
    fold_left f1 l (F acc) = F (fold_left f2 l acc).
  Proof.
    induction l as [|x l IH]; intros acc H; [reflexivity|]. cbn [fold_left].
    rewrite H by now left. apply IH. intros acc' y Hy. apply H. now right.
  Qed.

  (* a sign on the fused blocks = the sign c' on the unfused blocks, when c' gives
     every piece the sign of the block it is cut from *)
  Theorem a_unfuse_signmap (Y : arr) ax (c c' : sector -> bool) :
    (forall s T subs ext e ss, In (s, T) (blocks G R Y) ->
       isub G (nth ax (indices G R Y) (dflt_index G)) = Some (subs, ext) ->
       lookup (ceqb G) (nth ax s (ident G)) ext = Some e -> In ss (map fst e) ->
       c' (replace_with_seq s ax ss) = c s) ->
    a_unfuse G R (a_signmap G R c Y) ax = option_map (a_signmap G R c') (a_unfuse G R Y ax).
  Proof.
    intros Hc. unfold a_unfuse. change (indices G R (a_signmap G R c Y)) with (indices G R Y).
    destruct (isub G (nth ax (indices G R Y) (dflt_index G))) as [[subs ext]|] eqn:Esub; [|reflexivity].
    cbn [option_map]. f_equal. unfold a_signmap, with_blocks. cbn [indices charge blocks]. f_equal.
    rewrite fold_left_map. fold (smap c').
    change (@nil (sector * tensor R)) with (map (smap c') (@nil (sector * tensor R))) at 1.
    apply (fold_left_inv _ _ (map (smap c'))). intros acc [s T] Hin. cbn [smap fst snd].
    destruct (lookup (ceqb G) (nth ax s (ident G)) ext) as [e|] eqn:Ee; [|reflexivity].
    apply (fold_left_inv _ _ (map (smap c'))). intros acc2 [ss [st len]] Hq.
    rewrite tshape_sgn, piece_sgn.
    rewrite <- (Hc s T subs ext e ss Hin eq_refl Ee) by (apply in_combine_l in Hq; exact Hq).
    apply dset_smap.
  Qed.
End UnfuseSignmap.

(* ================================================================ part C *)
(* unfusing the fused groups of a fermionic array one after another, from the last
   group to the first: the fermionic counterpart of FuseGroups.unfuse_groups *)
Definition f_unfuse_step (G : Symmetry) (R : Ring) (pos : nat) (p : nat * list nat) (acc : option (farray G R))
  : option (farray G R) :=
  match acc with
  | Some y => if is_singlet (snd p) then Some y else f_unfuse G R y (pos + fst p)
  | None => None
  end.
Definition f_unfuse_groups (G : Symmetry) (R : Ring) (y : farray G R) (pos : nat) (gs : list (list nat))
  : option (farray G R) :=
  fold_right (f_unfuse_step G R pos) (Some y) (enumerate gs).

Definition rel_opt {A B} (P : A -> B -> Prop) (oa : option A) (ob : option B) : Prop :=
  match oa, ob with
  | Some a, Some b => P a b
  | None, None => True
  | _, _ => False
  end.

Lemma skipn_replace {A} (s ss : list A) ax k : ax < length s -> length ss = k ->
  skipn (ax + k) (replace_with_seq s ax ss) = skipn (S ax) s.
Proof.
  intros Hax Hk. unfold replace_with_seq.
  rewrite skipn_app, skipn_all2 by (rewrite firstn_length; lia).
  rewrite firstn_length, Nat.min_l by lia. replace (ax + k - ax) with k by lia.
  rewrite skipn_app, skipn_all2 by lia. rewrite Hk, Nat.sub_diag. reflexivity.
Qed.

Section Chain.
  Context (G : Symmetry) (R : Ring) (HG : GroupLaws G).
  Context (rneg_invol : forall a : RT R, rneg R (rneg R a) = a)
          (rneg_zero : rneg R (r0 R) = r0 R).
  Notation sector := (list (C G)).
  Notation keq := (list_eqb (ceqb G)).
  Notation arr := (aarray G R).
  Notation farr := (farray G R).
  Notation dflt := (dflt_index G).

  Lemma value_no_phases (b : arr) odd : f_value G R (mkF G R b [] odd) = b.
  Proof. rewrite (f_value_eq G R). cbn [fbase fphases]. apply a_signmap_false. reflexivity. Qed.

  Lemma wf_sector_len (Y : arr) K : wf_array G R Y = true -> In K (sectors G R Y) -> length K = length (indices G R Y).
  Proof.
    intros Hw HK. apply (wf_array_iff G HG) in Hw. destruct Hw as [_ _ _ H4].
    apply in_map_iff in HK. destruct HK as ([K0 T] & <- & Hin). destruct (H4 _ _ Hin) as ((HL & _) & _). exact HL.
  Qed.

  Lemma wf_sectors_nodup (Y : arr) : wf_array G R Y = true -> NoDup (sectors G R Y).
  Proof. intros Hw. apply (wf_array_iff G HG) in Hw. now destruct Hw. Qed.

  (* one fermionic unfuse on top of a sign map *)
  Lemma f_unfuse_value (Y : arr) (FY : farr) ax (c : sector -> bool) (h : sector -> bool) subs ext :
    wf_array G R Y = true ->
    f_value G R FY = a_signmap G R c Y ->
    isub G (nth ax (indices G R Y) dflt) = Some (subs, ext) ->
    (forall K, In K (sectors G R Y) -> c K = h (skipn (S ax) K)) ->
    exists Y' FY',
      a_unfuse G R Y ax = Some Y' /\ f_unfuse G R FY ax = Some FY' /\
      wf_array G R Y' = true /\ foddpos G R FY' = foddpos G R FY /\
      indices G R Y' = replace_with_seq (indices G R Y) ax subs /\
      f_value G R FY' =
      a_signmap G R (fun K => xorb (h (skipn (ax + length subs) K))
                                   (if idual G (nth ax (indices G R Y) dflt)
                                    then gsw G (map (idual G) subs) (skipn ax K) else false)) Y'.
  Proof.
    intros Hw HV Hsub Hc.
    assert (Hax : ax < length (indices G R Y)).
    { destruct (Nat.lt_ge_cases ax (length (indices G R Y))) as [H|H]; [exact H|].
      rewrite nth_overflow in Hsub by exact H. discriminate Hsub. }
    destruct (a_unfuse G R Y ax) as [Y'|] eqn:EU.
    2:{ unfold a_unfuse in EU. rewrite Hsub in EU. discriminate EU. }
    assert (HixY' : indices G R Y' = replace_with_seq (indices G R Y) ax subs).
    { unfold a_unfuse in EU. rewrite Hsub in EU. inversion EU. reflexivity. }
    assert (Hw' : wf_array G R Y' = true) by (apply (unfuse_wf G HG R Y Y' ax Hw EU)).
    pose proof Hw as HwP. apply (wf_array_iff G HG) in HwP. destruct HwP as [H1 H2 H3 H4].
    set (c' := fun K : sector => h (skipn (ax + length subs) K)).
    (* the sign commutes with the abelian unfuse *)
    assert (Ecomm : a_unfuse G R (a_signmap G R c Y) ax = Some (a_signmap G R c' Y')).
    { rewrite (a_unfuse_signmap G R HG rneg_zero Y ax c c'); [now rewrite EU|].
      intros s T subs0 ext0 e ss Hin Hs0 He Hss. rewrite Hsub in Hs0. inversion Hs0; subst subs0 ext0.
      assert (HsS : In s (sectors G R Y)) by (unfold sectors; apply (in_map fst) in Hin; exact Hin).
      rewrite (Hc s HsS). unfold c'. f_equal.
      destruct (H4 _ _ Hin) as ((HL & Htab & _) & _).
      apply skipn_replace; [lia|].
      (* sub-sectors recorded in a valid index have the length of the sub-index list *)
      assert (Hwix : wf_index G (nth ax (indices G R Y) dflt) = true).
      { unfold IxsOK in H1. rewrite Forall_forall in H1. apply H1. apply nth_In. exact Hax. }
      destruct (nth ax (indices G R Y) dflt) as [cm d sub] eqn:Eix. cbn [isub] in Hsub. subst sub.
      destruct (wf_index_fused G cm d subs ext Hwix) as (_ & Hext).
      specialize (Htab ax Hax). rewrite Eix in Htab. unfold icharges in Htab. cbn [chargemap] in Htab.
      destruct (Hext _ e Htab He) as (sz & Hok).
      apply in_map_iff in Hss. destruct Hss as ([ss0 len] & <- & Hin').
      destruct (extent_ok_In G HG _ d subs _ sz e ss0 len Hok Hin') as (HLs & _). exact HLs. }
    assert (Eix : indices G R (fbase G R FY) = indices G R Y).
    { change (indices G R (fbase G R FY)) with (indices G R (f_value G R FY)). now rewrite HV. }
    unfold f_unfuse. rewrite Eix, Hsub. cbv zeta.
    change (fbase G R (f_phase_sync G R FY)) with (f_value G R FY). rewrite HV, Ecomm.
    unfold with_base. cbn [fphases foddpos f_phase_sync].
    set (y := mkF G R (a_signmap G R c' Y') [] (foddpos G R FY)).
    assert (Hvy : f_value G R y = a_signmap G R c' Y') by apply value_no_phases.
    assert (Hnd : NoDup (fsectors G R y)).
    { unfold fsectors, y. cbn [fbase]. rewrite (signmap_sectors G R). apply wf_sectors_nodup, Hw'. }
    exists Y'. destruct (idual G (nth ax (indices G R Y) dflt)).
    - eexists. split; [reflexivity|]. split; [reflexivity|]. split; [exact Hw'|]. split; [|split; [exact HixY'|]].
      + unfold f_phase_transpose, with_phases. cbn [foddpos]. now rewrite (foddpos_flip G R).
      + rewrite (value_phase_transpose G R HG rneg_invol) by (now rewrite (fsectors_flip G R)).
        rewrite (value_phase_flip G R HG rneg_invol) by exact Hnd.
        rewrite Hvy, !(a_signmap_comp G R rneg_invol).
        apply a_signmap_ext. intros K HK. unfold c'. f_equal.
        pose proof (wf_sector_len Y' K Hw' HK) as HLK. rewrite HixY' in HLK.
        unfold replace_with_seq in HLK. rewrite !app_length, firstn_length, skipn_length, Nat.min_l in HLK by lia.
        change (ndim G R (fbase G R FY)) with (length (indices G R (fbase G R FY))). rewrite Eix.
        apply (unfuse_sign G K ax subs); lia.
    - eexists. split; [reflexivity|]. split; [reflexivity|]. split; [exact Hw'|]. split; [reflexivity|]. split; [exact HixY'|].
      fold y. rewrite Hvy. apply a_signmap_ext. intros K _. unfold c'. now rewrite xorb_false_r.
  Qed.

  Lemma rel_opt_impl {A B} (P Q : A -> B -> Prop) oa ob : (forall a b, P a b -> Q a b) -> rel_opt P oa ob -> rel_opt Q oa ob.
  Proof. intros H. destruct oa, ob; cbn [rel_opt]; auto. Qed.

  Lemma length_concat_ds (ixs : list (index G)) gs : length (concat (map (ds_of G ixs) gs)) = length (concat gs).
  Proof.
    induction gs as [|g gs IH]; [reflexivity|]. cbn [map concat]. now rewrite !app_length, IH, length_ds_of.
  Qed.

  (* the chain: PRE = the indices before the fused block, FIX g = the index a group
     was fused into; the not-yet-unfused groups `gs` sit at positions pos, pos+1, ... *)
  Context (ixs : list (index G)) (pos : nat) (PRE : list (index G)) (FIX : list nat -> index G).
  Context (HPRE : length PRE = pos).

  Lemma firstn_prefix (l : list (index G)) gs g :
    firstn (pos + length (gs ++ [g])) l = PRE ++ map FIX (gs ++ [g]) ->
    firstn (pos + length gs) l = PRE ++ map FIX gs /\ nth (pos + length gs) l dflt = FIX g /\
    pos + length gs < length l.
  Proof.
    intros H. rewrite app_length in H. cbn [length] in H. rewrite map_app in H. cbn [map] in H.
    assert (HL : length (firstn (pos + (length gs + 1)) l) = pos + (length gs + 1)).
    { rewrite H, !app_length, map_length. cbn [length]. lia. }
    assert (Hlen : pos + (length gs + 1) <= length l).
    { rewrite firstn_length in HL. lia. }
    split; [|split; [|lia]].
    - replace (pos + length gs) with (Nat.min (pos + length gs) (pos + (length gs + 1))) by lia.
      rewrite <- firstn_firstn, H, app_assoc.
      rewrite firstn_app, firstn_all2 by (rewrite app_length, map_length; lia).
      rewrite app_length, map_length, HPRE.
      rewrite Nat.sub_diag. cbn [firstn]. apply app_nil_r.
    - rewrite <- (firstn_skipn (pos + (length gs + 1)) l) at 1.
      rewrite app_nth1 by lia. rewrite H, app_assoc.
      replace (pos + length gs) with (length (PRE ++ map FIX gs)) by (rewrite app_length, map_length; lia).
      apply nth_middle.
  Qed.

  Theorem chain : forall gs (Y : arr) (FY : farr) (c h : sector -> bool),
    (forall g, In g gs -> g <> [] /\ (is_singlet g = false ->
        exists ext, isub G (FIX g) = Some (map (fun ax => nth ax ixs dflt) g, ext) /\
                    idual G (FIX g) = dualp G ixs g)) ->
    wf_array G R Y = true ->
    f_value G R FY = a_signmap G R c Y ->
    (forall K, In K (sectors G R Y) -> c K = h (skipn (pos + length gs) K)) ->
    firstn (pos + length gs) (indices G R Y) = PRE ++ map FIX gs ->
    rel_opt (fun Yf FYf =>
               wf_array G R Yf = true /\ foddpos G R FYf = foddpos G R FY /\
               f_value G R FYf =
               a_signmap G R (fun K => xorb (Hs G (map (ds_of G ixs) gs) (skipn pos K))
                                            (h (skipn (pos + length (concat gs)) K))) Yf)
      (fold_right (unfuse_step G R pos) (Some Y) (enumerate gs))
      (fold_right (f_unfuse_step G R pos) (Some FY) (enumerate gs)).
  Proof.
    induction gs as [|g gs IH] using rev_ind; intros Y FY c h Hfix Hw HV Hc Hpre.
    - cbn [enumerate length seq List.combine fold_right rel_opt map Hs concat].
      split; [exact Hw|]. split; [reflexivity|]. rewrite HV. apply a_signmap_ext. intros K HK.
      rewrite (Hc K HK). cbn [length]. now destruct (h (skipn (pos + 0) K)).
    - destruct (firstn_prefix (indices G R Y) gs g Hpre) as (Hpre' & Hnth & Hlt).
      assert (Hgin : In g (gs ++ [g])) by (apply in_or_app; right; now left).
      destruct (Hfix g Hgin) as (Hgne & Hfg).
      assert (Hfix' : forall g', In g' gs -> g' <> [] /\ (is_singlet g' = false ->
                 exists ext, isub G (FIX g') = Some (map (fun ax => nth ax ixs dflt) g', ext) /\
                             idual G (FIX g') = dualp G ixs g')).
      { intros g' Hg'. apply Hfix. apply in_or_app. now left. }
      set (h' := fun t : sector => xorb (gsg G (ds_of G ixs g) t) (h (skipn (length g) t))).
      (* what the conclusion of the induction step looks like once the step is done *)
      assert (Hfin : forall (Y1 : arr) (FY1 : farr),
                rel_opt (fun Yf FYf =>
                   wf_array G R Yf = true /\ foddpos G R FYf = foddpos G R FY1 /\
                   f_value G R FYf =
                   a_signmap G R (fun K => xorb (Hs G (map (ds_of G ixs) gs) (skipn pos K))
                                                (h' (skipn (pos + length (concat gs)) K))) Yf)
                  (fold_right (unfuse_step G R pos) (Some Y1) (enumerate gs))
                  (fold_right (f_unfuse_step G R pos) (Some FY1) (enumerate gs)) ->
                foddpos G R FY1 = foddpos G R FY ->
                rel_opt (fun Yf FYf =>
                   wf_array G R Yf = true /\ foddpos G R FYf = foddpos G R FY /\
                   f_value G R FYf =
                   a_signmap G R (fun K => xorb (Hs G (map (ds_of G ixs) (gs ++ [g])) (skipn pos K))
                                                (h (skipn (pos + length (concat (gs ++ [g]))) K))) Yf)
                  (fold_right (unfuse_step G R pos) (Some Y1) (enumerate gs))
                  (fold_right (f_unfuse_step G R pos) (Some FY1) (enumerate gs))).
      { intros Y1 FY1 Hrel Hodd. revert Hrel. apply rel_opt_impl. intros Yf FYf (A1 & A2 & A3).
        split; [exact A1|]. split; [now rewrite A2|]. rewrite A3. apply a_signmap_ext. intros K _.
        rewrite map_app. cbn [map]. rewrite Hs_app, length_concat_ds. cbn [Hs].
        rewrite concat_app. cbn [concat]. rewrite app_nil_r, app_length.
        unfold h'. rewrite !skipn_skipn'.
        replace (pos + length (concat gs) + length g) with (pos + (length (concat gs) + length g)) by lia.
        generalize (Hs G (map (ds_of G ixs) gs) (skipn pos K))
                   (gsg G (ds_of G ixs g) (skipn (pos + length (concat gs)) K))
                   (h (skipn (pos + (length (concat gs) + length g)) K)).
        intros b1 b2 b3. destruct b1, b2, b3; reflexivity. }
      rewrite enumerate_app, !fold_right_app.
      cbn [enumerate length seq List.combine map fold_right fst snd]. rewrite Nat.add_0_r.
      unfold unfuse_step at 2, f_unfuse_step at 2. cbn [fst snd].
      destruct (is_singlet g) eqn:Es.
      + (* a single-axis group: nothing is unfused *)
        apply (Hfin Y FY); [|reflexivity].
        apply (IH Y FY c h' Hfix' Hw HV); [|exact Hpre'].
        intros K HK. rewrite (Hc K HK). unfold h'.
        destruct g as [|a0 [|a1 g]]; try discriminate Es.
        change (ds_of G ixs [a0]) with [idual G (nth a0 ixs dflt)]. rewrite gsg_single.
        rewrite skipn_skipn', app_length. cbn [length].
        replace (pos + (length gs + 1)) with (pos + length gs + 1) by lia.
        now destruct (h (skipn (pos + length gs + 1) K)).
      + destruct (Hfg eq_refl) as (ext & Hsub & Hdual).
        assert (Hsub' : isub G (nth (pos + length gs) (indices G R Y) dflt)
                        = Some (map (fun ax => nth ax ixs dflt) g, ext)) by (now rewrite Hnth).
        destruct (f_unfuse_value Y FY (pos + length gs) c h _ ext Hw HV Hsub') as
          (Y' & FY' & EU & EF & Hw' & Hodd' & Hix' & HV').
        { intros K HK. rewrite (Hc K HK). f_equal. rewrite app_length. cbn [length]. f_equal. lia. }
        rewrite EU, EF. apply (Hfin Y' FY'); [|exact Hodd'].
        apply (IH Y' FY' _ h' Hfix' Hw' HV').
        * intros K _. rewrite map_length, Hnth, Hdual, map_map. fold (ds_of G ixs g).
          unfold h', gsg. rewrite skipn_skipn'.
          assert (Ehd : hd false (ds_of G ixs g) = dualp G ixs g).
          { destruct g as [|a0 g]; [congruence|reflexivity]. }
          rewrite Ehd. apply xorb_comm.
        * rewrite Hix'. unfold replace_with_seq. rewrite firstn_app, firstn_firstn, Nat.min_id.
          rewrite firstn_length, Nat.min_l by lia. rewrite Nat.sub_diag. cbn [firstn]. rewrite app_nil_r.
          exact Hpre'.
  Qed.
End Chain.

(* ================================================================ part D *)
(* after the initial transpose the groups are consecutive windows *)
Lemma index_of_nth' k : forall l, NoDup l -> k < length l -> index_of (nth k l 0) l = k.
Proof.
  induction k as [|k IH]; intros [|p l] Hnd Hk; cbn [length] in Hk; try lia; cbn [nth index_of].
  - now rewrite Nat.eqb_refl.
  - inversion Hnd as [|? ? Hp Hl]; subst.
    destruct (Nat.eqb p (nth k l 0)) eqn:E.
    + apply Nat.eqb_eq in E. exfalso. apply Hp. rewrite E. apply nth_In. lia.
    + f_equal. apply IH; [exact Hl|lia].
Qed.

Lemma index_of_mid (P B Z : list nat) : NoDup (P ++ B ++ Z) ->
  map (fun x => index_of x (P ++ B ++ Z)) B = seq (length P) (length B).
Proof.
  intros Hnd. apply (nth_ext _ _ 0 0); [now rewrite map_length, seq_length|].
  intros i Hi. rewrite map_length in Hi. rewrite seq_nth by exact Hi.
  rewrite (nth_indep _ 0 (index_of 0 (P ++ B ++ Z))) by (now rewrite map_length).
  rewrite (map_nth (fun x => index_of x (P ++ B ++ Z))).
  replace (nth i B 0) with (nth (length P + i) (P ++ B ++ Z) 0).
  - apply index_of_nth'; [exact Hnd|]. rewrite !app_length. lia.
  - rewrite app_nth2_plus. now apply app_nth1.
Qed.

Lemma map_map_wins (f : nat -> nat) (groups : list (list nat)) : forall p,
  map f (concat groups) = seq p (length (concat groups)) ->
  map (map f) groups = wins p (map (@length nat) groups).
Proof.
  induction groups as [|g gs IH]; intros p H; [reflexivity|].
  cbn [concat] in H. rewrite map_app, app_length, seq_app in H.
  apply app_inv_len in H; [|now rewrite map_length, seq_length]. destruct H as [H1 H2].
  cbn [map wins]. rewrite H1. f_equal. apply IH. exact H2.
Qed.

Lemma fold_min_id (l : list nat) x : (forall y, In y l -> x <= y) -> fold_left Nat.min l x = x.
Proof.
  revert x. induction l as [|y l IH]; intros x H; [reflexivity|]. cbn [fold_left].
  rewrite Nat.min_l by (apply H; now left). apply IH. intros z Hz. apply H. now right.
Qed.

Lemma length_concat_nsum (gs : list (list nat)) : length (concat gs) = nsum (map (@length nat) gs).
Proof. induction gs as [|g gs IH]; [reflexivity|]. cbn [concat map nsum fold_right]. rewrite app_length, IH. reflexivity. Qed.

Section Windows.
  Context (n pos : nat) (ks : list nat).
  Context (Hks : Forall (fun k => 1 <= k) ks) (Hne : ks <> []) (Hle : pos + nsum ks <= n).

  Lemma nsum_pos : 1 <= nsum ks.
  Proof.
    destruct ks as [|k r]; [congruence|]. inversion Hks; subst. cbn [nsum fold_right]. lia.
  Qed.

  Lemma wins_position : fuse_position (wins pos ks) = pos.
  Proof.
    unfold fuse_position. rewrite concat_wins. pose proof nsum_pos as Hp.
    destruct (nsum ks) as [|m]; [lia|]. cbn [seq list_min]. apply fold_min_id.
    intros y Hy. apply in_seq in Hy. lia.
  Qed.

  Lemma wins_ungrouped ax : is_none (group_of (wins pos ks) ax) = negb (Nat.leb pos ax && Nat.ltb ax (pos + nsum ks)).
  Proof.
    destruct (Nat.leb pos ax && Nat.ltb ax (pos + nsum ks)) eqn:E; cbn [negb].
    - apply andb_true_iff in E. destruct E as [E1 E2]. apply Nat.leb_le in E1. apply Nat.ltb_lt in E2.
      destruct (is_none (group_of (wins pos ks) ax)) eqn:E'; [|reflexivity].
      apply ungrouped_iff' in E'. exfalso. apply E'. rewrite concat_wins. apply in_seq. lia.
    - apply ungrouped_iff'. rewrite concat_wins. intros H. apply in_seq in H.
      apply andb_false_iff in E. destruct E as [E|E]; [apply Nat.leb_gt in E|apply Nat.ltb_ge in E]; lia.
  Qed.

  Lemma wins_before : axes_before n (wins pos ks) = seq 0 pos.
  Proof.
    unfold axes_before. rewrite wins_position. apply filter_all. intros ax Hax. apply in_seq in Hax.
    rewrite wins_ungrouped. replace (Nat.leb pos ax) with false by (symmetry; apply Nat.leb_gt; lia). reflexivity.
  Qed.

  Lemma wins_after : axes_after n (wins pos ks) = seq (pos + nsum ks) (n - pos - nsum ks).
  Proof.
    unfold axes_after. rewrite wins_position. set (m := n - pos - nsum ks).
    replace (n - pos) with (nsum ks + m) by (unfold m; lia). rewrite seq_app, filter_app.
    rewrite filter_nil_all, filter_all; [reflexivity| |].
    - intros ax Hax. apply in_seq in Hax. rewrite wins_ungrouped.
      replace (Nat.ltb ax (pos + nsum ks)) with false by (symmetry; apply Nat.ltb_ge; lia).
      now rewrite andb_false_r.
    - intros ax Hax. apply in_seq in Hax. rewrite wins_ungrouped.
      replace (Nat.leb pos ax) with true by (symmetry; apply Nat.leb_le; lia).
      replace (Nat.ltb ax (pos + nsum ks)) with true by (symmetry; apply Nat.ltb_lt; lia). reflexivity.
  Qed.

  Lemma wins_perm_id : fuse_perm n (wins pos ks) = seq 0 n.
  Proof.
    unfold fuse_perm. rewrite wins_before, wins_after, concat_wins.
    set (m := n - pos - nsum ks). replace n with (pos + (nsum ks + m)) by (unfold m; lia). now rewrite !seq_app.
  Qed.

  Lemma wins_nonempty g : In g (wins pos ks) -> g <> [].
  Proof.
    clear Hne Hle. revert pos. induction ks as [|k r IH]; intros p Hin; [destruct Hin|].
    inversion Hks as [|? ? Hk Hr]; subst. cbn [wins] in Hin. destruct Hin as [<-|Hin].
    - destruct k; [lia|discriminate].
    - apply (IH Hr (p + k)). exact Hin.
  Qed.
End Windows.

Lemma windows_facts (n pos : nat) (ks : list nat) :
  Forall (fun k => 1 <= k) ks -> ks <> [] -> pos + nsum ks <= n ->
  fuse_position (wins pos ks) = pos /\ fuse_perm n (wins pos ks) = seq 0 n /\
  concat (wins pos ks) = seq pos (nsum ks).
Proof.
  intros H1 H2 H3. split; [apply (wins_position n pos ks H1 H2 H3)|].
  split; [apply (wins_perm_id n pos ks H1 H2 H3)|apply concat_wins].
Qed.

(* ================================================================ part E *)
Section Roundtrip.
  Context (G : Symmetry) (R : Ring) (HG : GroupLaws G) (OL : OrderLaws G).
  Context (rneg_invol : forall a : RT R, rneg R (rneg R a) = a)
          (rneg_zero : rneg R (r0 R) = r0 R).
  Notation sector := (list (C G)).
  Notation keq := (list_eqb (ceqb G)).
  Notation arr := (aarray G R).
  Notation farr := (farray G R).
  Notation dflt := (dflt_index G).
  Notation sgn := (LazyProofs.sgn R).

  Lemma lookup_smap c k (l : list (sector * tensor R)) :
    lookup keq k (map (smap G R c) l) = option_map (sgn (c k)) (lookup keq k l).
  Proof.
    induction l as [|[k' v] l IH]; [reflexivity|]. cbn [map smap fst snd lookup].
    destruct (keq k k') eqn:E; [|exact IH]. apply (keq_eq G HG) in E. now subst k'.
  Qed.

  Lemma sgn_cancel b (t : tensor R) : sgn b (sgn b t) = t.
  Proof. rewrite <- (sgn_xorb R rneg_invol). now destruct b. Qed.

  Lemma sgn_zero b (t : tensor R) : Forall (fun e => e = r0 R) (tdata t) -> Forall (fun e => e = r0 R) (tdata (sgn b t)).
  Proof.
    intros H. destruct b; [|exact H]. cbn [LazyProofs.sgn]. unfold tneg, tmap. cbn [tdata].
    apply Forall_forall. intros e He. apply in_map_iff in He. destruct He as (e0 & <- & He0).
    rewrite Forall_forall in H. now rewrite (H e0 He0).
  Qed.

  (* f_fuse written out: the three sign sources, then the abelian fuse of the value *)
  Definition fuse_x3 (x : farr) (groups : list (list nat)) : farr :=
    let n := ndim G R (fbase G R x) in
    let perm := fuse_perm n groups in
    let xt := f_transpose G R x perm true in
    let groups' := map (map (fun ax => index_of ax perm)) groups in
    let ixs := indices G R (fbase G R xt) in
    let dualg := filter (dualp G ixs) groups' in
    let x2 := f_phase_flip G R xt (flat_map (fun g => filter (ndl G ixs) g) dualg) in
    if is_nil dualg then x2 else f_phase_transpose G R x2 (Some (fuse_vperm dualg n)).

  Lemma fbase_x3 x groups :
    fbase G R (fuse_x3 x groups)
    = fbase G R (f_transpose G R x (fuse_perm (ndim G R (fbase G R x)) groups) true).
  Proof.
    unfold fuse_x3. cbv zeta. destruct (is_nil _); [|unfold f_phase_transpose, with_phases; cbn [fbase]];
      apply (LazyProofs.fbase_flip G R).
  Qed.

  Lemma foddpos_x3 x groups : foddpos G R (fuse_x3 x groups) = foddpos G R x.
  Proof.
    unfold fuse_x3. cbv zeta. destruct (is_nil _); [|unfold f_phase_transpose, with_phases; cbn [foddpos]];
      rewrite (LazyProofs.foddpos_flip G R); reflexivity.
  Qed.

  Lemma wf_x3 x groups :
    wf_fermi G R (f_transpose G R x (fuse_perm (ndim G R (fbase G R x)) groups) true) = true ->
    wf_fermi G R (fuse_x3 x groups) = true.
  Proof.
    intros Hxt. unfold fuse_x3. cbv zeta. destruct (is_nil _); [|apply (f_phase_transpose_wf G HG)];
      apply (f_phase_flip_wf G HG); exact Hxt.
  Qed.

  Lemma f_fuse_unfold x groups :
    f_fuse G R x groups =
    mkF G R (fuse_core G R (f_value G R (fuse_x3 x groups))
               (map (map (fun ax => index_of ax (fuse_perm (ndim G R (fbase G R x)) groups))) groups))
        [] (foddpos G R x).
  Proof.
    unfold f_fuse. cbv zeta.
    match goal with |- with_base G R (f_phase_sync G R ?z) _ = _ => change z with (fuse_x3 x groups) end.
    rewrite (sync_normal_form G R). unfold with_base. cbn [fbase fphases foddpos].
    now rewrite foddpos_x3.
  Qed.

  Lemma value_x3 x groups :
    let n := ndim G R (fbase G R x) in
    let perm := fuse_perm n groups in
    let xt := f_transpose G R x perm true in
    let groups' := map (map (fun ax => index_of ax perm)) groups in
    let ixs := indices G R (fbase G R xt) in
    let dualg := filter (dualp G ixs) groups' in
    NoDup (fsectors G R xt) ->
    f_value G R (fuse_x3 x groups) =
    a_signmap G R (fun s => xorb (count_odd G s (flat_map (fun g => filter (ndl G ixs) g) dualg))
                                 (if is_nil dualg then false else perm_minus G s (Some (fuse_vperm dualg n))))
              (f_value G R xt).
  Proof.
    cbv zeta. intros Hnd. unfold fuse_x3. cbv zeta. destruct (is_nil _).
    - rewrite (value_phase_flip G R HG rneg_invol) by exact Hnd.
      apply a_signmap_ext. intros s _. now rewrite xorb_false_r.
    - rewrite (value_phase_transpose G R HG rneg_invol) by (now rewrite (fsectors_flip G R)).
      rewrite (value_phase_flip G R HG rneg_invol) by exact Hnd.
      apply (a_signmap_comp G R rneg_invol).
  Qed.

  Lemma f_unfuse_groups_map (f : nat -> nat) (y : farr) pos (groups : list (list nat)) :
    f_unfuse_groups G R y pos (map (map f) groups) = f_unfuse_groups G R y pos groups.
  Proof.
    unfold f_unfuse_groups. rewrite enumerate_map, fold_right_map'. apply fold_right_ext_in'.
    intros [k g] acc _. unfold f_unfuse_step. cbn [fst snd]. unfold is_singlet. now rewrite map_length.
  Qed.
  (* ---- the round trip, any list of groups ---- *)
  Theorem fermi_roundtrip_groups (x : farr) (groups : list (list nat)) :
    wf_fermi G R x = true -> groups <> [] ->
    Forall (fun g => g <> []) groups -> NoDup (concat groups) ->
    Forall (fun ax => ax < ndim G R (fbase G R x)) (concat groups) ->
    let xt := f_transpose G R x (fuse_perm (ndim G R (fbase G R x)) groups) true in
    exists y,
      f_unfuse_groups G R (f_fuse G R x groups) (fuse_position groups) groups = Some y /\
      foddpos G R y = foddpos G R x /\
      indices G R (fbase G R y) = indices G R (fbase G R xt) /\
      charge G R (fbase G R y) = charge G R (fbase G R x) /\
      (forall s b, In (s, b) (blocks G R (f_value G R xt)) ->
         lookup keq s (blocks G R (f_value G R y)) = Some b) /\
      (forall k t, In (k, t) (blocks G R (f_value G R y)) ->
         In (k, t) (blocks G R (f_value G R xt)) \/ Forall (fun e => e = r0 R) (tdata t)) /\
      (forall cs, sem G R (f_value G R y) cs = sem G R (f_value G R xt) cs).
  Proof.
    intros Hx Hgne Hgs Hnd Hrng. cbv zeta.
    set (n := ndim G R (fbase G R x)) in *. set (perm := fuse_perm n groups).
    set (xt := f_transpose G R x perm true).
    assert (Hlt : forall i, In i (concat groups) -> i < n) by (rewrite Forall_forall in Hrng; exact Hrng).
    assert (Hcne : concat groups <> []).
    { destruct groups as [|g gs]; [congruence|]. inversion Hgs; subst. cbn [concat]. intros E.
      apply app_eq_nil in E. tauto. }
    assert (Hperm : Permutation perm (seq 0 n)) by (apply fuse_perm_perm; assumption).
    assert (Hxt : wf_fermi G R xt = true) by (apply (f_transpose_wf G HG); assumption).
    set (ixs := indices G R (fbase G R xt)).
    assert (Hnix : length ixs = n).
    { unfold ixs, xt, f_transpose, a_transpose. cbn [fbase indices]. unfold permuted.
      rewrite map_length, (Permutation_length Hperm). apply seq_length. }
    set (pos := fuse_position groups). set (ks := map (@length nat) groups).
    assert (Hpos : length (axes_before n groups) = pos).
    { unfold pos. rewrite <- (length_before_pos G R (fbase G R x) groups). reflexivity. }
    assert (Eg' : map (map (fun ax => index_of ax perm)) groups = wins pos ks).
    { unfold ks. apply map_map_wins. unfold perm, fuse_perm. rewrite index_of_mid; [now rewrite Hpos|].
      apply gperm_NoDup; assumption. }
    assert (Hks : Forall (fun k => 1 <= k) ks).
    { unfold ks. apply Forall_forall. intros k Hk. apply in_map_iff in Hk. destruct Hk as (g & <- & Hg).
      rewrite Forall_forall in Hgs. specialize (Hgs g Hg). destruct g; [congruence|cbn [length]; lia]. }
    assert (Hksne : ks <> []) by (unfold ks; destruct groups; [congruence|discriminate]).
    assert (Hle : pos + nsum ks <= n).
    { pose proof (gperm_length n groups Hnd Hrng) as HL. unfold fuse_perm in HL.
      rewrite !app_length, Hpos, length_concat_nsum in HL. fold ks in HL. lia. }
    set (W := wins pos ks) in *.
    assert (HWne : Forall (fun g => g <> []) W) by (apply Forall_forall; intros g Hg; apply (wins_nonempty pos ks Hks g Hg)).
    assert (HWcat : concat W = seq pos (nsum ks)) by apply concat_wins.
    (* f_fuse written out *)
    pose proof (f_fuse_unfold x groups) as EFF. fold n perm in EFF. rewrite Eg' in EFF.
    set (x3 := fuse_x3 x groups) in *. set (X4 := f_value G R x3) in *.
    set (V := f_value G R xt).
    assert (Hwxt : wf_array G R (fbase G R xt) = true) by (apply (WFF_base_wf G HG), Hxt).
    assert (HndV : NoDup (fsectors G R xt)) by (apply (wf_sectors_nodup G R HG), Hwxt).
    pose proof (value_x3 x groups HndV) as EX4. fold n perm xt ixs in EX4. rewrite Eg' in EX4.
    fold W x3 X4 V in EX4.
    set (dualg := filter (dualp G ixs) W) in *.
    set (cF := fun s : sector => xorb (count_odd G s (flat_map (fun g => filter (ndl G ixs) g) dualg))
                                     (if is_nil dualg then false else perm_minus G s (Some (fuse_vperm dualg n)))) in *.
    assert (Hwx3 : wf_fermi G R x3 = true).
    { apply wf_x3. exact Hxt. }
    assert (HwX4 : wf_array G R X4 = true).
    { unfold X4. change (f_value G R x3) with (fbase G R (f_phase_sync G R x3)).
      apply (WFF_base_wf G HG), (f_phase_sync_wf G HG), Hwx3. }
    assert (HwV : wf_array G R V = true).
    { unfold V. change (f_value G R xt) with (fbase G R (f_phase_sync G R xt)).
      apply (WFF_base_wf G HG), (f_phase_sync_wf G HG), Hxt. }
    assert (EixX4 : indices G R X4 = ixs).
    { unfold X4. change (indices G R (f_value G R x3)) with (indices G R (fbase G R x3)).
      unfold x3. now rewrite fbase_x3. }
    assert (HqX4 : charge G R X4 = charge G R (fbase G R x)).
    { unfold X4. change (charge G R (f_value G R x3)) with (charge G R (fbase G R x3)).
      unfold x3. now rewrite fbase_x3. }
    (* the abelian round trip of the signed value *)
    destruct (unfuse_fuse_groups_thm G R HG OL X4 W HwX4 HWne) as (Yf & HU & HYix & HYq & HYown & HYextra & _).
    { rewrite HWcat. apply seq_NoDup. }
    { rewrite HWcat, EixX4, Hnix. apply Forall_forall. intros ax Hax. apply in_seq in Hax. lia. }
    pose proof (wins_perm_id n pos ks Hks Hksne Hle) as Epid. fold W in Epid.
    pose proof (wins_position n pos ks Hks Hksne Hle) as Epos. fold W in Epos.
    rewrite EixX4, Hnix, Epid in HYix, HYown, HYextra.
    rewrite Epos in HU.
    rewrite (permuted_seq_id dflt ixs n Hnix) in HYix.
    (* the fermionic chain on top of it *)
    set (PRE := map (fun ax => nth ax ixs dflt) (axes_before n W)).
    set (FIX := fused_index G ixs (sectors G R X4)).
    assert (HPRE : length PRE = pos).
    { unfold PRE, W. rewrite map_length, (wins_before n pos ks Hks Hksne Hle). apply seq_length. }
    set (Y := fuse_core G R X4 W) in *.
    set (FF := mkF G R Y [] (foddpos G R x)) in *.
    assert (HwY : wf_array G R Y = true).
    { apply (fuse_groups_wf G HG OL R X4 W HwX4 HWne).
      - rewrite HWcat. apply seq_NoDup.
      - unfold ndim. rewrite HWcat, EixX4, Hnix. apply Forall_forall. intros ax Hax. apply in_seq in Hax. lia. }
    pose proof (chain G R HG rneg_invol rneg_zero ixs pos PRE FIX HPRE W Y FF (fun _ => false) (fun _ => false)) as HC.
    assert (HC' : rel_opt (fun Yf FYf =>
               wf_array G R Yf = true /\ foddpos G R FYf = foddpos G R FF /\
               f_value G R FYf =
               a_signmap G R (fun K => xorb (Hs G (map (ds_of G ixs) W) (skipn pos K)) false) Yf)
              (fold_right (unfuse_step G R pos) (Some Y) (enumerate W))
              (fold_right (f_unfuse_step G R pos) (Some FF) (enumerate W))).
    { apply HC.
      - intros g Hg. split; [apply (wins_nonempty pos ks Hks g Hg)|]. intros Es.
        exists (extF G (SI G ixs (sectors G R X4) g)). split.
        + unfold FIX. apply (fused_isub G ixs (sectors G R X4) g Es).
        + unfold FIX. apply stmt_A4.
      - exact HwY.
      - unfold FF. rewrite (value_no_phases G R). symmetry. apply a_signmap_false. reflexivity.
      - reflexivity.
      - unfold Y. cbn [fuse_core indices]. rewrite EixX4. unfold fused_indices. rewrite Hnix. fold PRE. fold FIX.
        rewrite app_assoc, firstn_app, firstn_all2 by (rewrite app_length, map_length; lia).
        rewrite app_length, map_length, HPRE, Nat.sub_diag. cbn [firstn]. apply app_nil_r. }
    clear HC. change (fold_right (unfuse_step G R pos) (Some Y) (enumerate W)) with (unfuse_groups G R Y pos W) in HC'.
    rewrite HU in HC'.
    change (fold_right (f_unfuse_step G R pos) (Some FF) (enumerate W)) with (f_unfuse_groups G R FF pos W) in HC'.
    assert (EFG : f_unfuse_groups G R (f_fuse G R x groups) pos groups = f_unfuse_groups G R FF pos W).
    { rewrite EFF. generalize FF. intros FF0. rewrite <- Eg'. symmetry. apply f_unfuse_groups_map. }
    rewrite EFG. destruct (f_unfuse_groups G R FF pos W) as [FYf|]; [|destruct HC'].
    cbn [rel_opt] in HC'. destruct HC' as (HwYf & Hodd & HVf).
    set (cfin := fun K : sector => xorb (Hs G (map (ds_of G ixs) W) (skipn pos K)) false) in *.
    (* the two signs agree on sectors of the right length *)
    assert (Hsign : forall s, length s = n -> cfin s = cF s).
    { intros s Hs. unfold cfin, cF, dualg, W. rewrite xorb_false_r. symmetry.
      apply (fuse_sign G ixs s pos ks n Hks Hle Hs). }
    assert (HlenV : forall s b, In (s, b) (blocks G R V) -> length s = n).
    { intros s b Hin. rewrite <- Hnix. unfold ixs.
      change (indices G R (fbase G R xt)) with (indices G R V).
      apply (wf_sector_len G R HG V s HwV). unfold sectors. apply (in_map fst) in Hin. exact Hin. }
    assert (HinX4 : forall s b, In (s, b) (blocks G R V) -> In (s, sgn (cF s) b) (blocks G R X4)).
    { intros s b Hin. rewrite EX4, a_signmap_blocks. apply (in_map (smap G R cF)) in Hin. exact Hin. }
    assert (Hid : forall s T, In (s, T) (blocks G R X4) ->
              permuted (ident G) s (seq 0 n) = s /\ ttranspose R T (seq 0 n) = T).
    { intros s T Hin. pose proof HwX4 as HwP. apply (wf_array_iff G HG) in HwP. destruct HwP as [_ _ _ H4].
      destruct (H4 _ _ Hin) as ((HL & _) & Hsh & Hd). rewrite EixX4, Hnix in HL. split.
      - now apply permuted_seq_id.
      - apply ttranspose_id; [|exact Hd]. rewrite Hsh, EixX4. rewrite (Tdot.length_block_shape G) by lia. exact Hnix. }
    assert (Hown : forall s b, In (s, b) (blocks G R V) -> lookup keq s (blocks G R (f_value G R FYf)) = Some b).
    { intros s b Hin. pose proof (HinX4 s b Hin) as Hin4. pose proof (HYown _ _ Hin4) as Hlk.
      destruct (Hid _ _ Hin4) as [E1 E2]. rewrite E1, E2 in Hlk.
      rewrite HVf, a_signmap_blocks, lookup_smap, Hlk. cbn [option_map].
      rewrite (Hsign s (HlenV s b Hin)). now rewrite sgn_cancel. }
    assert (Hextra : forall k t, In (k, t) (blocks G R (f_value G R FYf)) ->
               In (k, t) (blocks G R V) \/ Forall (fun e => e = r0 R) (tdata t)).
    { intros k t Hin. rewrite HVf, a_signmap_blocks in Hin. apply in_map_iff in Hin.
      destruct Hin as ([k0 t0] & E & Hin0). unfold smap in E. cbn [fst snd] in E. inversion E; subst k t. clear E.
      destruct (HYextra _ _ Hin0) as [(s & b0 & Hin4 & Ek & Et)|Hz]; [|right; now apply sgn_zero].
      left. destruct (Hid _ _ Hin4) as [E1 E2]. rewrite E1 in Ek. rewrite E2 in Et. subst k0 t0.
      rewrite EX4, a_signmap_blocks in Hin4. apply in_map_iff in Hin4.
      destruct Hin4 as ([s1 b1] & E & Hin1). unfold smap in E. cbn [fst snd] in E. inversion E; subst s b0. clear E.
      rewrite (Hsign s1 (HlenV s1 b1 Hin1)). now rewrite sgn_cancel. }
    exists FYf. split; [reflexivity|]. split; [exact Hodd|]. split; [|split; [|split; [exact Hown|split; [exact Hextra|]]]].
    - change (indices G R (fbase G R FYf)) with (indices G R (f_value G R FYf)). rewrite HVf.
      change (indices G R (a_signmap G R cfin Yf)) with (indices G R Yf). exact HYix.
    - change (charge G R (fbase G R FYf)) with (charge G R (f_value G R FYf)). rewrite HVf.
      change (charge G R (a_signmap G R cfin Yf)) with (charge G R Yf). now rewrite HYq.
    - intros cs. unfold sem. fold V.
      destruct (lookup keq (map fst cs) (blocks G R V)) as [b|] eqn:EV.
      + apply (Tdot.lookup_In keq (keq_eq G HG)) in EV. now rewrite (Hown _ _ EV).
      + destruct (lookup keq (map fst cs) (blocks G R (f_value G R FYf))) as [t|] eqn:EW; [|reflexivity].
        apply (Tdot.lookup_In keq (keq_eq G HG)) in EW. destruct (Hextra _ _ EW) as [Hin|Hz].
        * apply (Tdot.lookup_nodup_In keq (keq_eq G HG)) in Hin; [congruence|].
          apply (wf_sectors_nodup G R HG V HwV).
        * unfold get. destruct (nth_in_or_default (offset (tshape t) (map snd cs)) (tdata t) (r0 R)) as [Hi|Hd]; [|exact Hd].
          rewrite Forall_forall in Hz. apply Hz, Hi.
  Qed.
  (* ---- the round-tripped array is a valid fermionic array (C01) ---- *)
  Lemma f_unfuse_fold_wf pos : forall (E : list (nat * list nat)) (y0 y : farr),
    wf_fermi G R y0 = true -> fold_right (f_unfuse_step G R pos) (Some y0) E = Some y -> wf_fermi G R y = true.
  Proof.
    induction E as [|p E IH]; intros y0 y Hw H; cbn [fold_right] in H.
    - inversion H. now subst.
    - destruct (fold_right (f_unfuse_step G R pos) (Some y0) E) as [z|] eqn:Ez; [|discriminate H].
      pose proof (IH y0 z Hw Ez) as Hz. unfold f_unfuse_step in H.
      destruct (is_singlet (snd p)); [inversion H; now subst|].
      apply (f_unfuse_wf G HG R z y _ Hz H).
  Qed.

  Theorem fermi_roundtrip_wf (x : farr) (groups : list (list nat)) y :
    wf_fermi G R x = true -> groups <> [] ->
    Forall (fun g => g <> []) groups -> NoDup (concat groups) ->
    Forall (fun ax => ax < ndim G R (fbase G R x)) (concat groups) ->
    f_unfuse_groups G R (f_fuse G R x groups) (fuse_position groups) groups = Some y ->
    wf_fermi G R y = true.
  Proof.
    intros Hx Hgne Hgs Hnd Hrng Hy. apply (f_unfuse_fold_wf _ _ _ _ (f_fuse_all_wf G HG R OL x groups Hx
      (conj Hnd (conj (proj1 (Forall_forall _ _) Hrng) (conj Hgne (proj1 (Forall_forall _ _) Hgs))))) Hy).
  Qed.

  (* ---- one group of >= 2 axes: a single f_unfuse ---- *)
  Theorem fermi_roundtrip_single (x : farr) (g : list nat) :
    wf_fermi G R x = true -> NoDup g -> Forall (fun ax => ax < ndim G R (fbase G R x)) g -> 2 <= length g ->
    let xt := f_transpose G R x (fuse_perm (ndim G R (fbase G R x)) [g]) true in
    exists y,
      f_unfuse G R (f_fuse G R x [g]) (fuse_position [g]) = Some y /\
      wf_fermi G R y = true /\
      foddpos G R y = foddpos G R x /\
      indices G R (fbase G R y) = indices G R (fbase G R xt) /\
      charge G R (fbase G R y) = charge G R (fbase G R x) /\
      (forall s b, In (s, b) (blocks G R (f_value G R xt)) ->
         lookup keq s (blocks G R (f_value G R y)) = Some b) /\
      (forall k t, In (k, t) (blocks G R (f_value G R y)) ->
         In (k, t) (blocks G R (f_value G R xt)) \/ Forall (fun e => e = r0 R) (tdata t)) /\
      (forall cs, sem G R (f_value G R y) cs = sem G R (f_value G R xt) cs).
  Proof.
    intros Hx Hnd Hrng Hlen. cbv zeta.
    assert (Hne : g <> []) by (intros ->; cbn [length] in Hlen; lia).
    assert (H1 : [g] <> []) by discriminate.
    assert (H2 : Forall (fun g0 : list nat => g0 <> []) [g]) by (constructor; [exact Hne|constructor]).
    assert (H3 : NoDup (concat [g])) by (cbn [concat]; now rewrite app_nil_r).
    assert (H4 : Forall (fun ax => ax < ndim G R (fbase G R x)) (concat [g])) by (cbn [concat]; now rewrite app_nil_r).
    destruct (fermi_roundtrip_groups x [g] Hx H1 H2 H3 H4) as (y & Hy & Rest).
    pose proof (fermi_roundtrip_wf x [g] y Hx H1 H2 H3 H4 Hy) as Hwy.
    exists y. split; [|split; [exact Hwy|exact Rest]].
    unfold f_unfuse_groups in Hy. cbn [enumerate length seq List.combine fold_right f_unfuse_step fst snd] in Hy.
    assert (Es : is_singlet g = false) by (unfold is_singlet; apply Nat.eqb_neq; lia).
    rewrite Es, Nat.add_0_r in Hy. exact Hy.
  Qed.

  (* ---- a single-axis group only moves its axis: nothing to unfuse ---- *)
  Theorem fermi_fuse_single_axis (x : farr) (a : nat) :
    wf_fermi G R x = true -> a < ndim G R (fbase G R x) ->
    let xt := f_transpose G R x (fuse_perm (ndim G R (fbase G R x)) [[a]]) true in
    let y := f_fuse G R x [[a]] in
    foddpos G R y = foddpos G R x /\
    indices G R (fbase G R y) = indices G R (fbase G R xt) /\
    charge G R (fbase G R y) = charge G R (fbase G R x) /\
    (forall s b, In (s, b) (blocks G R (f_value G R xt)) ->
       lookup keq s (blocks G R (f_value G R y)) = Some b) /\
    (forall k t, In (k, t) (blocks G R (f_value G R y)) ->
       In (k, t) (blocks G R (f_value G R xt)) \/ Forall (fun e => e = r0 R) (tdata t)) /\
    (forall cs, sem G R (f_value G R y) cs = sem G R (f_value G R xt) cs).
  Proof.
    intros Hx Ha. cbv zeta.
    assert (H1 : [[a]] <> []) by discriminate.
    assert (H2 : Forall (fun g0 : list nat => g0 <> []) [[a]]) by (constructor; [discriminate|constructor]).
    assert (H3 : NoDup (concat [[a]])) by (cbn [concat app]; constructor; [intros []|constructor]).
    assert (H4 : Forall (fun ax => ax < ndim G R (fbase G R x)) (concat [[a]])) by (cbn [concat app]; constructor; [exact Ha|constructor]).
    destruct (fermi_roundtrip_groups x [[a]] Hx H1 H2 H3 H4) as (y & Hy & Rest).
    unfold f_unfuse_groups in Hy. cbn [enumerate length seq List.combine fold_right f_unfuse_step fst snd is_singlet Nat.eqb] in Hy.
    inversion Hy; subst y. exact Rest.
  Qed.
End Roundtrip.

(* the ring laws used hold for the two exact rings of the correspondence *)
Definition fermi_roundtrip_groups_ZRing G (HG : GroupLaws G) (OL : OrderLaws G) :=
  fermi_roundtrip_groups G ZRing HG OL ZRing_rneg_invol ZRing_rneg_zero.
Definition fermi_roundtrip_groups_GRing G (HG : GroupLaws G) (OL : OrderLaws G) :=
  fermi_roundtrip_groups G GRing HG OL GRing_rneg_invol GRing_rneg_zero.

(* with no single-axis group the iteration is the plain fold of f_unfuse over the
   fused positions, last position first *)
Lemma f_unfuse_groups_axes_go (G : Symmetry) (R : Ring) (y : farray G R) pos (gs : list (list nat)) :
  Forall (fun g => is_singlet g = false) gs -> forall lo,
  fold_right (f_unfuse_step G R pos) (Some y) (List.combine (seq lo (length gs)) gs) =
  fold_right (fun ax acc => match acc with Some z => f_unfuse G R z ax | None => None end)
             (Some y) (seq (pos + lo) (length gs)).
Proof.
  induction 1 as [|g gs Hg _ IH]; intros lo; [reflexivity|].
  cbn [length seq List.combine fold_right]. rewrite IH.
  replace (S (pos + lo)) with (pos + S lo) by lia.
  unfold f_unfuse_step at 1. cbn [fst snd]. rewrite Hg. reflexivity.
Qed.

Lemma f_unfuse_groups_axes (G : Symmetry) (R : Ring) (y : farray G R) pos (gs : list (list nat)) :
  Forall (fun g => is_singlet g = false) gs ->
  f_unfuse_groups G R y pos gs =
  fold_right (fun ax acc => match acc with Some z => f_unfuse G R z ax | None => None end)
             (Some y) (seq pos (length gs)).
Proof.
  intros Hs. unfold f_unfuse_groups, enumerate. rewrite (f_unfuse_groups_axes_go G R y pos gs Hs 0).
  now rewrite Nat.add_0_r.
Qed.

(* ================================================================ part F *)
(* The hypotheses hold, and the round trip really returns the transposed
   original, on a concrete instance: Z2, rank 4, odd total charge (one
   odd-position label), directions (ket, bra, bra, ket), four of the eight
   charge-conserving sectors stored (so that unfusing creates a block that the
   original does not store), two pending signs. *)
Module FRTEx.
  Definition fill (sh : list nat) (seed : Z) : tensor ZRing :=
    build ZRing sh (fun idx => (seed + Z.of_nat (offset sh idx) + 1)%Z).
  Definition mkarr (ixs : list (index Z2)) (ch : Z) (secs : list (list Z)) (seed : Z) : aarray Z2 ZRing :=
    mkA Z2 ZRing ixs ch
      (map (fun p => (snd p, fill (block_shape Z2 ixs (snd p)) (seed + 10 * Z.of_nat (fst p)))) (enumerate secs)).

  Definition ixs4 : list (index Z2) :=
    [Index Z2 [(0%Z, 1); (1%Z, 1)] false None; Index Z2 [(0%Z, 1); (1%Z, 2)] true None;
     Index Z2 [(0%Z, 2); (1%Z, 1)] true None;  Index Z2 [(0%Z, 1); (1%Z, 2)] false None].
  Definition ex : farray Z2 ZRing :=
    mkF Z2 ZRing (mkarr ixs4 1%Z [[0; 0; 0; 1]; [0; 1; 0; 0]; [1; 0; 1; 1]; [1; 1; 0; 1]]%Z 3)
        [[0; 1; 0; 0]%Z; [1; 0; 1; 1]%Z] [([5%Z], false)].

  (* v is restored by w: same tables and charge, every block of v is in w with the
     same entries, every other block of w is all zero *)
  Definition restoresb (v w : aarray Z2 ZRing) : bool :=
    list_eqb (index_eqb Z2) (indices Z2 ZRing v) (indices Z2 ZRing w) &&
    Z.eqb (charge Z2 ZRing v) (charge Z2 ZRing w) &&
    blocks_sub Z2 ZRing (blocks Z2 ZRing v) (blocks Z2 ZRing w) &&
    forallb (fun p => match lookup (list_eqb Z.eqb) (fst p) (blocks Z2 ZRing v) with
                      | Some t => tensor_eqb ZRing t (snd p)
                      | None => forallb (Z.eqb 0) (tdata (snd p))
                      end) (blocks Z2 ZRing w).

  Definition roundtrip_ok (x : farray Z2 ZRing) (groups : list (list nat)) : bool :=
    let xt := f_transpose Z2 ZRing x (fuse_perm (ndim Z2 ZRing (fbase Z2 ZRing x)) groups) true in
    match f_unfuse_groups Z2 ZRing (f_fuse Z2 ZRing x groups) (fuse_position groups) groups with
    | Some y => restoresb (f_value Z2 ZRing xt) (f_value Z2 ZRing y) &&
                list_eqb fop_eqb (foddpos Z2 ZRing y) (foddpos Z2 ZRing x)
    | None => false
    end.

  (* --- one dual-leading group with mixed directions, axes not adjacent and not in order --- *)
  Example single_group_hyps :
    wf_fermi Z2 ZRing ex = true /\ NoDup [2; 0]%nat /\
    Forall (fun ax => (ax < ndim Z2 ZRing (fbase Z2 ZRing ex))%nat) [2; 0]%nat /\ (2 <= length [2; 0]%nat)%nat.
  Proof.
    split; [vm_compute; reflexivity|]. split; [repeat constructor; cbn; intuition lia|].
    split; [repeat constructor|cbn; lia].
  Qed.

  Example single_group_inst :
    exists y, f_unfuse Z2 ZRing (f_fuse Z2 ZRing ex [[2; 0]%nat]) (fuse_position [[2; 0]%nat]) = Some y /\
              wf_fermi Z2 ZRing y = true /\
              forall cs, sem Z2 ZRing (f_value Z2 ZRing y) cs
                         = sem Z2 ZRing (f_value Z2 ZRing (f_transpose Z2 ZRing ex [2; 0; 1; 3]%nat true)) cs.
  Proof.
    destruct single_group_hyps as (H1 & H2 & H3 & H4).
    destruct (fermi_roundtrip_single Z2 ZRing Z2_laws Z2_order ZRing_rneg_invol ZRing_rneg_zero ex [2; 0]%nat H1 H2 H3 H4)
      as (y & Hy & Hw & _ & _ & _ & _ & _ & Hsem).
    exists y. split; [exact Hy|]. split; [exact Hw|exact Hsem].
  Qed.

  (* by computation: the group is dual-leading with a non-dual member, the fermionic
     fuse differs from the abelian fuse of the transposed value (the signs matter),
     unfusing returns the transposed original plus one all-zero block *)
  Example single_group_computed :
    fuse_perm 4 [[2; 0]%nat] = [2; 0; 1; 3]%nat /\
    roundtrip_ok ex [[2; 0]%nat] = true /\
    (let xt := f_transpose Z2 ZRing ex [2; 0; 1; 3]%nat true in
     aarray_eqb Z2 ZRing (f_value Z2 ZRing (f_fuse Z2 ZRing ex [[2; 0]%nat]))
                (fuse_core Z2 ZRing (f_value Z2 ZRing xt) [[0; 1]%nat]) = false /\
     match f_unfuse Z2 ZRing (f_fuse Z2 ZRing ex [[2; 0]%nat]) 0 with
     | Some y => (length (blocks Z2 ZRing (fbase Z2 ZRing y)), length (blocks Z2 ZRing (fbase Z2 ZRing xt)),
                  negb (is_nil (fphases Z2 ZRing y)))
     | None => (0, 0, false)%nat
     end = (5, 4, true)%nat).
  Proof. vm_compute. repeat split; reflexivity. Qed.

  (* --- several groups: two dual-leading mixed groups in one call; a group, a
         single-axis group and an untouched axis; three groups in scrambled order --- *)
  Example groups_hyps :
    wf_fermi Z2 ZRing ex = true /\ [[1; 3]; [2; 0]]%nat <> [] /\
    Forall (fun g : list nat => g <> []) [[1; 3]; [2; 0]]%nat /\ NoDup (concat [[1; 3]; [2; 0]]%nat) /\
    Forall (fun ax => (ax < ndim Z2 ZRing (fbase Z2 ZRing ex))%nat) (concat [[1; 3]; [2; 0]]%nat).
  Proof.
    split; [vm_compute; reflexivity|]. split; [discriminate|]. split; [repeat constructor; discriminate|].
    split; [cbn [concat app]; repeat constructor; cbn; intuition lia|cbn [concat app]; repeat constructor].
  Qed.

  Example groups_inst :
    exists y, f_unfuse_groups Z2 ZRing (f_fuse Z2 ZRing ex [[1; 3]; [2; 0]]%nat) 0 [[1; 3]; [2; 0]]%nat = Some y /\
              forall cs, sem Z2 ZRing (f_value Z2 ZRing y) cs
                         = sem Z2 ZRing (f_value Z2 ZRing (f_transpose Z2 ZRing ex [1; 3; 2; 0]%nat true)) cs.
  Proof.
    destruct groups_hyps as (H1 & H2 & H3 & H4 & H5).
    destruct (fermi_roundtrip_groups_ZRing Z2 Z2_laws Z2_order ex [[1; 3]; [2; 0]]%nat H1 H2 H3 H4 H5)
      as (y & Hy & _ & _ & _ & _ & _ & Hsem).
    exists y. split; [exact Hy|exact Hsem].
  Qed.

  Example groups_computed :
    roundtrip_ok ex [[1; 3]; [2; 0]]%nat = true /\
    roundtrip_ok ex [[2; 0]; [3]]%nat = true /\
    roundtrip_ok ex [[3]; [0; 2]; [1]]%nat = true /\
    roundtrip_ok ex [[3; 2; 1]]%nat = true /\
    roundtrip_ok ex [[1]]%nat = true /\
    match f_unfuse_groups Z2 ZRing (f_fuse Z2 ZRing ex [[1; 3]; [2; 0]]%nat) 0 [[1; 3]; [2; 0]]%nat with
    | Some y => length (blocks Z2 ZRing (fbase Z2 ZRing y))
    | None => 0%nat
    end = 5%nat.
  Proof. vm_compute. repeat split; reflexivity. Qed.

  (* the sign functions of part A on this instance: the window (bra, ket) of the
     group [2; 0] after the transpose, sector (1, 1, 0, 1): one odd non-dual
     position (flip) and two odd charges (reversal) *)
  Example gsw_computed :
    gsw Z2 [true; false] [1; 1; 0; 1]%Z = false /\ gsw Z2 [true; false] [0; 1; 0; 0]%Z = true /\
    gsw Z2 [true; false] [1; 0; 1; 1]%Z = false /\ gsg Z2 [false; true] [1; 1; 0; 1]%Z = false.
  Proof. vm_compute. repeat split; reflexivity. Qed.
End FRTEx.
