(* Proofs/FuseGroups.v -- property C05, several groups at once: the layout of
   fuse_core x groups for an arbitrary list of pairwise disjoint non-empty groups
   of distinct in-range axes (singlet groups included, any order), the validity
   of the fused array, and the round trip through the iterated unfuse.

   Organisation: every position of the fused array is a "slot" = a list of
   source axes: [ax] for an untouched axis before / after the fused block, the
   group itself for a fused position.  An untouched axis behaves exactly like a
   singlet group, so all tables of fuse_core are maps over the slot list and
   fuse_perm is its concatenation. *)
From SV Require Import Base.Prelude Base.Sym Base.Tensor Model.Sectors Model.Array Model.Wf
  Model.SymInst Proofs.TensorProofs Proofs.SymLaws Proofs.OrderProofs Proofs.FuseTensor Proofs.FuseProofs.
From Coq Require Import Permutation Sorting Lia.
Local Open Scope nat_scope.

(* ------------------------------------------------------------------ *)
(* Part 0: lists, offsets of concatenated multi-indices *)

Definition zipw {A B C} (f : A -> B -> C) (l1 : list A) (l2 : list B) : list C :=
  map (fun p => f (fst p) (snd p)) (List.combine l1 l2).

Lemma zipw_cons {A B C} (f : A -> B -> C) a l1 b l2 : zipw f (a :: l1) (b :: l2) = f a b :: zipw f l1 l2.
Proof. reflexivity. Qed.

Lemma zipw_app {A B C} (f : A -> B -> C) l1 l2 m1 m2 : length l1 = length m1 ->
  zipw f (l1 ++ l2) (m1 ++ m2) = zipw f l1 m1 ++ zipw f l2 m2.
Proof. intros H. unfold zipw. rewrite combine_app by exact H. apply map_app. Qed.

Lemma zipw_length {A B C} (f : A -> B -> C) l1 l2 : length l1 = length l2 -> length (zipw f l1 l2) = length l1.
Proof. intros H. unfold zipw. rewrite map_length, combine_length. lia. Qed.

Lemma zipw_map_l {A A' B C} (f : A' -> B -> C) (h : A -> A') l1 l2 :
  zipw f (map h l1) l2 = zipw (fun a b => f (h a) b) l1 l2.
Proof.
  revert l2. induction l1 as [|a l1 IH]; intros [|b l2]; try reflexivity.
  cbn [map]. rewrite !zipw_cons. now rewrite IH.
Qed.

Lemma zipw_ext {A B C} (f f' : A -> B -> C) l1 l2 :
  (forall a b, In a l1 -> In b l2 -> f a b = f' a b) -> zipw f l1 l2 = zipw f' l1 l2.
Proof.
  revert l2. induction l1 as [|a l1 IH]; intros [|b l2] H; try reflexivity.
  rewrite !zipw_cons. rewrite H by (now left). f_equal. apply IH. intros a' b' Ha Hb. apply H; now right.
Qed.

Lemma Forall2_length' {A B} (P : A -> B -> Prop) l1 l2 : Forall2 P l1 l2 -> length l1 = length l2.
Proof. induction 1; cbn [length]; congruence. Qed.

Lemma Forall2_app_inv_l' {A B} (P : A -> B -> Prop) l1 l2 m :
  Forall2 P (l1 ++ l2) m -> exists m1 m2, m = m1 ++ m2 /\ Forall2 P l1 m1 /\ Forall2 P l2 m2.
Proof.
  revert m. induction l1 as [|a l1 IH]; intros m H.
  - exists [], m. repeat split; [constructor|exact H].
  - cbn [app] in H. inversion H as [|? b ? m' Hab Hrest]; subst.
    destruct (IH _ Hrest) as (m1 & m2 & -> & H1 & H2).
    exists (b :: m1), m2. repeat split; [constructor; assumption|exact H2].
Qed.

Lemma Forall2_app' {A B} (P : A -> B -> Prop) l1 l2 m1 m2 :
  Forall2 P l1 m1 -> Forall2 P l2 m2 -> Forall2 P (l1 ++ l2) (m1 ++ m2).
Proof. induction 1; intros H2; cbn [app]; [exact H2|constructor; auto]. Qed.

Lemma concat_singletons {A} (l : list A) : concat (map (fun a => [a]) l) = l.
Proof. induction l as [|a l IH]; [reflexivity|]. cbn [map concat app]. now rewrite IH. Qed.

Lemma shape_size_concat SHS : shape_size (concat SHS) = shape_size (map shape_size SHS).
Proof.
  induction SHS as [|sh SHS IH]; [reflexivity|]. cbn [concat map]. rewrite shape_size_app, IH. reflexivity.
Qed.

Lemma offset_app sh1 : forall i1 sh2 i2, length i1 = length sh1 ->
  offset (sh1 ++ sh2) (i1 ++ i2) = offset sh1 i1 * shape_size sh2 + offset sh2 i2.
Proof.
  induction sh1 as [|d sh1 IH]; intros [|i i1] sh2 i2 Hl; cbn [length] in Hl; try discriminate.
  - reflexivity.
  - cbn [app offset]. rewrite IH by lia. rewrite shape_size_app.
    generalize (shape_size sh1) (shape_size sh2) (offset sh1 i1) (offset sh2 i2). intros. nia.
Qed.

Lemma inb_app_iff sh1 : forall i1 sh2 i2, length i1 = length sh1 ->
  inb (sh1 ++ sh2) (i1 ++ i2) = inb sh1 i1 && inb sh2 i2.
Proof.
  induction sh1 as [|d sh1 IH]; intros [|i i1] sh2 i2 Hl; cbn [length] in Hl; try discriminate.
  - reflexivity.
  - cbn [app inb]. rewrite IH by lia. now rewrite andb_assoc.
Qed.

Lemma inb_split sh1 sh2 idx : inb (sh1 ++ sh2) idx = true ->
  exists i1 i2, idx = i1 ++ i2 /\ inb sh1 i1 = true /\ inb sh2 i2 = true.
Proof.
  intros H. pose proof (inb_length _ _ H) as Hl. rewrite app_length in Hl.
  exists (firstn (length sh1) idx), (skipn (length sh1) idx).
  split; [symmetry; apply firstn_skipn|].
  rewrite <- (firstn_skipn (length sh1) idx) in H.
  rewrite inb_app_iff in H by (rewrite firstn_length; lia). now apply andb_true_iff in H.
Qed.

Lemma offset_concat SHS US : Forall2 (fun sh u => length u = length sh) SHS US ->
  offset (concat SHS) (concat US) = offset (map shape_size SHS) (zipw offset SHS US).
Proof.
  induction 1 as [|sh u SHS US Hl _ IH]; [reflexivity|].
  cbn [concat map]. rewrite zipw_cons. rewrite offset_app by exact Hl. cbn [offset].
  now rewrite IH, shape_size_concat.
Qed.

Lemma inb_concat SHS US : Forall2 (fun sh u => inb sh u = true) SHS US ->
  inb (concat SHS) (concat US) = true /\ inb (map shape_size SHS) (zipw offset SHS US) = true.
Proof.
  induction 1 as [|sh u SHS US Hin _ [IH1 IH2]]; [split; reflexivity|].
  cbn [concat map]. rewrite zipw_cons. split.
  - rewrite inb_app_iff by (now apply inb_length). now rewrite Hin, IH1.
  - cbn [inb]. rewrite IH2. apply andb_true_iff. split; [|reflexivity].
    apply Nat.ltb_lt. now apply offset_lt.
Qed.

Definition unravel (sh : list nat) (o : nat) : list nat := nth o (all_idx sh) [].

Lemma unravel_spec sh o : o < shape_size sh -> inb sh (unravel sh o) = true /\ offset sh (unravel sh o) = o.
Proof.
  intros Ho. unfold unravel. split.
  - apply in_all_idx_inb. apply nth_In. now rewrite length_all_idx.
  - rewrite <- (map_nth (offset sh)).
    rewrite (nth_indep _ _ 0) by (now rewrite map_length, length_all_idx).
    rewrite map_offset_all_idx. now rewrite seq_nth.
Qed.

Lemma offset_inj sh i j : inb sh i = true -> inb sh j = true -> offset sh i = offset sh j -> i = j.
Proof.
  intros Hi Hj H. rewrite <- (nth_all_idx sh i Hi), <- (nth_all_idx sh j Hj). now rewrite H.
Qed.

Lemma all_zero_of_get (R : Ring) (t : tensor R) :
  length (tdata t) = shape_size (tshape t) ->
  (forall idx, inb (tshape t) idx = true -> get R t idx = r0 R) ->
  Forall (fun v => v = r0 R) (tdata t).
Proof.
  intros Hl Hz. rewrite <- (build_get_id R t Hl).
  unfold build. cbn [tdata]. apply Forall_forall. intros v Hv. apply in_map_iff in Hv.
  destruct Hv as (idx & <- & Hin). apply Hz. now apply in_all_idx_inb.
Qed.

Lemma map_combine_seq_nth {A B} (F : nat * A -> B) (F' : A -> B) (L : list A) (d : A) : forall lo,
  (forall k, k < length L -> F (lo + k, nth k L d) = F' (nth k L d)) ->
  map F (List.combine (seq lo (length L)) L) = map F' L.
Proof.
  induction L as [|a L IH]; intros lo H; [reflexivity|].
  cbn [length seq List.combine map]. f_equal.
  - specialize (H 0). cbn [nth length] in H. rewrite Nat.add_0_r in H. apply H. lia.
  - apply IH. intros k Hk. specialize (H (S k)). cbn [nth length] in H.
    replace (S lo + k) with (lo + S k) by lia. apply H. lia.
Qed.

Lemma map_enumerate_nth {A B} (F : nat * A -> B) (F' : A -> B) (L : list A) (d : A) :
  (forall k, k < length L -> F (k, nth k L d) = F' (nth k L d)) -> map F (enumerate L) = map F' L.
Proof. intros H. unfold enumerate. apply (map_combine_seq_nth F F' L d 0). exact H. Qed.

(* ------------------------------------------------------------------ *)
(* Part 1: the scatter fold of _fuse_blocks_via_insert with a box per item *)
Section BoxScatter.
  Context (R : Ring) {K I : Type} (keqb : K -> K -> bool) (Hk : eqb_spec_on keqb).
  Context (key : I -> K) (sel : I -> list (nat * nat)) (src : I -> tensor R) (shape : K -> list nat).

  Definition shift_idx (sl : list (nat * nat)) (idx : list nat) : list nat :=
    map (fun p : nat * nat * nat => snd p - fst (fst p)) (List.combine sl idx).

  Definition box_step (acc : list (K * tensor R)) (i : I) : list (K * tensor R) :=
    dset keqb (key i)
      (tassign R (match lookup keqb (key i) acc with Some t => t | None => tzeros R (shape (key i)) end)
               (sel i) (src i)) acc.
  Definition box_fold (items : list I) : list (K * tensor R) := fold_left box_step items [].

  Lemma box_spec (items : list I) :
    NoDup items ->
    (forall i j, In i items -> In j items -> i <> j -> key i = key j ->
       forall idx, inb (shape (key i)) idx = true -> in_range (sel i) idx = true -> in_range (sel j) idx = false) ->
    NoDup (map fst (box_fold items)) /\
    (forall k, In k (map fst (box_fold items)) <-> exists i, In i items /\ key i = k) /\
    (forall k T, lookup keqb k (box_fold items) = Some T ->
       tshape T = shape k /\ length (tdata T) = shape_size (shape k)) /\
    (forall i, In i items -> exists T, lookup keqb (key i) (box_fold items) = Some T /\
       forall idx, inb (shape (key i)) idx = true -> in_range (sel i) idx = true ->
                   get R T idx = get R (src i) (shift_idx (sel i) idx)) /\
    (forall k T idx, lookup keqb k (box_fold items) = Some T -> inb (shape k) idx = true ->
       (forall i, In i items -> key i = k -> in_range (sel i) idx = false) -> get R T idx = r0 R).
  Proof.
    induction items as [|i0 P IH] using rev_ind; intros Hnd Hdis.
    - cbn. split; [constructor|]. split; [intros k; split; [intros []|intros (i & [] & _)]|].
      split; [discriminate|]. split; [intros i []|discriminate].
    - apply NoDup_remove in Hnd. rewrite app_nil_r in Hnd. destruct Hnd as [Hnd Hnew].
      destruct IH as (IHnd & IHkeys & IHshape & IHown & IHzero); [exact Hnd| |].
      { intros i j Hi Hj. apply Hdis; apply in_or_app; now left. }
      unfold box_fold. rewrite fold_left_app. cbn [fold_left]. fold (box_fold P).
      set (acc := box_fold P) in *.
      set (k0 := key i0).
      set (tgt := match lookup keqb k0 acc with Some t => t | None => tzeros R (shape k0) end).
      assert (Htgt : tshape tgt = shape k0).
      { unfold tgt. destruct (lookup keqb k0 acc) eqn:E; [now apply IHshape|reflexivity]. }
      unfold box_step. fold k0. fold tgt.
      set (T' := tassign R tgt (sel i0) (src i0)).
      assert (Hlk : forall k, lookup keqb k (dset keqb k0 T' acc) = if keqb k k0 then Some T' else lookup keqb k acc).
      { intros k. apply (lookup_dset keqb Hk). }
      split; [now apply (dset_keys_NoDup keqb Hk)|]. split; [|split; [|split]].
      + intros k. split.
        * intros Hin. destruct (keqb k k0) eqn:E.
          -- apply Hk in E. exists i0. split; [apply in_or_app; right; now left|now symmetry].
          -- assert (Hin' : In k (map fst acc)).
             { destruct (lookup keqb k acc) eqn:E2.
               - apply (lookup_In keqb Hk) in E2. now apply (in_map fst) in E2.
               - exfalso. apply (lookup_None_iff keqb Hk) in Hin; [exact Hin|]. now rewrite Hlk, E. }
             apply IHkeys in Hin'. destruct Hin' as (i & Hi & Hki). exists i. split; [apply in_or_app; now left|exact Hki].
        * intros (i & Hi & Hki). apply in_app_or in Hi. destruct Hi as [Hi|[<-|[]]].
          -- apply (keys_dset_incl keqb). apply IHkeys. now exists i.
          -- rewrite <- Hki. apply (keys_dset_self keqb Hk).
      + intros k T. rewrite Hlk. destruct (keqb k k0) eqn:E.
        * apply Hk in E. subst k. intros H. inversion H. subst T. unfold T'. rewrite tshape_tassign.
          split; [exact Htgt|]. unfold tassign. now rewrite length_tdata_build, Htgt.
        * apply IHshape.
      + intros i Hi. rewrite Hlk. apply in_app_or in Hi. destruct Hi as [Hi|[<-|[]]].
        * destruct (keqb (key i) k0) eqn:E.
          -- apply Hk in E. destruct (IHown i Hi) as (T & HT & Hget). exists T'. split; [reflexivity|].
             intros idx Hinb Hr.
             assert (Hne : i <> i0) by (intros ->; contradiction).
             assert (Hd : in_range (sel i0) idx = false).
             { apply (Hdis i i0); [apply in_or_app; now left|apply in_or_app; right; now left|exact Hne|exact E|exact Hinb|exact Hr]. }
             assert (HtT : tgt = T) by (unfold tgt; rewrite <- E, HT; reflexivity).
             unfold T'. rewrite get_tassign by (rewrite Htgt, <- E; exact Hinb).
             rewrite Hd, HtT. now apply Hget.
          -- apply IHown. exact Hi.
        * fold k0. rewrite (keqb_refl keqb Hk). exists T'. split; [reflexivity|].
          intros idx Hinb Hr. unfold T'. rewrite get_tassign by (rewrite Htgt; exact Hinb). now rewrite Hr.
      + intros k T idx. rewrite Hlk. destruct (keqb k k0) eqn:E.
        * apply Hk in E. subst k. intros H Hinb Hall. inversion H. subst T. clear H.
          unfold T'. rewrite get_tassign by (rewrite Htgt; exact Hinb).
          rewrite (Hall i0) by (first [apply in_or_app; right; now left | reflexivity]).
          unfold tgt. destruct (lookup keqb k0 acc) as [T0|] eqn:E0.
          -- apply (IHzero k0 T0 idx E0 Hinb). intros i Hi Hki. apply Hall; [apply in_or_app; now left|exact Hki].
          -- now apply get_tzeros.
        * intros H Hinb Hall. apply (IHzero k T idx H Hinb). intros i Hi Hki. apply Hall; [apply in_or_app; now left|exact Hki].
  Qed.
End BoxScatter.

(* ------------------------------------------------------------------ *)
(* Part 2: slots.  Combinatorics of axes_before / groups / axes_after *)
Section SlotsComb.
  Context (n : nat) (groups : list (list nat)).
  Context (Hg_ne : Forall (fun g => g <> []) groups) (Hg_nd : NoDup (concat groups))
          (Hg_rng : Forall (fun ax => ax < n) (concat groups)).

  Notation pos := (fuse_position groups).
  Notation before := (axes_before n groups).
  Notation after := (axes_after n groups).
  Notation perm := (fuse_perm n groups).

  Definition slots : list (list nat) :=
    map (fun ax => [ax]) before ++ groups ++ map (fun ax => [ax]) after.

  Lemma natmem_In ax l : mem Nat.eqb ax l = true <-> In ax l.
  Proof. apply (mem_In Nat.eqb). intros a b. apply Nat.eqb_eq. Qed.

  Lemma ungrouped_iff' ax : is_none (group_of groups ax) = true <-> ~ In ax (concat groups).
  Proof.
    unfold group_of. generalize 0. clear Hg_ne Hg_nd Hg_rng.
    induction groups as [|g gs IH]; intros k; cbn [concat].
    - split; [intros _ []|reflexivity].
    - destruct (mem Nat.eqb ax g) eqn:E.
      + cbn [is_none]. apply natmem_In in E. split; [discriminate|]. intros H. exfalso. apply H. apply in_or_app. now left.
      + rewrite (IH (S k)). rewrite in_app_iff. split; [|tauto].
        intros H [H1|H1]; [|tauto]. apply natmem_In in H1. congruence.
  Qed.

  Lemma gpos_le ax : In ax (concat groups) -> pos <= ax.
  Proof.
    intros H. unfold fuse_position.
    assert (Hne : concat groups <> []) by (intros E; rewrite E in H; destruct H).
    destruct (list_min_spec _ Hne) as [_ Hall]. rewrite Forall_forall in Hall. now apply Hall.
  Qed.

  Lemma gpos_le_n : pos <= n.
  Proof.
    unfold fuse_position. revert Hg_rng. generalize (concat groups). intros [|a l] Hr; [cbn; lia|].
    assert (Hne : a :: l <> []) by discriminate.
    destruct (list_min_spec _ Hne) as [Hin _].
    rewrite Forall_forall in Hr. apply Hr in Hin. lia.
  Qed.

  Lemma In_before' ax : In ax before <-> ax < pos /\ ~ In ax (concat groups).
  Proof. unfold axes_before. rewrite filter_In, in_seq, ungrouped_iff'. split; intros [H1 H2]; (split; [lia|exact H2]). Qed.

  Lemma In_after' ax : In ax after <-> pos <= ax < n /\ ~ In ax (concat groups).
  Proof.
    unfold axes_after. rewrite filter_In, in_seq, ungrouped_iff'. pose proof gpos_le_n.
    split; intros [H1 H2]; (split; [lia|exact H2]).
  Qed.

  Lemma gperm_NoDup : NoDup perm.
  Proof.
    unfold fuse_perm. apply NoDup_app_intro.
    - unfold axes_before. apply NoDup_filter, seq_NoDup.
    - apply NoDup_app_intro; [exact Hg_nd| |].
      + unfold axes_after. apply NoDup_filter, seq_NoDup.
      + intros ax Hin Hin'. apply In_after' in Hin'. tauto.
    - intros ax Hin Hin'. apply In_before' in Hin. apply in_app_or in Hin'. destruct Hin' as [Hin'|Hin'].
      + tauto.
      + apply In_after' in Hin'. lia.
  Qed.

  Lemma gperm_In ax : In ax perm <-> ax < n.
  Proof.
    unfold fuse_perm. rewrite !in_app_iff, In_before', In_after'. pose proof gpos_le_n as Hp. split.
    - intros [H|[H|H]]; [lia| |lia]. rewrite Forall_forall in Hg_rng. now apply Hg_rng.
    - intros Hlt. destruct (mem Nat.eqb ax (concat groups)) eqn:E.
      + apply natmem_In in E. tauto.
      + assert (~ In ax (concat groups)) by (intros H; apply natmem_In in H; congruence).
        destruct (Nat.lt_ge_cases ax pos); [left; tauto|right; right; split; [lia|assumption]].
  Qed.

  Lemma gperm_length : length perm = n.
  Proof.
    transitivity (length (seq 0 n)); [|apply seq_length]. apply Permutation_length. apply NoDup_Permutation.
    - exact gperm_NoDup.
    - apply seq_NoDup.
    - intros ax. rewrite gperm_In, in_seq. lia.
  Qed.

  Lemma gperm_is_perm : is_perm perm.
  Proof.
    unfold is_perm. rewrite gperm_length. apply NoDup_Permutation.
    - exact gperm_NoDup.
    - apply seq_NoDup.
    - intros ax. rewrite gperm_In, in_seq. lia.
  Qed.

  Lemma concat_slots : concat slots = perm.
  Proof. unfold slots, fuse_perm. now rewrite !concat_app, !concat_singletons. Qed.

  Lemma slots_ne g : In g slots -> g <> [].
  Proof.
    unfold slots. rewrite !in_app_iff, !in_map_iff. intros [(ax & <- & _)|[H|(ax & <- & _)]]; try discriminate.
    rewrite Forall_forall in Hg_ne. now apply Hg_ne.
  Qed.

  Lemma slots_sub g ax : In g slots -> In ax g -> In ax perm.
  Proof. intros Hg Hax. rewrite <- concat_slots. apply in_concat. exists g. now split. Qed.

  Lemma slots_lt g : In g slots -> Forall (fun ax => ax < n) g.
  Proof. intros Hg. apply Forall_forall. intros ax Hax. apply gperm_In. now apply (slots_sub g). Qed.

  Lemma NoDup_app_l' {A} (l1 l2 : list A) : NoDup (l1 ++ l2) -> NoDup l1 /\ NoDup l2.
  Proof.
    induction l1 as [|a l1 IH]; cbn [app]; intros H; [split; [constructor|exact H]|].
    inversion H as [|? ? Hna Hnd]; subst. destruct (IH Hnd) as [H1 H2]. split; [|exact H2].
    constructor; [|exact H1]. intros Hin. apply Hna. apply in_or_app. now left.
  Qed.

  Lemma NoDup_concat_inv {A} (ls : list (list A)) l : NoDup (concat ls) -> In l ls -> NoDup l.
  Proof.
    induction ls as [|l0 ls IH]; intros Hnd Hin0; [destruct Hin0|].
    destruct Hin0 as [<-|Hin]; cbn [concat] in Hnd.
    - now apply NoDup_app_l' in Hnd.
    - apply IH; [|exact Hin]. now apply NoDup_app_l' in Hnd.
  Qed.

  Lemma slots_NoDup g : In g slots -> NoDup g.
  Proof. intros Hg. apply (NoDup_concat_inv slots); [|exact Hg]. rewrite concat_slots. exact gperm_NoDup. Qed.

  Lemma slots_length : length slots = length before + length groups + length after.
  Proof. unfold slots. rewrite !app_length, !map_length. lia. Qed.

  (* positions outside the group block hold singlets *)
  Lemma slot_at k : k < length slots ->
    (length before <= k < length before + length groups /\ nth k slots [] = nth (k - length before) groups []) \/
    ((k < length before \/ length before + length groups <= k) /\ is_singlet (nth k slots []) = true).
  Proof.
    intros Hk. rewrite slots_length in Hk. unfold slots.
    destruct (Nat.lt_ge_cases k (length before)) as [H1|H1].
    - right. split; [now left|]. rewrite app_nth1 by (now rewrite map_length).
      rewrite (nth_map_lt _ _ _ 0) by exact H1. reflexivity.
    - rewrite app_nth2 by (rewrite map_length; lia). rewrite map_length.
      destruct (Nat.lt_ge_cases (k - length before) (length groups)) as [H2|H2].
      + left. split; [lia|]. now rewrite app_nth1 by exact H2.
      + right. split; [right; lia|]. rewrite app_nth2 by exact H2.
        rewrite (nth_map_lt _ _ _ 0) by lia. reflexivity.
  Qed.
End SlotsComb.

Lemma enumerate_map {A B} (h : A -> B) (L : list A) :
  enumerate (map h L) = map (fun p => (fst p, h (snd p))) (enumerate L).
Proof.
  unfold enumerate. rewrite map_length. generalize 0.
  induction L as [|a L IH]; intros lo; [reflexivity|]. cbn [length seq map List.combine fst snd]. now rewrite IH.
Qed.

(* ------------------------------------------------------------------ *)
(* Part 3: the tables of fuse_core as maps over the slots *)
Section SlotTables.
  Context (G : Symmetry) (ixs : list (index G)) (secs : list (list (C G))) (groups : list (list nat)).
  Notation n := (length ixs).
  Notation dflt := (dflt_index G).
  Notation idc := (ident G).
  Notation SL := (slots n groups).
  Notation FI := (fused_index G ixs secs).

  Definition slot_range (s : list (C G)) (g : list nat) : nat * nat :=
    if is_singlet g then (0, size_of G (FI g) (group_charge G ixs s g))
    else sub_range G (FI g) (group_charge G ixs s g) (group_subsector G s g).

  Lemma fused_sector_slots s : fused_sector G ixs groups s = map (group_charge G ixs s) SL.
  Proof.
    unfold fused_sector, slots, take_axes. rewrite !map_app, !map_map. reflexivity.
  Qed.

  Lemma fused_indices_slots : fused_indices G ixs secs groups = map FI SL.
  Proof. unfold fused_indices, slots. rewrite !map_app, !map_map. reflexivity. Qed.

  Lemma fused_shape_slots s : fused_block_shape G ixs groups s = map (group_size G ixs s) SL.
  Proof.
    unfold fused_block_shape, slots. rewrite !map_app, !map_map.
    f_equal; [|f_equal]; apply map_ext; intros ax; unfold group_size; cbn [map nprod fold_right]; lia.
  Qed.

  Lemma fuse_selector_slots s :
    fuse_selector G ixs (fused_indices G ixs secs groups) groups s = map (slot_range s) SL.
  Proof.
    unfold fuse_selector. rewrite fused_indices_slots, fused_sector_slots, combine_map_map.
    rewrite enumerate_map, map_map.
    apply (map_enumerate_nth _ (slot_range s) SL []). intros k Hk. cbn [fst snd].
    unfold slot_range.
    destruct (slot_at n groups k Hk) as [[Hr ->]|[Hr Hs]].
    - replace (Nat.leb (length (axes_before n groups)) k) with true by (symmetry; apply Nat.leb_le; lia).
      replace (Nat.ltb k (length (axes_before n groups) + length groups)) with true by (symmetry; apply Nat.ltb_lt; lia).
      cbn [andb]. reflexivity.
    - rewrite Hs.
      destruct (Nat.leb (length (axes_before n groups)) k && Nat.ltb k (length (axes_before n groups) + length groups)) eqn:E; [|reflexivity].
      apply andb_true_iff in E. destruct E as [E1 E2]. apply Nat.leb_le in E1. apply Nat.ltb_lt in E2. lia.
  Qed.
End SlotTables.

(* ------------------------------------------------------------------ *)
(* Part 4: multi-indices built slot by slot *)
Section ZipBox.
  Context {S : Type} (st : S -> nat) (shp : S -> list nat) (dim : S -> nat).
  Definition zsel (L : list S) : list (nat * nat) := map (fun g => (st g, shape_size (shp g))) L.
  Definition zidx (L : list S) (US : list (list nat)) : list nat :=
    zipw (fun g u => st g + offset (shp g) u) L US.

  Lemma zip_box L US : Forall2 (fun g u => inb (shp g) u = true) L US ->
    (forall g, In g L -> st g + shape_size (shp g) <= dim g) ->
    inb (map dim L) (zidx L US) = true /\ in_range (zsel L) (zidx L US) = true /\
    shift_idx (zsel L) (zidx L US) = zipw (fun g u => offset (shp g) u) L US.
  Proof.
    induction 1 as [|g u L US Hu _ IH]; intros Hdim; [repeat split; reflexivity|].
    destruct IH as (I1 & I2 & I3); [intros g' Hg'; apply Hdim; now right|].
    pose proof (offset_lt _ _ Hu) as Ho. pose proof (Hdim g (or_introl eq_refl)) as Hd.
    unfold zidx, zsel in *. cbn [map]. rewrite !zipw_cons. split; [|split].
    - cbn [inb]. rewrite I1. apply andb_true_iff. split; [apply Nat.ltb_lt; lia|reflexivity].
    - rewrite in_range_cons. cbn [fst snd]. rewrite I2.
      replace (Nat.leb (st g) (st g + offset (shp g) u)) with true by (symmetry; apply Nat.leb_le; lia).
      replace (Nat.ltb (st g + offset (shp g) u) (st g + shape_size (shp g))) with true by (symmetry; apply Nat.ltb_lt; lia).
      reflexivity.
    - unfold shift_idx in *. rewrite shift_cons. cbn [fst]. rewrite I3. f_equal. lia.
  Qed.

  Lemma zip_box_inv L : forall idx, length idx = length L -> in_range (zsel L) idx = true ->
    exists US, Forall2 (fun g u => inb (shp g) u = true) L US /\ idx = zidx L US.
  Proof.
    induction L as [|g L IH]; intros [|i idx] Hl Hr; cbn [length] in Hl; try discriminate.
    - exists []. split; [constructor|reflexivity].
    - unfold zsel in Hr. cbn [map] in Hr. rewrite in_range_cons in Hr. cbn [fst snd] in Hr.
      apply andb_true_iff in Hr. destruct Hr as [Hi Hr]. apply andb_true_iff in Hi. destruct Hi as [H1 H2].
      apply Nat.leb_le in H1. apply Nat.ltb_lt in H2.
      destruct (IH idx) as (US & HUS & ->); [lia|exact Hr|].
      destruct (unravel_spec (shp g) (i - st g)) as [Hu Ho]; [lia|].
      exists (unravel (shp g) (i - st g) :: US). split; [constructor; assumption|].
      unfold zidx. rewrite zipw_cons. f_equal. rewrite Ho. lia.
  Qed.
End ZipBox.

Lemma split_concat SHS : forall idx, inb (concat SHS) idx = true ->
  exists US, idx = concat US /\ Forall2 (fun sh u => inb sh u = true) SHS US.
Proof.
  induction SHS as [|sh SHS IH]; intros idx H; cbn [concat] in H.
  - destruct idx; [|discriminate]. exists []. split; [reflexivity|constructor].
  - apply inb_split in H. destruct H as (i1 & i2 & -> & H1 & H2).
    destruct (IH _ H2) as (US & -> & HUS). exists (i1 :: US). split; [reflexivity|constructor; assumption].
Qed.

Lemma Forall2_and {A B} (P Q : A -> B -> Prop) l1 l2 :
  Forall2 P l1 l2 -> Forall2 Q l1 l2 -> Forall2 (fun a b => P a b /\ Q a b) l1 l2.
Proof.
  induction 1 as [|a b l1 l2 Hab _ IH]; intros HQ; [constructor|].
  inversion HQ; subst. constructor; [now split|now apply IH].
Qed.

Lemma Forall2_In_l {A B} (P : A -> B -> Prop) l1 l2 a : Forall2 P l1 l2 -> In a l1 -> exists b, P a b.
Proof.
  induction 1 as [|a0 b l1 l2 Hab _ IH]; intros Hin; [destruct Hin|].
  destruct Hin as [->|Hin]; [now exists b|now apply IH].
Qed.

Lemma in_range_Forall2 {S : Type} (f : S -> nat * nat) (L : list S) : forall idx,
  length idx = length L -> in_range (map f L) idx = true ->
  Forall2 (fun g i => fst (f g) <= i < fst (f g) + snd (f g)) L idx.
Proof.
  induction L as [|g L IH]; intros [|i idx] Hl Hr; cbn [length] in Hl; try discriminate; [constructor|].
  cbn [map] in Hr. rewrite in_range_cons in Hr.
  apply andb_true_iff in Hr. destruct Hr as [Hi Hr]. apply andb_true_iff in Hi. destruct Hi as [H1 H2].
  apply Nat.leb_le in H1. apply Nat.ltb_lt in H2. constructor; [lia|]. apply IH; [lia|exact Hr].
Qed.

Lemma Forall2_map_l' {A A' B} (P : A' -> B -> Prop) (h : A -> A') l m :
  Forall2 (fun a b => P (h a) b) l m -> Forall2 P (map h l) m.
Proof. induction 1; cbn [map]; constructor; assumption. Qed.

Lemma Forall2_impl' {A B} (P Q : A -> B -> Prop) l m :
  (forall a b, In a l -> P a b -> Q a b) -> Forall2 P l m -> Forall2 Q l m.
Proof.
  intros H HF. induction HF as [|a b l m Hab _ IH]; constructor.
  - apply H; [now left|exact Hab].
  - apply IH. intros a' b' Ha'. apply H. now right.
Qed.

Lemma forallb_false_ex {A} (f : A -> bool) l : forallb f l = false -> exists a, In a l /\ f a = false.
Proof.
  induction l as [|a l IH]; cbn [forallb]; [discriminate|].
  destruct (f a) eqn:E; cbn [andb].
  - intros H. destruct (IH H) as (a' & Ha' & Hf). exists a'. split; [now right|exact Hf].
  - intros _. exists a. split; [now left|exact E].
Qed.

Lemma length_block_shape_min (G : Symmetry) (ixs : list (index G)) (s : list (C G)) :
  length s = length ixs -> length (block_shape G ixs s) = length ixs.
Proof. intros H. unfold block_shape. rewrite map_length, combine_length. lia. Qed.

(* ------------------------------------------------------------------ *)
(* Part 4b: a_unfuse of one axis of an arbitrary array, and what a piece holds *)
Lemma split_at_nth {A} (l : list A) k d : k < length l -> l = firstn k l ++ nth k l d :: skipn (S k) l.
Proof.
  revert k. induction l as [|a l IH]; intros k Hk; cbn [length] in Hk; [lia|].
  destruct k as [|k]; [reflexivity|]. cbn [firstn nth skipn app]. f_equal. apply IH. lia.
Qed.

Lemma block_shape_app' (G : Symmetry) (i1 i2 : list (index G)) (s1 s2 : list (C G)) :
  length s1 = length i1 -> block_shape G (i1 ++ i2) (s1 ++ s2) = block_shape G i1 s1 ++ block_shape G i2 s2.
Proof. intros H. unfold block_shape. rewrite combine_app by (symmetry; exact H). apply map_app. Qed.

Lemma piece_get (R : Ring) (T : tensor R) ax st len shL d shR subshape iL sub iR :
  tshape T = shL ++ d :: shR -> length shL = ax -> shape_size subshape = len -> st + len <= d ->
  inb shL iL = true -> inb subshape sub = true -> inb shR iR = true ->
  get R (treshape R (tslice R T ax st len) (replace_with_seq (tshape T) ax subshape)) (iL ++ sub ++ iR)
  = get R T (iL ++ (st + offset subshape sub) :: iR).
Proof.
  intros Hsh Hax Hsz Hle HL HS HR.
  pose proof (inb_length _ _ HL) as LL. pose proof (inb_length _ _ HS) as LS.
  pose proof (offset_lt _ _ HS) as Ho. rewrite Hsz in Ho.
  set (o := offset subshape sub) in *.
  transitivity (get R (tslice R T ax st len) (iL ++ o :: iR)).
  - unfold get, treshape. cbn [tshape tdata]. f_equal.
    rewrite tshape_tslice, Hsh.
    rewrite (replace_with_seq_middle shL shR d subshape ax Hax), (set_nth_middle shL shR d len ax Hax).
    rewrite !offset_app by assumption. rewrite !shape_size_app.
    cbn [offset]. change (shape_size (len :: shR)) with (len * shape_size shR).
    fold o. rewrite Hsz. generalize (offset shL iL) (shape_size shR) (offset shR iR). intros. nia.
  - rewrite get_tslice.
    + rewrite (nth_middle_len iL iR o 0 ax) by lia. rewrite (set_nth_middle iL iR o (o + st) ax) by lia.
      now rewrite (Nat.add_comm o st).
    + rewrite Hsh, (set_nth_middle shL shR d len ax Hax).
      rewrite inb_app_iff by exact LL. rewrite HL. cbn [inb andb]. rewrite HR.
      apply andb_true_iff. split; [apply Nat.ltb_lt; exact Ho|reflexivity].
Qed.

Section UnfuseGeneric.
  Context (G : Symmetry) (R : Ring) (GL : GroupLaws G).
  Notation keq := (list_eqb (ceqb G)).
  Notation idc := (ident G).
  Notation dflt := (dflt_index G).
  Context (Y : aarray G R) (ax : nat) (subs : list (index G)) (ext : list (C G * list (list (C G) * nat))).
  Context (Hsub : isub G (nth ax (indices G R Y) dflt) = Some (subs, ext)).
  Context (Hnd : NoDup (sectors G R Y)).
  Context (Hlen : forall K T, In (K, T) (blocks G R Y) -> ax < length K).
  Context (Hext_nd : forall c e, lookup (ceqb G) c ext = Some e -> NoDup (map fst e)).
  Context (Hext_len : forall c e ss, lookup (ceqb G) c ext = Some e -> In ss (map fst e) -> length ss = length subs).
  Context (Hext_fun : forall c c' e e' ss, lookup (ceqb G) c ext = Some e -> lookup (ceqb G) c' ext = Some e' ->
             In ss (map fst e) -> In ss (map fst e') -> c = c').

  Definition gpiece (KT : list (C G) * tensor R) (q : list (C G) * (nat * nat)) : list (C G) * tensor R :=
    (replace_with_seq (fst KT) ax (fst q),
     treshape R (tslice R (snd KT) ax (fst (snd q)) (snd (snd q)))
       (replace_with_seq (tshape (snd KT)) ax (block_shape G subs (fst q)))).
  Definition gpieces (KT : list (C G) * tensor R) : list (list (C G) * tensor R) :=
    match lookup (ceqb G) (nth ax (fst KT) idc) ext with
    | None => []
    | Some e => map (gpiece KT) (ranges_from 0 e)
    end.
  Definition GUB : list (list (C G) * tensor R) := flat_map gpieces (blocks G R Y).

  Lemma gunfuse_eq : NoDup (map fst GUB) ->
    a_unfuse G R Y ax = Some (mkA G R (replace_with_seq (indices G R Y) ax subs) (charge G R Y) GUB).
  Proof.
    intros Hn. unfold a_unfuse. rewrite Hsub. f_equal. f_equal.
    rewrite <- (fold_dset_fresh keq (Hke G GL) GUB Hn). unfold GUB. rewrite fold_left_flat_map.
    apply fold_left_ext. intros acc sb _. unfold gpieces. cbn zeta.
    destruct (lookup (ceqb G) (nth ax (fst sb) idc) ext) as [e|]; [|reflexivity].
    rewrite fold_left_map. apply fold_left_ext. intros acc2 [ss [st len]] _. reflexivity.
  Qed.

  Lemma gpiece_keys KT e : map fst (map (gpiece KT) (ranges_from 0 e)) =
                           map (fun ss => replace_with_seq (fst KT) ax ss) (map fst e).
  Proof. rewrite <- (ranges_keys 0 e), !map_map. reflexivity. Qed.

  Lemma GUB_NoDup : NoDup (map fst GUB).
  Proof.
    unfold GUB. rewrite map_flat_map.
    apply NoDup_flat_map.
    - now apply NoDup_map_fst_NoDup.
    - intros [K T] Hin. unfold gpieces. cbn [fst].
      destruct (lookup (ceqb G) (nth ax K idc) ext) as [e|] eqn:He; [|constructor].
      rewrite gpiece_keys. cbn [fst].
      apply NoDup_map_inj_on; [|exact (Hext_nd _ _ He)]. intros ss ss' _ _. apply replace_inj.
    - intros [K1 T1] [K2 T2] k H1 H2 Hk1 Hk2.
      unfold gpieces in Hk1, Hk2. cbn [fst] in Hk1, Hk2.
      destruct (lookup (ceqb G) (nth ax K1 idc) ext) as [e1|] eqn:He1; [|destruct Hk1].
      destruct (lookup (ceqb G) (nth ax K2 idc) ext) as [e2|] eqn:He2; [|destruct Hk2].
      rewrite gpiece_keys in Hk1, Hk2. cbn [fst] in Hk1, Hk2.
      apply in_map_iff in Hk1. destruct Hk1 as (ss1 & <- & Hss1).
      apply in_map_iff in Hk2. destruct Hk2 as (ss2 & Heq & Hss2).
      pose proof (Hlen _ _ H1) as L1. pose proof (Hlen _ _ H2) as L2.
      unfold replace_with_seq in Heq.
      apply app_inv_len in Heq; [|rewrite !firstn_length; lia]. destruct Heq as [Hb Heq].
      apply app_inv_len in Heq; [|rewrite (Hext_len _ _ _ He1 Hss1), (Hext_len _ _ _ He2 Hss2); reflexivity].
      destruct Heq as [Hss Ha]. subst ss2.
      assert (Hc : nth ax K1 idc = nth ax K2 idc) by (exact (Hext_fun _ _ _ _ _ He1 He2 Hss1 Hss2)).
      assert (HK : K1 = K2).
      { rewrite (split_at_nth K1 ax idc L1), (split_at_nth K2 ax idc L2). now rewrite Hb, Ha, Hc. }
      subst K2. apply (NoDup_map_fst_inj (blocks G R Y)); [exact Hnd|exact H1|exact H2|reflexivity].
  Qed.

  Theorem gunfuse : a_unfuse G R Y ax =
    Some (mkA G R (replace_with_seq (indices G R Y) ax subs) (charge G R Y) GUB).
  Proof. exact (gunfuse_eq GUB_NoDup). Qed.

  Lemma GUB_In K' T' : In (K', T') GUB <->
    exists K T e q, In (K, T) (blocks G R Y) /\ lookup (ceqb G) (nth ax K idc) ext = Some e /\
      In q (ranges_from 0 e) /\ (K', T') = gpiece (K, T) q.
  Proof.
    unfold GUB. rewrite in_flat_map. split.
    - intros ([K T] & Hin & Hp). unfold gpieces in Hp. cbn [fst] in Hp.
      destruct (lookup (ceqb G) (nth ax K idc) ext) as [e|] eqn:He; [|destruct Hp].
      apply in_map_iff in Hp. destruct Hp as (q & Hq & Hin'). exists K, T, e, q. repeat split; auto.
    - intros (K & T & e & q & Hin & He & Hq & Hp). exists (K, T). split; [exact Hin|].
      unfold gpieces. cbn [fst]. rewrite He. apply in_map_iff. exists q. split; [now symmetry|exact Hq].
  Qed.
  (* ---- coordinate semantics of the unfused array ----
     IXr is a reference index list with respect to which the block shapes are
     stated: the indices of Y themselves, or the same tables before charges that
     no block uses were pruned away *)
  Context (IXr : list (index G)).
  Context (Hshape : forall K T, In (K, T) (blocks G R Y) ->
             length K = length IXr /\ tshape T = block_shape G IXr K).
  Context (Hext_sz : forall ch e ss st len, lookup (ceqb G) ch ext = Some e -> In (ss, (st, len)) (ranges_from 0 e) ->
             shape_size (block_shape G subs ss) = len /\ st + len <= size_of G (nth ax IXr dflt) ch).

  Notation IX := IXr.
  Definition GIX' : list (index G) := replace_with_seq IXr ax subs.
  Definition GY' : aarray G R := mkA G R (replace_with_seq (indices G R Y) ax subs) (charge G R Y) GUB.

  Lemma Hkq0 : eqb_spec_on keq.
  Proof. apply (Hke G GL). Qed.

  Lemma coords_inb_gen (ixs : list (index G)) : forall cs : list (coord G), coords_ok G ixs cs = true ->
    inb (block_shape G ixs (map fst cs)) (map snd cs) = true.
  Proof.
    unfold coords_ok. induction ixs as [|ix ixs IH]; intros [|c cs] H; apply andb_true_iff in H;
      destruct H as [Hl Hf]; cbn [length] in Hl; try discriminate; [reflexivity|].
    cbn [map]. unfold block_shape. cbn [List.combine map fst snd inb]. cbn [List.combine forallb fst snd] in Hf.
    apply andb_true_iff in Hf. destruct Hf as [Hc Hf]. rewrite Hc. cbn [andb].
    apply IH. apply andb_true_iff. split; [exact Hl | exact Hf].
  Qed.

  (* a block of Y, cut in three at the axis *)
  Lemma Y_block K T : In (K, T) (blocks G R Y) ->
    ax < length IX /\ K = firstn ax K ++ nth ax K idc :: skipn (S ax) K /\
    length (firstn ax K) = ax /\ length (skipn (S ax) K) = length (skipn (S ax) IX) /\
    tshape T = block_shape G (firstn ax IX) (firstn ax K) ++ size_of G (nth ax IX dflt) (nth ax K idc)
               :: block_shape G (skipn (S ax) IX) (skipn (S ax) K).
  Proof.
    intros Hin. pose proof (Hlen K T Hin) as Hax. destruct (Hshape K T Hin) as [Hl Hsh].
    split; [lia|]. split; [apply split_at_nth; exact Hax|]. split; [rewrite firstn_length; lia|].
    split; [rewrite !skipn_length; lia|].
    rewrite Hsh. rewrite (split_at_nth K ax idc Hax) at 1. rewrite (split_at_nth IX ax dflt) at 1 by lia.
    rewrite block_shape_app' by (rewrite !firstn_length; lia). reflexivity.
  Qed.

  Lemma GIX'_eq : ax < length IX -> GIX' = firstn ax IX ++ subs ++ skipn (S ax) IX.
  Proof. reflexivity. Qed.

  Lemma GUB_shape K' T' : In (K', T') GUB ->
    length K' = length GIX' /\ tshape T' = block_shape G GIX' K'.
  Proof.
    intros Hin. apply GUB_In in Hin. destruct Hin as (K & T & e & [ss [st len]] & HinY & He & Hq & Heq).
    destruct (Y_block K T HinY) as (Hax & HK & HlL & HlR & Hsh).
    assert (Hss : length ss = length subs).
    { apply (Hext_len _ _ _ He). rewrite <- (ranges_keys 0 e). apply in_map_iff. exists (ss, (st, len)). now split. }
    inversion Heq as [[HK' HT']]. cbn [fst snd].
    split.
    - unfold GIX', replace_with_seq. rewrite !app_length, Hss, HlL, HlR, firstn_length. lia.
    - cbn [treshape tshape]. rewrite Hsh.
      assert (HbsL : length (block_shape G (firstn ax IX) (firstn ax K)) = ax).
      { rewrite length_block_shape_min; [rewrite firstn_length; lia|rewrite HlL, firstn_length; lia]. }
      rewrite (replace_with_seq_middle _ _ _ _ ax HbsL).
      unfold GIX', replace_with_seq.
      rewrite block_shape_app' by (rewrite HlL, firstn_length; lia).
      rewrite block_shape_app' by exact Hss. reflexivity.
  Qed.

  Lemma GUB_data K' T' : In (K', T') GUB -> length (tdata T') = shape_size (tshape T').
  Proof.
    intros Hin. apply GUB_In in Hin. destruct Hin as (K & T & e & [ss [st len]] & HinY & He & Hq & Heq).
    destruct (Y_block K T HinY) as (Hax & HK & HlL & HlR & Hsh).
    destruct (Hext_sz _ e ss st len He Hq) as [Hsz _].
    inversion Heq as [[HK' HT']]. cbn [fst snd treshape tdata tshape].
    unfold tslice. rewrite length_tdata_build, Hsh.
    assert (HbsL : length (block_shape G (firstn ax IX) (firstn ax K)) = ax).
    { rewrite length_block_shape_min; [rewrite firstn_length; lia|rewrite HlL, firstn_length; lia]. }
    rewrite (set_nth_middle _ _ _ len ax HbsL), (replace_with_seq_middle _ _ _ _ ax HbsL).
    rewrite !shape_size_app.
    change (shape_size (len :: block_shape G (skipn (S ax) IX) (skipn (S ax) K)))
      with (len * shape_size (block_shape G (skipn (S ax) IX) (skipn (S ax) K))).
    now rewrite Hsz.
  Qed.

  Lemma gunfuse_sem cL csub cR ch e st len :
    length cL = ax -> lookup (ceqb G) ch ext = Some e -> In (map fst csub, (st, len)) (ranges_from 0 e) ->
    (In (map fst cL ++ ch :: map fst cR) (sectors G R Y) -> coords_ok G GIX' (cL ++ csub ++ cR) = true) ->
    sem G R GY' (cL ++ csub ++ cR) =
    sem G R Y (cL ++ (ch, st + offset (block_shape G subs (map fst csub)) (map snd csub)) :: cR).
  Proof.
    intros HlcL He Hq Hc. set (ss := map fst csub) in *.
    assert (Hssk : In ss (map fst e)).
    { rewrite <- (ranges_keys 0 e). apply in_map_iff. exists (ss, (st, len)). now split. }
    assert (Hss : length ss = length subs) by (apply (Hext_len _ _ _ He Hssk)).
    unfold sem. cbn [GY' blocks]. rewrite !map_app. cbn [map fst snd]. fold ss.
    set (K := map fst cL ++ ch :: map fst cR).
    assert (HlKL : length (map fst cL) = ax) by (now rewrite map_length).
    assert (Hnth : nth ax K idc = ch) by (unfold K; now apply nth_middle_len).
    destruct (lookup keq K (blocks G R Y)) as [T|] eqn:E.
    - apply (lookup_In keq Hkq0) in E.
      assert (HKsec : In K (sectors G R Y)) by (unfold sectors; apply in_map_iff; exists (K, T); now split).
      specialize (Hc HKsec).
      assert (HinU : In (gpiece (K, T) (ss, (st, len))) GUB).
      { apply GUB_In. exists K, T, e, (ss, (st, len)). rewrite Hnth. now repeat split. }
      assert (HK' : fst (gpiece (K, T) (ss, (st, len))) = map fst cL ++ ss ++ map fst cR).
      { unfold gpiece. cbn [fst]. unfold K. now apply replace_with_seq_middle. }
      rewrite <- HK'.
      rewrite (In_lookup keq Hkq0 _ (snd (gpiece (K, T) (ss, (st, len)))) _ GUB_NoDup)
        by (now destruct (gpiece (K, T) (ss, (st, len)))).
      unfold gpiece. cbn [fst snd].
      destruct (Y_block K T E) as (Hax & HKs & HlL & HlR & Hsh).
      assert (HfK : firstn ax K = map fst cL).
      { unfold K. rewrite firstn_app, HlKL, Nat.sub_diag. cbn [firstn]. rewrite app_nil_r.
        apply firstn_all2. lia. }
      assert (HsK : skipn (S ax) K = map fst cR).
      { unfold K. replace (map fst cL ++ ch :: map fst cR) with ((map fst cL ++ [ch]) ++ map fst cR) by (now rewrite <- app_assoc).
        rewrite skipn_app. rewrite skipn_all2 by (rewrite app_length; cbn [length]; lia).
        rewrite app_length. cbn [length app]. rewrite HlKL. replace (S ax - (ax + 1)) with 0 by lia. reflexivity. }
      rewrite Hnth, HfK, HsK in Hsh.
      destruct (Hext_sz ch e ss st len He Hq) as [Hsz Hle].
      (* in-bounds offsets from coords_ok *)
      apply coords_inb_gen in Hc. rewrite !map_app in Hc. fold ss in Hc.
      rewrite (GIX'_eq Hax) in Hc.
      rewrite block_shape_app' in Hc by (rewrite firstn_length; lia).
      rewrite block_shape_app' in Hc by exact Hss.
      rewrite inb_app_iff in Hc by (rewrite !map_length, length_block_shape_min; rewrite ?firstn_length, ?map_length; lia).
      apply andb_true_iff in Hc. destruct Hc as [HiL Hc].
      rewrite inb_app_iff in Hc by (rewrite map_length, length_block_shape_min; [rewrite <- Hss; unfold ss; now rewrite map_length|exact Hss]).
      apply andb_true_iff in Hc. destruct Hc as [Hisub HiR].
      apply (piece_get R T ax st len _ _ _ (block_shape G subs ss) (map snd cL) (map snd csub) (map snd cR) Hsh);
        try assumption.
      rewrite length_block_shape_min; rewrite ?firstn_length, ?map_length; lia.
    - destruct (lookup keq (map fst cL ++ ss ++ map fst cR) GUB) as [T'|] eqn:E2; [exfalso|reflexivity].
      apply (lookup_In keq Hkq0) in E2. apply GUB_In in E2.
      destruct E2 as (K2 & T2 & e2 & [ss2 [st2 len2]] & HinY & He2 & Hq2 & Heq).
      pose proof (f_equal fst Heq) as HK'. unfold gpiece in HK'. cbn [fst] in HK'. unfold replace_with_seq in HK'.
      pose proof (Hlen _ _ HinY) as L2.
      assert (Hss2k : In ss2 (map fst e2)).
      { rewrite <- (ranges_keys 0 e2). apply in_map_iff. exists (ss2, (st2, len2)). now split. }
      apply app_inv_len in HK'; [|rewrite firstn_length, HlKL; lia]. destruct HK' as [Hb HK'].
      apply app_inv_len in HK'; [|rewrite Hss, (Hext_len _ _ _ He2 Hss2k); reflexivity]. destruct HK' as [Hs2 Ha].
      subst ss2.
      assert (Hc2 : nth ax K2 idc = ch) by (exact (Hext_fun _ _ _ _ _ He2 He Hss2k Hssk)).
      assert (HK2 : K2 = K).
      { rewrite (split_at_nth K2 ax idc L2). unfold K. now rewrite <- Hb, <- Ha, Hc2. }
      subst K2. apply (In_lookup keq Hkq0 _ _ _ Hnd) in HinY. rewrite HinY in E. discriminate.
  Qed.

  Lemma gunfuse_sem_none cL csub cR :
    length cL = ax -> length csub = length subs ->
    (forall K T e, In (K, T) (blocks G R Y) -> lookup (ceqb G) (nth ax K idc) ext = Some e ->
                   ~ In (map fst csub) (map fst e)) ->
    sem G R GY' (cL ++ csub ++ cR) = r0 R.
  Proof.
    intros HlcL Hlsub Hno. unfold sem. cbn [GY' blocks]. rewrite !map_app.
    destruct (lookup keq (map fst cL ++ map fst csub ++ map fst cR) GUB) as [T'|] eqn:E2; [exfalso|reflexivity].
    apply (lookup_In keq Hkq0) in E2. apply GUB_In in E2.
    destruct E2 as (K2 & T2 & e2 & [ss2 [st2 len2]] & HinY & He2 & Hq2 & Heq).
    pose proof (f_equal fst Heq) as HK'. unfold gpiece in HK'. cbn [fst] in HK'. unfold replace_with_seq in HK'.
    pose proof (Hlen _ _ HinY) as L2.
    assert (Hss2k : In ss2 (map fst e2)).
    { rewrite <- (ranges_keys 0 e2). apply in_map_iff. exists (ss2, (st2, len2)). now split. }
    apply app_inv_len in HK'; [|rewrite firstn_length, map_length; lia]. destruct HK' as [Hb HK'].
    apply app_inv_len in HK'; [|rewrite map_length, Hlsub, (Hext_len _ _ _ He2 Hss2k); reflexivity].
    destruct HK' as [Hs2 Ha]. apply (Hno K2 T2 e2 HinY He2). now rewrite Hs2.
  Qed.

End UnfuseGeneric.

Lemma Forall2_map_l_inv {A A' B} (P : A' -> B -> Prop) (h : A -> A') l : forall m,
  Forall2 P (map h l) m -> Forall2 (fun a b => P (h a) b) l m.
Proof.
  induction l as [|a l IH]; intros m H; cbn [map] in H; inversion H; subst; constructor; auto.
Qed.

Lemma fold_right_map' {A B C} (f : B -> C -> C) (h : A -> B) l c :
  fold_right f c (map h l) = fold_right (fun a => f (h a)) c l.
Proof. induction l as [|a l IH]; [reflexivity|]. cbn [map fold_right]. now rewrite IH. Qed.

Lemma combine_seq_shift {A} (l : list A) b : forall lo,
  List.combine (seq (b + lo) (length l)) l = map (fun p => (b + fst p, snd p)) (List.combine (seq lo (length l)) l).
Proof.
  induction l as [|a l IH]; intros lo; [reflexivity|].
  cbn [length seq List.combine map fst snd]. f_equal. rewrite <- (IH (S lo)). f_equal. f_equal. lia.
Qed.

Lemma enumerate_app {A} (l1 l2 : list A) :
  enumerate (l1 ++ l2) = enumerate l1 ++ map (fun p => (length l1 + fst p, snd p)) (enumerate l2).
Proof.
  unfold enumerate. rewrite app_length, seq_app, combine_app by apply seq_length. f_equal.
  rewrite <- combine_seq_shift. f_equal. f_equal. lia.
Qed.

Lemma fold_right_ext_in' {A B} (f f' : A -> B -> B) l b :
  (forall a c, In a l -> f a c = f' a c) -> fold_right f b l = fold_right f' b l.
Proof.
  induction l as [|a l IH]; intros H; [reflexivity|]. cbn [fold_right].
  rewrite IH by (intros a' c Ha'; apply H; now right). apply H. now left.
Qed.

Lemma permuted_map' {A B} (f : A -> B) (d : A) l p : map f (permuted d l p) = permuted (f d) (map f l) p.
Proof. unfold permuted. rewrite map_map. apply map_ext. intros q. symmetry. apply map_nth. Qed.

Lemma Forall2_map_both {A B C} (P : B -> C -> Prop) (f : A -> B) (h : A -> C) L :
  (forall g, In g L -> P (f g) (h g)) -> Forall2 P (map f L) (map h L).
Proof.
  induction L as [|g L IH]; intros H; cbn [map]; constructor.
  - apply H. now left.
  - apply IH. intros g' Hg'. apply H. now right.
Qed.

(* the block cut at a box: one (start, length) range per axis *)
Definition shift_in (sl : list (nat * nat)) (idx : list nat) : list nat :=
  map (fun p : nat * nat * nat => fst (fst p) + snd p) (List.combine sl idx).
Definition tbox (R : Ring) (t : tensor R) (sl : list (nat * nat)) : tensor R :=
  build R (map snd sl) (fun idx => get R t (shift_in sl idx)).

Lemma box_shift (sl : list (nat * nat)) : forall (dims idx : list nat),
  Forall2 (fun r d => fst r + snd r <= d) sl dims -> inb (map snd sl) idx = true ->
  inb dims (shift_in sl idx) = true /\ in_range sl (shift_in sl idx) = true /\
  shift_idx sl (shift_in sl idx) = idx.
Proof.
  induction sl as [|[st len] sl IH]; intros dims idx HF Hinb; inversion HF as [|? d ? dims' Hd HF']; subst.
  - destruct idx; [|discriminate]. repeat split; reflexivity.
  - destruct idx as [|i idx]; cbn [map snd inb] in Hinb; [discriminate|].
    apply andb_true_iff in Hinb. destruct Hinb as [Hi Hinb]. apply Nat.ltb_lt in Hi.
    destruct (IH dims' idx HF' Hinb) as (I1 & I2 & I3). cbn [fst snd] in Hd.
    unfold shift_in in *. cbn [List.combine map fst snd]. split; [|split].
    + cbn [inb]. rewrite I1. apply andb_true_iff. split; [apply Nat.ltb_lt; lia|reflexivity].
    + rewrite in_range_cons. cbn [fst snd]. rewrite I2.
      replace (Nat.leb st (st + i)) with true by (symmetry; apply Nat.leb_le; lia).
      replace (Nat.ltb (st + i) (st + len)) with true by (symmetry; apply Nat.ltb_lt; lia). reflexivity.
    + unfold shift_idx in *. rewrite shift_cons. cbn [fst]. rewrite I3. f_equal. lia.
Qed.

(* ------------------------------------------------------------------ *)
(* Part 5: fuse_core for a list of groups *)
Section GroupsFuse.
  Context (G : Symmetry) (R : Ring) (GL : GroupLaws G) (OL : OrderLaws G).
  Context (x : aarray G R) (groups : list (list nat)).
  Context (Hwf : wf_array G R x = true).
  Context (Hg_ne : Forall (fun g => g <> []) groups) (Hg_nd : NoDup (concat groups))
          (Hg_rng : Forall (fun ax => ax < length (indices G R x)) (concat groups)).

  Notation keq := (list_eqb (ceqb G)).
  Notation ixs := (indices G R x).
  Notation n := (length (indices G R x)).
  Notation secs := (sectors G R x).
  Notation dflt := (dflt_index G).
  Notation idc := (ident G).
  Notation SL := (slots (length (indices G R x)) groups).
  Notation perm := (fuse_perm (length (indices G R x)) groups).
  Notation FI := (fused_index G (indices G R x) (sectors G R x)).
  Notation nixs := (fused_indices G (indices G R x) (sectors G R x) groups).
  Notation NS := (fused_sector G (indices G R x) groups).
  Notation gc := (group_charge G (indices G R x)).
  Notation gsz := (group_size G (indices G R x)).
  Notation sub := (group_subsector G).
  Notation szf := (sz G R x).
  Notation rng := (slot_range G (indices G R x) (sectors G R x)).

  Lemma Hkq' : eqb_spec_on keq.
  Proof. apply (Hke G GL). Qed.

  Lemma wfp :
    Forall (fun ix => wf_index G ix = true) ixs /\ NoDup secs /\
    forall s b, In (s, b) (blocks G R x) ->
      length s = n /\
      (forall ax, ax < n -> mem (ceqb G) (nth ax s idc) (icharges G (nth ax ixs dflt)) = true) /\
      tshape b = block_shape G ixs s /\ length (tdata b) = shape_size (tshape b).
  Proof. exact (wf_parts G R GL x [0; 0] Hwf (le_n 2)). Qed.

  Lemma secs_ex s : In s secs -> exists b, In (s, b) (blocks G R x).
  Proof. unfold sectors. intros H. apply in_map_iff in H. destruct H as ([s' b] & <- & Hin). now exists b. Qed.

  Lemma slot_facts g : In g SL -> NoDup g /\ Forall (fun ax => ax < n) g /\ g <> [].
  Proof.
    intros Hg. split; [|split].
    - now apply (slots_NoDup n groups Hg_nd Hg_rng).
    - now apply (slots_lt n groups Hg_rng).
    - now apply (slots_ne n groups Hg_ne).
  Qed.

  Lemma singlet_inv (g : list nat) : is_singlet g = true -> exists ax, g = [ax].
  Proof. destruct g as [|a [|b g]]; try discriminate. intros _. now exists a. Qed.

  Lemma nonsinglet_len (g : list nat) : g <> [] -> is_singlet g = false -> 2 <= length g.
  Proof. destruct g as [|a [|b g]]; [congruence|discriminate|]. intros _ _. cbn [length]. lia. Qed.

  Lemma gsz_eq s g : gsz s g = shape_size (map (szf s) g).
  Proof. reflexivity. Qed.

  Lemma rng_ok s g : In s secs -> In g SL ->
    snd (rng s g) = gsz s g /\ fst (rng s g) + gsz s g <= size_of G (FI g) (gc s g).
  Proof.
    intros Hs Hg. destruct (slot_facts g Hg) as (Hnd & Hlt & Hne).
    destruct (is_singlet g) eqn:Es.
    - apply singlet_inv in Es. destruct Es as (ax & ->).
      unfold slot_range, group_size, fused_index, group_charge.
      cbn [is_singlet length Nat.eqb hd map nprod fold_right fst snd]. lia.
    - pose proof (nonsinglet_len g Hne Es) as Hlen.
      destruct (rng_spec G R GL OL x g Hwf Hlt Hlen s Hs) as (e & st & He & Hlk & Hr & Hle).
      unfold slot_range. rewrite Es, Hr. cbn [fst snd]. split; [reflexivity|exact Hle].
  Qed.

  Lemma rng_disj s s' g : In s secs -> In s' secs -> In g SL -> gc s g = gc s' g -> sub s g <> sub s' g ->
    disj (rng s g) (rng s' g).
  Proof.
    intros Hs Hs' Hg Hc Hsub. destruct (slot_facts g Hg) as (Hnd & Hlt & Hne).
    destruct (is_singlet g) eqn:Es.
    - exfalso. apply singlet_inv in Es. destruct Es as (ax & ->). apply Hsub.
      unfold group_charge in Hc. cbn [is_singlet length Nat.eqb hd] in Hc.
      unfold group_subsector, take_axes. cbn [map]. now rewrite Hc.
    - pose proof (nonsinglet_len g Hne Es) as Hlen.
      destruct (rng_spec G R GL OL x g Hwf Hlt Hlen s Hs) as (e & st & He & Hlk & Hr & _).
      destruct (rng_spec G R GL OL x g Hwf Hlt Hlen s' Hs') as (e' & st' & He' & Hlk' & Hr' & _).
      rewrite <- Hc in He'. rewrite He in He'. inversion He'. subst e'.
      destruct (ext_facts G R GL OL x g Hwf Hlt Hlen s Hs) as (e2 & He2 & Hnde & _). rewrite He in He2. inversion He2. subst e2.
      destruct (ranges_partition keq Hkq' e Hnde) as (_ & _ & Hdis & _).
      unfold slot_range. rewrite Es, Hr, Hr'. exact (Hdis _ _ _ _ Hlk Hlk' Hsub).
  Qed.

  Lemma Pperm' : is_perm perm.
  Proof. now apply gperm_is_perm. Qed.
  Lemma Plen' : length perm = n.
  Proof. now apply gperm_length. Qed.
  Lemma PIn' ax : In ax perm <-> ax < n.
  Proof. now apply gperm_In. Qed.

  Lemma NS_inj' s s' : length s = n -> length s' = n -> (forall g, In g SL -> sub s g = sub s' g) -> s = s'.
  Proof.
    intros Hl Hl' H. apply (permuted_inj idc perm); [exact Pperm'|rewrite Plen'; exact Hl|rewrite Plen'; exact Hl'|].
    unfold permuted. apply map_ext_in. intros ax Hax.
    rewrite <- (concat_slots n groups) in Hax. apply in_concat in Hax. destruct Hax as (g & Hg & Hax).
    specialize (H g Hg). unfold group_subsector, take_axes in H.
    rewrite map_ext_in_iff in H. now apply H.
  Qed.

  Lemma NS_eq' s : NS s = map (gc s) SL.
  Proof. apply fused_sector_slots. Qed.

  Lemma NS_gc' s s' g : NS s = NS s' -> In g SL -> gc s g = gc s' g.
  Proof. rewrite !NS_eq'. intros H Hg. rewrite map_ext_in_iff in H. now apply H. Qed.

  Lemma block_shape_FI s L : block_shape G (map FI L) (map (gc s) L) = map (fun g => size_of G (FI g) (gc s g)) L.
  Proof. unfold block_shape. rewrite combine_map_map, map_map. reflexivity. Qed.

  Lemma szf_nth s b ax : In (s, b) (blocks G R x) -> ax < n -> nth ax (tshape b) 0 = szf s ax.
  Proof.
    intros Hin Hax. destruct wfp as (_ & _ & H). destruct (H _ _ Hin) as (Hl & _ & Hsh & _).
    rewrite Hsh. exact (block_shape_ixs G R x [0; 0] (le_n 2) s ax Hl Hax).
  Qed.

  Lemma tshape_perm' s b : In (s, b) (blocks G R x) ->
    permuted 0 (tshape b) perm = concat (map (map (szf s)) SL).
  Proof.
    intros Hin. rewrite <- concat_map, (concat_slots n groups). unfold permuted.
    apply map_ext_in. intros ax Hax. apply (szf_nth s b ax Hin). now apply PIn'.
  Qed.

  (* the box-scatter view of fuse_core *)
  Definition Fkey (sb : list (C G) * tensor R) : list (C G) := NS (fst sb).
  Definition Fsel (sb : list (C G) * tensor R) : list (nat * nat) := map (rng (fst sb)) SL.
  Definition Fsrc (sb : list (C G) * tensor R) : tensor R :=
    treshape R (ttranspose R (snd sb) perm) (map (gsz (fst sb)) SL).
  Definition Fshape (k : list (C G)) : list nat := block_shape G (map FI SL) k.

  Lemma fuse_core_box :
    blocks G R (fuse_core G R x groups) = box_fold R keq Fkey Fsel Fsrc Fshape (blocks G R x).
  Proof.
    unfold fuse_core. cbn [blocks]. unfold box_fold. apply fold_left_ext.
    intros acc sb _. unfold box_step, Fkey, Fsel, Fsrc, Fshape. cbn zeta.
    now rewrite fuse_selector_slots, fused_shape_slots, fused_indices_slots.
  Qed.

  Lemma Fsel_eq s : In s secs ->
    map (rng s) SL = zsel (fun g => fst (rng s g)) (fun g => map (szf s) g) SL.
  Proof.
    intros Hs. unfold zsel. apply map_ext_in. intros g Hg.
    destruct (rng_ok s g Hs Hg) as [H1 _]. rewrite <- gsz_eq, <- H1. now destruct (rng s g).
  Qed.

  Lemma blocks_NoDup' : NoDup (blocks G R x).
  Proof. apply NoDup_map_fst_NoDup. apply wfp. Qed.

  Lemma Fshape_len s : length (Fshape (NS s)) = length SL.
  Proof. unfold Fshape. rewrite NS_eq', block_shape_FI. now rewrite map_length. Qed.

  Lemma Fdisj sb sb' : In sb (blocks G R x) -> In sb' (blocks G R x) -> sb <> sb' -> Fkey sb = Fkey sb' ->
    forall idx, inb (Fshape (Fkey sb)) idx = true -> in_range (Fsel sb) idx = true -> in_range (Fsel sb') idx = false.
  Proof.
    destruct sb as [s b], sb' as [s' b']. unfold Fkey, Fsel. cbn [fst snd]. intros Hin Hin' Hne HNS idx Hinb Hr.
    destruct (in_range (map (rng s') SL) idx) eqn:Hr'; [exfalso|reflexivity].
    destruct wfp as (_ & Hnd & H).
    destruct (H _ _ Hin) as (Hl & _). destruct (H _ _ Hin') as (Hl' & _).
    assert (Hss : s <> s').
    { intros E. apply Hne. apply (NoDup_map_fst_inj (blocks G R x)); [exact Hnd|exact Hin|exact Hin'|exact E]. }
    assert (Hlen : length idx = length SL) by (rewrite (inb_length _ _ Hinb); apply Fshape_len).
    destruct (forallb (fun g => keq (sub s g) (sub s' g)) SL) eqn:E.
    - apply Hss. apply NS_inj'; [exact Hl|exact Hl'|]. intros g Hg. rewrite forallb_forall in E. apply Hkq'. now apply E.
    - apply forallb_false_ex in E. destruct E as (g & Hg & Ef).
      assert (Hsub : sub s g <> sub s' g).
      { intros E. apply Hkq' in E. congruence. }
      pose proof (rng_disj s s' g (In_secs G R x s b Hin) (In_secs G R x s' b' Hin') Hg (NS_gc' s s' g HNS Hg) Hsub) as Hd.
      pose proof (in_range_Forall2 (rng s) SL idx Hlen Hr) as F1.
      pose proof (in_range_Forall2 (rng s') SL idx Hlen Hr') as F2.
      destruct (Forall2_In_l _ _ _ g (Forall2_and _ _ _ _ F1 F2) Hg) as (i & Hi1 & Hi2).
      unfold disj in Hd. lia.
  Qed.

  Definition FBg := blocks G R (fuse_core G R x groups).

  Lemma FBg_spec :
    NoDup (map fst FBg) /\
    (forall k, In k (map fst FBg) <-> exists sb, In sb (blocks G R x) /\ Fkey sb = k) /\
    (forall k T, lookup keq k FBg = Some T -> tshape T = Fshape k /\ length (tdata T) = shape_size (Fshape k)) /\
    (forall sb, In sb (blocks G R x) -> exists T, lookup keq (Fkey sb) FBg = Some T /\
       forall idx, inb (Fshape (Fkey sb)) idx = true -> in_range (Fsel sb) idx = true ->
                   get R T idx = get R (Fsrc sb) (shift_idx (Fsel sb) idx)) /\
    (forall k T idx, lookup keq k FBg = Some T -> inb (Fshape k) idx = true ->
       (forall sb, In sb (blocks G R x) -> Fkey sb = k -> in_range (Fsel sb) idx = false) -> get R T idx = r0 R).
  Proof.
    unfold FBg. rewrite fuse_core_box.
    apply (box_spec R keq Hkq' Fkey Fsel Fsrc Fshape (blocks G R x) blocks_NoDup' Fdisj).
  Qed.

  (* ---------------- the level invariant ----------------
     L = slots still fused, Rr = slots already unfused (or singlets passed over) *)
  Definition Fof (s : list (C G)) (g : list nat) (u : list nat) : nat :=
    fst (rng s g) + offset (map (szf s) g) u.
  Definition Pin (s : list (C G)) (g : list nat) (u : list nat) : Prop := inb (map (szf s) g) u = true.
  Definition IXl (L Rr : list (list nat)) : list (index G) :=
    map FI L ++ map (fun ax => nth ax ixs dflt) (concat Rr).
  Definition Kof (s : list (C G)) (L Rr : list (list nat)) : list (C G) :=
    map (gc s) L ++ take_axes idc s (concat Rr).
  Definition Iof (s : list (C G)) (L : list (list nat)) (UL UR : list (list nat)) : list nat :=
    zipw (Fof s) L UL ++ concat UR.

  Record LevelInv (L Rr : list (list nat)) (Y : aarray G R) : Prop := mkLI {
    li_ix : indices G R Y = IXl L Rr;
    li_q : charge G R Y = charge G R x;
    li_nd : NoDup (sectors G R Y);
    li_shape : forall K T, In (K, T) (blocks G R Y) ->
      length K = length (IXl L Rr) /\ tshape T = block_shape G (IXl L Rr) K /\
      length (tdata T) = shape_size (tshape T);
    li_own : forall s b, In (s, b) (blocks G R x) ->
      exists T, lookup keq (Kof s L Rr) (blocks G R Y) = Some T /\
        forall UL UR, Forall2 (Pin s) L UL -> Forall2 (Pin s) Rr UR ->
          get R T (Iof s L UL UR) = get R (ttranspose R b perm) (concat UL ++ concat UR);
    li_zero : forall K T idx, In (K, T) (blocks G R Y) -> inb (tshape T) idx = true ->
      (forall s b UL UR, In (s, b) (blocks G R x) -> K = Kof s L Rr ->
         Forall2 (Pin s) L UL -> Forall2 (Pin s) Rr UR -> idx <> Iof s L UL UR) ->
      get R T idx = r0 R }.

  Lemma Pin_lengths s L US : Forall2 (Pin s) L US ->
    Forall2 (fun sh u => length u = length sh) (map (map (szf s)) L) US.
  Proof.
    intros H. apply Forall2_map_l'. eapply Forall2_impl'; [|exact H].
    intros g u _ Hp. now apply inb_length.
  Qed.

  Lemma Pin_inb s L US : Forall2 (Pin s) L US ->
    Forall2 (fun sh u => inb sh u = true) (map (map (szf s)) L) US.
  Proof.
    intros H. apply Forall2_map_l'. eapply Forall2_impl'; [|exact H]. intros g u _ Hp. exact Hp.
  Qed.

  Lemma zip_facts s L UL : In s secs -> incl L SL -> Forall2 (Pin s) L UL ->
    inb (map (fun g => size_of G (FI g) (gc s g)) L) (zipw (Fof s) L UL) = true /\
    in_range (map (rng s) L) (zipw (Fof s) L UL) = true /\
    shift_idx (map (rng s) L) (zipw (Fof s) L UL) = zipw (fun g u => offset (map (szf s) g) u) L UL.
  Proof.
    intros Hs Hincl HP.
    assert (Hsel : map (rng s) L = zsel (fun g => fst (rng s g)) (fun g => map (szf s) g) L).
    { unfold zsel. apply map_ext_in. intros g Hg.
      destruct (rng_ok s g Hs (Hincl g Hg)) as [H1 _]. rewrite <- gsz_eq, <- H1. now destruct (rng s g). }
    rewrite Hsel.
    apply (zip_box (fun g => fst (rng s g)) (fun g => map (szf s) g) (fun g => size_of G (FI g) (gc s g)) L UL HP).
    intros g Hg. rewrite <- gsz_eq. apply (rng_ok s g Hs (Hincl g Hg)).
  Qed.

  Lemma level_init : LevelInv SL [] (fuse_core G R x groups).
  Proof.
    destruct FBg_spec as (Snd & Skeys & Sshape & Sown & Szero). fold FBg.
    assert (HIX : IXl SL [] = map FI SL) by (unfold IXl; cbn [concat map]; apply app_nil_r).
    constructor.
    - rewrite HIX. cbn [fuse_core indices]. apply fused_indices_slots.
    - reflexivity.
    - exact Snd.
    - intros K T Hin. change (blocks G R (fuse_core G R x groups)) with FBg in Hin.
      assert (Hlk : lookup keq K FBg = Some T) by (now apply (In_lookup keq Hkq')).
      destruct (Sshape _ _ Hlk) as [Hsh Hlen]. rewrite HIX. fold (Fshape K).
      split; [|split; [exact Hsh|now rewrite Hsh]].
      assert (HK : In K (map fst FBg)) by (apply in_map_iff; exists (K, T); now split).
      apply Skeys in HK. destruct HK as ([s b] & _ & <-). unfold Fkey. cbn [fst].
      now rewrite NS_eq', !map_length.
    - intros s b Hin. destruct (Sown _ Hin) as (T & HT & Hget). unfold Fkey, Fsel, Fsrc in *. cbn [fst snd] in *.
      exists T. split.
      { change (blocks G R (fuse_core G R x groups)) with FBg. unfold Kof. cbn [concat take_axes map].
        now rewrite app_nil_r, <- NS_eq'. }
      intros UL UR HUL HUR. inversion HUR. subst UR. unfold Iof. cbn [concat]. rewrite !app_nil_r.
      destruct (zip_facts s SL UL (In_secs G R x s b Hin) (incl_refl _) HUL) as (Z1 & Z2 & Z3).
      rewrite Hget; [|unfold Fshape; rewrite NS_eq', block_shape_FI; exact Z1|exact Z2].
      rewrite Z3. unfold get, treshape. cbn [tshape tdata]. f_equal.
      unfold ttranspose. rewrite tshape_build, (tshape_perm' s b Hin).
      rewrite (offset_concat _ _ (Pin_lengths s SL UL HUL)), map_map, zipw_map_l. reflexivity.
    - intros K T idx Hin Hinb Hno. change (blocks G R (fuse_core G R x groups)) with FBg in Hin.
      assert (Hlk : lookup keq K FBg = Some T) by (now apply (In_lookup keq Hkq')).
      destruct (Sshape _ _ Hlk) as [Hsh Hlen]. rewrite Hsh in Hinb.
      apply (Szero K T idx Hlk Hinb). intros [s b] Hsb Hkey. unfold Fkey, Fsel in *. cbn [fst] in *.
      destruct (in_range (map (rng s) SL) idx) eqn:Hr; [exfalso|reflexivity].
      rewrite (Fsel_eq s (In_secs G R x s b Hsb)) in Hr.
      assert (Hl : length idx = length SL) by (rewrite (inb_length _ _ Hinb), <- Hkey; apply Fshape_len).
      destruct (zip_box_inv (fun g => fst (rng s g)) (fun g => map (szf s) g) (fun _ => 0) SL idx Hl Hr) as (US & HUS & Hidx).
      apply (Hno s b US [] Hsb).
      + unfold Kof. cbn [concat take_axes map]. now rewrite app_nil_r, <- NS_eq'.
      + exact HUS.
      + constructor.
      + unfold Iof. cbn [concat]. now rewrite app_nil_r.
  Qed.
  (* ---------------- one unfuse step ---------------- *)
  Notation extg g := (extF G (SI G (indices G R x) (sectors G R x) g)).
  Notation subsg g := (subs_of G (indices G R x) g).
  Notation nthix := (fun ax => nth ax (indices G R x) (dflt_index G)).

  Lemma ext_entry g c e : In g SL -> is_singlet g = false ->
    lookup (ceqb G) c (extg g) = Some e ->
    NoDup (map fst e) /\ nsum (map snd e) = size_of G (FI g) c /\
    Forall (fun p => exists s', In s' secs /\ fst p = sub s' g /\ snd p = gsz s' g /\ gc s' g = c) e.
  Proof.
    intros Hg Es He. destruct (slot_facts g Hg) as (Hnd & Hlt & Hne).
    pose proof (nonsinglet_len g Hne Es) as Hlen. pose proof He as He0.
    destruct (fold_tables G GL (SI G ixs secs g) (SI_NoDup G GL OL ixs secs g)) as (_ & _ & _ & Hext).
    rewrite Hext in He. destruct (selc G c (SI G ixs secs g)) as [|p F] eqn:Esel; [discriminate|]. clear He.
    assert (Hp : In p (selc G c (SI G ixs secs g))) by (rewrite Esel; now left).
    apply (selc_In G GL) in Hp. destruct Hp as [Hp Hc].
    destruct (SI_entry G GL ixs secs g p Hp) as (s' & Hs' & ->). cbn [fst snd] in Hc.
    destruct (ext_facts G R GL OL x g Hwf Hlt Hlen s' Hs') as (e' & He' & Hnde & Hsum & _ & Hall).
    rewrite Hc in He', Hsum, Hall. rewrite He0 in He'. inversion He'. subst e'.
    split; [exact Hnde|]. split; [exact Hsum|exact Hall].
  Qed.

  Lemma block_shape_RX s axes :
    block_shape G (map nthix axes) (take_axes idc s axes) = map (szf s) axes.
  Proof. unfold block_shape, take_axes. rewrite combine_map_map, map_map. reflexivity. Qed.

  Lemma block_shape_subs s g : block_shape G (subsg g) (sub s g) = map (szf s) g.
  Proof. exact (subshape_sub G R x g s). Qed.

  Lemma inb_RX s Rr UR : Forall2 (Pin s) Rr UR -> inb (map (szf s) (concat Rr)) (concat UR) = true.
  Proof. intros H. rewrite concat_map. apply inb_concat. now apply Pin_inb. Qed.

  Lemma IXl_snoc L g Rr : IXl (L ++ [g]) Rr = map FI L ++ FI g :: map nthix (concat Rr).
  Proof. unfold IXl. rewrite map_app, <- app_assoc. reflexivity. Qed.
  Lemma IXl_cons L g Rr : IXl L (g :: Rr) = map FI L ++ subsg g ++ map nthix (concat Rr).
  Proof. unfold IXl. cbn [concat]. now rewrite map_app. Qed.
  Lemma Kof_snoc s L g Rr : Kof s (L ++ [g]) Rr = map (gc s) L ++ gc s g :: take_axes idc s (concat Rr).
  Proof. unfold Kof. rewrite map_app, <- app_assoc. reflexivity. Qed.
  Lemma Kof_cons s L g Rr : Kof s L (g :: Rr) = map (gc s) L ++ sub s g ++ take_axes idc s (concat Rr).
  Proof. unfold Kof, group_subsector, take_axes. cbn [concat]. now rewrite map_app. Qed.
  Lemma Iof_snoc s L g UL u UR : length L = length UL ->
    Iof s (L ++ [g]) (UL ++ [u]) UR = zipw (Fof s) L UL ++ Fof s g u :: concat UR.
  Proof. intros Hl. unfold Iof. rewrite zipw_app by exact Hl. rewrite <- app_assoc. reflexivity. Qed.
  Lemma Iof_cons s L UL u UR : Iof s L UL (u :: UR) = zipw (Fof s) L UL ++ u ++ concat UR.
  Proof. reflexivity. Qed.

  Lemma level_step L g Rr Y : incl L SL -> In g SL -> is_singlet g = false ->
    LevelInv (L ++ [g]) Rr Y ->
    exists Y', a_unfuse G R Y (length L) = Some Y' /\ LevelInv L (g :: Rr) Y'.
  Proof.
    intros HL Hg Es Inv. destruct Inv as [I_ix I_q I_nd I_shape I_own I_zero].
    destruct (slot_facts g Hg) as (Hgnd & Hglt & Hgne).
    pose proof (nonsinglet_len g Hgne Es) as Hglen.
    set (ax := length L). set (RX := map nthix (concat Rr)).
    assert (HaxFI : length (map FI L) = ax) by apply map_length.
    assert (Hsub : isub G (nth ax (indices G R Y) dflt) = Some (subsg g, extg g)).
    { rewrite I_ix, IXl_snoc, (nth_middle_len _ _ _ _ ax HaxFI). now apply fused_isub. }
    (* structure of a block of Y *)
    assert (H_block : forall K T, In (K, T) (blocks G R Y) ->
      exists KL c KR, K = KL ++ c :: KR /\ length KL = ax /\ length KR = length RX /\
        tshape T = block_shape G (map FI L) KL ++ size_of G (FI g) c :: block_shape G RX KR /\
        length (tdata T) = shape_size (tshape T)).
    { intros K T Hin. destruct (I_shape K T Hin) as (Hl & Hsh & Hd). rewrite IXl_snoc in Hl, Hsh.
      rewrite app_length in Hl. cbn [length] in Hl. rewrite HaxFI in Hl. fold RX in Hl, Hsh.
      assert (Hax : ax < length K) by lia.
      exists (firstn ax K), (nth ax K idc), (skipn (S ax) K).
      split; [apply split_at_nth; exact Hax|]. split; [rewrite firstn_length; lia|].
      split; [rewrite skipn_length; lia|]. split; [|exact Hd].
      rewrite Hsh. rewrite (split_at_nth K ax idc Hax) at 1.
      rewrite block_shape_app' by (rewrite firstn_length, HaxFI; lia). reflexivity. }
    assert (H_entry : forall c e ss st len, lookup (ceqb G) c (extg g) = Some e -> In (ss, (st, len)) (ranges_from 0 e) ->
      exists s', In s' secs /\ ss = sub s' g /\ len = gsz s' g /\ gc s' g = c /\
                 st + len <= size_of G (FI g) c /\ block_shape G (subsg g) ss = map (szf s') g).
    { intros c e ss st len He Hq. destruct (ext_entry g c e Hg Es He) as (Hnde & Hsum & Hall).
      apply ranges_bounds in Hq. destruct Hq as (_ & Hb & Hine).
      rewrite Forall_forall in Hall. destruct (Hall _ Hine) as (s' & Hs' & Hf & Hsz & Hc). cbn [fst snd] in Hf, Hsz.
      exists s'. split; [exact Hs'|]. split; [exact Hf|]. split; [exact Hsz|]. split; [exact Hc|].
      split; [rewrite <- Hsum; lia|]. rewrite Hf. apply block_shape_subs. }
    assert (Hlen : forall K T, In (K, T) (blocks G R Y) -> ax < length K).
    { intros K T Hin. destruct (H_block K T Hin) as (KL & c & KR & -> & Hl & _). rewrite app_length. cbn [length]. lia. }
    assert (Hext_nd : forall c e, lookup (ceqb G) c (extg g) = Some e -> NoDup (map fst e)).
    { intros c e He. apply (ext_entry g c e Hg Es He). }
    assert (Hent : forall c e ss, lookup (ceqb G) c (extg g) = Some e -> In ss (map fst e) ->
              exists s', In s' secs /\ ss = sub s' g /\ gc s' g = c).
    { intros c e ss He Hss. destruct (ext_entry g c e Hg Es He) as (_ & _ & Hall).
      apply in_map_iff in Hss. destruct Hss as (p & <- & Hp). rewrite Forall_forall in Hall.
      destruct (Hall _ Hp) as (s' & Hs' & Hf & _ & Hc). exists s'. now repeat split. }
    assert (Hext_len : forall c e ss, lookup (ceqb G) c (extg g) = Some e -> In ss (map fst e) -> length ss = length (subsg g)).
    { intros c e ss He Hss. destruct (Hent c e ss He Hss) as (s' & _ & -> & _).
      unfold group_subsector, take_axes, subs_of. now rewrite !map_length. }
    assert (Hext_fun : forall c c' e e' ss, lookup (ceqb G) c (extg g) = Some e -> lookup (ceqb G) c' (extg g) = Some e' ->
             In ss (map fst e) -> In ss (map fst e') -> c = c').
    { intros c c' e e' ss He He' Hss Hss'.
      destruct (Hent c e ss He Hss) as (s1 & _ & E1 & <-). destruct (Hent c' e' ss He' Hss') as (s2 & _ & E2 & <-).
      apply (subsector_determines G ixs secs g (Hsecs' G R GL x g Hwf Hglt Hglen)). congruence. }
    pose proof (gunfuse G R GL Y ax (subsg g) (extg g) Hsub I_nd Hlen Hext_nd Hext_len Hext_fun) as HU.
    pose proof (GUB_NoDup G R Y ax (subsg g) (extg g) I_nd Hlen Hext_nd Hext_len Hext_fun) as HUnd.
    set (UB' := GUB G R Y ax (subsg g) (extg g)) in *.
    eexists. split; [exact HU|].
    (* keys and shapes of the pieces *)
    assert (H_piece : forall K T e ss st len, In (K, T) (blocks G R Y) ->
      lookup (ceqb G) (nth ax K idc) (extg g) = Some e -> In (ss, (st, len)) (ranges_from 0 e) ->
      exists KL c KR s', K = KL ++ c :: KR /\ length KL = ax /\ length KR = length RX /\
        tshape T = block_shape G (map FI L) KL ++ size_of G (FI g) c :: block_shape G RX KR /\
        length (tdata T) = shape_size (tshape T) /\
        lookup (ceqb G) c (extg g) = Some e /\
        In s' secs /\ ss = sub s' g /\ len = gsz s' g /\ gc s' g = c /\ st + len <= size_of G (FI g) c /\
        fst (gpiece G R ax (subsg g) (K, T) (ss, (st, len))) = KL ++ ss ++ KR /\
        tshape (snd (gpiece G R ax (subsg g) (K, T) (ss, (st, len)))) =
          block_shape G (map FI L) KL ++ map (szf s') g ++ block_shape G RX KR).
    { intros K T e ss st len Hin He Hq.
      destruct (H_block K T Hin) as (KL & c & KR & HK & HlKL & HlKR & Hsh & Hd).
      assert (Hc : nth ax K idc = c) by (rewrite HK; now apply nth_middle_len).
      rewrite Hc in He.
      destruct (H_entry c e ss st len He Hq) as (s' & Hs' & Hss & Hlen' & Hgc & Hle & Hbs).
      exists KL, c, KR, s'. repeat (split; [assumption|]). unfold gpiece. cbn [fst snd tshape treshape]. split.
      - rewrite HK. now apply replace_with_seq_middle.
      - rewrite Hsh, Hbs. apply replace_with_seq_middle. rewrite length_block_shape_min; [exact HaxFI|]. now rewrite HlKL, HaxFI. }
    constructor.
    - cbn [indices]. rewrite I_ix, IXl_snoc, IXl_cons. now apply replace_with_seq_middle.
    - cbn [charge]. exact I_q.
    - exact HUnd.
    - (* shapes *)
      intros K' T' Hin'. cbn [blocks] in Hin'. apply (GUB_In G R Y ax) in Hin'.
      destruct Hin' as (K & T & e & [ss [st len]] & Hin & He & Hq & Heq).
      destruct (H_piece K T e ss st len Hin He Hq) as (KL & c & KR & s' & HK & HlKL & HlKR & Hsh & Hd & _ & Hs' & Hss & Hlen' & Hgc & Hle & Hfst & Htsh).
      rewrite <- Heq in Hfst, Htsh. cbn [fst snd] in Hfst, Htsh.
      assert (Hlss : length ss = length g) by (rewrite Hss; unfold group_subsector, take_axes; apply map_length).
      rewrite IXl_cons. fold RX. split; [|split].
      + rewrite Hfst, !app_length, HlKL, HlKR, Hlss, HaxFI. unfold subs_of. now rewrite map_length.
      + rewrite Htsh, Hfst. rewrite block_shape_app' by (now rewrite HlKL, HaxFI).
        rewrite block_shape_app' by (rewrite Hlss; unfold subs_of; now rewrite map_length).
        now rewrite Hss, block_shape_subs.
      + rewrite Htsh. inversion Heq. cbn [fst snd treshape tdata].
        unfold tslice. rewrite length_tdata_build, Hsh, (set_nth_middle _ _ _ len ax).
        * rewrite !shape_size_app. change (shape_size (len :: block_shape G RX KR)) with (len * shape_size (block_shape G RX KR)).
          now rewrite Hlen', gsz_eq.
        * rewrite length_block_shape_min; [exact HaxFI|]. now rewrite HlKL, HaxFI.
    - (* stored blocks *)
      intros s b Hsb. pose proof (In_secs G R x s b Hsb) as Hs.
      destruct (I_own s b Hsb) as (T & HT & Hget).
      destruct (rng_spec G R GL OL x g Hwf Hglt Hglen s Hs) as (e & st & He & Hlk & Hr & Hle).
      apply (lookup_In keq Hkq') in HT. rewrite Kof_snoc in HT.
      set (K := map (gc s) L ++ gc s g :: take_axes idc s (concat Rr)) in *.
      assert (HaxK : length (map (gc s) L) = ax) by apply map_length.
      assert (Hc : nth ax K idc = gc s g) by (unfold K; now apply nth_middle_len).
      assert (Hq : In (sub s g, (st, gsz s g)) (ranges_from 0 e)) by (now apply (lookup_In keq Hkq')).
      assert (HinU : In (gpiece G R ax (subsg g) (K, T) (sub s g, (st, gsz s g))) UB').
      { apply (GUB_In G R Y ax). exists K, T, e, (sub s g, (st, gsz s g)). rewrite Hc. now repeat split. }
      exists (snd (gpiece G R ax (subsg g) (K, T) (sub s g, (st, gsz s g)))). split.
      + cbn [blocks]. apply (In_lookup keq Hkq'); [exact HUnd|].
        replace (Kof s L (g :: Rr)) with (fst (gpiece G R ax (subsg g) (K, T) (sub s g, (st, gsz s g)))).
        * now destruct (gpiece G R ax (subsg g) (K, T) (sub s g, (st, gsz s g))).
        * unfold gpiece. cbn [fst]. rewrite Kof_cons. unfold K. now apply replace_with_seq_middle.
      + intros UL UR' HUL HUR'. inversion HUR' as [|g0 u Rr0 UR Hu HUR]; subst.
        rewrite Iof_cons. unfold gpiece. cbn [fst snd].
        destruct (I_shape K T HT) as (_ & Hsh & _). rewrite IXl_snoc in Hsh. unfold K in Hsh.
        rewrite block_shape_app' in Hsh by (now rewrite !map_length).
        change (block_shape G (FI g :: map nthix (concat Rr)) (gc s g :: take_axes idc s (concat Rr)))
          with (size_of G (FI g) (gc s g) :: block_shape G (map nthix (concat Rr)) (take_axes idc s (concat Rr))) in Hsh.
        rewrite block_shape_FI, block_shape_RX in Hsh.
        destruct (zip_facts s L UL Hs HL HUL) as (Z1 & _ & _).
        rewrite (piece_get R T ax st (gsz s g) _ _ _ (block_shape G (subsg g) (sub s g)) _ u _ Hsh);
          [|now rewrite map_length|now rewrite block_shape_subs|exact Hle|exact Z1|rewrite block_shape_subs; exact Hu|now apply inb_RX].
        rewrite block_shape_subs.
        pose proof (Hget (UL ++ [u]) UR (Forall2_app' _ _ _ _ _ HUL (Forall2_cons _ _ Hu (Forall2_nil _))) HUR) as Hg2.
        rewrite (Iof_snoc s L g UL u UR (Forall2_length' _ _ _ HUL)) in Hg2.
        unfold Fof at 2 in Hg2. unfold slot_range in Hg2. rewrite Es, Hr in Hg2. cbn [fst] in Hg2.
        rewrite Hg2. f_equal. rewrite concat_app. cbn [concat]. now rewrite app_nil_r, <- app_assoc.
    - (* everything else is zero *)
      intros K' T' idx' Hin' Hinb' Hno. cbn [blocks] in Hin'. apply (GUB_In G R Y ax) in Hin'.
      destruct Hin' as (K & T & e & [ss [st len]] & Hin & He & Hq & Heq).
      destruct (H_piece K T e ss st len Hin He Hq) as (KL & c & KR & s' & HK & HlKL & HlKR & Hsh & Hd & Hec & Hs' & Hss & Hlen' & Hgc & Hle & Hfst & Htsh).
      assert (HK' : K' = KL ++ ss ++ KR) by (rewrite <- Hfst, <- Heq; reflexivity).
      assert (HT' : T' = snd (gpiece G R ax (subsg g) (K, T) (ss, (st, len)))) by (rewrite <- Heq; reflexivity).
      rewrite HT' in Hinb'. rewrite Htsh in Hinb'.
      apply inb_split in Hinb'. destruct Hinb' as (iL & i2 & -> & HiL & Hi2).
      apply inb_split in Hi2. destruct Hi2 as (sub0 & iR & -> & Hsub0 & HiR).
      rewrite HT'. unfold gpiece. cbn [fst snd].
      assert (Hbs : block_shape G (subsg g) ss = map (szf s') g) by (rewrite Hss; apply block_shape_subs).
      assert (HlshL : length (block_shape G (map FI L) KL) = ax).
      { rewrite length_block_shape_min; [exact HaxFI|]. now rewrite HlKL, HaxFI. }
      rewrite (piece_get R T ax st len _ _ _ (block_shape G (subsg g) ss) iL sub0 iR Hsh HlshL);
        [|rewrite Hbs, Hlen'; apply gsz_eq|exact Hle|exact HiL|rewrite Hbs; exact Hsub0|exact HiR].
      rewrite Hbs.
      pose proof (offset_lt _ _ Hsub0) as Hoff. rewrite <- gsz_eq, <- Hlen' in Hoff.
      apply (I_zero K T _ Hin).
      + rewrite Hsh. rewrite inb_app_iff by (rewrite (inb_length _ _ HiL); reflexivity).
        rewrite HiL. cbn [inb andb]. rewrite HiR. apply andb_true_iff. split; [apply Nat.ltb_lt; lia|reflexivity].
      + intros s b ULg UR Hsb HKeq HULg HUR Hidx.
        pose proof (In_secs G R x s b Hsb) as Hs.
        apply Forall2_app_inv_l' in HULg. destruct HULg as (UL & m2 & -> & HUL & Hm2).
        assert (Hm2' : exists u, m2 = [u] /\ Pin s g u).
        { inversion Hm2 as [|g0 u l0 m0 Hu Hnil]. inversion Hnil. now exists u. }
        destruct Hm2' as (u & -> & Hu). clear Hm2.
        rewrite (Iof_snoc s L g UL u UR (Forall2_length' _ _ _ HUL)) in Hidx.
        apply app_inv_len in Hidx; [|rewrite (inb_length _ _ HiL), HlshL, zipw_length; [reflexivity|exact (Forall2_length' _ _ _ HUL)]].
        destruct Hidx as [HiLeq Hidx]. inversion Hidx as [[Hpt HiReq]]. clear Hidx.
        rewrite Kof_snoc, HK in HKeq.
        apply app_inv_len in HKeq; [|now rewrite HlKL, map_length]. destruct HKeq as [HKL HKeq].
        inversion HKeq as [[Hcs HKR]]. clear HKeq.
        destruct (rng_spec G R GL OL x g Hwf Hglt Hglen s Hs) as (e2 & st2 & He2 & Hlk2 & Hr2 & Hle2).
        rewrite <- Hcs, Hec in He2. inversion He2. subst e2. clear He2.
        destruct (ext_entry g c e Hg Es Hec) as (Hnde & _ & _).
        pose proof (ranges_lookup_In G GL e ss (st, len) Hnde Hq) as Hlk1.
        unfold Fof in Hpt. unfold slot_range in Hpt. rewrite Es, Hr2 in Hpt. cbn [fst] in Hpt.
        pose proof (offset_lt _ _ Hu) as Hoff2. rewrite <- gsz_eq in Hoff2.
        destruct (ranges_partition keq Hkq' e Hnde) as (_ & _ & _ & _ & Huniq).
        assert (Hsseq : ss = sub s g).
        { apply (Huniq (st + offset (map (szf s') g) sub0) ss (sub s g) (st, len) (st2, gsz s g) Hlk1 Hlk2); cbn [fst snd]; lia. }
        rewrite Hsseq in Hlk1. rewrite Hlk2 in Hlk1. inversion Hlk1. subst st2.
        assert (Hshapes : map (szf s') g = map (szf s) g).
        { rewrite <- Hbs, Hsseq. apply block_shape_subs. }
        rewrite Hshapes in Hpt, Hsub0.
        assert (Hu0 : sub0 = u) by (apply (offset_inj (map (szf s) g)); [exact Hsub0|exact Hu|lia]).
        apply (Hno s b UL (u :: UR) Hsb).
        * rewrite HK', Kof_cons, HKL, HKR, Hsseq. reflexivity.
        * exact HUL.
        * constructor; assumption.
        * rewrite Iof_cons, HiLeq, Hu0, HiReq. reflexivity.
  Qed.
  (* ---------------- a singlet slot is passed over ---------------- *)
  Lemma IXl_skip L a0 Rr : IXl (L ++ [[a0]]) Rr = IXl L ([a0] :: Rr).
  Proof. rewrite IXl_snoc, IXl_cons. reflexivity. Qed.
  Lemma Kof_skip s L a0 Rr : Kof s (L ++ [[a0]]) Rr = Kof s L ([a0] :: Rr).
  Proof. rewrite Kof_snoc, Kof_cons. reflexivity. Qed.
  Lemma Iof_skip s L a0 UL u UR : length L = length UL -> Pin s [a0] u ->
    Iof s (L ++ [[a0]]) (UL ++ [u]) UR = Iof s L UL (u :: UR).
  Proof.
    intros Hl Hu. rewrite Iof_snoc by exact Hl. rewrite Iof_cons. f_equal.
    unfold Pin in Hu. cbn [map] in Hu. destruct u as [|o [|o' u]]; cbn [inb] in Hu; try discriminate.
    - cbn [app]. f_equal. unfold Fof, slot_range. cbn [is_singlet length Nat.eqb fst map offset].
      change (shape_size []) with 1. lia.
    - rewrite andb_false_r in Hu. discriminate.
  Qed.

  Lemma level_skip L a0 Rr Y : LevelInv (L ++ [[a0]]) Rr Y -> LevelInv L ([a0] :: Rr) Y.
  Proof.
    intros [I_ix I_q I_nd I_shape I_own I_zero]. constructor.
    - now rewrite <- IXl_skip.
    - exact I_q.
    - exact I_nd.
    - intros K T Hin. rewrite <- IXl_skip. now apply I_shape.
    - intros s b Hsb. destruct (I_own s b Hsb) as (T & HT & Hget). exists T. split; [now rewrite <- Kof_skip|].
      intros UL UR' HUL HUR'. inversion HUR' as [|g0 u Rr0 UR Hu HUR]; subst.
      rewrite <- (Iof_skip s L a0 UL u UR (Forall2_length' _ _ _ HUL) Hu).
      rewrite (Hget (UL ++ [u]) UR (Forall2_app' _ _ _ _ _ HUL (Forall2_cons _ _ Hu (Forall2_nil _))) HUR).
      f_equal. rewrite concat_app. cbn [concat]. now rewrite app_nil_r, <- app_assoc.
    - intros K T idx Hin Hinb Hno. apply (I_zero K T idx Hin Hinb).
      intros s b ULg UR Hsb HK HULg HUR.
      apply Forall2_app_inv_l' in HULg. destruct HULg as (UL & m2 & -> & HUL & Hm2).
      assert (Hm2' : exists u, m2 = [u] /\ Pin s [a0] u).
      { inversion Hm2 as [|g0 u l0 m0 Hu Hnil]. inversion Hnil. now exists u. }
      destruct Hm2' as (u & -> & Hu).
      rewrite (Iof_skip s L a0 UL u UR (Forall2_length' _ _ _ HUL) Hu).
      apply (Hno s b UL (u :: UR) Hsb); [now rewrite <- Kof_skip|exact HUL|constructor; assumption].
  Qed.

  (* ---------------- iterating over the slots, last first ---------------- *)
  Definition unfuse_step (pos : nat) (p : nat * list nat) (acc : option (aarray G R)) : option (aarray G R) :=
    match acc with
    | Some y => if is_singlet (snd p) then Some y else a_unfuse G R y (pos + fst p)
    | None => None
    end.
  (* unfuse the fused (non-singlet) groups one after another, from the last group to the first *)
  Definition unfuse_groups (y : aarray G R) (pos : nat) (gs : list (list nat)) : option (aarray G R) :=
    fold_right (unfuse_step pos) (Some y) (enumerate gs).

  Lemma level_run : forall L Rr Y, L ++ Rr = SL -> LevelInv L Rr Y ->
    exists Yf, fold_right (unfuse_step 0) (Some Y) (enumerate L) = Some Yf /\ LevelInv [] SL Yf.
  Proof.
    induction L as [|g L IH] using rev_ind; intros Rr Y HSL Inv.
    - exists Y. cbn [app] in HSL. subst Rr. split; [reflexivity|exact Inv].
    - rewrite enumerate_app, fold_right_app. cbn [enumerate length seq List.combine map fold_right fst snd].
      rewrite Nat.add_0_r. unfold unfuse_step at 2. cbn [fst snd Nat.add].
      rewrite <- app_assoc in HSL. cbn [app] in HSL.
      assert (Hg : In g SL) by (rewrite <- HSL; apply in_or_app; right; now left).
      assert (HL : incl L SL) by (intros g' Hg'; rewrite <- HSL; apply in_or_app; now left).
      destruct (is_singlet g) eqn:Es.
      + apply singlet_inv in Es. destruct Es as (a0 & ->).
        apply (IH ([a0] :: Rr) Y HSL). now apply level_skip.
      + destruct (level_step L g Rr Y HL Hg Es Inv) as (Y' & HU & Inv'). rewrite HU.
        apply (IH (g :: Rr) Y' HSL Inv').
  Qed.

  Lemma unfuse_step_singlet pos p acc : is_singlet (snd p) = true -> unfuse_step pos p acc = acc.
  Proof. intros H. unfold unfuse_step. destruct acc; [|reflexivity]. now rewrite H. Qed.

  Lemma fold_right_id {A B} (f : A -> B -> B) E acc : (forall p c, In p E -> f p c = c) -> fold_right f acc E = acc.
  Proof.
    induction E as [|p E IH]; intros H; [reflexivity|]. cbn [fold_right].
    rewrite IH by (intros q c Hq; apply H; now right). apply H. now left.
  Qed.

  Lemma length_before_pos : length (axes_before n groups) = fuse_position groups.
  Proof.
    unfold axes_before. rewrite filter_all; [apply seq_length|]. intros ax Hax. apply in_seq in Hax.
    apply ungrouped_iff'. intros Hin. apply (gpos_le groups) in Hin. lia.
  Qed.

  Lemma enumerate_singlets (l : list nat) p : In p (enumerate (map (fun ax => [ax]) l)) -> is_singlet (snd p) = true.
  Proof.
    unfold enumerate. intros H. destruct p as [k g]. apply in_combine_r in H. apply in_map_iff in H.
    destruct H as (ax & <- & _). reflexivity.
  Qed.

  Lemma unfuse_slots_groups Y :
    fold_right (unfuse_step 0) (Some Y) (enumerate SL) = unfuse_groups Y (fuse_position groups) groups.
  Proof.
    unfold unfuse_groups, slots. rewrite enumerate_app, fold_right_app.
    rewrite (fold_right_id _ (enumerate (map (fun ax => [ax]) (axes_before n groups))))
      by (intros p c Hp; apply unfuse_step_singlet; now apply (enumerate_singlets (axes_before n groups))).
    rewrite fold_right_map', map_length, length_before_pos.
    rewrite enumerate_app, fold_right_app.
    rewrite fold_right_map'.
    rewrite (fold_right_id _ (enumerate (map (fun ax => [ax]) (axes_after n groups))))
      by (intros p c Hp; apply unfuse_step_singlet; cbn [snd]; now apply (enumerate_singlets (axes_after n groups))).
    apply fold_right_ext_in'. intros [k g] acc _. unfold unfuse_step. cbn [fst snd]. reflexivity.
  Qed.
  (* ---------------- after the last step ---------------- *)
  Lemma coords_inb' cs b : coords_ok G ixs cs = true -> In (map fst cs, b) (blocks G R x) ->
    inb (tshape b) (map snd cs) = true.
  Proof. exact (coords_inb G R GL x [0; 0] Hwf (le_n 2) cs b). Qed.

  Lemma level_final Y : LevelInv [] SL Y ->
    indices G R Y = permuted dflt ixs perm /\ charge G R Y = charge G R x /\
    (forall s b, In (s, b) (blocks G R x) ->
       lookup keq (permuted idc s perm) (blocks G R Y) = Some (ttranspose R b perm)) /\
    (forall k t, In (k, t) (blocks G R Y) ->
       (exists s b, In (s, b) (blocks G R x) /\ k = permuted idc s perm /\ t = ttranspose R b perm) \/
       Forall (fun v => v = r0 R) (tdata t)) /\
    (forall cs, coords_ok G ixs cs = true -> sem G R Y (permuted (idc, 0) cs perm) = sem G R x cs).
  Proof.
    intros [I_ix I_q I_nd I_shape I_own I_zero].
    assert (HIX : IXl [] SL = permuted dflt ixs perm).
    { unfold IXl, permuted. cbn [map app]. now rewrite (concat_slots n groups). }
    assert (HK : forall s, Kof s [] SL = permuted idc s perm).
    { intros s. unfold Kof, permuted, take_axes. cbn [map app]. now rewrite (concat_slots n groups). }
    assert (Hown : forall s b, In (s, b) (blocks G R x) ->
              lookup keq (permuted idc s perm) (blocks G R Y) = Some (ttranspose R b perm)).
    { intros s b Hsb. destruct (I_own s b Hsb) as (T & HT & Hget). rewrite HK in HT. rewrite HT. f_equal.
      apply (lookup_In keq Hkq') in HT. destruct (I_shape _ _ HT) as (_ & Hsh & Hd).
      assert (HshT : tshape T = concat (map (map (szf s)) SL)).
      { rewrite Hsh, <- (HK s). unfold IXl, Kof. cbn [map app]. rewrite block_shape_RX. apply concat_map. }
      apply tensor_ext.
      - rewrite HshT. unfold ttranspose. rewrite tshape_build. symmetry. now apply tshape_perm'.
      - exact Hd.
      - unfold ttranspose. apply length_tdata_build.
      - intros idx Hidx. rewrite HshT in Hidx. apply split_concat in Hidx. destruct Hidx as (US & -> & HUS).
        apply Forall2_map_l_inv in HUS.
        exact (Hget [] US (Forall2_nil _) HUS). }
    split; [now rewrite I_ix|]. split; [exact I_q|]. split; [exact Hown|]. split.
    - intros k t Hin.
      destruct (existsb (fun sb => keq (permuted idc (fst sb) perm) k) (blocks G R x)) eqn:Eex.
      + left. apply existsb_exists in Eex. destruct Eex as ([s b] & Hsb & Hk). cbn [fst] in Hk. apply Hkq' in Hk.
        exists s, b. split; [exact Hsb|]. split; [now symmetry|].
        pose proof (Hown s b Hsb) as Hl. rewrite Hk in Hl.
        apply (In_lookup keq Hkq' _ _ _ I_nd) in Hin. rewrite Hin in Hl. now inversion Hl.
      + right. destruct (I_shape _ _ Hin) as (_ & _ & Hd). apply (all_zero_of_get R t Hd).
        intros idx Hidx. apply (I_zero k t idx Hin Hidx). intros s b UL UR Hsb Hk _ _ _.
        rewrite HK in Hk.
        assert (Hf : existsb (fun sb => keq (permuted idc (fst sb) perm) k) (blocks G R x) = true).
        { apply existsb_exists. exists (s, b). split; [exact Hsb|]. cbn [fst]. apply Hkq'. now symmetry. }
        rewrite Hf in Eex. discriminate.
    - intros cs Hc. unfold sem.
      rewrite (permuted_map' fst), (permuted_map' snd). cbn [fst snd].
      assert (Hl : length (map fst cs) = n).
      { unfold coords_ok in Hc. apply andb_true_iff in Hc. destruct Hc as [Hl _].
        apply Nat.eqb_eq in Hl. now rewrite map_length. }
      destruct (lookup keq (map fst cs) (blocks G R x)) as [b|] eqn:E.
      + apply (lookup_In keq Hkq') in E. rewrite (Hown _ _ E).
        destruct wfp as (_ & _ & H). destruct (H _ _ E) as (Hls & _ & Hsh & _).
        apply get_ttranspose; [exact Pperm'| |now apply coords_inb'].
        rewrite Hsh, length_block_shape_min by exact Hls. now rewrite Plen'.
      + destruct (lookup keq (permuted idc (map fst cs) perm) (blocks G R Y)) as [t|] eqn:E2; [|reflexivity].
        apply (lookup_In keq Hkq') in E2.
        destruct (existsb (fun sb => keq (permuted idc (fst sb) perm) (permuted idc (map fst cs) perm)) (blocks G R x)) eqn:Eex.
        * exfalso. apply existsb_exists in Eex. destruct Eex as ([s b] & Hsb & Hk). cbn [fst] in Hk. apply Hkq' in Hk.
          destruct wfp as (_ & Hnd & H). destruct (H _ _ Hsb) as (Hls & _).
          apply permuted_inj in Hk; [|exact Pperm'|rewrite Plen'; lia|rewrite Plen'; lia].
          subst s. apply (In_lookup keq Hkq' _ _ _ Hnd) in Hsb. rewrite Hsb in E. discriminate.
        * destruct (I_shape _ _ E2) as (_ & Hsh & Hd).
          assert (Hz : Forall (fun v => v = r0 R) (tdata t)).
          { apply (all_zero_of_get R t Hd). intros idx Hidx. apply (I_zero _ t idx E2 Hidx).
            intros s b UL UR Hsb Hk _ _ _. rewrite HK in Hk.
            assert (Hf : existsb (fun sb => keq (permuted idc (fst sb) perm) (permuted idc (map fst cs) perm)) (blocks G R x) = true).
            { apply existsb_exists. exists (s, b). split; [exact Hsb|]. cbn [fst]. apply Hkq'. now symmetry. }
            rewrite Hf in Eex. discriminate. }
          unfold get. now apply nth_all_eq.
  Qed.

  (* ---------------- the statements ---------------- *)
  Theorem fuse_layout_groups_thm :
    indices G R (fuse_core G R x groups) = nixs /\ charge G R (fuse_core G R x groups) = charge G R x /\
    NoDup (sectors G R (fuse_core G R x groups)) /\
    (forall k, In k (sectors G R (fuse_core G R x groups)) <-> exists s, In s secs /\ NS s = k) /\
    (forall k T, lookup keq k (blocks G R (fuse_core G R x groups)) = Some T ->
       tshape T = block_shape G nixs k /\ length (tdata T) = shape_size (tshape T)) /\
    (forall s b, In (s, b) (blocks G R x) ->
       exists T, lookup keq (NS s) (blocks G R (fuse_core G R x groups)) = Some T /\
         tbox R T (fuse_selector G ixs nixs groups s) =
         treshape R (ttranspose R b perm) (fused_block_shape G ixs groups s)) /\
    (forall k T idx, lookup keq k (blocks G R (fuse_core G R x groups)) = Some T -> inb (tshape T) idx = true ->
       (forall s, In s secs -> NS s = k -> in_range (fuse_selector G ixs nixs groups s) idx = false) ->
       get R T idx = r0 R).
  Proof.
    destruct FBg_spec as (Snd & Skeys & Sshape & Sown & Szero). fold FBg.
    split; [reflexivity|]. split; [reflexivity|]. split; [exact Snd|]. split; [|split; [|split]].
    - intros k. unfold sectors at 1. fold FBg. rewrite Skeys. split.
      + intros ([s b] & Hin & Hk). exists s. split; [now apply (In_secs G R x s b)|exact Hk].
      + intros (s & Hs & Hk). destruct (secs_ex s Hs) as (b & Hin). exists (s, b). now split.
    - intros k T Hlk. destruct (Sshape k T Hlk) as [Hsh Hd]. unfold Fshape in *.
      rewrite fused_indices_slots. split; [exact Hsh|now rewrite Hsh].
    - intros s b Hsb. pose proof (In_secs G R x s b Hsb) as Hs.
      destruct (Sown _ Hsb) as (T & HT & Hget). unfold Fkey, Fsel, Fsrc, Fshape in *. cbn [fst snd] in *.
      exists T. split; [exact HT|]. rewrite fuse_selector_slots, fused_shape_slots.
      assert (Hsnd : map snd (map (rng s) SL) = map (gsz s) SL).
      { rewrite map_map. apply map_ext_in. intros g Hg. apply (rng_ok s g Hs Hg). }
      assert (HF : Forall2 (fun r d => fst r + snd r <= d) (map (rng s) SL) (block_shape G (map FI SL) (NS s))).
      { rewrite NS_eq', block_shape_FI. apply Forall2_map_both. intros g Hg.
        destruct (rng_ok s g Hs Hg) as [H1 H2]. rewrite H1. exact H2. }
      apply tensor_ext.
      + unfold tbox. rewrite tshape_build. exact Hsnd.
      + unfold tbox. apply length_tdata_build.
      + cbn [treshape tshape tdata]. unfold ttranspose. rewrite length_tdata_build, (tshape_perm' s b Hsb).
        rewrite shape_size_concat, map_map. reflexivity.
      + intros idx Hidx. unfold tbox in *. rewrite tshape_build in Hidx. rewrite get_build by exact Hidx.
        destruct (box_shift _ _ idx HF Hidx) as (B1 & B2 & B3).
        rewrite (Hget _ B1 B2), B3. reflexivity.
    - intros k T idx Hlk Hinb Hno. destruct (Sshape k T Hlk) as [Hsh _]. rewrite Hsh in Hinb.
      apply (Szero k T idx Hlk Hinb). intros [s b] Hsb Hk. unfold Fkey, Fsel in *. cbn [fst] in *.
      rewrite <- fuse_selector_slots. apply Hno; [now apply (In_secs G R x s b)|exact Hk].
  Qed.

  Theorem unfuse_fuse_groups_thm :
    exists y, unfuse_groups (fuse_core G R x groups) (fuse_position groups) groups = Some y /\
      indices G R y = permuted dflt ixs perm /\ charge G R y = charge G R x /\
      (forall s b, In (s, b) (blocks G R x) ->
         lookup keq (permuted idc s perm) (blocks G R y) = Some (ttranspose R b perm)) /\
      (forall k t, In (k, t) (blocks G R y) ->
         (exists s b, In (s, b) (blocks G R x) /\ k = permuted idc s perm /\ t = ttranspose R b perm) \/
         Forall (fun v => v = r0 R) (tdata t)) /\
      (forall cs, coords_ok G ixs cs = true -> sem G R y (permuted (idc, 0) cs perm) = sem G R x cs).
  Proof.
    destruct (level_run SL [] (fuse_core G R x groups) (app_nil_r _) level_init) as (Yf & Hrun & Inv).
    exists Yf. split; [rewrite <- unfuse_slots_groups; exact Hrun|]. now apply level_final.
  Qed.
  (* everything the extent table of one fused (non-singlet) slot satisfies *)
  Lemma ext_facts_all g : In g SL -> is_singlet g = false ->
    (forall c e, lookup (ceqb G) c (extg g) = Some e -> NoDup (map fst e)) /\
    (forall c e ss, lookup (ceqb G) c (extg g) = Some e -> In ss (map fst e) ->
       length ss = length (subsg g) /\ exists s', In s' secs /\ ss = sub s' g /\ gc s' g = c) /\
    (forall c c' e e' ss, lookup (ceqb G) c (extg g) = Some e -> lookup (ceqb G) c' (extg g) = Some e' ->
       In ss (map fst e) -> In ss (map fst e') -> c = c') /\
    (forall c e ss st len, lookup (ceqb G) c (extg g) = Some e -> In (ss, (st, len)) (ranges_from 0 e) ->
       exists s', In s' secs /\ ss = sub s' g /\ len = gsz s' g /\ gc s' g = c /\
                  st + len <= size_of G (FI g) c /\ block_shape G (subsg g) ss = map (szf s') g /\
                  rng s' g = (st, len)).
  Proof.
    intros Hg Es. destruct (slot_facts g Hg) as (Hgnd & Hglt & Hgne).
    pose proof (nonsinglet_len g Hgne Es) as Hglen.
    assert (Hent : forall c e ss, lookup (ceqb G) c (extg g) = Some e -> In ss (map fst e) ->
              exists s', In s' secs /\ ss = sub s' g /\ gc s' g = c).
    { intros c e ss He Hss. destruct (ext_entry g c e Hg Es He) as (_ & _ & Hall).
      apply in_map_iff in Hss. destruct Hss as (p & <- & Hp). rewrite Forall_forall in Hall.
      destruct (Hall _ Hp) as (s' & Hs' & Hf & _ & Hc). exists s'. now repeat split. }
    split; [intros c e He; apply (ext_entry g c e Hg Es He)|]. split; [|split].
    - intros c e ss He Hss. destruct (Hent c e ss He Hss) as (s' & Hs' & -> & Hc). split.
      + unfold group_subsector, take_axes, subs_of. now rewrite !map_length.
      + exists s'. now repeat split.
    - intros c c' e e' ss He He' Hss Hss'.
      destruct (Hent c e ss He Hss) as (s1 & _ & E1 & <-). destruct (Hent c' e' ss He' Hss') as (s2 & _ & E2 & <-).
      apply (subsector_determines G ixs secs g (Hsecs' G R GL x g Hwf Hglt Hglen)). congruence.
    - intros c e ss st len He Hq. destruct (ext_entry g c e Hg Es He) as (Hnde & Hsum & Hall).
      pose proof (ranges_lookup_In G GL e ss (st, len) Hnde Hq) as Hlk.
      apply ranges_bounds in Hq. destruct Hq as (_ & Hb & Hine).
      rewrite Forall_forall in Hall. destruct (Hall _ Hine) as (s' & Hs' & Hf & Hsz & Hc). cbn [fst snd] in Hf, Hsz.
      exists s'. split; [exact Hs'|]. split; [exact Hf|]. split; [exact Hsz|]. split; [exact Hc|].
      split; [rewrite <- Hsum; lia|]. split; [rewrite Hf; apply block_shape_subs|].
      unfold slot_range. rewrite Es, Hc, <- Hf. rewrite (sub_range_eq G R x g Hglen c e ss He), Hlk. reflexivity.
  Qed.

  (* ---------------- coordinate semantics of the fused array ---------------- *)
  (* a sector (stored or not) whose sub-sector on every fused group is recorded in that group's table *)
  Definition recorded (s : list (C G)) : Prop :=
    forall g, In g SL -> is_singlet g = false -> exists s', In s' secs /\ sub s' g = sub s g.

  Lemma stored_recorded s : In s secs -> recorded s.
  Proof. intros Hs g _ _. now exists s. Qed.

  Lemma rec_same s s' g : In g SL -> is_singlet g = false -> sub s' g = sub s g ->
    gc s' g = gc s g /\ gsz s' g = gsz s g /\ rng s' g = rng s g.
  Proof.
    intros Hg Es Hsub. destruct (slot_facts g Hg) as (Hnd & Hlt & Hne).
    pose proof (nonsinglet_len g Hne Es) as Hlen.
    destruct (subsector_determines G ixs secs g (Hsecs' G R GL x g Hwf Hlt Hlen) s' s Hsub) as [H1 H2].
    split; [exact H1|]. split; [exact H2|]. unfold slot_range. now rewrite Es, H1, Hsub.
  Qed.

  Lemma rng_ok_rec s g : recorded s -> In g SL ->
    snd (rng s g) = gsz s g /\ fst (rng s g) + gsz s g <= size_of G (FI g) (gc s g).
  Proof.
    intros Hrec Hg. destruct (is_singlet g) eqn:Es.
    - apply singlet_inv in Es. destruct Es as (ax & ->).
      unfold slot_range, group_size, fused_index, group_charge.
      cbn [is_singlet length Nat.eqb hd map nprod fold_right fst snd]. lia.
    - destruct (Hrec g Hg Es) as (s' & Hs' & Hsub).
      destruct (rec_same s s' g Hg Es Hsub) as (H1 & H2 & H3). rewrite <- H1, <- H2, <- H3.
      now apply rng_ok.
  Qed.

  Lemma zip_facts_rec s L UL : recorded s -> incl L SL -> Forall2 (Pin s) L UL ->
    inb (map (fun g => size_of G (FI g) (gc s g)) L) (zipw (Fof s) L UL) = true.
  Proof.
    intros Hs Hincl HP.
    apply (zip_box (fun g => fst (rng s g)) (fun g => map (szf s) g) (fun g => size_of G (FI g) (gc s g)) L UL HP).
    intros g Hg. rewrite <- gsz_eq. apply (rng_ok_rec s g Hs (Hincl g Hg)).
  Qed.

  Definition fcoords (cs : list (coord G)) : list (coord G) :=
    map (fun g => (gc (map fst cs) g, Fof (map fst cs) g (take_axes 0 (map snd cs) g))) SL.

  Lemma coords_ok_nth cs : coords_ok G ixs cs = true ->
    length cs = n /\ forall ax, ax < n -> nth ax (map snd cs) 0 < szf (map fst cs) ax.
  Proof.
    intros Hc. unfold coords_ok in Hc. apply andb_true_iff in Hc. destruct Hc as [Hl Hall].
    apply Nat.eqb_eq in Hl. split; [exact Hl|]. intros ax Hax. rewrite forallb_forall in Hall.
    specialize (Hall (nth ax ixs dflt, nth ax cs (idc, 0))). cbn [fst snd] in Hall. unfold sz.
    change 0 with (snd (idc, 0)) at 1. rewrite map_nth.
    change idc with (fst (idc, 0)) at 2. rewrite map_nth.
    apply Nat.ltb_lt. apply Hall. rewrite <- combine_nth by (symmetry; exact Hl).
    apply nth_In. rewrite combine_length. lia.
  Qed.

  Lemma Pin_take cs g : coords_ok G ixs cs = true -> In g SL -> Pin (map fst cs) g (take_axes 0 (map snd cs) g).
  Proof.
    intros Hc Hg. destruct (coords_ok_nth cs Hc) as [_ Hlt]. destruct (slot_facts g Hg) as (_ & Hglt & _).
    unfold Pin, take_axes. clear Hg. induction g as [|ax g IH]; [reflexivity|].
    inversion Hglt as [|? ? Hax Hrest]; subst. cbn [map inb]. rewrite IH by exact Hrest.
    apply andb_true_iff. split; [apply Nat.ltb_lt; now apply Hlt|reflexivity].
  Qed.

  Lemma zipw_map_same {A B C} (f : A -> B -> C) (h : A -> B) L : zipw f L (map h L) = map (fun g => f g (h g)) L.
  Proof. induction L as [|a L IH]; [reflexivity|]. cbn [map]. rewrite zipw_cons. now rewrite IH. Qed.

  Lemma Forall2_map_r_same {A B} (P : A -> B -> Prop) (h : A -> B) L :
    (forall g, In g L -> P g (h g)) -> Forall2 P L (map h L).
  Proof.
    induction L as [|a L IH]; intros H; cbn [map]; constructor; [apply H; now left|].
    apply IH. intros g Hg. apply H. now right.
  Qed.

  Lemma zipw_eq_In {A B C} (f f' : A -> B -> C) (P P' : A -> B -> Prop) L : forall U U',
    Forall2 P L U -> Forall2 P' L U' -> zipw f L U = zipw f' L U' ->
    forall g, In g L -> exists u u', P g u /\ P' g u' /\ f g u = f' g u'.
  Proof.
    induction L as [|a L IH]; intros U U' H1 H2 Heq g Hg; [destruct Hg|].
    inversion H1 as [|? u ? U0 Hu H1']; subst. inversion H2 as [|? u' ? U0' Hu' H2']; subst.
    rewrite !zipw_cons in Heq. inversion Heq as [[Hh Ht]].
    destruct Hg as [<-|Hg]; [now exists u, u'|]. exact (IH U0 U0' H1' H2' Ht g Hg).
  Qed.

  Theorem fuse_core_sem cs : coords_ok G ixs cs = true -> recorded (map fst cs) ->
    sem G R (fuse_core G R x groups) (fcoords cs) = sem G R x cs.
  Proof.
    intros Hc Hrec. set (s := map fst cs) in *. set (offs := map snd cs).
    destruct (coords_ok_nth cs Hc) as [Hlcs _].
    assert (Hls : length s = n) by (unfold s; now rewrite map_length).
    set (US := map (take_axes 0 offs) SL).
    assert (HUS : Forall2 (Pin s) SL US).
    { apply Forall2_map_r_same. intros g Hg. now apply Pin_take. }
    assert (Hk : map fst (fcoords cs) = map (gc s) SL) by (unfold fcoords; rewrite map_map; reflexivity).
    assert (Ho : map snd (fcoords cs) = zipw (Fof s) SL US).
    { unfold fcoords, US. rewrite map_map, zipw_map_same. reflexivity. }
    assert (Hcat : concat US = permuted 0 offs perm).
    { unfold US, permuted, take_axes. rewrite <- concat_map, (concat_slots n groups). reflexivity. }
    destruct level_init as [I_ix I_q I_nd I_shape I_own I_zero].
    unfold sem at 1. rewrite Hk, Ho. unfold sem.
    destruct (lookup keq (map fst cs) (blocks G R x)) as [b|] eqn:E; fold s in E.
    - apply (lookup_In keq Hkq') in E. destruct (I_own s b E) as (T & HT & Hget).
      unfold Kof in HT. cbn [concat take_axes map] in HT. rewrite app_nil_r in HT. rewrite HT.
      specialize (Hget US [] HUS (Forall2_nil _)). unfold Iof in Hget. cbn [concat] in Hget.
      rewrite !app_nil_r in Hget. rewrite Hget, Hcat.
      destruct wfp as (_ & _ & H). destruct (H _ _ E) as (_ & _ & Hsh & _).
      apply get_ttranspose; [exact Pperm'| |now apply coords_inb'].
      rewrite Hsh, length_block_shape_min by exact Hls. now rewrite Plen'.
    - destruct (lookup keq (map (gc s) SL) (blocks G R (fuse_core G R x groups))) as [T|] eqn:E2; [|reflexivity].
      apply (lookup_In keq Hkq') in E2. destruct (I_shape _ _ E2) as (_ & Hsh & _).
      apply (I_zero _ T _ E2).
      + rewrite Hsh. unfold IXl. cbn [concat map]. rewrite app_nil_r, block_shape_FI.
        apply (zip_facts_rec s SL US Hrec (incl_refl _) HUS).
      + intros s2 b2 UL UR Hsb HK HUL HUR Hidx. inversion HUR; subst UR.
        unfold Kof in HK. cbn [concat take_axes map] in HK. rewrite app_nil_r in HK.
        unfold Iof in Hidx. cbn [concat] in Hidx. rewrite app_nil_r in Hidx.
        pose proof (In_secs G R x s2 b2 Hsb) as Hs2.
        assert (Heq : s2 = s).
        { destruct wfp as (_ & _ & H). destruct (H _ _ Hsb) as (Hl2 & _).
          apply NS_inj'; [exact Hl2|exact Hls|]. intros g Hg.
          assert (Hgc : gc s g = gc s2 g) by (rewrite map_ext_in_iff in HK; now apply HK).
          destruct (is_singlet g) eqn:Es.
          - apply singlet_inv in Es. destruct Es as (ax & ->).
            unfold group_charge in Hgc. cbn [is_singlet length Nat.eqb hd] in Hgc.
            unfold group_subsector, take_axes. cbn [map]. now rewrite Hgc.
          - destruct (Hrec g Hg Es) as (s1 & Hs1 & Hsub1).
            destruct (rec_same s s1 g Hg Es Hsub1) as (G1 & G2 & G3).
            destruct (zipw_eq_In (Fof s) (Fof s2) (Pin s) (Pin s2) SL US UL HUS HUL Hidx g Hg) as (u & u2 & Pu & Pu2 & Hp).
            destruct (slot_facts g Hg) as (_ & Hglt & Hgne). pose proof (nonsinglet_len g Hgne Es) as Hglen.
            destruct (rng_spec G R GL OL x g Hwf Hglt Hglen s1 Hs1) as (e1 & st1 & He1 & Hlk1 & Hr1 & _).
            destruct (rng_spec G R GL OL x g Hwf Hglt Hglen s2 Hs2) as (e2 & st2 & He2 & Hlk2 & Hr2 & _).
            rewrite <- Hgc, <- G1, He1 in He2. inversion He2. subst e2.
            destruct (ext_entry g _ e1 Hg Es He1) as (Hnde & _ & _).
            destruct (ranges_partition keq Hkq' e1 Hnde) as (_ & _ & _ & _ & Huniq).
            unfold Fof in Hp. rewrite <- G3 in Hp. unfold slot_range in Hp. rewrite Es, Hr1, Hr2 in Hp. cbn [fst] in Hp.
            pose proof (offset_lt _ _ Pu) as O1. pose proof (offset_lt _ _ Pu2) as O2.
            rewrite <- gsz_eq in O1, O2. rewrite <- G2 in O1.
            rewrite <- Hsub1. symmetry.
            apply (Huniq (st1 + offset (map (szf s) g) u) (sub s1 g) (sub s2 g) _ _ Hlk1 Hlk2); cbn [fst snd]; lia. }
        subst s2. apply (In_lookup keq Hkq') in Hsb; [|apply wfp]. fold s in Hsb. rewrite Hsb in E. discriminate.
  Qed.

End GroupsFuse.

(* ------------------------------------------------------------------ *)
(* Part 6: the front ends a_fuse / a_fuse_noexpand, and the two-group call of
   the fused contraction: [free; contracted] or [contracted; free], together all axes *)
Section FrontEnds.
  Context (G : Symmetry) (R : Ring).
  Notation nonnil := (fun g : list nat => negb (is_nil g)).
  Notation dflt := (dflt_index G).

  Lemma filter_nonnil_id (groups : list (list nat)) : Forall (fun g => g <> []) groups -> filter nonnil groups = groups.
  Proof.
    intros H. apply filter_all. intros g Hg. rewrite Forall_forall in H. specialize (H g Hg). now destruct g.
  Qed.

  Lemma a_fuse_noexpand_core (x : aarray G R) groups : Forall (fun g => g <> []) groups -> groups <> [] ->
    a_fuse_noexpand G R x groups = fuse_core G R x groups.
  Proof. intros H Hne. unfold a_fuse_noexpand. rewrite (filter_nonnil_id groups H). now destruct groups. Qed.

  Lemma fold_left_keep {A B} (f : A -> B -> A) (l : list B) : forall a, (forall a' b, In b l -> f a' b = a') -> fold_left f l a = a.
  Proof.
    induction l as [|b l IH]; intros a H; [reflexivity|]. cbn [fold_left]. rewrite H by (now left).
    apply IH. intros a' b' Hb'. apply H. now right.
  Qed.

  Lemma a_fuse_core (x : aarray G R) groups : Forall (fun g => g <> []) groups -> groups <> [] ->
    a_fuse G R x groups = fuse_core G R x groups.
  Proof.
    intros H Hne. unfold a_fuse. rewrite (filter_nonnil_id groups H).
    rewrite fold_left_keep.
    - now destruct groups.
    - intros a' [k g] Hin. cbn [snd]. unfold enumerate in Hin. apply in_combine_r in Hin.
      rewrite Forall_forall in H. specialize (H g Hin). now destruct g.
  Qed.

  Lemma a_fuse_noexpand_filter (x : aarray G R) groups :
    a_fuse_noexpand G R x groups =
    match filter nonnil groups with [] => x | _ => fuse_core G R x (filter nonnil groups) end.
  Proof. unfold a_fuse_noexpand. now destruct (filter nonnil groups). Qed.

  Lemma concat_nonnil {A} (gs : list (list A)) : concat (filter (fun g => negb (is_nil g)) gs) = concat gs.
  Proof.
    induction gs as [|g gs IH]; [reflexivity|]. cbn [filter]. destruct g as [|a g]; cbn [is_nil negb concat app]; [exact IH|].
    now rewrite IH.
  Qed.

  Lemma nonnil_ne (groups : list (list nat)) : Forall (fun g => g <> []) (filter nonnil groups).
  Proof. apply Forall_forall. intros g Hg. apply filter_In in Hg. destruct Hg as [_ Hg]. now destruct g. Qed.

  Lemma filter_nil_all {A} (f : A -> bool) l : (forall a, In a l -> f a = false) -> filter f l = [].
  Proof.
    induction l as [|a l IH]; intros H; [reflexivity|]. cbn [filter]. rewrite (H a) by (now left).
    apply IH. intros a' Ha'. apply H. now right.
  Qed.

  Lemma axes_cover n groups : (forall ax, In ax (concat groups) <-> ax < n) ->
    axes_before n groups = [] /\ axes_after n groups = [].
  Proof.
    intros Hcov. split.
    - unfold axes_before. apply filter_nil_all. intros ax Hax. apply in_seq in Hax.
      destruct (is_none (group_of groups ax)) eqn:E; [|reflexivity].
      apply ungrouped_iff' in E. exfalso. apply E. apply Hcov.
      unfold fuse_position in Hax. destruct (concat groups) as [|a l] eqn:Ec; [cbn in Hax; lia|].
      assert (Hne : a :: l <> []) by discriminate.
      destruct (list_min_spec _ Hne) as [Hin _]. apply Hcov in Hin. lia.
    - unfold axes_after. apply filter_nil_all. intros ax Hax. apply in_seq in Hax.
      destruct (is_none (group_of groups ax)) eqn:E; [|reflexivity].
      apply ungrouped_iff' in E. exfalso. apply E. apply Hcov. lia.
  Qed.

  Lemma fuse_perm_cover n groups : (forall ax, In ax (concat groups) <-> ax < n) -> fuse_perm n groups = concat groups.
  Proof.
    intros Hcov. unfold fuse_perm. destruct (axes_cover n groups Hcov) as [Hb Ha].
    rewrite Hb, Ha. cbn [app]. now rewrite app_nil_r.
  Qed.

  Context (GL : GroupLaws G) (OL : OrderLaws G).

  (* two groups that together contain every axis exactly once *)
  Theorem fuse_pair_thm (x : aarray G R) (g1 g2 : list nat) :
    wf_array G R x = true -> NoDup (g1 ++ g2) -> (forall ax, In ax (g1 ++ g2) <-> ax < ndim G R x) -> g1 ++ g2 <> [] ->
    let gs := filter nonnil [g1; g2] in
    Forall (fun g => g <> []) gs /\ NoDup (concat gs) /\ Forall (fun ax => ax < ndim G R x) (concat gs) /\
    a_fuse_noexpand G R x [g1; g2] = fuse_core G R x gs /\
    fuse_perm (ndim G R x) gs = g1 ++ g2 /\ fuse_position gs = 0 /\
    indices G R (fuse_core G R x gs) = map (fused_index G (indices G R x) (sectors G R x)) gs /\
    ndim G R (fuse_core G R x gs) = length gs.
  Proof.
    intros Hwf Hnd Hcov Hne. cbn zeta.
    set (gs := filter nonnil [g1; g2]).
    assert (Hc : concat gs = g1 ++ g2).
    { unfold gs. rewrite concat_nonnil. cbn [concat]. now rewrite app_nil_r. }
    assert (Hgs : gs <> []).
    { intros E. rewrite E in Hc. cbn in Hc. congruence. }
    assert (Hperm : fuse_perm (ndim G R x) gs = g1 ++ g2).
    { rewrite fuse_perm_cover; [exact Hc|]. intros ax. rewrite Hc. apply Hcov. }
    assert (Hix : indices G R (fuse_core G R x gs) = map (fused_index G (indices G R x) (sectors G R x)) gs).
    { cbn [fuse_core indices]. rewrite fused_indices_slots. f_equal. unfold slots.
      destruct (axes_cover (length (indices G R x)) gs) as [Hb Ha].
      { intros ax. rewrite Hc. apply Hcov. }
      rewrite Hb, Ha. cbn [map app]. now rewrite app_nil_r. }
    split; [apply nonnil_ne|]. split; [now rewrite Hc|]. split.
    { rewrite Hc. apply Forall_forall. intros ax Hax. now apply Hcov. }
    split.
    { rewrite a_fuse_noexpand_filter. fold gs. now destruct gs. }
    split; [exact Hperm|]. split.
    - unfold fuse_position. rewrite Hc. destruct (list_min_spec _ Hne) as [Hin Hall].
      rewrite Forall_forall in Hall. apply Hcov in Hin.
      assert (H0 : In 0 (g1 ++ g2)) by (apply Hcov; lia). specialize (Hall 0 H0). lia.
    - split; [exact Hix|]. unfold ndim at 1. now rewrite Hix, map_length.
  Qed.

  (* the contraction's operands: la = rest_axes n aa *)
  Lemma rest_axes_pair n aa : NoDup aa -> Forall (fun ax => ax < n) aa ->
    NoDup (rest_axes n aa ++ aa) /\ NoDup (aa ++ rest_axes n aa) /\
    (forall ax, In ax (rest_axes n aa ++ aa) <-> ax < n) /\ (forall ax, In ax (aa ++ rest_axes n aa) <-> ax < n).
  Proof.
    intros Hnd Hrng. rewrite Forall_forall in Hrng.
    assert (Hin : forall ax, In ax (rest_axes n aa) <-> ax < n /\ ~ In ax aa).
    { intros ax. unfold rest_axes. rewrite filter_In, in_seq. split.
      - intros [H1 H2]. split; [lia|]. intros H. apply natmem_In in H. rewrite H in H2. discriminate.
      - intros [H1 H2]. split; [lia|]. destruct (mem Nat.eqb ax aa) eqn:E; [|reflexivity].
        apply natmem_In in E. contradiction. }
    assert (Hr : NoDup (rest_axes n aa)) by (unfold rest_axes; apply NoDup_filter, seq_NoDup).
    assert (Hcov : forall ax, In ax (rest_axes n aa) \/ In ax aa <-> ax < n).
    { intros ax. rewrite Hin. split.
      - intros [[H _]|H]; [exact H|now apply Hrng].
      - intros H. destruct (mem Nat.eqb ax aa) eqn:E.
        + right. now apply natmem_In.
        + left. split; [exact H|]. intros H'. apply natmem_In in H'. congruence. }
    split; [|split; [|split]].
    - apply NoDup_app_intro; [exact Hr|exact Hnd|]. intros ax H1 H2. apply Hin in H1. tauto.
    - apply NoDup_app_intro; [exact Hnd|exact Hr|]. intros ax H1 H2. apply Hin in H2. tauto.
    - intros ax. rewrite in_app_iff. apply Hcov.
    - intros ax. rewrite in_app_iff. rewrite <- Hcov. tauto.
  Qed.
End FrontEnds.

(* the statements of Props/C05b.v that bundle several lemmas *)
Lemma fuse_tables_by_slot :
  forall (G : Symmetry) (ixs : list (index G)) (secs : list (list (C G))) (groups : list (list nat)) (s : list (C G)),
  let SL := slots (length ixs) groups in
  concat SL = fuse_perm (length ixs) groups /\
  fused_sector G ixs groups s = map (group_charge G ixs s) SL /\
  fused_indices G ixs secs groups = map (fused_index G ixs secs) SL /\
  fused_block_shape G ixs groups s = map (group_size G ixs s) SL /\
  fuse_selector G ixs (fused_indices G ixs secs groups) groups s = map (slot_range G ixs secs s) SL.
Proof.
  intros G ixs secs groups s. cbn zeta.
  split; [apply concat_slots|]. split; [apply fused_sector_slots|]. split; [apply fused_indices_slots|].
  split; [apply fused_shape_slots|apply fuse_selector_slots].
Qed.

Lemma a_fuse_nonempty_groups : forall (G : Symmetry) (R : Ring) (x : aarray G R) (groups : list (list nat)),
  Forall (fun g => g <> []) groups -> groups <> [] ->
  a_fuse G R x groups = fuse_core G R x groups /\ a_fuse_noexpand G R x groups = fuse_core G R x groups.
Proof. intros G R x groups H Hne. split; [now apply a_fuse_core|now apply a_fuse_noexpand_core]. Qed.
