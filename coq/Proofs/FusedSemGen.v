(* Proofs/FusedSemGen.v -- property C06: fused = blockwise at the level of
   coordinates for free legs of ANY number of axes (none, one, several) and a
   contracted group of one or more axes.  Generalises Proofs/FusedSem.v, where
   every group had >= 2 axes.  The fused coordinate of a group is written as a
   function of the partial coordinate list on the axes of the group (scoP), so
   that untouched single axes and really fused groups are treated alike. *)
From SV Require Import Base.Prelude Base.Sym Base.Tensor Model.Sectors Model.Array Model.Arith Model.Fermi
  Model.Wf Model.Valid Model.Fused Model.SymInst
  Proofs.FuseTensor Proofs.FuseProofs Proofs.SymLaws Proofs.GroupFacts Proofs.SectorsProofs Proofs.OrderProofs
  Proofs.TensorProofs Proofs.StructProofs Proofs.Tdot Proofs.WfProofs Proofs.FuseGroups Proofs.FuseGroupsWf
  Proofs.FusedProofs Proofs.FusedSem.
From Coq Require Import Permutation Sorting Lia.
Local Open Scope nat_scope.

(* ------------------------------------------------------------------ *)
(* Part A: the fused coordinate of one group from the partial coordinates *)
Section PCoord.
  Context (G : Symmetry) (R : Ring) (x : aarray G R).
  Notation ixs := (indices G R x).
  Notation secs := (sectors G R x).
  Notation FI := (fused_index G (indices G R x) (sectors G R x)).
  Notation dflt := (dflt_index G).
  Notation idc := (ident G).
  Notation dc := (ident G, 0).

  Definition gcP (g : list nat) (ss : list (C G)) : C G :=
    if is_singlet g then hd idc ss
    else combine G (map (fun p => sign G (snd p)
           (negb (Bool.eqb (group_dual G ixs g) (idual G (nth (fst p) ixs dflt))))) (List.combine g ss)).

  Lemma combine_map_r {A B} (h : A -> B) (l : list A) : List.combine l (map h l) = map (fun a => (a, h a)) l.
  Proof. induction l as [|a l IH]; [reflexivity|]. cbn [map List.combine]. now rewrite IH. Qed.

  Lemma gcP_take s g : gcP g (take_axes idc s g) = group_charge G ixs s g.
  Proof.
    unfold gcP, group_charge. destruct (is_singlet g) eqn:Es.
    - destruct g as [|a [|b g]]; try discriminate Es. reflexivity.
    - unfold take_axes. rewrite combine_map_r, map_map. reflexivity.
  Qed.

  Definition rngP (g : list nat) (ss : list (C G)) : nat * nat :=
    if is_singlet g then (0, size_of G (FI g) (gcP g ss)) else sub_range G (FI g) (gcP g ss) ss.

  Lemma rngP_take s g : rngP g (take_axes idc s g) = slot_range G ixs secs s g.
  Proof. unfold rngP, slot_range. rewrite gcP_take. reflexivity. Qed.

  Definition scoP (g : list nat) (pcs : list (coord G)) : coord G :=
    (gcP g (map fst pcs),
     fst (rngP g (map fst pcs)) + offset (block_shape G (subs_of G ixs g) (map fst pcs)) (map snd pcs)).

  Lemma scoP_take (cs : list (coord G)) g :
    scoP g (take_axes dc cs g) =
    (group_charge G ixs (map fst cs) g, Fof G R x (map fst cs) g (take_axes 0 (map snd cs) g)).
  Proof.
    unfold scoP, Fof. rewrite !(take_map fst dc), !(take_map snd dc). cbn [fst snd].
    rewrite gcP_take, rngP_take.
    change (block_shape G (subs_of G ixs g) (take_axes idc (map fst cs) g))
      with (subshape G R x g (group_subsector G (map fst cs) g)).
    now rewrite (subshape_sub G R x g (map fst cs)).
  Qed.

  Lemma fcoords_scoP groups cs :
    fcoords G R x groups cs = map (fun g => scoP g (take_axes dc cs g)) (slots (length ixs) groups).
  Proof. unfold fcoords. apply map_ext. intros g. symmetry. apply scoP_take. Qed.

  Lemma scoP_singlet ax c o : scoP [ax] [(c, o)] = (c, o).
  Proof.
    unfold scoP, rngP, gcP. cbn [is_singlet length Nat.eqb map fst snd hd].
    unfold block_shape, subs_of. cbn [map List.combine fst snd offset]. change (shape_size []) with 1. f_equal. lia.
  Qed.

  (* on a sub-sector that a sector s' has, in the form used by the fuse theorems *)
  Lemma scoP_rec g s' pcs : map fst pcs = group_subsector G s' g ->
    scoP g pcs = (group_charge G ixs s' g,
                  fst (slot_range G ixs secs s' g) + offset (map (sz G R x s') g) (map snd pcs)).
  Proof.
    intros E. unfold scoP. rewrite E. unfold group_subsector. rewrite gcP_take, rngP_take.
    change (block_shape G (subs_of G ixs g) (take_axes idc s' g))
      with (subshape G R x g (group_subsector G s' g)).
    now rewrite (subshape_sub G R x g s').
  Qed.
End PCoord.

(* ------------------------------------------------------------------ *)
(* Part B: one operand fused by two groups that together contain every axis
   (either group may be empty; a one-axis group is not really fused) *)
Section GenSide.
  Context (G : Symmetry) (R : Ring) (GL : GroupLaws G) (OL : OrderLaws G).
  Context (x : aarray G R) (g1 g2 : list nat).
  Context (Hwf : wf_array G R x = true) (Hnd : NoDup (g1 ++ g2))
          (Hcov : forall ax, In ax (g1 ++ g2) <-> ax < ndim G R x) (Hne : g1 ++ g2 <> []).
  Notation gs := (filter (fun g : list nat => negb (is_nil g)) [g1; g2]).
  Notation ixs := (indices G R x).
  Notation FI := (fused_index G (indices G R x) (sectors G R x)).
  Notation dc := (ident G, 0).
  Notation xf := (fuse_core G R x (filter (fun g : list nat => negb (is_nil g)) [g1; g2])).

  Lemma GS_base :
    Forall (fun g : list nat => g <> []) gs /\ NoDup (concat gs) /\
    Forall (fun ax => ax < length ixs) (concat gs) /\
    a_fuse_noexpand G R x [g1; g2] = xf /\ indices G R xf = map FI gs.
  Proof.
    destruct (fuse_pair_thm G R x g1 g2 Hwf Hnd Hcov Hne) as (P1 & P2 & P3 & P4 & _ & _ & P7 & _).
    repeat split; assumption.
  Qed.

  Lemma GS_slots : slots (length ixs) gs = gs.
  Proof.
    unfold slots. destruct (axes_cover (length ixs) gs) as [Hb Ha].
    { intros ax. rewrite concat_nonnil. cbn [concat]. rewrite app_nil_r. apply Hcov. }
    rewrite Hb, Ha. cbn [map app]. now rewrite app_nil_r.
  Qed.

  Lemma GS_wf : wf_array G R xf = true.
  Proof. destruct GS_base as (P1 & P2 & P3 & _). apply (fuse_groups_wf G GL OL R x gs Hwf P1 P2 P3). Qed.

  Theorem GS_sem (cs : list (coord G)) :
    coords_ok G ixs cs = true -> recorded G R x gs (map fst cs) ->
    sem G R xf (map (fun g => scoP G R x g (take_axes dc cs g)) gs) = sem G R x cs.
  Proof.
    intros Hc Hrec. destruct GS_base as (P1 & P2 & P3 & _).
    rewrite <- (fuse_core_sem G R GL OL x gs Hwf P1 P2 P3 cs Hc Hrec).
    now rewrite fcoords_scoP, GS_slots.
  Qed.

  Lemma GS_in g : In g gs -> In g (slots (length ixs) gs).
  Proof. now rewrite GS_slots. Qed.

  (* one interface *)
  Theorem GS_all :
    Forall (fun g : list nat => g <> []) gs /\ NoDup (concat gs) /\
    Forall (fun ax => ax < length ixs) (concat gs) /\
    a_fuse_noexpand G R x [g1; g2] = xf /\ indices G R xf = map FI gs /\
    slots (length ixs) gs = gs /\ wf_array G R xf = true /\
    (forall cs : list (coord G), coords_ok G ixs cs = true -> recorded G R x gs (map fst cs) ->
       sem G R xf (map (fun g => scoP G R x g (take_axes dc cs g)) gs) = sem G R x cs).
  Proof.
    destruct GS_base as (P1 & P2 & P3 & P4 & P5).
    split; [exact P1|]. split; [exact P2|]. split; [exact P3|]. split; [exact P4|]. split; [exact P5|].
    split; [exact GS_slots|]. split; [exact GS_wf|exact GS_sem].
  Qed.
End GenSide.

(* ------------------------------------------------------------------ *)
(* Part C: the optional unfuse of one free leg (nothing for no axis or one axis).
   IXr is the reference index list of Y (its tables before pruning). *)
Section OptUnfuse.
  Context (G : Symmetry) (R : Ring) (GL : GroupLaws G) (OL : OrderLaws G).
  Context (x : aarray G R) (groups : list (list nat)).
  Context (Hwf : wf_array G R x = true).
  Context (Hg_ne : Forall (fun g => g <> []) groups) (Hg_nd : NoDup (concat groups))
          (Hg_rng : Forall (fun ax => ax < length (indices G R x)) (concat groups)).
  Context (g : list nat) (Hgin : g <> [] -> In g (slots (length (indices G R x)) groups)).
  Context (Y : aarray G R) (ax : nat) (dropped : list (C G)) (IXr : list (index G)).
  Notation idc := (ident G).
  Notation dflt := (dflt_index G).
  Notation FI := (fused_index G (indices G R x) (sectors G R x)).
  Notation subsg := (subs_of G (indices G R x) g).
  Context (HY_nd : NoDup (sectors G R Y)).
  Context (HY_shape : forall K T, In (K, T) (blocks G R Y) ->
             length K = length IXr /\ tshape T = block_shape G IXr K).
  Context (HY_g : g <> [] ->
             nth ax (indices G R Y) dflt = drop_charges G (FI g) dropped /\ nth ax IXr dflt = FI g /\
             ax < length IXr /\
             (forall K T, In (K, T) (blocks G R Y) -> ~ In (nth ax K idc) dropped)).

  Definition UY : aarray G R := if Nat.ltb 1 (length g) then unfuse_or_keep G R Y ax else Y.
  Definition UIX : list (index G) := if Nat.ltb 1 (length g) then replace_with_seq IXr ax subsg else IXr.

  Lemma multi_ne : 2 <= length g -> g <> [].
  Proof. intros H E. rewrite E in H. cbn in H. lia. Qed.
  Lemma multi_sing : 2 <= length g -> is_singlet g = false.
  Proof. intros H. unfold is_singlet. apply Nat.eqb_neq. lia. Qed.
  Lemma ltb_small : length g <= 1 -> Nat.ltb 1 (length g) = false.
  Proof. intros H. apply Nat.ltb_ge. lia. Qed.
  Lemma ltb_multi : 2 <= length g -> Nat.ltb 1 (length g) = true.
  Proof. intros H. apply Nat.ltb_lt. lia. Qed.

  Lemma UY_small : length g <= 1 -> UY = Y.
  Proof. intros H. unfold UY. now rewrite (ltb_small H). Qed.

  Lemma Hsz (H2 : 2 <= length g) : forall ch, ~ In ch dropped -> size_of G (nth ax IXr dflt) ch = size_of G (FI g) ch.
  Proof. intros ch _. destruct (HY_g (multi_ne H2)) as (_ & E & _). now rewrite E. Qed.

  Lemma PU (H2 : 2 <= length g) :
    a_unfuse G R Y ax = Some (PY' G R x g Y ax dropped) /\
    indices G R (PY' G R x g Y ax dropped) = replace_with_seq (indices G R Y) ax subsg /\
    NoDup (sectors G R (PY' G R x g Y ax dropped)) /\
    (forall K' T', In (K', T') (blocks G R (PY' G R x g Y ax dropped)) ->
       length K' = length (replace_with_seq IXr ax subsg) /\
       tshape T' = block_shape G (replace_with_seq IXr ax subsg) K') /\
    (forall K' T', In (K', T') (blocks G R (PY' G R x g Y ax dropped)) ->
       exists K T, In (K, T) (blocks G R Y) /\ firstn ax K' = firstn ax K).
  Proof.
    destruct (HY_g (multi_ne H2)) as (Hix & _ & Hax & Hk).
    exact (pruned_unfuse G R GL OL x groups Hwf Hg_ne Hg_nd Hg_rng g (Hgin (multi_ne H2)) (multi_sing H2)
             Y ax dropped IXr Hix (Hsz H2) HY_nd HY_shape Hax Hk).
  Qed.

  Lemma UY_multi : 2 <= length g -> UY = PY' G R x g Y ax dropped.
  Proof. intros H. unfold UY. rewrite (ltb_multi H). unfold unfuse_or_keep. now rewrite (proj1 (PU H)). Qed.

  Lemma UY_nd : NoDup (sectors G R UY).
  Proof.
    destruct (Nat.le_gt_cases (length g) 1) as [H|H]; [now rewrite UY_small|].
    rewrite UY_multi by lia. apply (PU H).
  Qed.

  Lemma UY_shape K' T' : In (K', T') (blocks G R UY) ->
    length K' = length UIX /\ tshape T' = block_shape G UIX K'.
  Proof.
    unfold UIX. destruct (Nat.le_gt_cases (length g) 1) as [H|H].
    - rewrite UY_small, (ltb_small H) by exact H. apply HY_shape.
    - rewrite UY_multi, (ltb_multi H) by lia. apply (PU H).
  Qed.

  Lemma UY_from K' T' : In (K', T') (blocks G R UY) -> exists K T, In (K, T) (blocks G R Y) /\ firstn ax K' = firstn ax K.
  Proof.
    destruct (Nat.le_gt_cases (length g) 1) as [H|H].
    - rewrite UY_small by exact H. intros Hin. now exists K', T'.
    - rewrite UY_multi by lia. apply (PU H).
  Qed.

  Lemma UY_indices : indices G R UY =
    if Nat.ltb 1 (length g) then replace_with_seq (indices G R Y) ax subsg else indices G R Y.
  Proof.
    destruct (Nat.le_gt_cases (length g) 1) as [H|H].
    - now rewrite UY_small, (ltb_small H).
    - rewrite UY_multi, (ltb_multi H) by lia. apply (PU H).
  Qed.

  Lemma UY_data : (forall K T, In (K, T) (blocks G R Y) -> length (tdata T) = shape_size (tshape T)) ->
    forall K' T', In (K', T') (blocks G R UY) -> length (tdata T') = shape_size (tshape T').
  Proof.
    intros HYd K' T'. destruct (Nat.le_gt_cases (length g) 1) as [H|H].
    - rewrite UY_small by exact H. apply HYd.
    - rewrite UY_multi by lia. assert (H2 : 2 <= length g) by lia.
      destruct (HY_g (multi_ne H2)) as (Hix & _ & Hax & Hk).
      exact (pruned_unfuse_data G R GL OL x groups Hwf Hg_ne Hg_nd Hg_rng g (Hgin (multi_ne H2)) (multi_sing H2)
               Y ax dropped IXr (Hsz H2) HY_shape Hax Hk K' T').
  Qed.

  Theorem UY_sem (cL csub cR : list (coord G)) :
    length cL = ax -> length csub = length g ->
    (2 <= length g -> exists s', In s' (sectors G R x) /\ group_subsector G s' g = map fst csub) ->
    (2 <= length g -> coords_ok G UIX (cL ++ csub ++ cR) = true) ->
    sem G R UY (cL ++ csub ++ cR) =
    sem G R Y (cL ++ (if is_nil g then [] else [scoP G R x g csub]) ++ cR).
  Proof.
    intros HlcL Hlsub Hrec Hc.
    assert (Hcases : g = [] \/ (exists g0, g = [g0]) \/ 2 <= length g).
    { destruct g as [|g0 [|g1 gt]]; [now left|right; left; now exists g0|right; right; cbn; lia]. }
    destruct Hcases as [E|[(g0 & E)|H2]].
    - rewrite E in Hlsub. destruct csub; [|discriminate]. rewrite UY_small by (rewrite E; cbn; lia).
      rewrite E. reflexivity.
    - rewrite E in Hlsub. destruct csub as [|[c o] [|? ?]]; try discriminate.
      rewrite UY_small by (rewrite E; cbn; lia).
      rewrite E. cbn [is_nil]. now rewrite scoP_singlet.
    - destruct (Hrec H2) as (s' & Hs' & Es').
      destruct (HY_g (multi_ne H2)) as (Hix & _ & Hax & Hk).
      replace (is_nil g) with false by (symmetry; apply is_nil_false; now apply multi_ne).
      rewrite (scoP_rec G R x g s' csub (eq_sym Es')).
      rewrite UY_multi by exact H2. cbn [app].
      apply (pruned_unfuse_sem G R GL OL x groups Hwf Hg_ne Hg_nd Hg_rng g (Hgin (multi_ne H2)) (multi_sing H2)
               Y ax dropped IXr (Hsz H2) HY_nd HY_shape Hax Hk s' cL csub cR Hs' HlcL (eq_sym Es')).
      intros _. specialize (Hc H2). unfold UIX in Hc. now rewrite (ltb_multi H2) in Hc.
  Qed.

  Theorem UY_none (cL csub cR : list (coord G)) :
    2 <= length g -> length cL = ax -> length csub = length g ->
    (forall s', In s' (sectors G R x) -> group_subsector G s' g <> map fst csub) ->
    sem G R UY (cL ++ csub ++ cR) = r0 R.
  Proof.
    intros H2 HlcL Hlsub Hno. rewrite UY_multi by exact H2.
    destruct (HY_g (multi_ne H2)) as (Hix & _ & Hax & Hk).
    exact (pruned_unfuse_sem_none G R GL OL x groups Hwf Hg_ne Hg_nd Hg_rng g (Hgin (multi_ne H2)) (multi_sing H2)
             Y ax dropped IXr (Hsz H2) HY_shape Hax Hk cL csub cR HlcL Hlsub Hno).
  Qed.
End OptUnfuse.

(* ------------------------------------------------------------------ *)
(* Part D: helpers for the general statement *)
Lemma free_leg_ix (G : Symmetry) (R : Ring) (x : aarray G R) (g : list nat) :
  (if Nat.ltb 1 (length g) then subs_of G (indices G R x) g
   else map (fused_index G (indices G R x) (sectors G R x)) (filter (fun g : list nat => negb (is_nil g)) [g]))
  = take_axes (dflt_index G) (indices G R x) g.
Proof. destruct g as [|g0 [|g1 gt]]; reflexivity. Qed.

Lemma nth0_replace1 {A} (l s : list A) d : 1 <= length l -> nth 0 (replace_with_seq l 1 s) d = nth 0 l d.
Proof. destruct l as [|a l]; cbn [length]; [lia|]. intros _. reflexivity. Qed.

Section PruneShape.
  Context (G : Symmetry) (GL : GroupLaws G).
  Lemma block_shape_prune (ixs : list (index G)) (secs : list (list (C G))) (s : list (C G)) :
    In s secs -> length s = length ixs ->
    block_shape G (prune_indices G ixs secs) s = block_shape G ixs s.
  Proof.
    intros Hs Hl.
    rewrite (block_shape_seq G ixs s Hl).
    rewrite (block_shape_seq G (prune_indices G ixs secs) s) by (rewrite (length_prune_indices G); exact Hl).
    rewrite (length_prune_indices G). apply map_ext_in. intros i Hi. apply in_seq in Hi.
    rewrite (nth_prune_indices G) by lia. cbv zeta. apply (size_of_drop G GL). apply (not_dropped G GL). exact Hs.
  Qed.
End PruneShape.

Section ScoOk.
  Context (G : Symmetry) (R : Ring) (GL : GroupLaws G) (OL : OrderLaws G).
  Context (x : aarray G R) (groups : list (list nat)).
  Context (Hwf : wf_array G R x = true).
  Context (Hg_ne : Forall (fun g => g <> []) groups) (Hg_nd : NoDup (concat groups))
          (Hg_rng : Forall (fun ax => ax < length (indices G R x)) (concat groups)).
  Notation FI := (fused_index G (indices G R x) (sectors G R x)).
  Notation dflt := (dflt_index G).

  Lemma scoP_coords_ok g (pcs : list (coord G)) :
    In g (slots (length (indices G R x)) groups) ->
    coords_ok G (take_axes dflt (indices G R x) g) pcs = true ->
    (is_singlet g = false -> exists s', In s' (sectors G R x) /\ group_subsector G s' g = map fst pcs) ->
    coords_ok G [FI g] [scoP G R x g pcs] = true.
  Proof.
    intros Hg Hc Hrec. unfold coords_ok. cbn [length Nat.eqb List.combine forallb fst snd andb].
    rewrite andb_true_r. apply Nat.ltb_lt.
    destruct (is_singlet g) eqn:Es.
    - apply (singlet_inv) in Es. destruct Es as (g0 & ->).
      pose proof (coords_ok_length G _ _ Hc) as Hl. cbn [take_axes map length] in Hl.
      destruct pcs as [|[c o] [|? ?]]; try discriminate. rewrite scoP_singlet. cbn [fst snd].
      apply coords_ok_iff in Hc. destruct Hc as [_ Hc]. specialize (Hc 0 ltac:(cbn; lia)). cbn [nth take_axes map fst snd] in Hc.
      exact Hc.
    - destruct (Hrec eq_refl) as (s' & Hs' & Es'). rewrite (scoP_rec G R x g s' pcs (eq_sym Es')). cbn [fst snd].
      destruct (rng_ok G R GL OL x groups Hwf Hg_ne Hg_nd Hg_rng s' g Hs' Hg) as [_ Hle].
      assert (Hinb : inb (map (sz G R x s') g) (map snd pcs) = true).
      { pose proof (coords_inb_gen G _ _ Hc) as Hi. rewrite <- Es' in Hi.
        change (block_shape G (take_axes dflt (indices G R x) g) (group_subsector G s' g))
          with (subshape G R x g (group_subsector G s' g)) in Hi.
        now rewrite (subshape_sub G R x g s') in Hi. }
      pose proof (offset_lt _ _ Hinb) as Ho.
      change (shape_size (map (sz G R x s') g)) with (group_size G (indices G R x) s' g) in Ho. lia.
  Qed.
End ScoOk.

Lemma coords_ok_app_inv (G : Symmetry) (i1 i2 : list (index G)) (cs : list (coord G)) :
  coords_ok G (i1 ++ i2) cs = true ->
  cs = firstn (length i1) cs ++ skipn (length i1) cs /\
  coords_ok G i1 (firstn (length i1) cs) = true /\ coords_ok G i2 (skipn (length i1) cs) = true.
Proof.
  intros H. split; [symmetry; apply firstn_skipn|].
  apply coords_ok_iff in H. destruct H as [Hl H]. rewrite app_length in Hl, H.
  split; apply coords_ok_iff.
  - split; [rewrite firstn_length; lia|]. intros i Hi. specialize (H i ltac:(lia)).
    rewrite app_nth1 in H by exact Hi.
    rewrite <- (firstn_skipn (length i1) cs) in H. rewrite app_nth1 in H by (rewrite firstn_length; lia). exact H.
  - split; [rewrite skipn_length; lia|]. intros i Hi. specialize (H (length i1 + i) ltac:(lia)).
    rewrite app_nth2 in H by lia. replace (length i1 + i - length i1) with i in H by lia.
    rewrite <- (firstn_skipn (length i1) cs) in H. rewrite app_nth2 in H by (rewrite firstn_length; lia).
    rewrite firstn_length in H. replace (length i1 + i - Nat.min (length i1) (length cs)) with i in H by lia. exact H.
Qed.

Section PruneId.
  Context (G : Symmetry) (R : Ring) (GL : GroupLaws G).
  Notation keq := (list_eqb (ceqb G)).

  Lemma drop_charges_nil (ix : index G) : drop_charges G ix [] = ix.
  Proof.
    destruct ix as [cm d sub]. cbn [drop_charges]. f_equal.
    - apply filter_all. intros p _. reflexivity.
    - destruct sub as [[subs ext]|]; [|reflexivity]. f_equal. f_equal. apply filter_all. intros p _. reflexivity.
  Qed.

  Lemma prune_id (ixs : list (index G)) (secs : list (list (C G))) :
    (forall i c, i < length ixs -> In c (icharges G (nth i ixs (dflt_index G))) ->
       exists s, In s secs /\ nth i s (ident G) = c) ->
    prune_indices G ixs secs = ixs.
  Proof.
    intros Hp. apply (nth_ext _ _ (dflt_index G) (dflt_index G)); [apply (length_prune_indices G)|].
    intros i Hi. rewrite (length_prune_indices G) in Hi. rewrite (nth_prune_indices G) by exact Hi. cbv zeta.
    rewrite filter_nil_all; [apply drop_charges_nil|].
    intros c Hc. destruct (Hp i c Hi Hc) as (s & Hs & E).
    assert (Hm : mem (ceqb G) c (map (fun s0 => nth i s0 (ident G)) secs) = true).
    { apply (mem_In (ceqb G) (Hce G GL)). apply in_map_iff. exists s. now split. }
    now rewrite Hm.
  Qed.

  Lemma acc_keys_in (ps : list (list (C G) * tensor R)) : forall acc k,
    In k (map fst acc) \/ In k (map fst ps) -> In k (map fst (fold_left (acc_add G R) ps acc)).
  Proof.
    induction ps as [|p ps IH]; intros acc k H; cbn [fold_left].
    - destruct H as [H|[]]. exact H.
    - apply IH. unfold acc_add. destruct (lookup keq (fst p) acc) as [t|] eqn:E.
      + rewrite (keys_dset_in keq (Hke G GL)) by (apply (OrderProofs.lookup_In keq (Hke G GL)) in E; now apply (in_map fst) in E).
        destruct H as [H|[H|H]]; [now left| |now right].
        left. rewrite <- H. apply (OrderProofs.lookup_In keq (Hke G GL)) in E. now apply (in_map fst) in E.
      + rewrite map_app. cbn [map]. destruct H as [H|[H|H]]; [left; apply in_or_app; now left| |now right].
        left. apply in_or_app. right. now left.
  Qed.

  Lemma pair_key (x y : aarray G R) (la aa ab rb : list nat) sx tx sy ty :
    In (sx, tx) (blocks G R x) -> In (sy, ty) (blocks G R y) ->
    take_axes (ident G) sx aa = take_axes (ident G) sy ab ->
    In (take_axes (ident G) sx la ++ take_axes (ident G) sy rb) (sectors G R (tdot_blockwise G R x y la aa ab rb)).
  Proof.
    intros Hx Hy E. unfold tdot_blockwise, sectors. cbn [blocks]. apply acc_keys_in. right.
    unfold tdot_pairs. apply in_map_iff.
    exists (take_axes (ident G) sx la ++ take_axes (ident G) sy rb, ttensordot R tx ty aa ab). split; [reflexivity|].
    apply in_flat_map. exists (sx, tx). split; [exact Hx|]. apply in_flat_map. exists (sy, ty). split; [exact Hy|].
    cbn [fst snd]. rewrite E. rewrite (proj2 (Hke G GL _ _) eq_refl). now left.
  Qed.
End PruneId.

Lemma index_coords_In (G : Symmetry) (ix : index G) ch o : In (ch, o) (index_coords G ix) ->
  exists d, In (ch, d) (chargemap G ix) /\ o < d.
Proof.
  unfold index_coords. intros H. apply in_flat_map in H. destruct H as ([c d] & Hcd & H).
  apply in_map_iff in H. destruct H as (o' & E & Ho). cbn [fst snd] in E, Ho. inversion E; subst.
  apply in_seq in Ho. exists d. split; [exact Hcd|lia].
Qed.

(* ------------------------------------------------------------------ *)
(* Part E: fused = blockwise, free legs of any size, >= 1 contracted axes *)
Section FusedEqGen.
  Context (G : Symmetry) (R : Ring) (GL : GroupLaws G) (OL : OrderLaws G) (RL : SumLaws R).
  Context (a b : aarray G R) (la aa ab rb : list nat).
  Notation nonnil := (fun g : list nat => negb (is_nil g)).
  Notation idc := (ident G).
  Notation dflt := (dflt_index G).
  Notation keq := (list_eqb (ceqb G)).
  Notation dc := (ident G, 0).
  Notation FIa := (fused_index G (indices G R a) (sectors G R a)).
  Notation FIb := (fused_index G (indices G R b) (sectors G R b)).
  Notation gsA := (filter (fun g : list nat => negb (is_nil g)) [la; aa]).
  Notation gsB := (filter (fun g : list nat => negb (is_nil g)) [ab; rb]).
  Notation af := (fuse_core G R a (filter (fun g : list nat => negb (is_nil g)) [la; aa])).
  Notation bf := (fuse_core G R b (filter (fun g : list nat => negb (is_nil g)) [ab; rb])).

  Context (Hla : la = rest_axes (ndim G R a) aa) (Hrb : rb = rest_axes (ndim G R b) ab).
  Context (Hwa : wf_array G R a = true) (Hwb : wf_array G R b = true).
  Context (Haa : axes_ok (ndim G R a) aa = true) (Hab : axes_ok (ndim G R b) ab = true).
  Context (Hlen : length aa = length ab) (Haa_ne : aa <> []).
  Context (Hsame : forall ss, In ss (con_subs G R a aa) <-> In ss (con_subs G R b ab)).
  Context (Hdual0 : idual G (FIa aa) = negb (idual G (FIb ab))).
  Context (HagreeP : forall ss, In ss (con_subs G R a aa) ->
             block_shape G (subs_of G (indices G R a) aa) ss = block_shape G (subs_of G (indices G R b) ab) ss /\
             gcP G R a aa ss = gcP G R b ab ss /\ rngP G R a aa ss = rngP G R b ab ss).
  Context (Hpresent : is_singlet aa = true -> forall c, In c (icharges G (FIa aa)) -> In [c] (con_subs G R a aa)).

  Definition LA : list (list nat) := filter (fun g : list nat => negb (is_nil g)) [la].
  Definition RB : list (list nat) := filter (fun g : list nat => negb (is_nil g)) [rb].
  Definition la' : list nat := if is_nil la then [] else [0].
  Definition aa' : list nat := if is_nil la then [0] else [1].
  Definition rb' : list nat := if is_nil rb then [] else [1].
  Notation cc := (tdot_blockwise G R af bf la' aa' [0] rb').

  Lemma Hab_ne : ab <> [].
  Proof. intros E. rewrite E in Hlen. destruct aa; [congruence|discriminate]. Qed.
  Lemma nil_aa : is_nil aa = false.
  Proof. destruct aa; [congruence|reflexivity]. Qed.
  Lemma nil_ab : is_nil ab = false.
  Proof. pose proof Hab_ne. destruct ab; [congruence|reflexivity]. Qed.
  Lemma Haa_s : NoDup aa /\ (forall i, In i aa -> i < ndim G R a).
  Proof. now apply axes_ok_spec. Qed.
  Lemma Hab_s : NoDup ab /\ (forall i, In i ab -> i < ndim G R b).
  Proof. now apply axes_ok_spec. Qed.

  Lemma pairA : NoDup (la ++ aa) /\ (forall ax, In ax (la ++ aa) <-> ax < ndim G R a) /\ la ++ aa <> [].
  Proof.
    destruct Haa_s as [H1 H2]. destruct (rest_axes_pair (ndim G R a) aa H1) as (P1 & _ & P3 & _).
    { apply Forall_forall. exact H2. }
    rewrite Hla. split; [exact P1|]. split; [exact P3|]. intros E. apply app_eq_nil in E. now apply Haa_ne.
  Qed.
  Lemma pairB : NoDup (ab ++ rb) /\ (forall ax, In ax (ab ++ rb) <-> ax < ndim G R b) /\ ab ++ rb <> [].
  Proof.
    destruct Hab_s as [H1 H2]. destruct (rest_axes_pair (ndim G R b) ab H1) as (_ & P2 & _ & P4).
    { apply Forall_forall. exact H2. }
    rewrite Hrb. split; [exact P2|]. split; [exact P4|]. intros E. apply app_eq_nil in E. now apply Hab_ne.
  Qed.

  Definition GSA := GS_all G R GL OL a la aa Hwa (proj1 pairA) (proj1 (proj2 pairA)) (proj2 (proj2 pairA)).
  Definition GSB := GS_all G R GL OL b ab rb Hwb (proj1 pairB) (proj1 (proj2 pairB)) (proj2 (proj2 pairB)).

  Lemma neA : Forall (fun g : list nat => g <> []) gsA. Proof. apply GSA. Qed.
  Lemma ndA : NoDup (concat gsA). Proof. apply GSA. Qed.
  Lemma rgA : Forall (fun ax => ax < length (indices G R a)) (concat gsA). Proof. apply GSA. Qed.
  Lemma slA : slots (length (indices G R a)) gsA = gsA. Proof. apply GSA. Qed.
  Lemma neB : Forall (fun g : list nat => g <> []) gsB. Proof. apply GSB. Qed.
  Lemma ndB : NoDup (concat gsB). Proof. apply GSB. Qed.
  Lemma rgB : Forall (fun ax => ax < length (indices G R b)) (concat gsB). Proof. apply GSB. Qed.
  Lemma slB : slots (length (indices G R b)) gsB = gsB. Proof. apply GSB. Qed.
  Lemma af_wf : wf_array G R af = true. Proof. apply GSA. Qed.
  Lemma bf_wf : wf_array G R bf = true. Proof. apply GSB. Qed.

  Lemma gsA_eq : gsA = LA ++ [aa].
  Proof. unfold LA. cbn [filter]. rewrite nil_aa. cbn [negb]. now destruct (is_nil la). Qed.
  Lemma gsB_eq : gsB = ab :: RB.
  Proof. unfold RB. cbn [filter]. rewrite nil_ab. cbn [negb]. reflexivity. Qed.

  Lemma af_indices : indices G R af = map FIa LA ++ [FIa aa].
  Proof. rewrite (proj1 (proj2 (proj2 (proj2 (proj2 GSA))))), gsA_eq, map_app. reflexivity. Qed.
  Lemma bf_indices : indices G R bf = FIb ab :: map FIb RB.
  Proof. rewrite (proj1 (proj2 (proj2 (proj2 (proj2 GSB))))), gsB_eq. reflexivity. Qed.

  Lemma LA_nil : is_nil la = true -> LA = [] /\ la = [].
  Proof. intros E. split; [unfold LA; cbn [filter]; now rewrite E|now apply is_nil_true]. Qed.
  Lemma LA_cons : is_nil la = false -> LA = [la] /\ la <> [].
  Proof. intros E. split; [unfold LA; cbn [filter]; now rewrite E|now apply is_nil_false]. Qed.
  Lemma RB_nil : is_nil rb = true -> RB = [] /\ rb = [].
  Proof. intros E. split; [unfold RB; cbn [filter]; now rewrite E|now apply is_nil_true]. Qed.
  Lemma RB_cons : is_nil rb = false -> RB = [rb] /\ rb <> [].
  Proof. intros E. split; [unfold RB; cbn [filter]; now rewrite E|now apply is_nil_false]. Qed.

  Lemma af_ndim : ndim G R af = length LA + 1.
  Proof. unfold ndim. rewrite af_indices, app_length, map_length. reflexivity. Qed.
  Lemma bf_ndim : ndim G R bf = 1 + length RB.
  Proof. unfold ndim. rewrite bf_indices. cbn [length]. now rewrite map_length. Qed.

  Lemma A_shape :
    axes_ok (ndim G R af) aa' = true /\ la' = rest_axes (ndim G R af) aa' /\
    without_axes (indices G R af) aa' = map FIa LA /\ take_axes dflt (indices G R af) aa' = [FIa aa] /\
    (forall (fl : list (coord G)) k, length fl = length LA -> merge G (ndim G R af) aa' fl [k] = fl ++ [k]).
  Proof.
    rewrite af_ndim, af_indices. unfold la', aa'. destruct (is_nil la) eqn:En.
    - destruct (LA_nil En) as [-> _]. cbn [map app length Nat.add].
      repeat split. intros fl k Hl. destruct fl; [reflexivity|discriminate].
    - destruct (LA_cons En) as [-> _]. cbn [map app length Nat.add].
      repeat split. intros fl k Hl. destruct fl as [|f [|? ?]]; try discriminate. reflexivity.
  Qed.

  Lemma B_shape :
    axes_ok (ndim G R bf) [0] = true /\ rb' = rest_axes (ndim G R bf) [0] /\
    without_axes (indices G R bf) [0] = map FIb RB /\
    (forall (fr : list (coord G)) k, length fr = length RB -> merge G (ndim G R bf) [0] fr [k] = k :: fr).
  Proof.
    rewrite bf_ndim, bf_indices. unfold rb'. destruct (is_nil rb) eqn:En.
    - destruct (RB_nil En) as [-> _]. cbn [map length Nat.add].
      repeat split. intros fr k Hl. destruct fr; [reflexivity|discriminate].
    - destruct (RB_cons En) as [-> _]. cbn [map length Nat.add].
      repeat split. intros fr k Hl. destruct fr as [|f [|? ?]]; try discriminate. reflexivity.
  Qed.

  (* the product of the fused operands *)
  Definition IX0 : list (index G) := map FIa LA ++ map FIb RB.

  Lemma cc_indices : indices G R cc = prune_indices G IX0 (sectors G R cc).
  Proof.
    unfold tdot_blockwise. cbn [indices sectors blocks].
    destruct A_shape as (_ & _ & HwA & _). destruct B_shape as (_ & _ & HwB & _). now rewrite HwA, HwB.
  Qed.

  Lemma cc_wf : wf_array G R cc = true.
  Proof.
    destruct A_shape as (HaxA & HlaA & _ & HtA & _). destruct B_shape as (HaxB & HrbB & _).
    rewrite HlaA, HrbB.
    destruct (axes_ok_spec _ _ HaxA) as [A1 A2]. destruct (axes_ok_spec _ _ HaxB) as [B1 B2].
    apply (tdot_blockwise_wf G GL R OL af bf aa' [0] af_wf bf_wf A1 A2 B1 B2).
    - unfold aa'. now destruct (is_nil la).
    - intros k Hk. assert (k = 0) by (unfold aa' in Hk; destruct (is_nil la); cbn in Hk; lia). subst k.
      rewrite bf_indices. cbn [nth].
      assert (E : nth (nth 0 aa' 0) (indices G R af) dflt = FIa aa).
      { assert (Ht : take_axes dflt (indices G R af) aa' = [FIa aa]) by exact HtA.
        unfold take_axes, aa' in *. destruct (is_nil la); cbn [map nth] in *; now inversion Ht. }
      rewrite E. exact Hdual0.
  Qed.

  Lemma cc_WF : WF G R (indices G R cc) (charge G R cc) (blocks G R cc).
  Proof. apply (wf_array_iff G GL R cc). exact cc_wf. Qed.

  Lemma IX0_len : length IX0 = length LA + length RB.
  Proof. unfold IX0. now rewrite app_length, !map_length. Qed.

  Lemma cc_shape0 K T : In (K, T) (blocks G R cc) -> length K = length IX0 /\ tshape T = block_shape G IX0 K.
  Proof.
    intros Hin. destruct (wf_bl G R _ _ _ cc_WF K T Hin) as ((Hl & _) & Hsh & _).
    rewrite cc_indices, (length_prune_indices G) in Hl. split; [exact Hl|].
    rewrite Hsh, cc_indices. apply (block_shape_prune G GL); [|exact Hl].
    unfold sectors. apply in_map_iff. exists (K, T). now split.
  Qed.

  Definition droppedAt (i : nat) (ix : index G) : list (C G) :=
    filter (fun ch => negb (mem (ceqb G) ch (map (fun s => nth i s idc) (sectors G R cc)))) (icharges G ix).

  Lemma cc_kept i ix K T : In (K, T) (blocks G R cc) -> ~ In (nth i K idc) (droppedAt i ix).
  Proof.
    intros Hin Hd. unfold droppedAt in Hd. apply filter_In in Hd. destruct Hd as [_ Hd].
    assert (Hm : mem (ceqb G) (nth i K idc) (map (fun s => nth i s idc) (sectors G R cc)) = true).
    { apply (mem_In (ceqb G) (Hce G GL)). apply in_map_iff. exists K. split; [reflexivity|].
      unfold sectors. apply in_map_iff. exists (K, T). now split. }
    rewrite Hm in Hd. discriminate.
  Qed.

  Lemma cc_nth i : i < length IX0 ->
    nth i (indices G R cc) dflt = drop_charges G (nth i IX0 dflt) (droppedAt i (nth i IX0 dflt)).
  Proof. intros Hi. rewrite cc_indices. rewrite (nth_prune_indices G) by exact Hi. reflexivity. Qed.
  (* ---------------- the two optional unfuse steps ---------------- *)
  Notation axR := (length LA).
  Notation dropR := (droppedAt (length LA) (FIb rb)).
  Notation dropL := (droppedAt 0 (FIa la)).

  Lemma inA_la : la <> [] -> In la (slots (length (indices G R a)) gsA).
  Proof.
    intros Hne. rewrite slA, gsA_eq. apply in_or_app. left.
    destruct (LA_cons (proj2 (is_nil_false la) Hne)) as [-> _]. now left.
  Qed.
  Lemma inA_aa : In aa (slots (length (indices G R a)) gsA).
  Proof. rewrite slA, gsA_eq. apply in_or_app. right. now left. Qed.
  Lemma inB_ab : In ab (slots (length (indices G R b)) gsB).
  Proof. rewrite slB, gsB_eq. now left. Qed.
  Lemma inB_rb : rb <> [] -> In rb (slots (length (indices G R b)) gsB).
  Proof.
    intros Hne. rewrite slB, gsB_eq. right.
    destruct (RB_cons (proj2 (is_nil_false rb) Hne)) as [-> _]. now left.
  Qed.

  Lemma HYg_R : rb <> [] ->
    nth axR (indices G R cc) dflt = drop_charges G (FIb rb) dropR /\ nth axR IX0 dflt = FIb rb /\
    axR < length IX0 /\ (forall K T, In (K, T) (blocks G R cc) -> ~ In (nth axR K idc) dropR).
  Proof.
    intros Hne. destruct (RB_cons (proj2 (is_nil_false rb) Hne)) as [ERB _].
    assert (Hn : nth axR IX0 dflt = FIb rb).
    { unfold IX0. rewrite ERB. cbn [map]. rewrite app_nth2 by (rewrite map_length; lia).
      rewrite map_length, Nat.sub_diag. reflexivity. }
    assert (Hl : axR < length IX0) by (rewrite IX0_len, ERB; cbn [length]; lia).
    split; [rewrite (cc_nth axR Hl), Hn; reflexivity|]. split; [exact Hn|]. split; [exact Hl|].
    intros K T Hin. now apply (cc_kept axR (FIb rb) K T).
  Qed.

  Definition c1 : aarray G R := UY G R rb cc axR.
  Definition IX1 : list (index G) := UIX G R b rb axR IX0.

  Lemma cc_nd : NoDup (sectors G R cc).
  Proof. exact (wf_nd G R _ _ _ cc_WF). Qed.

  Lemma c1_nd : NoDup (sectors G R c1).
  Proof. exact (UY_nd G R GL OL b gsB Hwb neB ndB rgB rb inB_rb cc axR dropR IX0 cc_nd cc_shape0 HYg_R). Qed.
  Lemma c1_shape K T : In (K, T) (blocks G R c1) -> length K = length IX1 /\ tshape T = block_shape G IX1 K.
  Proof. exact (UY_shape G R GL OL b gsB Hwb neB ndB rgB rb inB_rb cc axR dropR IX0 cc_nd cc_shape0 HYg_R K T). Qed.

  Lemma IX1_eq : IX1 = map FIa LA ++ take_axes dflt (indices G R b) rb.
  Proof.
    unfold IX1, UIX, IX0. rewrite <- (free_leg_ix G R b rb). fold RB.
    destruct (Nat.ltb 1 (length rb)) eqn:E; [|reflexivity].
    apply Nat.ltb_lt in E.
    assert (Hne : rb <> []) by (intros E0; rewrite E0 in E; cbn in E; lia).
    destruct (RB_cons (proj2 (is_nil_false rb) Hne)) as [-> _]. cbn [map].
    rewrite (replace_with_seq_middle (map FIa LA) [] (FIb rb) _ axR) by apply map_length.
    now rewrite app_nil_r.
  Qed.

  Lemma HYg_L : la <> [] ->
    nth 0 (indices G R c1) dflt = drop_charges G (FIa la) dropL /\ nth 0 IX1 dflt = FIa la /\
    0 < length IX1 /\ (forall K T, In (K, T) (blocks G R c1) -> ~ In (nth 0 K idc) dropL).
  Proof.
    intros Hne. destruct (LA_cons (proj2 (is_nil_false la) Hne)) as [ELA _].
    assert (Hn0 : nth 0 IX0 dflt = FIa la) by (unfold IX0; rewrite ELA; reflexivity).
    assert (Hl0 : 0 < length IX0) by (rewrite IX0_len, ELA; cbn [length]; lia).
    assert (Hn1 : nth 0 IX1 dflt = FIa la) by (rewrite IX1_eq, ELA; reflexivity).
    assert (Hl1 : 0 < length IX1) by (rewrite IX1_eq, ELA; cbn [map app length]; lia).
    split; [|split; [exact Hn1|split; [exact Hl1|]]].
    - unfold c1. rewrite (UY_indices G R GL OL b gsB Hwb neB ndB rgB rb inB_rb cc axR dropR IX0 cc_nd cc_shape0 HYg_R).
      destruct (Nat.ltb 1 (length rb)).
      + rewrite ELA. cbn [length]. rewrite nth0_replace1.
        * rewrite (cc_nth 0 Hl0), Hn0. reflexivity.
        * rewrite cc_indices, (length_prune_indices G). lia.
      + rewrite (cc_nth 0 Hl0), Hn0. reflexivity.
    - intros K' T' Hin.
      destruct (UY_from G R GL OL b gsB Hwb neB ndB rgB rb inB_rb cc axR dropR IX0 cc_nd cc_shape0 HYg_R K' T' Hin)
        as (K & T & HinK & Hf).
      destruct (c1_shape K' T' Hin) as [Hl _].
      rewrite ELA in Hf. cbn [length] in Hf.
      rewrite (firstn1_nth0 K' K idc Hf) by (intros E; rewrite E in Hl; cbn in Hl; lia).
      now apply (cc_kept 0 (FIa la) K T).
  Qed.

  Definition c2 : aarray G R := UY G R la c1 0.
  Definition IX2 : list (index G) := UIX G R a la 0 IX1.

  Lemma IX2_eq : IX2 = take_axes dflt (indices G R a) la ++ take_axes dflt (indices G R b) rb.
  Proof.
    unfold IX2, UIX. rewrite IX1_eq. rewrite <- (free_leg_ix G R a la). fold LA.
    destruct (Nat.ltb 1 (length la)) eqn:E; [|reflexivity].
    apply Nat.ltb_lt in E.
    assert (Hne : la <> []) by (intros E0; rewrite E0 in E; cbn in E; lia).
    destruct (LA_cons (proj2 (is_nil_false la) Hne)) as [-> _]. cbn [map app].
    apply (replace_with_seq_middle [] _ (FIa la) _ 0 eq_refl).
  Qed.

  Lemma cc_ndim : ndim G R cc = length LA + length RB.
  Proof. unfold ndim. now rewrite cc_indices, (length_prune_indices G), IX0_len. Qed.

  Lemma fused_on_eq : fused_on G R a b la aa ab rb = c2.
  Proof.
    unfold fused_on. cbv zeta.
    replace (a_fuse_noexpand G R a [la; aa]) with af by (symmetry; apply GSA).
    replace (a_fuse_noexpand G R b [ab; rb]) with bf by (symmetry; apply GSB).
    rewrite nil_aa, nil_ab. fold la' aa' rb'.
    unfold c2, c1, UY.
    destruct (Nat.ltb 1 (length rb)) eqn:E; [|reflexivity].
    apply Nat.ltb_lt in E.
    assert (Hne : rb <> []) by (intros E0; rewrite E0 in E; cbn in E; lia).
    destruct (RB_cons (proj2 (is_nil_false rb) Hne)) as [ERB _].
    replace (ndim G R cc - 1) with axR by (rewrite cc_ndim, ERB; cbn [length]; lia). reflexivity.
  Qed.
  (* ---------------- the two routes, coordinate by coordinate ---------------- *)
  Notation legsA := (take_axes dflt (indices G R a) aa).
  Notation ww := (tdot_blockwise G R a b la aa ab rb).
  Notation Sum := (rsum R).

  Section Coords.
  Context (csl csr : list (coord G)).
  Context (Hcl : coords_ok G (without_axes (indices G R a) aa) csl = true).
  Context (Hcr : coords_ok G (without_axes (indices G R b) ab) csr = true).

  Lemma Hcl' : coords_ok G (take_axes dflt (indices G R a) la) csl = true.
  Proof. rewrite Hla. unfold ndim. rewrite <- (without_axes_take dflt). exact Hcl. Qed.
  Lemma Hcr' : coords_ok G (take_axes dflt (indices G R b) rb) csr = true.
  Proof. rewrite Hrb. unfold ndim. rewrite <- (without_axes_take dflt). exact Hcr. Qed.
  Lemma len_csl : length csl = length la.
  Proof. rewrite (coords_ok_length G _ _ Hcl'). apply length_take_axes. Qed.
  Lemma len_csr : length csr = length rb.
  Proof. rewrite (coords_ok_length G _ _ Hcr'). apply length_take_axes. Qed.

  Lemma mergeA_la kc : take_axes dc (merge G (ndim G R a) aa csl kc) la = csl.
  Proof. rewrite Hla. apply take_scatterA_rest. rewrite <- Hla. exact len_csl. Qed.
  Lemma mergeB_rb kc : take_axes dc (merge G (ndim G R b) ab csr kc) rb = csr.
  Proof. rewrite Hrb. apply take_scatterA_rest. rewrite <- Hrb. exact len_csr. Qed.

  Lemma semA_zero : (forall s', In s' (sectors G R a) -> group_subsector G s' la <> map fst csl) ->
    forall kc, sem G R a (merge G (ndim G R a) aa csl kc) = r0 R.
  Proof.
    intros Hno kc. unfold sem.
    destruct (lookup keq (map fst (merge G (ndim G R a) aa csl kc)) (blocks G R a)) as [t|] eqn:E; [exfalso|reflexivity].
    apply (OrderProofs.lookup_In keq (Hke G GL)) in E.
    apply (Hno _ (In_secs G R a _ t E)). unfold group_subsector.
    rewrite <- (take_map fst dc). now rewrite mergeA_la.
  Qed.
  Lemma semB_zero : (forall s', In s' (sectors G R b) -> group_subsector G s' rb <> map fst csr) ->
    forall kc, sem G R b (merge G (ndim G R b) ab csr kc) = r0 R.
  Proof.
    intros Hno kc. unfold sem.
    destruct (lookup keq (map fst (merge G (ndim G R b) ab csr kc)) (blocks G R b)) as [t|] eqn:E; [exfalso|reflexivity].
    apply (OrderProofs.lookup_In keq (Hke G GL)) in E.
    apply (Hno _ (In_secs G R b _ t E)). unfold group_subsector.
    rewrite <- (take_map fst dc). now rewrite mergeB_rb.
  Qed.

  Lemma W_formula : sem G R ww (csl ++ csr) =
    Sum (map (fun kc => rmul R (sem G R a (merge G (ndim G R a) aa csl kc)) (sem G R b (merge G (ndim G R b) ab csr kc)))
             (all_coords G legsA)).
  Proof.
    apply (blockwise_sem_wf G R RL (ceqb_spec G GL) a b la aa ab rb csl csr); try assumption; apply OL.
  Qed.

  Lemma rec_dec (x : aarray G R) (g : list nat) (ss : list (C G)) :
    (exists s', In s' (sectors G R x) /\ group_subsector G s' g = ss) \/
    (forall s', In s' (sectors G R x) -> group_subsector G s' g <> ss).
  Proof.
    destruct (existsb (fun s' => keq (group_subsector G s' g) ss) (sectors G R x)) eqn:E.
    - left. apply existsb_exists in E. destruct E as (s' & Hs' & Hk). exists s'. split; [exact Hs'|]. now apply (Hke G GL).
    - right. intros s' Hs' Heq.
      assert (Hf : existsb (fun s' => keq (group_subsector G s' g) ss) (sectors G R x) = true).
      { apply existsb_exists. exists s'. split; [exact Hs'|]. now apply (Hke G GL). }
      rewrite Hf in E. discriminate.
  Qed.

  Definition flL : list (coord G) := if is_nil la then [] else [scoP G R a la csl].
  Definition frL : list (coord G) := if is_nil rb then [] else [scoP G R b rb csr].
  Definition okL : Prop := 2 <= length la -> exists s', In s' (sectors G R a) /\ group_subsector G s' la = map fst csl.
  Definition okR : Prop := 2 <= length rb -> exists s', In s' (sectors G R b) /\ group_subsector G s' rb = map fst csr.

  Lemma flL_len : length flL = length LA.
  Proof. unfold flL, LA. cbn [filter]. now destruct (is_nil la). Qed.
  Lemma frL_len : length frL = length RB.
  Proof. unfold frL, RB. cbn [filter]. now destruct (is_nil rb). Qed.

  Lemma flL_ok : okL -> coords_ok G (map FIa LA) flL = true.
  Proof.
    intros Hok. unfold flL. destruct (is_nil la) eqn:En.
    - destruct (LA_nil En) as [-> _]. reflexivity.
    - destruct (LA_cons En) as [-> Hne]. cbn [map].
      apply (scoP_coords_ok G R GL OL a gsA Hwa neA ndA rgA la csl (inA_la Hne) Hcl').
      intros Es. apply Hok. exact (nonsinglet_len G R a la Hne Es).
  Qed.
  Lemma frL_ok : okR -> coords_ok G (map FIb RB) frL = true.
  Proof.
    intros Hok. unfold frL. destruct (is_nil rb) eqn:En.
    - destruct (RB_nil En) as [-> _]. reflexivity.
    - destruct (RB_cons En) as [-> Hne]. cbn [map].
      apply (scoP_coords_ok G R GL OL b gsB Hwb neB ndB rgB rb csr (inB_rb Hne) Hcr').
      intros Es. apply Hok. exact (nonsinglet_len G R b rb Hne Es).
  Qed.

  Lemma IX2_coords : coords_ok G IX2 ([] ++ csl ++ csr) = true.
  Proof. rewrite IX2_eq. cbn [app]. apply coords_ok_app; [exact Hcl'|exact Hcr']. Qed.
  Lemma IX1_coords : okL -> coords_ok G IX1 (flL ++ csr ++ []) = true.
  Proof. intros Hok. rewrite IX1_eq, app_nil_r. apply coords_ok_app; [now apply flL_ok|exact Hcr']. Qed.

  (* the fused operands at the fused coordinates *)
  Lemma recA s :
    (2 <= length la -> exists s', In s' (sectors G R a) /\ group_subsector G s' la = group_subsector G s la) ->
    (is_singlet aa = false -> exists s', In s' (sectors G R a) /\ group_subsector G s' aa = group_subsector G s aa) ->
    recorded G R a gsA s.
  Proof.
    intros HL HA g Hg Es. rewrite slA, gsA_eq in Hg. apply in_app_or in Hg. destruct Hg as [Hg|[<-|[]]].
    - unfold LA in Hg. cbn [filter] in Hg. destruct (is_nil la) eqn:En; cbn [negb] in Hg; [destruct Hg|].
      destruct Hg as [<-|[]]. apply HL. apply (nonsinglet_len G R a la); [now apply is_nil_false|exact Es].
    - now apply HA.
  Qed.
  Lemma recB s :
    (is_singlet ab = false -> exists s', In s' (sectors G R b) /\ group_subsector G s' ab = group_subsector G s ab) ->
    (2 <= length rb -> exists s', In s' (sectors G R b) /\ group_subsector G s' rb = group_subsector G s rb) ->
    recorded G R b gsB s.
  Proof.
    intros HA HR g Hg Es. rewrite slB, gsB_eq in Hg. destruct Hg as [<-|Hg]; [now apply HA|].
    unfold RB in Hg. cbn [filter] in Hg. destruct (is_nil rb) eqn:En; cbn [negb] in Hg; [destruct Hg|].
    destruct Hg as [<-|[]]. apply HR. apply (nonsinglet_len G R b rb); [now apply is_nil_false|exact Es].
  Qed.

  Lemma semA_fused (cs : list (coord G)) :
    coords_ok G (indices G R a) cs = true -> recorded G R a gsA (map fst cs) -> take_axes dc cs la = csl ->
    sem G R af (flL ++ [scoP G R a aa (take_axes dc cs aa)]) = sem G R a cs.
  Proof.
    intros Hc Hrec Et. rewrite <- (proj2 (proj2 (proj2 (proj2 (proj2 (proj2 (proj2 GSA)))))) cs Hc Hrec).
    rewrite gsA_eq, map_app. cbn [map]. f_equal. f_equal.
    unfold flL, LA. cbn [filter]. destruct (is_nil la); cbn [negb map]; [reflexivity|now rewrite Et].
  Qed.
  Lemma semB_fused (cs : list (coord G)) :
    coords_ok G (indices G R b) cs = true -> recorded G R b gsB (map fst cs) -> take_axes dc cs rb = csr ->
    sem G R bf (scoP G R b ab (take_axes dc cs ab) :: frL) = sem G R b cs.
  Proof.
    intros Hc Hrec Et. rewrite <- (proj2 (proj2 (proj2 (proj2 (proj2 (proj2 (proj2 GSB)))))) cs Hc Hrec).
    rewrite gsB_eq. cbn [map]. f_equal. f_equal.
    unfold frL, RB. cbn [filter]. destruct (is_nil rb); cbn [negb map]; [reflexivity|now rewrite Et].
  Qed.
  (* the product of the fused operands, over the fused contracted coordinate *)
  Lemma P_formula : okL -> okR ->
    sem G R cc (flL ++ frL) =
    Sum (map (fun k => rmul R (sem G R af (flL ++ [k])) (sem G R bf (k :: frL))) (index_coords G (FIa aa))).
  Proof.
    intros HokL HokR.
    destruct A_shape as (HaxA & HlaA & HwA & HtA & HmA). destruct B_shape as (HaxB & HrbB & HwB & HmB).
    rewrite (blockwise_sem_wf G R RL (ceqb_spec G GL) af bf la' aa' [0] rb' flL frL).
    - rewrite HtA, all_coords_single, map_map. apply rsum_ext. intros k _.
      now rewrite (HmA flL k flL_len), (HmB frL k frL_len).
    - apply OL.
    - apply OL.
    - exact af_wf.
    - exact bf_wf.
    - exact HaxA.
    - exact HaxB.
    - unfold aa'. now destruct (is_nil la).
    - exact HlaA.
    - exact HrbB.
    - rewrite HwA. now apply flL_ok.
    - rewrite HwB. now apply frL_ok.
  Qed.

  Theorem fused_sem_eq_gen : sem G R (fused_on G R a b la aa ab rb) (csl ++ csr) = sem G R ww (csl ++ csr).
  Proof.
    destruct Haa_s as [Haa_nd Haa_lt]. destruct Hab_s as [Hab_nd Hab_lt].
    rewrite fused_on_eq, W_formula.
    (* is the free sub-sector on a really fused left leg recorded? *)
    assert (HdL : okL \/ (2 <= length la /\ forall s', In s' (sectors G R a) -> group_subsector G s' la <> map fst csl)).
    { destruct (Nat.le_gt_cases 2 (length la)) as [H2|H2]; [|left; intros ?; lia].
      destruct (rec_dec a la (map fst csl)) as [H|H]; [left; intros _; exact H|right; now split]. }
    destruct HdL as [HokL|[H2la HnoL]].
    2:{ rewrite (rsum_zero R RL) by (intros kc _; rewrite (semA_zero HnoL kc); apply (rmul_0_l R RL)).
        unfold c2. change (csl ++ csr) with ([] ++ csl ++ csr).
        apply (UY_none G R GL OL a gsA Hwa neA ndA rgA la inA_la c1 0 dropL IX1 c1_nd c1_shape HYg_L
                 [] csl csr H2la eq_refl len_csl HnoL). }
    assert (HF1 : sem G R c2 (csl ++ csr) = sem G R c1 (flL ++ csr ++ [])).
    { unfold c2. change (csl ++ csr) with ([] ++ csl ++ csr).
      etransitivity;
        [apply (UY_sem G R GL OL a gsA Hwa neA ndA rgA la inA_la c1 0 dropL IX1 c1_nd c1_shape HYg_L
                  [] csl csr eq_refl len_csl HokL (fun _ => IX2_coords))|].
      cbn [app]. fold flL. now rewrite app_nil_r. }
    rewrite HF1. clear HF1.
    assert (HdR : okR \/ (2 <= length rb /\ forall s', In s' (sectors G R b) -> group_subsector G s' rb <> map fst csr)).
    { destruct (Nat.le_gt_cases 2 (length rb)) as [H2|H2]; [|left; intros ?; lia].
      destruct (rec_dec b rb (map fst csr)) as [H|H]; [left; intros _; exact H|right; now split]. }
    destruct HdR as [HokR|[H2rb HnoR]].
    2:{ rewrite (rsum_zero R RL) by (intros kc _; rewrite (semB_zero HnoR kc); apply (rmul_0_r R RL)).
        unfold c1.
        apply (UY_none G R GL OL b gsB Hwb neB ndB rgB rb inB_rb cc (length LA) dropR IX0 cc_nd cc_shape0 HYg_R
                 flL csr [] H2rb flL_len len_csr HnoR). }
    assert (HF2 : sem G R c1 (flL ++ csr ++ []) = sem G R cc (flL ++ frL)).
    { unfold c1.
      etransitivity;
        [apply (UY_sem G R GL OL b gsB Hwb neB ndB rgB rb inB_rb cc (length LA) dropR IX0 cc_nd cc_shape0 HYg_R
                  flL csr [] flL_len len_csr HokR (fun _ => IX1_coords HokL))|].
      fold frL. now rewrite app_nil_r. }
    rewrite HF2. clear HF2.
    rewrite (P_formula HokL HokR).
    (* common facts about a contracted tuple kc on the legs of aa *)
    assert (Hside : forall kc s' sb,
              coords_ok G legsA kc = true -> coords_ok G (take_axes dflt (indices G R b) ab) kc = true ->
              (is_singlet aa = false -> In s' (sectors G R a) /\ group_subsector G s' aa = map fst kc) ->
              (is_singlet ab = false -> In sb (sectors G R b) /\ group_subsector G sb ab = map fst kc) ->
              scoP G R b ab kc = scoP G R a aa kc ->
              rmul R (sem G R af (flL ++ [scoP G R a aa kc])) (sem G R bf (scoP G R a aa kc :: frL)) =
              rmul R (sem G R a (merge G (ndim G R a) aa csl kc)) (sem G R b (merge G (ndim G R b) ab csr kc))).
    { intros kc s' sb HkcA HkcB HrA HrB Hsco.
      destruct (merge_facts G (indices G R a) aa csl kc Haa_nd Haa_lt Hcl HkcA) as (HcsA & HtA & _).
      destruct (merge_facts G (indices G R b) ab csr kc Hab_nd Hab_lt Hcr HkcB) as (HcsB & HtB & _).
      fold (ndim G R a) in HcsA, HtA. fold (ndim G R b) in HcsB, HtB.
      rewrite <- (semA_fused _ HcsA).
      - rewrite <- (semB_fused _ HcsB).
        + now rewrite HtA, HtB, Hsco.
        + apply recB.
          * intros Es. destruct (HrB Es) as [Hsb Eb]. exists sb. split; [exact Hsb|].
            unfold group_subsector at 2. now rewrite <- (take_map fst dc), HtB.
          * intros H2. destruct (HokR H2) as (sR & HsR & ER). exists sR. split; [exact HsR|].
            unfold group_subsector at 2. now rewrite <- (take_map fst dc), mergeB_rb.
        + apply mergeB_rb.
      - apply recA.
        + intros H2. destruct (HokL H2) as (sL & HsL & EL). exists sL. split; [exact HsL|].
          unfold group_subsector at 2. now rewrite <- (take_map fst dc), mergeA_la.
        + intros Es. destruct (HrA Es) as [Hs' Ea]. exists s'. split; [exact Hs'|].
          unfold group_subsector at 2. now rewrite <- (take_map fst dc), HtA.
      - apply mergeA_la. }
    destruct (Bool.bool_dec (is_singlet aa) true) as [Esa|Esa'].
    - (* one contracted axis: the fused coordinate is the coordinate itself *)
      destruct (singlet_inv aa Esa) as (a0 & Eaa).
      assert (Eab : exists b0, ab = [b0]).
      { rewrite Eaa in Hlen. destruct ab as [|b0 [|? ?]]; try discriminate. now exists b0. }
      destruct Eab as (b0 & Eab).
      assert (Hleg : legsA = [FIa aa]) by (rewrite Eaa; reflexivity).
      rewrite Hleg, all_coords_single, map_map. apply rsum_ext. intros [ch o] Hk.
      destruct (index_coords_In G _ ch o Hk) as (d & Hcd & Hod).
      assert (Hwfi : wf_index G (FIa aa) = true).
      { rewrite Eaa. change (FIa [a0]) with (nth a0 (indices G R a) dflt).
        destruct (wfp G R GL a Hwa) as (Hw & _). rewrite Forall_forall in Hw. apply Hw. apply nth_In.
        apply Haa_lt. rewrite Eaa. now left. }
      assert (Hsz : size_of G (FIa aa) ch = d).
      { apply (size_of_in G (ceqb_spec G GL)); [|exact Hcd]. apply (wf_index_nodup G); [apply OL|apply OL|exact Hwfi]. }
      assert (HkA : coords_ok G legsA [(ch, o)] = true).
      { rewrite Hleg. unfold coords_ok. cbn [length Nat.eqb List.combine forallb fst snd andb].
        rewrite andb_true_r. apply Nat.ltb_lt. now rewrite Hsz. }
      assert (Hpres : In [ch] (con_subs G R a aa)).
      { apply (Hpresent Esa). unfold icharges. apply in_map_iff. exists (ch, d). now split. }
      destruct (HagreeP [ch] Hpres) as (Hbs & _ & _).
      assert (HkB : coords_ok G (take_axes dflt (indices G R b) ab) [(ch, o)] = true).
      { rewrite Eaa, Eab in Hbs. unfold block_shape, subs_of in Hbs. cbn [map List.combine fst snd] in Hbs.
        inversion Hbs as [Hs]. rewrite Eab. unfold coords_ok. cbn [take_axes map length Nat.eqb List.combine forallb fst snd andb].
        rewrite andb_true_r. apply Nat.ltb_lt. rewrite <- Hs.
        change (nth a0 (indices G R a) dflt) with (FIa [a0]). rewrite <- Eaa. now rewrite Hsz. }
      assert (E1 : scoP G R a aa [(ch, o)] = (ch, o)) by (rewrite Eaa; apply scoP_singlet).
      assert (E2 : scoP G R b ab [(ch, o)] = (ch, o)) by (rewrite Eab; apply scoP_singlet).
      rewrite <- E1 at 1 2.
      apply (Hside [(ch, o)] [] [] HkA HkB).
      + intros Es. congruence.
      + intros Es. rewrite Eab in Es. discriminate.
      + now rewrite E1, E2.
    - (* several contracted axes: split the fused coordinate *)
      assert (Esa : is_singlet aa = false) by (now apply Bool.not_true_is_false).
      assert (Esb : is_singlet ab = false).
      { unfold is_singlet in *. rewrite <- Hlen. exact Esa. }
      rewrite (coords_split G R RL (ceqb_spec G GL) legsA).
      2:{ pose proof (legs_nodup G R GL OL a gsA Hwa neA ndA rgA aa inA_aa Esa) as Hn.
          apply Forall_forall. intros ix Hix. rewrite Forall_forall in Hn. apply Hn. now apply in_map. }
      apply (fused_sum_split G R GL OL RL a gsA Hwa neA ndA rgA aa inA_aa Esa
               (fun k => rmul R (sem G R af (flL ++ [k])) (sem G R bf (k :: frL)))
               (fun ss u => rmul R (sem G R a (merge G (ndim G R a) aa csl (List.combine ss u)))
                                   (sem G R b (merge G (ndim G R b) ab csr (List.combine ss u))))).
      + intros s' u Hs' Hu. set (ss := group_subsector G s' aa). set (kc := List.combine ss u).
        assert (Hlss : length ss = length aa) by (unfold ss, group_subsector; apply length_take_axes).
        assert (HbsA : block_shape G legsA ss = map (sz G R a s') aa) by (exact (subshape_sub G R a aa s')).
        destruct (coords_ok_combine G legsA ss u) as (HkcA & Hkf & Hks).
        { now rewrite length_take_axes. }
        { rewrite HbsA. exact Hu. }
        change (List.combine ss u) with kc in HkcA, Hkf, Hks.
        assert (Hcon : In ss (con_subs G R a aa)) by (unfold con_subs; apply in_map_iff; now exists s').
        destruct (HagreeP ss Hcon) as (Hbs & Hgc & Hrng).
        assert (Hex : exists sb, In sb (sectors G R b) /\ group_subsector G sb ab = ss).
        { apply Hsame in Hcon. unfold con_subs in Hcon. apply in_map_iff in Hcon. destruct Hcon as (sb & E & Hsb). now exists sb. }
        destruct Hex as (sb & Hsb & Esb').
        destruct (coords_ok_combine G (take_axes dflt (indices G R b) ab) ss u) as (HkcB & _ & _).
        { rewrite length_take_axes. lia. }
        { change (take_axes dflt (indices G R b) ab) with (subs_of G (indices G R b) ab). rewrite <- Hbs.
          change (subs_of G (indices G R a) aa) with legsA. rewrite HbsA. exact Hu. }
        change (List.combine ss u) with kc in HkcB.
        assert (Hk : scoP G R a aa kc = (group_charge G (indices G R a) s' aa,
                       fst (slot_range G (indices G R a) (sectors G R a) s' aa) + offset (map (sz G R a s') aa) u)).
        { rewrite (scoP_rec G R a aa s' kc Hkf). now rewrite Hks. }
        rewrite <- Hk.
        apply (Hside kc s' sb HkcA HkcB).
        * intros _. split; [exact Hs'|now symmetry].
        * intros _. split; [exact Hsb|now rewrite Hkf].
        * unfold scoP. rewrite Hkf. now rewrite <- Hbs, <- Hgc, <- Hrng.
      + intros ss u Hss Hu Hno.
        assert (Hz : sem G R a (merge G (ndim G R a) aa csl (List.combine ss u)) = r0 R).
        { unfold sem.
          destruct (lookup keq (map fst (merge G (ndim G R a) aa csl (List.combine ss u))) (blocks G R a)) as [t|] eqn:E;
            [exfalso|reflexivity].
          apply (OrderProofs.lookup_In keq (Hke G GL)) in E. apply (Hno _ (In_secs G R a _ t E)).
          apply product_length in Hss. rewrite map_length in Hss.
          apply in_all_idx_inb in Hu.
          destruct (coords_ok_combine G legsA ss u Hss Hu) as (HkcA & Hkf & _).
          unfold group_subsector. rewrite <- (take_map fst dc). unfold merge.
          rewrite (take_scatterA_axes dc (ndim G R a) aa (List.combine ss u) csl Haa_nd Haa_lt).
          - exact Hkf.
          - etransitivity; [exact (coords_ok_length G _ _ HkcA)|apply length_take_axes]. }
        rewrite Hz. apply (rmul_0_l R RL).
  Qed.
  End Coords.

  (* ---------------- the index tables of the two results ----------------
     every charge listed in a table of an operand occurs in one of its stored
     sectors (true after the alignment, which prunes the tables) *)
  Context (HpresA : forall ax c, ax < ndim G R a -> In c (icharges G (nth ax (indices G R a) dflt)) ->
             exists s, In s (sectors G R a) /\ nth ax s idc = c).
  Context (HpresB : forall ax c, ax < ndim G R b -> In c (icharges G (nth ax (indices G R b) dflt)) ->
             exists s, In s (sectors G R b) /\ nth ax s idc = c).

  Notation free := (take_axes dflt (indices G R a) la ++ take_axes dflt (indices G R b) rb).

  Lemma partnerB sa : In sa (sectors G R a) ->
    exists sb, In sb (sectors G R b) /\ take_axes idc sa aa = take_axes idc sb ab.
  Proof.
    intros Hsa. assert (Hin : In (take_axes idc sa aa) (con_subs G R a aa)) by (unfold con_subs; apply in_map_iff; now exists sa).
    apply Hsame in Hin. unfold con_subs in Hin. apply in_map_iff in Hin. destruct Hin as (sb & E & Hsb). exists sb. now split.
  Qed.
  Lemma partnerA sb : In sb (sectors G R b) ->
    exists sa, In sa (sectors G R a) /\ take_axes idc sa aa = take_axes idc sb ab.
  Proof.
    intros Hsb. assert (Hin : In (take_axes idc sb ab) (con_subs G R b ab)) by (unfold con_subs; apply in_map_iff; now exists sb).
    apply Hsame in Hin. unfold con_subs in Hin. apply in_map_iff in Hin. destruct Hin as (sa & E & Hsa). exists sa. now split.
  Qed.

  (* the blockwise result *)
  Lemma la_lt i : i < length la -> nth i la 0 < ndim G R a.
  Proof. intros Hi. apply (In_rest_axes (ndim G R a) aa). rewrite <- Hla. now apply nth_In. Qed.
  Lemma rb_lt i : i < length rb -> nth i rb 0 < ndim G R b.
  Proof. intros Hi. apply (In_rest_axes (ndim G R b) ab). rewrite <- Hrb. now apply nth_In. Qed.

  Lemma ww_indices : indices G R ww = free.
  Proof.
    change (indices G R ww) with (prune_indices G (without_axes (indices G R a) aa ++ without_axes (indices G R b) ab) (sectors G R ww)).
    rewrite !(without_axes_take dflt). fold (ndim G R a) (ndim G R b). rewrite <- Hla, <- Hrb.
    apply (prune_id G GL). intros i c Hi Hc. rewrite app_length, !length_take_axes in Hi.
    destruct (Nat.lt_ge_cases i (length la)) as [Hl|Hl].
    - rewrite app_nth1 in Hc by (now rewrite length_take_axes). unfold take_axes in Hc.
      rewrite (nth_map_lt _ _ _ 0) in Hc by exact Hl.
      destruct (HpresA _ c (la_lt i Hl) Hc) as (sa & Hsa & Ea). destruct (partnerB sa Hsa) as (sb & Hsb & Eab).
      destruct (secs_ex G R a sa Hsa) as (ta & Hta). destruct (secs_ex G R b sb Hsb) as (tb & Htb).
      exists (take_axes idc sa la ++ take_axes idc sb rb).
      split; [exact (pair_key G R GL a b la aa ab rb sa ta sb tb Hta Htb Eab)|].
      rewrite app_nth1 by (now rewrite length_take_axes). unfold take_axes. now rewrite (nth_map_lt _ _ _ 0) by exact Hl.
    - rewrite app_nth2 in Hc by (now rewrite length_take_axes). rewrite length_take_axes in Hc. unfold take_axes in Hc.
      rewrite (nth_map_lt _ _ _ 0) in Hc by lia.
      destruct (HpresB _ c (rb_lt (i - length la) ltac:(lia)) Hc) as (sb & Hsb & Eb). destruct (partnerA sb Hsb) as (sa & Hsa & Eab).
      destruct (secs_ex G R a sa Hsa) as (ta & Hta). destruct (secs_ex G R b sb Hsb) as (tb & Htb).
      exists (take_axes idc sa la ++ take_axes idc sb rb).
      split; [exact (pair_key G R GL a b la aa ab rb sa ta sb tb Hta Htb Eab)|].
      rewrite app_nth2 by (now rewrite length_take_axes). rewrite length_take_axes. unfold take_axes.
      now rewrite (nth_map_lt _ _ _ 0) by lia.
  Qed.

  (* the fused result: the product of the fused operands has unpruned tables already *)
  Lemma fused_charge_from (x : aarray G R) (gs : list (list nat)) (g : list nat) c :
    wf_array G R x = true -> Forall (fun g : list nat => g <> []) gs -> NoDup (concat gs) ->
    Forall (fun ax => ax < length (indices G R x)) (concat gs) ->
    (forall ax c, ax < ndim G R x -> In c (icharges G (nth ax (indices G R x) dflt)) ->
       exists s, In s (sectors G R x) /\ nth ax s idc = c) ->
    In g (slots (length (indices G R x)) gs) ->
    In c (icharges G (fused_index G (indices G R x) (sectors G R x) g)) ->
    exists s, In s (sectors G R x) /\ group_charge G (indices G R x) s g = c.
  Proof.
    intros Hwx Hne Hnd Hrng Hpres Hg Hc.
    destruct (slot_facts G R x gs Hne Hnd Hrng g Hg) as (_ & Hlt & Hgne).
    destruct (is_singlet g) eqn:Es.
    - destruct (singlet_inv g Es) as (g0 & ->).
      change (fused_index G (indices G R x) (sectors G R x) [g0]) with (nth g0 (indices G R x) dflt) in Hc.
      rewrite Forall_forall in Hlt. destruct (Hpres g0 c (Hlt g0 (or_introl eq_refl)) Hc) as (s & Hs & E).
      exists s. split; [exact Hs|]. exact E.
    - pose proof (nonsinglet_len G R x g Hgne Es) as Hglen.
      assert (Hsit := Hsecs' G R GL x g Hwx Hlt Hglen).
      assert (Hixok : Forall (fun ix => cm_ok G (chargemap G ix) = true) (indices G R x)).
      { destruct (wfp G R GL x Hwx) as (H & _). eapply Forall_impl; [|exact H]. intros ix. apply (wf_index_cm_ok G). }
      unfold icharges in Hc. apply in_map_iff in Hc. destruct Hc as ([c' d] & E & Hcd). cbn [fst] in E. subst c'.
      destruct (fused_extents_partition G GL OL (indices G R x) (sectors G R x) g Hixok Hsit Es _ _
                  (fused_isub G (indices G R x) (sectors G R x) g Es) c d Hcd) as (Hszd & e & He & Hsum & _ & Hall).
      destruct (fused_chargemap_sorted G GL OL (indices G R x) (sectors G R x) g Hixok Hsit Es) as [_ Hpos].
      rewrite Forall_forall in Hpos. destruct (Hpos _ Hcd) as [_ Hd]. cbn [snd] in Hd.
      destruct e as [|p e']; [cbn in Hsum; lia|].
      inversion Hall as [|? ? (s & Hs & _ & _ & Hgc) _]; subst. exists s. now split.
  Qed.

  Lemma NS_in_blocks (x : aarray G R) (gs : list (list nat)) s :
    wf_array G R x = true -> Forall (fun g : list nat => g <> []) gs -> NoDup (concat gs) ->
    Forall (fun ax => ax < length (indices G R x)) (concat gs) -> In s (sectors G R x) ->
    exists T, In (fused_sector G (indices G R x) gs s, T) (blocks G R (fuse_core G R x gs)).
  Proof.
    intros Hwx Hne Hnd Hrng Hs. destruct (secs_ex G R x s Hs) as (t & Ht).
    destruct (fuse_layout_groups_thm G R GL OL x gs Hwx Hne Hnd Hrng) as (_ & _ & _ & _ & _ & Hown & _).
    destruct (Hown s t Ht) as (T & HT & _). exists T. now apply (OrderProofs.lookup_In keq (Hke G GL)).
  Qed.

  Lemma cc_key sa sb : In sa (sectors G R a) -> In sb (sectors G R b) -> take_axes idc sa aa = take_axes idc sb ab ->
    In (map (group_charge G (indices G R a) sa) LA ++ map (group_charge G (indices G R b) sb) RB) (sectors G R cc).
  Proof.
    intros Hsa Hsb Eab.
    destruct (NS_in_blocks a gsA sa Hwa neA ndA rgA Hsa) as (Ta & HTa).
    destruct (NS_in_blocks b gsB sb Hwb neB ndB rgB Hsb) as (Tb & HTb).
    assert (EA : fused_sector G (indices G R a) gsA sa =
                 map (group_charge G (indices G R a) sa) LA ++ [group_charge G (indices G R a) sa aa]).
    { rewrite (fused_sector_slots G), slA, gsA_eq, map_app. reflexivity. }
    assert (EB : fused_sector G (indices G R b) gsB sb =
                 group_charge G (indices G R b) sb ab :: map (group_charge G (indices G R b) sb) RB).
    { rewrite (fused_sector_slots G), slB, gsB_eq. reflexivity. }
    rewrite EA in HTa. rewrite EB in HTb.
    assert (Hgc : group_charge G (indices G R a) sa aa = group_charge G (indices G R b) sb ab).
    { assert (Hin : In (take_axes idc sa aa) (con_subs G R a aa)) by (unfold con_subs; apply in_map_iff; now exists sa).
      destruct (HagreeP _ Hin) as (_ & Hg & _). rewrite Eab in Hg at 2. now rewrite !gcP_take in Hg. }
    pose proof (pair_key G R GL af bf la' aa' [0] rb' _ Ta _ Tb HTa HTb) as Hk.
    assert (E1 : take_axes idc (map (group_charge G (indices G R a) sa) LA ++ [group_charge G (indices G R a) sa aa]) aa' =
                 take_axes idc (group_charge G (indices G R b) sb ab :: map (group_charge G (indices G R b) sb) RB) [0]).
    { unfold aa', LA. cbn [filter]. destruct (is_nil la); cbn [negb map app take_axes nth]; now rewrite Hgc. }
    specialize (Hk E1).
    assert (E2 : take_axes idc (map (group_charge G (indices G R a) sa) LA ++ [group_charge G (indices G R a) sa aa]) la' =
                 map (group_charge G (indices G R a) sa) LA).
    { unfold la', LA. cbn [filter]. destruct (is_nil la); reflexivity. }
    assert (E3 : take_axes idc (group_charge G (indices G R b) sb ab :: map (group_charge G (indices G R b) sb) RB) rb' =
                 map (group_charge G (indices G R b) sb) RB).
    { unfold rb', RB. cbn [filter]. destruct (is_nil rb); reflexivity. }
    now rewrite E2, E3 in Hk.
  Qed.

  Lemma cc_indices_eq : indices G R cc = IX0.
  Proof.
    rewrite cc_indices. apply (prune_id G GL). intros i c Hi Hc. rewrite IX0_len in Hi. unfold IX0 in Hc.
    destruct (Nat.lt_ge_cases i (length LA)) as [Hl|Hl].
    - rewrite app_nth1 in Hc by (now rewrite map_length).
      assert (En : is_nil la = false).
      { destruct (is_nil la) eqn:E; [|reflexivity]. destruct (LA_nil E) as [E0 _]. rewrite E0 in Hl. cbn [length] in Hl. lia. }
      destruct (LA_cons En) as [ELA Hne]. rewrite ELA in Hl, Hc. cbn [length] in Hl. assert (i = 0) by lia. subst i.
      cbn [map nth] in Hc.
      destruct (fused_charge_from a gsA la c Hwa neA ndA rgA HpresA (inA_la Hne) Hc) as (sa & Hsa & Ega).
      destruct (partnerB sa Hsa) as (sb & Hsb & Eab).
      eexists. split; [exact (cc_key sa sb Hsa Hsb Eab)|].
      rewrite ELA. cbn [map app nth]. exact Ega.
    - rewrite app_nth2 in Hc by (now rewrite map_length). rewrite map_length in Hc.
      assert (En : is_nil rb = false).
      { destruct (is_nil rb) eqn:E; [|reflexivity]. destruct (RB_nil E) as [E0 _]. rewrite E0 in Hi. cbn [length] in Hi. lia. }
      destruct (RB_cons En) as [ERB Hne]. rewrite ERB in Hi, Hc. cbn [length] in Hi.
      assert (Ei : i - length LA = 0) by lia. rewrite Ei in Hc. cbn [map nth] in Hc.
      destruct (fused_charge_from b gsB rb c Hwb neB ndB rgB HpresB (inB_rb Hne) Hc) as (sb & Hsb & Egb).
      destruct (partnerA sb Hsb) as (sa & Hsa & Eab).
      eexists. split; [exact (cc_key sa sb Hsa Hsb Eab)|].
      rewrite app_nth2 by (now rewrite map_length). rewrite map_length, Ei, ERB. cbn [map nth]. exact Egb.
  Qed.

  Lemma c2_indices_eq : indices G R c2 = free.
  Proof.
    rewrite <- IX2_eq. unfold c2, IX2, UIX.
    rewrite (UY_indices G R GL OL a gsA Hwa neA ndA rgA la inA_la c1 0 dropL IX1 c1_nd c1_shape HYg_L).
    assert (E1 : indices G R c1 = IX1).
    { unfold c1, IX1, UIX.
      rewrite (UY_indices G R GL OL b gsB Hwb neB ndB rgB rb inB_rb cc (length LA) dropR IX0 cc_nd cc_shape0 HYg_R).
      now rewrite cc_indices_eq. }
    now rewrite E1.
  Qed.

  Theorem fused_indices_eq : indices G R (fused_on G R a b la aa ab rb) = indices G R ww.
  Proof. now rewrite fused_on_eq, c2_indices_eq, ww_indices. Qed.

  (* ---------------- every coordinate list, in range or not ---------------- *)
  Context (HdualLegs : forall k, k < length aa ->
             idual G (nth (nth k aa 0) (indices G R a) dflt) = negb (idual G (nth (nth k ab 0) (indices G R b) dflt))).

  Lemma ww_wf : wf_array G R ww = true.
  Proof.
    rewrite Hla, Hrb. destruct Haa_s as [A1 A2]. destruct Hab_s as [B1 B2].
    exact (tdot_blockwise_wf G GL R OL a b aa ab Hwa Hwb A1 A2 B1 B2 Hlen HdualLegs).
  Qed.

  Lemma ww_facts K T : In (K, T) (blocks G R ww) ->
    length K = length free /\ tshape T = block_shape G free K /\ length (tdata T) = shape_size (tshape T).
  Proof.
    intros Hin. pose proof ww_wf as Hw. apply (wf_array_iff G GL R ww) in Hw.
    destruct (wf_bl G R _ _ _ Hw K T Hin) as ((Hl & _) & Hsh & Hd). rewrite ww_indices in Hl, Hsh. now repeat split.
  Qed.
  Lemma ww_nd : NoDup (sectors G R ww).
  Proof. pose proof ww_wf as Hw. apply (wf_array_iff G GL R ww) in Hw. exact (wf_nd G R _ _ _ Hw). Qed.

  Lemma cc_data K T : In (K, T) (blocks G R cc) -> length (tdata T) = shape_size (tshape T).
  Proof. intros Hin. destruct (wf_bl G R _ _ _ cc_WF K T Hin) as (_ & _ & Hd). exact Hd. Qed.
  Lemma c1_data K T : In (K, T) (blocks G R c1) -> length (tdata T) = shape_size (tshape T).
  Proof. exact (UY_data G R GL OL b gsB Hwb neB ndB rgB rb inB_rb cc (length LA) dropR IX0 cc_nd cc_shape0 HYg_R cc_data K T). Qed.

  Lemma c2_facts K T : In (K, T) (blocks G R c2) ->
    length K = length free /\ tshape T = block_shape G free K /\ length (tdata T) = shape_size (tshape T).
  Proof.
    intros Hin.
    destruct (UY_shape G R GL OL a gsA Hwa neA ndA rgA la inA_la c1 0 dropL IX1 c1_nd c1_shape HYg_L K T Hin) as [Hl Hsh].
    fold IX2 in Hl, Hsh. rewrite IX2_eq in Hl, Hsh. split; [exact Hl|]. split; [exact Hsh|].
    exact (UY_data G R GL OL a gsA Hwa neA ndA rgA la inA_la c1 0 dropL IX1 c1_nd c1_shape HYg_L c1_data K T Hin).
  Qed.
  Lemma c2_nd : NoDup (sectors G R c2).
  Proof. exact (UY_nd G R GL OL a gsA Hwa neA ndA rgA la inA_la c1 0 dropL IX1 c1_nd c1_shape HYg_L). Qed.

  Lemma free_split : free = without_axes (indices G R a) aa ++ without_axes (indices G R b) ab.
  Proof. rewrite !(without_axes_take dflt). fold (ndim G R a) (ndim G R b). now rewrite <- Hla, <- Hrb. Qed.

  Lemma sem_inrange cs : coords_ok G free cs = true -> sem G R c2 cs = sem G R ww cs.
  Proof.
    intros Hc. rewrite free_split in Hc. destruct (coords_ok_app_inv G _ _ cs Hc) as (E & H1 & H2).
    rewrite E, <- fused_on_eq. now apply fused_sem_eq_gen.
  Qed.

  Lemma get_inrange K idx : length K = length free -> inb (block_shape G free K) idx = true ->
    sem G R c2 (List.combine K idx) = sem G R ww (List.combine K idx) /\
    map fst (List.combine K idx) = K /\ map snd (List.combine K idx) = idx.
  Proof.
    intros Hl Hi. destruct (coords_ok_combine G free K idx Hl Hi) as (Hc & E1 & E2).
    split; [now apply sem_inrange|now split].
  Qed.

  Theorem sem_everywhere cs : sem G R c2 cs = sem G R ww cs.
  Proof.
    unfold sem.
    destruct (lookup keq (map fst cs) (blocks G R c2)) as [Tf|] eqn:Ef;
      destruct (lookup keq (map fst cs) (blocks G R ww)) as [Tw|] eqn:Ew; [| | |reflexivity].
    - (* stored by both: the blocks are equal tensors *)
      pose proof (OrderProofs.lookup_In keq (Hke G GL) _ _ _ Ef) as Hf. pose proof (OrderProofs.lookup_In keq (Hke G GL) _ _ _ Ew) as Hw.
      destruct (c2_facts _ _ Hf) as (Hl & Hsf & Hdf). destruct (ww_facts _ _ Hw) as (_ & Hsw & Hdw).
      assert (E : Tf = Tw).
      { apply tensor_ext; [now rewrite Hsf, Hsw|exact Hdf|exact Hdw|].
        intros idx Hi. rewrite Hsf in Hi. destruct (get_inrange _ idx Hl Hi) as (Hs & E1 & E2).
        unfold sem in Hs. rewrite E1, E2, Ef, Ew in Hs. exact Hs. }
      now rewrite E.
    - (* only the fused route stores it: an all-zero block *)
      pose proof (OrderProofs.lookup_In keq (Hke G GL) _ _ _ Ef) as Hf.
      destruct (c2_facts _ _ Hf) as (Hl & Hsf & Hdf).
      assert (Hz : Forall (fun v => v = r0 R) (tdata Tf)).
      { apply (all_zero_of_get R Tf Hdf). intros idx Hi. rewrite Hsf in Hi.
        destruct (get_inrange _ idx Hl Hi) as (Hs & E1 & E2). unfold sem in Hs. rewrite E1, E2, Ef, Ew in Hs. exact Hs. }
      unfold get. now apply nth_all_eq.
    - pose proof (OrderProofs.lookup_In keq (Hke G GL) _ _ _ Ew) as Hw.
      destruct (ww_facts _ _ Hw) as (Hl & Hsw & Hdw).
      assert (Hz : Forall (fun v => v = r0 R) (tdata Tw)).
      { apply (all_zero_of_get R Tw Hdw). intros idx Hi. rewrite Hsw in Hi.
        destruct (get_inrange _ idx Hl Hi) as (Hs & E1 & E2). unfold sem in Hs. rewrite E1, E2, Ef, Ew in Hs. now symmetry. }
      unfold get. symmetry. now apply nth_all_eq.
  Qed.

  Theorem fused_sem_everywhere cs : sem G R (fused_on G R a b la aa ab rb) cs = sem G R ww cs.
  Proof. rewrite fused_on_eq. apply sem_everywhere. Qed.

End FusedEqGen.

(* ------------------------------------------------------------------ *)
(* Part F: the theorem for arbitrary valid operands with matching contracted legs *)
Section FusedEqGenFinal.
  Context (G : Symmetry) (R : Ring) (GL : GroupLaws G) (OL : OrderLaws G) (RL : SumLaws R).
  Notation idc := (ident G).
  Notation dflt := (dflt_index G).

  Lemma prune1_present (ix : index G) (P : list (C G)) c :
    In c (icharges G (prune1 G ix P)) -> mem (ceqb G) c P = true.
  Proof.
    unfold prune1, icharges. rewrite (chargemap_drop G). intros H. apply in_map_iff in H.
    destruct H as ([c' d] & E & Hin). cbn [fst] in E. subst c'. apply filter_In in Hin. destruct Hin as [Hin Hn].
    cbn [fst] in Hn. destruct (mem (ceqb G) c P) eqn:Em; [reflexivity|exfalso].
    assert (Hf : In c (filter (fun c0 => negb (mem (ceqb G) c0 P)) (map fst (chargemap G ix)))).
    { apply filter_In. split; [apply in_map_iff; exists (c, d); now split|now rewrite Em]. }
    apply (mem_In (ceqb G) (Hce G GL)) in Hf. unfold icharges in Hn. rewrite Hf in Hn. discriminate.
  Qed.

  Lemma aligned_context (a b : aarray G R) (aa ab : list nat) :
    wf_array G R a = true -> wf_array G R b = true ->
    legs_match G R a b aa ab -> aa <> [] ->
    let a1 := al_a G R a b aa ab in
    let b1 := al_b G R a b aa ab in
    wf_array G R a1 = true /\ wf_array G R b1 = true /\ length aa = length ab /\
    (forall ss, In ss (con_subs G R a1 aa) <-> In ss (con_subs G R b1 ab)) /\
    idual G (fused_index G (indices G R a1) (sectors G R a1) aa) =
      negb (idual G (fused_index G (indices G R b1) (sectors G R b1) ab)) /\
    (forall ss, In ss (con_subs G R a1 aa) ->
       block_shape G (subs_of G (indices G R a1) aa) ss = block_shape G (subs_of G (indices G R b1) ab) ss /\
       gcP G R a1 aa ss = gcP G R b1 ab ss /\ rngP G R a1 aa ss = rngP G R b1 ab ss) /\
    (is_singlet aa = true -> forall c, In c (icharges G (fused_index G (indices G R a1) (sectors G R a1) aa)) ->
       In [c] (con_subs G R a1 aa)) /\
    (forall ax c, ax < ndim G R a1 -> In c (icharges G (nth ax (indices G R a1) dflt)) ->
       exists s, In s (sectors G R a1) /\ nth ax s idc = c) /\
    (forall ax c, ax < ndim G R b1 -> In c (icharges G (nth ax (indices G R b1) dflt)) ->
       exists s, In s (sectors G R b1) /\ nth ax s idc = c) /\
    (forall k, k < length aa ->
       idual G (nth (nth k aa 0) (indices G R a1) dflt) = negb (idual G (nth (nth k ab 0) (indices G R b1) dflt))).
  Proof.
    intros Hwa Hwb Hlm Hne. cbn zeta.
    set (a1 := al_a G R a b aa ab) in *. set (b1 := al_b G R a b aa ab) in *.
    destruct (drop_misaligned_wf G GL R OL a b aa ab Hwa Hwb) as [Hwa1 Hwb1].
    fold (al_a G R a b aa ab) in Hwa1. fold (al_b G R a b aa ab) in Hwb1. fold a1 in Hwa1. fold b1 in Hwb1.
    pose proof Hlm as Hlm0. destruct Hlm as (Hlen & Haa_lt & Hab_lt & Hlegs).
    rewrite Forall_forall in Haa_lt, Hab_lt.
    assert (Hsame : forall ss, In ss (con_subs G R a1 aa) <-> In ss (con_subs G R b1 ab)).
    { intros ss. exact (aligned_same_subsectors G R GL a b aa ab ss). }
    (* sizes of the contracted legs on a common sub-sector *)
    assert (Hsz : forall k ss, k < length aa -> In ss (con_subs G R a1 aa) ->
              size_of G (leg G (indices G R a1) aa k) (nth k ss idc) = size_of G (leg G (indices G R b1) ab k) (nth k ss idc)).
    { intros k ss Hk Hss. unfold a1, b1.
      rewrite leg_al_a by (apply Haa_lt; now apply nth_In).
      rewrite leg_al_b by (apply Hab_lt; apply nth_In; lia).
      rewrite !(size_of_prune1 G GL).
      - unfold size_of. now rewrite (proj2 (Hlegs k Hk)).
      - apply (sub_charge_present G R GL); [lia|]. apply Hsame. exact Hss.
      - apply (sub_charge_present G R GL); [exact Hk|exact Hss]. }
    assert (Hbs : forall ss, In ss (con_subs G R a1 aa) ->
              block_shape G (subs_of G (indices G R a1) aa) ss = block_shape G (subs_of G (indices G R b1) ab) ss).
    { intros ss Hss.
      assert (Hlss : length ss = length aa).
      { unfold con_subs in Hss. apply in_map_iff in Hss. destruct Hss as (s & <- & _). apply length_take_axes. }
      unfold block_shape, subs_of.
      apply (nth_ext _ _ 0 0); [rewrite !map_length, !combine_length, !map_length; lia|].
      intros k Hk. rewrite map_length, combine_length, map_length in Hk.
      rewrite (nth_map_lt _ _ _ (dflt, idc)) by (rewrite combine_length, map_length; lia).
      rewrite (nth_map_lt _ _ _ (dflt, idc)) by (rewrite combine_length, map_length; lia).
      rewrite !combine_nth by (rewrite map_length; lia). cbn [fst snd].
      rewrite (nth_map_lt _ _ _ 0) by lia. rewrite (nth_map_lt _ _ _ 0) by lia.
      apply (Hsz k ss); [lia|exact Hss]. }
    assert (Hdual : idual G (fused_index G (indices G R a1) (sectors G R a1) aa) =
                    negb (idual G (fused_index G (indices G R b1) (sectors G R b1) ab))).
    { rewrite !stmt_A4, !hd_nth0.
      change (nth (nth 0 aa 0) (indices G R a1) dflt) with (leg G (indices G R a1) aa 0).
      change (nth (nth 0 ab 0) (indices G R b1) dflt) with (leg G (indices G R b1) ab 0).
      assert (H0 : 0 < length aa) by (destruct aa; [congruence|cbn; lia]).
      unfold a1, b1. rewrite leg_al_a by (apply Haa_lt; now apply nth_In).
      rewrite leg_al_b by (apply Hab_lt; apply nth_In; lia).
      rewrite !idual_prune1. apply (Hlegs 0 H0). }
    split; [exact Hwa1|]. split; [exact Hwb1|]. split; [exact Hlen|]. split; [exact Hsame|]. split; [exact Hdual|].
    split; [|split; [|split; [|split]]].
    - (* the fused coordinates of the two contracted legs agree *)
      intros ss Hss. split; [now apply Hbs|].
      destruct (Nat.le_gt_cases 2 (length aa)) as [H2|H2].
      * destruct (aligned_fused_tables G R GL OL a b aa ab Hlm0 H2) as (_ & _ & _ & _ & _ & Hsr & Hgc).
        fold a1 b1 in Hsr, Hgc.
        pose proof Hss as Hss0. unfold con_subs in Hss. apply in_map_iff in Hss. destruct Hss as (sa & Esa & Hsa).
        pose proof (proj1 (Hsame ss) Hss0) as Hssb. unfold con_subs in Hssb. apply in_map_iff in Hssb.
        destruct Hssb as (sb & Esb & Hsb).
        destruct (Hgc sa sb Hsa (eq_trans Esa (eq_sym Esb))) as [Hc _].
        assert (Eg : gcP G R a1 aa ss = gcP G R b1 ab ss).
        { rewrite <- Esa at 1. rewrite <- Esb. now rewrite !gcP_take. }
        split; [exact Eg|].
        unfold rngP. rewrite Eg.
        replace (is_singlet aa) with false by (symmetry; unfold is_singlet; apply Nat.eqb_neq; lia).
        replace (is_singlet ab) with false by (symmetry; unfold is_singlet; apply Nat.eqb_neq; lia).
        apply Hsr.
      * assert (Hl1 : length aa = 1) by (destruct aa; [congruence|cbn in *; lia]).
        destruct aa as [|a0 [|? ?]]; try discriminate. destruct ab as [|b0 [|? ?]]; try discriminate.
        assert (Eg : gcP G R a1 [a0] ss = gcP G R b1 [b0] ss) by reflexivity.
        split; [exact Eg|].
        unfold rngP. cbn [is_singlet length Nat.eqb]. f_equal.
        change (fused_index G (indices G R a1) (sectors G R a1) [a0]) with (leg G (indices G R a1) [a0] 0).
        change (fused_index G (indices G R b1) (sectors G R b1) [b0]) with (leg G (indices G R b1) [b0] 0).
        unfold gcP. cbn [is_singlet length Nat.eqb].
        assert (Hlss : length ss = 1).
        { unfold con_subs in Hss. apply in_map_iff in Hss. destruct Hss as (s & <- & _). reflexivity. }
        destruct ss as [|c [|? ?]]; try discriminate. cbn [hd].
        apply (Hsz 0 [c]); [cbn; lia|exact Hss].
    - (* one contracted axis: every charge of the (pruned) leg is present *)
      intros Es c Hc. unfold fused_index in Hc. rewrite Es, hd_nth0 in Hc.
      change (nth (nth 0 aa 0) (indices G R a1) dflt) with (leg G (indices G R a1) aa 0) in Hc.
      assert (H0 : 0 < length aa) by (destruct aa; [congruence|cbn; lia]).
      unfold a1 in Hc. rewrite leg_al_a in Hc by (apply Haa_lt; now apply nth_In).
      apply prune1_present in Hc. apply (mem_In (ceqb G) (Hce G GL)) in Hc.
      apply in_map_iff in Hc. destruct Hc as (s & E & Hs).
      unfold con_subs. apply in_map_iff. exists s. split; [|exact Hs].
      destruct (singlet_inv aa Es) as (a0 & Eaa). rewrite Eaa in E |- *. cbn [nth] in E.
      unfold take_axes. cbn [map]. now rewrite E.
    - intros ax c Hax Hc. unfold a1 in Hc. rewrite indices_al_a in Hc.
      rewrite (nth_prune G) in Hc by (unfold a1 in Hax; rewrite ndim_al_a in Hax; exact Hax).
      apply prune1_present in Hc. apply (mem_In (ceqb G) (Hce G GL)) in Hc.
      apply in_map_iff in Hc. destruct Hc as (s & E & Hs). exists s. now split.
    - intros ax c Hax Hc. unfold b1 in Hc. rewrite indices_al_b in Hc.
      rewrite (nth_prune G) in Hc by (unfold b1 in Hax; rewrite ndim_al_b in Hax; exact Hax).
      apply prune1_present in Hc. apply (mem_In (ceqb G) (Hce G GL)) in Hc.
      apply in_map_iff in Hc. destruct Hc as (s & E & Hs). exists s. now split.
    - intros k Hk.
      change (nth (nth k aa 0) (indices G R a1) dflt) with (leg G (indices G R a1) aa k).
      change (nth (nth k ab 0) (indices G R b1) dflt) with (leg G (indices G R b1) ab k).
      unfold a1, b1. rewrite leg_al_a by (apply Haa_lt; now apply nth_In).
      rewrite leg_al_b by (apply Hab_lt; apply nth_In; lia).
      rewrite !idual_prune1. apply (Hlegs k Hk).
  Qed.

  Theorem fused_eq_blockwise_gen (a b : aarray G R) (la aa ab rb : list nat) :
    wf_array G R a = true -> wf_array G R b = true ->
    axes_ok (ndim G R a) aa = true -> axes_ok (ndim G R b) ab = true ->
    legs_match G R a b aa ab ->
    la = rest_axes (ndim G R a) aa -> rb = rest_axes (ndim G R b) ab ->
    aa <> [] ->
    let f := tdot_fused2 G R a b la aa ab rb in
    let w := tdot_blockwise G R a b la aa ab rb in
    charge G R f = charge G R w /\ indices G R f = indices G R w /\
    forall cs, sem G R f cs = sem G R w cs.
  Proof.
    intros Hwa Hwb Haa Hab Hlm Hla Hrb Hne. cbn zeta.
    split; [apply fused_charge|].
    destruct (is_nil (blocks G R (al_a G R a b aa ab)) || is_nil (blocks G R (al_b G R a b aa ab))) eqn:Eemp.
    - destruct (fused_eq_blockwise_empty G R GL a b la aa ab rb Hla Hrb Eemp) as [E _]. rewrite E.
      split; [reflexivity|]. intros; reflexivity.
    - rewrite (proj2 (strategies_factor_through_aligned G R GL a b la aa ab rb Hla Hrb)).
      rewrite tdot_fused2_unfold, Eemp.
      destruct (aligned_context a b aa ab Hwa Hwb Hlm Hne) as (Hwa1 & Hwb1 & Hlen & Hsame & Hdual & Hagree & Hpres & HpA & HpB & Hdl).
      set (a1 := al_a G R a b aa ab) in *. set (b1 := al_b G R a b aa ab) in *.
      assert (Hna : ndim G R a1 = ndim G R a) by apply ndim_al_a.
      assert (Hnb : ndim G R b1 = ndim G R b) by apply ndim_al_b.
      rewrite <- Hna in Hla, Haa. rewrite <- Hnb in Hrb, Hab.
      split.
      + exact (fused_indices_eq G R GL OL a1 b1 la aa ab rb Hla Hrb Hwa1 Hwb1 Haa Hab Hlen Hne Hsame Hdual Hagree Hpres HpA HpB).
      + intros cs.
        exact (fused_sem_everywhere G R GL OL RL a1 b1 la aa ab rb Hla Hrb Hwa1 Hwb1 Haa Hab Hlen Hne Hsame Hdual Hagree Hpres
                 HpA HpB Hdl cs).
  Qed.
End FusedEqGenFinal.

(* ------------------------------------------------------------------ *)
(* Part G: statements for Props/C06b.v *)
Theorem fused_eq_blockwise :
  forall (G : Symmetry) (R : Ring), GroupLaws G -> OrderLaws G -> SumLaws R ->
  forall (a b : aarray G R) (la aa ab rb : list nat),
  wf_array G R a = true -> wf_array G R b = true ->
  axes_ok (ndim G R a) aa = true -> axes_ok (ndim G R b) ab = true ->
  legs_match G R a b aa ab ->
  la = rest_axes (ndim G R a) aa -> rb = rest_axes (ndim G R b) ab ->
  aa <> [] ->
  let f := tdot_fused2 G R a b la aa ab rb in
  let w := tdot_blockwise G R a b la aa ab rb in
  charge G R f = charge G R w /\
  indices G R f = indices G R w /\
  forall cs, sem G R f cs = sem G R w cs.
Proof. intros G R GL OL RL. exact (fused_eq_blockwise_gen G R GL OL RL). Qed.

Theorem all_modes_agree :
  forall (G : Symmetry) (R : Ring), GroupLaws G -> OrderLaws G -> SumLaws R ->
  forall (a b : aarray G R) (axes : nat + (list Z * list Z)) (aa ab : list nat) (m1 m2 : tmode),
  parse_axes (ndim G R a) (ndim G R b) axes = Some (aa, ab) ->
  wf_array G R a = true -> wf_array G R b = true ->
  axes_ok (ndim G R a) aa = true -> axes_ok (ndim G R b) ab = true ->
  legs_match G R a b aa ab -> aa <> [] ->
  exists r1 r2, a_tensordot2 G R a b axes m1 = Some r1 /\ a_tensordot2 G R a b axes m2 = Some r2 /\
    charge G R r1 = charge G R r2 /\ indices G R r1 = indices G R r2 /\
    forall cs, sem G R r1 cs = sem G R r2 cs.
Proof.
  intros G R GL OL RL a b axes aa ab m1 m2 Hp Hwa Hwb Haa Hab Hlm Hne.
  destruct (tensordot2_modes G R a b axes aa ab Hp) as (Hb & Hf & Ha).
  destruct (fused_eq_blockwise G R GL OL RL a b _ aa ab _ Hwa Hwb Haa Hab Hlm eq_refl eq_refl Hne) as (Hq & Hi & Hs).
  assert (Hauto : a_tensordot2 G R a b axes MAuto =
                  Some (tdot_fused2 G R a b (rest_axes (ndim G R a) aa) aa ab (rest_axes (ndim G R b) ab))).
  { rewrite Ha. destruct aa; [congruence|]. exact Hf. }
  destruct m1, m2; eexists; eexists;
    (split; [first [exact Hauto|exact Hf|exact Hb]|split; [first [exact Hauto|exact Hf|exact Hb]|]]);
    (split; [first [reflexivity|exact Hq|symmetry; exact Hq]
            |split; [first [reflexivity|exact Hi|symmetry; exact Hi]
                    |intros cs; first [reflexivity|exact (Hs cs)|symmetry; exact (Hs cs)]]]).
Qed.

(* ------------------------------------------------------------------ *)
(* Examples (vm_compute on sparse U1 operands; FusedProofs.ExC06 for xa xb xc ya yb) *)
Module ExC06b.
  Import ExC06.
  Definition free_of (a b : aarray U1 ZRing) (aa ab : list nat) : list (index U1) :=
    without_axes (indices U1 ZRing (al_a U1 ZRing a b aa ab)) aa ++
    without_axes (indices U1 ZRing (al_b U1 ZRing a b aa ab)) ab.
  Definition agree (a b : aarray U1 ZRing) (aa ab : list nat) : bool :=
    let la := rest_axes (ndim U1 ZRing a) aa in
    let rb := rest_axes (ndim U1 ZRing b) ab in
    forallb (fun cs => Z.eqb (sem U1 ZRing (tdot_fused2 U1 ZRing a b la aa ab rb) cs)
                             (sem U1 ZRing (tdot_blockwise U1 ZRing a b la aa ab rb) cs))
            (all_coords U1 (free_of a b aa ab)).
  Definition hyps (a b : aarray U1 ZRing) (aa ab : list nat) : Prop :=
    wf_array U1 ZRing a = true /\ wf_array U1 ZRing b = true /\
    axes_ok (ndim U1 ZRing a) aa = true /\ axes_ok (ndim U1 ZRing b) ab = true /\
    legs_match U1 ZRing a b aa ab /\ aa <> [].

  (* two free legs on both sides, two contracted legs: the fused route stores 4 blocks, the blockwise 2 *)
  Example ex22_hyps : hyps ya yb [2; 3] [0; 1].
  Proof.
    split; [vm_compute; reflexivity|]. split; [vm_compute; reflexivity|].
    split; [reflexivity|]. split; [reflexivity|]. split; [|discriminate].
    split; [reflexivity|]. split; [repeat constructor|]. split; [repeat constructor|].
    intros [|[|k]] Hk; [split; reflexivity | split; reflexivity | cbn in Hk; lia].
  Qed.
  Example ex22_values :
    length (blocks U1 ZRing (tdot_fused2 U1 ZRing ya yb [0; 1] [2; 3] [0; 1] [2; 3])) = 4 /\
    length (blocks U1 ZRing (tdot_blockwise U1 ZRing ya yb [0; 1] [2; 3] [0; 1] [2; 3])) = 2 /\
    aarray_eqb U1 ZRing (tdot_fused2 U1 ZRing ya yb [0; 1] [2; 3] [0; 1] [2; 3])
                        (tdot_blockwise U1 ZRing ya yb [0; 1] [2; 3] [0; 1] [2; 3]) = false /\
    agree ya yb [2; 3] [0; 1] = true /\ length (all_coords U1 (free_of ya yb [2; 3] [0; 1])) = 36.
  Proof. repeat split; vm_compute; reflexivity. Qed.

  (* one contracted leg (a matrix-like product), three free legs on both sides *)
  Example ex13_hyps : hyps ya yb [2] [0].
  Proof.
    split; [vm_compute; reflexivity|]. split; [vm_compute; reflexivity|].
    split; [reflexivity|]. split; [reflexivity|]. split; [|discriminate].
    split; [reflexivity|]. split; [repeat constructor|]. split; [repeat constructor|].
    intros [|k] Hk; [split; reflexivity | cbn in Hk; lia].
  Qed.
  Example ex13_values : agree ya yb [2] [0] = true.
  Proof. vm_compute. reflexivity. Qed.

  (* one free leg on each side, two contracted legs; operands whose stored sectors differ *)
  Example ex11_hyps : hyps xa xb [1; 2] [0; 1].
  Proof.
    split; [vm_compute; reflexivity|]. split; [vm_compute; reflexivity|].
    split; [reflexivity|]. split; [reflexivity|]. split; [|discriminate].
    split; [reflexivity|]. split; [repeat constructor|]. split; [repeat constructor|].
    intros [|[|k]] Hk; [split; reflexivity | split; reflexivity | cbn in Hk; lia].
  Qed.
  Example ex11_values : agree xa xb [1; 2] [0; 1] = true.
  Proof. vm_compute. reflexivity. Qed.

  (* no free leg at all: full contraction to a scalar *)
  Example ex00_values :
    agree xa xc [0; 1; 2] [0; 1; 2] = true /\ all_coords U1 (free_of xa xc [0; 1; 2] [0; 1; 2]) = [[]].
  Proof. split; vm_compute; reflexivity. Qed.

  Example theorems_apply :
    (forall cs, sem U1 ZRing (tdot_fused2 U1 ZRing ya yb [0; 1] [2; 3] [0; 1] [2; 3]) cs =
                sem U1 ZRing (tdot_blockwise U1 ZRing ya yb [0; 1] [2; 3] [0; 1] [2; 3]) cs) /\
    (forall cs, sem U1 ZRing (tdot_fused2 U1 ZRing ya yb [0; 1; 3] [2] [0] [1; 2; 3]) cs =
                sem U1 ZRing (tdot_blockwise U1 ZRing ya yb [0; 1; 3] [2] [0] [1; 2; 3]) cs) /\
    indices U1 ZRing (tdot_fused2 U1 ZRing ya yb [0; 1] [2; 3] [0; 1] [2; 3]) =
    indices U1 ZRing (tdot_blockwise U1 ZRing ya yb [0; 1] [2; 3] [0; 1] [2; 3]).
  Proof.
    destruct ex22_hyps as (H1 & H2 & H3 & H4 & H5 & H6).
    destruct (fused_eq_blockwise U1 ZRing U1_laws U1_order ZRing_sum_laws ya yb [0; 1] [2; 3] [0; 1] [2; 3]
                H1 H2 H3 H4 H5 eq_refl eq_refl H6) as (_ & Hi & Hs).
    split; [exact Hs|]. split; [|exact Hi].
    destruct ex13_hyps as (K1 & K2 & K3 & K4 & K5 & K6).
    exact (proj2 (proj2 (fused_eq_blockwise U1 ZRing U1_laws U1_order ZRing_sum_laws ya yb [0; 1; 3] [2] [0] [1; 2; 3]
                    K1 K2 K3 K4 K5 eq_refl eq_refl K6))).
  Qed.
End ExC06b.
