(* Proofs/CtorDense.v — property C16, statement 3 of Proofs/CtorSpec.v:
   `to_dense` of a well-formed array with at least one stored block succeeds and its
   entry at a dense position is `sem` at the (charge, offset) coordinates of that
   position; positions and in-table coordinates are in bijection (coords_of / pos_of).
   Everything is fully proved, for every symmetry with the group laws and a strict total
   order on the charge labels, every ring, every rank and every table. *)
From SV Require Import Base.Prelude Base.Sym Base.Tensor Model.Sectors Model.Array Model.Arith
  Model.Wf Model.Fermi Model.Ctor Model.SymInst Proofs.SymLaws Proofs.OrderProofs
  Proofs.TensorProofs Proofs.GroupFacts Proofs.CtorSpec.
From Coq Require Import Permutation Sorting Lia.
Local Open Scope nat_scope.

(* ------------------------------------------------------------------ *)
(* generic list / multi-index facts *)

Lemma cd_inb_length sh idx : inb sh idx = true -> length idx = length sh.
Proof.
  revert idx. induction sh as [|d sh IH]; intros [|i idx] H; cbn [inb] in H; try discriminate H.
  - reflexivity.
  - apply andb_true_iff in H. destruct H as [_ H]. cbn [length]. f_equal. apply IH. exact H.
Qed.

Lemma cd_inb_app sh1 sh2 i1 i2 :
  inb sh1 i1 = true -> inb (sh1 ++ sh2) (i1 ++ i2) = inb sh2 i2.
Proof.
  revert i1. induction sh1 as [|d sh1 IH]; intros [|i i1] H; cbn [inb] in H; try discriminate H.
  - reflexivity.
  - apply andb_true_iff in H. destruct H as [Hi H]. cbn [app inb]. rewrite Hi. cbn [andb].
    apply IH. exact H.
Qed.

Lemma cd_inb_nil pos : inb [] pos = true -> pos = [].
Proof. destruct pos as [|p pos]; [reflexivity | cbn [inb]; intros H; discriminate H]. Qed.

Lemma cd_set_nth_app {A} (l1 : list A) p l2 o :
  set_nth (l1 ++ p :: l2) (length l1) o = l1 ++ o :: l2.
Proof.
  unfold set_nth. induction l1 as [|a l1 IH]; cbn [app length firstn skipn].
  - reflexivity.
  - f_equal. exact IH.
Qed.

Lemma cd_nth_map_lt {A B} (f : A -> B) l d d' n :
  n < length l -> nth n (map f l) d' = f (nth n l d).
Proof.
  intros H. rewrite (nth_indep _ d' (f d)) by (now rewrite map_length). apply map_nth.
Qed.

Lemma cd_nth_pair_seq {A} (c : A) d o dflt :
  o < d -> nth o (map (fun o' => (c, o')) (seq 0 d)) dflt = (c, o).
Proof.
  intros H. rewrite (cd_nth_map_lt (fun o' => (c, o')) (seq 0 d) 0 dflt o) by (rewrite seq_length; exact H).
  rewrite seq_nth by exact H. reflexivity.
Qed.

Lemma cd_isort_sorted {K} (ltb : K -> K -> bool) l :
  strict_total ltb -> sorted_by ltb l = true -> isort ltb l = l.
Proof.
  intros Hs H. apply (SS_of_sorted_by ltb l Hs) in H.
  induction H as [|x l HS IH HF]; [reflexivity|].
  rewrite isort_cons, IH. destruct l as [|y l']; [reflexivity|].
  cbn [insert_sorted]. pose proof (Forall_inv HF) as Hxy. unfold ltP in Hxy.
  destruct (ltb y x) eqn:E; [|reflexivity].
  pose proof (st_trans _ Hs _ _ _ Hxy E) as Hxx. rewrite (st_irrefl _ Hs) in Hxx. discriminate Hxx.
Qed.

(* ------------------------------------------------------------------ *)
(* numpy.concatenate along `axis` of parts that agree outside that axis *)

Section Concat.
  Context (R : Ring).

  Lemma cd_tconcat_shape t0 ts axis pre post :
    length pre = axis ->
    (forall t, In t (t0 :: ts) -> exists s, tshape t = pre ++ s :: post) ->
    tshape (tconcat R (t0 :: ts) axis)
    = pre ++ nsum (map (fun t => nth axis (tshape t) 0) (t0 :: ts)) :: post.
  Proof.
    intros Hl Hsh. unfold tconcat. rewrite tshape_build.
    destruct (Hsh t0 (or_introl eq_refl)) as [s0 E0]. rewrite E0 at 1. subst axis.
    rewrite cd_set_nth_app. reflexivity.
  Qed.

  Lemma cd_tconcat_len t0 ts axis :
    length (tdata (tconcat R (t0 :: ts) axis)) = shape_size (tshape (tconcat R (t0 :: ts) axis)).
  Proof. unfold tconcat, build. cbn [tdata tshape]. rewrite map_length. apply length_all_idx. Qed.

  Lemma cd_tconcat_get t0 ts axis pre post offs p pos :
    length pre = axis ->
    (forall t, In t (t0 :: ts) -> exists s, tshape t = pre ++ s :: post) ->
    inb pre offs = true ->
    p < nsum (map (fun t => nth axis (tshape t) 0) (t0 :: ts)) ->
    inb post pos = true ->
    get R (tconcat R (t0 :: ts) axis) (offs ++ p :: pos)
    = get R (nth (fst (locate (map (fun t => nth axis (tshape t) 0) (t0 :: ts)) p)) (t0 :: ts) t0)
            (offs ++ snd (locate (map (fun t => nth axis (tshape t) 0) (t0 :: ts)) p) :: pos).
  Proof.
    intros Hl Hsh Hoffs Hp Hpos.
    pose proof (cd_tconcat_shape t0 ts axis pre post Hl Hsh) as Hshape.
    pose proof (cd_inb_length _ _ Hoffs) as Hlo.
    assert (Hax : axis = length offs) by (rewrite Hlo; symmetry; exact Hl).
    unfold tconcat in *. rewrite tshape_build in Hshape.
    rewrite get_build.
    - replace (nth axis (offs ++ p :: pos) 0) with p by (rewrite Hax; symmetry; apply nth_middle).
      destruct (locate (map (fun t => nth axis (tshape t) 0) (t0 :: ts)) p) as [k o].
      cbn [fst snd].
      replace (set_nth (offs ++ p :: pos) axis o) with (offs ++ o :: pos)
        by (rewrite Hax; symmetry; apply cd_set_nth_app).
      reflexivity.
    - rewrite Hshape. rewrite (cd_inb_app pre _ offs _ Hoffs). cbn [inb].
      apply andb_true_iff. split; [apply Nat.ltb_lt; exact Hp | exact Hpos].
  Qed.
End Concat.

(* ------------------------------------------------------------------ *)
(* one axis: positions 0 .. size_total-1  <->  (charge, offset) pairs of the table *)

Section Axis.
  Context (G : Symmetry) (HG : GroupLaws G).
  Notation Ch := (C G).
  Notation dco := (ident G, 0).

  Definition cd_szof (cm : list (Ch * nat)) (c : Ch) : nat :=
    match lookup (ceqb G) c cm with Some d => d | None => 0 end.
  Definition cd_coords (cm : list (Ch * nat)) : list (coord G) :=
    flat_map (fun p => map (fun o => (fst p, o)) (seq 0 (snd p))) cm.

  Lemma cd_size_of ix c : size_of G ix c = cd_szof (chargemap G ix) c.
  Proof. reflexivity. Qed.
  Lemma cd_index_coords ix : index_coords G ix = cd_coords (chargemap G ix).
  Proof. reflexivity. Qed.

  Lemma cd_coords_cons c d cm :
    cd_coords ((c, d) :: cm) = map (fun o => (c, o)) (seq 0 d) ++ cd_coords cm.
  Proof. reflexivity. Qed.

  Lemma cd_nth_coords_lt c d cm p dflt : p < d -> nth p (cd_coords ((c, d) :: cm)) dflt = (c, p).
  Proof.
    intros H. rewrite cd_coords_cons, app_nth1 by (rewrite map_length, seq_length; exact H).
    apply cd_nth_pair_seq. exact H.
  Qed.

  Lemma cd_nth_coords_ge c d cm p dflt :
    d <= p -> nth p (cd_coords ((c, d) :: cm)) dflt = nth (p - d) (cd_coords cm) dflt.
  Proof.
    intros H. rewrite cd_coords_cons, app_nth2 by (rewrite map_length, seq_length; exact H).
    rewrite map_length, seq_length. reflexivity.
  Qed.

  (* the part `locate` finds is the charge of the coordinate, its offset the offset *)
  Lemma cd_locate_coord cm : forall p k o,
    p < nsum (map snd cm) -> locate (map snd cm) p = (k, o) ->
    k < length cm /\ nth p (cd_coords cm) dco = (fst (nth k cm dco), o) /\ o < snd (nth k cm dco).
  Proof.
    induction cm as [|[c d] cm IH]; intros p k o Hp Hloc.
    - cbn [map nsum fold_right] in Hp. lia.
    - cbn [map snd locate] in Hloc. cbn [map snd nsum fold_right] in Hp. fold (nsum (map snd cm)) in Hp.
      destruct (Nat.ltb p d) eqn:E.
      + apply Nat.ltb_lt in E. inversion Hloc; subst k o. cbn [length nth fst snd].
        split; [lia|]. split; [apply cd_nth_coords_lt; exact E | exact E].
      + apply Nat.ltb_ge in E.
        destruct (locate (map snd cm) (p - d)) as [k' o'] eqn:E'. inversion Hloc; subst k o.
        destruct (IH (p - d) k' o' ltac:(lia) E') as [Hk [Hn Ho]].
        cbn [length nth]. split; [lia|]. split; [|exact Ho].
        rewrite cd_nth_coords_ge by exact E. exact Hn.
  Qed.

  (* position -> coordinate: in the table, and `base_of` + offset gives the position back *)
  Lemma cd_axis_fwd cm : NoDup (map fst cm) -> forall p, p < nsum (map snd cm) ->
    snd (nth p (cd_coords cm) dco) < cd_szof cm (fst (nth p (cd_coords cm) dco))
    /\ base_of G cm (fst (nth p (cd_coords cm) dco)) + snd (nth p (cd_coords cm) dco) = p.
  Proof.
    induction cm as [|[c d] cm IH]; intros Hnd p Hp.
    - cbn [map nsum fold_right] in Hp. lia.
    - cbn [map fst] in Hnd. inversion Hnd as [|c0 l0 Hni Hnd']; subst c0 l0.
      cbn [map snd nsum fold_right] in Hp. fold (nsum (map snd cm)) in Hp.
      destruct (Nat.ltb p d) eqn:E.
      + apply Nat.ltb_lt in E. rewrite cd_nth_coords_lt by exact E. cbn [fst snd].
        unfold cd_szof. cbn [lookup base_of]. rewrite (ceqb_refl G HG). split; [exact E | reflexivity].
      + apply Nat.ltb_ge in E. rewrite cd_nth_coords_ge by exact E.
        destruct (IH Hnd' (p - d) ltac:(lia)) as [H1 H2].
        set (co := nth (p - d) (cd_coords cm) dco) in *.
        assert (Hne : ceqb G (fst co) c = false).
        { destruct (ceqb G (fst co) c) eqn:Ec; [|reflexivity]. exfalso.
          apply (ceqb_eq G HG) in Ec. apply Hni. rewrite <- Ec.
          unfold cd_szof in H1. destruct (lookup (ceqb G) (fst co) cm) as [d'|] eqn:El; [|lia].
          apply (lookup_In (ceqb G) (ceqb_spec G HG)) in El.
          apply in_map_iff. exists (fst co, d'). split; [reflexivity | exact El]. }
        unfold cd_szof in *. cbn [lookup base_of]. rewrite Hne. split; [exact H1 | lia].
  Qed.

  (* coordinate in the table -> position: in range, and its coordinate is the one we started from *)
  Lemma cd_axis_bwd cm : forall c o, o < cd_szof cm c ->
    base_of G cm c + o < nsum (map snd cm) /\ nth (base_of G cm c + o) (cd_coords cm) dco = (c, o).
  Proof.
    induction cm as [|[c' d'] cm IH]; intros c o Ho.
    - unfold cd_szof in Ho. cbn [lookup] in Ho. lia.
    - unfold cd_szof in Ho. cbn [lookup] in Ho. cbn [base_of map snd nsum fold_right].
      fold (nsum (map snd cm)).
      destruct (ceqb G c c') eqn:E.
      + apply (ceqb_eq G HG) in E. subst c'. cbn [Nat.add]. split; [lia|].
        apply cd_nth_coords_lt. exact Ho.
      + destruct (IH c o Ho) as [H1 H2]. split; [lia|].
        rewrite cd_nth_coords_ge by lia.
        replace (d' + base_of G cm c + o - d') with (base_of G cm c + o) by lia. exact H2.
  Qed.

  Lemma cd_szof_keys cm : NoDup (map fst cm) -> map (cd_szof cm) (map fst cm) = map snd cm.
  Proof.
    intros Hnd. rewrite map_map. apply map_ext_in. intros [c d] Hin. cbn [fst snd].
    unfold cd_szof. rewrite (In_lookup (ceqb G) (ceqb_spec G HG) c d cm Hnd Hin). reflexivity.
  Qed.

  Lemma cd_szof_nth cm k : NoDup (map fst cm) -> k < length cm ->
    cd_szof cm (fst (nth k cm dco)) = snd (nth k cm dco).
  Proof.
    intros Hnd Hk. unfold cd_szof.
    rewrite (In_lookup (ceqb G) (ceqb_spec G HG) (fst (nth k cm dco)) (snd (nth k cm dco)) cm Hnd).
    - reflexivity.
    - rewrite <- surjective_pairing. apply nth_In. exact Hk.
  Qed.
End Axis.

(* ------------------------------------------------------------------ *)
(* all axes: dense positions <-> coordinate lists *)

Section Coords.
  Context (G : Symmetry) (HG : GroupLaws G).
  Notation Ch := (C G).
  Notation dco := (ident G, 0).

  Lemma cd_coords_of_cons ix ixs p pos :
    coords_of G (ix :: ixs) (p :: pos) = coord_at G ix p :: coords_of G ixs pos.
  Proof. reflexivity. Qed.

  Lemma cd_pos_of_cons ix ixs (c : coord G) cs :
    pos_of G (ix :: ixs) (c :: cs) = (base_of G (chargemap G ix) (fst c) + snd c) :: pos_of G ixs cs.
  Proof. reflexivity. Qed.

  Lemma cd_coords_ok_cons ix ixs (c : coord G) cs :
    coords_ok G (ix :: ixs) (c :: cs) = Nat.ltb (snd c) (size_of G ix (fst c)) && coords_ok G ixs cs.
  Proof.
    unfold coords_ok. cbn [length List.combine forallb fst snd Nat.eqb].
    destruct (Nat.eqb (length cs) (length ixs)), (Nat.ltb (snd c) (size_of G ix (fst c))); reflexivity.
  Qed.

  Lemma cd_coords_fwd ixs : Forall (fun ix => NoDup (icharges G ix)) ixs ->
    forall pos, inb (map (size_total G) ixs) pos = true ->
      coords_ok G ixs (coords_of G ixs pos) = true /\ pos_of G ixs (coords_of G ixs pos) = pos.
  Proof.
    intros HF. induction HF as [|ix ixs Hnd HF IH]; intros pos H.
    - cbn [map] in H. apply cd_inb_nil in H. subst pos. split; reflexivity.
    - destruct pos as [|p pos]; cbn [map inb] in H; [discriminate H|].
      apply andb_true_iff in H. destruct H as [Hp H]. apply Nat.ltb_lt in Hp.
      destruct (IH pos H) as [IH1 IH2].
      rewrite cd_coords_of_cons, cd_coords_ok_cons, cd_pos_of_cons, IH1, IH2.
      unfold coord_at. rewrite cd_index_coords, cd_size_of.
      destruct (cd_axis_fwd G HG (chargemap G ix) Hnd p Hp) as [A1 A2].
      split; [|rewrite A2; reflexivity].
      apply andb_true_iff. split; [apply Nat.ltb_lt; exact A1 | reflexivity].
  Qed.

  Lemma cd_coords_bwd ixs : forall cs, coords_ok G ixs cs = true ->
    inb (map (size_total G) ixs) (pos_of G ixs cs) = true /\ coords_of G ixs (pos_of G ixs cs) = cs.
  Proof.
    induction ixs as [|ix ixs IH]; intros cs H.
    - destruct cs as [|c cs]; [split; reflexivity|].
      unfold coords_ok in H. cbn [length Nat.eqb andb] in H. discriminate H.
    - destruct cs as [|c cs]; [unfold coords_ok in H; cbn [length Nat.eqb andb] in H; discriminate H|].
      rewrite cd_coords_ok_cons in H. apply andb_true_iff in H. destruct H as [Hc H].
      apply Nat.ltb_lt in Hc. rewrite cd_size_of in Hc.
      destruct (IH cs H) as [IH1 IH2].
      destruct (cd_axis_bwd G HG (chargemap G ix) (fst c) (snd c) Hc) as [A1 A2].
      rewrite cd_pos_of_cons, cd_coords_of_cons. cbn [map inb]. rewrite IH1, IH2.
      unfold coord_at, size_total. rewrite cd_index_coords, A2. split.
      + apply andb_true_iff. split; [apply Nat.ltb_lt; exact A1 | reflexivity].
      + rewrite <- surjective_pairing. reflexivity.
  Qed.

  Lemma cd_block_shape_snoc ix (c : Ch) : forall done partial, length done = length partial ->
    block_shape G (done ++ [ix]) (partial ++ [c]) = block_shape G done partial ++ [size_of G ix c].
  Proof.
    unfold block_shape. induction done as [|i0 done IH]; intros [|c0 partial] H; cbn [length] in H;
      try discriminate H.
    - reflexivity.
    - cbn [app List.combine map]. f_equal. apply IH. lia.
  Qed.

  Lemma cd_block_shape_length done (partial : list Ch) :
    length done = length partial -> length (block_shape G done partial) = length done.
  Proof. intros H. unfold block_shape. rewrite map_length, combine_length. lia. Qed.
End Coords.

(* ------------------------------------------------------------------ *)
(* the recursion of to_dense *)

Section Dense.
  Context (G : Symmetry) (R : Ring) (HG : GroupLaws G) (HO : OrderLaws G).
  Notation Ch := (C G).
  Notation keq := (list_eqb (ceqb G)).
  Notation dco := (ident G, 0).

  Definition cd_ix_good (ix : index G) : Prop :=
    NoDup (icharges G ix) /\ isort (cltb G) (icharges G ix) = icharges G ix /\ chargemap G ix <> [].

  Definition cd_blocks_good (ixs : list (index G)) (blks : list (list Ch * tensor R)) : Prop :=
    forall s b, In (s, b) blks ->
      tshape b = block_shape G ixs s /\ length (tdata b) = shape_size (tshape b).

  Lemma cd_get_tzeros sh idx : inb sh idx = true -> get R (tzeros R sh) idx = r0 R.
  Proof. intros H. unfold tzeros. rewrite get_build by exact H. reflexivity. Qed.

  Lemma cd_dense_go_inv ixs_all blks :
    cd_blocks_good ixs_all blks ->
    forall rest done partial,
      ixs_all = done ++ rest -> Forall cd_ix_good rest -> length done = length partial ->
      tshape (dense_go G R ixs_all blks rest (length done) partial)
        = block_shape G done partial ++ map (size_total G) rest
      /\ length (tdata (dense_go G R ixs_all blks rest (length done) partial))
         = shape_size (tshape (dense_go G R ixs_all blks rest (length done) partial))
      /\ forall offs pos, inb (block_shape G done partial) offs = true ->
           inb (map (size_total G) rest) pos = true ->
           get R (dense_go G R ixs_all blks rest (length done) partial) (offs ++ pos) =
           match lookup keq (partial ++ map fst (coords_of G rest pos)) blks with
           | Some b => get R b (offs ++ map snd (coords_of G rest pos))
           | None => r0 R
           end.
  Proof.
    intros Hblk rest. induction rest as [|ix rest IH]; intros done partial Hall Hgood Hlen.
    - rewrite app_nil_r in Hall. subst done. cbn [dense_go map]. rewrite app_nil_r.
      destruct (lookup keq partial blks) as [b|] eqn:El.
      + pose proof (lookup_In keq (list_eqb_spec (ceqb G) (ceqb_spec G HG)) partial b blks El) as Hin.
        destruct (Hblk _ _ Hin) as [Hs Hd]. split; [exact Hs|]. split; [exact Hd|].
        intros offs pos Ho Hp. apply cd_inb_nil in Hp. subst pos.
        unfold coords_of. cbn [List.combine map]. rewrite !app_nil_r, El. reflexivity.
      + split; [reflexivity|]. split.
        * unfold tzeros, build. cbn [tdata tshape]. rewrite map_length. apply length_all_idx.
        * intros offs pos Ho Hp. apply cd_inb_nil in Hp. subst pos.
          unfold coords_of. cbn [List.combine map]. rewrite !app_nil_r, El.
          apply cd_get_tzeros. exact Ho.
    - inversion Hgood as [|ix0 rest0 Hix Hgood']; subst ix0 rest0.
      destruct Hix as [Hnd [Hsort Hne]].
      cbn [dense_go]. rewrite Hsort.
      set (f := fun c => dense_go G R ixs_all blks rest (S (length done)) (partial ++ [c])).
      set (pre := block_shape G done partial).
      set (post := map (size_total G) rest).
      set (cm := chargemap G ix) in *.
      assert (Hprelen : length pre = length done)
        by (apply cd_block_shape_length; exact Hlen).
      assert (IHc : forall c,
        tshape (f c) = pre ++ size_of G ix c :: post
        /\ length (tdata (f c)) = shape_size (tshape (f c))
        /\ forall offs pos, inb (pre ++ [size_of G ix c]) offs = true -> inb post pos = true ->
             get R (f c) (offs ++ pos) =
             match lookup keq ((partial ++ [c]) ++ map fst (coords_of G rest pos)) blks with
             | Some b => get R b (offs ++ map snd (coords_of G rest pos))
             | None => r0 R
             end).
      { intros c.
        assert (Hall' : ixs_all = (done ++ [ix]) ++ rest) by (rewrite <- app_assoc; exact Hall).
        assert (Hlen' : length (done ++ [ix]) = length (partial ++ [c]))
          by (rewrite !app_length; cbn [length]; lia).
        pose proof (IH (done ++ [ix]) (partial ++ [c]) Hall' Hgood' Hlen') as Hc.
        rewrite app_length in Hc. cbn [length] in Hc. rewrite Nat.add_1_r in Hc.
        rewrite (cd_block_shape_snoc G ix c done partial Hlen) in Hc.
        fold pre in Hc. fold post in Hc. fold (f c) in Hc.
        rewrite <- app_assoc in Hc. cbn [app] in Hc. exact Hc. }
      assert (Hshape_f : forall cs t, In t (map f cs) -> exists s, tshape t = pre ++ s :: post).
      { intros cs t Hin. apply in_map_iff in Hin. destruct Hin as [c [Ec _]]. subst t.
        exists (size_of G ix c). apply (IHc c). }
      assert (Hsizes : forall cs, map (fun t => nth (length done) (tshape t) 0) (map f cs)
                                  = map (size_of G ix) cs).
      { intros cs. rewrite map_map. apply map_ext. intros c.
        destruct (IHc c) as [Hs _]. rewrite Hs, <- Hprelen. apply nth_middle. }
      assert (Hsz : map (fun t => nth (length done) (tshape t) 0) (map f (icharges G ix)) = map snd cm).
      { rewrite Hsizes. rewrite (map_ext _ _ (cd_size_of G ix)). apply (cd_szof_keys G HG). exact Hnd. }
      assert (Hex : exists c0 cs', icharges G ix = c0 :: cs').
      { destruct (icharges G ix) as [|c0 cs'] eqn:Ecs; [|exists c0, cs'; reflexivity].
        exfalso. apply Hne. unfold icharges in Ecs. apply map_eq_nil in Ecs. exact Ecs. }
      destruct Hex as [c0 [cs' Ecs]].
      assert (Hts : map f (icharges G ix) = f c0 :: map f cs') by (rewrite Ecs; reflexivity).
      cbn [map]. fold post. rewrite Hts.
      split; [|split].
      + rewrite (cd_tconcat_shape R (f c0) (map f cs') (length done) pre post Hprelen
                   (Hshape_f (c0 :: cs'))).
        rewrite <- Hts, Hsz. reflexivity.
      + apply cd_tconcat_len.
      + intros offs pos Ho Hp. destruct pos as [|p pos]; cbn [inb] in Hp; [discriminate Hp|].
        apply andb_true_iff in Hp. destruct Hp as [Hp1 Hp2]. apply Nat.ltb_lt in Hp1.
        unfold size_total in Hp1. fold cm in Hp1.
        assert (Hp' : p < nsum (map (fun t => nth (length done) (tshape t) 0) (f c0 :: map f cs')))
          by (rewrite <- Hts, Hsz; exact Hp1).
        rewrite (cd_tconcat_get R (f c0) (map f cs') (length done) pre post offs p pos Hprelen
                   (Hshape_f (c0 :: cs')) Ho Hp' Hp2).
        rewrite <- Hts, Hsz.
        destruct (locate (map snd cm) p) as [k o] eqn:Eloc. cbn [fst snd].
        destruct (cd_locate_coord G cm p k o Hp1 Eloc) as [Hk [Hnth Ho']].
        rewrite (cd_nth_map_lt f (icharges G ix) c0 (f c0) k)
          by (unfold icharges; rewrite map_length; exact Hk).
        unfold icharges. fold cm. rewrite (cd_nth_map_lt fst cm dco c0 k Hk).
        set (ck := fst (nth k cm dco)) in *.
        destruct (IHc ck) as [_ [_ Hget]].
        assert (Hin : inb (pre ++ [size_of G ix ck]) (offs ++ [o]) = true).
        { rewrite (cd_inb_app pre _ offs _ Ho). cbn [inb]. apply andb_true_iff. split; [|reflexivity].
          apply Nat.ltb_lt. rewrite cd_size_of. fold cm. unfold ck.
          rewrite (cd_szof_nth G HG cm k Hnd Hk). exact Ho'. }
        specialize (Hget (offs ++ [o]) pos Hin Hp2).
        rewrite <- !app_assoc in Hget. cbn [app] in Hget. rewrite Hget.
        rewrite cd_coords_of_cons. cbn [map]. unfold coord_at. rewrite cd_index_coords. fold cm.
        rewrite Hnth. cbn [fst snd]. reflexivity.
  Qed.
End Dense.

(* ------------------------------------------------------------------ *)
(* from wf_array to the hypotheses of the invariant, and the theorem *)

Section Final.
  Context (G : Symmetry) (R : Ring) (HG : GroupLaws G) (HO : OrderLaws G).
  Notation Ch := (C G).
  Notation keq := (list_eqb (ceqb G)).

  Lemma cd_wf_index_sorted ix : wf_index G ix = true -> sorted_by (cltb G) (icharges G ix) = true.
  Proof.
    destruct ix as [cm d sub]. cbn [wf_index]. intros H.
    apply andb_true_iff in H. destruct H as [H _]. unfold cm_ok in H.
    apply andb_true_iff in H. destruct H as [H _]. exact H.
  Qed.

  Lemma cd_ix_good_of ix : wf_index G ix = true -> chargemap G ix <> [] -> cd_ix_good G ix.
  Proof.
    intros Hwf Hne. pose proof (cd_wf_index_sorted ix Hwf) as Hs. split; [|split].
    - apply (SS_NoDup (cltb G) _ HO). apply (SS_of_sorted_by (cltb G) _ HO). exact Hs.
    - apply cd_isort_sorted; [exact HO | exact Hs].
    - exact Hne.
  Qed.

  (* a stored sector names one charge of every table: no table is empty *)
  Lemma cd_sector_tables : forall ixs (s : list Ch), length s = length ixs ->
    forallb (fun p => mem (ceqb G) (snd p) (icharges G (fst p))) (List.combine ixs s) = true ->
    Forall (fun ix => chargemap G ix <> []) ixs.
  Proof.
    induction ixs as [|ix ixs IH]; intros s Hl H; [constructor|].
    destruct s as [|c s]; cbn [length] in Hl; [discriminate Hl|].
    cbn [List.combine forallb fst snd] in H. apply andb_true_iff in H. destruct H as [Hm H].
    constructor.
    - intros E. unfold icharges in Hm. rewrite E in Hm. cbn [map mem] in Hm. discriminate Hm.
    - apply (IH s); [lia | exact H].
  Qed.

  Lemma cd_stored_tables (x : aarray G R) : wf_array G R x = true -> blocks G R x <> [] ->
    Forall (fun ix => chargemap G ix <> []) (indices G R x).
  Proof.
    intros Hwf Hne. unfold wf_array in Hwf.
    apply andb_true_iff in Hwf. destruct Hwf as [_ Hblocks].
    destruct (blocks G R x) as [|[s0 b0] bl]; [exfalso; apply Hne; reflexivity|].
    cbn [forallb fst snd] in Hblocks.
    apply andb_true_iff in Hblocks. destruct Hblocks as [Hb _].
    apply andb_true_iff in Hb. destruct Hb as [Hb _].
    apply andb_true_iff in Hb. destruct Hb as [Hso _]. unfold sector_ok in Hso.
    apply andb_true_iff in Hso. destruct Hso as [Hso _].
    apply andb_true_iff in Hso. destruct Hso as [Hl Hm]. apply Nat.eqb_eq in Hl.
    exact (cd_sector_tables (indices G R x) s0 Hl Hm).
  Qed.

  Lemma cd_to_dense_sem_core (x : aarray G R) :
    wf_array G R x = true ->
    Forall (fun ix => chargemap G ix <> []) (indices G R x) ->
    exists t, to_dense G R x = Some t
      /\ tshape t = map (size_total G) (indices G R x)
      /\ length (tdata t) = shape_size (tshape t)
      /\ (forall pos, inb (map (size_total G) (indices G R x)) pos = true ->
            coords_ok G (indices G R x) (coords_of G (indices G R x) pos) = true
            /\ pos_of G (indices G R x) (coords_of G (indices G R x) pos) = pos
            /\ get R t pos = sem G R x (coords_of G (indices G R x) pos))
      /\ (forall cs, coords_ok G (indices G R x) cs = true ->
            inb (map (size_total G) (indices G R x)) (pos_of G (indices G R x) cs) = true
            /\ coords_of G (indices G R x) (pos_of G (indices G R x) cs) = cs
            /\ get R t (pos_of G (indices G R x) cs) = sem G R x cs).
  Proof.
    intros Hwf Htab.
    unfold wf_array in Hwf.
    apply andb_true_iff in Hwf. destruct Hwf as [Hwf Hblocks].
    apply andb_true_iff in Hwf. destruct Hwf as [Hwf _].
    apply andb_true_iff in Hwf. destruct Hwf as [Hixs _].
    set (ixs := indices G R x) in *. set (blks := blocks G R x) in *.
    rewrite forallb_forall in Hixs, Hblocks.
    (* every stored block has the shape of its sector *)
    assert (Hbg : cd_blocks_good G R ixs blks).
    { intros s b Hin. specialize (Hblocks (s, b) Hin). cbn [fst snd] in Hblocks.
      apply andb_true_iff in Hblocks. destruct Hblocks as [Hb Hd].
      apply andb_true_iff in Hb. destruct Hb as [_ Hs].
      apply (list_eqb_spec Nat.eqb Nat.eqb_eq) in Hs. apply Nat.eqb_eq in Hd.
      split; [exact Hs | exact Hd]. }
    assert (Hgood : Forall (cd_ix_good G) ixs).
    { rewrite Forall_forall in Htab |- *. intros ix Hin.
      apply cd_ix_good_of; [apply Hixs; exact Hin | apply Htab; exact Hin]. }
    assert (Hnd : Forall (fun ix => NoDup (icharges G ix)) ixs).
    { eapply Forall_impl; [|exact Hgood]. intros ix Hg. apply Hg. }
    destruct (cd_dense_go_inv G R HG ixs blks Hbg ixs [] [] eq_refl Hgood eq_refl)
      as [Hshape [Hdata Hget]].
    cbn [length] in Hshape, Hdata, Hget.
    change (block_shape G [] []) with (@nil nat) in Hshape, Hget. cbn [app] in Hshape.
    assert (Hfwd : forall pos, inb (map (size_total G) ixs) pos = true ->
              get R (dense_go G R ixs blks ixs 0 []) pos = sem G R x (coords_of G ixs pos)).
    { intros pos Hp. specialize (Hget [] pos eq_refl Hp). cbn [app] in Hget.
      rewrite Hget. unfold sem. fold blks. reflexivity. }
    exists (dense_go G R ixs blks ixs 0 []).
    split; [|split; [exact Hshape | split; [exact Hdata | split]]].
    - unfold to_dense. fold ixs. fold blks.
      destruct (existsb (fun ix => is_nil (chargemap G ix)) ixs) eqn:Ee; [|reflexivity].
      exfalso. apply existsb_exists in Ee. destruct Ee as [ix [Hin Hnil]].
      rewrite Forall_forall in Htab. apply (Htab ix Hin).
      destruct (chargemap G ix); [reflexivity | discriminate Hnil].
    - intros pos Hp. destruct (cd_coords_fwd G HG ixs Hnd pos Hp) as [H1 H2].
      split; [exact H1 | split; [exact H2 | apply Hfwd; exact Hp]].
    - intros cs Hcs. destruct (cd_coords_bwd G HG ixs cs Hcs) as [H1 H2].
      split; [exact H1 | split; [exact H2|]].
      rewrite (Hfwd _ H1), H2. reflexivity.
  Qed.
End Final.

(* statement 3 of Proofs/CtorSpec.v *)
Theorem to_dense_sem (G : Symmetry) (R : Ring) : to_dense_sem_stmt G R.
Proof. intros HG HO x Hwf Htab. exact (cd_to_dense_sem_core G R HG HO x Hwf Htab). Qed.

(* the condition on the tables holds in particular when a block is stored *)
Theorem to_dense_sem_stored (G : Symmetry) (R : Ring) :
  GroupLaws G -> OrderLaws G ->
  forall x : aarray G R, wf_array G R x = true -> blocks G R x <> [] ->
    Forall (fun ix => chargemap G ix <> []) (indices G R x).
Proof. intros HG _ x Hwf Hne. exact (cd_stored_tables G R x Hwf Hne). Qed.

(* ------------------------------------------------------------------ *)
(* the hypotheses are satisfiable: a rank-2 U1 array over Z, second index dual, two charges
   per index, the charge-conserving sector (1,1) NOT stored (reads as zero) *)
Definition cd_ex_ixs : list (index U1) :=
  [Index U1 [(0%Z, 2); (1%Z, 1)] false None; Index U1 [(0%Z, 1); (1%Z, 2)] true None].
Definition cd_ex : aarray U1 ZRing :=
  mkA U1 ZRing cd_ex_ixs 0%Z [([0%Z; 0%Z], @mkT ZRing [2; 1] [5%Z; 7%Z])].

Example cd_ex_hyps :
  wf_array U1 ZRing cd_ex = true
  /\ blocks U1 ZRing cd_ex <> []
  /\ Forall (fun ix => chargemap U1 ix <> []) (indices U1 ZRing cd_ex)
  /\ is_valid_sector U1 (duals U1 ZRing cd_ex) (charge U1 ZRing cd_ex) [1%Z; 1%Z] = true
  /\ lookup (list_eqb (ceqb U1)) [1%Z; 1%Z] (blocks U1 ZRing cd_ex) = None
  /\ to_dense U1 ZRing cd_ex
     = Some (@mkT ZRing [3; 3] [5%Z; 0%Z; 0%Z; 7%Z; 0%Z; 0%Z; 0%Z; 0%Z; 0%Z])
  /\ map (coords_of U1 cd_ex_ixs) [[0; 0]; [1; 0]; [2; 1]]
     = [[(0%Z, 0); (0%Z, 0)]; [(0%Z, 1); (0%Z, 0)]; [(1%Z, 0); (1%Z, 0)]].
Proof.
  split; [vm_compute; reflexivity|].
  split; [intros H; discriminate H|].
  split; [repeat constructor; intros H; discriminate H|].
  split; [vm_compute; reflexivity|].
  split; [vm_compute; reflexivity|].
  split; vm_compute; reflexivity.
Qed.
