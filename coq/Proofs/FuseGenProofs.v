(* Proofs/FuseGenProofs.v — the function that tr/gen_fuse.py translates from the CURRENT
   source of `calc_fuse_block_info` (Gen/FuseGen.v) EQUALS the hand model of Model/Array.v
   that the C05 theorems speak about. *)
From SV Require Import Base.Prelude Base.PyList Base.Sym Base.Tensor Model.Sectors Model.Array
  Gen.Helpers Gen.FuseGen Proofs.OrderProofs Proofs.FuseProofs Proofs.FuseGroups Proofs.HelpersProofs.
From Coq Require Import Lia Permutation.
Local Open Scope nat_scope.

(* ================================================================== *)
(* 1. The generated function, cut into named pieces (the "mirror").  The pieces are the
      generated text itself with the ten results of calc_fuse_group_info abstracted;
      `gen_is_mirror` below is by reflexivity, so the cut is checked by Coq's conversion. *)
Section Mirror.
  Context (G : Symmetry).
  Notation Ch := (C G).
  Notation sector := (list (C G)).
  Notation keq := (list_eqb (ceqb G)).
  Context (ixs : list (index G)) (gsZ : list (list Z)).
  Context (NG NN POS : Z) (SING PERM BEF AFT : list Z) (A2G : list (Z * option Z)) (GD : list bool)
          (NAX : list (Z * Z)).

  Definition entry : Type := (nat * option Z * bool * Z * option Ch)%type.
  Definition bm_val : Type := (list nat * sector * list sector)%type.

  Definition m_reset : list nat * list sector * list sector -> Z -> list nat * list sector * list sector :=
    fun '(sh, ss, gc) g =>
    (g_lupd sh (Z.add POS g) (fun _ => 1), g_lupd ss g (fun _ => (@nil Ch)), g_lupd gc g (fun _ => (@nil Ch))).

  Definition m_entry (ax : Z) (c : Ch) : entry :=
    let ix := py_nth (dflt_index G) ixs ax in
    let d := size_of G ix c in
    let g := dget Z.eqb None A2G ax in
    let gs := g_omem Z.eqb g SING in
    let na := dget Z.eqb 0%Z NAX ax in
    let sc := if (is_none g || gs) then None
              else Some (sign G c (negb (Bool.eqb (py_nth false GD (g_the 0%Z g)) (idual G ix)))) in
    (d, g, gs, na, sc).

  Definition m_place (c : Ch) (e : entry) (st : sector * list nat * list sector * list sector) :=
    let '(nsec, sh, ss, gc) := st in
    let '(d, g, gs, na, sc) := e in
    match sc with
    | None =>
        (g_lupd nsec na (fun _ => c), g_lupd sh na (fun _ => d),
         match g with None => ss | Some k => g_lupd ss k (fun l => l ++ [c]) end, gc)
    | Some x =>
        (nsec, g_lupd sh na (fun v => Nat.mul v d), g_lupd ss (g_the 0%Z g) (fun l => l ++ [c]),
         g_lupd gc (g_the 0%Z g) (fun l => l ++ [x]))
    end.

  Definition m_axstep (s : sector)
    : list (Z * Ch * entry) * sector * list nat * list sector * list sector -> Z ->
      list (Z * Ch * entry) * sector * list nat * list sector * list sector :=
    fun '(lk, nsec, sh, ss, gc) ax =>
    let c := py_nth (ident G) s ax in
    let '(d, g, gs, na, sc, lk') :=
      match lookup (pair_eqb Z.eqb (ceqb G)) (ax, c) lk with
      | Some v => let '(d, g, gs, na, sc) := v in (d, g, gs, na, sc, lk)
      | None =>
          let ix := py_nth (dflt_index G) ixs ax in
          let d := size_of G ix c in
          let g := dget Z.eqb None A2G ax in
          let gs := g_omem Z.eqb g SING in
          let na := dget Z.eqb 0%Z NAX ax in
          let sc := if (is_none g || gs) then None
                    else Some (sign G c (negb (Bool.eqb (py_nth false GD (g_the 0%Z g)) (idual G ix)))) in
          (d, g, gs, na, sc, dset (pair_eqb Z.eqb (ceqb G)) (ax, c) (d, g, gs, na, sc) lk)
      end in
    let '(nsec', sh', ss', gc') :=
      match sc with
      | None =>
          (g_lupd nsec na (fun _ => c), g_lupd sh na (fun _ => d),
           match g with None => ss | Some k => g_lupd ss k (fun l => l ++ [c]) end, gc)
      | Some x =>
          (nsec, g_lupd sh na (fun v => Nat.mul v d), g_lupd ss (g_the 0%Z g) (fun l => l ++ [c]),
           g_lupd gc (g_the 0%Z g) (fun l => l ++ [x]))
      end in
    (lk', nsec', sh', ss', gc').

  Definition m_close (sh : list nat) (ss gc : list sector)
    : sector * list (list (sector * (Ch * nat))) -> Z -> sector * list (list (sector * (Ch * nat))) :=
    fun '(nsec, si) g =>
    let '(nsec', si') :=
      if negb (mem Z.eqb g SING) then
        let nc := combine G (py_nth [] gc g) in
        (g_lupd nsec (Z.add POS g) (fun _ => nc),
         g_lupd si g (fun d => dset keq (py_nth [] ss g) (nc, py_nth 0 sh (Z.add POS g)) d))
      else (nsec, si) in
    (nsec', si').

  Definition m_state : Type :=
    (list nat * list sector * list sector * list (Z * Ch * entry) * sector *
     list (list (sector * (Ch * nat))) * list (sector * bm_val))%type.
  Definition m_sector : m_state -> sector -> m_state :=
    fun '(sh, ss, gc, lk, nsec, si, bm) s =>
    let '(sh1, ss1, gc1) := fold_left m_reset (zrange NG) (sh, ss, gc) in
    let '(lk2, nsec2, sh2, ss2, gc2) := fold_left (m_axstep s) PERM (lk, nsec, sh1, ss1, gc1) in
    let '(nsec3, si3) := fold_left (m_close sh2 ss2 gc2) (zrange NG) (nsec2, si) in
    (sh2, ss2, gc2, lk2, nsec3, si3, dset keq s (sh2, nsec3, ss2) bm).

  Definition m_table : list (Ch * nat) * list (Ch * list (sector * nat)) -> sector * (Ch * nat) ->
                       list (Ch * nat) * list (Ch * list (sector * nat)) :=
    fun '(cm, ext) '(ss, (c, d)) =>
    let '(cm', ext') :=
      if negb (dhas (ceqb G) c cm) then (dset (ceqb G) c d cm, dset (ceqb G) c [(ss, d)] ext)
      else (g_dupd (ceqb G) c (fun v => Nat.add v d) cm, g_dupd (ceqb G) c (fun e => dset keq ss d e) ext) in
    (cm', ext').

  Definition m_tables (si : list (list (sector * (Ch * nat))))
    : list (option (list (Ch * nat))) * list (option (list (Ch * list (sector * nat)))) -> Z ->
      list (option (list (Ch * nat))) * list (option (list (Ch * list (sector * nat)))) :=
    fun '(cms, exts) g =>
    let '(cms', exts') :=
      if negb (mem Z.eqb g SING) then
        let '(cm, ext) := fold_left m_table
                            (g_sorted_items (list_ltb (cltb G) (ceqb G)) (py_nth [] si g)) ([], []) in
        (cms ++ [Some cm], exts ++ [Some ext])
      else (cms ++ [None], exts ++ [None]) in
    (cms', exts').

  Definition m_newindex (cms : list (option (list (Ch * nat))))
      (exts : list (option (list (Ch * list (sector * nat))))) (g : Z) : index G :=
    if mem Z.eqb g SING then py_nth (dflt_index G) ixs (py_nth 0%Z (py_nth [] gsZ g) 0%Z)
    else mk_index G (g_the [] (py_nth None cms g)) (py_nth false GD g)
           (Some (map (fun i => py_nth (dflt_index G) ixs i) (py_nth [] gsZ g), g_the [] (py_nth None exts g))).

  Definition m_init :=
    (repeat 0 (Z.to_nat NN), map (fun _ : Z => @nil Ch) (zrange NG), map (fun _ : Z => @nil Ch) (zrange NG),
     @nil (Z * Ch * entry), repeat (ident G) (Z.to_nat NN),
     map (fun _ : Z => @nil (sector * (Ch * nat))) (zrange NG), @nil (sector * bm_val)).

  Definition m_info (secs : list sector) :=
    let '(sh, ss, gc, lk, nsec, si, bm) := fold_left m_sector secs m_init in
    let '(cms, exts) := fold_left (m_tables si) (zrange NG) ([], []) in
    let nix := map (fun ax => py_nth (dflt_index G) ixs ax) BEF
               ++ map (m_newindex cms exts) (zrange NG)
               ++ map (fun ax => py_nth (dflt_index G) ixs ax) AFT in
    (NG, SING, PERM, POS, BEF, AFT, NAX, nix, bm).
End Mirror.

Lemma gen_is_mirror (G : Symmetry) (R : Ring) (x : aarray G R) (gs : list (list Z)) :
  gen_calc_fuse_block_info G R x gs =
  let du := duals G R x in
  m_info G (indices G R x) gs (cfgi_num_groups gs du) (cfgi_new_ndim gs du) (cfgi_position gs du)
    (cfgi_group_singlets gs du) (cfgi_perm gs du) (cfgi_axes_before gs du) (cfgi_axes_after gs du)
    (cfgi_ax2group gs du) (cfgi_group_duals gs du) (cfgi_new_axes gs du) (sectors G R x).
Proof. reflexivity. Qed.

(* ================================================================== *)
(* 2. Lists updated in place *)
Section Upd.
  Context {A : Type}.

  Lemma g_upd_nat_length (l : list A) j f : length (g_upd_nat l j f) = length l.
  Proof.
    revert j. induction l as [|x l IH]; intros j; [destruct j; reflexivity|].
    destruct j; cbn [g_upd_nat length]; [reflexivity|now rewrite IH].
  Qed.

  Lemma g_upd_nat_out (l : list A) j f : length l <= j -> g_upd_nat l j f = l.
  Proof.
    revert j. induction l as [|x l IH]; intros j Hj; [destruct j; reflexivity|].
    destruct j; cbn [length] in Hj; [lia|]. cbn [g_upd_nat]. now rewrite IH by lia.
  Qed.

  Lemma g_upd_nat_nth (l : list A) j f i d : j < length l ->
    nth i (g_upd_nat l j f) d = if Nat.eqb i j then f (nth i l d) else nth i l d.
  Proof.
    revert j i. induction l as [|x l IH]; intros j i Hj; [cbn [length] in Hj; lia|].
    destruct j, i; cbn [g_upd_nat nth Nat.eqb]; try reflexivity.
    apply IH. cbn [length] in Hj. lia.
  Qed.

  Lemma g_upd_nat_ext (l : list A) j f g : (forall x, f x = g x) -> g_upd_nat l j f = g_upd_nat l j g.
  Proof.
    intros H. revert j. induction l as [|x l IH]; intros j; [destruct j; reflexivity|].
    destruct j; cbn [g_upd_nat]; [now rewrite H|now rewrite IH].
  Qed.

  Lemma g_upd_nat_comp (l : list A) j f g : g_upd_nat (g_upd_nat l j f) j g = g_upd_nat l j (fun x => g (f x)).
  Proof.
    revert j. induction l as [|x l IH]; intros j; [destruct j; reflexivity|].
    destruct j; cbn [g_upd_nat]; [reflexivity|now rewrite IH].
  Qed.

  Lemma g_upd_nat_id (l : list A) j : g_upd_nat l j (fun x => x) = l.
  Proof.
    revert j. induction l as [|x l IH]; intros j; [destruct j; reflexivity|].
    destruct j; cbn [g_upd_nat]; [reflexivity|now rewrite IH].
  Qed.

  Lemma g_lupd_nat (l : list A) j f : g_lupd l (Z.of_nat j) f = g_upd_nat l j f.
  Proof.
    unfold g_lupd, g_norm_index.
    destruct (Z.ltb_spec (Z.of_nat j) 0) as [H|H]; [lia|].
    destruct (Z.ltb_spec (Z.of_nat j) (Z.of_nat (length l))) as [H1|H1].
    - now rewrite Nat2Z.id.
    - symmetry. apply g_upd_nat_out. lia.
  Qed.

  Lemma nth_ext1 (l l' : list A) d : length l = length l' ->
    (forall i, i < length l -> nth i l d = nth i l' d) -> l = l'.
  Proof. intros Hl H. apply (nth_ext l l' d d Hl H). Qed.

  Lemma fold_left_concat {B} (f : B -> A -> B) (ls : list (list A)) (b : B) :
    fold_left f (concat ls) b = fold_left (fun acc l => fold_left f l acc) ls b.
  Proof.
    revert b. induction ls as [|l ls IH]; intros b; [reflexivity|].
    cbn [concat fold_left]. now rewrite fold_left_app, IH.
  Qed.
End Upd.

Lemma zadd_nat a b : Z.add (Z.of_nat a) (Z.of_nat b) = Z.of_nat (a + b).
Proof. lia. Qed.

Lemma zl_concat (ls : list (list nat)) : zl (concat ls) = concat (map zl ls).
Proof. unfold zl. apply concat_map. Qed.

Lemma map_nth_seq {A B} (F : A -> B) (l : list A) (d : A) :
  map (fun k => F (nth k l d)) (seq 0 (length l)) = map F l.
Proof.
  induction l as [|x l IH]; [reflexivity|].
  cbn [length seq map nth]. f_equal. rewrite <- seq_shift, map_map. exact IH.
Qed.

Lemma let_pair_eta {A B} (p : A * B) : (let '(a, b) := p in (a, b)) = p.
Proof. now destruct p. Qed.

(* first group containing an axis, when no axis occurs twice *)
Lemma gof_nodup (L : list (list nat)) : forall k j ax,
  NoDup (concat L) -> j < length L -> In ax (nth j L []) -> gof k L ax = Some (k + j).
Proof.
  induction L as [|g L IH]; intros k j ax Hnd Hj Hin; [cbn [length] in Hj; lia|].
  cbn [concat] in Hnd. cbn [gof]. destruct j as [|j]; cbn [nth] in Hin.
  - assert (E : mem Nat.eqb ax g = true) by (apply (mem_In Nat.eqb Nateqb_spec); exact Hin).
    rewrite E. f_equal. lia.
  - destruct (NoDup_app_elim _ _ Hnd) as (_ & Hnd2 & Hdis).
    assert (E : mem Nat.eqb ax g = false).
    { destruct (mem Nat.eqb ax g) eqn:E; [|reflexivity].
      apply (mem_In Nat.eqb Nateqb_spec) in E. exfalso. apply (Hdis ax E).
      apply in_concat. exists (nth j L []). split; [|exact Hin]. apply nth_In. cbn [length] in Hj. lia. }
    rewrite E. rewrite (IH (S k) j ax Hnd2); [f_equal; lia| cbn [length] in Hj; lia|exact Hin].
Qed.

(* ================================================================== *)
(* 3. One stored sector *)
Section Spec.
  Context (G : Symmetry) (Hceq : eqb_spec_on (ceqb G)).
  Context (ixs : list (index G)) (groups : list (list nat)).
  Context (Hok : groups_ok (length ixs) groups).
  Notation n := (length ixs).
  Notation m := (length groups).
  Notation pos := (fuse_position groups).
  Notation SL := (fused_layout (length ixs) groups).
  Notation L := (length (fused_layout (length ixs) groups)).
  Notation dflt := (dflt_index G).
  Notation idc := (ident G).
  Notation sector := (list (C G)).
  Notation keq := (list_eqb (ceqb G)).
  (* the three dicts of calc_fuse_group_info, by what a lookup in them returns (Props/C05g.v) *)
  Context (SING : list Z) (A2G : list (Z * option Z)) (NAX : list (Z * Z)).
  Context (HSING : forall k, k < m -> mem Z.eqb (Z.of_nat k) SING = is_singlet (nth k groups []))
          (HA2G : forall ax, ax < n -> dget Z.eqb None A2G (Z.of_nat ax) = option_map Z.of_nat (group_of groups ax))
          (HNAX : forall ax j, group_of SL ax = Some j -> dget Z.eqb 0%Z NAX (Z.of_nat ax) = Z.of_nat j).
  Notation GD := (map (group_dual G ixs) groups).
  Notation POS := (Z.of_nat (fuse_position groups)).
  Notation NG := (Z.of_nat (length groups)).

  Lemma Hne : Forall (fun g => g <> []) groups. Proof. exact (proj1 Hok). Qed.
  Lemma Hrng : Forall (fun ax => ax < n) (concat groups). Proof. exact (proj1 (proj2 Hok)). Qed.
  Lemma Hnd : NoDup (concat groups). Proof. exact (proj2 (proj2 Hok)). Qed.

  Lemma SL_length : L = pos + m + length (axes_after n groups).
  Proof. unfold fused_layout. rewrite !app_length, !map_length, axes_before_seq, seq_length. lia. Qed.

  Lemma SL_NoDup : NoDup (concat SL).
  Proof. clear HSING HA2G HNAX. rewrite concat_fused_layout. apply gperm_NoDup; [exact Hnd|exact Hrng]. Qed.

  Lemma SL_lt j ax : j < L -> In ax (nth j SL []) -> ax < n.
  Proof. clear HSING HA2G HNAX.
    intros Hj Hin. apply (gperm_In n groups Hrng). rewrite <- concat_fused_layout.
    apply in_concat. exists (nth j SL []). split; [apply nth_In; exact Hj|exact Hin].
  Qed.

  Lemma slot_cases j : j < L ->
    (j < pos /\ nth j SL [] = [j]) \/
    (pos <= j < pos + m /\ nth j SL [] = nth (j - pos) groups []) \/
    (pos + m <= j /\ exists a, nth j SL [] = [a] /\ In a (axes_after n groups)).
  Proof.
    clear HSING HA2G HNAX. intros Hj. pose proof SL_length as HL. unfold fused_layout in Hj, HL |- *. rewrite axes_before_seq in Hj, HL |- *.
    destruct (Nat.lt_ge_cases j pos) as [H1|H1].
    - left. split; [exact H1|]. rewrite app_nth1 by (rewrite map_length, seq_length; exact H1).
      rewrite (nth_indep _ [] [0]) by (rewrite map_length, seq_length; exact H1).
      rewrite (map_nth (fun a => [a])), seq_nth by exact H1. reflexivity.
    - right. rewrite app_nth2 by (rewrite map_length, seq_length; exact H1). rewrite map_length, seq_length.
      destruct (Nat.lt_ge_cases j (pos + m)) as [H2|H2].
      + left. split; [lia|]. rewrite app_nth1 by lia. reflexivity.
      + right. split; [exact H2|]. rewrite app_nth2 by lia.
        exists (nth (j - pos - m) (axes_after n groups) 0). split.
        * rewrite (nth_indep _ [] [0]) by (rewrite map_length; lia). now rewrite (map_nth (fun a => [a])).
        * apply nth_In. lia.
  Qed.

  Definition slot_group (j : nat) : option nat :=
    if Nat.leb pos j && Nat.ltb j (pos + m) then Some (j - pos) else None.

  Lemma slot_facts j ax : j < L -> In ax (nth j SL []) ->
    ax < n /\ group_of SL ax = Some j /\ group_of groups ax = slot_group j.
  Proof.
    intros Hj Hin. split; [exact (SL_lt j ax Hj Hin)|]. split.
    - rewrite group_of_gof. apply (gof_nodup SL 0 j ax SL_NoDup Hj Hin).
    - unfold slot_group. rewrite group_of_gof. destruct (slot_cases j Hj) as [[H1 E]|[[H1 E]|[H1 (a & E & Ha)]]].
      + assert (F : Nat.leb pos j = false) by (apply Nat.leb_gt; exact H1). rewrite F. cbn [andb].
        rewrite E in Hin. destruct Hin as [<-|[]]. apply gof_None. apply below_position_ungrouped. exact H1.
      + assert (F1 : Nat.leb pos j = true) by (apply Nat.leb_le; lia).
        assert (F2 : Nat.ltb j (pos + m) = true) by (apply Nat.ltb_lt; lia). rewrite F1, F2. cbn [andb].
        rewrite E in Hin. apply (gof_nodup groups 0 (j - pos) ax Hnd); [lia|exact Hin].
      + assert (F2 : Nat.ltb j (pos + m) = false) by (apply Nat.ltb_ge; lia). rewrite F2, andb_false_r.
        rewrite E in Hin. destruct Hin as [<-|[]]. apply In_axes_after in Ha. exact (proj2 Ha).
  Qed.

  (* sizes and signed charges of one axis *)
  Definition dsz (s : sector) (ax : nat) : nat := size_of G (nth ax ixs dflt) (nth ax s idc).
  Definition sgn (s : sector) (g : list nat) (ax : nat) : C G :=
    sign G (nth ax s idc) (negb (Bool.eqb (group_dual G ixs g) (idual G (nth ax ixs dflt)))).

  Definition p_step (s : sector) (st : sector * list nat * list sector * list sector) (ax : Z) :=
    m_place G (py_nth idc s ax) (m_entry G ixs SING A2G GD NAX ax (py_nth idc s ax)) st.

  Lemma entry_spec s j ax : j < L -> In ax (nth j SL []) ->
    m_entry G ixs SING A2G GD NAX (Z.of_nat ax) (py_nth idc s (Z.of_nat ax)) =
    (dsz s ax, option_map Z.of_nat (slot_group j),
     match slot_group j with Some k => is_singlet (nth k groups []) | None => false end,
     Z.of_nat j,
     match slot_group j with
     | Some k => if is_singlet (nth k groups []) then None else Some (sgn s (nth k groups []) ax)
     | None => None
     end).
  Proof.
    intros Hj Hin. destruct (slot_facts j ax Hj Hin) as (Hax & HS & Hg).
    unfold m_entry. cbv zeta. rewrite !py_nth_nat, (HA2G ax Hax), (HNAX ax j HS), Hg.
    unfold dsz, sgn. destruct (slot_group j) as [k|] eqn:Ek; cbn [option_map is_none g_omem g_the orb].
    - assert (Hk : k < m).
      { unfold slot_group in Ek. destruct (Nat.leb pos j && Nat.ltb j (pos + m)) eqn:E; [|discriminate].
        apply andb_true_iff in E. destruct E as [E1 E2]. apply Nat.leb_le in E1. apply Nat.ltb_lt in E2.
        inversion Ek. lia. }
      rewrite (HSING k Hk), py_nth_nat.
      rewrite (nth_indep _ false (group_dual G ixs [])) by (rewrite map_length; exact Hk).
      rewrite (map_nth (group_dual G ixs)). destruct (is_singlet (nth k groups [])); reflexivity.
    - reflexivity.
  Qed.

  (* ---- the loop over perm, slot by slot ---- *)
  Definition fusedb (j : nat) : bool :=
    match slot_group j with Some k => negb (is_singlet (nth k groups [])) | None => false end.

  Lemma slot_group_lt j k : slot_group j = Some k -> k < m /\ j = pos + k.
  Proof. clear HSING HA2G HNAX.
    unfold slot_group. destruct (Nat.leb pos j && Nat.ltb j (pos + m)) eqn:E; [|discriminate].
    apply andb_true_iff in E. destruct E as [E1 E2]. apply Nat.leb_le in E1. apply Nat.ltb_lt in E2.
    intros H. inversion H. lia.
  Qed.

  Lemma slot_group_nth j k : j < L -> slot_group j = Some k -> nth j SL [] = nth k groups [].
  Proof. clear HSING HA2G HNAX.
    intros Hj Hk. destruct (slot_group_lt j k Hk) as [Hkm ->].
    destruct (slot_cases (pos + k) Hj) as [[H1 _]|[[H1 E]|[H1 _]]]; [lia| |lia].
    rewrite E. f_equal. lia.
  Qed.

  Lemma slot_plain_single j : j < L -> fusedb j = false -> exists ax, nth j SL [] = [ax].
  Proof. clear HSING HA2G HNAX.
    intros Hj Hf. destruct (slot_cases j Hj) as [[H1 E]|[[H1 E]|[H1 (a & E & _)]]].
    - now exists j.
    - unfold fusedb in Hf. destruct (slot_group j) as [k|] eqn:Ek.
      + rewrite <- (slot_group_nth j k Hj Ek) in Hf. apply negb_false_iff in Hf.
        unfold is_singlet in Hf. apply Nat.eqb_eq in Hf.
        destruct (nth j SL []) as [|a [|b r]]; cbn [length] in Hf; try discriminate. now exists a.
      + unfold slot_group in Ek.
        assert (F1 : Nat.leb pos j = true) by (apply Nat.leb_le; lia).
        assert (F2 : Nat.ltb j (pos + m) = true) by (apply Nat.ltb_lt; lia).
        rewrite F1, F2 in Ek. discriminate.
    - now exists a.
  Qed.

  Lemma slot_fused_fold s j k : j < L -> slot_group j = Some k -> is_singlet (nth k groups []) = false ->
    forall l, incl l (nth j SL []) -> forall nsec sh ss gc,
    fold_left (p_step s) (zl l) (nsec, sh, ss, gc) =
      (nsec, g_upd_nat sh j (fun v => fold_left (fun v ax => v * dsz s ax) l v),
       g_upd_nat ss k (fun x => x ++ map (fun ax => nth ax s idc) l),
       g_upd_nat gc k (fun x => x ++ map (sgn s (nth k groups [])) l)).
  Proof.
    intros Hj Hk Hs l. induction l as [|ax l IH]; intros Hin nsec sh ss gc.
    - cbn [zl map fold_left]. rewrite g_upd_nat_id.
      rewrite (g_upd_nat_ext ss k _ (fun x => x)) by (intros; apply app_nil_r).
      rewrite (g_upd_nat_ext gc k _ (fun x => x)) by (intros; apply app_nil_r).
      now rewrite !g_upd_nat_id.
    - cbn [zl map fold_left]. fold (zl l). unfold p_step at 2.
      rewrite (entry_spec s j ax Hj (Hin ax (or_introl eq_refl))), Hk, Hs. cbn [option_map].
      unfold m_place. cbn [g_the]. rewrite !g_lupd_nat, py_nth_nat.
      rewrite IH by (intros a Ha; apply Hin; now right).
      rewrite !g_upd_nat_comp.
      rewrite (g_upd_nat_ext ss k _ (fun x => x ++ map (fun ax => nth ax s idc) (ax :: l)))
        by (intros x; cbn [map]; now rewrite <- app_assoc).
      rewrite (g_upd_nat_ext gc k _ (fun x => x ++ map (sgn s (nth k groups [])) (ax :: l)))
        by (intros x; cbn [map]; now rewrite <- app_assoc).
      reflexivity.
  Qed.

  Lemma slot_step s j : j < L -> forall nsec sh ss gc,
    fold_left (p_step s) (zl (nth j SL [])) (nsec, sh, ss, gc) =
      (if fusedb j then nsec else g_upd_nat nsec j (fun _ => nth (hd 0 (nth j SL [])) s idc),
       g_upd_nat sh j (if fusedb j then (fun v => fold_left (fun v ax => v * dsz s ax) (nth j SL []) v)
                       else (fun _ => dsz s (hd 0 (nth j SL [])))),
       match slot_group j with
       | Some k => g_upd_nat ss k (fun x => x ++ map (fun ax => nth ax s idc) (nth j SL []))
       | None => ss end,
       match slot_group j with
       | Some k => if is_singlet (nth k groups []) then gc
                   else g_upd_nat gc k (fun x => x ++ map (sgn s (nth k groups [])) (nth j SL []))
       | None => gc end).
  Proof.
    intros Hj nsec sh ss gc. destruct (fusedb j) eqn:Ef.
    - unfold fusedb in Ef. destruct (slot_group j) as [k|] eqn:Ek; [|discriminate].
      apply negb_true_iff in Ef. rewrite Ef.
      apply (slot_fused_fold s j k Hj Ek Ef (nth j SL []) (incl_refl _)).
    - destruct (slot_plain_single j Hj Ef) as [ax E]. rewrite E. cbn [zl map fold_left hd].
      unfold p_step. rewrite (entry_spec s j ax Hj) by (rewrite E; now left).
      unfold fusedb in Ef. destruct (slot_group j) as [k|] eqn:Ek; cbn [option_map].
      + apply negb_false_iff in Ef. rewrite Ef. unfold m_place. rewrite !g_lupd_nat, py_nth_nat. reflexivity.
      + unfold m_place. rewrite !g_lupd_nat, py_nth_nat. reflexivity.
  Qed.

  Lemma slot_group_None j k : slot_group j = None -> k < m -> pos + k <> j.
  Proof. clear HSING HA2G HNAX.
    unfold slot_group. intros H Hk E. subst j.
    assert (F1 : Nat.leb pos (pos + k) = true) by (apply Nat.leb_le; lia).
    assert (F2 : Nat.ltb (pos + k) (pos + m) = true) by (apply Nat.ltb_lt; lia).
    rewrite F1, F2 in H. discriminate.
  Qed.

  Ltac bd :=
    repeat match goal with
           | |- context [Nat.ltb ?a ?b] => destruct (Nat.ltb_spec a b)
           | |- context [Nat.eqb ?a ?b] => destruct (Nat.eqb_spec a b)
           | |- context [Nat.leb ?a ?b] => destruct (Nat.leb_spec a b)
           end; cbn [andb negb orb]; try lia; try reflexivity.

  (* state of the four lists after the first t slots *)
  Definition perm_inv (s nsec0 : sector) (sh1 : list nat) (t : nat)
      (st : sector * list nat * list sector * list sector) : Prop :=
    let '(nsec, sh, ss, gc) := st in
    length nsec = L /\ length sh = L /\ length ss = m /\ length gc = m /\
    (forall j, j < L -> nth j sh 0 =
       if Nat.ltb j t
       then (if fusedb j then fold_left (fun v ax => v * dsz s ax) (nth j SL []) (nth j sh1 0)
             else dsz s (hd 0 (nth j SL [])))
       else nth j sh1 0) /\
    (forall j, j < L -> nth j nsec idc =
       if Nat.ltb j t && negb (fusedb j) then nth (hd 0 (nth j SL [])) s idc else nth j nsec0 idc) /\
    (forall k, k < m -> nth k ss [] =
       if Nat.ltb (pos + k) t then map (fun ax => nth ax s idc) (nth k groups []) else []) /\
    (forall k, k < m -> nth k gc [] =
       if Nat.ltb (pos + k) t && negb (is_singlet (nth k groups []))
       then map (sgn s (nth k groups [])) (nth k groups []) else []).

  Lemma perm_inv_step s nsec0 sh1 t st : t < L -> perm_inv s nsec0 sh1 t st ->
    perm_inv s nsec0 sh1 (S t) (fold_left (p_step s) (zl (nth t SL [])) st).
  Proof.
    intros Ht. destruct st as [[[nsec sh] ss] gc]. intros (L1 & L2 & L3 & L4 & Hsh & Hns & Hss & Hgc).
    rewrite (slot_step s t Ht). unfold perm_inv.
    split; [destruct (fusedb t); [exact L1|now rewrite g_upd_nat_length]|].
    split; [now rewrite g_upd_nat_length|].
    split; [destruct (slot_group t); [now rewrite g_upd_nat_length|exact L3]|].
    split; [destruct (slot_group t) as [k|]; [destruct (is_singlet (nth k groups [])); [exact L4|now rewrite g_upd_nat_length]|exact L4]|].
    split; [|split; [|split]].
    - intros j Hj. rewrite g_upd_nat_nth by lia. rewrite (Hsh j Hj).
      destruct (Nat.eqb_spec j t) as [->|Hne].
      + assert (E1 : Nat.ltb t t = false) by (apply Nat.ltb_irrefl).
        assert (E2 : Nat.ltb t (S t) = true) by (apply Nat.ltb_lt; lia).
        rewrite E1, E2. destruct (fusedb t); reflexivity.
      + bd.
    - intros j Hj. destruct (fusedb t) eqn:Ef.
      + rewrite (Hns j Hj). destruct (Nat.eqb_spec j t) as [->|Hne].
        * rewrite Ef. cbn [negb]. now rewrite !andb_false_r.
        * bd.
      + rewrite g_upd_nat_nth by lia. rewrite (Hns j Hj).
        destruct (Nat.eqb_spec j t) as [->|Hne].
        * assert (E2 : Nat.ltb t (S t) = true) by (apply Nat.ltb_lt; lia). rewrite E2, Ef. reflexivity.
        * bd.
    - intros k Hk. destruct (slot_group t) as [k0|] eqn:Eg.
      + destruct (slot_group_lt t k0 Eg) as [Hk0 ->]. rewrite g_upd_nat_nth by lia. rewrite (Hss k Hk).
        destruct (Nat.eqb_spec k k0) as [->|Hne].
        * rewrite (slot_group_nth (pos + k0) k0 Ht Eg). bd.
        * bd.
      + rewrite (Hss k Hk). pose proof (slot_group_None t k Eg Hk). bd.
    - intros k Hk. destruct (slot_group t) as [k0|] eqn:Eg.
      + destruct (slot_group_lt t k0 Eg) as [Hk0 ->].
        destruct (is_singlet (nth k0 groups [])) eqn:Es.
        * rewrite (Hgc k Hk). destruct (Nat.eqb_spec k k0) as [->|Hne].
          -- rewrite Es. cbn [negb]. now rewrite !andb_false_r.
          -- bd.
        * rewrite g_upd_nat_nth by lia. rewrite (Hgc k Hk).
          destruct (Nat.eqb_spec k k0) as [->|Hne].
          -- rewrite Es, (slot_group_nth (pos + k0) k0 Ht Eg). bd.
          -- bd.
      + rewrite (Hgc k Hk). pose proof (slot_group_None t k Eg Hk). bd.
  Qed.

  Lemma perm_inv_fold s nsec0 sh1 : forall rest done st, SL = done ++ rest ->
    perm_inv s nsec0 sh1 (length done) st ->
    perm_inv s nsec0 sh1 L (fold_left (fun acc g => fold_left (p_step s) (zl g) acc) rest st).
  Proof.
    induction rest as [|g rest IH]; intros done st E H.
    - rewrite app_nil_r in E. cbn [fold_left]. rewrite E. exact H.
    - cbn [fold_left]. apply (IH (done ++ [g])).
      + rewrite <- app_assoc. exact E.
      + rewrite app_length. cbn [length]. rewrite Nat.add_1_r.
        assert (Eg : g = nth (length done) SL []) by (rewrite E, app_nth2, Nat.sub_diag by lia; reflexivity).
        rewrite Eg. apply perm_inv_step; [rewrite E, app_length; cbn [length]; lia|exact H].
  Qed.

  (* ---- the memo table `lookup` is unobservable ---- *)
  Lemma zc_eqb_spec : eqb_spec_on (pair_eqb Z.eqb (ceqb G)).
  Proof.
    intros [a1 c1] [a2 c2]. unfold pair_eqb. cbn [fst snd]. rewrite andb_true_iff, Z.eqb_eq, (Hceq c1 c2).
    split; [intros [-> ->]; reflexivity|intros H; inversion H; split; reflexivity].
  Qed.

  Definition lk_valid (lk : list (Z * C G * entry G)) : Prop :=
    forall ax c v, lookup (pair_eqb Z.eqb (ceqb G)) (ax, c) lk = Some v -> v = m_entry G ixs SING A2G GD NAX ax c.

  Lemma axstep_pure s lk st ax : lk_valid lk ->
    exists lk', m_axstep G ixs SING A2G GD NAX s (lk, fst (fst (fst st)), snd (fst (fst st)), snd (fst st), snd st) ax
                = (lk', fst (fst (fst (p_step s st ax))), snd (fst (fst (p_step s st ax))), snd (fst (p_step s st ax)), snd (p_step s st ax))
                /\ lk_valid lk'.
  Proof.
    intros Hv. destruct st as [[[nsec sh] ss] gc]. cbn [fst snd]. unfold m_axstep, p_step.
    destruct (lookup (pair_eqb Z.eqb (ceqb G)) (ax, py_nth idc s ax) lk) as [v|] eqn:E.
    - exists lk. split; [|exact Hv]. rewrite (Hv _ _ _ E).
      unfold m_entry, m_place. cbv zeta.
      destruct (is_none (dget Z.eqb None A2G ax) || g_omem Z.eqb (dget Z.eqb None A2G ax) SING); reflexivity.
    - exists (dset (pair_eqb Z.eqb (ceqb G)) (ax, py_nth idc s ax)
                (m_entry G ixs SING A2G GD NAX ax (py_nth idc s ax)) lk). split.
      + unfold m_entry, m_place. cbv zeta.
        destruct (is_none (dget Z.eqb None A2G ax) || g_omem Z.eqb (dget Z.eqb None A2G ax) SING); reflexivity.
      + intros ax' c' v'. rewrite (lookup_dset _ zc_eqb_spec).
        destruct (pair_eqb Z.eqb (ceqb G) (ax', c') (ax, py_nth idc s ax)) eqn:E2.
        * apply zc_eqb_spec in E2. inversion E2; subst. intros H. inversion H. reflexivity.
        * apply Hv.
  Qed.

  Lemma axfold_pure s : forall l lk nsec sh ss gc, lk_valid lk ->
    exists lk', fold_left (m_axstep G ixs SING A2G GD NAX s) l (lk, nsec, sh, ss, gc) =
                (lk', fst (fst (fst (fold_left (p_step s) l (nsec, sh, ss, gc)))),
                 snd (fst (fst (fold_left (p_step s) l (nsec, sh, ss, gc)))),
                 snd (fst (fold_left (p_step s) l (nsec, sh, ss, gc))),
                 snd (fold_left (p_step s) l (nsec, sh, ss, gc))) /\ lk_valid lk'.
  Proof.
    induction l as [|ax l IH]; intros lk nsec sh ss gc Hv.
    - exists lk. split; [reflexivity|exact Hv].
    - cbn [fold_left]. destruct (axstep_pure s lk (nsec, sh, ss, gc) ax Hv) as (lk1 & E1 & Hv1).
      cbn [fst snd] in E1. rewrite E1.
      destruct (p_step s (nsec, sh, ss, gc) ax) as [[[nsec1 sh1] ss1] gc1]. cbn [fst snd].
      apply (IH lk1 nsec1 sh1 ss1 gc1 Hv1).
  Qed.

  (* ---- the reset loop ---- *)
  Lemma zrange_m : zrange NG = zl (seq 0 m).
  Proof. apply zrange_nat. Qed.

  Lemma reset_fold sh ss gc : length sh = L -> length ss = m -> length gc = m ->
    forall t, t <= m ->
    exists sh' ss' gc', fold_left (m_reset G POS) (zl (seq 0 t)) (sh, ss, gc) = (sh', ss', gc') /\
      length sh' = L /\ length ss' = m /\ length gc' = m /\
      (forall j, j < L -> nth j sh' 0 = if Nat.leb pos j && Nat.ltb j (pos + t) then 1 else nth j sh 0) /\
      (forall k, k < m -> nth k ss' [] = if Nat.ltb k t then [] else nth k ss []) /\
      (forall k, k < m -> nth k gc' [] = if Nat.ltb k t then [] else nth k gc []).
  Proof.
    intros L1 L2 L3. pose proof SL_length as HL. induction t as [|t IH]; intros Ht.
    - exists sh, ss, gc. cbn [seq zl map fold_left]. repeat split; try assumption.
      + intros j Hj. bd.
    - destruct (IH ltac:(lia)) as (sh' & ss' & gc' & E & M1 & M2 & M3 & P1 & P2 & P3).
      rewrite seq_S. unfold zl in *. rewrite map_app, fold_left_app, E. cbn [map fold_left Nat.add].
      unfold m_reset. rewrite zadd_nat, !g_lupd_nat.
      eexists _, _, _. split; [reflexivity|]. rewrite !g_upd_nat_length.
      split; [exact M1|]. split; [exact M2|]. split; [exact M3|]. split; [|split].
      + intros j Hj. rewrite g_upd_nat_nth by lia. rewrite (P1 j Hj). bd.
      + intros k Hk. rewrite g_upd_nat_nth by lia. rewrite (P2 k Hk). bd.
      + intros k Hk. rewrite g_upd_nat_nth by lia. rewrite (P3 k Hk). bd.
  Qed.

  (* ---- closed form of the four lists after the loop over perm ---- *)
  Lemma foldmul (f : nat -> nat) g v : fold_left (fun v ax => v * f ax) g v = v * nprod (map f g).
  Proof.
    revert v. induction g as [|a g IH]; intros v; cbn [fold_left map nprod fold_right]; [lia|].
    rewrite IH. unfold nprod. lia.
  Qed.

  Lemma fusedb_singlet j : j < L -> is_singlet (nth j SL []) = negb (fusedb j).
  Proof. clear HSING HA2G HNAX.
    intros Hj. destruct (fusedb j) eqn:Ef.
    - unfold fusedb in Ef. destruct (slot_group j) as [k|] eqn:Ek; [|discriminate].
      rewrite (slot_group_nth j k Hj Ek). now apply negb_true_iff in Ef.
    - destruct (slot_plain_single j Hj Ef) as [ax E]. now rewrite E.
  Qed.

  Lemma fold_left_map_zl {B} (f : B -> Z -> B) (ls : list (list nat)) (b : B) :
    fold_left (fun acc l => fold_left f l acc) (map zl ls) b =
    fold_left (fun acc g => fold_left f (zl g) acc) ls b.
  Proof. revert b. induction ls as [|l ls IH]; intros b; [reflexivity|]. cbn [map fold_left]. apply IH. Qed.

  Definition gcs (s : sector) : list sector :=
    map (fun g => if is_singlet g then [] else map (sgn s g) g) groups.

  Lemma perm_result s nsec0 sh1 : length nsec0 = L -> length sh1 = L ->
    (forall j, j < L -> fusedb j = true -> nth j sh1 0 = 1) ->
    exists nsec2,
      fold_left (p_step s) (zl (concat SL)) (nsec0, sh1, repeat [] m, repeat [] m) =
        (nsec2, map (group_size G ixs s) SL, map (group_subsector G s) groups, gcs s) /\
      length nsec2 = L /\
      forall j, j < L -> nth j nsec2 idc =
                         if fusedb j then nth j nsec0 idc else group_charge G ixs s (nth j SL []).
  Proof.
    intros L1 L2 H1. rewrite zl_concat, fold_left_concat, fold_left_map_zl.
    pose proof (perm_inv_fold s nsec0 sh1 SL [] (nsec0, sh1, repeat [] m, repeat [] m) eq_refl) as Hinv.
    cbn [length] in Hinv.
    assert (H0 : perm_inv s nsec0 sh1 0 (nsec0, sh1, repeat [] m, repeat [] m)).
    { unfold perm_inv. rewrite !repeat_length. repeat split; try assumption; try reflexivity.
      - intros k Hk. now rewrite nth_repeat.
      - intros k Hk. now rewrite nth_repeat. }
    specialize (Hinv H0). clear H0.
    destruct (fold_left _ SL _) as [[[nsec2 sh2] ss2] gc2].
    destruct Hinv as (M1 & M2 & M3 & M4 & P1 & P2 & P3 & P4).
    exists nsec2. split; [|split; [exact M1|]].
    - f_equal; [f_equal; [f_equal|]|].
      + apply (nth_ext1 _ _ 0); [now rewrite map_length|]. intros j Hj. rewrite M2 in Hj.
        rewrite (P1 j Hj). assert (E : Nat.ltb j L = true) by (apply Nat.ltb_lt; exact Hj). rewrite E.
        rewrite (nth_indep (map (group_size G ixs s) SL) 0 (group_size G ixs s [])) by (now rewrite map_length).
        rewrite (map_nth (group_size G ixs s)).
        destruct (fusedb j) eqn:Ef.
        * rewrite (H1 j Hj Ef), foldmul. unfold group_size, dsz. lia.
        * destruct (slot_plain_single j Hj Ef) as [ax E2]. rewrite E2. cbn [hd].
          unfold group_size, dsz. cbn [map nprod fold_right]. lia.
      + apply (nth_ext1 _ _ []); [now rewrite map_length|]. intros k Hk. rewrite M3 in Hk.
        rewrite (P3 k Hk). pose proof SL_length as HL.
        assert (E : Nat.ltb (pos + k) L = true) by (apply Nat.ltb_lt; lia). rewrite E.
        rewrite (nth_indep (map (group_subsector G s) groups) [] (group_subsector G s [])) by (now rewrite map_length).
        now rewrite (map_nth (group_subsector G s)).
      + apply (nth_ext1 _ _ []); [unfold gcs; now rewrite map_length|]. intros k Hk. rewrite M4 in Hk.
        rewrite (P4 k Hk). pose proof SL_length as HL.
        assert (E : Nat.ltb (pos + k) L = true) by (apply Nat.ltb_lt; lia). rewrite E. cbn [andb].
        unfold gcs.
        rewrite (nth_indep (map (fun g => if is_singlet g then [] else map (sgn s g) g) groups) [] ((fun g => if is_singlet g then [] else map (sgn s g) g) [])) by (now rewrite map_length).
        rewrite (map_nth (fun g => if is_singlet g then [] else map (sgn s g) g)).
        destruct (is_singlet (nth k groups [])); reflexivity.
    - intros j Hj. rewrite (P2 j Hj).
      assert (E : Nat.ltb j L = true) by (apply Nat.ltb_lt; exact Hj). rewrite E. cbn [andb].
      destruct (fusedb j) eqn:Ef; cbn [negb]; [reflexivity|].
      unfold group_charge. rewrite (fusedb_singlet j Hj), Ef. reflexivity.
  Qed.

  (* ---- the loop that closes the fused groups of one sector ---- *)
  Lemma close_fold (sh2 : list nat) (ss2 gc2 : list sector) nsec si : length nsec = L -> length si = m ->
    forall t, t <= m ->
    exists nsec' si', fold_left (m_close G POS SING sh2 ss2 gc2) (zl (seq 0 t)) (nsec, si) = (nsec', si') /\
      length nsec' = L /\ length si' = m /\
      (forall j, j < L -> nth j nsec' idc =
         match slot_group j with
         | Some k => if Nat.ltb k t && negb (is_singlet (nth k groups [])) then combine G (nth k gc2 [])
                     else nth j nsec idc
         | None => nth j nsec idc end) /\
      (forall k, k < m -> nth k si' [] =
         if Nat.ltb k t && negb (is_singlet (nth k groups []))
         then dset keq (nth k ss2 []) (combine G (nth k gc2 []), nth (pos + k) sh2 0) (nth k si [])
         else nth k si []).
  Proof.
    intros L1 L2. pose proof SL_length as HL. induction t as [|t IH]; intros Ht.
    - exists nsec, si. cbn [seq zl map fold_left]. repeat split; try assumption.
      intros j Hj. destruct (slot_group j); reflexivity.
    - destruct (IH ltac:(lia)) as (nsec' & si' & E & M1 & M2 & P1 & P2).
      rewrite seq_S. unfold zl in *. rewrite map_app, fold_left_app, E. cbn [map fold_left Nat.add].
      unfold m_close. rewrite let_pair_eta, (HSING t) by lia.
      destruct (is_singlet (nth t groups [])) eqn:Es; cbn [negb].
      + exists nsec', si'. split; [reflexivity|]. split; [exact M1|]. split; [exact M2|]. split.
        * intros j Hj. rewrite (P1 j Hj). destruct (slot_group j) as [k|] eqn:Ek; [|reflexivity].
          destruct (Nat.eqb_spec k t) as [->|Hne]; [rewrite Es; cbn [negb]; now rewrite !andb_false_r|bd].
        * intros k Hk. rewrite (P2 k Hk).
          destruct (Nat.eqb_spec k t) as [->|Hne]; [rewrite Es; cbn [negb]; now rewrite !andb_false_r|bd].
      + rewrite zadd_nat, !g_lupd_nat, !py_nth_nat.
        eexists _, _. split; [reflexivity|]. rewrite !g_upd_nat_length.
        split; [exact M1|]. split; [exact M2|]. split.
        * intros j Hj. rewrite g_upd_nat_nth by lia. rewrite (P1 j Hj).
          destruct (slot_group j) as [k|] eqn:Ek.
          -- destruct (slot_group_lt j k Ek) as [Hk ->].
             destruct (Nat.eqb_spec k t) as [->|Hne]; [rewrite Es; bd|bd].
          -- pose proof (slot_group_None j t Ek ltac:(lia)). bd.
        * intros k Hk. rewrite g_upd_nat_nth by lia. rewrite (P2 k Hk).
          destruct (Nat.eqb_spec k t) as [->|Hne]; [rewrite Es; bd|bd].
  Qed.

  (* ---- one pass of the loop over the stored sectors ---- *)
  Definition bm_entry (s : sector) : bm_val G :=
    (map (group_size G ixs s) SL, map (group_charge G ixs s) SL, map (group_subsector G s) groups).
  Definition si_upd (s : sector) (p : list nat * list (sector * (C G * nat))) : list (sector * (C G * nat)) :=
    if is_singlet (fst p) then snd p
    else dset keq (group_subsector G s (fst p)) (group_charge G ixs s (fst p), group_size G ixs s (fst p)) (snd p).
  Definition si_step (s : sector) (si : list (list (sector * (C G * nat)))) := map (si_upd s) (List.combine groups si).

  Definition st_ok (st : m_state G) : Prop :=
    let '(sh, ss, gc, lk, nsec, si, bm) := st in
    length sh = L /\ length ss = m /\ length gc = m /\ lk_valid lk /\ length nsec = L /\ length si = m.

  Lemma all_nil_repeat (l : list sector) : length l = m -> (forall k, k < m -> nth k l [] = []) -> l = repeat [] m.
  Proof.
    intros Hl H. apply (nth_ext1 _ _ []); [now rewrite repeat_length|].
    intros k Hk. rewrite Hl in Hk. now rewrite (H k Hk), nth_repeat.
  Qed.

  Lemma si_step_length s si : length si = m -> length (si_step s si) = m.
  Proof. intros H. unfold si_step. rewrite map_length, combine_length, H. lia. Qed.

  Lemma sector_spec sh ss gc lk nsec si bm s : st_ok (sh, ss, gc, lk, nsec, si, bm) ->
    exists sh' ss' gc' lk' nsec',
      m_sector G ixs NG POS SING (zl (concat SL)) A2G GD NAX (sh, ss, gc, lk, nsec, si, bm) s =
        (sh', ss', gc', lk', nsec', si_step s si, dset keq s (bm_entry s) bm) /\
      st_ok (sh', ss', gc', lk', nsec', si_step s si, dset keq s (bm_entry s) bm).
  Proof.
    intros (L1 & L2 & L3 & Hv & L5 & L6). pose proof SL_length as HL.
    unfold m_sector. rewrite zrange_m.
    destruct (reset_fold sh ss gc L1 L2 L3 m (le_n _)) as (sh1 & ss1 & gc1 & E1 & M1 & M2 & M3 & P1 & P2 & P3).
    rewrite E1.
    assert (Es : ss1 = repeat [] m).
    { apply all_nil_repeat; [exact M2|]. intros k Hk. rewrite (P2 k Hk). bd. }
    assert (Eg : gc1 = repeat [] m).
    { apply all_nil_repeat; [exact M3|]. intros k Hk. rewrite (P3 k Hk). bd. }
    subst ss1 gc1.
    destruct (axfold_pure s (zl (concat SL)) lk nsec sh1 (repeat [] m) (repeat [] m) Hv) as (lk2 & E2 & Hv2).
    rewrite E2.
    assert (H1 : forall j, j < L -> fusedb j = true -> nth j sh1 0 = 1).
    { intros j Hj Hf. rewrite (P1 j Hj). unfold fusedb in Hf.
      destruct (slot_group j) as [k|] eqn:Ek; [|discriminate].
      destruct (slot_group_lt j k Ek) as [Hk ->]. bd. }
    destruct (perm_result s nsec sh1 L5 M1 H1) as (nsec2 & E3 & M5 & P5).
    rewrite E3. cbn [fst snd].
    destruct (close_fold (map (group_size G ixs s) SL) (map (group_subsector G s) groups) (gcs s) nsec2 si M5 L6 m (le_n _))
      as (nsec3 & si3 & E4 & M6 & M7 & P6 & P7).
    rewrite E4.
    assert (En : nsec3 = map (group_charge G ixs s) SL).
    { apply (nth_ext1 _ _ idc); [now rewrite map_length|]. intros j Hj. rewrite M6 in Hj.
      rewrite (nth_indep (map (group_charge G ixs s) SL) idc (group_charge G ixs s [])) by (now rewrite map_length).
      rewrite (map_nth (group_charge G ixs s)), (P6 j Hj).
      destruct (slot_group j) as [k|] eqn:Ek.
      - destruct (slot_group_lt j k Ek) as [Hk Ej].
        assert (E : Nat.ltb k m = true) by (apply Nat.ltb_lt; exact Hk). rewrite E. cbn [andb].
        rewrite (slot_group_nth j k Hj Ek).
        destruct (is_singlet (nth k groups [])) eqn:Esg; cbn [negb].
        + rewrite (P5 j Hj). unfold fusedb. rewrite Ek, Esg. cbn [negb].
          now rewrite (slot_group_nth j k Hj Ek).
        + unfold gcs.
          rewrite (nth_indep (map (fun g => if is_singlet g then [] else map (sgn s g) g) groups) []
                     ((fun g => if is_singlet g then [] else map (sgn s g) g) [])) by (now rewrite map_length).
          rewrite (map_nth (fun g => if is_singlet g then [] else map (sgn s g) g)), Esg.
          unfold group_charge. now rewrite Esg.
      - rewrite (P5 j Hj). unfold fusedb. now rewrite Ek. }
    assert (Esi : si3 = si_step s si).
    { apply (nth_ext1 _ _ []); [now rewrite si_step_length|]. intros k Hk. rewrite M7 in Hk.
      unfold si_step.
      rewrite (nth_indep (map (si_upd s) (List.combine groups si)) [] (si_upd s ([], [])))
        by (rewrite map_length, combine_length, L6; lia).
      rewrite (map_nth (si_upd s)), combine_nth by (now rewrite L6).
      rewrite (P7 k Hk). assert (E : Nat.ltb k m = true) by (apply Nat.ltb_lt; exact Hk). rewrite E. cbn [andb].
      unfold si_upd. cbn [fst snd]. destruct (is_singlet (nth k groups [])) eqn:Esg; cbn [negb]; [reflexivity|].
      assert (Hpk : pos + k < L) by lia.
      assert (Eslot : nth (pos + k) SL [] = nth k groups []).
      { destruct (slot_cases (pos + k) Hpk) as [[H _]|[[_ E0]|[H _]]]; [lia| |lia]. rewrite E0. f_equal. lia. }
      rewrite (nth_indep (map (group_size G ixs s) SL) 0 (group_size G ixs s [])) by (now rewrite map_length).
      rewrite (map_nth (group_size G ixs s)), Eslot.
      rewrite (nth_indep (map (group_subsector G s) groups) [] (group_subsector G s [])) by (now rewrite map_length).
      rewrite (map_nth (group_subsector G s)).
      unfold gcs.
      rewrite (nth_indep (map (fun g => if is_singlet g then [] else map (sgn s g) g) groups) []
                 ((fun g => if is_singlet g then [] else map (sgn s g) g) [])) by (now rewrite map_length).
      rewrite (map_nth (fun g => if is_singlet g then [] else map (sgn s g) g)), Esg.
      unfold group_charge. now rewrite Esg. }
    subst nsec3 si3.
    eexists _, _, _, _, _. split; [reflexivity|].
    unfold st_ok. rewrite !map_length. unfold gcs. rewrite map_length.
    repeat split; try reflexivity; try assumption; now apply si_step_length.
  Qed.

  (* ---- the loop over all stored sectors ---- *)
  Definition sub_entry (g : list nat) (acc : list (sector * (C G * nat))) (s : sector) :=
    dset keq (group_subsector G s g) (group_charge G ixs s g, group_size G ixs s g) acc.

  Lemma sectors_fold : forall secs sh ss gc lk nsec si bm, st_ok (sh, ss, gc, lk, nsec, si, bm) ->
    exists sh' ss' gc' lk' nsec',
      fold_left (m_sector G ixs NG POS SING (zl (concat SL)) A2G GD NAX) secs (sh, ss, gc, lk, nsec, si, bm) =
        (sh', ss', gc', lk', nsec', fold_left (fun si s => si_step s si) secs si,
         fold_left (fun bm s => dset keq s (bm_entry s) bm) secs bm).
  Proof.
    induction secs as [|s secs IH]; intros sh ss gc lk nsec si bm Hok0.
    - now exists sh, ss, gc, lk, nsec.
    - cbn [fold_left].
      destruct (sector_spec sh ss gc lk nsec si bm s Hok0) as (sh' & ss' & gc' & lk' & nsec' & E & Hok1).
      rewrite E. apply (IH _ _ _ _ _ _ _ Hok1).
  Qed.

  Lemma si_step_nth s si k : length si = m -> k < m ->
    nth k (si_step s si) [] = si_upd s (nth k groups [], nth k si []).
  Proof.
    intros Hl Hk. unfold si_step.
    rewrite (nth_indep (map (si_upd s) (List.combine groups si)) [] (si_upd s ([], [])))
      by (rewrite map_length, combine_length, Hl; lia).
    now rewrite (map_nth (si_upd s)), combine_nth by (now rewrite Hl).
  Qed.

  Lemma si_fold_nth : forall secs si k, length si = m -> k < m ->
    nth k (fold_left (fun si s => si_step s si) secs si) [] =
    if is_singlet (nth k groups []) then nth k si []
    else fold_left (sub_entry (nth k groups [])) secs (nth k si []).
  Proof.
    induction secs as [|s secs IH]; intros si k Hl Hk; cbn [fold_left].
    - now destruct (is_singlet (nth k groups [])).
    - rewrite (IH (si_step s si) k (si_step_length s si Hl) Hk), (si_step_nth s si k Hl Hk).
      unfold si_upd, sub_entry. cbn [fst snd]. now destruct (is_singlet (nth k groups [])).
  Qed.

  (* ---- the second half: sorted traversal of the sub-sector dict into charge table and extents ---- *)
  Lemma dhas_dset {V} c c' (v : V) d :
    dhas (ceqb G) c' (dset (ceqb G) c v d) = ceqb G c' c || dhas (ceqb G) c' d.
  Proof. unfold dhas. rewrite (lookup_dset _ Hceq). now destruct (ceqb G c' c). Qed.

  Lemma table_step cm ext ss c d : (forall c', dhas (ceqb G) c' cm = dhas (ceqb G) c' ext) ->
    m_table G (cm, ext) (ss, (c, d)) = (cm_add G cm c d, ext_add G ext c ss d) /\
    (forall c', dhas (ceqb G) c' (cm_add G cm c d) = dhas (ceqb G) c' (ext_add G ext c ss d)).
  Proof.
    intros Hk. unfold m_table. rewrite let_pair_eta. unfold cm_add, ext_add.
    pose proof (Hk c) as Hc. unfold dhas in Hc |- *.
    destruct (lookup (ceqb G) c cm) as [d0|] eqn:E1; destruct (lookup (ceqb G) c ext) as [e|] eqn:E2; try discriminate;
      cbn [negb].
    - unfold g_dupd. rewrite E1, E2. split; [reflexivity|].
      intros c'. fold (dhas (ceqb G) c' (dset (ceqb G) c (d0 + d) cm)).
      fold (dhas (ceqb G) c' (dset (ceqb G) c (dset keq ss d e) ext)).
      rewrite !dhas_dset. now rewrite (Hk c').
    - assert (A1 : dset (ceqb G) c d cm = cm ++ [(c, d)]).
      { apply (keys_dset_notin _ Hceq). now apply (lookup_None_iff _ Hceq). }
      assert (A2 : dset (ceqb G) c [(ss, d)] ext = ext ++ [(c, [(ss, d)])]).
      { apply (keys_dset_notin _ Hceq). now apply (lookup_None_iff _ Hceq). }
      rewrite <- A1, <- A2. split; [reflexivity|].
      intros c'. fold (dhas (ceqb G) c' (dset (ceqb G) c d cm)).
      fold (dhas (ceqb G) c' (dset (ceqb G) c [(ss, d)] ext)).
      rewrite !dhas_dset. now rewrite (Hk c').
  Qed.

  Lemma table_fold : forall items cm ext, (forall c', dhas (ceqb G) c' cm = dhas (ceqb G) c' ext) ->
    fold_left (m_table G) items (cm, ext) =
    (fold_left (fun cm p => cm_add G cm (fst (snd p)) (snd (snd p))) items cm,
     fold_left (fun e p => ext_add G e (fst (snd p)) (fst p) (snd (snd p))) items ext).
  Proof.
    induction items as [|[ss [c d]] items IH]; intros cm ext Hk; [reflexivity|].
    cbn [fold_left fst snd]. destruct (table_step cm ext ss c d Hk) as [E Hk']. rewrite E. apply IH. exact Hk'.
  Qed.

  Definition tab_cm (d : list (sector * (C G * nat))) : list (C G * nat) :=
    fold_left (fun cm p => cm_add G cm (fst (snd p)) (snd (snd p)))
      (isort (fun a b => list_ltb (cltb G) (ceqb G) (fst a) (fst b)) d) [].
  Definition tab_ext (d : list (sector * (C G * nat))) : list (C G * list (sector * nat)) :=
    fold_left (fun e p => ext_add G e (fst (snd p)) (fst p) (snd (snd p)))
      (isort (fun a b => list_ltb (cltb G) (ceqb G) (fst a) (fst b)) d) [].

  Lemma tables_fold si : forall l cms exts, Forall (fun k => k < m) l ->
    fold_left (m_tables G SING si) (zl l) (cms, exts) =
    (cms ++ map (fun k => if is_singlet (nth k groups []) then None else Some (tab_cm (nth k si []))) l,
     exts ++ map (fun k => if is_singlet (nth k groups []) then None else Some (tab_ext (nth k si []))) l).
  Proof.
    induction l as [|k l IH]; intros cms exts Hl; cbn [zl map fold_left]; [now rewrite !app_nil_r|].
    inversion Hl as [|? ? Hk Hl']; subst. fold (zl l). unfold m_tables at 2.
    rewrite let_pair_eta, (HSING k Hk), py_nth_nat.
    destruct (is_singlet (nth k groups [])); cbn [negb].
    - rewrite (IH _ _ Hl'), <- !app_assoc. reflexivity.
    - unfold g_sorted_items. rewrite table_fold by reflexivity.
      rewrite (IH _ _ Hl'), <- !app_assoc. reflexivity.
  Qed.

  (* ---- the new index of one group ---- *)
  Lemma nth_map_nil {A B} (l : list A) k : nth k (map (fun _ : A => @nil B) l) [] = [].
  Proof. revert k. induction l as [|a l IH]; intros [|k]; cbn [map nth]; auto. Qed.

  Lemma newindex_spec secs si cms exts k : k < m ->
    (forall k, k < m -> nth k si [] = if is_singlet (nth k groups []) then []
                                     else fold_left (sub_entry (nth k groups [])) secs []) ->
    cms = map (fun k => if is_singlet (nth k groups []) then None else Some (tab_cm (nth k si []))) (seq 0 m) ->
    exts = map (fun k => if is_singlet (nth k groups []) then None else Some (tab_ext (nth k si []))) (seq 0 m) ->
    m_newindex G ixs (zg groups) SING GD cms exts (Z.of_nat k) = fused_index G ixs secs (nth k groups []).
  Proof.
    intros Hk Hsi -> ->. unfold m_newindex, fused_index. rewrite (HSING k Hk), !py_nth_nat.
    assert (Eg : nth k (zg groups) [] = zl (nth k groups [])) by (unfold zg; exact (map_nth zl groups [] k)).
    rewrite Eg. destruct (is_singlet (nth k groups [])) eqn:Es.
    - assert (E0 : py_nth 0%Z (zl (nth k groups [])) 0%Z = Z.of_nat (hd 0 (nth k groups []))).
      { transitivity (nth 0 (zl (nth k groups [])) 0%Z); [exact (py_nth_nat 0%Z (zl (nth k groups [])) 0)|].
        destruct (nth k groups []) as [|a r]; reflexivity. }
      rewrite E0. apply py_nth_nat.
    - rewrite (nth_indep _ None ((fun k => if is_singlet (nth k groups []) then None else Some (tab_cm (nth k si []))) 0))
        by (now rewrite map_length, seq_length).
      rewrite (map_nth (fun k => if is_singlet (nth k groups []) then None else Some (tab_cm (nth k si [])))).
      rewrite (nth_indep _ None ((fun k => if is_singlet (nth k groups []) then None else Some (tab_ext (nth k si []))) 0))
        by (now rewrite map_length, seq_length).
      rewrite (map_nth (fun k => if is_singlet (nth k groups []) then None else Some (tab_ext (nth k si [])))).
      rewrite seq_nth by exact Hk. cbn [Nat.add]. rewrite Es. cbn [g_the].
      rewrite (nth_indep GD false (group_dual G ixs [])) by (now rewrite map_length).
      rewrite (map_nth (group_dual G ixs)).
      rewrite (Hsi k Hk), Es. unfold tab_cm, tab_ext, group_subinfos, sub_entry, zl. rewrite map_map.
      f_equal. f_equal. f_equal. apply map_ext. intros a. apply py_nth_nat.
  Qed.

  Lemma map_py_nth_zl (l : list nat) :
    map (fun ax => py_nth dflt ixs ax) (zl l) = map (fun ax => nth ax ixs dflt) l.
  Proof. unfold zl. rewrite map_map. apply map_ext. intros a. apply py_nth_nat. Qed.

  (* ---- the whole function, on the tables of calc_fuse_group_info ---- *)
  Lemma info_spec (secs : list sector) :
    m_info G ixs (zg groups) NG (Z.of_nat L) POS SING (zl (concat SL))
      (zl (axes_before n groups)) (zl (axes_after n groups)) A2G GD NAX secs =
    (NG, SING, zl (concat SL), POS, zl (axes_before n groups), zl (axes_after n groups), NAX,
     fused_indices G ixs secs groups,
     fold_left (fun bm s => dset keq s (bm_entry s) bm) secs []).
  Proof.
    unfold m_info, m_init.
    assert (Lz : length (map (fun _ : Z => @nil (C G)) (zrange NG)) = m)
      by (now rewrite map_length, zrange_m; unfold zl; rewrite map_length, seq_length).
    assert (Hok0 : st_ok (repeat 0 (Z.to_nat (Z.of_nat L)), map (fun _ : Z => @nil (C G)) (zrange NG),
                          map (fun _ : Z => @nil (C G)) (zrange NG), @nil (Z * C G * entry G),
                          repeat idc (Z.to_nat (Z.of_nat L)),
                          map (fun _ : Z => @nil (sector * (C G * nat))) (zrange NG), @nil (sector * bm_val G))).
    { unfold st_ok. rewrite !repeat_length, Nat2Z.id. repeat split; try exact Lz.
      - intros ax c v H. discriminate H.
      - now rewrite map_length, zrange_m; unfold zl; rewrite map_length, seq_length. }
    destruct (sectors_fold secs _ _ _ _ _ _ _ Hok0) as (sh' & ss' & gc' & lk' & nsec' & E).
    rewrite E. clear E.
    set (si := fold_left (fun si s => si_step s si) secs (map (fun _ : Z => @nil (sector * (C G * nat))) (zrange NG))).
    assert (Hsi : forall k, k < m -> nth k si [] = if is_singlet (nth k groups []) then []
                                                  else fold_left (sub_entry (nth k groups [])) secs []).
    { intros k Hk. unfold si. rewrite si_fold_nth; [|now rewrite map_length, zrange_m; unfold zl; rewrite map_length, seq_length|exact Hk].
      now rewrite nth_map_nil. }
    rewrite zrange_m, (tables_fold si (seq 0 m) [] []) by (apply Forall_forall; intros k Hk; apply in_seq in Hk; lia).
    cbn [app]. unfold fused_indices. rewrite !map_py_nth_zl.
    match goal with
    | |- context [map (m_newindex G ixs (zg groups) SING GD ?c ?e) (zl (seq 0 m))] =>
        assert (Emid : map (m_newindex G ixs (zg groups) SING GD c e) (zl (seq 0 m)) =
                       map (fused_index G ixs secs) groups)
    end.
    { unfold zl. rewrite map_map.
      rewrite (map_ext_in _ (fun k => fused_index G ixs secs (nth k groups [])) (seq 0 m)).
      - now rewrite (map_nth_seq (fused_index G ixs secs) groups []).
      - intros k Hk. apply in_seq in Hk.
        apply (newindex_spec secs si); [lia|exact Hsi|reflexivity|reflexivity]. }
    rewrite Emid. reflexivity.
  Qed.
End Spec.

(* ================================================================== *)
(* 4. The theorems: the GENERATED calc_fuse_block_info on a well-formed grouping *)
Section Main.
  Context (G : Symmetry) (R : Ring) (Hceq : eqb_spec_on (ceqb G)).
  Context (x : aarray G R) (groups : list (list nat)).
  Context (Hok : groups_ok (ndim G R x) groups).
  Notation ixs := (indices G R x).
  Notation secs := (sectors G R x).
  Notation n := (length (indices G R x)).
  Notation keq := (list_eqb (ceqb G)).

  (* what the model stores for one sector *)
  Definition model_bm_entry (s : list (C G)) : list nat * list (C G) * list (list (C G)) :=
    (fused_block_shape G ixs groups s, fused_sector G ixs groups s, map (group_subsector G s) groups).

  Lemma fold_left_ext' {A B} (f g : A -> B -> A) (l : list B) (a : A) :
    (forall a b, f a b = g a b) -> fold_left f l a = fold_left g l a.
  Proof. intros H. revert a. induction l as [|b l IH]; intros a; [reflexivity|]. cbn [fold_left]. now rewrite H, IH. Qed.

  Lemma bm_entry_model s : bm_entry G ixs groups s = model_bm_entry s.
  Proof.
    unfold bm_entry, model_bm_entry.
    destruct (fuse_tables_by_slot G ixs secs groups s) as (_ & E1 & _ & E2 & _).
    unfold slots in E1, E2. unfold fused_layout. now rewrite E1, E2.
  Qed.

  Lemma duals_len : length (duals G R x) = n.
  Proof. unfold duals. apply map_length. Qed.

  Theorem gen_info_eq_model :
    gen_calc_fuse_block_info G R x (zg groups) =
    (Z.of_nat (length groups),
     zl (map fst (filter (fun p => is_singlet (snd p)) (enumerate groups))),
     zl (fuse_perm n groups), Z.of_nat (fuse_position groups),
     zl (axes_before n groups), zl (axes_after n groups),
     cfgi_new_axes (zg groups) (duals G R x),
     fused_indices G ixs secs groups,
     fold_left (fun bm s => dset keq s (model_bm_entry s) bm) secs []).
  Proof.
    rewrite gen_is_mirror. cbv zeta.
    pose proof Hok as Hok'. unfold ndim in Hok'. rewrite <- duals_len in Hok'.
    destruct Hok' as (Hne & Hrng & Hnd).
    pose proof (gen_cfgi_group_singlets groups (duals G R x)) as [HS1 HS2].
    rewrite (gen_cfgi_num_groups groups (duals G R x)), (gen_cfgi_position groups _ Hne),
      (gen_cfgi_perm groups _ Hne), (gen_cfgi_axes_before groups _ Hne), (gen_cfgi_axes_after groups _ Hne).
    rewrite (proj1 (gen_cfgi_new_ndim groups (duals G R x) (conj Hne (conj Hrng Hnd)))).
    change (cfgi_group_duals (zg groups) (duals G R x)) with (cfgi_group_duals (zg groups) (map (idual G) ixs)).
    rewrite (gen_cfgi_group_duals G ixs groups).
    rewrite duals_len. rewrite <- HS1.
    rewrite <- (concat_fused_layout n groups).
    replace (length (axes_before n groups) + length groups + length (axes_after n groups))
      with (length (fused_layout n groups))
      by (unfold fused_layout; rewrite !app_length, !map_length; lia).
    unfold ndim in Hok.
    rewrite (info_spec G Hceq ixs groups Hok (cfgi_group_singlets (zg groups) (duals G R x))
               (cfgi_ax2group (zg groups) (duals G R x)) (cfgi_new_axes (zg groups) (duals G R x))).
    - f_equal. apply fold_left_ext'. intros a b. now rewrite bm_entry_model.
    - intros k Hk. destruct (is_singlet (nth k groups [])) eqn:Es.
      + apply (mem_In Z.eqb Zeqb_spec). apply HS2. split; assumption.
      + destruct (mem Z.eqb (Z.of_nat k) (cfgi_group_singlets (zg groups) (duals G R x))) eqn:E; [|reflexivity].
        apply (mem_In Z.eqb Zeqb_spec) in E. apply HS2 in E. destruct E as [_ E]. congruence.
    - intros ax Hax. unfold dget. rewrite (gen_cfgi_ax2group groups (duals G R x) ax Hnd) by (now rewrite duals_len).
      reflexivity.
    - intros ax j Hj. unfold dget.
      destruct (gen_cfgi_new_axes groups (duals G R x) (conj Hne (conj Hrng Hnd))) as [_ H].
      rewrite (H ax), duals_len, Hj. reflexivity.
  Qed.
End Main.

(* ================================================================== *)
(* 5. Corollaries in the form Props/C05i.v restates *)
Lemma gen_cfbi_new_indices (G : Symmetry) (R : Ring) : eqb_spec_on (ceqb G) ->
  forall (x : aarray G R) (groups : list (list nat)), groups_ok (ndim G R x) groups ->
  cfbi_new_indices G R x (zg groups) = fused_indices G (indices G R x) (sectors G R x) groups.
Proof. intros Hc x groups Hok. unfold cfbi_new_indices. now rewrite (gen_info_eq_model G R Hc x groups Hok). Qed.

Lemma gen_cfbi_blockmap (G : Symmetry) (R : Ring) : eqb_spec_on (ceqb G) ->
  forall (x : aarray G R) (groups : list (list nat)), groups_ok (ndim G R x) groups ->
  cfbi_blockmap G R x (zg groups) =
  fold_left (fun bm s => dset (list_eqb (ceqb G)) s (model_bm_entry G R x groups s) bm) (sectors G R x) [].
Proof. intros Hc x groups Hok. unfold cfbi_blockmap. now rewrite (gen_info_eq_model G R Hc x groups Hok). Qed.

(* a dict filled with pairwise distinct keys lists them in order *)
Lemma fold_dset_nodup {K V} (e : K -> K -> bool) (He : eqb_spec_on e) (f : K -> V) : forall l acc,
  NoDup l -> (forall k, In k l -> ~ In k (map fst acc)) ->
  fold_left (fun d k => dset e k (f k) d) l acc = acc ++ map (fun k => (k, f k)) l.
Proof.
  induction l as [|k l IH]; intros acc Hnd Hdis; cbn [fold_left map]; [now rewrite app_nil_r|].
  inversion Hnd as [|? ? Hk Hnd']; subst.
  rewrite (keys_dset_notin e He) by (apply Hdis; now left).
  rewrite IH; [now rewrite <- app_assoc|exact Hnd'|].
  intros k' Hk' Hin. rewrite map_app, in_app_iff in Hin. destruct Hin as [Hin|Hin].
  - apply (Hdis k'); [now right|exact Hin].
  - cbn [map fst In] in Hin. destruct Hin as [<-|[]]. contradiction.
Qed.

Lemma gen_cfbi_blockmap_nodup (G : Symmetry) (R : Ring) : eqb_spec_on (ceqb G) ->
  forall (x : aarray G R) (groups : list (list nat)), groups_ok (ndim G R x) groups -> NoDup (sectors G R x) ->
  cfbi_blockmap G R x (zg groups) = map (fun s => (s, model_bm_entry G R x groups s)) (sectors G R x).
Proof.
  intros Hc x groups Hok Hnd. rewrite (gen_cfbi_blockmap G R Hc x groups Hok).
  rewrite (fold_dset_nodup _ (list_eqb_spec _ Hc) (model_bm_entry G R x groups) (sectors G R x) [] Hnd); [reflexivity|].
  intros k _ [].
Qed.

(* the index the generated function puts at the position of group number k *)
Lemma gen_cfbi_group_index (G : Symmetry) (R : Ring) : eqb_spec_on (ceqb G) ->
  forall (x : aarray G R) (groups : list (list nat)) (k : nat), groups_ok (ndim G R x) groups -> k < length groups ->
  nth (fuse_position groups + k) (cfbi_new_indices G R x (zg groups)) (dflt_index G) =
  fused_index G (indices G R x) (sectors G R x) (nth k groups []).
Proof.
  intros Hc x groups k Hok Hk. rewrite (gen_cfbi_new_indices G R Hc x groups Hok).
  destruct (fuse_tables_by_slot G (indices G R x) (sectors G R x) groups []) as (_ & _ & E & _).
  rewrite E. unfold ndim in Hok. pose proof (SL_length G (indices G R x) groups) as HL.
  change (slots (length (indices G R x)) groups) with (fused_layout (length (indices G R x)) groups).
  assert (Hj : fuse_position groups + k < length (fused_layout (length (indices G R x)) groups)) by lia.
  rewrite (nth_indep _ (dflt_index G) (fused_index G (indices G R x) (sectors G R x) [])) by (now rewrite map_length).
  rewrite (map_nth (fused_index G (indices G R x) (sectors G R x))).
  destruct (slot_cases G (indices G R x) groups _ Hj) as [[H _]|[[_ E0]|[H _]]]; [lia| |lia].
  rewrite E0. do 2 f_equal. lia.
Qed.

(* the table-partition theorem of Props/C05.v (C05_fused_extents_partition), for the GENERATED tables *)
Lemma gen_extents_partition (G : Symmetry) (R : Ring) : GroupLaws G -> OrderLaws G ->
  forall (x : aarray G R) (groups : list (list nat)) (k : nat),
  groups_ok (ndim G R x) groups -> k < length groups ->
  let ixs := indices G R x in
  let secs := sectors G R x in
  let g := nth k groups [] in
  let fi := nth (fuse_position groups + k) (cfbi_new_indices G R x (zg groups)) (dflt_index G) in
  tables_ok G ixs -> secs_in_tables G ixs secs g -> is_singlet g = false ->
  forall c d, In (c, d) (chargemap G fi) ->
    size_of G fi c = d /\
    exists subs ext e, isub G fi = Some (subs, ext) /\
      lookup (ceqb G) c ext = Some e /\
      nsum (map snd e) = d /\
      Sorted.StronglySorted (ltP (list_ltb (cltb G) (ceqb G))) (map fst e) /\ NoDup (map fst e) /\
      Forall (fun p => exists s, In s secs /\ fst p = group_subsector G s g /\
                                 snd p = subsizes_product G ixs g s /\
                                 signed_combination G ixs g s = c) e.
Proof.
  intros HG HO x groups k Hok Hk ixs secs g fi. subst fi.
  rewrite (gen_cfbi_group_index G R (ceqb_spec G HG) x groups k Hok Hk).
  intros Ht Hs Hsg c d Hin. exact (stmt_A3 G HG HO ixs secs g Ht Hs Hsg c d Hin).
Qed.

(* ---- the hypotheses hold on a non-trivial instance, and the generated function computes what the
        implementation returns there (U1, rank 4, groups (3,1) and (2): a non-increasing group with
        mixed directions, a single-axis group, a kept axis before, two stored sectors merging into one
        fused sector; the expected tables are the output of calc_fuse_block_info of the pinned tree) ---- *)
From SV Require Import Model.SymInst Proofs.SymLaws.
Local Open Scope Z_scope.
Definition ex_x : aarray U1 ZRing :=
  mkA U1 ZRing
    [Index U1 [((-2), 1%nat); (0, 1%nat); (2, 2%nat)] true None;
     Index U1 [(0, 1%nat); (1, 2%nat); (2, 1%nat)] false None;
     Index U1 [((-1), 2%nat); (0, 2%nat); (2, 2%nat)] true None;
     Index U1 [(0, 1%nat); (2, 1%nat)] true None] (-2)
    [([0; 0; 2; 0], (@mkT ZRing [1%nat; 1%nat; 2%nat; 1%nat] [0; 0]));
     ([0; 0; 0; 2], (@mkT ZRing [1%nat; 1%nat; 2%nat; 1%nat] [(-2); (-1)]));
     ([2; 1; (-1); 2], (@mkT ZRing [2%nat; 2%nat; 2%nat; 1%nat] [0; 0; 3; (-1); (-3); 0; 0; 0]));
     ([2; 2; 2; 0], (@mkT ZRing [2%nat; 1%nat; 2%nat; 1%nat] [0; 2; 2; 0]));
     ([0; 2; 2; 2], (@mkT ZRing [1%nat; 1%nat; 2%nat; 1%nat] [(-3); 3]))].
Definition ex_groups : list (list nat) := [[3%nat; 1%nat]; [2%nat]].

Example ex_groups_ok : groups_ok (ndim U1 ZRing ex_x) ex_groups.
Proof.
  split; [repeat constructor; discriminate|]. split; [repeat constructor|].
  cbn [ex_groups concat app]. repeat constructor; cbn [In]; intuition discriminate.
Qed.

Example ex_gen_info :
  gen_calc_fuse_block_info U1 ZRing ex_x (zg ex_groups) =
  (2, [1], [0; 3; 1; 2], 1, [0], [], [(0, 0); (3, 1); (1, 1); (2, 2)],
   [Index U1 [((-2), 1%nat); (0, 1%nat); (2, 2%nat)] true None;
    Index U1 [((-2), 1%nat); (0, 2%nat); (1, 2%nat); (2, 1%nat)] true
      (Some ([Index U1 [(0, 1%nat); (2, 1%nat)] true None; Index U1 [(0, 1%nat); (1, 2%nat); (2, 1%nat)] false None],
             [(0, [([0; 0], 1%nat); ([2; 2], 1%nat)]); ((-2), [([0; 2], 1%nat)]); (2, [([2; 0], 1%nat)]);
              (1, [([2; 1], 2%nat)])]));
    Index U1 [((-1), 2%nat); (0, 2%nat); (2, 2%nat)] true None],
   [([0; 0; 2; 0], ([1%nat; 1%nat; 2%nat], [0; 0; 2], [[0; 0]; [2]]));
    ([0; 0; 0; 2], ([1%nat; 1%nat; 2%nat], [0; 2; 0], [[2; 0]; [0]]));
    ([2; 1; (-1); 2], ([2%nat; 2%nat; 2%nat], [2; 1; (-1)], [[2; 1]; [(-1)]]));
    ([2; 2; 2; 0], ([2%nat; 1%nat; 2%nat], [2; (-2); 2], [[0; 2]; [2]]));
    ([0; 2; 2; 2], ([1%nat; 1%nat; 2%nat], [0; 0; 2], [[2; 2]; [2]]))]).
Proof. vm_compute. reflexivity. Qed.

Example ex_partition_hyps :
  tables_ok U1 (indices U1 ZRing ex_x) /\
  secs_in_tables U1 (indices U1 ZRing ex_x) (sectors U1 ZRing ex_x) (nth 0%nat ex_groups []) /\
  is_singlet (nth 0%nat ex_groups []) = false.
Proof.
  split; [repeat constructor|]. split; [|reflexivity].
  intros s Hs ax Hax. cbn in Hs, Hax.
  repeat (destruct Hs as [<-|Hs]; [destruct Hax as [<-|[<-|[]]]; reflexivity|]). destruct Hs.
Qed.
