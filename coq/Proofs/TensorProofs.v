(* Proofs/TensorProofs.v — the one lemma every tensor primitive rests on:
   reading a tabulated tensor at an in-bounds multi-index gives the tabulated value. *)
From SV Require Import Base.Prelude Base.Tensor.
Local Open Scope nat_scope.

Lemma length_all_idx sh : length (all_idx sh) = shape_size sh.
Proof.
  induction sh as [|d sh IH]; [reflexivity|].
  cbn [all_idx shape_size fold_right]. fold (shape_size sh).
  generalize 0 at 1. induction d as [|d IHd]; intros s; cbn [seq flat_map]; [reflexivity|].
  rewrite app_length, map_length, IH, IHd. reflexivity.
Qed.

Lemma offset_lt sh idx : inb sh idx = true -> offset sh idx < shape_size sh.
Proof.
  revert idx. induction sh as [|d sh IH]; intros [|i idx] H; cbn [inb] in H; try discriminate.
  - cbn. lia.
  - apply andb_true_iff in H. destruct H as [Hi H]. apply Nat.ltb_lt in Hi. apply IH in H.
    cbn [offset shape_size fold_right]. fold (shape_size sh). nia.
Qed.

Lemma nth_flat_map_seq {A} (g : nat -> list A) (m : nat) (dflt : A) :
  (forall i, length (g i) = m) ->
  forall d s i o, i < d -> o < m ->
  nth (i * m + o) (flat_map g (seq s d)) dflt = nth o (g (s + i)) dflt.
Proof.
  intros Hlen d. induction d as [|d IH]; intros s i o Hi Ho; [lia|].
  cbn [seq flat_map]. destruct i as [|i].
  - rewrite app_nth1 by (rewrite Hlen; lia). now rewrite Nat.add_0_r.
  - rewrite app_nth2 by (rewrite Hlen; nia). rewrite Hlen.
    replace (S i * m + o - m) with (i * m + o) by nia.
    rewrite IH by lia. now replace (S s + i) with (s + S i) by lia.
Qed.

Lemma nth_all_idx sh idx : inb sh idx = true -> nth (offset sh idx) (all_idx sh) [] = idx.
Proof.
  revert idx. induction sh as [|d sh IH]; intros [|i idx] H; cbn [inb] in H; try discriminate.
  - reflexivity.
  - apply andb_true_iff in H. destruct H as [Hi H]. apply Nat.ltb_lt in Hi.
    cbn [all_idx offset].
    pose proof (offset_lt _ _ H) as Ho.
    rewrite (nth_flat_map_seq (fun i => map (cons i) (all_idx sh)) (shape_size sh) []
               (fun j => eq_trans (map_length _ _) (length_all_idx sh)) d 0 i (offset sh idx) Hi Ho).
    cbn [Nat.add].
    rewrite (nth_indep _ [] (i :: nth (offset sh idx) (all_idx sh) []))
      by (rewrite map_length, length_all_idx; exact Ho).
    rewrite (map_nth (cons i)).
    rewrite (nth_indep _ _ []) by (rewrite length_all_idx; exact Ho).
    now rewrite (IH _ H).
Qed.

Section GetBuild.
  Context (R : Ring).

  Lemma get_build sh f idx : inb sh idx = true -> get R (build R sh f) idx = f idx.
  Proof.
    intros H. unfold get, build. cbn [tshape tdata].
    rewrite (nth_indep _ (r0 R) (f [])) by (rewrite map_length, length_all_idx; now apply offset_lt).
    rewrite (map_nth f). now rewrite nth_all_idx.
  Qed.

  Lemma tshape_build sh f : tshape (build R sh f) = sh.
  Proof. reflexivity. Qed.
End GetBuild.
