(* Proofs/OddposProofs.v — the translated label order is a strict total order;
   the phased sort / annihilation loop terminates, sorts, and its sign and
   result are route independent (label-level associativity). *)
From SV Require Import Base.Prelude Gen.OpOrder Model.Graded Model.Oddpos Proofs.GradedProofs.
From Coq Require Import Permutation Sorted Arith.
Open Scope nat_scope.

(* ================================================================ A. order *)
Lemma list_eqb_Z_eq (a b : list Z) : list_eqb Z.eqb a b = true <-> a = b.
Proof.
  revert b. induction a as [|x a IH]; intros [|y b]; cbn [list_eqb]; try (split; [discriminate|congruence]).
  - split; reflexivity.
  - rewrite andb_true_iff, Z.eqb_eq, IH. split; [intros [-> ->]; reflexivity | intros H; inversion H; auto].
Qed.

Lemma label_eqb_eq a b : label_eqb a b = true <-> a = b.
Proof. apply list_eqb_Z_eq. Qed.

Lemma label_eqb_neq a b : label_eqb a b = false <-> a <> b.
Proof. rewrite <- label_eqb_eq. destruct (label_eqb a b); split; congruence. Qed.

Lemma lex_irrefl a : lex_ltb a a = false.
Proof. induction a as [|x a IH]; cbn [lex_ltb]; [reflexivity|]. rewrite Z.ltb_irrefl, Z.eqb_refl, IH. reflexivity. Qed.

Lemma lex_trans a : forall b c, lex_ltb a b = true -> lex_ltb b c = true -> lex_ltb a c = true.
Proof.
  induction a as [|x a IH]; intros [|y b] [|z c]; cbn [lex_ltb]; try discriminate; try reflexivity.
  rewrite !orb_true_iff, !andb_true_iff, !Z.ltb_lt, !Z.eqb_eq.
  intros [H1|[H1 H1']] [H2|[H2 H2']]; try (left; lia).
  right. split; [lia | eapply IH; eassumption].
Qed.

Lemma lex_total a : forall b, a <> b -> lex_ltb a b = true \/ lex_ltb b a = true.
Proof.
  induction a as [|x a IH]; intros [|y b] H; cbn [lex_ltb]; try tauto; try congruence.
  rewrite !orb_true_iff, !andb_true_iff, !Z.ltb_lt, !Z.eqb_eq.
  destruct (Z.lt_trichotomy x y) as [L|[E|G]]; [left; left; exact L| |right; left; exact G].
  subst y. destruct (IH b) as [L|G]; [congruence | left; right; auto | right; right; auto].
Qed.

Lemma lex_asym a b : lex_ltb a b = true -> lex_ltb b a = false.
Proof.
  intros H. destruct (lex_ltb b a) eqn:E; [|reflexivity].
  rewrite <- (lex_irrefl a). symmetry. eapply lex_trans; eassumption.
Qed.

Lemma op_eq_spec (a b : op) : op_eq a b = true <-> a = b.
Proof.
  destruct a as [la da], b as [lb db]. unfold op_eq, pair_eqb. cbn [fst snd].
  rewrite andb_true_iff, list_eqb_Z_eq, Bool.eqb_true_iff. split; [intros [-> ->]; reflexivity|].
  intros H; inversion H; auto.
Qed.

Lemma op_lt_irrefl a : op_lt a a = false.
Proof. destruct a as [l [|]]; unfold op_lt; cbn [fst snd]; apply lex_irrefl. Qed.

Lemma op_lt_trans a b c : op_lt a b = true -> op_lt b c = true -> op_lt a c = true.
Proof.
  destruct a as [la [|]], b as [lb [|]], c as [lc [|]]; unfold op_lt; cbn [fst snd]; try discriminate; try reflexivity.
  - intros H1 H2. eapply lex_trans; eassumption.
  - apply lex_trans.
Qed.

Lemma op_lt_asym a b : op_lt a b = true -> op_lt b a = false.
Proof.
  intros H. destruct (op_lt b a) eqn:E; [|reflexivity].
  rewrite <- (op_lt_irrefl a). symmetry. eapply op_lt_trans; eassumption.
Qed.

Lemma op_lt_total a b : a <> b -> op_lt a b = true \/ op_lt b a = true.
Proof.
  destruct a as [la [|]], b as [lb [|]]; unfold op_lt; cbn [fst snd]; intros H; auto.
  - destruct (lex_total la lb) as [L|G]; [congruence | right; exact L | left; exact G].
  - apply lex_total. congruence.
Qed.

(* different labels are always comparable (what the loop relies on) *)
Lemma op_lt_total_labels a b : fst a <> fst b -> op_lt b a = false -> op_lt a b = true.
Proof.
  intros H E. destruct (op_lt_total a b) as [L|G]; [congruence | exact L | congruence].
Qed.

Lemma op_dag_invol a : op_dag (op_dag a) = a.
Proof. destruct a as [l d]. unfold op_dag. cbn [fst snd]. now rewrite negb_involutive. Qed.

(* conjugation reverses the order *)
Lemma op_lt_dag a b : op_lt (op_dag b) (op_dag a) = op_lt a b.
Proof. destruct a as [la [|]], b as [lb [|]]; reflexivity. Qed.

(* ---------- sorted lists ---------- *)
Lemma SS_map {A B} (R : A -> A -> Prop) (S : B -> B -> Prop) (f : A -> B) l :
  (forall x y, R x y -> S (f x) (f y)) -> StronglySorted R l -> StronglySorted S (map f l).
Proof.
  intros H. induction 1 as [|x l H1 IH F]; cbn [map]; constructor; [exact IH|].
  apply Forall_forall. intros y Hy. apply in_map_iff in Hy. destruct Hy as [z [<- Hz]].
  apply H. rewrite Forall_forall in F. now apply F.
Qed.

Lemma lt_op_trans : Relations_1.Transitive lt_op.
Proof. intros a b c. apply op_lt_trans. Qed.

Lemma Sorted_SS l : Sorted lt_op l <-> StronglySorted lt_op l.
Proof. split; [apply Sorted_StronglySorted, lt_op_trans | apply StronglySorted_Sorted]. Qed.

(* ---------- lt_strict_total ---------- *)
Theorem lt_strict_total :
  (forall a, op_lt a a = false)
  /\ (forall a b c, op_lt a b = true -> op_lt b c = true -> op_lt a c = true)
  /\ (forall a b, a <> b -> op_lt a b = true \/ op_lt b a = true)
  /\ (forall a b, op_eq a b = true <-> a = b)
  /\ (forall a b, op_eq a b = true -> op_lt a b = false /\ op_lt b a = false)
  /\ (forall a, op_dag (op_dag a) = a)
  /\ (forall a b, op_lt (op_dag b) (op_dag a) = op_lt a b)
  /\ (forall l, Sorted lt_op l -> Sorted lt_op (oddpos_dag l)).
Proof.
  repeat split.
  - apply op_lt_irrefl.
  - apply op_lt_trans.
  - apply op_lt_total.
  - apply op_eq_spec.
  - apply op_eq_spec.
  - apply op_eq_spec in H. subst b. apply op_lt_irrefl.
  - apply op_eq_spec in H. subst b. apply op_lt_irrefl.
  - apply op_dag_invol.
  - apply op_lt_dag.
  - intros l H. apply Sorted_SS in H. apply Sorted_SS. unfold oddpos_dag.
    apply SS_map with (R := fun x y => lt_op y x); [|apply SS_rev, H].
    intros x y Hxy. unfold lt_op. now rewrite op_lt_dag.
Qed.

Example lt_example :
  Sorted lt_op [([3%Z], true); ([1%Z; 2%Z], true); ([1%Z], false); ([2%Z], false)]
  /\ oddpos_dag [([3%Z], true); ([1%Z; 2%Z], true); ([1%Z], false); ([2%Z], false)]
     = [([2%Z], true); ([1%Z], true); ([1%Z; 2%Z], false); ([3%Z], false)].
Proof. split; [repeat constructor | reflexivity]. Qed.

(* ============================================================ B. inversions *)
Lemma countb_le {A} (f : A -> bool) l : countb f l <= length l.
Proof. induction l as [|x l IH]; [apply le_n|]. rewrite countb_cons. cbn [length]. destruct (f x); lia. Qed.

Lemma op_inv_app (x y : list op) : op_inv (x ++ y) = op_inv x + op_inv y + op_cross x y.
Proof.
  induction x as [|u x IH]; cbn [app op_inv op_cross]; [lia|].
  rewrite IH, countb_app. lia.
Qed.

Lemma op_cross_perm_r (x y y' : list op) : Permutation y y' -> op_cross x y = op_cross x y'.
Proof.
  intros H. induction x as [|u x IH]; cbn [op_cross]; [reflexivity|].
  now rewrite IH, (countb_perm _ _ _ H).
Qed.

Lemma op_cross_perm_l (x x' y : list op) : Permutation x x' -> op_cross x y = op_cross x' y.
Proof.
  induction 1 as [|u x x' _ IH|u v x|x x' x'' _ IH1 _ IH2]; cbn [op_cross]; lia.
Qed.

Lemma op_cross_drop2 (x : list op) (a b : op) (y : list op) : op_cross x y <= op_cross x (a :: b :: y).
Proof.
  induction x as [|u x IH]; cbn [op_cross]; [lia|].
  rewrite !countb_cons. destruct (op_lt a u), (op_lt b u); lia.
Qed.

Lemma op_inv_drop2 (x : list op) (a b : op) (y : list op) : op_inv (x ++ y) <= op_inv (x ++ a :: b :: y).
Proof.
  rewrite !op_inv_app. cbn [op_inv]. pose proof (op_cross_drop2 x a b y). lia.
Qed.

Lemma op_inv_swap (x : list op) (a b : op) (y : list op) : op_lt b a = true ->
  op_inv (x ++ a :: b :: y) = S (op_inv (x ++ b :: a :: y)).
Proof.
  intros H. rewrite !op_inv_app.
  rewrite (op_cross_perm_r x (a :: b :: y) (b :: a :: y)) by apply perm_swap.
  cbn [op_inv]. rewrite !countb_cons, H, (op_lt_asym b a H). lia.
Qed.

Lemma op_inv_bound (w : list op) : 2 * op_inv w + length w <= length w * length w.
Proof.
  induction w as [|x t IH]; [cbn; lia|].
  cbn [op_inv]. change (length (x :: t)) with (S (length t)).
  remember (length t) as n eqn:En.
  assert (H : countb (fun y => op_lt y x) t <= n) by (subst n; apply countb_le).
  revert IH H. generalize (countb (fun y => op_lt y x) t) (op_inv t). intros c i IH H.
  replace (S n * S n) with (n * n + 2 * n + 1) by ring. lia.
Qed.

Lemma op_inv_sorted (w : list op) : StronglySorted lt_op w -> op_inv w = 0.
Proof.
  induction 1 as [|x t H IH F]; cbn [op_inv]; [reflexivity|].
  rewrite IH, countb_false; [reflexivity|].
  intros y Hy. rewrite Forall_forall in F. apply op_lt_asym, F, Hy.
Qed.

(* ========================================================== C. termination *)
Definition potential (pre suf : list op) : nat := 2 * op_inv (rev pre ++ suf) + length suf.

Lemma loop_terminates fuel : forall s pre suf,
  potential pre suf < fuel -> resolve_loop fuel s pre suf <> OutOfFuel.
Proof.
  unfold potential.
  induction fuel as [|fuel IH]; intros s pre suf HF; [lia|].
  destruct suf as [|a [|b rest]]; cbn [resolve_loop]; try discriminate.
  destruct (label_eqb (fst a) (fst b)).
  - destruct (negb (Bool.eqb (snd a) (snd b))); [|discriminate].
    destruct pre as [|p pre'].
    + apply IH. cbn [rev app length] in *. pose proof (op_inv_drop2 [] a b rest). cbn [app] in *. lia.
    + apply IH. cbn [rev length] in *. rewrite <- app_assoc in HF. cbn [app] in HF.
      pose proof (op_inv_drop2 (rev pre' ++ [p]) a b rest) as D.
      rewrite <- !app_assoc in D. cbn [app] in D. lia.
  - destruct (op_lt b a) eqn:E.
    + destruct pre as [|p pre'].
      * apply IH. cbn [rev app length] in *. pose proof (op_inv_swap [] a b rest E) as D. cbn [app] in *. rewrite D in HF. lia.
      * apply IH. cbn [rev length] in *. rewrite <- app_assoc in HF. cbn [app] in HF.
        pose proof (op_inv_swap (rev pre' ++ [p]) a b rest E) as D.
        rewrite <- !app_assoc in D. cbn [app] in D. rewrite D in HF. lia.
    + apply IH. cbn [rev length] in *. rewrite <- app_assoc. cbn [app]. lia.
Qed.

(* the fuel of the model is always sufficient: for EVERY input (also with
   duplicates and conjugate pairs) the loop ends by itself *)
Theorem resolve_terminates l r p : resolve_raw l r p <> OutOfFuel.
Proof.
  unfold resolve_raw. destruct (is_nil l && is_nil r); [discriminate|].
  apply loop_terminates. unfold potential, fuel_bound. cbn [rev app].
  pose proof (op_inv_bound (l ++ r)). lia.
Qed.

(* ================================ D. conjugate-free words: a phased sort *)
Definition distinct (w : list op) : Prop := NoDup (labels w).

Lemma distinct_perm (w w' : list op) : Permutation w w' -> distinct w -> distinct w'.
Proof. intros H. unfold distinct, labels. apply Permutation_NoDup, Permutation_map, H. Qed.

Lemma distinct_adjacent (x : list op) (a b : op) (y : list op) :
  distinct (x ++ a :: b :: y) -> label_eqb (fst a) (fst b) = false.
Proof.
  unfold distinct, labels. rewrite map_app. cbn [map]. intros H.
  apply NoDup_remove_2 in H. apply label_eqb_neq. intros E. apply H.
  apply in_or_app. right. left. now symmetry.
Qed.

Definition gt_op (x y : op) : Prop := lt_op y x.

(* the loop invariant: oddpos[0..i] is strictly sorted *)
Definition zip_ok (pre suf : list op) : Prop :=
  StronglySorted gt_op pre /\
  match pre, suf with p :: _, a :: _ => lt_op p a | _, _ => True end.

Lemma below_head (p : op) (pre : list op) (a : op) :
  StronglySorted gt_op (p :: pre) -> lt_op p a -> Forall (fun q => lt_op q a) (p :: pre).
Proof.
  intros H L. inversion H as [|? ? _ F]; subst. constructor; [exact L|].
  rewrite Forall_forall in *. intros q Hq. eapply op_lt_trans; [apply F, Hq | exact L].
Qed.

Lemma rev_sorted (pre : list op) : StronglySorted gt_op pre -> StronglySorted lt_op (rev pre).
Proof. intros H. apply SS_rev in H. exact H. Qed.

Lemma zip_back (p : op) (pre' suf : list op) : StronglySorted gt_op (p :: pre') -> zip_ok pre' (p :: suf).
Proof.
  intros H. inversion H as [|? ? H' F]; subst. split; [exact H'|].
  destruct pre' as [|q pre'']; [exact I|]. inversion F; subst. assumption.
Qed.

Lemma odd_S n : Nat.odd (S n) = negb (Nat.odd n).
Proof. now rewrite Nat.odd_succ, <- Nat.negb_odd. Qed.

Lemma loop_sorts fuel : forall s (pre suf : list op) s' w',
  distinct (rev pre ++ suf) -> zip_ok pre suf ->
  resolve_loop fuel s pre suf = Done s' w' ->
  StronglySorted lt_op w' /\ Permutation w' (rev pre ++ suf)
  /\ s' = xorb s (Nat.odd (op_inv (rev pre ++ suf))).
Proof.
  induction fuel as [|fuel IH]; intros s pre suf s' w' HD [HS HH] HR.
  - (* no fuel: only the exits are possible *)
    destruct suf as [|a [|b rest]]; cbn [resolve_loop] in HR; try discriminate; inversion HR; subst.
    + assert (S1 : StronglySorted lt_op (rev pre ++ [])) by (rewrite app_nil_r; now apply rev_sorted).
      split; [exact S1|]. split; [reflexivity|]. now rewrite (op_inv_sorted _ S1), xorb_false_r.
    + assert (S1 : StronglySorted lt_op (rev pre ++ [a])).
      { apply SS_app; [now apply rev_sorted | repeat constructor |].
        intros x y Hx [<-|[]]. apply in_rev in Hx. destruct pre as [|p pre']; [destruct Hx|].
        pose proof (below_head p pre' a HS HH) as F. rewrite Forall_forall in F. now apply F. }
      split; [exact S1|]. split; [reflexivity|]. now rewrite (op_inv_sorted _ S1), xorb_false_r.
  - destruct suf as [|a [|b rest]]; cbn [resolve_loop] in HR.
    + inversion HR; subst.
      assert (S1 : StronglySorted lt_op (rev pre ++ [])) by (rewrite app_nil_r; now apply rev_sorted).
      split; [exact S1|]. split; [reflexivity|]. now rewrite (op_inv_sorted _ S1), xorb_false_r.
    + inversion HR; subst.
      assert (S1 : StronglySorted lt_op (rev pre ++ [a])).
      { apply SS_app; [now apply rev_sorted | repeat constructor |].
        intros x y Hx [<-|[]]. apply in_rev in Hx. destruct pre as [|p pre']; [destruct Hx|].
        pose proof (below_head p pre' a HS HH) as F. rewrite Forall_forall in F. now apply F. }
      split; [exact S1|]. split; [reflexivity|]. now rewrite (op_inv_sorted _ S1), xorb_false_r.
    + rewrite (distinct_adjacent _ _ _ _ HD) in HR.
      destruct (op_lt b a) eqn:E.
      * (* phased swap *)
        destruct pre as [|p pre'].
        -- cbn [rev app] in *.
           apply IH in HR; [| apply (distinct_perm (a :: b :: rest)); [apply perm_swap | exact HD]
                             | split; [constructor | exact I]].
           destruct HR as [R1 [R2 R3]]. cbn [rev app] in *.
           split; [exact R1|]. split; [eapply Permutation_trans; [exact R2 | apply perm_swap]|].
           rewrite R3. pose proof (op_inv_swap [] a b rest E) as D. cbn [app] in D. rewrite D, odd_S.
           destruct s, (Nat.odd (op_inv (b :: a :: rest))); reflexivity.
        -- cbn [rev] in *. rewrite <- app_assoc in *. cbn [app] in *.
           apply IH in HR; [| apply (distinct_perm (rev pre' ++ p :: a :: b :: rest));
                               [apply Permutation_app_head, perm_skip, perm_swap | exact HD]
                             | now apply zip_back].
           destruct HR as [R1 [R2 R3]].
           split; [exact R1|].
           split; [eapply Permutation_trans; [exact R2 | apply Permutation_app_head, perm_skip, perm_swap]|].
           rewrite R3. pose proof (op_inv_swap (rev pre' ++ [p]) a b rest E) as D.
           rewrite <- !app_assoc in D. cbn [app] in D. rewrite D, odd_S.
           destruct s, (Nat.odd (op_inv (rev pre' ++ p :: b :: a :: rest))); reflexivity.
      * (* advance *)
        assert (Lab : lt_op a b).
        { apply op_lt_total_labels; [|exact E]. apply label_eqb_neq, (distinct_adjacent _ _ _ _ HD). }
        apply IH in HR.
        -- cbn [rev] in HR. rewrite <- app_assoc in HR. exact HR.
        -- cbn [rev]. rewrite <- app_assoc. exact HD.
        -- split; [|exact Lab]. constructor; [exact HS|].
           destruct pre as [|p pre']; [constructor|]. apply (below_head p pre' a HS HH).
Qed.

(* uniqueness of the strictly sorted arrangement *)
Lemma sorted_perm_unique (l1 : list op) : forall l2,
  StronglySorted lt_op l1 -> StronglySorted lt_op l2 -> Permutation l1 l2 -> l1 = l2.
Proof.
  induction l1 as [|x t1 IH]; intros [|y t2] S1 S2 HP.
  - reflexivity.
  - apply Permutation_nil in HP. discriminate.
  - apply Permutation_sym, Permutation_nil in HP. discriminate.
  - inversion S1 as [|? ? S1' F1]; inversion S2 as [|? ? S2' F2]; subst.
    rewrite Forall_forall in F1, F2.
    assert (E : x = y).
    { assert (I1 : In x (y :: t2)) by (apply (Permutation_in _ HP); now left).
      assert (I2 : In y (x :: t1)) by (apply (Permutation_in _ (Permutation_sym HP)); now left).
      destruct I1 as [<-|I1]; [reflexivity|]. destruct I2 as [<-|I2]; [reflexivity|].
      pose proof (F2 _ I1) as L1. pose proof (F1 _ I2) as L2.
      unfold lt_op in *. rewrite (op_lt_asym _ _ L1) in L2. discriminate. }
    subst y. f_equal. apply IH; [exact S1' | exact S2' | eapply Permutation_cons_inv, HP].
Qed.

Lemma resolve_raw_loop (l r : list op) (p : bool) :
  resolve_raw l r p
  = resolve_loop (fuel_bound (length (l ++ r))) (p && Nat.odd (length r)) [] (l ++ r).
Proof.
  unfold resolve_raw. destruct l as [|a l]; [|reflexivity]. destruct r as [|b r]; [|reflexivity].
  cbn. now rewrite andb_false_r.
Qed.

(* ---------- resolve_sorted / resolve_sign ---------- *)
(* For conjugate-free inputs (all labels of l ++ r different) the routine
   never raises, returns THE strictly sorted arrangement of l ++ r, and the
   sign is (left odd and |r| odd) xor the inversion parity of l ++ r. *)
Theorem resolve_distinct (l r : list op) (p : bool) :
  distinct (l ++ r) ->
  exists w, resolve l r p = Some (xorb (p && Nat.odd (length r)) (Nat.odd (op_inv (l ++ r))), w)
            /\ Sorted lt_op w /\ Permutation w (l ++ r).
Proof.
  intros HD. unfold resolve.
  pose proof (resolve_terminates l r p) as HT.
  destruct (resolve_raw l r p) as [| |s w] eqn:E; [congruence| |].
  - (* Raise is impossible: shown through the loop lemma on any Done/Raise *)
    exfalso. rewrite resolve_raw_loop in E.
    revert E. generalize (fuel_bound (length (l ++ r))) (p && Nat.odd (length r)).
    assert (G : forall fuel s (pre suf : list op), distinct (rev pre ++ suf) -> resolve_loop fuel s pre suf <> Raise).
    { induction fuel as [|fuel IH]; intros s pre suf HD'; destruct suf as [|a [|b rest]]; cbn [resolve_loop]; try discriminate.
      rewrite (distinct_adjacent _ _ _ _ HD').
      destruct (op_lt b a).
      - destruct pre as [|q pre']; apply IH.
        + cbn [rev app] in *. apply (distinct_perm (a :: b :: rest)); [apply perm_swap | exact HD'].
        + cbn [rev] in *. rewrite <- app_assoc in *. cbn [app] in *.
          apply (distinct_perm (rev pre' ++ q :: a :: b :: rest)); [apply Permutation_app_head, perm_skip, perm_swap | exact HD'].
      - apply IH. cbn [rev]. rewrite <- app_assoc. exact HD'. }
    intros fuel s. apply G. exact HD.
  - rewrite resolve_raw_loop in E.
    apply loop_sorts in E; [| exact HD | split; [constructor | exact I]].
    cbn [rev app] in E. destruct E as [R1 [R2 R3]].
    exists w. subst s. split; [reflexivity|]. split; [apply Sorted_SS, R1 | exact R2].
Qed.

(* ======================================= E. route independence of labels *)
Lemma NoDup_app_both {A} (l1 l2 : list A) : NoDup (l1 ++ l2) -> NoDup l1 /\ NoDup l2.
Proof.
  induction l1 as [|x l1 IH]; cbn [app]; intros H; [split; [constructor | exact H]|].
  inversion H as [|? ? Hn H']; subst. destruct (IH H') as [I1 I2]. split; [|exact I2].
  constructor; [|exact I1]. intros Hx. apply Hn, in_or_app. now left.
Qed.

Lemma distinct_app_l (x y : list op) : distinct (x ++ y) -> distinct x.
Proof. unfold distinct, labels. rewrite map_app. intros H. apply (NoDup_app_both _ _ H). Qed.

Lemma distinct_app_r (x y : list op) : distinct (x ++ y) -> distinct y.
Proof. unfold distinct, labels. rewrite map_app. intros H. apply (NoDup_app_both _ _ H). Qed.

(* ASSOCIATIVITY at the label level.  Three operands with label lists a, b, c
   (all labels different; nothing else is assumed — not even sortedness or
   the invariant length = parity mod 2), left-parities pa, pb:
   contracting (a,b) first and then (ab,c) gives the same labels and the same
   total sign as contracting (b,c) first and then (a,bc).  The parity of the
   intermediate (ab) is pa xor pb. *)
Theorem resolve_assoc (a b c : list op) (pa pb : bool) :
  distinct (a ++ b ++ c) ->
  exists s1 ab s2 t1 bc t2 abc,
    resolve a b pa = Some (s1, ab) /\ resolve ab c (xorb pa pb) = Some (s2, abc) /\
    resolve b c pb = Some (t1, bc) /\ resolve a bc pa = Some (t2, abc) /\
    xorb s1 s2 = xorb t1 t2 /\
    Sorted lt_op abc /\ Permutation abc (a ++ b ++ c).
Proof.
  intros HD.
  assert (Dab : distinct (a ++ b)) by (rewrite app_assoc in HD; exact (distinct_app_l _ _ HD)).
  assert (Dbc : distinct (b ++ c)) by exact (distinct_app_r _ _ HD).
  destruct (resolve_distinct a b pa Dab) as [ab [R1 [S1 P1]]].
  assert (Dabc : distinct (ab ++ c)).
  { apply (distinct_perm ((a ++ b) ++ c)); [apply Permutation_app_tail, Permutation_sym, P1 | now rewrite <- app_assoc]. }
  destruct (resolve_distinct ab c (xorb pa pb) Dabc) as [abc [R2 [S2 P2]]].
  destruct (resolve_distinct b c pb Dbc) as [bc [R3 [S3 P3]]].
  assert (Dabc' : distinct (a ++ bc)).
  { apply (distinct_perm (a ++ b ++ c)); [apply Permutation_app_head, Permutation_sym, P3 | exact HD]. }
  destruct (resolve_distinct a bc pa Dabc') as [abc' [R4 [S4 P4]]].
  assert (Pabc : Permutation abc (a ++ b ++ c)).
  { eapply Permutation_trans; [exact P2|]. rewrite app_assoc. apply Permutation_app_tail, P1. }
  assert (Pabc' : Permutation abc' (a ++ b ++ c)).
  { eapply Permutation_trans; [exact P4|]. apply Permutation_app_head, P3. }
  assert (E : abc' = abc).
  { apply sorted_perm_unique; [apply Sorted_SS, S4 | apply Sorted_SS, S2 |].
    eapply Permutation_trans; [exact Pabc' | apply Permutation_sym, Pabc]. }
  subst abc'.
  eexists _, ab, _, _, bc, _, abc.
  split; [exact R1|]. split; [exact R2|]. split; [exact R3|]. split; [exact R4|].
  split; [|split; [exact S2 | exact Pabc]].
  (* the signs *)
  assert (I1 : xorb (Nat.odd (op_inv (a ++ b))) (Nat.odd (op_inv (ab ++ c))) = Nat.odd (op_inv (a ++ b ++ c))).
  { rewrite <- Nat.odd_add. f_equal. rewrite (app_assoc a b c), (op_inv_app (a ++ b) c), (op_inv_app ab c).
    rewrite (op_inv_sorted ab) by (apply Sorted_SS, S1).
    rewrite (op_cross_perm_l ab (a ++ b) c P1). lia. }
  assert (I2 : xorb (Nat.odd (op_inv (b ++ c))) (Nat.odd (op_inv (a ++ bc))) = Nat.odd (op_inv (a ++ b ++ c))).
  { rewrite <- Nat.odd_add. f_equal. rewrite (op_inv_app a (b ++ c)), (op_inv_app a bc).
    rewrite (op_inv_sorted bc) by (apply Sorted_SS, S3).
    rewrite (op_cross_perm_r a bc (b ++ c) P3). lia. }
  assert (Lbc : Nat.odd (length bc) = xorb (Nat.odd (length b)) (Nat.odd (length c))).
  { rewrite (Permutation_length P3), app_length, Nat.odd_add. reflexivity. }
  rewrite Lbc. revert I1 I2.
  generalize (Nat.odd (op_inv (a ++ b))) (Nat.odd (op_inv (ab ++ c))) (Nat.odd (op_inv (b ++ c)))
             (Nat.odd (op_inv (a ++ bc))) (Nat.odd (op_inv (a ++ b ++ c))) (Nat.odd (length b)) (Nat.odd (length c)).
  intros i1 i2 i3 i4 i5 ob oc I1 I2.
  destruct pa, pb, ob, oc, i1, i2, i3, i4, i5; cbn in *; congruence.
Qed.

(* OPERAND ORDER at the label level: same labels; the two signs differ by the
   Koszul sign of moving the |a| dummies past the |b| dummies, plus the two
   "left parity" terms.  With the invariant |a| = pa, |b| = pb (mod 2) the
   difference is pa && pb: the sign of exchanging two odd tensors. *)
Lemma op_cross_cons_r (y : list op) (u : op) (x : list op) :
  op_cross y (u :: x) = countb (fun v => op_lt u v) y + op_cross y x.
Proof.
  induction y as [|v y IH]; cbn [op_cross]; [reflexivity|].
  rewrite IH, !countb_cons. destruct (op_lt u v); lia.
Qed.

Lemma op_cross_total (x y : list op) :
  (forall u v, In u x -> In v y -> u <> v) -> op_cross x y + op_cross y x = length x * length y.
Proof.
  induction x as [|u x IH]; intros H.
  - cbn [op_cross length]. clear. induction y as [|v y IHy]; cbn [op_cross]; [reflexivity|].
    unfold countb at 1. cbn [filter length]. exact IHy.
  - cbn [op_cross length]. rewrite op_cross_cons_r.
    assert (C : countb (fun v => op_lt v u) y + countb (fun v => op_lt u v) y = length y).
    { assert (Hu : forall v, In v y -> u <> v) by (intros v Hv; apply H; [now left | exact Hv]).
      clear - Hu. induction y as [|v y IHy]; [reflexivity|].
      rewrite !countb_cons. cbn [length].
      assert (Hv : u <> v) by (apply Hu; now left).
      specialize (IHy (fun w Hw => Hu w (or_intror Hw))).
      destruct (op_lt_total u v Hv) as [L|L]; rewrite L, (op_lt_asym _ _ L); lia. }
    specialize (IH (fun a b Ha Hb => H a b (or_intror Ha) Hb)). lia.
Qed.

Theorem resolve_swap (a b : list op) (pa pb : bool) :
  distinct (a ++ b) ->
  exists s t w,
    resolve a b pa = Some (s, w) /\ resolve b a pb = Some (t, w) /\
    xorb s t = xorb (xorb (pa && Nat.odd (length b)) (pb && Nat.odd (length a)))
                    (Nat.odd (length a) && Nat.odd (length b)).
Proof.
  intros HD.
  assert (HD' : distinct (b ++ a)) by (apply (distinct_perm (a ++ b)); [apply Permutation_app_comm | exact HD]).
  destruct (resolve_distinct a b pa HD) as [w [R1 [S1 P1]]].
  destruct (resolve_distinct b a pb HD') as [w' [R2 [S2 P2]]].
  assert (E : w' = w).
  { apply sorted_perm_unique; [apply Sorted_SS, S2 | apply Sorted_SS, S1 |].
    eapply Permutation_trans; [exact P2|]. eapply Permutation_trans; [apply Permutation_app_comm | apply Permutation_sym, P1]. }
  subst w'. eexists _, _, w. split; [exact R1|]. split; [exact R2|].
  assert (I : xorb (Nat.odd (op_inv (a ++ b))) (Nat.odd (op_inv (b ++ a))) = Nat.odd (length a) && Nat.odd (length b)).
  { rewrite <- Nat.odd_add, !op_inv_app, <- Nat.odd_mul.
    assert (T : op_cross a b + op_cross b a = length a * length b).
    { apply op_cross_total. intros u v Hu Hv E. subst v.
      unfold distinct, labels in HD. rewrite map_app in HD.
      apply in_split in Hu. destruct Hu as [a1 [a2 ->]].
      rewrite map_app in HD. cbn [map] in HD. rewrite <- app_assoc in HD. cbn [app] in HD.
      apply NoDup_remove_2 in HD. apply HD. apply in_or_app. right. apply in_or_app. right.
      apply in_map. exact Hv. }
    replace (op_inv a + op_inv b + op_cross a b + (op_inv b + op_inv a + op_cross b a))
      with (2 * (op_inv a + op_inv b) + length a * length b) by lia.
    rewrite Nat.odd_add, Nat.odd_mul. change (Nat.odd 2) with false. cbn [andb]. now rewrite xorb_false_l. }
  revert I. generalize (Nat.odd (op_inv (a ++ b))) (Nat.odd (op_inv (b ++ a))) (Nat.odd (length a)) (Nat.odd (length b)).
  intros i1 i2 oa ob I. destruct pa, pb, oa, ob, i1, i2; cbn in *; congruence.
Qed.

(* ============================ F. the general case (with conjugate pairs) *)
Lemma rws_trans x y z : rws x y -> rws y z -> rws x z.
Proof. induction 1; [auto | intros; eapply rws_step; eauto]. Qed.

Lemma rws_one x y : rw x y -> rws x y.
Proof. intros H. eapply rws_step; [exact H | apply rws_refl]. Qed.

Lemma loop_spec fuel : forall s (pre suf : list op) s' w',
  zip_ok pre suf -> resolve_loop fuel s pre suf = Done s' w' ->
  StronglySorted lt_op w' /\ rws (s, rev pre ++ suf) (s', w').
Proof.
  assert (EXIT0 : forall pre : list op, StronglySorted gt_op pre -> StronglySorted lt_op (rev pre ++ [])).
  { intros pre HS. rewrite app_nil_r. now apply rev_sorted. }
  assert (EXIT1 : forall (pre : list op) a, zip_ok pre [a] -> StronglySorted lt_op (rev pre ++ [a])).
  { intros pre a [HS HH]. apply SS_app; [now apply rev_sorted | repeat constructor |].
    intros x y Hx [<-|[]]. apply in_rev in Hx. destruct pre as [|p pre']; [destruct Hx|].
    pose proof (below_head p pre' a HS HH) as F. rewrite Forall_forall in F. now apply F. }
  induction fuel as [|fuel IH]; intros s pre suf s' w' [HS HH] HR.
  - destruct suf as [|a [|b rest]]; cbn [resolve_loop] in HR; try discriminate; inversion HR; subst.
    + split; [now apply EXIT0 | apply rws_refl].
    + split; [apply EXIT1; now split | apply rws_refl].
  - destruct suf as [|a [|b rest]]; cbn [resolve_loop] in HR.
    + inversion HR; subst. split; [now apply EXIT0 | apply rws_refl].
    + inversion HR; subst. split; [apply EXIT1; now split | apply rws_refl].
    + destruct (label_eqb (fst a) (fst b)) eqn:EL.
      * destruct (negb (Bool.eqb (snd a) (snd b))) eqn:ED; [|discriminate].
        assert (ND : snd a <> snd b).
        { intros E. rewrite E, Bool.eqb_reflx in ED. discriminate. }
        assert (SG : (if snd b then negb s else s) = xorb s (snd b)) by (destruct (snd b), s; reflexivity).
        rewrite SG in HR.
        destruct pre as [|p pre'].
        -- apply IH in HR; [|split; [constructor | exact I]].
           destruct HR as [R1 R2]. split; [exact R1|].
           eapply rws_step; [|exact R2]. cbn [rev app]. exact (rw_kill s [] a b rest EL ND).
        -- apply IH in HR; [|now apply zip_back].
           destruct HR as [R1 R2]. split; [exact R1|].
           eapply rws_step; [|exact R2]. cbn [rev]. rewrite <- app_assoc. cbn [app].
           pose proof (rw_kill s (rev pre' ++ [p]) a b rest EL ND) as K.
           rewrite <- !app_assoc in K. exact K.
      * destruct (op_lt b a) eqn:E.
        -- destruct pre as [|p pre'].
           ++ apply IH in HR; [|split; [constructor | exact I]].
              destruct HR as [R1 R2]. split; [exact R1|].
              eapply rws_step; [|exact R2]. cbn [rev app]. exact (rw_swap s [] a b rest EL).
           ++ apply IH in HR; [|now apply zip_back].
              destruct HR as [R1 R2]. split; [exact R1|].
              eapply rws_step; [|exact R2]. cbn [rev]. rewrite <- app_assoc. cbn [app].
              pose proof (rw_swap s (rev pre' ++ [p]) a b rest EL) as K.
              rewrite <- !app_assoc in K. exact K.
        -- assert (Lab : lt_op a b) by (apply op_lt_total_labels; [now apply label_eqb_neq | exact E]).
           apply IH in HR.
           ++ cbn [rev] in HR. rewrite <- app_assoc in HR. exact HR.
           ++ split; [|exact Lab]. constructor; [exact HS|].
              destruct pre as [|p pre']; [constructor|]. apply (below_head p pre' a HS HH).
Qed.

(* For EVERY input on which the routine returns: the result is strictly
   sorted (so it contains no adjacent conjugate pair and no duplicate), and
   (sign, result) is reached from (left odd && |r| odd, l ++ r) by graded
   swaps of different labels and removals of adjacent conjugate pairs, a
   removal costing a sign exactly when the pair stands as (x-, x+). *)
Theorem resolve_spec (l r : list op) (p : bool) s w :
  resolve l r p = Some (s, w) ->
  Sorted lt_op w /\ rws (p && Nat.odd (length r), l ++ r) (s, w).
Proof.
  unfold resolve. destruct (resolve_raw l r p) as [| |s0 w0] eqn:E; try discriminate.
  intros H. inversion H; subst. rewrite resolve_raw_loop in E.
  apply loop_spec in E; [|split; [constructor | exact I]].
  destruct E as [R1 R2]. split; [apply Sorted_SS, R1 | exact R2].
Qed.

(* ---------- examples: the hypotheses are satisfiable, the cases are real ---------- *)
Example resolve_ex_sort :
  resolve [([1%Z], false); ([4%Z], false)] [([3%Z], true); ([2%Z], false)] true
  = Some (true, [([3%Z], true); ([1%Z], false); ([2%Z], false); ([4%Z], false)]).
Proof. reflexivity. Qed.

(* DESIGN 2.3: with a conjugate pair the label list depends on the route *)
Example resolve_ex_conj_route_dependent :
  resolve [([1%Z], false); ([2%Z], false)] [([2%Z], true)] false = Some (true, [([1%Z], false)])
  /\ (exists s1 w1, resolve [([2%Z], true)] [([1%Z], false)] true = Some (s1, w1)
      /\ resolve w1 [([2%Z], false)] false = Some (false, [([2%Z], true); ([1%Z], false); ([2%Z], false)])).
Proof. split; [reflexivity|]. eexists _, _. split; reflexivity. Qed.

Example resolve_ex_raise :
  resolve [([1%Z], false)] [([1%Z], false)] false = None.
Proof. reflexivity. Qed.

Example resolve_assoc_ex :
  distinct ([([1%Z], false); ([5%Z], false)] ++ [([3%Z], false)] ++ [([2%Z], false); ([4%Z], true)]).
Proof. unfold distinct. cbn. repeat constructor; cbn; intuition discriminate. Qed.

(* ============== G. the literal index form of the loop equals the zipper form *)
Lemma idx_parts (pre : list op) (a b : op) (rest : list op) :
  nth_error (rev pre ++ a :: b :: rest) (length pre) = Some a
  /\ nth_error (rev pre ++ a :: b :: rest) (length pre + 1) = Some b
  /\ firstn (length pre) (rev pre ++ a :: b :: rest) = rev pre
  /\ skipn (length pre + 2) (rev pre ++ a :: b :: rest) = rest.
Proof.
  assert (L : length (rev pre) = length pre) by apply rev_length.
  repeat split.
  - rewrite nth_error_app2 by lia. rewrite L, Nat.sub_diag. reflexivity.
  - rewrite nth_error_app2 by lia. rewrite L. replace (length pre + 1 - length pre) with 1 by lia. reflexivity.
  - rewrite <- L. rewrite firstn_app, Nat.sub_diag, firstn_all. cbn [firstn]. apply app_nil_r.
  - rewrite skipn_app, L. replace (length pre + 2 - length pre) with 2 by lia.
    rewrite skipn_all2 by lia. reflexivity.
Qed.

Theorem resolve_idx_loop fuel : forall s (pre suf : list op),
  resolve_idx fuel s (length pre) (rev pre ++ suf) = resolve_loop fuel s pre suf.
Proof.
  assert (EXIT : forall f s (pre suf : list op), length suf <= 1 ->
            resolve_idx f s (length pre) (rev pre ++ suf) = Done s (rev pre ++ suf)).
  { intros f s pre suf H. destruct f; cbn [resolve_idx];
      (replace (Nat.ltb (length pre + 1) (length (rev pre ++ suf))) with false; [reflexivity|]);
      symmetry; apply Nat.ltb_ge; rewrite app_length, rev_length; lia. }
  induction fuel as [|fuel IH]; intros s pre suf.
  - destruct suf as [|a [|b rest]]; cbn [resolve_loop]; try (apply EXIT; cbn [length]; lia).
    cbn [resolve_idx].
    replace (Nat.ltb (length pre + 1) (length (rev pre ++ a :: b :: rest))) with true; [reflexivity|].
    symmetry. apply Nat.ltb_lt. rewrite app_length, rev_length. cbn [length]. lia.
  - destruct suf as [|a [|b rest]]; cbn [resolve_loop]; try (apply EXIT; cbn [length]; lia).
    cbn [resolve_idx].
    replace (Nat.ltb (length pre + 1) (length (rev pre ++ a :: b :: rest))) with true
      by (symmetry; apply Nat.ltb_lt; rewrite app_length, rev_length; cbn [length]; lia).
    destruct (idx_parts pre a b rest) as [E1 [E2 [E3 E4]]]. rewrite E1, E2, E3, E4.
    destruct (label_eqb (fst a) (fst b)).
    + destruct (negb (Bool.eqb (snd a) (snd b))); [|reflexivity].
      destruct pre as [|p pre'].
      * apply (IH _ [] rest).
      * cbn [length Nat.pred rev]. rewrite <- app_assoc. apply (IH _ pre' (p :: rest)).
    + destruct (op_lt b a).
      * destruct pre as [|p pre'].
        -- apply (IH _ [] (b :: a :: rest)).
        -- cbn [length Nat.pred rev]. rewrite <- app_assoc. apply (IH _ pre' (p :: b :: a :: rest)).
      * pose proof (IH s (a :: pre) (b :: rest)) as H. cbn [length rev] in H. rewrite <- app_assoc in H. exact H.
Qed.

Corollary resolve_raw_idx_eq (l r : list op) (p : bool) : resolve_raw_idx l r p = resolve_raw l r p.
Proof.
  unfold resolve_raw_idx, resolve_raw. destruct (is_nil l && is_nil r); [reflexivity|].
  exact (resolve_idx_loop _ _ [] (l ++ r)).
Qed.
