(* Proofs/TdotInst.v — property C02, blockwise strategy: the laws assumed by
   Proofs/Tdot.v hold for the five built-in symmetries and the two exact rings;
   a concrete instance on which all hypotheses of the theorems hold. *)
From SV Require Import Base.Prelude Base.Sym Base.Tensor Model.Sectors Model.Array Model.Wf
  Model.SymInst Proofs.TensorProofs Proofs.SymLaws Proofs.Tdot.
Local Open Scope nat_scope.

(* ------------------------------------------------------------------ *)
(* instantiation: the five built-in symmetries and the two exact rings satisfy
   every law assumed above, so for them only `wf_array` remains *)
Inductive builtin_sym : Symmetry -> Prop :=
| bs_Z2 : builtin_sym Z2 | bs_Z4 : builtin_sym Z4 | bs_U1 : builtin_sym U1
| bs_Z2Z2 : builtin_sym Z2Z2 | bs_U1U1 : builtin_sym U1U1.

Inductive exact_ring : Ring -> Prop := er_Z : exact_ring ZRing | er_G : exact_ring GRing.

Lemma exact_ring_laws R : exact_ring R -> SumLaws R.
Proof. intros []; [apply ZRing_sum_laws | apply GRing_sum_laws]. Qed.

Lemma builtin_ceqb G : builtin_sym G -> forall a b : C G, ceqb G a b = true <-> a = b.
Proof.
  intros []; apply ceqb_eq; [apply Z2_laws | apply Z4_laws | apply U1_laws | apply Z2Z2_laws | apply U1U1_laws].
Qed.

Lemma pair_ltb_irrefl x : pair_ltb x x = false.
Proof. unfold pair_ltb. rewrite !Z.ltb_irrefl, andb_false_r. reflexivity. Qed.

Lemma pair_ltb_trans x y z : pair_ltb x y = true -> pair_ltb y z = true -> pair_ltb x z = true.
Proof.
  unfold pair_ltb. rewrite !orb_true_iff, !andb_true_iff, !Z.ltb_lt, !Z.eqb_eq.
  generalize (fst x) (snd x) (fst y) (snd y) (fst z) (snd z). intros. lia.
Qed.

Lemma Zltb_trans x y z : Z.ltb x y = true -> Z.ltb y z = true -> Z.ltb x z = true.
Proof. rewrite !Z.ltb_lt. lia. Qed.

Lemma builtin_cltb_irrefl G : builtin_sym G -> forall c : C G, cltb G c c = false.
Proof. intros []; cbn [cltb Z2 Z4 U1 Z2Z2 U1U1]; first [apply Z.ltb_irrefl | apply pair_ltb_irrefl]. Qed.

Lemma builtin_cltb_trans G : builtin_sym G ->
  forall x y z : C G, cltb G x y = true -> cltb G y z = true -> cltb G x z = true.
Proof. intros []; cbn [cltb Z2 Z4 U1 Z2Z2 U1U1]; first [apply Zltb_trans | apply pair_ltb_trans]. Qed.

Theorem blockwise_sem_builtin G R (a b : aarray G R) (la aa ab rb : list nat) (cl cr : list (coord G)) :
  builtin_sym G -> exact_ring R ->
  wf_array G R a = true -> wf_array G R b = true ->
  axes_ok (ndim G R a) aa = true -> axes_ok (ndim G R b) ab = true -> length aa = length ab ->
  la = rest_axes (ndim G R a) aa -> rb = rest_axes (ndim G R b) ab ->
  coords_ok G (without_axes (indices G R a) aa) cl = true ->
  coords_ok G (without_axes (indices G R b) ab) cr = true ->
  sem G R (tdot_blockwise G R a b la aa ab rb) (cl ++ cr) =
  rsum R (map (fun kc => rmul R (sem G R a (merge G (ndim G R a) aa cl kc))
                                (sem G R b (merge G (ndim G R b) ab cr kc)))
              (all_coords G (take_axes (dflt_index G) (indices G R a) aa))).
Proof.
  intros HG HR. apply (blockwise_sem_wf G R (exact_ring_laws R HR) (builtin_ceqb G HG)).
  - now apply builtin_cltb_irrefl.
  - now apply builtin_cltb_trans.
Qed.

(* ------------------------------------------------------------------ *)
(* the hypotheses hold on a concrete non-trivial instance: U(1), rank 3 x rank 3,
   two contracted axes in permuted order, both operands sparse, two aligned
   block pairs accumulate into the result block (0, 0) *)
Module Ex.
  Local Open Scope Z_scope.
  Definition iota (sh : list nat) : tensor ZRing :=
    @mkT ZRing sh (map (fun i => Z.of_nat i + 1) (seq 0 (shape_size sh))).
  Definition a : aarray U1 ZRing :=
    mkA U1 ZRing
      [Index U1 [(0, 1%nat); (1, 2%nat)] false None;
       Index U1 [(0, 2%nat); (1, 1%nat)] false None;
       Index U1 [(0, 1%nat); (1, 2%nat); (2, 1%nat)] true None] 0
      [([0; 0; 0], iota [1; 2; 1]%nat); ([1; 0; 1], iota [2; 2; 2]%nat); ([1; 1; 2], iota [2; 1; 1]%nat)].
  Definition b : aarray U1 ZRing :=
    mkA U1 ZRing
      [Index U1 [(0, 1%nat); (1, 2%nat); (2, 1%nat)] false None;
       Index U1 [(0, 1%nat); (1, 2%nat)] true None;
       Index U1 [(0, 2%nat); (1, 1%nat); (2, 2%nat)] true None] 0
      [([1; 0; 1], iota [2; 1; 1]%nat); ([1; 1; 0], iota [2; 2; 2]%nat);
       ([2; 1; 1], iota [1; 2; 1]%nat); ([0; 0; 0], iota [1; 1; 2]%nat)].
  Definition aa := [2; 0]%nat.
  Definition ab := [0; 1]%nat.
  Definition la := rest_axes (ndim U1 ZRing a) aa.
  Definition rb := rest_axes (ndim U1 ZRing b) ab.
  Definition res := tdot_blockwise U1 ZRing a b la aa ab rb.

  Example hyps_hold :
    wf_array U1 ZRing a = true /\ wf_array U1 ZRing b = true /\
    axes_ok (ndim U1 ZRing a) aa = true /\ axes_ok (ndim U1 ZRing b) ab = true /\
    length aa = length ab /\
    charges_nodup U1 (take_axes (dflt_index U1) (indices U1 ZRing a) aa) = true.
  Proof. vm_compute. repeat split; reflexivity. Qed.

  (* the result has the blocks (0,0) (two contributions) and (1,1) *)
  Example res_sectors : sectors U1 ZRing res = [[0; 0]; [1; 1]].
  Proof. vm_compute. reflexivity. Qed.

  (* both sides of the theorem agree on every coordinate of the free tables (a
     computation, consistent with the theorem; some values are non-zero) *)
  Definition rhs (cl cr : list (coord U1)) : Z :=
    rsum ZRing (map (fun kc => rmul ZRing (sem U1 ZRing a (merge U1 (ndim U1 ZRing a) aa cl kc))
                                          (sem U1 ZRing b (merge U1 (ndim U1 ZRing b) ab cr kc)))
                    (all_coords U1 (take_axes (dflt_index U1) (indices U1 ZRing a) aa))).
  Example both_sides_agree :
    forallb (fun cl => forallb (fun cr =>
        coords_ok U1 (without_axes (indices U1 ZRing a) aa) cl &&
        coords_ok U1 (without_axes (indices U1 ZRing b) ab) cr &&
        Z.eqb (sem U1 ZRing res (cl ++ cr)) (rhs cl cr))
      (all_coords U1 (without_axes (indices U1 ZRing b) ab)))
      (all_coords U1 (without_axes (indices U1 ZRing a) aa)) = true.
  Proof. vm_compute. reflexivity. Qed.

  (* by hand: 2*1 from the pair (0,0,0)x(0,0,0) plus 3*1+4*5+7*3+8*7 from (1,0,1)x(1,1,0) *)
  Example a_value : sem U1 ZRing res [(0, 1%nat); (0, 0%nat)] = 102.
  Proof. vm_compute. reflexivity. Qed.

  Example instance_of_theorem cl cr :
    coords_ok U1 (without_axes (indices U1 ZRing a) aa) cl = true ->
    coords_ok U1 (without_axes (indices U1 ZRing b) ab) cr = true ->
    sem U1 ZRing res (cl ++ cr) = rhs cl cr.
  Proof.
    intros Hcl Hcr. destruct hyps_hold as [H1 [H2 [H3 [H4 [H5 H6]]]]].
    exact (blockwise_sem_builtin U1 ZRing a b la aa ab rb cl cr bs_U1 er_Z H1 H2 H3 H4 H5 eq_refl eq_refl Hcl Hcr).
  Qed.
End Ex.

(* the front end with negative axes reaches the same instance *)
Module ExFront.
  Import Ex.
  Local Open Scope Z_scope.
  Example parse_hyp :
    parse_axes (ndim U1 ZRing a) (ndim U1 ZRing b) (inr ([-1; 0], [0; -2])) = Some (aa, ab).
  Proof. vm_compute. reflexivity. Qed.

  Example instance_of_front_end cl cr :
    coords_ok U1 (without_axes (indices U1 ZRing a) aa) cl = true ->
    coords_ok U1 (without_axes (indices U1 ZRing b) ab) cr = true ->
    exists r, a_tensordot U1 ZRing a b (inr ([-1; 0], [0; -2])) MBlockwise = Some r /\
              sem U1 ZRing r (cl ++ cr) = rhs cl cr.
  Proof.
    intros Hcl Hcr. destruct hyps_hold as [H1 [H2 [H3 [H4 [H5 H6]]]]].
    exact (tensordot_blockwise_sem U1 ZRing ZRing_sum_laws (builtin_ceqb U1 bs_U1) a b _ aa ab cl cr
             parse_hyp H1 H2 H3 H4 H5 H6 Hcl Hcr).
  Qed.
End ExFront.

(* matrix product, Z2, Gaussian integers, the right operand sparse *)
Module ExMat.
  Local Open Scope Z_scope.
  Definition giota (sh : list nat) : tensor GRing :=
    @mkT GRing sh (map (fun i => (Z.of_nat i + 1, 2 - Z.of_nat i)) (seq 0 (shape_size sh))).
  Definition a : aarray Z2 GRing :=
    mkA Z2 GRing [Index Z2 [(0, 2%nat); (1, 3%nat)] false None; Index Z2 [(0, 2%nat); (1, 2%nat)] true None] 0
      [([0; 0], giota [2; 2]%nat); ([1; 1], giota [3; 2]%nat)].
  Definition b : aarray Z2 GRing :=
    mkA Z2 GRing [Index Z2 [(0, 2%nat); (1, 2%nat)] false None; Index Z2 [(0, 1%nat); (1, 2%nat)] true None] 1
      [([0; 1], giota [2; 2]%nat)].

  Example hyps_hold :
    ndim Z2 GRing a = 2%nat /\ ndim Z2 GRing b = 2%nat /\
    wf_array Z2 GRing a = true /\ wf_array Z2 GRing b = true /\
    charges_nodup Z2 [nth 1 (indices Z2 GRing a) (dflt_index Z2)] = true.
  Proof. vm_compute. repeat split; reflexivity. Qed.

  Example a_value :
    match a_matmul Z2 GRing a b with
    | Some r => sem Z2 GRing r [(0, 1%nat); (1, 0%nat)]
    | None => (0, 0)
    end = (3 * 1 - 0 * 2 + (4 * 3 - (-1) * 0), 3 * 2 + 0 * 1 + (4 * 0 + (-1) * 3)).
  Proof. vm_compute. reflexivity. Qed.

  Example instance_of_matmul l r :
    coords_ok Z2 [nth 0 (indices Z2 GRing a) (dflt_index Z2)] [l] = true ->
    coords_ok Z2 [nth 1 (indices Z2 GRing b) (dflt_index Z2)] [r] = true ->
    exists res, a_matmul Z2 GRing a b = Some res /\
      sem Z2 GRing res [l; r] =
      rsum GRing (map (fun k => rmul GRing (sem Z2 GRing a [l; k]) (sem Z2 GRing b [k; r]))
                      (index_coords Z2 (nth 1 (indices Z2 GRing a) (dflt_index Z2)))).
  Proof.
    intros Hl Hr. destruct hyps_hold as [H1 [H2 [H3 [H4 H5]]]].
    exact (matmul_sem Z2 GRing GRing_sum_laws (builtin_ceqb Z2 bs_Z2) a b l r H1 H2 H3 H4 H5 Hl Hr).
  Qed.
End ExMat.
