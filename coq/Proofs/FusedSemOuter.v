(* Proofs/FusedSemOuter.v -- property C06, the remaining case: NO contracted axis
   through the fused route (an outer product).  The two operands are fused into
   vectors (or stay scalars), multiplied blockwise, and the two legs are unfused.
   Part A is the unfuse of the legs of a product array, stated for any product
   array cc whose tables are the (pruned) fused free legs; Part B builds cc for
   aa = ab = [] and proves the value / index / everywhere statements; Part C
   combines it with Proofs/FusedSemGen.v into the statements of Props/C06.v
   without any restriction on the number of contracted axes. *)
From SV Require Import Base.Prelude Base.Sym Base.Tensor Model.Sectors Model.Array Model.Arith Model.Fermi
  Model.Wf Model.Valid Model.Fused Model.SymInst
  Proofs.FuseTensor Proofs.FuseProofs Proofs.SymLaws Proofs.GroupFacts Proofs.SectorsProofs Proofs.OrderProofs
  Proofs.TensorProofs Proofs.StructProofs Proofs.Tdot Proofs.WfProofs Proofs.FuseGroups Proofs.FuseGroupsWf
  Proofs.FusedProofs Proofs.FusedSem Proofs.FusedSemGen.
From Coq Require Import Permutation Sorting Lia.
Local Open Scope nat_scope.

(* ------------------------------------------------------------------ *)
(* Part A: unfusing the two legs of a product array *)
Section UnfoldProduct.
  Context (G : Symmetry) (R : Ring) (GL : GroupLaws G) (OL : OrderLaws G).
  Context (a b : aarray G R) (la rb : list nat) (gsA gsB : list (list nat)) (cc : aarray G R).
  Notation idc := (ident G).
  Notation dflt := (dflt_index G).
  Notation keq := (list_eqb (ceqb G)).
  Notation dc := (ident G, 0).
  Notation FIa := (fused_index G (indices G R a) (sectors G R a)).
  Notation FIb := (fused_index G (indices G R b) (sectors G R b)).
  Context (Hwa : wf_array G R a = true) (Hwb : wf_array G R b = true).
  Context (neA : Forall (fun g : list nat => g <> []) gsA) (ndA : NoDup (concat gsA))
          (rgA : Forall (fun ax => ax < length (indices G R a)) (concat gsA)).
  Context (neB : Forall (fun g : list nat => g <> []) gsB) (ndB : NoDup (concat gsB))
          (rgB : Forall (fun ax => ax < length (indices G R b)) (concat gsB)).
  Context (inA_la : la <> [] -> In la (slots (length (indices G R a)) gsA)).
  Context (inB_rb : rb <> [] -> In rb (slots (length (indices G R b)) gsB)).

  Definition oLA : list (list nat) := filter (fun g : list nat => negb (is_nil g)) [la].
  Definition oRB : list (list nat) := filter (fun g : list nat => negb (is_nil g)) [rb].
  Definition oIX0 : list (index G) := map FIa oLA ++ map FIb oRB.

  Context (cc_indices : indices G R cc = prune_indices G oIX0 (sectors G R cc)).
  Context (cc_nd : NoDup (sectors G R cc)).
  Context (cc_shape0 : forall K T, In (K, T) (blocks G R cc) -> length K = length oIX0 /\ tshape T = block_shape G oIX0 K).
  Context (cc_data : forall K T, In (K, T) (blocks G R cc) -> length (tdata T) = shape_size (tshape T)).

  Lemma oLA_nil : is_nil la = true -> oLA = [] /\ la = [].
  Proof. intros E. split; [unfold oLA; cbn [filter]; now rewrite E|now apply is_nil_true]. Qed.
  Lemma oLA_cons : is_nil la = false -> oLA = [la] /\ la <> [].
  Proof. intros E. split; [unfold oLA; cbn [filter]; now rewrite E|now apply is_nil_false]. Qed.
  Lemma oRB_nil : is_nil rb = true -> oRB = [] /\ rb = [].
  Proof. intros E. split; [unfold oRB; cbn [filter]; now rewrite E|now apply is_nil_true]. Qed.
  Lemma oRB_cons : is_nil rb = false -> oRB = [rb] /\ rb <> [].
  Proof. intros E. split; [unfold oRB; cbn [filter]; now rewrite E|now apply is_nil_false]. Qed.

  Lemma oIX0_len : length oIX0 = length oLA + length oRB.
  Proof. unfold oIX0. now rewrite app_length, !map_length. Qed.

  Definition odropped (i : nat) (ix : index G) : list (C G) :=
    filter (fun ch => negb (mem (ceqb G) ch (map (fun s => nth i s idc) (sectors G R cc)))) (icharges G ix).

  Lemma occ_kept i ix K T : In (K, T) (blocks G R cc) -> ~ In (nth i K idc) (odropped i ix).
  Proof.
    intros Hin Hd. unfold odropped in Hd. apply filter_In in Hd. destruct Hd as [_ Hd].
    assert (Hm : mem (ceqb G) (nth i K idc) (map (fun s => nth i s idc) (sectors G R cc)) = true).
    { apply (mem_In (ceqb G) (Hce G GL)). apply in_map_iff. exists K. split; [reflexivity|].
      unfold sectors. apply in_map_iff. exists (K, T). now split. }
    rewrite Hm in Hd. discriminate.
  Qed.

  Lemma occ_nth i : i < length oIX0 ->
    nth i (indices G R cc) dflt = drop_charges G (nth i oIX0 dflt) (odropped i (nth i oIX0 dflt)).
  Proof. intros Hi. rewrite cc_indices. rewrite (nth_prune_indices G) by exact Hi. reflexivity. Qed.

  Notation axR := (length oLA).
  Notation dropR := (odropped (length oLA) (FIb rb)).
  Notation dropL := (odropped 0 (FIa la)).

  Lemma oHYg_R : rb <> [] ->
    nth axR (indices G R cc) dflt = drop_charges G (FIb rb) dropR /\ nth axR oIX0 dflt = FIb rb /\
    axR < length oIX0 /\ (forall K T, In (K, T) (blocks G R cc) -> ~ In (nth axR K idc) dropR).
  Proof.
    intros Hne. destruct (oRB_cons (proj2 (is_nil_false rb) Hne)) as [ERB _].
    assert (Hn : nth axR oIX0 dflt = FIb rb).
    { unfold oIX0. rewrite ERB. cbn [map]. rewrite app_nth2 by (rewrite map_length; lia).
      rewrite map_length, Nat.sub_diag. reflexivity. }
    assert (Hl : axR < length oIX0) by (rewrite oIX0_len, ERB; cbn [length]; lia).
    split; [rewrite (occ_nth axR Hl), Hn; reflexivity|]. split; [exact Hn|]. split; [exact Hl|].
    intros K T Hin. now apply (occ_kept axR (FIb rb) K T).
  Qed.

  Definition oc1 : aarray G R := UY G R rb cc axR.
  Definition oIX1 : list (index G) := UIX G R b rb axR oIX0.

  Lemma oc1_nd : NoDup (sectors G R oc1).
  Proof. exact (UY_nd G R GL OL b gsB Hwb neB ndB rgB rb inB_rb cc axR dropR oIX0 cc_nd cc_shape0 oHYg_R). Qed.
  Lemma oc1_shape K T : In (K, T) (blocks G R oc1) -> length K = length oIX1 /\ tshape T = block_shape G oIX1 K.
  Proof. exact (UY_shape G R GL OL b gsB Hwb neB ndB rgB rb inB_rb cc axR dropR oIX0 cc_nd cc_shape0 oHYg_R K T). Qed.
  Lemma oc1_data K T : In (K, T) (blocks G R oc1) -> length (tdata T) = shape_size (tshape T).
  Proof. exact (UY_data G R GL OL b gsB Hwb neB ndB rgB rb inB_rb cc axR dropR oIX0 cc_nd cc_shape0 oHYg_R cc_data K T). Qed.

  Lemma oIX1_eq : oIX1 = map FIa oLA ++ take_axes dflt (indices G R b) rb.
  Proof.
    unfold oIX1, UIX, oIX0. rewrite <- (free_leg_ix G R b rb). fold oRB.
    destruct (Nat.ltb 1 (length rb)) eqn:E; [|reflexivity].
    apply Nat.ltb_lt in E.
    assert (Hne : rb <> []) by (intros E0; rewrite E0 in E; cbn in E; lia).
    destruct (oRB_cons (proj2 (is_nil_false rb) Hne)) as [-> _]. cbn [map].
    rewrite (replace_with_seq_middle (map FIa oLA) [] (FIb rb) _ axR) by apply map_length.
    now rewrite app_nil_r.
  Qed.

  Lemma oHYg_L : la <> [] ->
    nth 0 (indices G R oc1) dflt = drop_charges G (FIa la) dropL /\ nth 0 oIX1 dflt = FIa la /\
    0 < length oIX1 /\ (forall K T, In (K, T) (blocks G R oc1) -> ~ In (nth 0 K idc) dropL).
  Proof.
    intros Hne. destruct (oLA_cons (proj2 (is_nil_false la) Hne)) as [ELA _].
    assert (Hn0 : nth 0 oIX0 dflt = FIa la) by (unfold oIX0; rewrite ELA; reflexivity).
    assert (Hl0 : 0 < length oIX0) by (rewrite oIX0_len, ELA; cbn [length]; lia).
    assert (Hn1 : nth 0 oIX1 dflt = FIa la) by (rewrite oIX1_eq, ELA; reflexivity).
    assert (Hl1 : 0 < length oIX1) by (rewrite oIX1_eq, ELA; cbn [map app length]; lia).
    split; [|split; [exact Hn1|split; [exact Hl1|]]].
    - unfold oc1. rewrite (UY_indices G R GL OL b gsB Hwb neB ndB rgB rb inB_rb cc axR dropR oIX0 cc_nd cc_shape0 oHYg_R).
      destruct (Nat.ltb 1 (length rb)).
      + rewrite ELA. cbn [length]. rewrite nth0_replace1.
        * rewrite (occ_nth 0 Hl0), Hn0. reflexivity.
        * rewrite cc_indices, (length_prune_indices G). lia.
      + rewrite (occ_nth 0 Hl0), Hn0. reflexivity.
    - intros K' T' Hin.
      destruct (UY_from G R GL OL b gsB Hwb neB ndB rgB rb inB_rb cc axR dropR oIX0 cc_nd cc_shape0 oHYg_R K' T' Hin)
        as (K & T & HinK & Hf).
      destruct (oc1_shape K' T' Hin) as [Hl _].
      rewrite ELA in Hf. cbn [length] in Hf.
      rewrite (firstn1_nth0 K' K idc Hf) by (intros E; rewrite E in Hl; cbn in Hl; lia).
      now apply (occ_kept 0 (FIa la) K T).
  Qed.

  Definition oc2 : aarray G R := UY G R la oc1 0.
  Definition oIX2 : list (index G) := UIX G R a la 0 oIX1.
  Notation free := (take_axes dflt (indices G R a) la ++ take_axes dflt (indices G R b) rb).

  Lemma oIX2_eq : oIX2 = free.
  Proof.
    unfold oIX2, UIX. rewrite oIX1_eq. rewrite <- (free_leg_ix G R a la). fold oLA.
    destruct (Nat.ltb 1 (length la)) eqn:E; [|reflexivity].
    apply Nat.ltb_lt in E.
    assert (Hne : la <> []) by (intros E0; rewrite E0 in E; cbn in E; lia).
    destruct (oLA_cons (proj2 (is_nil_false la) Hne)) as [-> _]. cbn [map app].
    apply (replace_with_seq_middle [] _ (FIa la) _ 0 eq_refl).
  Qed.

  Lemma occ_ndim : ndim G R cc = length oLA + length oRB.
  Proof. unfold ndim. now rewrite cc_indices, (length_prune_indices G), oIX0_len. Qed.

  Lemma ounfuse_eq :
    (let c1' := if Nat.ltb 1 (length rb) then unfuse_or_keep G R cc (ndim G R cc - 1) else cc in
     if Nat.ltb 1 (length la) then unfuse_or_keep G R c1' 0 else c1') = oc2.
  Proof.
    cbv zeta. unfold oc2, oc1, UY.
    destruct (Nat.ltb 1 (length rb)) eqn:E; [|reflexivity].
    apply Nat.ltb_lt in E.
    assert (Hne : rb <> []) by (intros E0; rewrite E0 in E; cbn in E; lia).
    destruct (oRB_cons (proj2 (is_nil_false rb) Hne)) as [ERB _].
    replace (ndim G R cc - 1) with axR by (rewrite occ_ndim, ERB; cbn [length]; lia). reflexivity.
  Qed.

  Lemma oc2_nd : NoDup (sectors G R oc2).
  Proof. exact (UY_nd G R GL OL a gsA Hwa neA ndA rgA la inA_la oc1 0 dropL oIX1 oc1_nd oc1_shape oHYg_L). Qed.
  Lemma oc2_facts K T : In (K, T) (blocks G R oc2) ->
    length K = length free /\ tshape T = block_shape G free K /\ length (tdata T) = shape_size (tshape T).
  Proof.
    intros Hin.
    destruct (UY_shape G R GL OL a gsA Hwa neA ndA rgA la inA_la oc1 0 dropL oIX1 oc1_nd oc1_shape oHYg_L K T Hin) as [Hl Hsh].
    fold oIX2 in Hl, Hsh. rewrite oIX2_eq in Hl, Hsh. split; [exact Hl|]. split; [exact Hsh|].
    exact (UY_data G R GL OL a gsA Hwa neA ndA rgA la inA_la oc1 0 dropL oIX1 oc1_nd oc1_shape oHYg_L oc1_data K T Hin).
  Qed.
  Lemma oc2_indices : indices G R cc = oIX0 -> indices G R oc2 = free.
  Proof.
    intros Hcc. rewrite <- oIX2_eq. unfold oc2, oIX2, UIX.
    rewrite (UY_indices G R GL OL a gsA Hwa neA ndA rgA la inA_la oc1 0 dropL oIX1 oc1_nd oc1_shape oHYg_L).
    assert (E1 : indices G R oc1 = oIX1).
    { unfold oc1, oIX1, UIX.
      rewrite (UY_indices G R GL OL b gsB Hwb neB ndB rgB rb inB_rb cc axR dropR oIX0 cc_nd cc_shape0 oHYg_R).
      now rewrite Hcc. }
    now rewrite E1.
  Qed.

  Section OCoords.
    Context (csl csr : list (coord G)).
    Context (Hcl' : coords_ok G (take_axes dflt (indices G R a) la) csl = true).
    Context (Hcr' : coords_ok G (take_axes dflt (indices G R b) rb) csr = true).

    Lemma olen_csl : length csl = length la.
    Proof. rewrite (coords_ok_length G _ _ Hcl'). apply length_take_axes. Qed.
    Lemma olen_csr : length csr = length rb.
    Proof. rewrite (coords_ok_length G _ _ Hcr'). apply length_take_axes. Qed.

    Definition oflL : list (coord G) := if is_nil la then [] else [scoP G R a la csl].
    Definition ofrL : list (coord G) := if is_nil rb then [] else [scoP G R b rb csr].
    Definition ookL : Prop := 2 <= length la -> exists s', In s' (sectors G R a) /\ group_subsector G s' la = map fst csl.
    Definition ookR : Prop := 2 <= length rb -> exists s', In s' (sectors G R b) /\ group_subsector G s' rb = map fst csr.

    Lemma oflL_len : length oflL = length oLA.
    Proof. unfold oflL, oLA. cbn [filter]. now destruct (is_nil la). Qed.
    Lemma ofrL_len : length ofrL = length oRB.
    Proof. unfold ofrL, oRB. cbn [filter]. now destruct (is_nil rb). Qed.

    Lemma oflL_ok : ookL -> coords_ok G (map FIa oLA) oflL = true.
    Proof.
      intros Hok. unfold oflL. destruct (is_nil la) eqn:En.
      - destruct (oLA_nil En) as [-> _]. reflexivity.
      - destruct (oLA_cons En) as [-> Hne]. cbn [map].
        apply (scoP_coords_ok G R GL OL a gsA Hwa neA ndA rgA la csl (inA_la Hne) Hcl').
        intros Es. apply Hok. exact (nonsinglet_len G R a la Hne Es).
    Qed.
    Lemma ofrL_ok : ookR -> coords_ok G (map FIb oRB) ofrL = true.
    Proof.
      intros Hok. unfold ofrL. destruct (is_nil rb) eqn:En.
      - destruct (oRB_nil En) as [-> _]. reflexivity.
      - destruct (oRB_cons En) as [-> Hne]. cbn [map].
        apply (scoP_coords_ok G R GL OL b gsB Hwb neB ndB rgB rb csr (inB_rb Hne) Hcr').
        intros Es. apply Hok. exact (nonsinglet_len G R b rb Hne Es).
    Qed.

    Lemma oIX2_coords : coords_ok G oIX2 ([] ++ csl ++ csr) = true.
    Proof. rewrite oIX2_eq. cbn [app]. apply coords_ok_app; [exact Hcl'|exact Hcr']. Qed.
    Lemma oIX1_coords : ookL -> coords_ok G oIX1 (oflL ++ csr ++ []) = true.
    Proof. intros Hok. rewrite oIX1_eq, app_nil_r. apply coords_ok_app; [now apply oflL_ok|exact Hcr']. Qed.

    Lemma oU_noneL : 2 <= length la ->
      (forall s', In s' (sectors G R a) -> group_subsector G s' la <> map fst csl) ->
      sem G R oc2 (csl ++ csr) = r0 R.
    Proof.
      intros H2 Hno. unfold oc2. change (csl ++ csr) with ([] ++ csl ++ csr).
      apply (UY_none G R GL OL a gsA Hwa neA ndA rgA la inA_la oc1 0 dropL oIX1 oc1_nd oc1_shape oHYg_L
               [] csl csr H2 eq_refl olen_csl Hno).
    Qed.

    Lemma oU_step1 : ookL -> sem G R oc2 (csl ++ csr) = sem G R oc1 (oflL ++ csr ++ []).
    Proof.
      intros HokL. unfold oc2. change (csl ++ csr) with ([] ++ csl ++ csr).
      etransitivity;
        [apply (UY_sem G R GL OL a gsA Hwa neA ndA rgA la inA_la oc1 0 dropL oIX1 oc1_nd oc1_shape oHYg_L
                  [] csl csr eq_refl olen_csl HokL (fun _ => oIX2_coords))|].
      cbn [app]. fold oflL. now rewrite app_nil_r.
    Qed.

    Lemma oU_noneR : ookL -> 2 <= length rb ->
      (forall s', In s' (sectors G R b) -> group_subsector G s' rb <> map fst csr) ->
      sem G R oc2 (csl ++ csr) = r0 R.
    Proof.
      intros HokL H2 Hno. rewrite (oU_step1 HokL). unfold oc1.
      apply (UY_none G R GL OL b gsB Hwb neB ndB rgB rb inB_rb cc axR dropR oIX0 cc_nd cc_shape0 oHYg_R
               oflL csr [] H2 oflL_len olen_csr Hno).
    Qed.

    Lemma oU_sem : ookL -> ookR -> sem G R oc2 (csl ++ csr) = sem G R cc (oflL ++ ofrL).
    Proof.
      intros HokL HokR. rewrite (oU_step1 HokL). unfold oc1.
      etransitivity;
        [apply (UY_sem G R GL OL b gsB Hwb neB ndB rgB rb inB_rb cc axR dropR oIX0 cc_nd cc_shape0 oHYg_R
                  oflL csr [] oflL_len olen_csr HokR (fun _ => oIX1_coords HokL))|].
      fold ofrL. now rewrite app_nil_r.
    Qed.
  End OCoords.
End UnfoldProduct.

(* ------------------------------------------------------------------ *)
(* Part B: no contracted axis *)
Lemma without_nil {A} (d : A) (l : list A) : without_axes l [] = l.
Proof.
  rewrite (without_axes_take d). unfold rest_axes. rewrite filter_all by (intros; reflexivity). apply take_seq.
Qed.

Lemma rest_axes_nil n : rest_axes n [] = seq 0 n.
Proof. unfold rest_axes. apply filter_all. intros; reflexivity. Qed.

Lemma merge_nil (G : Symmetry) n (fl : list (coord G)) : length fl = n -> merge G n [] fl [] = fl.
Proof.
  intros Hl. unfold merge.
  pose proof (scatterA_take (ident G, 0) fl []) as H.
  rewrite rest_axes_nil, take_seq in H. subst n. exact H.
Qed.

Lemma fused_charge_from' (G : Symmetry) (R : Ring) (GL : GroupLaws G) (OL : OrderLaws G)
      (x : aarray G R) (gs : list (list nat)) (g : list nat) c :
    wf_array G R x = true -> Forall (fun g : list nat => g <> []) gs -> NoDup (concat gs) ->
    Forall (fun ax => ax < length (indices G R x)) (concat gs) ->
    (forall ax c, ax < ndim G R x -> In c (icharges G (nth ax (indices G R x) (dflt_index G))) ->
       exists s, In s (sectors G R x) /\ nth ax s (ident G) = c) ->
    In g (slots (length (indices G R x)) gs) ->
    In c (icharges G (fused_index G (indices G R x) (sectors G R x) g)) ->
    exists s, In s (sectors G R x) /\ group_charge G (indices G R x) s g = c.
  Proof.
    intros Hwx Hne Hnd Hrng Hpres Hg Hc.
    destruct (slot_facts G R x gs Hne Hnd Hrng g Hg) as (_ & Hlt & Hgne).
    destruct (is_singlet g) eqn:Es.
    - destruct (singlet_inv g Es) as (g0 & ->).
      change (fused_index G (indices G R x) (sectors G R x) [g0]) with (nth g0 (indices G R x) (dflt_index G)) in Hc.
      rewrite Forall_forall in Hlt. destruct (Hpres g0 c (Hlt g0 (or_introl eq_refl)) Hc) as (s & Hs & E).
      exists s. split; [exact Hs|]. exact E.
    - pose proof (nonsinglet_len G R x g Hgne Es) as Hglen.
      assert (Hsit := Hsecs' G R GL x g Hwx Hlt Hglen).
      assert (Hixok : Forall (fun ix => cm_ok G (chargemap G ix) = true) (indices G R x)).
      { destruct (wfp G R GL x Hwx) as (H & _). eapply Forall_impl; [|exact H]. intros ix. apply (wf_index_cm_ok G). }
      unfold icharges in Hc. apply in_map_iff in Hc. destruct Hc as ([c' d] & E & Hcd). cbn [fst] in E. subst c'.
      destruct (fused_extents_partition G GL OL (indices G R x) (sectors G R x) g Hixok Hsit Es _ _
                  (fused_isub G (indices G R x) (sectors G R x) g Es) c d Hcd) as (Hszd & e & He & Hsum & _ & Hall).
      destruct (fused_chargemap_sorted G GL OL (indices G R x) (sectors G R x) g Hixok Hsit Es) as [_ Hpos].
      rewrite Forall_forall in Hpos. destruct (Hpos _ Hcd) as [_ Hd]. cbn [snd] in Hd.
      destruct e as [|p e']; [cbn in Hsum; lia|].
      inversion Hall as [|? ? (s & Hs & _ & _ & Hgc) _]; subst. exists s. now split.
  Qed.


Section OuterProduct.
  Context (G : Symmetry) (R : Ring) (GL : GroupLaws G) (OL : OrderLaws G) (RL : SumLaws R).
  Context (a b : aarray G R) (la rb : list nat).
  Notation idc := (ident G).
  Notation dflt := (dflt_index G).
  Notation keq := (list_eqb (ceqb G)).
  Notation dc := (ident G, 0).
  Notation FIa := (fused_index G (indices G R a) (sectors G R a)).
  Notation FIb := (fused_index G (indices G R b) (sectors G R b)).
  Context (Hla : la = rest_axes (ndim G R a) []) (Hrb : rb = rest_axes (ndim G R b) []).
  Context (Hwa : wf_array G R a = true) (Hwb : wf_array G R b = true).
  Context (HpresA : forall ax c, ax < ndim G R a -> In c (icharges G (nth ax (indices G R a) dflt)) ->
             exists s, In s (sectors G R a) /\ nth ax s idc = c).
  Context (HpresB : forall ax c, ax < ndim G R b -> In c (icharges G (nth ax (indices G R b) dflt)) ->
             exists s, In s (sectors G R b) /\ nth ax s idc = c).

  (* one operand fused into a vector (or left alone when it has no axis) *)
  Lemma vec_facts (x : aarray G R) (g : list nat) (pair : list (list nat)) :
    wf_array G R x = true -> g = rest_axes (ndim G R x) [] -> (pair = [g; []] \/ pair = [[]; g]) ->
    let LG := oLA g in
    let XF := a_fuse_noexpand G R x pair in
    Forall (fun g0 : list nat => g0 <> []) LG /\ NoDup (concat LG) /\
    Forall (fun ax => ax < length (indices G R x)) (concat LG) /\
    (g <> [] -> In g (slots (length (indices G R x)) LG)) /\
    wf_array G R XF = true /\
    indices G R XF = map (fused_index G (indices G R x) (sectors G R x)) LG /\
    (forall cs : list (coord G), coords_ok G (indices G R x) cs = true ->
       (2 <= length g -> exists s', In s' (sectors G R x) /\ group_subsector G s' g = map fst cs) ->
       sem G R XF (if is_nil g then [] else [scoP G R x g cs]) = sem G R x cs) /\
    (forall s, In s (sectors G R x) -> exists T, In (map (group_charge G (indices G R x) s) LG, T) (blocks G R XF)).
  Proof.
    intros Hwx Hg Hpair. cbn zeta. rewrite rest_axes_nil in Hg.
    assert (Hlen : length g = ndim G R x) by (rewrite Hg; apply seq_length).
    destruct (is_nil g) eqn:En.
    - (* no axis *)
      apply is_nil_true in En.
      assert (HXF : a_fuse_noexpand G R x pair = x) by (destruct Hpair as [-> | ->]; rewrite En; reflexivity).
      rewrite HXF. unfold oLA. rewrite En. cbn [filter is_nil negb concat map].
      assert (Hn0 : indices G R x = []) by (rewrite En in Hlen; cbn in Hlen; unfold ndim in Hlen; now destruct (indices G R x)).
      split; [constructor|]. split; [constructor|]. split; [constructor|]. split; [congruence|]. split; [exact Hwx|].
      split; [exact Hn0|]. split.
      + intros cs Hc _. pose proof (coords_ok_length G _ _ Hc) as Hl. rewrite Hn0 in Hl. destruct cs; [reflexivity|discriminate].
      + intros s Hs. destruct (secs_ex G R x s Hs) as (T & HT). exists T.
        destruct (wfp G R GL x Hwx) as (_ & _ & H). destruct (H _ _ HT) as (Hl & _). rewrite Hn0 in Hl.
        destruct s; [exact HT|discriminate].
    - apply is_nil_false in En.
      assert (Hnd : NoDup g) by (rewrite Hg; apply seq_NoDup).
      assert (Hcov : forall ax, In ax g <-> ax < ndim G R x) by (intros ax; rewrite Hg, in_seq; lia).
      assert (EL : oLA g = [g]) by (unfold oLA; cbn [filter]; destruct g; [congruence|reflexivity]).
      rewrite EL.
      assert (Hgs : exists g1 g2, pair = [g1; g2] /\ NoDup (g1 ++ g2) /\ (forall ax, In ax (g1 ++ g2) <-> ax < ndim G R x) /\
                      g1 ++ g2 <> [] /\ filter (fun g0 : list nat => negb (is_nil g0)) [g1; g2] = [g]).
      { assert (Hfg : forall l : list nat, l <> [] -> negb (is_nil l) = true) by (intros [|? ?] H; [congruence|reflexivity]).
        destruct Hpair as [-> | ->].
        - exists g, []. rewrite app_nil_r. split; [reflexivity|]. split; [exact Hnd|]. split; [exact Hcov|].
          split; [exact En|]. cbn [filter is_nil negb]. now rewrite (Hfg g En).
        - exists [], g. cbn [app]. split; [reflexivity|]. split; [exact Hnd|]. split; [exact Hcov|].
          split; [exact En|]. cbn [filter is_nil negb]. now rewrite (Hfg g En). }
      destruct Hgs as (g1 & g2 & -> & Hnd2 & Hcov2 & Hne2 & Hfil).
      destruct (GS_all G R GL OL x g1 g2 Hwx Hnd2 Hcov2 Hne2) as (P1 & P2 & P3 & P4 & P5 & P6 & P7 & P8).
      rewrite Hfil in P1, P2, P3, P4, P5, P6, P7, P8. rewrite P4.
      split; [exact P1|]. split; [exact P2|]. split; [exact P3|]. split; [intros _; rewrite P6; now left|].
      split; [exact P7|]. split; [exact P5|]. split.
      + intros cs Hc Hrec.
        replace (is_nil g) with false by (symmetry; now apply is_nil_false).
        assert (Ht : take_axes dc cs g = cs).
        { rewrite Hg. unfold ndim. rewrite <- (coords_ok_length G _ _ Hc). apply take_seq. }
        rewrite <- (P8 cs Hc).
        * cbn [map]. now rewrite Ht.
        * intros g0 Hg0 Es. rewrite P6 in Hg0. destruct Hg0 as [<-|[]].
          destruct (Hrec (nonsinglet_len G R x g En Es)) as (s' & Hs' & E). exists s'. split; [exact Hs'|].
          rewrite E. unfold group_subsector. rewrite <- (take_map fst dc). now rewrite Ht.
      + intros s Hs. destruct (secs_ex G R x s Hs) as (t & Ht).
        destruct (fuse_layout_groups_thm G R GL OL x [g] Hwx P1 P2 P3) as (_ & _ & _ & _ & _ & Hown & _).
        destruct (Hown s t Ht) as (T & HT & _). exists T.
        apply (OrderProofs.lookup_In keq (Hke G GL)) in HT.
        rewrite (fused_sector_slots G), P6 in HT. exact HT.
  Qed.
  Context (HneA : blocks G R a <> []) (HneB : blocks G R b <> []).

  Notation AF := (a_fuse_noexpand G R a [la; []]).
  Notation BF := (a_fuse_noexpand G R b [[]; rb]).
  Definition ola' : list nat := if is_nil la then [] else [0].
  Definition orb' : list nat := if is_nil rb then [] else [0].
  Notation occ := (tdot_blockwise G R (a_fuse_noexpand G R a [la; []]) (a_fuse_noexpand G R b [[]; rb]) ola' [] [] orb').
  Notation LA := (oLA la).
  Notation RB := (oRB rb).
  Notation IX0 := (oIX0 G R a b la rb).
  Notation ww := (tdot_blockwise G R a b la [] [] rb).
  Notation free := (take_axes dflt (indices G R a) la ++ take_axes dflt (indices G R b) rb).

  Definition VA := vec_facts a la [la; []] Hwa Hla (or_introl eq_refl).
  Definition VB := vec_facts b rb [[]; rb] Hwb Hrb (or_intror eq_refl).

  Lemma oneA : Forall (fun g0 : list nat => g0 <> []) LA. Proof. apply VA. Qed.
  Lemma ondA : NoDup (concat LA). Proof. apply VA. Qed.
  Lemma orgA : Forall (fun ax => ax < length (indices G R a)) (concat LA). Proof. apply VA. Qed.
  Lemma oinA : la <> [] -> In la (slots (length (indices G R a)) LA). Proof. apply VA. Qed.
  Lemma AF_wf : wf_array G R AF = true. Proof. apply VA. Qed.
  Lemma AF_indices : indices G R AF = map FIa LA. Proof. apply VA. Qed.
  Lemma oneB : Forall (fun g0 : list nat => g0 <> []) RB. Proof. apply VB. Qed.
  Lemma ondB : NoDup (concat RB). Proof. apply VB. Qed.
  Lemma orgB : Forall (fun ax => ax < length (indices G R b)) (concat RB). Proof. apply VB. Qed.
  Lemma oinB : rb <> [] -> In rb (slots (length (indices G R b)) RB). Proof. apply VB. Qed.
  Lemma BF_wf : wf_array G R BF = true. Proof. apply VB. Qed.
  Lemma BF_indices : indices G R BF = map FIb RB. Proof. apply VB. Qed.

  Lemma LA_len : length LA = if is_nil la then 0 else 1.
  Proof. unfold oLA. cbn [filter]. now destruct (is_nil la). Qed.
  Lemma RB_len : length RB = if is_nil rb then 0 else 1.
  Proof. unfold oRB. cbn [filter]. now destruct (is_nil rb). Qed.
  Lemma AF_ndim : ndim G R AF = length LA.
  Proof. unfold ndim. now rewrite AF_indices, map_length. Qed.
  Lemma BF_ndim : ndim G R BF = length RB.
  Proof. unfold ndim. now rewrite BF_indices, map_length. Qed.
  Lemma ola_eq : ola' = rest_axes (ndim G R AF) [].
  Proof. rewrite AF_ndim, LA_len, rest_axes_nil. unfold ola'. now destruct (is_nil la). Qed.
  Lemma orb_eq : orb' = rest_axes (ndim G R BF) [].
  Proof. rewrite BF_ndim, RB_len, rest_axes_nil. unfold orb'. now destruct (is_nil rb). Qed.

  Lemma occ_indices : indices G R occ = prune_indices G IX0 (sectors G R occ).
  Proof.
    unfold tdot_blockwise. cbn [indices sectors blocks].
    rewrite !(without_nil dflt), AF_indices, BF_indices. reflexivity.
  Qed.

  Lemma occ_wf : wf_array G R occ = true.
  Proof.
    rewrite ola_eq, orb_eq.
    apply (tdot_blockwise_wf G GL R OL AF BF [] [] AF_wf BF_wf).
    - constructor.
    - intros i [].
    - constructor.
    - intros i [].
    - reflexivity.
    - intros k Hk. cbn in Hk. lia.
  Qed.
  Lemma occ_WF : WF G R (indices G R occ) (charge G R occ) (blocks G R occ).
  Proof. apply (wf_array_iff G GL R occ). exact occ_wf. Qed.
  Lemma occ_nd : NoDup (sectors G R occ).
  Proof. exact (wf_nd G R _ _ _ occ_WF). Qed.
  Lemma occ_shape0 K T : In (K, T) (blocks G R occ) -> length K = length IX0 /\ tshape T = block_shape G IX0 K.
  Proof.
    intros Hin. destruct (wf_bl G R _ _ _ occ_WF K T Hin) as ((Hl & _) & Hsh & _).
    rewrite occ_indices, (length_prune_indices G) in Hl. split; [exact Hl|].
    rewrite Hsh, occ_indices. apply (block_shape_prune G GL); [|exact Hl].
    unfold sectors. apply in_map_iff. exists (K, T). now split.
  Qed.
  Lemma occ_data K T : In (K, T) (blocks G R occ) -> length (tdata T) = shape_size (tshape T).
  Proof. intros Hin. destruct (wf_bl G R _ _ _ occ_WF K T Hin) as (_ & _ & Hd). exact Hd. Qed.

  Notation c2 := (oc2 G R la rb occ).

  Lemma la_all : take_axes dflt (indices G R a) la = indices G R a.
  Proof. rewrite Hla, rest_axes_nil. apply take_seq. Qed.
  Lemma rb_all : take_axes dflt (indices G R b) rb = indices G R b.
  Proof. rewrite Hrb, rest_axes_nil. apply take_seq. Qed.

  Lemma ofused_on_eq : fused_on G R a b la [] [] rb = c2.
  Proof.
    unfold fused_on. cbv zeta. cbn [is_nil]. fold ola' orb'.
    exact (ounfuse_eq G R a b la rb RB occ oinB occ_indices).
  Qed.

  (* the key of every pair of stored sectors is a key of the product *)
  Lemma occ_key sa sb : In sa (sectors G R a) -> In sb (sectors G R b) ->
    In (map (group_charge G (indices G R a) sa) LA ++ map (group_charge G (indices G R b) sb) RB) (sectors G R occ).
  Proof.
    intros Hsa Hsb.
    destruct (proj2 (proj2 (proj2 (proj2 (proj2 (proj2 (proj2 VA)))))) sa Hsa) as (Ta & HTa).
    destruct (proj2 (proj2 (proj2 (proj2 (proj2 (proj2 (proj2 VB)))))) sb Hsb) as (Tb & HTb).
    pose proof (pair_key G R GL AF BF ola' [] [] orb' _ Ta _ Tb HTa HTb eq_refl) as Hk.
    change (oLA rb) with RB in Hk.
    assert (E1 : take_axes idc (map (group_charge G (indices G R a) sa) LA) ola' = map (group_charge G (indices G R a) sa) LA).
    { unfold ola', oLA. cbn [filter]. destruct (is_nil la); reflexivity. }
    assert (E2 : take_axes idc (map (group_charge G (indices G R b) sb) RB) orb' = map (group_charge G (indices G R b) sb) RB).
    { unfold orb', oRB. cbn [filter]. destruct (is_nil rb); reflexivity. }
    now rewrite E1, E2 in Hk.
  Qed.

  Lemma some_sa : exists sa, In sa (sectors G R a).
  Proof. destruct (blocks G R a) as [|[s t] l] eqn:E; [congruence|]. exists s. unfold sectors. rewrite E. now left. Qed.
  Lemma some_sb : exists sb, In sb (sectors G R b).
  Proof. destruct (blocks G R b) as [|[s t] l] eqn:E; [congruence|]. exists s. unfold sectors. rewrite E. now left. Qed.

  Lemma occ_indices_eq : indices G R occ = IX0.
  Proof.
    rewrite occ_indices. apply (prune_id G GL). intros i c Hi Hc. rewrite (oIX0_len G R a b la rb) in Hi. unfold oIX0 in Hc.
    destruct (Nat.lt_ge_cases i (length LA)) as [Hl|Hl].
    - rewrite app_nth1 in Hc by (now rewrite map_length).
      assert (En : is_nil la = false) by (destruct (is_nil la) eqn:E; [rewrite LA_len, E in Hl; lia|reflexivity]).
      destruct (oLA_cons la En) as [ELA Hne]. rewrite ELA in Hl, Hc. cbn [length] in Hl. assert (i = 0) by lia. subst i.
      cbn [map nth] in Hc.
      destruct (fused_charge_from' G R GL OL a LA la c Hwa oneA ondA orgA HpresA (oinA Hne) Hc) as (sa & Hsa & Ega).
      destruct some_sb as (sb & Hsb).
      eexists. split; [exact (occ_key sa sb Hsa Hsb)|].
      rewrite ELA. cbn [map app nth]. exact Ega.
    - rewrite app_nth2 in Hc by (now rewrite map_length). rewrite map_length in Hc.
      assert (En : is_nil rb = false) by (destruct (is_nil rb) eqn:E; [rewrite RB_len, E in Hi; lia|reflexivity]).
      destruct (oRB_cons rb En) as [ERB Hne]. rewrite ERB in Hi, Hc. cbn [length] in Hi.
      assert (Ei : i - length LA = 0) by lia. rewrite Ei in Hc. cbn [map nth] in Hc.
      destruct (fused_charge_from' G R GL OL b RB rb c Hwb oneB ondB orgB HpresB (oinB Hne) Hc) as (sb & Hsb & Egb).
      destruct some_sa as (sa & Hsa).
      eexists. split; [exact (occ_key sa sb Hsa Hsb)|].
      rewrite app_nth2 by (now rewrite map_length). rewrite map_length, Ei, ERB. cbn [map nth]. exact Egb.
  Qed.

  Lemma oc2_indices_eq : indices G R c2 = free.
  Proof.
    exact (oc2_indices G R GL OL a b la rb LA RB occ Hwa Hwb oneA ondA orgA oneB ondB orgB oinA oinB
             occ_indices occ_nd occ_shape0 occ_data occ_indices_eq).
  Qed.

  Lemma oww_indices : indices G R ww = free.
  Proof.
    change (indices G R ww) with (prune_indices G (without_axes (indices G R a) [] ++ without_axes (indices G R b) []) (sectors G R ww)).
    rewrite !(without_nil dflt), la_all, rb_all.
    apply (prune_id G GL). intros i c Hi Hc. rewrite app_length in Hi.
    destruct some_sa as (sa0 & Hsa0). destruct some_sb as (sb0 & Hsb0).
    destruct (Nat.lt_ge_cases i (length (indices G R a))) as [Hl|Hl].
    - rewrite app_nth1 in Hc by exact Hl.
      destruct (HpresA i c Hl Hc) as (sa & Hsa & Ea).
      destruct (secs_ex G R a sa Hsa) as (ta & Hta). destruct (secs_ex G R b sb0 Hsb0) as (tb & Htb).
      exists (take_axes idc sa la ++ take_axes idc sb0 rb).
      split; [exact (pair_key G R GL a b la [] [] rb sa ta sb0 tb Hta Htb eq_refl)|].
      destruct (wfp G R GL a Hwa) as (_ & _ & H). destruct (H _ _ Hta) as (Hls & _).
      assert (Et : take_axes idc sa la = sa) by (rewrite Hla, rest_axes_nil; unfold ndim; rewrite <- Hls; apply take_seq).
      rewrite Et. rewrite app_nth1 by lia. exact Ea.
    - rewrite app_nth2 in Hc by exact Hl.
      destruct (HpresB (i - length (indices G R a)) c ltac:(unfold ndim; lia) Hc) as (sb & Hsb & Eb).
      destruct (secs_ex G R a sa0 Hsa0) as (ta & Hta). destruct (secs_ex G R b sb Hsb) as (tb & Htb).
      exists (take_axes idc sa0 la ++ take_axes idc sb rb).
      split; [exact (pair_key G R GL a b la [] [] rb sa0 ta sb tb Hta Htb eq_refl)|].
      destruct (wfp G R GL a Hwa) as (_ & _ & H). destruct (H _ _ Hta) as (Hls & _).
      destruct (wfp G R GL b Hwb) as (_ & _ & H'). destruct (H' _ _ Htb) as (Hlsb & _).
      assert (Et : take_axes idc sa0 la = sa0) by (rewrite Hla, rest_axes_nil; unfold ndim; rewrite <- Hls; apply take_seq).
      assert (Etb : take_axes idc sb rb = sb) by (rewrite Hrb, rest_axes_nil; unfold ndim; rewrite <- Hlsb; apply take_seq).
      rewrite Et, Etb. rewrite app_nth2 by lia. rewrite Hls. exact Eb.
  Qed.

  Theorem ofused_indices_eq : indices G R (fused_on G R a b la [] [] rb) = indices G R ww.
  Proof. now rewrite ofused_on_eq, oc2_indices_eq, oww_indices. Qed.
  (* ---------------- values ---------------- *)
  Notation UPs := (fun (P : Prop) => P).

  Lemma sem_a_unrec (cs : list (coord G)) : length cs = ndim G R a ->
    (forall s', In s' (sectors G R a) -> group_subsector G s' la <> map fst cs) -> sem G R a cs = r0 R.
  Proof.
    intros Hl Hno. unfold sem. destruct (lookup keq (map fst cs) (blocks G R a)) as [t|] eqn:E; [exfalso|reflexivity].
    apply (OrderProofs.lookup_In keq (Hke G GL)) in E. apply (Hno _ (In_secs G R a _ t E)).
    unfold group_subsector. rewrite Hla, rest_axes_nil.
    replace (ndim G R a) with (length (map fst cs)) by (rewrite map_length; exact Hl). apply take_seq.
  Qed.
  Lemma sem_b_unrec (cs : list (coord G)) : length cs = ndim G R b ->
    (forall s', In s' (sectors G R b) -> group_subsector G s' rb <> map fst cs) -> sem G R b cs = r0 R.
  Proof.
    intros Hl Hno. unfold sem. destruct (lookup keq (map fst cs) (blocks G R b)) as [t|] eqn:E; [exfalso|reflexivity].
    apply (OrderProofs.lookup_In keq (Hke G GL)) in E. apply (Hno _ (In_secs G R b _ t E)).
    unfold group_subsector. rewrite Hrb, rest_axes_nil.
    replace (ndim G R b) with (length (map fst cs)) by (rewrite map_length; exact Hl). apply take_seq.
  Qed.

  Section OC.
    Context (csl csr : list (coord G)).
    Context (Hcl : coords_ok G (indices G R a) csl = true) (Hcr : coords_ok G (indices G R b) csr = true).

    Lemma oHcl' : coords_ok G (take_axes dflt (indices G R a) la) csl = true.
    Proof. now rewrite la_all. Qed.
    Lemma oHcr' : coords_ok G (take_axes dflt (indices G R b) rb) csr = true.
    Proof. now rewrite rb_all. Qed.

    Lemma oW : sem G R ww (csl ++ csr) = rmul R (sem G R a csl) (sem G R b csr).
    Proof.
      rewrite (blockwise_sem_wf G R RL (ceqb_spec G GL) a b la [] [] rb csl csr);
        try assumption; try reflexivity; try apply OL; try (now rewrite (without_nil dflt)).
      change (take_axes dflt (indices G R a) []) with (@nil (index G)).
      change (all_coords G []) with [@nil (coord G)]. cbn [map]. rewrite (rsum_single R RL).
      rewrite !merge_nil; [reflexivity| |].
      - exact (coords_ok_length G _ _ Hcr).
      - exact (coords_ok_length G _ _ Hcl).
    Qed.

    Notation flL := (oflL G R a la csl).
    Notation frL := (ofrL G R b rb csr).
    Notation okL := (ookL G R a la csl).
    Notation okR := (ookR G R b rb csr).

    Lemma oP : okL -> okR -> sem G R occ (flL ++ frL) = rmul R (sem G R AF flL) (sem G R BF frL).
    Proof.
      intros HokL HokR.
      assert (HfL : coords_ok G (map FIa LA) flL = true).
      { exact (oflL_ok G R GL OL a la LA Hwa oneA ondA orgA oinA csl oHcl' HokL). }
      assert (HfR : coords_ok G (map FIb RB) frL = true).
      { exact (ofrL_ok G R GL OL b rb RB Hwb oneB ondB orgB oinB csr oHcr' HokR). }
      rewrite (blockwise_sem_wf G R RL (ceqb_spec G GL) AF BF ola' [] [] orb' flL frL).
      - change (take_axes dflt (indices G R AF) []) with (@nil (index G)).
        change (all_coords G []) with [@nil (coord G)]. cbn [map]. rewrite (rsum_single R RL).
        rewrite !merge_nil; [reflexivity| |].
        + rewrite BF_ndim. apply (ofrL_len G R b rb csr).
        + rewrite AF_ndim. apply (oflL_len G R a la csl).
      - apply OL.
      - apply OL.
      - exact AF_wf.
      - exact BF_wf.
      - reflexivity.
      - reflexivity.
      - reflexivity.
      - exact ola_eq.
      - exact orb_eq.
      - now rewrite (without_nil dflt), AF_indices.
      - now rewrite (without_nil dflt), BF_indices.
    Qed.

    Theorem ofused_sem_eq : sem G R (fused_on G R a b la [] [] rb) (csl ++ csr) = sem G R ww (csl ++ csr).
    Proof.
      rewrite ofused_on_eq, oW.
      pose proof (coords_ok_length G _ _ Hcl) as Hlcl. pose proof (coords_ok_length G _ _ Hcr) as Hlcr.
      assert (HdL : okL \/ (2 <= length la /\ forall s', In s' (sectors G R a) -> group_subsector G s' la <> map fst csl)).
      { destruct (Nat.le_gt_cases 2 (length la)) as [H2|H2]; [|left; intros ?; lia].
        destruct (rec_dec G R GL a la (map fst csl)) as [H|H]; [left; intros _; exact H|right; now split]. }
      destruct HdL as [HokL|[H2la HnoL]].
      2:{ rewrite (sem_a_unrec csl Hlcl HnoL), (rmul_0_l R RL).
          exact (oU_noneL G R GL OL a b la rb LA RB occ Hwa Hwb oneA ondA orgA oneB ondB orgB oinA oinB
                   occ_indices occ_nd occ_shape0 occ_data csl csr oHcl' H2la HnoL). }
      assert (HdR : okR \/ (2 <= length rb /\ forall s', In s' (sectors G R b) -> group_subsector G s' rb <> map fst csr)).
      { destruct (Nat.le_gt_cases 2 (length rb)) as [H2|H2]; [|left; intros ?; lia].
        destruct (rec_dec G R GL b rb (map fst csr)) as [H|H]; [left; intros _; exact H|right; now split]. }
      destruct HdR as [HokR|[H2rb HnoR]].
      2:{ rewrite (sem_b_unrec csr Hlcr HnoR), (rmul_0_r R RL).
          exact (oU_noneR G R GL OL a b la rb LA RB occ Hwa Hwb oneA ondA orgA oneB ondB orgB oinA oinB
                   occ_indices occ_nd occ_shape0 occ_data csl csr oHcl' oHcr' HokL H2rb HnoR). }
      rewrite (oU_sem G R GL OL a b la rb LA RB occ Hwa Hwb oneA ondA orgA oneB ondB orgB oinA oinB
                 occ_indices occ_nd occ_shape0 occ_data csl csr oHcl' oHcr' HokL HokR).
      rewrite (oP HokL HokR). unfold oflL, ofrL.
      rewrite (proj1 (proj2 (proj2 (proj2 (proj2 (proj2 (proj2 VA)))))) csl Hcl HokL).
      now rewrite (proj1 (proj2 (proj2 (proj2 (proj2 (proj2 (proj2 VB)))))) csr Hcr HokR).
    Qed.
  End OC.
  (* ---------------- every coordinate list ---------------- *)
  Lemma oww_wf : wf_array G R ww = true.
  Proof.
    rewrite Hla, Hrb.
    apply (tdot_blockwise_wf G GL R OL a b [] [] Hwa Hwb).
    - constructor.
    - intros i [].
    - constructor.
    - intros i [].
    - reflexivity.
    - intros k Hk. cbn in Hk. lia.
  Qed.
  Lemma oww_facts K T : In (K, T) (blocks G R ww) ->
    length K = length free /\ tshape T = block_shape G free K /\ length (tdata T) = shape_size (tshape T).
  Proof.
    intros Hin. pose proof oww_wf as Hw. apply (wf_array_iff G GL R ww) in Hw.
    destruct (wf_bl G R _ _ _ Hw K T Hin) as ((Hl & _) & Hsh & Hd). rewrite oww_indices in Hl, Hsh. now repeat split.
  Qed.
  Lemma oc2_facts' K T : In (K, T) (blocks G R c2) ->
    length K = length free /\ tshape T = block_shape G free K /\ length (tdata T) = shape_size (tshape T).
  Proof.
    exact (oc2_facts G R GL OL a b la rb LA RB occ Hwa Hwb oneA ondA orgA oneB ondB orgB oinA oinB
             occ_indices occ_nd occ_shape0 occ_data K T).
  Qed.

  Lemma osem_inrange cs : coords_ok G free cs = true -> sem G R c2 cs = sem G R ww cs.
  Proof.
    intros Hc. rewrite la_all, rb_all in Hc. destruct (coords_ok_app_inv G _ _ cs Hc) as (E & H1 & H2).
    rewrite E, <- ofused_on_eq. now apply ofused_sem_eq.
  Qed.

  Lemma oget_inrange K idx : length K = length free -> inb (block_shape G free K) idx = true ->
    sem G R c2 (List.combine K idx) = sem G R ww (List.combine K idx) /\
    map fst (List.combine K idx) = K /\ map snd (List.combine K idx) = idx.
  Proof.
    intros Hl Hi. destruct (coords_ok_combine G free K idx Hl Hi) as (Hc & E1 & E2).
    split; [now apply osem_inrange|now split].
  Qed.

  Theorem osem_everywhere cs : sem G R (fused_on G R a b la [] [] rb) cs = sem G R ww cs.
  Proof.
    rewrite ofused_on_eq. unfold sem.
    destruct (lookup keq (map fst cs) (blocks G R c2)) as [Tf|] eqn:Ef;
      destruct (lookup keq (map fst cs) (blocks G R ww)) as [Tw|] eqn:Ew; [| | |reflexivity].
    - pose proof (OrderProofs.lookup_In keq (Hke G GL) _ _ _ Ef) as Hf. pose proof (OrderProofs.lookup_In keq (Hke G GL) _ _ _ Ew) as Hw.
      destruct (oc2_facts' _ _ Hf) as (Hl & Hsf & Hdf). destruct (oww_facts _ _ Hw) as (_ & Hsw & Hdw).
      assert (E : Tf = Tw).
      { apply tensor_ext; [now rewrite Hsf, Hsw|exact Hdf|exact Hdw|].
        intros idx Hi. rewrite Hsf in Hi. destruct (oget_inrange _ idx Hl Hi) as (Hs & E1 & E2).
        unfold sem in Hs. rewrite E1, E2, Ef, Ew in Hs. exact Hs. }
      now rewrite E.
    - pose proof (OrderProofs.lookup_In keq (Hke G GL) _ _ _ Ef) as Hf.
      destruct (oc2_facts' _ _ Hf) as (Hl & Hsf & Hdf).
      assert (Hz : Forall (fun v => v = r0 R) (tdata Tf)).
      { apply (all_zero_of_get R Tf Hdf). intros idx Hi. rewrite Hsf in Hi.
        destruct (oget_inrange _ idx Hl Hi) as (Hs & E1 & E2). unfold sem in Hs. rewrite E1, E2, Ef, Ew in Hs. exact Hs. }
      unfold get. now apply nth_all_eq.
    - pose proof (OrderProofs.lookup_In keq (Hke G GL) _ _ _ Ew) as Hw.
      destruct (oww_facts _ _ Hw) as (Hl & Hsw & Hdw).
      assert (Hz : Forall (fun v => v = r0 R) (tdata Tw)).
      { apply (all_zero_of_get R Tw Hdw). intros idx Hi. rewrite Hsw in Hi.
        destruct (oget_inrange _ idx Hl Hi) as (Hs & E1 & E2). unfold sem in Hs. rewrite E1, E2, Ef, Ew in Hs. now symmetry. }
      unfold get. symmetry. now apply nth_all_eq.
  Qed.
End OuterProduct.

(* ------------------------------------------------------------------ *)
(* Part C: the statements of Props/C06.v without restriction *)
Section Unrestricted.
  Context (G : Symmetry) (R : Ring) (GL : GroupLaws G) (OL : OrderLaws G) (RL : SumLaws R).
  Notation idc := (ident G).
  Notation dflt := (dflt_index G).

  Lemma aligned_present (a b : aarray G R) (aa ab : list nat) :
    wf_array G R a = true -> wf_array G R b = true ->
    let a1 := al_a G R a b aa ab in
    let b1 := al_b G R a b aa ab in
    wf_array G R a1 = true /\ wf_array G R b1 = true /\
    (forall ax c, ax < ndim G R a1 -> In c (icharges G (nth ax (indices G R a1) dflt)) ->
       exists s, In s (sectors G R a1) /\ nth ax s idc = c) /\
    (forall ax c, ax < ndim G R b1 -> In c (icharges G (nth ax (indices G R b1) dflt)) ->
       exists s, In s (sectors G R b1) /\ nth ax s idc = c).
  Proof.
    intros Hwa Hwb. cbn zeta.
    destruct (drop_misaligned_wf G GL R OL a b aa ab Hwa Hwb) as [Hwa1 Hwb1].
    fold (al_a G R a b aa ab) in Hwa1. fold (al_b G R a b aa ab) in Hwb1.
    split; [exact Hwa1|]. split; [exact Hwb1|]. split.
    - intros ax c Hax Hc. rewrite indices_al_a in Hc.
      rewrite (nth_prune G) in Hc by (rewrite ndim_al_a in Hax; exact Hax).
      apply (prune1_present G GL) in Hc. apply (mem_In (ceqb G) (Hce G GL)) in Hc.
      apply in_map_iff in Hc. destruct Hc as (s & E & Hs). exists s. now split.
    - intros ax c Hax Hc. rewrite indices_al_b in Hc.
      rewrite (nth_prune G) in Hc by (rewrite ndim_al_b in Hax; exact Hax).
      apply (prune1_present G GL) in Hc. apply (mem_In (ceqb G) (Hce G GL)) in Hc.
      apply in_map_iff in Hc. destruct Hc as (s & E & Hs). exists s. now split.
  Qed.

  Theorem fused_eq_blockwise_outer (a b : aarray G R) (la rb : list nat) :
    wf_array G R a = true -> wf_array G R b = true ->
    la = rest_axes (ndim G R a) [] -> rb = rest_axes (ndim G R b) [] ->
    let f := tdot_fused2 G R a b la [] [] rb in
    let w := tdot_blockwise G R a b la [] [] rb in
    charge G R f = charge G R w /\ indices G R f = indices G R w /\ forall cs, sem G R f cs = sem G R w cs.
  Proof.
    intros Hwa Hwb Hla Hrb. cbn zeta. split; [apply fused_charge|].
    destruct (is_nil (blocks G R (al_a G R a b [] [])) || is_nil (blocks G R (al_b G R a b [] []))) eqn:Eemp.
    - destruct (fused_eq_blockwise_empty G R GL a b la [] [] rb Hla Hrb Eemp) as [E _]. rewrite E.
      split; [reflexivity|]. intros; reflexivity.
    - rewrite (proj2 (strategies_factor_through_aligned G R GL a b la [] [] rb Hla Hrb)).
      rewrite tdot_fused2_unfold, Eemp.
      destruct (aligned_present a b [] [] Hwa Hwb) as (Hwa1 & Hwb1 & HpA & HpB).
      apply orb_false_iff in Eemp. destruct Eemp as [EA EB].
      set (a1 := al_a G R a b [] []) in *. set (b1 := al_b G R a b [] []) in *.
      assert (HneA : blocks G R a1 <> []) by (intros E; rewrite E in EA; discriminate).
      assert (HneB : blocks G R b1 <> []) by (intros E; rewrite E in EB; discriminate).
      assert (Hna : ndim G R a1 = ndim G R a) by apply ndim_al_a.
      assert (Hnb : ndim G R b1 = ndim G R b) by apply ndim_al_b.
      rewrite <- Hna in Hla. rewrite <- Hnb in Hrb.
      split.
      + exact (ofused_indices_eq G R GL OL a1 b1 la rb Hla Hrb Hwa1 Hwb1 HpA HpB HneA HneB).
      + intros cs. exact (osem_everywhere G R GL OL RL a1 b1 la rb Hla Hrb Hwa1 Hwb1 HpA HpB HneA HneB cs).
  Qed.

  (* C06_fused_eq_blockwise_full *)
  Theorem fused_eq_blockwise_full_stmt :
    forall (a b : aarray G R) (la aa ab rb : list nat),
    wf_array G R a = true -> wf_array G R b = true ->
    axes_ok (ndim G R a) aa = true -> axes_ok (ndim G R b) ab = true ->
    legs_match G R a b aa ab ->
    la = rest_axes (ndim G R a) aa -> rb = rest_axes (ndim G R b) ab ->
    let f := tdot_fused2 G R a b la aa ab rb in
    let w := tdot_blockwise G R a b la aa ab rb in
    charge G R f = charge G R w /\
    indices G R f = indices G R w /\
    forall cs, sem G R f cs = sem G R w cs.
  Proof.
    intros a b la aa ab rb Hwa Hwb Haa Hab Hlm Hla Hrb.
    destruct aa as [|a0 aa'].
    - assert (Eab : ab = []) by (destruct Hlm as (Hl & _); destruct ab; [reflexivity|discriminate]).
      subst ab. now apply fused_eq_blockwise_outer.
    - apply (fused_eq_blockwise G R GL OL RL a b la (a0 :: aa') ab rb Hwa Hwb Haa Hab Hlm Hla Hrb). discriminate.
  Qed.

  (* C06_all_modes_agree_full *)
  Theorem all_modes_agree_full_stmt :
    forall (a b : aarray G R) (axes : nat + (list Z * list Z)) (aa ab : list nat) (m1 m2 : tmode),
    parse_axes (ndim G R a) (ndim G R b) axes = Some (aa, ab) ->
    wf_array G R a = true -> wf_array G R b = true ->
    axes_ok (ndim G R a) aa = true -> axes_ok (ndim G R b) ab = true ->
    legs_match G R a b aa ab ->
    exists r1 r2, a_tensordot2 G R a b axes m1 = Some r1 /\ a_tensordot2 G R a b axes m2 = Some r2 /\
      charge G R r1 = charge G R r2 /\ indices G R r1 = indices G R r2 /\
      forall cs, sem G R r1 cs = sem G R r2 cs.
  Proof.
    intros a b axes aa ab m1 m2 Hp Hwa Hwb Haa Hab Hlm.
    destruct (tensordot2_modes G R a b axes aa ab Hp) as (Hb & Hf & Ha).
    destruct (fused_eq_blockwise_full_stmt a b _ aa ab _ Hwa Hwb Haa Hab Hlm eq_refl eq_refl) as (Hq & Hi & Hs).
    destruct (is_nil aa) eqn:En.
    - (* auto = blockwise *)
      rewrite Hb in Ha.
      destruct m1, m2; eexists; eexists;
        (split; [first [exact Ha|exact Hf|exact Hb]|split; [first [exact Ha|exact Hf|exact Hb]|]]);
        (split; [first [reflexivity|exact Hq|symmetry; exact Hq]
                |split; [first [reflexivity|exact Hi|symmetry; exact Hi]
                        |intros cs; first [reflexivity|exact (Hs cs)|symmetry; exact (Hs cs)]]]).
    - rewrite Hf in Ha.
      destruct m1, m2; eexists; eexists;
        (split; [first [exact Ha|exact Hf|exact Hb]|split; [first [exact Ha|exact Hf|exact Hb]|]]);
        (split; [first [reflexivity|exact Hq|symmetry; exact Hq]
                |split; [first [reflexivity|exact Hi|symmetry; exact Hi]
                        |intros cs; first [reflexivity|exact (Hs cs)|symmetry; exact (Hs cs)]]]).
  Qed.
End Unrestricted.

(* ------------------------------------------------------------------ *)
(* Example: no contracted axis (outer product of two sparse U1 arrays through the fused route) *)
Module ExC06c.
  Import ExC06.
  Example outer_hyps :
    wf_array U1 ZRing xa = true /\ wf_array U1 ZRing xb = true /\
    axes_ok (ndim U1 ZRing xa) [] = true /\ axes_ok (ndim U1 ZRing xb) [] = true /\ legs_match U1 ZRing xa xb [] [].
  Proof.
    split; [vm_compute; reflexivity|]. split; [vm_compute; reflexivity|]. split; [reflexivity|]. split; [reflexivity|].
    split; [reflexivity|]. split; [constructor|]. split; [constructor|]. intros k Hk. cbn in Hk. lia.
  Qed.
  Example outer_values :
    let f := tdot_fused2 U1 ZRing xa xb [0; 1; 2] [] [] [0; 1; 2] in
    let w := tdot_blockwise U1 ZRing xa xb [0; 1; 2] [] [] [0; 1; 2] in
    length (blocks U1 ZRing f) = 9 /\ length (blocks U1 ZRing w) = 9 /\
    list_eqb (index_eqb U1) (indices U1 ZRing f) (indices U1 ZRing w) = true /\
    forallb (fun cs => Z.eqb (sem U1 ZRing f cs) (sem U1 ZRing w cs)) (all_coords U1 (indices U1 ZRing w)) = true.
  Proof. repeat split; vm_compute; reflexivity. Qed.
  Example outer_theorem_applies :
    forall cs, sem U1 ZRing (tdot_fused2 U1 ZRing xa xb [0; 1; 2] [] [] [0; 1; 2]) cs =
               sem U1 ZRing (tdot_blockwise U1 ZRing xa xb [0; 1; 2] [] [] [0; 1; 2]) cs.
  Proof.
    destruct outer_hyps as (H1 & H2 & H3 & H4 & H5).
    exact (proj2 (proj2 (fused_eq_blockwise_full_stmt U1 ZRing U1_laws U1_order ZRing_sum_laws xa xb [0; 1; 2] [] [] [0; 1; 2]
                    H1 H2 H3 H4 H5 eq_refl eq_refl))).
  Qed.
End ExC06c.
