(* Proofs/OrderProofs.v -- strict total orders, insertion sort, lexicographic
   list order, boolean membership reflection and association-list facts.
   Everything here is fully proved; stdlib only. *)
From SV Require Import Base.Prelude Base.Sym Model.SymInst Model.Array Model.Wf Proofs.SymLaws.
From Coq Require Import Permutation Sorting Lia.
Local Open Scope nat_scope.

(* ------------------------------------------------------------------ *)
(* strict total orders given by a boolean less-than *)

Record strict_total {K : Type} (ltb : K -> K -> bool) : Prop := {
  st_irrefl : forall a, ltb a a = false;
  st_trans : forall a b c, ltb a b = true -> ltb b c = true -> ltb a c = true;
  st_total : forall a b, ltb a b = false -> ltb b a = false -> a = b }.

Definition OrderLaws (G : Symmetry) : Prop := strict_total (cltb G).

Lemma Zltb_strict_total : strict_total Z.ltb.
Proof.
  constructor.
  - intros a. apply Z.ltb_irrefl.
  - intros a b c H1 H2. apply Z.ltb_lt in H1. apply Z.ltb_lt in H2. apply Z.ltb_lt. lia.
  - intros a b H1 H2. apply Z.ltb_ge in H1. apply Z.ltb_ge in H2. lia.
Qed.

Lemma pair_ltb_strict_total : strict_total pair_ltb.
Proof.
  constructor.
  - intros [a1 a2]. unfold pair_ltb. cbn [fst snd].
    rewrite !Z.ltb_irrefl, andb_false_r. reflexivity.
  - intros [a1 a2] [b1 b2] [c1 c2]. unfold pair_ltb. cbn [fst snd].
    rewrite !orb_true_iff, !andb_true_iff, !Z.ltb_lt, !Z.eqb_eq. intros H1 H2. lia.
  - intros [a1 a2] [b1 b2]. unfold pair_ltb. cbn [fst snd].
    rewrite !orb_false_iff, !andb_false_iff, !Z.ltb_ge, !Z.eqb_neq. intros H1 H2.
    f_equal; lia.
Qed.

Theorem Z2_order : OrderLaws Z2.
Proof. exact Zltb_strict_total. Qed.

Theorem Z4_order : OrderLaws Z4.
Proof. exact Zltb_strict_total. Qed.

Theorem U1_order : OrderLaws U1.
Proof. exact Zltb_strict_total. Qed.

Theorem Z2Z2_order : OrderLaws Z2Z2.
Proof. exact pair_ltb_strict_total. Qed.

Theorem U1U1_order : OrderLaws U1U1.
Proof. exact pair_ltb_strict_total. Qed.

(* ------------------------------------------------------------------ *)
(* boolean equality reflection, lexicographic order on lists *)

Definition eqb_spec_on {K} (eqb : K -> K -> bool) : Prop := forall a b, eqb a b = true <-> a = b.

Lemma Zeqb_spec : eqb_spec_on Z.eqb.
Proof. intros a b. apply Z.eqb_eq. Qed.

Lemma pair_eqb_spec : eqb_spec_on (pair_eqb Z.eqb Z.eqb).
Proof. intros a b. apply pair_eqb_eq. Qed.

Lemma ceqb_spec (G : Symmetry) : GroupLaws G -> eqb_spec_on (ceqb G).
Proof. intros HG a b. apply (ceqb_eq G HG). Qed.

Lemma list_eqb_spec {K} (eqb : K -> K -> bool) : eqb_spec_on eqb -> eqb_spec_on (list_eqb eqb).
Proof.
  intros He l1. induction l1 as [|x l1 IH]; intros [|y l2]; cbn [list_eqb].
  - split; intros _; reflexivity.
  - split; intros H; discriminate H.
  - split; intros H; discriminate H.
  - rewrite andb_true_iff, (He x y), (IH l2). split.
    + intros [H1 H2]. subst. reflexivity.
    + intros H. inversion H. split; reflexivity.
Qed.

Lemma list_ltb_strict_total {K} (ltb eqb : K -> K -> bool) :
  strict_total ltb -> eqb_spec_on eqb -> strict_total (list_ltb ltb eqb).
Proof.
  intros Hs He.
  assert (Hrefl : forall a, eqb a a = true) by (intros a; apply He; reflexivity).
  constructor.
  - intros a. induction a as [|x a IH]; cbn [list_ltb]; [reflexivity|].
    rewrite (st_irrefl _ Hs x), IH, andb_false_r. reflexivity.
  - intros a. induction a as [|x a IH]; intros [|y b] [|z c]; cbn [list_ltb];
      intros H1 H2; try discriminate H1; try discriminate H2; try reflexivity.
    apply orb_true_iff in H1. apply orb_true_iff in H2. apply orb_true_iff.
    destruct H1 as [H1|H1]; destruct H2 as [H2|H2].
    + left. exact (st_trans _ Hs _ _ _ H1 H2).
    + apply andb_true_iff in H2. destruct H2 as [H2 H2']. apply He in H2. subst z.
      left. exact H1.
    + apply andb_true_iff in H1. destruct H1 as [H1 H1']. apply He in H1. subst y.
      left. exact H2.
    + apply andb_true_iff in H1. destruct H1 as [H1 H1']. apply He in H1. subst y.
      apply andb_true_iff in H2. destruct H2 as [H2 H2']. apply He in H2. subst z.
      right. rewrite Hrefl. cbn [andb]. exact (IH _ _ H1' H2').
  - intros a. induction a as [|x a IH]; intros [|y b]; cbn [list_ltb];
      intros H1 H2; try discriminate H1; try discriminate H2; try reflexivity.
    apply orb_false_iff in H1. destruct H1 as [H1 H1'].
    apply orb_false_iff in H2. destruct H2 as [H2 H2'].
    pose proof (st_total _ Hs x y H1 H2) as E. subst y.
    rewrite Hrefl in H1', H2'. cbn [andb] in H1', H2'.
    f_equal. exact (IH _ H1' H2').
Qed.

(* ------------------------------------------------------------------ *)
(* less-than as a Prop relation; insertion sort *)

Definition ltP {K} (ltb : K -> K -> bool) (a b : K) : Prop := ltb a b = true.

Lemma Forall_perm {A} (P : A -> Prop) l1 l2 : Permutation l1 l2 -> Forall P l1 -> Forall P l2.
Proof.
  intros Hp HF. apply Forall_forall. intros x Hx. rewrite Forall_forall in HF. apply HF.
  eapply Permutation_in; [apply Permutation_sym; exact Hp | exact Hx].
Qed.

Lemma insert_sorted_perm {A} (lt : A -> A -> bool) x l :
  Permutation (insert_sorted lt x l) (x :: l).
Proof.
  induction l as [|y l IH]; cbn [insert_sorted]; [apply Permutation_refl|].
  destruct (lt y x).
  - eapply Permutation_trans; [apply perm_skip; exact IH | apply perm_swap].
  - apply Permutation_refl.
Qed.

Lemma isort_cons {A} (lt : A -> A -> bool) x l :
  isort lt (x :: l) = insert_sorted lt x (isort lt l).
Proof. reflexivity. Qed.

Lemma isort_nil {A} (lt : A -> A -> bool) : isort lt [] = [].
Proof. reflexivity. Qed.

Lemma isort_perm {A} (lt : A -> A -> bool) l : Permutation (isort lt l) l.
Proof.
  induction l as [|x l IH]; [rewrite isort_nil; apply Permutation_refl|].
  rewrite isort_cons.
  eapply Permutation_trans; [apply insert_sorted_perm | apply perm_skip; exact IH].
Qed.

Lemma insert_sorted_SS {A K} (key : A -> K) (ltb : K -> K -> bool) x l :
  strict_total ltb -> StronglySorted (ltP ltb) (map key l) -> ~ In (key x) (map key l) ->
  StronglySorted (ltP ltb) (map key (insert_sorted (fun a b => ltb (key a) (key b)) x l)).
Proof.
  intros Hs. induction l as [|y l IH]; intros HS Hn; cbn [insert_sorted].
  - cbn [map]. constructor; constructor.
  - cbn [map] in HS, Hn. apply StronglySorted_inv in HS. destruct HS as [HS HF].
    destruct (ltb (key y) (key x)) eqn:E.
    + cbn [map]. constructor.
      * apply IH; [exact HS | intros Hi; apply Hn; right; exact Hi].
      * eapply Forall_perm;
          [apply Permutation_sym; apply Permutation_map; apply insert_sorted_perm|].
        cbn [map]. constructor; [exact E | exact HF].
    + assert (E' : ltb (key x) (key y) = true).
      { destruct (ltb (key x) (key y)) eqn:E2; [reflexivity|]. exfalso. apply Hn. left.
        symmetry. exact (st_total _ Hs _ _ E2 E). }
      cbn [map]. constructor.
      * constructor; assumption.
      * constructor; [exact E'|]. eapply Forall_impl; [|exact HF].
        intros z Hz. unfold ltP in *. exact (st_trans _ Hs _ _ _ E' Hz).
Qed.

Lemma isort_sorted {A K} (key : A -> K) (ltb : K -> K -> bool) l :
  strict_total ltb -> NoDup (map key l) ->
  StronglySorted (ltP ltb) (map key (isort (fun a b => ltb (key a) (key b)) l)).
Proof.
  intros Hs. induction l as [|x l IH]; intros Hnd.
  - rewrite isort_nil. cbn [map]. constructor.
  - cbn [map] in Hnd. inversion Hnd as [|x0 l0 Hni Hnd']; subst.
    rewrite isort_cons.
    apply insert_sorted_SS; [exact Hs | apply IH; exact Hnd' |].
    intros Hi. apply Hni.
    eapply Permutation_in; [apply Permutation_map; apply isort_perm | exact Hi].
Qed.

Lemma sorted_by_cons2 {K} (ltb : K -> K -> bool) x y l :
  sorted_by ltb (x :: y :: l) = ltb x y && sorted_by ltb (y :: l).
Proof. reflexivity. Qed.

Lemma sorted_by_of_SS {K} (ltb : K -> K -> bool) l :
  StronglySorted (ltP ltb) l -> sorted_by ltb l = true.
Proof.
  induction l as [|x l IH]; intros HS; [reflexivity|].
  apply StronglySorted_inv in HS. destruct HS as [HS HF].
  destruct l as [|y l']; [reflexivity|].
  rewrite sorted_by_cons2. pose proof (Forall_inv HF) as Hxy. unfold ltP in Hxy.
  rewrite Hxy. cbn [andb]. apply IH. exact HS.
Qed.

Lemma SS_of_sorted_by {K} (ltb : K -> K -> bool) l :
  strict_total ltb -> sorted_by ltb l = true -> StronglySorted (ltP ltb) l.
Proof.
  intros Hs. induction l as [|x l IH]; intros H; [constructor|].
  destruct l as [|y l'].
  - constructor; constructor.
  - rewrite sorted_by_cons2 in H. apply andb_true_iff in H. destruct H as [Hxy H].
    specialize (IH H). constructor; [exact IH|].
    apply StronglySorted_inv in IH. destruct IH as [_ HF].
    constructor; [exact Hxy|]. eapply Forall_impl; [|exact HF].
    intros z Hz. unfold ltP in *. exact (st_trans _ Hs _ _ _ Hxy Hz).
Qed.

Lemma SS_NoDup {K} (ltb : K -> K -> bool) l :
  strict_total ltb -> StronglySorted (ltP ltb) l -> NoDup l.
Proof.
  intros Hs HS. induction HS as [|x l HS IH HF]; constructor; [|exact IH].
  intros Hi. rewrite Forall_forall in HF. specialize (HF x Hi). unfold ltP in HF.
  rewrite (st_irrefl _ Hs) in HF. discriminate HF.
Qed.

Lemma SS_filter {K} (R : K -> K -> Prop) (f : K -> bool) l :
  StronglySorted R l -> StronglySorted R (filter f l).
Proof.
  intros HS. induction HS as [|x l HS IH HF]; cbn [filter]; [constructor|].
  destruct (f x); [|exact IH].
  constructor; [exact IH|]. apply Forall_forall. intros y Hy.
  apply filter_In in Hy. destruct Hy as [Hy _].
  rewrite Forall_forall in HF. apply HF. exact Hy.
Qed.

Lemma SS_map_filter {A K} (R : K -> K -> Prop) (key : A -> K) (f : A -> bool) (l : list A) :
  StronglySorted R (map key l) -> StronglySorted R (map key (filter f l)).
Proof.
  induction l as [|x l IH]; intros HS; cbn [filter]; [cbn [map]; constructor|].
  cbn [map] in HS. apply StronglySorted_inv in HS. destruct HS as [HS HF].
  destruct (f x); [|apply IH; exact HS].
  cbn [map]. constructor; [apply IH; exact HS|].
  apply Forall_forall. intros y Hy. apply in_map_iff in Hy. destruct Hy as [a [Ea Ha]].
  subst y. apply filter_In in Ha. destruct Ha as [Ha _].
  rewrite Forall_forall in HF. apply HF. apply in_map. exact Ha.
Qed.

(* a sorted list is determined by its set of elements *)
Lemma SS_perm_eq {K} (ltb : K -> K -> bool) l1 l2 : strict_total ltb ->
  StronglySorted (ltP ltb) l1 -> StronglySorted (ltP ltb) l2 -> Permutation l1 l2 -> l1 = l2.
Proof.
  intros Hs. revert l2. induction l1 as [|x l1 IH]; intros l2 H1 H2 Hp.
  - apply Permutation_nil in Hp. symmetry. exact Hp.
  - destruct l2 as [|y l2].
    + apply Permutation_sym in Hp. apply Permutation_nil in Hp. discriminate Hp.
    + apply StronglySorted_inv in H1. destruct H1 as [H1 F1].
      apply StronglySorted_inv in H2. destruct H2 as [H2 F2].
      assert (E : x = y).
      { assert (Hx : In x (y :: l2))
          by (eapply Permutation_in; [exact Hp | left; reflexivity]).
        assert (Hy : In y (x :: l1))
          by (eapply Permutation_in; [apply Permutation_sym; exact Hp | left; reflexivity]).
        destruct Hx as [Hx|Hx]; [symmetry; exact Hx|].
        destruct Hy as [Hy|Hy]; [exact Hy|].
        rewrite Forall_forall in F1, F2.
        pose proof (F1 y Hy) as A1. pose proof (F2 x Hx) as A2. unfold ltP in A1, A2.
        pose proof (st_trans _ Hs _ _ _ A1 A2) as A3.
        rewrite (st_irrefl _ Hs) in A3. discriminate A3. }
      subst y. f_equal.
      apply IH; [exact H1 | exact H2 | eapply Permutation_cons_inv; exact Hp].
Qed.

(* ------------------------------------------------------------------ *)
(* boolean membership / nodup reflection *)

Lemma mem_In {K} (eqb : K -> K -> bool) :
  eqb_spec_on eqb -> forall x l, mem eqb x l = true <-> In x l.
Proof.
  intros He x l. induction l as [|y l IH]; cbn [mem In].
  - split; [intros H; discriminate H | intros H; contradiction].
  - rewrite orb_true_iff, IH, (He x y). split.
    + intros [H|H]; [left; symmetry; exact H | right; exact H].
    + intros [H|H]; [left; symmetry; exact H | right; exact H].
Qed.

Lemma nodupb_NoDup {K} (eqb : K -> K -> bool) :
  eqb_spec_on eqb -> forall l, nodupb eqb l = true <-> NoDup l.
Proof.
  intros He l. induction l as [|x l IH]; cbn [nodupb].
  - split; [intros _; constructor | intros _; reflexivity].
  - rewrite andb_true_iff, negb_true_iff, IH. split.
    + intros [Hm Hn]. constructor; [|exact Hn]. intros Hi.
      apply (mem_In eqb He) in Hi. rewrite Hi in Hm. discriminate Hm.
    + intros Hn. inversion Hn as [|x0 l0 Hni Hn']; subst. split; [|exact Hn'].
      destruct (mem eqb x l) eqn:E; [|reflexivity]. exfalso. apply Hni.
      apply (mem_In eqb He). exact E.
Qed.

(* ------------------------------------------------------------------ *)
(* association-list (Python dict) facts *)

Section DictFacts.
  Context {K V : Type} (keqb : K -> K -> bool) (Hk : eqb_spec_on keqb).

  Lemma keqb_refl k : keqb k k = true.
  Proof. apply Hk. reflexivity. Qed.

  Lemma lookup_dset k k' (v : V) d :
    lookup keqb k' (dset keqb k v d) = if keqb k' k then Some v else lookup keqb k' d.
  Proof.
    induction d as [|[k0 v0] d IH]; cbn [dset lookup].
    - reflexivity.
    - destruct (keqb k k0) eqn:E; cbn [lookup].
      + apply Hk in E. subst k0. destruct (keqb k' k); reflexivity.
      + rewrite IH. destruct (keqb k' k0) eqn:E0; [|reflexivity].
        destruct (keqb k' k) eqn:E1; [|reflexivity].
        apply Hk in E0. apply Hk in E1. subst k0. subst k'.
        rewrite keqb_refl in E. discriminate E.
  Qed.

  Lemma keys_dset_in k (v : V) d :
    In k (map fst d) -> map fst (dset keqb k v d) = map fst d.
  Proof.
    induction d as [|[k0 v0] d IH]; cbn [dset map fst In]; intros H; [contradiction|].
    destruct (keqb k k0) eqn:E; cbn [map fst]; [reflexivity|].
    f_equal. apply IH. destruct H as [H|H]; [|exact H].
    subst k0. rewrite keqb_refl in E. discriminate E.
  Qed.

  Lemma keys_dset_notin k (v : V) d :
    ~ In k (map fst d) -> dset keqb k v d = d ++ [(k, v)].
  Proof.
    induction d as [|[k0 v0] d IH]; cbn [dset map fst In app]; intros H; [reflexivity|].
    destruct (keqb k k0) eqn:E.
    - apply Hk in E. exfalso. apply H. left. symmetry. exact E.
    - f_equal. apply IH. intros Hi. apply H. right. exact Hi.
  Qed.

  Lemma lookup_None_iff k (d : list (K * V)) :
    lookup keqb k d = None <-> ~ In k (map fst d).
  Proof.
    induction d as [|[k0 v0] d IH]; cbn [lookup map fst In].
    - split; [intros _ H; exact H | intros _; reflexivity].
    - destruct (keqb k k0) eqn:E.
      + apply Hk in E. split; [intros H; discriminate H|].
        intros H. exfalso. apply H. left. symmetry. exact E.
      + rewrite IH. split.
        * intros H [H'|H']; [|exact (H H')].
          subst k0. rewrite keqb_refl in E. discriminate E.
        * intros H H'. apply H. right. exact H'.
  Qed.

  Lemma lookup_In k (v : V) d : lookup keqb k d = Some v -> In (k, v) d.
  Proof.
    induction d as [|[k0 v0] d IH]; cbn [lookup In]; intros H; [discriminate H|].
    destruct (keqb k k0) eqn:E.
    - apply Hk in E. inversion H. subst. left. reflexivity.
    - right. apply IH. exact H.
  Qed.

  Lemma In_lookup k (v : V) d :
    NoDup (map fst d) -> In (k, v) d -> lookup keqb k d = Some v.
  Proof.
    induction d as [|[k0 v0] d IH]; cbn [lookup In map fst]; intros Hn Hi; [contradiction|].
    inversion Hn as [|x0 l0 Hni Hn']; subst.
    destruct Hi as [Hi|Hi].
    - inversion Hi; subst. rewrite keqb_refl. reflexivity.
    - destruct (keqb k k0) eqn:E; [|apply IH; assumption].
      apply Hk in E. subst k0. exfalso. apply Hni.
      apply in_map_iff. exists (k, v). split; [reflexivity | exact Hi].
  Qed.

  Lemma lookup_app k (d1 d2 : list (K * V)) :
    lookup keqb k (d1 ++ d2) =
    match lookup keqb k d1 with Some v => Some v | None => lookup keqb k d2 end.
  Proof.
    induction d1 as [|[k0 v0] d1 IH]; cbn [lookup app]; [reflexivity|].
    destruct (keqb k k0); [reflexivity | exact IH].
  Qed.

  Lemma lookup_perm k (d1 d2 : list (K * V)) :
    NoDup (map fst d1) -> Permutation d1 d2 -> lookup keqb k d1 = lookup keqb k d2.
  Proof.
    intros Hn Hp. destruct (lookup keqb k d1) as [v|] eqn:E.
    - symmetry. apply In_lookup.
      + eapply Permutation_NoDup; [apply Permutation_map; exact Hp | exact Hn].
      + eapply Permutation_in; [exact Hp | apply lookup_In; exact E].
    - symmetry. apply lookup_None_iff. apply lookup_None_iff in E. intros Hi. apply E.
      eapply Permutation_in; [apply Permutation_sym; apply Permutation_map; exact Hp | exact Hi].
  Qed.

  Lemma dset_keys_NoDup k (v : V) d :
    NoDup (map fst d) -> NoDup (map fst (dset keqb k v d)).
  Proof.
    intros Hn. destruct (mem keqb k (map fst d)) eqn:E.
    - apply (mem_In keqb Hk) in E. rewrite (keys_dset_in k v d E). exact Hn.
    - assert (Hni : ~ In k (map fst d)).
      { intros Hi. apply (mem_In keqb Hk) in Hi. rewrite Hi in E. discriminate E. }
      rewrite (keys_dset_notin k v d Hni). rewrite map_app. cbn [map fst].
      eapply Permutation_NoDup; [apply Permutation_cons_append|].
      constructor; assumption.
  Qed.
End DictFacts.
